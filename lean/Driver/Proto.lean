/-
  Line-protocol helpers shared by the driver streams. Core Lean only.
-/
import Fan2go.F64.Basic
import Fan2go.Model.Util
namespace Driver
open Fan2go

abbrev KV := List (String × String)

def parseKV (toks : List String) : KV :=
  toks.map fun t =>
    match t.splitOn "=" with
    | [k] => (k, "")
    | k :: rest => (k, "=".intercalate rest)
    | [] => ("", "")

def KV.get? (m : KV) (k : String) : Option String := (m.find? (·.1 == k)).map (·.2)
def KV.str (m : KV) (k : String) (d : String) : String := (m.get? k).getD d

def parseInt? (s : String) : Option Int := s.toInt?

def KV.int (m : KV) (k : String) (d : Int) : Int :=
  match m.get? k with
  | some v => if v == "-" then d else (parseInt? v).getD d
  | none => d

def KV.optInt (m : KV) (k : String) : Option Int :=
  match m.get? k with
  | some v => if v == "-" then none else parseInt? v
  | none => none

def KV.bool (m : KV) (k : String) (d : Bool) : Bool :=
  match m.get? k with
  | some v => v == "1" || v == "true"
  | none => d

def hexDigit (c : Char) : Nat :=
  if '0' ≤ c ∧ c ≤ '9' then c.toNat - '0'.toNat
  else if 'a' ≤ c ∧ c ≤ 'f' then c.toNat - 'a'.toNat + 10
  else if 'A' ≤ c ∧ c ≤ 'F' then c.toNat - 'A'.toNat + 10
  else 0

def parseHex (s : String) : Nat := s.foldl (fun acc c => acc * 16 + hexDigit c) 0

/-- floats cross the protocol as `x` + 16 hex digits of the bit pattern -/
def parseF (s : String) : F64 := F64.ofBits (parseHex (s.drop 1).toString)

def KV.f64 (m : KV) (k : String) (d : F64) : F64 :=
  match m.get? k with
  | some v => parseF v
  | none => d

def hex16 (n : Nat) : String :=
  let ds := Nat.toDigits 16 n
  String.ofList (List.replicate (16 - ds.length) '0' ++ ds)

def fmtF (x : F64) : String := "x" ++ hex16 x.toBits

def parseInts (s : String) : List Int :=
  if s == "-" || s == "" then [] else (s.splitOn ",").filterMap parseInt?

def fmtInts (l : List Int) : String :=
  if l.isEmpty then "-" else ",".intercalate (l.map toString)

/-- `k:v,k:v`; `-` = empty; `nil` = nil map. Result sorted by key. -/
def parseIntMap (s : String) : Option (List (Int × Int)) :=
  if s == "nil" then none
  else if s == "-" || s == "" then some []
  else
    let ps := (s.splitOn ",").filterMap fun p =>
      match p.splitOn ":" with
      | [k, v] => match parseInt? k, parseInt? v with
        | some k, some v => some (k, v)
        | _, _ => none
      | _ => none
    some (ps.mergeSort (fun a b => a.1 ≤ b.1))

def parseFloatMap (s : String) : Option (List (Int × F64)) :=
  if s == "nil" then none
  else if s == "-" || s == "" then some []
  else
    let ps := (s.splitOn ",").filterMap fun p =>
      match p.splitOn ":" with
      | [k, v] => match parseInt? k with
        | some k => some (k, parseF v)
        | _ => none
      | _ => none
    some (ps.mergeSort (fun a b => a.1 ≤ b.1))

def fmtFloatMap (m : Option (List (Int × F64))) : String :=
  match m with
  | none => "nil"
  | some [] => "-"
  | some l => ",".intercalate (l.map fun p => s!"{p.1}:{fmtF p.2}")

def fmtIntMap (m : Option (List (Int × Int))) : String :=
  match m with
  | none => "nil"
  | some [] => "-"
  | some l => ",".intercalate (l.map fun p => s!"{p.1}:{p.2}")

/-- class of a modelled panic site, shared with the harness's `panicClass` -/
def panicClass (site : String) : String :=
  if site == "index-out-of-range" then "index"
  else if site == "integer-divide-by-zero" then "divzero"
  else if site == "nil-curve" || site == "nil-sensor" || site == "nil" then "nil"
  else if site.startsWith "fatal" then "fatal"
  else if site == "type-assertion" then "typeassert"
  else site

/-- amd64 value of Go's implementation-defined float→int conversions -/
def indefAmd64 : Int := -9223372036854775808

def b2s (b : Bool) : String := if b then "b1" else "b0"

end Driver
