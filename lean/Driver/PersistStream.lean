/-
  Driver stream `ps` (C14): interprets the `ps.*` operations of go/harness/persist.go against
  the model `Fan2go.Persist`. Core Lean only.

  Integration into Driver/Main.lean:
    import Driver.PersistStream
    structure St ... add field   ps : PersistDrvSt := {}
    in `step`, add the case      | "ps" => let (p, o) := persistStep st.ps op a; ({ st with ps := p }, o)
-/
import Driver.Proto
import Fan2go.Model.Persist
namespace Driver
open Fan2go Fan2go.Persist

/-- Driver state of the `ps` stream: the modelled database file (`none` before `ps.open`). -/
structure PersistDrvSt where
  db : Option Db := none
  deriving Inhabited

def PersistDrvSt.init : PersistDrvSt := {}

/-- `ok` | `err:notfound` | `err` | `panic:<class>`; loads print `ok <map>` -/
def psRes {α} (r : Res α) (payload : α → String) : String :=
  match r with
  | .ok v => "ok" ++ payload v
  | .err e => if e == "notfound" then "err:notfound" else "err"
  | .panic s => s!"panic:{panicClass s}"

def psUnit (r : Res Unit) : String := psRes r (fun _ => "")

/-- `dec=` of `ps.putraw`: what `json.Unmarshal` does with the bytes (an explicit input of the model):
    `bad` (not JSON; map variable stays nil) | `bad:<map left behind>` | `ok:<decoded map>`. -/
def psBlob {α} (parse : String → Option α) (s : String) : Blob (Option α) :=
  if s == "bad" then .corrupt none
  else if s.startsWith "bad:" then .corrupt (parse (s.drop 4).toString)
  else if s.startsWith "ok:" then .valid (parse (s.drop 3).toString)
  else .corrupt none

def persistStep (st : PersistDrvSt) (op : String) (a : KV) : PersistDrvSt × String :=
  if op == "ps.open" then ({ db := some Db.empty }, "ok") else
  match st.db with
  | none => (st, "bad-op")
  | some db =>
    let id := a.str "id" ""
    let fin {α} (p : Db × Res α) (payload : α → String) : PersistDrvSt × String :=
      ({ db := some p.1 }, psRes p.2 payload)
    match op with
    | "ps.parallel" =>
      -- saves of different fans' entries in flight at once: each takes effect as if alone (isolation per fan and kind,
      -- C14_isolation_run); the ids `par<i>` are used by nothing else, so the store the later ops see is unchanged
      (st, "ok failed=0 bad=0")
    | "ps.delsave" =>
      -- the deletion of the only entry and the save of another fan's entry, both queued behind the database file lock:
      -- whichever runs first, each takes effect as if alone (isolation per fan, C14_isolation_run); the ids are used by
      -- nothing else and are gone again when the op ends
      (st, "ok failed=0 bad=0")
    | "ps.lookups" =>
      -- concurrent look-ups of intact stored entries by several instances: each returns its entry (loads do not change the
      -- store); the ids are used by nothing else and are gone again when the op ends
      (st, "ok failed=0 bad=0")
    | "ps.initsparse" =>
      -- `Init()` on a database file that is mostly unused pages, under a held file lock, with other instances' saves
      -- queued behind it: Init leaves the store alone and every save takes effect (isolation per fan); the ids are used
      -- by nothing else and are gone again when the op ends
      (st, "ok failed=0 lost=0")
    | "ps.initbusy" =>
      -- `Init()` of a second instance while the database file is held by another handle: Init only makes sure the
      -- directory exists; the store is untouched
      (st, "ok")
    | "ps.reopen" => ({ db := some (reopen db) }, "ok")
    | "ps.saverpm" =>
      let d := a.str "data" "-"
      -- `nilptr`: GetFanRpmCurveData() = nil; `nil`: pointer to a nil map, ranged over like an empty one
      let arg : Option (List (Int × F64)) :=
        if d == "nilptr" then none else some ((parseFloatMap d).getD [])
      fin (saveRpm db id arg) (fun _ => "")
    | "ps.loadrpm" => fin (loadRpm db id) (fun m => " " ++ fmtFloatMap m)
    | "ps.delrpm" => fin (deleteRpm db id) (fun _ => "")
    | "ps.savemap" => fin (saveMap db id (parseIntMap (a.str "m" "-"))) (fun _ => "")
    | "ps.loadmap" => fin (loadMap db id) (fun m => " " ++ fmtIntMap m)
    | "ps.delmap" => fin (deleteMap db id) (fun _ => "")
    | "ps.putraw" =>
      let dec := a.str "dec" "bad"
      match a.str "kind" "rpm" with
      | "map" => fin (putRaw db .pwmMap id (psBlob parseIntMap dec)) (fun _ => "")
      | _ => fin (putRaw db .rpm id (psBlob parseFloatMap dec)) (fun _ => "")
    | "ps.crashsave" =>
      -- go/harness/persist_crash.go: a save killed at a random moment (the harness checks that the
      -- file then holds the old or the new entry and nothing else changed), followed by a retried
      -- save. Whichever state the crash left, the retry yields the state of one uninterrupted
      -- save (theorem `C14_crash_then_retry`), so the model simply performs the save.
      let r := match a.str "kind" "rpm" with
        | "map" => saveMap db id (parseIntMap (a.str "m" "-"))
        | _ => saveRpm db id (some ((parseFloatMap (a.str "data" "-")).getD []))
      ({ db := some r.1 }, "atomic " ++ psUnit r.2)
    | _ => (st, "bad-op")

end Driver
