/-
  Line-protocol driver: interprets the same operation file as the Go harness, against the model.
  Core Lean only (built as `lean_exe drv`).
-/
import Driver.Proto
import Driver.PersistStream
import Driver.HwmonStream
import Driver.ExecStream
import Driver.ConfigStream
import Driver.StartupStream
import Driver.LifecycleStream
import Fan2go.Model.ControlLoop
import Fan2go.Model.Curves
import Fan2go.Model.Fan
import Fan2go.Model.Controller
import Fan2go.Model.Sensor
import Fan2go.Model.Wiring
open Fan2go Driver

structure St where
  pid : PidSt := { p := F64.zero, i := F64.zero, d := F64.zero }
  loop : LoopSt := .direct none
  curves : CurveTable := []
  sensors : SensorTable := []
  fan : FanSt := {}
  world : World := { fan := {}, dev := {}, ctl := {} }
  ps : PersistDrvSt := {}
  hw : HwmonDrvSt := {}
  ex : ExecDrvSt := {}
  cfgSt : ConfigDrvSt := {}
  su : StartupDrvSt := {}
  lc : LifecycleDrvSt := {}
  snKind : SensorKind := .file
  snAvg : F64 := F64.zero
  snWin : Int := 10
  deriving Inhabited

def indef := indefAmd64

def newLoop (a : KV) : LoopSt :=
  if a.str "loop" "direct" == "piddefault" then
    -- control_loop.DefaultPidConfig (regenerated fact `fact_default_pid`): 0.3 / 0.02 / 0.005
    .pid { p := F64.ofRat (3/10), i := F64.ofRat (2/100), d := F64.ofRat (5/1000) }
  else if a.str "loop" "direct" == "pid" then
    .pid { p := a.f64 "p" F64.zero, i := a.f64 "i" F64.zero, d := a.f64 "d" F64.zero }
  else .direct (a.optInt "m")

def resInt (r : Res Int) : String :=
  match r with
  | .ok v => s!"i{v}"
  | .err e => s!"err:{e}"
  | .panic s => s!"panic:{panicClass s}"

def resF (r : Res F64) : String :=
  match r with
  | .ok v => fmtF v
  | .err e => s!"err:{e}"
  | .panic s => s!"panic:{panicClass s}"

def opF64 (a : KV) : String :=
  let x := a.f64 "a" F64.zero
  let y := a.f64 "b" F64.zero
  match a.str "op" "" with
  | "add" => fmtF (x + y)
  | "sub" => fmtF (x - y)
  | "mul" => fmtF (x * y)
  | "div" => fmtF (x / y)
  | "lt" => b2s (F64.lt x y)
  | "le" => b2s (F64.le x y)
  | "eq" => b2s (F64.feq x y)
  | "toint" => s!"i{F64.toInt indef x}"
  | "round" => fmtF (F64.round x)
  | "ceil" => fmtF (F64.ceil x)
  | "tof32" => fmtF (F64.toF32 x)
  | "ofint" => fmtF (F64.ofInt (a.int "n" 0))
  | "min" => fmtF (F64.fmin x y)
  | "max" => fmtF (F64.fmax x y)
  | "neg" => fmtF (F64.neg x)
  | "abs" => fmtF (F64.abs x)
  | _ => "bad-op"

def opUtil (op : String) (a : KV) : String :=
  match op with
  | "util.coerce" => fmtF (coerce (a.f64 "v" F64.zero) (a.f64 "lo" F64.zero) (a.f64 "hi" F64.zero))
  | "util.ratio" => fmtF (ratio (a.f64 "t" F64.zero) (a.f64 "a" F64.zero) (a.f64 "b" F64.zero))
  | "util.sma" => fmtF (updateSimpleMovingAvg (a.f64 "old" F64.zero) (a.int "n" 1) (a.f64 "new" F64.zero))
  | "util.interp" =>
    resF (interp ((parseFloatMap (a.str "steps" "-")).getD []) (a.f64 "in" F64.zero))
  | "util.closest" => resInt (findClosest (a.int "t" 0) (parseInts (a.str "arr" "-")).toArray)
  | "util.distinct" => fmtInts (extractKeys ((parseIntMap (a.str "m" "-")).getD []))
  | _ => "bad-op"


/-! ### curve stream -/

def cvEval (st : St) (a : KV) : St × String :=
  let id := a.str "id" "c"
  let (tbl', r) := evalCurve indef st.sensors (a.int "now" 0) (st.curves.length + 2) st.curves id
  let st' := { st with curves := tbl' }
  let cur := match tbl'.get? id with
    | some c => c.value
    | none => 0
  match r with
  | .ok v => (st', s!"i{v} val={cur}")
  | .err _ => (st', s!"err val={cur}")
  | .panic s => (st', s!"panic:{panicClass s}")

/-- `cv.evalpair`: two evaluations of the same curve against the same sensor state (the harness suspends the first
    inside a member's sensor read while the second runs; a curve's `Evaluate` keeps no state between or across calls
    apart from the published `Value`, so the model is two evaluations; cases with PID members are not generated). -/
def cvEvalPair (st : St) (a : KV) : St × String :=
  let id := a.str "id" "c"
  let now := a.int "now" 0
  let (tbl1, r1) := evalCurve indef st.sensors now (st.curves.length + 2) st.curves id
  -- set=<sensor>:<avg>: the first evaluation has read that sensor already when it is suspended (the generator orders the
  -- members accordingly); the second one sees the new value, which also stays
  let sensors2 := match (a.str "set" "-").splitOn ":" with
    | [sid, v] => st.sensors.map (fun p => if p.1 == sid then (p.1, { p.2 with avg := parseF v }) else p)
    | _ => st.sensors
  let st := { st with sensors := sensors2 }
  let (tbl2, r2) := evalCurve indef st.sensors now (st.curves.length + 2) tbl1 id
  let show_ := fun (r : Res Int) => match r with
    | .ok v => s!"i{v}"
    | .err _ => "err"
    | .panic s => s!"panic:{panicClass s}"
  ({ st with curves := tbl2 }, s!"a={show_ r1} b={show_ r2}")

def cvAdd (st : St) (a : KV) : St × String :=
  let id := a.str "id" "c"
  let cfg : CurveCfg :=
    match a.str "kind" "linear" with
    | "pid" => .pid (a.str "sensor" "s") (a.f64 "sp" F64.zero)
    | "function" =>
      let ms := a.str "members" "-"
      .function (a.str "type" "sum") (if ms == "-" then [] else ms.splitOn ",")
    | _ =>
      let steps := match a.str "steps" "nil" with
        | "nil" => none
        | s => parseFloatMap s
      .linear (a.str "sensor" "s") (a.int "min" 0) (a.int "max" 0) steps
  let c : Curve := { id := id, cfg := cfg,
                     pid := { p := a.f64 "p" F64.zero, i := a.f64 "i" F64.zero, d := a.f64 "d" F64.zero } }
  -- registering under an existing id replaces the entry (cmap.Set)
  let tbl := if st.curves.any (·.id == id) then st.curves.set c else st.curves ++ [c]
  ({ st with curves := tbl }, "ok")

def cvSensor (st : St) (a : KV) : St × String :=
  let id := a.str "id" "s"
  let v : Res F64 := match a.str "val" "err" with
    | "err" => .err "read"
    | s => .ok (parseF s)
  let sv : SensorView := { avg := a.f64 "avg" F64.zero, value := v }
  let tbl := (st.sensors.filter (·.1 != id)) ++ [(id, sv)]
  ({ st with sensors := tbl }, "ok")

/-! ### fan stream -/

def optTok (o : Option Int) : String := match o with | some v => toString v | none => "-"

def fanState (f : FanSt) : String :=
  let ptrs := match f.kind with
    | .hwmon => s!" minp={optTok f.minP} startp={optTok f.startP} maxp={optTok f.maxP}"
    | _ => " minp=- startp=- maxp=-"
  s!"min={f.getMin} start={f.getStart} max={f.getMax}" ++ ptrs

def parseKind (s : String) : FanKind :=
  match s with
  | "file" => .file
  | "cmd" => .cmd
  | _ => .hwmon

def newFanFromKV (a : KV) : FanSt :=
  FanSt.new (parseKind (a.str "kind" "hwmon")) (a.bool "ns" false) (a.optInt "cmin") (a.optInt "cstart") (a.optInt "cmax")

def opFan (st : St) (op : String) (a : KV) : St × String :=
  match op with
  | "fan.new" => let f := newFanFromKV a; ({ st with fan := f }, fanState f)
  | "fan.attach" =>
    let (f, r) := st.fan.attach indef (parseFloatMap (a.str "data" "nil"))
    let rs := match r with | .ok _ => "ok" | _ => "err"
    ({ st with fan := f }, rs ++ " " ++ fanState f)
  | "fan.set" =>
    let v := a.int "v" 0
    let force := a.bool "force" false
    let f := match a.str "which" "min" with
      | "start" => st.fan.setStart v force
      | "max" => st.fan.setMax v force
      | _ => st.fan.setMin v force
    ({ st with fan := f }, fanState f)
  | "fan.restart" =>
    -- a restart: the curve data are saved (refused for a non-finite value: json.Marshal), a NEW fan object of the same
    -- configuration loads and attaches them (Model/Persist.lean: C14_roundtrip gives back what was saved)
    match st.fan.kind, st.fan.curveData with
    | .hwmon, some d =>
      if d.all (fun p => p.2.isFinite) then
        let nf := FanSt.new st.fan.kind st.fan.neverStop st.fan.cfgMin st.fan.cfgStart st.fan.cfgMax
        let (f, r) := nf.attach indef (some d)
        match r with
        | .ok _ => ({ st with fan := f }, "ok " ++ fanState f)
        | _ => ({ st with fan := f }, "err:attach " ++ fanState f)
      else (st, "err:save " ++ fanState st.fan)
    | _, _ => (st, "skip " ++ fanState st.fan)
  | "fan.get" => (st, fanState st.fan)
  | _ => (st, "bad-op")

/-! ### world (controller) stream -/

def parseReadMode (s : String) : ReadMode :=
  match s with
  | "perm" => .errPerm
  | "other:-1" => .errOther (-1)
  | "other:0" => .errOther 0
  | _ => .ok

def parseWriteMode (s : String) : WriteMode :=
  match s with
  | "refused" => .refused
  | "ignored" => .ignored
  | _ => .applied

def parseResp (s : String) : DevResp :=
  if s.startsWith "q:" then .quant ((s.drop 2).toString.toInt?.getD 1)
  else if s.startsWith "t:" then
    .table ((parseIntMap ((s.drop 2).toString.replace ";" ",")).getD [])
  else .identity

def applyDev (d : Dev) (a : KV) : Dev :=
  a.foldl (fun d (k, v) =>
    match k with
    | "pwm" => { d with pwm := v.toInt?.getD 0 }
    | "mode" => { d with mode := v.toInt?.getD 0 }
    | "rpm" => { d with rpm := v.toInt?.getD 0 }
    | "resp" => { d with resp := parseResp v }
    | "pwmread" => { d with pwmRead := parseReadMode v }
    | "pwmwrite" => { d with pwmWrite := parseWriteMode v }
    | "moderead" => { d with modeRead := parseReadMode v }
    | "modewrite" => { d with modeWrite := parseWriteMode v }
    | "rpmread" => { d with rpmRead := parseReadMode v }
    | "hasmode" => { d with hasMode := v == "1" }
    | "hasrpm" => { d with hasRpm := v == "1" }
    | _ => d) d

def worldState (w : World) : String :=
  let avg := match w.fan.kind with | .hwmon => w.fan.rpmAvg | _ => F64.zero
  let rint := match w.fan.kind with | .hwmon => 0 | _ => w.fan.rpmInt
  s!"pwm={w.dev.pwm} mode={w.dev.mode} last={optTok w.ctl.lastSet} off={w.ctl.offset} min={w.fan.getMin} max={w.fan.getMax} avg={fmtF avg} rint={rint} cnt={w.ctl.unexpectedCount} inc={w.ctl.increasedCount}"

def obsLog (os : List Obs) : String :=
  let l := os.filterMap fun o =>
    match o with
    | .wrotePwm v ok => some (s!"pwm={v}" ++ (if ok then "" else ":refused"))
    | .wroteMode m ok => some (s!"mode={m}" ++ (if ok then "" else ":refused"))
    | _ => none
  if l.isEmpty then "-" else ",".intercalate l

def resUnit (r : Res Unit) : String :=
  match r with
  | .ok _ => "ok"
  | .err e => if e == "stalled-at-max" then "err:stalled-at-max" else "err"
  | .panic s => s!"panic:{panicClass s}"

def resIntW (r : Res Int) : String :=
  match r with
  | .ok v => s!"i{v}"
  | .err e => if e == "stalled-at-max" then "err:stalled-at-max" else "err"
  | .panic s => s!"panic:{panicClass s}"

def parseCurveRes (s : String) : Res Int :=
  match s with
  | "err" => .err "curve"
  | "panic" => .panic "nilmap"
  | v => .ok (v.toInt?.getD 0)

def wNew (a : KV) : World × String :=
  let f0 := newFanFromKV a
  let f1 : FanSt := match f0.kind with
    | .hwmon =>
      { f0 with minP := (a.optInt "minp").orElse (fun _ => f0.minP),
                startP := (a.optInt "startp").orElse (fun _ => f0.startP),
                maxP := (a.optInt "maxp").orElse (fun _ => f0.maxP),
                rpmAvg := a.f64 "avg" F64.zero }
    | _ => { f0 with rpmInt := a.int "rint" 0 }
  let d0 : Dev := { mode := 2, hasMode := a.bool "hasmode" true, hasRpm := a.bool "hasrpm" true }
  let d := applyDev d0 a
  let pm := parseIntMap (a.str "map" "nil")
  let distinct : Array Int := match pm with
    | some m => (extractKeys m).toArray
    | none => #[]
  let ctl : Ctl := { pwmMap := pm, distinct := distinct, loop := newLoop a,
                     origMode := a.int "origmode" 2, origPwm := a.int "origpwm" 0,
                     lastSet := a.optInt "last" }
  let w : World := { fan := f1, dev := d, ctl := ctl, rpmWindow := a.int "win" 10 }
  (w, s!"ok distinct={fmtInts distinct.toList} " ++ worldState w)

def opWorld (st : St) (op : String) (a : KV) : St × String :=
  let w := st.world
  match op with
  | "w.parallel" =>
    -- controllers that share nothing call setPwm at once: each behaves as if alone (C12 for each of them), so no call
    -- leaves its register at anything but the map's output for the nearest supported input
    (st, s!"ok calls={(a.int "n" 16) * (a.int "rounds" 200)} bad=0 first=-")
  | "w.new" => let (w, s) := wNew a; ({ st with world := w }, s)
  | "w.attach" =>
    let (f, r) := w.fan.attach indef (parseFloatMap (a.str "data" "nil"))
    let w := { w with fan := f }
    ({ st with world := w }, (match r with | .ok _ => "ok " | _ => "err ") ++ worldState w)
  | "w.setmap" =>
    match parseIntMap (a.str "map" "nil") with
    | some m =>
      let distinct := (extractKeys m).toArray
      let w := { w with ctl := { w.ctl with pwmMap := some m, distinct := distinct } }
      ({ st with world := w }, s!"ok distinct={fmtInts distinct.toList} " ++ worldState w)
    | none => (st, "bad-op")
  | "w.dev" => let w := { w with dev := applyDev w.dev a }; ({ st with world := w }, "ok " ++ worldState w)
  | "w.cycle" =>
    let (w', r, o) := updateFanSpeed indef w (parseCurveRes (a.str "curve" "0")) (a.int "now" 0)
    ({ st with world := w' }, s!"res={resUnit r} log={obsLog o} " ++ worldState w')
  | "w.calc" =>
    let (w', r, o) := calculateTargetPwm indef w (parseCurveRes (a.str "curve" "0")) (a.int "now" 0)
    ({ st with world := w' }, s!"res={resIntW r} log={obsLog o} " ++ worldState w')
  | "w.setpwm" =>
    let (w', r, o) := ctlSetPwm w (a.int "t" 0)
    ({ st with world := w' }, s!"res={resUnit r} log={obsLog o} " ++ worldState w')
  | "w.poll" => let w' := measureRpm indef w; ({ st with world := w' }, "ok " ++ worldState w')
  | "w.restore" =>
    let (w', o) := restorePwmEnabled w
    ({ st with world := w' }, s!"ok log={obsLog o} " ++ worldState w')
  | "w.manual" =>
    let (d', r, o) := trySetManualPwm w.fan w.dev
    let w' := { w with dev := d' }
    ({ st with world := w' }, s!"{resUnit r} log={obsLog o} " ++ worldState w')
  | _ => (st, "bad-op")


/-! ### sensor stream -/

def parseSensorIo (k : SensorKind) (a : KV) : SensorIo :=
  match k with
  | .cmd =>
    if a.int "exit" 0 != 0 || a.int "start" 1 == 0 then .execErr   -- start=0: the command could not be started at all
    else match a.str "pv" "err" with
      | "err" => .parseErr
      | s => .parsed (parseF ((s.drop 3).toString))
  | _ =>
    let rd := a.str "read" "ok:0"
    if rd.startsWith "ok:" then
      match (rd.drop 3).toString.toInt? with
      | some n => .readOk n
      | none => .readFail
    else .readFail

def opSensor (st : St) (op : String) (a : KV) : St × String :=
  match op with
  | "sn.new" =>
    let k := match a.str "kind" "file" with | "hwmon" => SensorKind.hwmon | "cmd" => .cmd | _ => .file
    let avg := a.f64 "avg" F64.zero
    ({ st with snKind := k, snAvg := avg, snWin := a.int "win" 10 }, "ok avg=" ++ fmtF avg)
  | "sn.init" =>
    -- `initializeSensors`: the moving average starts at the first reading, or at 0 when that read fails
    let avg := match sensorGetValue .cmd (parseSensorIo .cmd a) with
      | .ok v => v
      | _ => F64.ofInt 0
    (st, "ok avg=" ++ fmtF avg)
  | "sn.monitor" =>
    -- the monitor polls `good` times successfully (one value), then the reads fail for the rest of the run: the average
    -- moves `good` times and stays; the monitor survives and stops when it is told to
    let win := a.int "win" 10
    let v := a.f64 "val" F64.zero
    let good := (a.int "good" 3).toNat
    let avg := (List.range good).foldl (fun acc _ => (updateSensor win acc .cmd (.parsed v)).1) (a.f64 "avg" F64.zero)
    (st, "res=ok avg=" ++ fmtF avg)
  | "sn.poll" =>
    let (avg', r) := updateSensor st.snWin st.snAvg st.snKind (parseSensorIo st.snKind a)
    let rs := match r with | .ok _ => "ok" | _ => "err"
    ({ st with snAvg := avg' }, rs ++ " avg=" ++ fmtF avg')
  | _ => (st, "bad-op")


/-! ### wiring stream -/

def parseGains (parts : List String) : F64 × F64 × F64 :=
  (parseF (parts.getD 1 "x0"), parseF (parts.getD 2 "x0"), parseF (parts.getD 3 "x0"))

def opWire (a : KV) : String :=
  let parts := (a.str "ca" "none").splitOn ":"
  let (legacy, ca) : Option (F64 × F64 × F64) × Option CtrlAlgCfg :=
    match parts.headD "none" with
    | "direct" => (none, some { direct := some none })
    | "directm" => (none, some { direct := some ((parts.getD 1 "").toInt?) })
    | "pid" => (none, some { pid := some (parseGains parts) })
    | "legacy" => (some (parseGains parts), none)
    | "both" => (some (parseGains parts), some { direct := some none })
    | _ => (none, none)
  match controlLoopOf legacy ca with
  | none => "ok out=nil-loop"
  | some l0 =>
    let steps := ((a.str "seq" "").splitOn ";").filter (· ≠ "")
    let (_, outs) := steps.foldl (fun (acc : LoopSt × List String) st =>
      match st.splitOn ":" with
      | [t, c, now] =>
        let (l', r) := acc.1.cycle indef (t.toInt?.getD 0) (c.toInt?.getD 0) (now.toInt?.getD 0)
        (l', acc.2 ++ [toString r])
      | _ => acc) (l0, [])
    "ok out=" ++ ",".intercalate outs

def step (st : St) (line : String) : St × String :=
  let toks := (line.splitOn " ").filter (· ≠ "")
  match toks with
  | [] => (st, "")
  | op :: rest =>
    let a := parseKV rest
    let pre := (op.splitOn ".").headD ""
    match pre with
    | "f64" => (st, opF64 a)
    | "util" => (st, opUtil op a)
    | "pid" =>
      match op with
      | "pid.new" =>
        ({ st with pid := { p := a.f64 "p" F64.zero, i := a.f64 "i" F64.zero, d := a.f64 "d" F64.zero } }, "ok")
      | "pid.loop" =>
        let (p', out) := pidLoop st.pid (a.f64 "target" F64.zero) (a.f64 "measured" F64.zero) (a.int "now" 0)
        ({ st with pid := p' }, s!"{fmtF out} err={fmtF p'.error} int={fmtF p'.integral}")
      | _ => (st, "bad-op")
    | "loop" =>
      match op with
      | "loop.new" => ({ st with loop := newLoop a }, "ok")
      | "loop.cycle" =>
        let (l', r) := st.loop.cycle indef (a.int "target" 0) (a.int "current" 0) (a.int "now" 0)
        ({ st with loop := l' }, s!"i{r}")
      | _ => (st, "bad-op")
    | "cv" =>
      match op with
      | "cv.reset" => ({ st with curves := [], sensors := [] }, "ok")
      | "cv.sensor" => cvSensor st a
      | "cv.add" => cvAdd st a
      | "cv.eval" => cvEval st a
      | "cv.evalpair" => cvEvalPair st a
      | _ => (st, "bad-op")
    | "fan" => opFan st op a
    | "w" => opWorld st op a
    | "sn" => opSensor st op a
    | "wire" =>
      -- `wire.group`: every fan gets a control loop of its own (`Wiring.lean`: the loop is a function of the fan's entry)
      (st, if op == "wire.loop" then opWire a
           else if op == "wire.group" then s!"ok n={((a.str "cas" "none,none").splitOn ",").length} shared=0"
           else "bad-op")
    | "lc" => let (s, o) := lifecycleStep st.lc op a; ({ st with lc := s }, o)
    | "su" => let (s, o) := startupStep st.su op a; ({ st with su := s }, o)
    | "cfg" => let (c, o) := configStep st.cfgSt op a; ({ st with cfgSt := c }, o)
    | "ex" => let (e, o) := execStep st.ex op a; ({ st with ex := e }, o)
    | "hw" => let (h, out) := hwmonStep st.hw op a; ({ st with hw := h }, out)
    | "ps" => let (p, o) := persistStep st.ps op a; ({ st with ps := p }, o)
    | _ => (st, "bad-op")

partial def loop (hin : IO.FS.Stream) (hout : IO.FS.Stream) (st : St) : IO Unit := do
  let line ← hin.getLine
  if line.isEmpty then return ()
  let l := (line.dropRightWhile (fun c => c == '\n' || c == '\r'))
  if l.startsWith "#" || l.trimAscii.isEmpty then
    hout.putStrLn l
    loop hin hout st
  else
    let (st', out) := step st l
    hout.putStrLn out
    loop hin hout st'

def main (args : List String) : IO UInt32 := do
  match args with
  | [inp, outp] =>
    let hi ← IO.FS.Handle.mk inp .read
    let ho ← IO.FS.Handle.mk outp .write
    loop (IO.FS.Stream.ofHandle hi) (IO.FS.Stream.ofHandle ho) {}
    ho.flush
    return 0
  | _ =>
    IO.eprintln "usage: drv <ops-file> <out-file>"
    return 2
