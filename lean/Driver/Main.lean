/-
  Line-protocol driver: interprets the same operation file as the Go harness, against the model.
  Core Lean only (built as `lean_exe drv`).
-/
import Driver.Proto
import Fan2go.Model.ControlLoop
import Fan2go.Model.Curves
import Fan2go.Model.Fan
import Fan2go.Model.Controller
open Fan2go Driver

structure St where
  pid : PidSt := { p := F64.zero, i := F64.zero, d := F64.zero }
  loop : LoopSt := .direct none
  curves : CurveTable := []
  sensors : SensorTable := []
  fan : FanSt := {}
  world : World := { fan := {}, dev := {}, ctl := {} }
  deriving Inhabited

def indef := indefAmd64

def newLoop (a : KV) : LoopSt :=
  if a.str "loop" "direct" == "pid" then
    .pid { p := a.f64 "p" F64.zero, i := a.f64 "i" F64.zero, d := a.f64 "d" F64.zero }
  else .direct (a.optInt "m")

def resInt (r : Res Int) : String :=
  match r with
  | .ok v => s!"i{v}"
  | .err e => s!"err:{e}"
  | .panic s => s!"panic:{panicClass s}"

def resF (r : Res F64) : String :=
  match r with
  | .ok v => fmtF v
  | .err e => s!"err:{e}"
  | .panic s => s!"panic:{panicClass s}"

def opF64 (a : KV) : String :=
  let x := a.f64 "a" F64.zero
  let y := a.f64 "b" F64.zero
  match a.str "op" "" with
  | "add" => fmtF (x + y)
  | "sub" => fmtF (x - y)
  | "mul" => fmtF (x * y)
  | "div" => fmtF (x / y)
  | "lt" => b2s (F64.lt x y)
  | "le" => b2s (F64.le x y)
  | "eq" => b2s (F64.feq x y)
  | "toint" => s!"i{F64.toInt indef x}"
  | "round" => fmtF (F64.round x)
  | "ceil" => fmtF (F64.ceil x)
  | "tof32" => fmtF (F64.toF32 x)
  | "ofint" => fmtF (F64.ofInt (a.int "n" 0))
  | "min" => fmtF (F64.fmin x y)
  | "max" => fmtF (F64.fmax x y)
  | "neg" => fmtF (F64.neg x)
  | "abs" => fmtF (F64.abs x)
  | _ => "bad-op"

def opUtil (op : String) (a : KV) : String :=
  match op with
  | "util.coerce" => fmtF (coerce (a.f64 "v" F64.zero) (a.f64 "lo" F64.zero) (a.f64 "hi" F64.zero))
  | "util.ratio" => fmtF (ratio (a.f64 "t" F64.zero) (a.f64 "a" F64.zero) (a.f64 "b" F64.zero))
  | "util.sma" => fmtF (updateSimpleMovingAvg (a.f64 "old" F64.zero) (a.int "n" 1) (a.f64 "new" F64.zero))
  | "util.interp" =>
    resF (interp ((parseFloatMap (a.str "steps" "-")).getD []) (a.f64 "in" F64.zero))
  | "util.closest" => resInt (findClosest (a.int "t" 0) (parseInts (a.str "arr" "-")).toArray)
  | "util.distinct" => fmtInts (extractKeys ((parseIntMap (a.str "m" "-")).getD []))
  | _ => "bad-op"

def step (st : St) (line : String) : St × String :=
  let toks := (line.splitOn " ").filter (· ≠ "")
  match toks with
  | [] => (st, "")
  | op :: rest =>
    let a := parseKV rest
    let pre := (op.splitOn ".").headD ""
    match pre with
    | "f64" => (st, opF64 a)
    | "util" => (st, opUtil op a)
    | "pid" =>
      match op with
      | "pid.new" =>
        ({ st with pid := { p := a.f64 "p" F64.zero, i := a.f64 "i" F64.zero, d := a.f64 "d" F64.zero } }, "ok")
      | "pid.loop" =>
        let (p', out) := pidLoop st.pid (a.f64 "target" F64.zero) (a.f64 "measured" F64.zero) (a.int "now" 0)
        ({ st with pid := p' }, s!"{fmtF out} err={fmtF p'.error} int={fmtF p'.integral}")
      | _ => (st, "bad-op")
    | "loop" =>
      match op with
      | "loop.new" => ({ st with loop := newLoop a }, "ok")
      | "loop.cycle" =>
        let (l', r) := st.loop.cycle indef (a.int "target" 0) (a.int "current" 0) (a.int "now" 0)
        ({ st with loop := l' }, s!"i{r}")
      | _ => (st, "bad-op")
    | _ => (st, "bad-op")

partial def loop (hin : IO.FS.Stream) (hout : IO.FS.Stream) (st : St) : IO Unit := do
  let line ← hin.getLine
  if line.isEmpty then return ()
  let l := (line.dropRightWhile (fun c => c == '\n' || c == '\r'))
  if l.startsWith "#" || l.trimAscii.isEmpty then
    hout.putStrLn l
    loop hin hout st
  else
    let (st', out) := step st l
    hout.putStrLn out
    loop hin hout st'

def main (args : List String) : IO UInt32 := do
  match args with
  | [inp, outp] =>
    let hi ← IO.FS.Handle.mk inp .read
    let ho ← IO.FS.Handle.mk outp .write
    loop (IO.FS.Stream.ofHandle hi) (IO.FS.Stream.ofHandle ho) {}
    ho.flush
    return 0
  | _ =>
    IO.eprintln "usage: drv <ops-file> <out-file>"
    return 2
