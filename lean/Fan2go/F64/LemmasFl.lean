/-
  Lemma interface for `Fan2go/F64/Basic.lean`, part B: the rounding function `flr`,
  representability `Rep`, monotonicity, idempotence, error bounds.
-/
import Fan2go.F64.LemmasBasic

namespace Fan2go

variable {prec : Nat} {emin : Int}

/-! ### unfolding lemmas -/

theorem ulpExp_def (prec : Nat) (emin : Int) (x : ℚ) :
    ulpExp prec emin x = max (ilog2 x) emin - ((prec : Int) - 1) := rfl

theorem flPos_def (prec : Nat) (emin : Int) (x : ℚ) :
    flPos prec emin x
      = (rne (x / pow2 (ulpExp prec emin x)) : ℚ) * pow2 (ulpExp prec emin x) := rfl

theorem flr_zero : flr prec emin 0 = 0 := by simp [flr]

theorem flr_of_pos {x : ℚ} (h : 0 < x) : flr prec emin x = flPos prec emin x := by
  simp [flr, h.ne', h]

theorem flr_of_neg {x : ℚ} (h : x < 0) : flr prec emin x = - flPos prec emin (-x) := by
  simp [flr, h.ne, not_lt.mpr h.le]

theorem flr_neg (x : ℚ) : flr prec emin (-x) = - flr prec emin x := by
  rcases lt_trichotomy x 0 with h | h | h
  · rw [flr_of_neg h, flr_of_pos (neg_pos.mpr h), neg_neg]
  · subst h; simp [flr_zero]
  · rw [flr_of_pos h, flr_of_neg (neg_neg_of_pos h), neg_neg]

theorem flPos_nonneg {x : ℚ} (h : 0 ≤ x) : 0 ≤ flPos prec emin x := by
  rw [flPos_def]
  have h1 : 0 ≤ rne (x / pow2 (ulpExp prec emin x)) :=
    rne_nonneg (div_nonneg h (pow2_nonneg _))
  have h2 : (0 : ℚ) ≤ (rne (x / pow2 (ulpExp prec emin x)) : ℚ) := by exact_mod_cast h1
  exact mul_nonneg h2 (pow2_nonneg _)

theorem flr_nonneg {x : ℚ} (h : 0 ≤ x) : 0 ≤ flr prec emin x := by
  rcases eq_or_lt_of_le h with h0 | h0
  · subst h0; rw [flr_zero]
  · rw [flr_of_pos h0]; exact flPos_nonneg h

theorem flr_nonpos {x : ℚ} (h : x ≤ 0) : flr prec emin x ≤ 0 := by
  have := flr_nonneg (prec := prec) (emin := emin) (neg_nonneg.mpr h)
  rw [flr_neg] at this
  linarith

/-! ### ulpExp -/

theorem ulpExp_ge (prec : Nat) (emin : Int) (x : ℚ) :
    emin - ((prec : Int) - 1) ≤ ulpExp prec emin x := by
  rw [ulpExp_def]; omega

theorem ulpExp_mono {x y : ℚ} (hx : 0 < x) (hxy : x ≤ y) :
    ulpExp prec emin x ≤ ulpExp prec emin y := by
  have := ilog2_mono hx hxy
  rw [ulpExp_def, ulpExp_def]; omega

theorem ulpExp_of_le {x : ℚ} (hx : 0 < x) (h : pow2 emin ≤ x) :
    ulpExp prec emin x = ilog2 x - ((prec : Int) - 1) := by
  have := (le_ilog2_iff hx).mpr h
  rw [ulpExp_def]; omega

theorem ulpExp_of_lt {x : ℚ} (hx : 0 < x) (h : x < pow2 emin) :
    ulpExp prec emin x = emin - ((prec : Int) - 1) := by
  have := (ilog2_lt_iff hx).mpr h
  rw [ulpExp_def]; omega

/-- `pow2 (k + n) = 2^n * pow2 k` with the factor an integer. -/
theorem pow2_add_natCast (k : Int) (n : Nat) :
    pow2 (k + n) = (((2 : Int) ^ n : Int) : ℚ) * pow2 k := by
  rw [pow2_add, pow2_natCast_int, mul_comm]

/-- if `k ≤ a` then `pow2 a` is an integer multiple of `pow2 k`. -/
theorem pow2_eq_int_mul {a k : Int} (h : k ≤ a) :
    pow2 a = (((2 : Int) ^ (a - k).toNat : Int) : ℚ) * pow2 k := by
  rw [← pow2_div_pow2_int h, div_mul_cancel₀ _ (pow2_ne_zero k)]

/-! ### grid sandwich for `flPos` -/

theorem flPos_le_of_le_grid {x : ℚ} {N : Int}
    (h : x ≤ (N : ℚ) * pow2 (ulpExp prec emin x)) :
    flPos prec emin x ≤ (N : ℚ) * pow2 (ulpExp prec emin x) := by
  rw [flPos_def]
  have hk := pow2_pos (ulpExp prec emin x)
  have h1 : x / pow2 (ulpExp prec emin x) ≤ (N : ℚ) := by
    rw [div_le_iff₀ hk]; exact h
  have h2 : (rne (x / pow2 (ulpExp prec emin x)) : ℚ) ≤ (N : ℚ) := by
    exact_mod_cast rne_le_of_le_intCast h1
  exact mul_le_mul_of_nonneg_right h2 hk.le

theorem grid_le_flPos {x : ℚ} {N : Int}
    (h : (N : ℚ) * pow2 (ulpExp prec emin x) ≤ x) :
    (N : ℚ) * pow2 (ulpExp prec emin x) ≤ flPos prec emin x := by
  rw [flPos_def]
  have hk := pow2_pos (ulpExp prec emin x)
  have h1 : (N : ℚ) ≤ x / pow2 (ulpExp prec emin x) := by
    rw [le_div_iff₀ hk]; exact h
  have h2 : (N : ℚ) ≤ (rne (x / pow2 (ulpExp prec emin x)) : ℚ) := by
    exact_mod_cast le_rne_of_intCast_le h1
  exact mul_le_mul_of_nonneg_right h2 hk.le

theorem flPos_le_pow2 {x : ℚ} {a : Int} (hk : ulpExp prec emin x ≤ a) (h : x ≤ pow2 a) :
    flPos prec emin x ≤ pow2 a := by
  rw [pow2_eq_int_mul hk] at h ⊢
  exact flPos_le_of_le_grid h

theorem pow2_le_flPos {x : ℚ} {a : Int} (hk : ulpExp prec emin x ≤ a) (h : pow2 a ≤ x) :
    pow2 a ≤ flPos prec emin x := by
  rw [pow2_eq_int_mul hk] at h ⊢
  exact grid_le_flPos h

/-! ### monotonicity -/

theorem flPos_mono (hp : 1 ≤ prec) {x y : ℚ} (hx : 0 < x) (hxy : x ≤ y) :
    flPos prec emin x ≤ flPos prec emin y := by
  have hy : 0 < y := lt_of_lt_of_le hx hxy
  have hk := ulpExp_mono (prec := prec) (emin := emin) hx hxy
  rcases eq_or_lt_of_le hk with heq | hlt
  · rw [flPos_def, flPos_def, ← heq]
    have hkp := pow2_pos (ulpExp prec emin x)
    have h1 : x / pow2 (ulpExp prec emin x) ≤ y / pow2 (ulpExp prec emin x) :=
      div_le_div_of_nonneg_right hxy hkp.le
    have h2 : (rne (x / pow2 (ulpExp prec emin x)) : ℚ)
        ≤ (rne (y / pow2 (ulpExp prec emin x)) : ℚ) := by
      exact_mod_cast rne_mono h1
    exact mul_le_mul_of_nonneg_right h2 hkp.le
  · obtain ⟨_, sx2⟩ := ilog2_spec hx
    obtain ⟨sy1, _⟩ := ilog2_spec hy
    have hp' : (1 : Int) ≤ (prec : Int) := by exact_mod_cast hp
    rw [ulpExp_def, ulpExp_def] at hlt
    -- the binade boundary between x and y
    have hxb : x ≤ pow2 (max (ilog2 x) emin + 1) :=
      sx2.le.trans (pow2_mono (by omega))
    have h1 : flPos prec emin x ≤ pow2 (max (ilog2 x) emin + 1) :=
      flPos_le_pow2 (by rw [ulpExp_def]; omega) hxb
    have h2 : pow2 (max (ilog2 x) emin + 1) ≤ pow2 (ilog2 y) := pow2_mono (by omega)
    have h3 : pow2 (ilog2 y) ≤ flPos prec emin y :=
      pow2_le_flPos (by rw [ulpExp_def]; omega) sy1
    exact h1.trans (h2.trans h3)

/-- THE KEY LEMMA: correct rounding is monotone. -/
theorem flr_mono (hp : 1 ≤ prec) {x y : ℚ} (h : x ≤ y) :
    flr prec emin x ≤ flr prec emin y := by
  rcases lt_or_ge 0 x with hx | hx
  · rw [flr_of_pos hx, flr_of_pos (lt_of_lt_of_le hx h)]
    exact flPos_mono hp hx h
  · rcases lt_or_ge y 0 with hy | hy
    · have hx' : x < 0 := lt_of_le_of_lt h hy
      rw [flr_of_neg hx', flr_of_neg hy]
      have := flPos_mono (emin := emin) hp (neg_pos.mpr hy) (neg_le_neg h)
      linarith
    · exact (flr_nonpos hx).trans (flr_nonneg hy)

/-! ### representability -/

/-- `q` is a value of the floating-point format `(prec, emin)` (unbounded above). -/
def Rep (prec : Nat) (emin : Int) (q : ℚ) : Prop := flr prec emin q = q

abbrev Rep64 := Rep 53 (-1022)
abbrev Rep32 := Rep 24 (-126)

theorem Rep.flr_eq {q : ℚ} (h : Rep prec emin q) : flr prec emin q = q := h

theorem rep_zero : Rep prec emin 0 := flr_zero

theorem rep_neg {q : ℚ} (h : Rep prec emin q) : Rep prec emin (-q) := by
  unfold Rep at *; rw [flr_neg, h]

theorem rep_neg_iff {q : ℚ} : Rep prec emin (-q) ↔ Rep prec emin q :=
  ⟨fun h => by simpa using rep_neg h, rep_neg⟩

/-- the rounded value of a positive number has the shape `n * 2^k`, `0 ≤ n ≤ 2^prec`. -/
theorem flPos_form (hp : 1 ≤ prec) {x : ℚ} (hx : 0 < x) :
    ∃ n : Int, 0 ≤ n ∧ n ≤ 2 ^ prec ∧
      flPos prec emin x = (n : ℚ) * pow2 (ulpExp prec emin x) := by
  refine ⟨rne (x / pow2 (ulpExp prec emin x)),
    rne_nonneg (div_nonneg hx.le (pow2_nonneg _)), ?_, flPos_def _ _ _⟩
  obtain ⟨_, sx2⟩ := ilog2_spec hx
  have hp' : (1 : Int) ≤ (prec : Int) := by exact_mod_cast hp
  apply rne_le_of_le_intCast
  rw [div_le_iff₀ (pow2_pos _), ← pow2_add_natCast]
  refine sx2.le.trans (pow2_mono ?_)
  rw [ulpExp_def]; omega

/-- a positive `n * 2^k` (`n ≤ 2^prec`, `k` at least the subnormal exponent) is an integer
    multiple of its own ulp. -/
theorem form_grid (hp : 1 ≤ prec) {n k : Int} (hn0 : 0 < n) (hn : n ≤ 2 ^ prec)
    (hk : emin - ((prec : Int) - 1) ≤ k) {q : ℚ} (hqdef : q = (n : ℚ) * pow2 k) :
    ∃ N : Int, q = (N : ℚ) * pow2 (ulpExp prec emin q) := by
  have hp' : (1 : Int) ≤ (prec : Int) := by exact_mod_cast hp
  have hnq : (0 : ℚ) < (n : ℚ) := by exact_mod_cast hn0
  have hq : 0 < q := by rw [hqdef]; exact mul_pos hnq (pow2_pos k)
  obtain ⟨s1, _⟩ := ilog2_spec hq
  rcases le_or_gt (ulpExp prec emin q) k with hle | hgt
  · refine ⟨n * (2 : Int) ^ (k - ulpExp prec emin q).toNat, ?_⟩
    calc q = (n : ℚ) * pow2 k := hqdef
      _ = _ := by rw [pow2_eq_int_mul hle]; push_cast; ring
  · -- then the value is exactly a power of two
    have hqle : q ≤ pow2 (k + prec) := by
      rw [pow2_add_natCast, hqdef]
      have : (n : ℚ) ≤ (((2 : Int) ^ prec : Int) : ℚ) := by exact_mod_cast hn
      exact mul_le_mul_of_nonneg_right this (pow2_nonneg k)
    have he : ilog2 q ≤ k + prec := pow2_le_iff.mp (s1.trans hqle)
    rw [ulpExp_def] at hgt
    have he' : ilog2 q = k + prec := by omega
    have hkk : ulpExp prec emin q = k + 1 := by rw [ulpExp_def]; omega
    have hge : pow2 (k + prec) ≤ q := by rw [← he']; exact s1
    have hqeq : q = pow2 (k + prec) := le_antisymm hqle hge
    refine ⟨(2 : Int) ^ (prec - 1), ?_⟩
    rw [hkk, ← pow2_add_natCast]
    conv_lhs => rw [hqeq]
    congr 1
    have : ((prec - 1 : Nat) : Int) = (prec : Int) - 1 := by omega
    rw [this]; ring

/-- positive core of `rep_of_form`. -/
theorem flPos_of_form (hp : 1 ≤ prec) {n k : Int} (hn0 : 0 < n) (hn : n ≤ 2 ^ prec)
    (hk : emin - ((prec : Int) - 1) ≤ k) :
    flPos prec emin ((n : ℚ) * pow2 k) = (n : ℚ) * pow2 k := by
  obtain ⟨N, hN⟩ := form_grid (emin := emin) hp hn0 hn hk (q := (n : ℚ) * pow2 k) rfl
  rw [flPos_def]
  generalize ulpExp prec emin ((n : ℚ) * pow2 k) = K at hN ⊢
  rw [hN, mul_div_assoc, div_self (pow2_ne_zero _), mul_one, rne_intCast]

/-- every `n * 2^k` with `|n| ≤ 2^prec` and `k` not below the subnormal exponent is a
    value of the format. -/
theorem rep_of_form (hp : 1 ≤ prec) {n k : Int} (hn : |n| ≤ 2 ^ prec)
    (hk : emin - ((prec : Int) - 1) ≤ k) : Rep prec emin ((n : ℚ) * pow2 k) := by
  unfold Rep
  rcases lt_trichotomy n 0 with h | h | h
  · have hpos : 0 < -n := by omega
    have hle : -n ≤ 2 ^ prec := by
      have := neg_abs_le n; have := neg_le_abs n; omega
    have hq : (n : ℚ) * pow2 k < 0 := by
      have : (n : ℚ) < 0 := by exact_mod_cast h
      exact mul_neg_of_neg_of_pos this (pow2_pos k)
    rw [flr_of_neg hq]
    have := flPos_of_form (emin := emin) hp hpos hle hk
    push_cast at this
    rw [show -((n : ℚ) * pow2 k) = -(n : ℚ) * pow2 k by ring, this]; ring
  · subst h; simp [flr_zero]
  · have hle : n ≤ 2 ^ prec := (le_abs_self n).trans hn
    have hq : 0 < (n : ℚ) * pow2 k := by
      have : (0 : ℚ) < (n : ℚ) := by exact_mod_cast h
      exact mul_pos this (pow2_pos k)
    rw [flr_of_pos hq]
    exact flPos_of_form hp h hle hk

/-- shape of a rounded value. -/
theorem flr_form (hp : 1 ≤ prec) {x : ℚ} (hx : x ≠ 0) :
    ∃ n : Int, |n| ≤ 2 ^ prec ∧
      flr prec emin x = (n : ℚ) * pow2 (ulpExp prec emin |x|) := by
  rcases lt_or_gt_of_ne hx with h | h
  · obtain ⟨n, h0, hn, hf⟩ := flPos_form (emin := emin) hp (neg_pos.mpr h)
    refine ⟨-n, by rw [abs_neg, abs_of_nonneg h0]; exact hn, ?_⟩
    rw [flr_of_neg h, abs_of_neg h, hf]; push_cast; ring
  · obtain ⟨n, h0, hn, hf⟩ := flPos_form (emin := emin) hp h
    refine ⟨n, by rw [abs_of_nonneg h0]; exact hn, ?_⟩
    rw [flr_of_pos h, abs_of_pos h, hf]

/-- rounding is idempotent: `flr x` is representable. -/
theorem flr_idem (hp : 1 ≤ prec) (x : ℚ) :
    flr prec emin (flr prec emin x) = flr prec emin x := by
  by_cases hx : x = 0
  · subst hx; rw [flr_zero, flr_zero]
  · obtain ⟨n, hn, hf⟩ := flr_form (emin := emin) hp hx
    rw [hf]
    exact rep_of_form hp hn (ulpExp_ge _ _ _)

theorem rep_flr (hp : 1 ≤ prec) (x : ℚ) : Rep prec emin (flr prec emin x) := flr_idem hp x

/-- canonical shape of a nonzero representable number. -/
theorem rep_form (hp : 1 ≤ prec) {q : ℚ} (hq : Rep prec emin q) (h0 : q ≠ 0) :
    ∃ n : Int, |n| ≤ 2 ^ prec ∧ q = (n : ℚ) * pow2 (ulpExp prec emin |q|) := by
  obtain ⟨n, hn, hf⟩ := flr_form (emin := emin) hp h0
  exact ⟨n, hn, by rw [← hf]; exact hq.symm⟩

/-- characterisation of representability. -/
theorem rep_iff (hp : 1 ≤ prec) {q : ℚ} :
    Rep prec emin q ↔
      ∃ n k : Int, |n| ≤ 2 ^ prec ∧ emin - ((prec : Int) - 1) ≤ k ∧ q = (n : ℚ) * pow2 k := by
  constructor
  · intro hq
    by_cases h0 : q = 0
    · exact ⟨0, emin - ((prec : Int) - 1), by positivity, le_rfl, by simp [h0]⟩
    · obtain ⟨n, hn, hf⟩ := rep_form hp hq h0
      exact ⟨n, _, hn, ulpExp_ge _ _ _, hf⟩
  · rintro ⟨n, k, hn, hk, rfl⟩
    exact rep_of_form hp hn hk

theorem rep_intCast (hp : 1 ≤ prec) (he : emin ≤ 0) (n : Int) (h : |n| ≤ 2 ^ prec) :
    Rep prec emin (n : ℚ) := by
  have hp' : (1 : Int) ≤ (prec : Int) := by exact_mod_cast hp
  have := rep_of_form (emin := emin) (k := 0) hp h (by omega)
  rwa [pow2_zero, mul_one] at this

theorem rep_natCast (hp : 1 ≤ prec) (he : emin ≤ 0) (n : Nat) (h : n ≤ 2 ^ prec) :
    Rep prec emin (n : ℚ) := by
  have := rep_intCast hp he (n : Int) (by rw [abs_of_nonneg (by positivity)]; exact_mod_cast h)
  exact_mod_cast this

/-- NOTE: the requested statement had no `hp`; it is false for `prec = 0`
    (`flr 0 emin (pow2 e) = 0`), so `1 ≤ prec` was added. -/
theorem rep_pow2 (hp : 1 ≤ prec) (e : Int) (h : emin - ((prec : Int) - 1) ≤ e) :
    Rep prec emin (pow2 e) := by
  have h1 : |(1 : Int)| ≤ 2 ^ prec := by
    rw [abs_one]; exact one_le_pow₀ (by norm_num)
  have := rep_of_form (emin := emin) hp h1 h
  rwa [Int.cast_one, one_mul] at this

theorem rep_one (hp : 1 ≤ prec) (he : emin ≤ 0) : Rep prec emin 1 := by
  have := rep_intCast (emin := emin) hp he 1 (by rw [abs_one]; exact one_le_pow₀ (by norm_num))
  exact_mod_cast this

/-- every representable number is a multiple of any grid spacing not coarser than its ulp. -/
theorem rep_grid_le (hp : 1 ≤ prec) {q : ℚ} (hq : Rep prec emin q) (h0 : q ≠ 0) {k : Int}
    (hk : k ≤ ulpExp prec emin |q|) : ∃ N : Int, q = (N : ℚ) * pow2 k := by
  obtain ⟨n, _, hf⟩ := rep_form hp hq h0
  refine ⟨n * (2 : Int) ^ (ulpExp prec emin |q| - k).toNat, ?_⟩
  conv_lhs => rw [hf, pow2_eq_int_mul hk]
  push_cast; ring

/-- every representable number is a multiple of the smallest subnormal. -/
theorem rep_grid (hp : 1 ≤ prec) {q : ℚ} (hq : Rep prec emin q) :
    ∃ N : Int, q = (N : ℚ) * pow2 (emin - ((prec : Int) - 1)) := by
  by_cases h0 : q = 0
  · exact ⟨0, by simp [h0]⟩
  · exact rep_grid_le hp hq h0 (ulpExp_ge _ _ _)

/-! ### sandwich corollaries -/

theorem flr_le_of_le_rep (hp : 1 ≤ prec) {x r : ℚ} (hr : Rep prec emin r) (h : x ≤ r) :
    flr prec emin x ≤ r := by
  have := flr_mono (emin := emin) hp h
  rwa [hr.flr_eq] at this

theorem le_flr_of_rep_le (hp : 1 ≤ prec) {x r : ℚ} (hr : Rep prec emin r) (h : r ≤ x) :
    r ≤ flr prec emin x := by
  have := flr_mono (emin := emin) hp h
  rwa [hr.flr_eq] at this

theorem abs_flr_le_of_abs_le_rep (hp : 1 ≤ prec) {x r : ℚ} (hr : Rep prec emin r)
    (h : |x| ≤ r) : |flr prec emin x| ≤ r := by
  rw [abs_le] at h ⊢
  exact ⟨le_flr_of_rep_le hp (rep_neg hr) h.1, flr_le_of_le_rep hp hr h.2⟩

theorem flr_abs (x : ℚ) : flr prec emin |x| = |flr prec emin x| := by
  rcases le_total 0 x with h | h
  · rw [abs_of_nonneg h, abs_of_nonneg (flr_nonneg h)]
  · rw [abs_of_nonpos h, abs_of_nonpos (flr_nonpos h), flr_neg]

/-! ### error bounds -/

theorem flPos_abs_sub_le (x : ℚ) :
    |flPos prec emin x - x| ≤ pow2 (ulpExp prec emin x) / 2 := by
  have hk := pow2_pos (ulpExp prec emin x)
  have h := rne_abs_sub_le (x / pow2 (ulpExp prec emin x))
  have heq : flPos prec emin x - x
      = ((rne (x / pow2 (ulpExp prec emin x)) : ℚ) - x / pow2 (ulpExp prec emin x))
        * pow2 (ulpExp prec emin x) := by
    rw [flPos_def, sub_mul, div_mul_cancel₀ _ hk.ne']
  rw [heq, abs_mul, abs_of_pos hk]
  calc _ ≤ 1 / 2 * pow2 (ulpExp prec emin x) := mul_le_mul_of_nonneg_right h hk.le
    _ = _ := by ring

/-- half-ulp error bound (`_hp` is not needed; kept for a uniform calling convention,
    likewise in `flr_rel_err`, `flr_abs_err_sub`, `flr_le_two_mul`). -/
theorem flr_abs_sub_le_ulp (_hp : 1 ≤ prec) (x : ℚ) (hx : x ≠ 0) :
    |flr prec emin x - x| ≤ pow2 (ulpExp prec emin |x|) / 2 := by
  rcases lt_or_gt_of_ne hx with h | h
  · rw [flr_of_neg h, abs_of_neg h]
    have := flPos_abs_sub_le (prec := prec) (emin := emin) (-x)
    rwa [show flPos prec emin (-x) - -x = -(-flPos prec emin (-x) - x) by ring, abs_neg] at this
  · rw [flr_of_pos h, abs_of_pos h]
    exact flPos_abs_sub_le x

/-- relative error bound in the normal range. -/
theorem flr_rel_err (_hp : 1 ≤ prec) {x : ℚ} (h : pow2 emin ≤ |x|) :
    |flr prec emin x - x| ≤ pow2 (-(prec : Int)) * |x| := by
  have hpos : 0 < |x| := lt_of_lt_of_le (pow2_pos _) h
  have hx : x ≠ 0 := abs_pos.mp hpos
  refine (flr_abs_sub_le_ulp _hp x hx).trans ?_
  rw [ulpExp_of_le hpos h, ← pow2_pred,
    show ilog2 |x| - ((prec : Int) - 1) - 1 = -(prec : Int) + ilog2 |x| by ring, pow2_add]
  exact mul_le_mul_of_nonneg_left (ilog2_spec hpos).1 (pow2_nonneg _)

/-- absolute error bound in the subnormal range. -/
theorem flr_abs_err_sub (_hp : 1 ≤ prec) (x : ℚ) (h : |x| < pow2 emin) :
    |flr prec emin x - x| ≤ pow2 (emin - prec) := by
  by_cases hx : x = 0
  · subst hx; rw [flr_zero, sub_zero, abs_zero]; exact pow2_nonneg _
  · have hpos : 0 < |x| := abs_pos.mpr hx
    refine (flr_abs_sub_le_ulp _hp x hx).trans ?_
    rw [ulpExp_of_lt hpos h, ← pow2_pred]
    exact pow2_mono (by omega)

/-- combined error bound valid for every `x`. -/
theorem flr_abs_err (hp : 1 ≤ prec) (x : ℚ) :
    |flr prec emin x - x| ≤ pow2 (-(prec : Int)) * |x| + pow2 (emin - prec) := by
  rcases le_or_gt (pow2 emin) |x| with h | h
  · have := flr_rel_err (emin := emin) hp h
    have := pow2_nonneg (emin - prec)
    linarith
  · have := flr_abs_err_sub (emin := emin) hp x h
    have : 0 ≤ pow2 (-(prec : Int)) * |x| := mul_nonneg (pow2_nonneg _) (abs_nonneg _)
    linarith

theorem flPos_le_two_mul {y : ℚ} (hy : 0 ≤ y) : flPos prec emin y ≤ 2 * y := by
  have hk := pow2_pos (ulpExp prec emin y)
  have h := rne_le_two_mul (div_nonneg hy hk.le)
  rw [flPos_def]
  calc _ ≤ 2 * (y / pow2 (ulpExp prec emin y)) * pow2 (ulpExp prec emin y) :=
        mul_le_mul_of_nonneg_right h hk.le
    _ = 2 * y := by rw [mul_assoc, div_mul_cancel₀ _ hk.ne']

theorem flr_le_two_mul (_hp : 1 ≤ prec) {y : ℚ} (hy : 0 < y) : flr prec emin y ≤ 2 * y := by
  rw [flr_of_pos hy]; exact flPos_le_two_mul hy.le

/-! ### closure properties of `Rep` -/

/-- scaling by a power of two keeps representability as long as the result is not subnormal. -/
theorem rep_mul_pow2 (hp : 1 ≤ prec) {d : ℚ} (j : Int) (hd : Rep prec emin d)
    (h : pow2 emin ≤ |d| * pow2 j) : Rep prec emin (d * pow2 j) := by
  have h0 : d ≠ 0 := by
    rintro rfl
    rw [abs_zero, zero_mul] at h
    exact absurd h (not_le.mpr (pow2_pos _))
  have hpos : 0 < |d| := abs_pos.mpr h0
  obtain ⟨n, hn, hf⟩ := rep_form hp hd h0
  have hlt : |d| * pow2 j < pow2 (ilog2 |d| + 1 + j) := by
    rw [pow2_add]; exact mul_lt_mul_of_pos_right (ilog2_spec hpos).2 (pow2_pos j)
  have hej : emin < ilog2 |d| + 1 + j := pow2_lt_iff.mp (lt_of_le_of_lt h hlt)
  have : d * pow2 j = (n : ℚ) * pow2 (ulpExp prec emin |d| + j) := by
    conv_lhs => rw [hf]
    rw [pow2_add]; ring
  rw [this]
  refine rep_of_form hp hn ?_
  rw [ulpExp_def]; omega

/-- scaling up by a power of two always keeps representability. -/
theorem rep_mul_pow2_nonneg (hp : 1 ≤ prec) {d : ℚ} {j : Int} (hj : 0 ≤ j)
    (hd : Rep prec emin d) : Rep prec emin (d * pow2 j) := by
  by_cases h0 : d = 0
  · subst h0; rw [zero_mul]; exact rep_zero
  · obtain ⟨n, hn, hf⟩ := rep_form hp hd h0
    have : d * pow2 j = (n : ℚ) * pow2 (ulpExp prec emin |d| + j) := by
      conv_lhs => rw [hf]
      rw [pow2_add]; ring
    rw [this]
    refine rep_of_form hp hn ?_
    have := ulpExp_ge prec emin |d|
    omega

theorem rep_two_mul (hp : 1 ≤ prec) {d : ℚ} (hd : Rep prec emin d) : Rep prec emin (2 * d) := by
  have := rep_mul_pow2_nonneg (j := 1) hp (by norm_num) hd
  rwa [pow2_one, mul_comm] at this

theorem rep_half (hp : 1 ≤ prec) {d : ℚ} (hd : Rep prec emin d) (h : pow2 (emin + 1) ≤ |d|) :
    Rep prec emin (d / 2) := by
  have hh : pow2 emin ≤ |d| * pow2 (-1) := by
    rw [pow2_neg, pow2_one, ← div_eq_mul_inv, le_div_iff₀ (by norm_num), mul_comm, ← pow2_succ]
    exact h
  have := rep_mul_pow2 hp (-1) hd hh
  rwa [pow2_neg, pow2_one, ← div_eq_mul_inv] at this

/-- every multiple of the smallest subnormal of magnitude `≤ 2^(emin+1)` is representable;
    in particular a small difference of representable numbers is. -/
theorem rep_sub_small (hp : 1 ≤ prec) {x a : ℚ} (hx : Rep prec emin x) (ha : Rep prec emin a)
    (h : |x - a| < pow2 (emin + 1)) : Rep prec emin (x - a) := by
  obtain ⟨N1, h1⟩ := rep_grid hp hx
  obtain ⟨N2, h2⟩ := rep_grid hp ha
  have hg := pow2_pos (emin - ((prec : Int) - 1))
  have heq : x - a = ((N1 - N2 : Int) : ℚ) * pow2 (emin - ((prec : Int) - 1)) := by
    rw [h1, h2]; push_cast; ring
  rw [heq]
  refine rep_of_form hp ?_ le_rfl
  rw [heq, abs_mul, abs_of_pos hg,
    show emin + 1 = emin - ((prec : Int) - 1) + prec by ring, pow2_add_natCast,
    mul_lt_mul_iff_of_pos_right hg] at h
  have : |N1 - N2| < 2 ^ prec := by exact_mod_cast h
  exact this.le

/-- difference of two representables when `0 < y ≤ x ≤ 2y`. -/
theorem rep_sub_of_le (hp : 1 ≤ prec) {x y : ℚ} (hx : Rep prec emin x) (hy : Rep prec emin y)
    (h0 : 0 < y) (hyx : y ≤ x) (hx2 : x ≤ 2 * y) : Rep prec emin (x - y) := by
  have hx0 : 0 < x := lt_of_lt_of_le h0 hyx
  obtain ⟨ny, hny, hfy⟩ := rep_form hp hy h0.ne'
  have hk : ulpExp prec emin |y| ≤ ulpExp prec emin |x| := by
    rw [abs_of_pos h0, abs_of_pos hx0]; exact ulpExp_mono h0 hyx
  obtain ⟨Nx, hfx⟩ := rep_grid_le hp hx hx0.ne' hk
  have hKge := ulpExp_ge prec emin |y|
  generalize ulpExp prec emin |y| = K at hfy hfx hKge
  have hg := pow2_pos K
  have heq : x - y = ((Nx - ny : Int) : ℚ) * pow2 K := by
    rw [hfx, hfy]; push_cast; ring
  rw [heq]
  refine rep_of_form hp ?_ hKge
  -- 0 ≤ Nx - ny ≤ ny ≤ 2^prec
  have hlo : (ny : ℚ) * pow2 K ≤ (Nx : ℚ) * pow2 K := by
    rw [← hfx, ← hfy]; exact hyx
  have hhi : (Nx : ℚ) * pow2 K ≤ ((2 * ny : Int) : ℚ) * pow2 K := by
    push_cast; rw [mul_assoc, ← hfx, ← hfy]; exact hx2
  rw [mul_le_mul_iff_of_pos_right hg] at hlo hhi
  have hlo' : ny ≤ Nx := by exact_mod_cast hlo
  have hhi' : Nx ≤ 2 * ny := by exact_mod_cast hhi
  have := le_abs_self ny
  rw [abs_le]; constructor <;> omega

/-- Sterbenz' lemma: the difference of two nearby representable numbers is representable. -/
theorem rep_sub_sterbenz (hp : 1 ≤ prec) {x y : ℚ} (hx : Rep prec emin x)
    (hy : Rep prec emin y) (h1 : y / 2 ≤ x) (h2 : x ≤ 2 * y) : Rep prec emin (x - y) := by
  have hy0 : 0 ≤ y := by linarith
  rcases eq_or_lt_of_le hy0 with h0 | h0
  · subst h0
    have : x = 0 := by linarith
    subst this; rw [sub_zero]; exact rep_zero
  · rcases le_total y x with hle | hle
    · exact rep_sub_of_le hp hx hy h0 hle h2
    · have hx0 : 0 < x := by linarith
      have := rep_neg (rep_sub_of_le hp hy hx hx0 hle (by linarith))
      rwa [neg_sub] at this

/-! ### change of format -/

/-- a narrower format embeds in a wider one. -/
theorem rep_of_rep_le {prec' : Nat} {emin' : Int} (hp : 1 ≤ prec) (hpp : prec ≤ prec')
    (hee : emin' - ((prec' : Int) - 1) ≤ emin - ((prec : Int) - 1)) {q : ℚ}
    (h : Rep prec emin q) : Rep prec' emin' q := by
  obtain ⟨n, k, hn, hk, rfl⟩ := (rep_iff hp).mp h
  refine rep_of_form (hp.trans hpp) (hn.trans ?_) (hee.trans hk)
  exact pow_le_pow_right₀ (by norm_num) hpp

/-- every binary32 value is a binary64 value. -/
theorem rep32_rep64 {q : ℚ} (h : Rep32 q) : Rep64 q :=
  rep_of_rep_le (by norm_num) (by norm_num) (by norm_num) h

end Fan2go
