/-
  Lemma interface for `Fan2go/F64/Basic.lean`, part A: `pow2`, `ilog2`, `rne`.
-/
import Mathlib.Tactic
import Mathlib.Data.Rat.Floor
import Mathlib.Data.Nat.Log
import Mathlib.Algebra.Order.Floor.Ring
import Fan2go.F64.Basic

namespace Fan2go

/-! ### pow2 -/

theorem pow2_def (e : Int) : pow2 e = (2 : ℚ) ^ e := rfl

theorem pow2_pos (e : Int) : 0 < pow2 e := by
  rw [pow2_def]; positivity

theorem pow2_ne_zero (e : Int) : pow2 e ≠ 0 := (pow2_pos e).ne'

theorem pow2_nonneg (e : Int) : 0 ≤ pow2 e := (pow2_pos e).le

theorem pow2_zero : pow2 0 = 1 := by simp [pow2_def]

theorem pow2_one : pow2 1 = 2 := by simp [pow2_def]

theorem pow2_add (a b : Int) : pow2 (a + b) = pow2 a * pow2 b := by
  simp only [pow2_def]; exact zpow_add₀ (by norm_num) a b

theorem pow2_sub (a b : Int) : pow2 (a - b) = pow2 a / pow2 b := by
  simp only [pow2_def]; exact zpow_sub₀ (by norm_num) a b

theorem pow2_neg (a : Int) : pow2 (-a) = (pow2 a)⁻¹ := by
  simp only [pow2_def]; exact zpow_neg 2 a

theorem pow2_succ (a : Int) : pow2 (a + 1) = 2 * pow2 a := by
  rw [pow2_add, pow2_one, mul_comm]

theorem pow2_pred (a : Int) : pow2 (a - 1) = pow2 a / 2 := by
  rw [pow2_sub, pow2_one]

theorem pow2_mono {a b : Int} (h : a ≤ b) : pow2 a ≤ pow2 b := by
  simp only [pow2_def]; exact zpow_le_zpow_right₀ (by norm_num) h

theorem pow2_lt {a b : Int} (h : a < b) : pow2 a < pow2 b := by
  simp only [pow2_def]; exact zpow_lt_zpow_right₀ (by norm_num) h

theorem pow2_le_iff {a b : Int} : pow2 a ≤ pow2 b ↔ a ≤ b := by
  constructor
  · intro h; by_contra hc; exact absurd (pow2_lt (not_le.mp hc)) (not_lt.mpr h)
  · exact pow2_mono

theorem pow2_lt_iff {a b : Int} : pow2 a < pow2 b ↔ a < b := by
  constructor
  · intro h; by_contra hc; exact absurd (pow2_mono (not_lt.mp hc)) (not_le.mpr h)
  · exact pow2_lt

theorem pow2_natCast (n : Nat) : pow2 (n : Int) = ((2 ^ n : Nat) : ℚ) := by
  rw [pow2_def, zpow_natCast]; push_cast; rfl

theorem pow2_natCast' (n : Nat) : pow2 (n : Int) = (2 : ℚ) ^ n := by
  rw [pow2_def, zpow_natCast]

theorem pow2_natCast_int (n : Nat) : pow2 (n : Int) = (((2 : Int) ^ n : Int) : ℚ) := by
  rw [pow2_def, zpow_natCast]; push_cast; rfl

/-- `pow2 d` is an integer for `0 ≤ d`. -/
theorem pow2_of_nonneg {d : Int} (h : 0 ≤ d) : pow2 d = (((2 : Int) ^ d.toNat : Int) : ℚ) := by
  rw [← pow2_natCast_int, Int.toNat_of_nonneg h]

/-- `pow2 a / pow2 k` is an integer when `k ≤ a`. -/
theorem pow2_div_pow2_int {a k : Int} (h : k ≤ a) :
    pow2 a / pow2 k = (((2 : Int) ^ (a - k).toNat : Int) : ℚ) := by
  rw [← pow2_sub, pow2_of_nonneg (by omega)]

/-! ### ilog2 -/

theorem ilog2_spec {x : ℚ} (hx : 0 < x) : pow2 (ilog2 x) ≤ x ∧ x < pow2 (ilog2 x + 1) := by
  have hnum : 0 < x.num := Rat.num_pos.mpr hx
  have hden : 0 < x.den := x.den_pos
  have hn0 : x.num.natAbs ≠ 0 := by omega
  have hd0 : x.den ≠ 0 := by omega
  -- natural-number bounds
  have h1 : 2 ^ Nat.log2 x.num.natAbs ≤ x.num.natAbs := Nat.log2_self_le hn0
  have h2 : x.num.natAbs < 2 ^ (Nat.log2 x.num.natAbs + 1) := Nat.lt_log2_self
  have h3 : 2 ^ Nat.log2 x.den ≤ x.den := Nat.log2_self_le hd0
  have h4 : x.den < 2 ^ (Nat.log2 x.den + 1) := Nat.lt_log2_self
  set a := Nat.log2 x.num.natAbs with ha
  set b := Nat.log2 x.den with hb
  have hxeq : x = (x.num.natAbs : ℚ) / (x.den : ℚ) := by
    have h := (Rat.num_div_den x).symm
    have hcast : (x.num : ℚ) = ((x.num.natAbs : Int) : ℚ) := by
      rw [Int.natAbs_of_nonneg hnum.le]
    rw [hcast, Int.cast_natCast] at h
    exact h
  have hdq : (0 : ℚ) < (x.den : ℚ) := by exact_mod_cast hden
  have h1q : (2 : ℚ) ^ a ≤ (x.num.natAbs : ℚ) := by exact_mod_cast h1
  have h2q : (x.num.natAbs : ℚ) < (2 : ℚ) ^ (a + 1) := by exact_mod_cast h2
  have h3q : (2 : ℚ) ^ b ≤ (x.den : ℚ) := by exact_mod_cast h3
  have h4q : (x.den : ℚ) < (2 : ℚ) ^ (b + 1) := by exact_mod_cast h4
  have hpa : pow2 (a : Int) = (2 : ℚ) ^ a := pow2_natCast' a
  have hpb : pow2 (b : Int) = (2 : ℚ) ^ b := pow2_natCast' b
  have hbpos : (0 : ℚ) < (2 : ℚ) ^ b := by positivity
  -- upper bound : x < pow2 (a - b + 1)
  have hup : x < pow2 ((a : Int) - b + 1) := by
    have : pow2 ((a : Int) - b + 1) = (2 : ℚ) ^ (a + 1) / (2 : ℚ) ^ b := by
      rw [show (a : Int) - b + 1 = ((a + 1 : Nat) : Int) - (b : Int) by push_cast; ring,
        pow2_sub, pow2_natCast', pow2_natCast']
    rw [this, hxeq, div_lt_div_iff₀ hdq hbpos]
    calc (x.num.natAbs : ℚ) * 2 ^ b < 2 ^ (a + 1) * 2 ^ b := by
          exact mul_lt_mul_of_pos_right h2q hbpos
      _ ≤ 2 ^ (a + 1) * (x.den : ℚ) := by
          exact mul_le_mul_of_nonneg_left h3q (by positivity)
  -- lower bound : pow2 (a - b - 1) ≤ x
  have hlow : pow2 ((a : Int) - b - 1) ≤ x := by
    have : pow2 ((a : Int) - b - 1) = (2 : ℚ) ^ a / (2 : ℚ) ^ (b + 1) := by
      rw [show (a : Int) - b - 1 = (a : Int) - ((b + 1 : Nat) : Int) by push_cast; ring,
        pow2_sub, pow2_natCast', pow2_natCast']
    have hb1pos : (0 : ℚ) < (2 : ℚ) ^ (b + 1) := by positivity
    rw [this, hxeq, div_le_div_iff₀ hb1pos hdq]
    calc (2 : ℚ) ^ a * (x.den : ℚ) ≤ (2 : ℚ) ^ a * 2 ^ (b + 1) := by
          exact mul_le_mul_of_nonneg_left h4q.le (by positivity)
      _ ≤ (x.num.natAbs : ℚ) * 2 ^ (b + 1) := by
          exact mul_le_mul_of_nonneg_right h1q (by positivity)
  have hil : ilog2 x = if pow2 ((a : Int) - b) ≤ x then (a : Int) - b else (a : Int) - b - 1 := rfl
  rw [hil]
  split_ifs with hc
  · exact ⟨hc, hup⟩
  · refine ⟨hlow, ?_⟩
    rw [show (a : Int) - b - 1 + 1 = (a : Int) - b by ring]
    exact not_le.mp hc

theorem ilog2_unique {x : ℚ} {e : Int} (h1 : pow2 e ≤ x) (h2 : x < pow2 (e + 1)) :
    ilog2 x = e := by
  have hx : 0 < x := lt_of_lt_of_le (pow2_pos e) h1
  obtain ⟨s1, s2⟩ := ilog2_spec hx
  have a1 : e < ilog2 x + 1 := pow2_lt_iff.mp (lt_of_le_of_lt h1 s2)
  have a2 : ilog2 x < e + 1 := pow2_lt_iff.mp (lt_of_le_of_lt s1 h2)
  omega

theorem ilog2_mono {x y : ℚ} (hx : 0 < x) (hxy : x ≤ y) : ilog2 x ≤ ilog2 y := by
  obtain ⟨s1, _⟩ := ilog2_spec hx
  obtain ⟨_, t2⟩ := ilog2_spec (lt_of_lt_of_le hx hxy)
  have : ilog2 x < ilog2 y + 1 := pow2_lt_iff.mp (lt_of_le_of_lt (s1.trans hxy) t2)
  omega

theorem ilog2_pow2 (e : Int) : ilog2 (pow2 e) = e :=
  ilog2_unique le_rfl (pow2_lt (by omega))

theorem le_ilog2_iff {x : ℚ} (hx : 0 < x) {e : Int} : e ≤ ilog2 x ↔ pow2 e ≤ x := by
  obtain ⟨s1, s2⟩ := ilog2_spec hx
  constructor
  · intro h; exact (pow2_mono h).trans s1
  · intro h
    have : e < ilog2 x + 1 := pow2_lt_iff.mp (lt_of_le_of_lt h s2)
    omega

theorem ilog2_lt_iff {x : ℚ} (hx : 0 < x) {e : Int} : ilog2 x < e ↔ x < pow2 e := by
  rw [← not_le, le_ilog2_iff hx, not_le]

/-! ### rne -/

theorem rne_def (x : ℚ) :
    rne x = if x - (⌊x⌋ : ℚ) < 1 / 2 then ⌊x⌋
      else if 1 / 2 < x - (⌊x⌋ : ℚ) then ⌊x⌋ + 1
      else if ⌊x⌋ % 2 = 0 then ⌊x⌋ else ⌊x⌋ + 1 := rfl

theorem rne_floor_le (x : ℚ) : ⌊x⌋ ≤ rne x := by
  rw [rne_def]; split_ifs <;> omega

theorem rne_le_floor_add_one (x : ℚ) : rne x ≤ ⌊x⌋ + 1 := by
  rw [rne_def]; split_ifs <;> omega

theorem rne_intCast (n : Int) : rne (n : ℚ) = n := by
  rw [rne_def]
  have : ⌊(n : ℚ)⌋ = n := Int.floor_intCast n
  rw [this]
  norm_num

theorem rne_zero : rne 0 = 0 := by
  have := rne_intCast 0
  simpa using this

theorem rne_mono {x y : ℚ} (h : x ≤ y) : rne x ≤ rne y := by
  have hf : ⌊x⌋ ≤ ⌊y⌋ := Int.floor_le_floor h
  rcases lt_or_eq_of_le hf with hlt | heq
  · calc rne x ≤ ⌊x⌋ + 1 := rne_le_floor_add_one x
      _ ≤ ⌊y⌋ := hlt
      _ ≤ rne y := rne_floor_le y
  · rw [rne_def, rne_def, heq]
    have hr : x - (⌊y⌋ : ℚ) ≤ y - (⌊y⌋ : ℚ) := by linarith
    split_ifs <;> first | omega | (exfalso; linarith)

theorem rne_abs_sub_le (x : ℚ) : |(rne x : ℚ) - x| ≤ 1 / 2 := by
  have h1 : (⌊x⌋ : ℚ) ≤ x := Int.floor_le x
  have h2 : x < (⌊x⌋ : ℚ) + 1 := Int.lt_floor_add_one x
  rw [rne_def, abs_le]
  split_ifs <;> push_cast <;> constructor <;> linarith

theorem rne_nonneg {x : ℚ} (h : 0 ≤ x) : 0 ≤ rne x := by
  have := rne_mono h
  rwa [rne_zero] at this

theorem rne_nonpos {x : ℚ} (h : x ≤ 0) : rne x ≤ 0 := by
  have := rne_mono h
  rwa [rne_zero] at this

theorem rne_neg (x : ℚ) : rne (-x) = - rne x := by
  by_cases hx : (⌊x⌋ : ℚ) = x
  · rw [← hx, ← Int.cast_neg, rne_intCast, rne_intCast]
  · have h1 : (⌊x⌋ : ℚ) < x := lt_of_le_of_ne (Int.floor_le x) hx
    have h2 : x < (⌊x⌋ : ℚ) + 1 := Int.lt_floor_add_one x
    have hfn : ⌊-x⌋ = -⌊x⌋ - 1 := by
      rw [Int.floor_eq_iff]; push_cast; constructor <;> linarith
    rw [rne_def (-x), rne_def x, hfn]
    push_cast
    split_ifs <;> first | omega | (exfalso; linarith)

/-- for `t ≥ 0`, round-half-even never more than doubles. -/
theorem rne_le_two_mul {t : ℚ} (ht : 0 ≤ t) : (rne t : ℚ) ≤ 2 * t := by
  rcases le_or_gt t (1 / 2) with h | h
  · have hle : rne t ≤ rne (1 / 2 : ℚ) := rne_mono h
    have hhalf : rne (1 / 2 : ℚ) = 0 := by
      have hf : ⌊(1 / 2 : ℚ)⌋ = 0 := by
        rw [Int.floor_eq_iff]; norm_num
      rw [rne_def, hf]; norm_num
    rw [hhalf] at hle
    have : (rne t : ℚ) ≤ 0 := by exact_mod_cast hle
    linarith
  · have := (abs_le.mp (rne_abs_sub_le t)).2
    linarith

/-- an integer lower bound transfers through `rne`. -/
theorem le_rne_of_intCast_le {n : Int} {x : ℚ} (h : (n : ℚ) ≤ x) : n ≤ rne x := by
  have := rne_mono h
  rwa [rne_intCast] at this

/-- an integer upper bound transfers through `rne`. -/
theorem rne_le_of_le_intCast {n : Int} {x : ℚ} (h : x ≤ (n : ℚ)) : rne x ≤ n := by
  have := rne_mono h
  rwa [rne_intCast] at this

end Fan2go
