/-
  F64 — an executable, rational-valued model of IEEE-754 binary64 as Go on amd64 executes it
  (round-to-nearest-even, gradual underflow, overflow to ±Inf, NaN), plus the binary32
  rounding needed for the single `float32(...)` cast in `util.CalculateInterpolatedCurveValue`.

  Core Lean only (no Mathlib): this file is linked into the line-protocol driver.
  The lemma interface lives in `Fan2go/F64/Lemmas.lean`.

  Not modelled: sign of zero (see DESIGN §2.2), NaN payloads, non-default rounding modes.
-/
namespace Fan2go

/-- `2^e` as a rational, for any integer exponent. -/
def pow2 (e : Int) : Rat := (2 : Rat) ^ e

/-- `⌊log2 x⌋` for `x > 0` (value irrelevant for `x ≤ 0`). -/
def ilog2 (x : Rat) : Int :=
  let a : Int := Nat.log2 x.num.natAbs
  let b : Int := Nat.log2 x.den
  let e := a - b
  if pow2 e ≤ x then e else e - 1

/-- round half to even, `Rat → Int`. -/
def rne (x : Rat) : Int :=
  let f := x.floor
  let r := x - f
  if r < 1/2 then f
  else if 1/2 < r then f + 1
  else if f % 2 = 0 then f else f + 1

/-- exponent of the unit in the last place for a positive `x` in a format with precision `prec`
    and minimal normal exponent `emin`. -/
def ulpExp (prec : Nat) (emin : Int) (x : Rat) : Int :=
  max (ilog2 x) emin - ((prec : Int) - 1)

/-- Correct rounding of a positive rational into the format (unbounded above). -/
def flPos (prec : Nat) (emin : Int) (x : Rat) : Rat :=
  let k := ulpExp prec emin x
  (rne (x / pow2 k) : Rat) * pow2 k

/-- Correct rounding of any rational (unbounded above; overflow is handled by `F64.ofRat`). -/
def flr (prec : Nat) (emin : Int) (x : Rat) : Rat :=
  if x = 0 then 0
  else if 0 < x then flPos prec emin x
  else - flPos prec emin (-x)

/-- binary64 rounding, unbounded exponent above. -/
def fl64 (x : Rat) : Rat := flr 53 (-1022) x
/-- binary32 rounding, unbounded exponent above. -/
def fl32 (x : Rat) : Rat := flr 24 (-126) x

def f64Huge : Rat := pow2 1024
def f32Huge : Rat := pow2 128

/-- A binary64 value. `fin q` carries a rational that is meant to be representable
    (invariant `F64.Rep`, proved preserved by every operation in `Lemmas`). -/
inductive F64 where
  | nan : F64
  | inf (neg : Bool) : F64
  | fin (q : Rat) : F64
  deriving Repr, DecidableEq, Inhabited

namespace F64

def ofRat (x : Rat) : F64 :=
  let r := fl64 x
  if f64Huge ≤ r then inf false
  else if r ≤ -f64Huge then inf true
  else fin r

def ofInt (n : Int) : F64 := ofRat (n : Rat)
def zero : F64 := fin 0
def one : F64 := fin 1

def isNaN : F64 → Bool
  | nan => true
  | _ => false

def isFinite : F64 → Bool
  | fin _ => true
  | _ => false

def neg : F64 → F64
  | nan => nan
  | inf s => inf (!s)
  | fin q => fin (-q)

def add : F64 → F64 → F64
  | nan, _ => nan
  | _, nan => nan
  | inf s, inf t => if s = t then inf s else nan
  | inf s, fin _ => inf s
  | fin _, inf t => inf t
  | fin a, fin b => ofRat (a + b)

def sub (x y : F64) : F64 := add x (neg y)

def mul : F64 → F64 → F64
  | nan, _ => nan
  | _, nan => nan
  | inf s, inf t => inf (s != t)
  | inf s, fin b => if b = 0 then nan else inf (s != decide (b < 0))
  | fin a, inf t => if a = 0 then nan else inf (t != decide (a < 0))
  | fin a, fin b => ofRat (a * b)

/-- Division. A zero divisor is treated as `+0` (the only zero divisor reachable in fan2go is a
    non-negative clock difference). -/
def div : F64 → F64 → F64
  | nan, _ => nan
  | _, nan => nan
  | inf _, inf _ => nan
  | inf s, fin b => inf (s != decide (b < 0))
  | fin _, inf _ => fin 0
  | fin a, fin b =>
    if b = 0 then (if a = 0 then nan else inf (decide (a < 0)))
    else ofRat (a / b)

instance : Add F64 := ⟨add⟩
instance : Sub F64 := ⟨sub⟩
instance : Mul F64 := ⟨mul⟩
instance : Div F64 := ⟨div⟩
instance : Neg F64 := ⟨neg⟩

/-- Go `x < y` on float64. -/
def lt : F64 → F64 → Bool
  | nan, _ => false
  | _, nan => false
  | inf s, inf t => s && !t
  | inf s, fin _ => s
  | fin _, inf t => !t
  | fin a, fin b => decide (a < b)

/-- Go `x <= y` on float64. -/
def le : F64 → F64 → Bool
  | nan, _ => false
  | _, nan => false
  | inf s, inf t => s || !t
  | inf s, fin _ => s
  | fin _, inf t => !t
  | fin a, fin b => decide (a ≤ b)

def gt (x y : F64) : Bool := lt y x
def ge (x y : F64) : Bool := le y x

/-- Go `x == y` on float64. -/
def feq : F64 → F64 → Bool
  | nan, _ => false
  | _, nan => false
  | inf s, inf t => s = t
  | fin a, fin b => decide (a = b)
  | _, _ => false

/-- truncation toward zero of a rational. -/
def truncRat (q : Rat) : Int := if 0 ≤ q then q.floor else -((-q).floor)

/-- Go `int(x)` for a float64 `x` on a 64-bit platform. `indef` is the implementation-defined
    result for NaN, ±Inf and out-of-range values (amd64: `-2^63`). -/
def toInt (indef : Int) : F64 → Int
  | fin q =>
    let t := truncRat q
    if t < -(2:Int)^63 ∨ (2:Int)^63 ≤ t then indef else t
  | _ => indef

/-- Go `math.Round`: nearest integer, halves away from zero. -/
def roundRat (q : Rat) : Int :=
  if 0 ≤ q then (q + 1/2).floor else -((-q + 1/2).floor)

def round : F64 → F64
  | fin q => fin (roundRat q)
  | x => x

/-- Go `math.Ceil`. -/
def ceil : F64 → F64
  | fin q => fin (-((-q).floor))
  | x => x

def abs : F64 → F64
  | fin q => fin (if q < 0 then -q else q)
  | inf _ => inf false
  | nan => nan

/-- Go `math.Min`. -/
def fmin : F64 → F64 → F64
  | inf true, _ => inf true
  | _, inf true => inf true
  | nan, _ => nan
  | _, nan => nan
  | inf false, y => y
  | x, inf false => x
  | fin a, fin b => if a ≤ b then fin a else fin b

/-- Go `math.Max`. -/
def fmax : F64 → F64 → F64
  | inf false, _ => inf false
  | _, inf false => inf false
  | nan, _ => nan
  | _, nan => nan
  | inf true, y => y
  | x, inf true => x
  | fin a, fin b => if a ≤ b then fin b else fin a

/-- Go `float64(float32(x))`. -/
def toF32 : F64 → F64
  | fin q =>
    let r := fl32 q
    if f32Huge ≤ r then inf false
    else if r ≤ -f32Huge then inf true
    else fin r
  | x => x

/-- `time.Duration.Seconds()` of a nanosecond count: `float64(sec) + float64(nsec)/1e9`. -/
def secondsOfNanos (d : Int) : F64 :=
  let sec := Int.tdiv d 1000000000
  let nsec := Int.tmod d 1000000000
  add (ofInt sec) (div (ofInt nsec) (ofInt 1000000000))

/-! ### bit-level encode / decode (line protocol only) -/

/-- Decode an IEEE-754 binary64 bit pattern. `-0` decodes to `fin 0`. -/
def ofBits (b : Nat) : F64 :=
  let sign : Bool := decide (b / 2^63 % 2 = 1)
  let e : Nat := b / 2^52 % 2^11
  let m : Nat := b % 2^52
  if e = 2047 then (if m = 0 then inf sign else nan)
  else
    let mag : Rat :=
      if e = 0 then ((m : Int) : Rat) * pow2 (-1074)
      else (((2^52 + m : Nat) : Int) : Rat) * pow2 ((e : Int) - 1075)
    fin (if sign then -mag else mag)

/-- Encode as an IEEE-754 binary64 bit pattern (canonical NaN `0x7FF8000000000001`, `+0` for zero).
    Assumes the payload of `fin` is representable. -/
def toBits : F64 → Nat
  | nan => 0x7FF8000000000001
  | inf false => 0x7FF0000000000000
  | inf true => 0xFFF0000000000000
  | fin q =>
    if q = 0 then 0 else
    let s : Nat := if q < 0 then 2^63 else 0
    let a : Rat := if q < 0 then -q else q
    let e := max (ilog2 a) (-1022)
    let m : Nat := (a / pow2 (e - 52)).floor.toNat
    if m < 2^52 then s + m            -- subnormal
    else s + ((e + 1023).toNat) * 2^52 + (m - 2^52)

end F64
end Fan2go
