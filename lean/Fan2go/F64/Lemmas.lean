/-
  Lemma interface for `Fan2go/F64/Basic.lean`.

  * part A (`LemmasBasic`): `pow2`, `ilog2`, `rne`
  * part B (`LemmasFl`):    `flr`, `Rep`, monotonicity, idempotence, error bounds, Sterbenz
  * part C (this file):     `fl64` / `fl32` / `F64.ofRat` corollaries

  Everything is fully proved; only the three standard axioms are used (see the audit block
  at the end).
-/
import Fan2go.F64.LemmasBasic
import Fan2go.F64.LemmasFl

namespace Fan2go

/-! ### fl64 -/

theorem fl64_def (x : ℚ) : fl64 x = flr 53 (-1022) x := rfl
theorem fl32_def (x : ℚ) : fl32 x = flr 24 (-126) x := rfl

theorem rep64_iff_fl64 {q : ℚ} : Rep64 q ↔ fl64 q = q := Iff.rfl
theorem rep32_iff_fl32 {q : ℚ} : Rep32 q ↔ fl32 q = q := Iff.rfl

theorem fl64_zero : fl64 0 = 0 := flr_zero
theorem fl64_neg (x : ℚ) : fl64 (-x) = - fl64 x := flr_neg x
theorem fl64_nonneg {x : ℚ} (h : 0 ≤ x) : 0 ≤ fl64 x := flr_nonneg h
theorem fl64_nonpos {x : ℚ} (h : x ≤ 0) : fl64 x ≤ 0 := flr_nonpos h
theorem fl64_mono {x y : ℚ} (h : x ≤ y) : fl64 x ≤ fl64 y := flr_mono (by norm_num) h
theorem fl64_idem (x : ℚ) : fl64 (fl64 x) = fl64 x := flr_idem (by norm_num) x
theorem rep64_fl64 (x : ℚ) : Rep64 (fl64 x) := fl64_idem x
theorem fl64_of_rep {q : ℚ} (h : Rep64 q) : fl64 q = q := h
theorem fl64_abs (x : ℚ) : fl64 |x| = |fl64 x| := flr_abs x

theorem rep64_intCast (n : Int) (h : |n| ≤ 2 ^ 53) : Rep64 (n : ℚ) :=
  rep_intCast (by norm_num) (by norm_num) n h

theorem fl64_intCast (n : Int) (h : |n| ≤ 2 ^ 53) : fl64 (n : ℚ) = n := rep64_intCast n h

theorem fl64_natCast (n : Nat) (h : n ≤ 2 ^ 53) : fl64 (n : ℚ) = n :=
  rep_natCast (by norm_num) (by norm_num) n h

theorem fl64_one : fl64 1 = 1 := rep_one (by norm_num) (by norm_num)

theorem rep64_pow2 (e : Int) (h : -1074 ≤ e) : Rep64 (pow2 e) :=
  rep_pow2 (by norm_num) e (by norm_num; exact h)

theorem fl64_pow2 (e : Int) (h : -1074 ≤ e) : fl64 (pow2 e) = pow2 e := rep64_pow2 e h

theorem fl64_le_of_le_rep {x r : ℚ} (hr : Rep64 r) (h : x ≤ r) : fl64 x ≤ r :=
  flr_le_of_le_rep (by norm_num) hr h

theorem le_fl64_of_rep_le {x r : ℚ} (hr : Rep64 r) (h : r ≤ x) : r ≤ fl64 x :=
  le_flr_of_rep_le (by norm_num) hr h

theorem abs_fl64_le_of_abs_le_rep {x r : ℚ} (hr : Rep64 r) (h : |x| ≤ r) : |fl64 x| ≤ r :=
  abs_flr_le_of_abs_le_rep (by norm_num) hr h

/-- relative error of binary64 rounding in the normal range. -/
theorem fl64_rel_err {x : ℚ} (h : pow2 (-1022) ≤ |x|) : |fl64 x - x| ≤ pow2 (-53) * |x| :=
  flr_rel_err (prec := 53) (by norm_num) h

/-- absolute error of binary64 rounding in the subnormal range. -/
theorem fl64_abs_err_sub (x : ℚ) (h : |x| < pow2 (-1022)) : |fl64 x - x| ≤ pow2 (-1075) :=
  flr_abs_err_sub (prec := 53) (emin := -1022) (by norm_num) x h

/-- error bound of binary64 rounding valid for every `x`. -/
theorem fl64_abs_err (x : ℚ) : |fl64 x - x| ≤ pow2 (-53) * |x| + pow2 (-1075) :=
  flr_abs_err (prec := 53) (emin := -1022) (by norm_num) x

theorem fl64_le_two_mul {y : ℚ} (hy : 0 < y) : fl64 y ≤ 2 * y :=
  flr_le_two_mul (prec := 53) (by norm_num) hy

theorem rep64_neg {q : ℚ} (h : Rep64 q) : Rep64 (-q) := rep_neg h

/-- Sterbenz for binary64: the subtraction is exact. -/
theorem fl64_sub_sterbenz {x y : ℚ} (hx : Rep64 x) (hy : Rep64 y) (h1 : y / 2 ≤ x)
    (h2 : x ≤ 2 * y) : fl64 (x - y) = x - y :=
  rep_sub_sterbenz (by norm_num) hx hy h1 h2

/-! ### fl32 -/

theorem fl32_zero : fl32 0 = 0 := flr_zero
theorem fl32_neg (x : ℚ) : fl32 (-x) = - fl32 x := flr_neg x
theorem fl32_nonneg {x : ℚ} (h : 0 ≤ x) : 0 ≤ fl32 x := flr_nonneg h
theorem fl32_nonpos {x : ℚ} (h : x ≤ 0) : fl32 x ≤ 0 := flr_nonpos h
theorem fl32_mono {x y : ℚ} (h : x ≤ y) : fl32 x ≤ fl32 y := flr_mono (by norm_num) h
theorem fl32_idem (x : ℚ) : fl32 (fl32 x) = fl32 x := flr_idem (by norm_num) x
theorem rep32_fl32 (x : ℚ) : Rep32 (fl32 x) := fl32_idem x

theorem rep32_intCast (n : Int) (h : |n| ≤ 2 ^ 24) : Rep32 (n : ℚ) :=
  rep_intCast (by norm_num) (by norm_num) n h

theorem fl32_intCast (n : Int) (h : |n| ≤ 2 ^ 24) : fl32 (n : ℚ) = n := rep32_intCast n h

theorem rep32_pow2 (e : Int) (h : -149 ≤ e) : Rep32 (pow2 e) :=
  rep_pow2 (by norm_num) e (by norm_num; exact h)

theorem fl32_le_of_le_rep {x r : ℚ} (hr : Rep32 r) (h : x ≤ r) : fl32 x ≤ r :=
  flr_le_of_le_rep (by norm_num) hr h

theorem le_fl32_of_rep_le {x r : ℚ} (hr : Rep32 r) (h : r ≤ x) : r ≤ fl32 x :=
  le_flr_of_rep_le (by norm_num) hr h

theorem fl32_rel_err {x : ℚ} (h : pow2 (-126) ≤ |x|) : |fl32 x - x| ≤ pow2 (-24) * |x| :=
  flr_rel_err (prec := 24) (by norm_num) h

theorem fl32_abs_err_sub (x : ℚ) (h : |x| < pow2 (-126)) : |fl32 x - x| ≤ pow2 (-150) :=
  flr_abs_err_sub (prec := 24) (emin := -126) (by norm_num) x h

/-- `float64(float32(x))` is exact. -/
theorem fl64_fl32 (x : ℚ) : fl64 (fl32 x) = fl32 x := rep32_rep64 (rep32_fl32 x)

/-! ### F64.ofRat -/

theorem pow2_1023_lt_f64Huge : pow2 1023 < f64Huge := pow2_lt (by norm_num)

theorem ofRat_fin_of_abs_le {x : ℚ} (h : |x| ≤ pow2 1023) : F64.ofRat x = F64.fin (fl64 x) := by
  have hr : Rep64 (pow2 1023) := rep64_pow2 1023 (by norm_num)
  have hb := abs_le.mp (abs_fl64_le_of_abs_le_rep hr h)
  have hlt := pow2_1023_lt_f64Huge
  have h1 : ¬ f64Huge ≤ fl64 x := by intro hc; linarith [hb.2]
  have h2 : ¬ fl64 x ≤ -f64Huge := by intro hc; linarith [hb.1]
  simp only [F64.ofRat, h1, h2, if_false]

/-- finite result as soon as the *rounded* value is below `2^1024`. -/
theorem ofRat_fin_of_abs_lt {x : ℚ} (h : |fl64 x| < f64Huge) : F64.ofRat x = F64.fin (fl64 x) := by
  have hb := abs_lt.mp h
  have h1 : ¬ f64Huge ≤ fl64 x := not_le.mpr hb.2
  have h2 : ¬ fl64 x ≤ -f64Huge := not_le.mpr hb.1
  simp only [F64.ofRat, h1, h2, if_false]

theorem ofRat_of_rep {q : ℚ} (hq : Rep64 q) (h : |q| ≤ pow2 1023) : F64.ofRat q = F64.fin q := by
  rw [ofRat_fin_of_abs_le h, fl64_of_rep hq]

theorem intCast_abs_le_pow2_1023 {n : Int} (h : |n| ≤ 2 ^ 53) : |(n : ℚ)| ≤ pow2 1023 := by
  have h1 : |(n : ℚ)| ≤ ((2 ^ 53 : Int) : ℚ) := by exact_mod_cast h
  have h2 : (((2 : Int) ^ 53 : Int) : ℚ) = pow2 ((53 : Nat) : Int) := (pow2_natCast_int 53).symm
  rw [h2] at h1
  exact h1.trans (pow2_mono (by norm_num))

theorem ofRat_intCast {n : Int} (h : |n| ≤ 2 ^ 53) : F64.ofRat (n : ℚ) = F64.fin (n : ℚ) :=
  ofRat_of_rep (rep64_intCast n h) (intCast_abs_le_pow2_1023 h)

theorem ofInt_small {n : Int} (h : |n| ≤ 2 ^ 53) : F64.ofInt n = F64.fin (n : ℚ) :=
  ofRat_intCast h

theorem ofRat_zero : F64.ofRat 0 = F64.fin 0 := by
  have := ofRat_intCast (n := 0) (by norm_num)
  simpa using this

/-- `F64.`-qualified aliases (protected, so `open F64` creates no ambiguity). -/
protected theorem F64.ofRat_fin_of_abs_le {x : ℚ} (h : |x| ≤ pow2 1023) :
    F64.ofRat x = F64.fin (fl64 x) := Fan2go.ofRat_fin_of_abs_le h
protected theorem F64.ofRat_intCast {n : Int} (h : |n| ≤ 2 ^ 53) :
    F64.ofRat (n : ℚ) = F64.fin (n : ℚ) := Fan2go.ofRat_intCast h
protected theorem F64.ofInt_small {n : Int} (h : |n| ≤ 2 ^ 53) :
    F64.ofInt n = F64.fin (n : ℚ) := Fan2go.ofInt_small h

end Fan2go

/-! ### audit of the logical foundations used -/
#print axioms Fan2go.pow2_add
#print axioms Fan2go.ilog2_spec
#print axioms Fan2go.rne_mono
#print axioms Fan2go.rne_neg
#print axioms Fan2go.flr_mono
#print axioms Fan2go.flr_idem
#print axioms Fan2go.rep_intCast
#print axioms Fan2go.rep_pow2
#print axioms Fan2go.flr_abs_sub_le_ulp
#print axioms Fan2go.flr_rel_err
#print axioms Fan2go.flr_abs_err_sub
#print axioms Fan2go.flr_le_two_mul
#print axioms Fan2go.rep_half
#print axioms Fan2go.rep_sub_small
#print axioms Fan2go.rep_sub_sterbenz
#print axioms Fan2go.rep32_rep64
#print axioms Fan2go.fl64_mono
#print axioms Fan2go.fl64_intCast
#print axioms Fan2go.fl64_fl32
#print axioms Fan2go.ofRat_fin_of_abs_le
#print axioms Fan2go.ofRat_intCast
#print axioms Fan2go.ofInt_small
