/-
  Model of internal/sensors/{hwmon,file,cmd}.go `GetValue` and internal/monitor.go `updateSensor`.
  Core Lean only.
-/
import Fan2go.Model.Util
namespace Fan2go
open F64

inductive SensorKind where
  | hwmon | file | cmd
  deriving Repr, DecidableEq, Inhabited

/-- What the backend I/O of one poll produced. -/
inductive SensorIo where
  /-- `util.ReadIntFromFile` succeeded with this integer (hwmon / file sensors) -/
  | readOk (n : Int)
  /-- `util.ReadIntFromFile` failed (missing / unreadable / empty / non-numeric file) -/
  | readFail
  /-- `util.SafeCmdExecution` returned an error (permission, non-zero exit, timeout) -/
  | execErr
  /-- the command succeeded and `strconv.ParseFloat` accepted its output as this value
      (Go accepts "nan", "inf", "+Inf", "-inf", "infinity" …) -/
  | parsed (v : F64)
  /-- the command succeeded but `strconv.ParseFloat` rejected the text (garbage, empty, out of range) -/
  | parseErr
  deriving Repr, Inhabited

/-- `Sensor.GetValue()` per backend. -/
def sensorGetValue (k : SensorKind) (io : SensorIo) : Res F64 :=
  match k, io with
  | .hwmon, .readOk n => .ok (ofInt n)
  | .hwmon, _ => .err "read"
  | .file, .readOk n => .ok (ofInt n)
  | .file, _ => .err "read"
  | .cmd, .parsed v => if v.isFinite then .ok v else .err "non-finite"
  | .cmd, .execErr => .err "exec"
  | .cmd, _ => .err "parse"

/-- `updateSensor(s)` with window size `n`: new moving average and the returned error. -/
def updateSensor (n : Int) (avg : F64) (k : SensorKind) (io : SensorIo) : F64 × Res Unit :=
  match sensorGetValue k io with
  | .ok v => (updateSimpleMovingAvg avg n v, .ok ())
  | .err e => (avg, .err e)
  | .panic s => (avg, .panic s)

end Fan2go
