/-
  Model of the control-algorithm selection in internal/backend.go `initializeFanControllers`:
  which control loop a fan configuration gets. Core Lean only.
-/
import Fan2go.Model.ControlLoop
namespace Fan2go
open F64

/-- `configuration.ControlAlgorithmConfig` as far as the wiring looks at it -/
structure CtrlAlgCfg where
  /-- `Direct` present, with its optional `MaxPwmChangePerCycle` -/
  direct : Option (Option Int) := none
  /-- `Pid` present, with its gains -/
  pid : Option (F64 × F64 × F64) := none
  deriving Inhabited

/-- the default gains `control_loop.DefaultPidConfig` (regenerated fact `fact_default_pid`) -/
def defaultPid : F64 × F64 × F64 := (F64.ofRat (3/10), F64.ofRat (2/100), F64.ofRat (5/1000))

def pidLoopSt (g : F64 × F64 × F64) : LoopSt := .pid { p := g.1, i := g.2.1, d := g.2.2 }

/-- `initializeFanControllers`: the deprecated `controlLoop` block wins; then `controlAlgorithm.pid`, then
    `.direct`; a present but empty `controlAlgorithm` leaves the loop nil (rejected by validation since the fix
    ffb7e7d); no `controlAlgorithm` at all selects PID with the default gains. `none` = nil control loop. -/
def controlLoopOf (legacy : Option (F64 × F64 × F64)) (ca : Option CtrlAlgCfg) : Option LoopSt :=
  match legacy with
  | some g => some (pidLoopSt g)
  | none =>
    match ca with
    | some c =>
      match c.pid with
      | some g => some (pidLoopSt g)
      | none =>
        match c.direct with
        | some m => some (.direct m)
        | none => none
    | none => some (pidLoopSt defaultPid)

end Fan2go
