/-
  Model of internal/configuration/{config,fans,curves,sensors,validation}.go as far as
  `validateConfig` and the instantiation of sensors/curves look at the decoded configuration.
  Core Lean only. Written check by check after validation.go: the ORDER of the checks is the
  source's order (the first error is the one reported).
-/
import Fan2go.Model.Curves
namespace Fan2go
namespace Cfg
open F64

/-! ### the decoded structs (nil-able pointer = `Option`) -/

/-- `SensorConfig`: `hwmon = some index`; for `file`/`cmd` only presence matters to validation. -/
structure SensorConfig where
  id : String
  hwmon : Option Int := none
  file : Bool := false
  cmd : Bool := false
  deriving Repr, DecidableEq, Inhabited

/-- `LinearCurveConfig`; `steps = none` ⇔ nil map, `some []` = empty non-nil map; sorted by key. -/
structure LinearCfg where
  sensor : String
  min : Int := 0
  max : Int := 0
  steps : Option (List (Int × F64)) := none
  deriving Repr, DecidableEq, Inhabited

structure PidCfg where
  sensor : String
  setPoint : F64 := F64.zero
  p : F64 := F64.zero
  i : F64 := F64.zero
  d : F64 := F64.zero
  deriving Repr, DecidableEq, Inhabited

structure FunctionCfg where
  type : String
  curves : List String := []
  deriving Repr, DecidableEq, Inhabited

structure CurveConfig where
  id : String
  linear : Option LinearCfg := none
  pid : Option PidCfg := none
  function : Option FunctionCfg := none
  deriving Repr, DecidableEq, Inhabited

/-- `ControlAlgorithmConfig`: `direct = some m` ⇔ `Direct != nil` with `MaxPwmChangePerCycle = m`;
    `pid = some (p,i,d)`. Both may be present (map spelling), both may be absent (`{}`). -/
structure CtrlAlgCfg where
  direct : Option (Option Int) := none
  pid : Option (F64 × F64 × F64) := none
  deriving Repr, DecidableEq, Inhabited

structure HwMonFanCfg where
  index : Int := 0
  rpmChannel : Int := 0
  pwmChannel : Int := 0
  deriving Repr, DecidableEq, Inhabited

/-- `CmdFanConfig`: `setPwm = some execEmpty` ⇔ `SetPwm != nil` with `len(Exec) <= 0 = execEmpty`. -/
structure CmdFanCfg where
  setPwm : Option Bool := none
  getPwm : Option Bool := none
  deriving Repr, DecidableEq, Inhabited

structure FanConfig where
  id : String
  curve : String := ""
  controlAlgorithm : Option CtrlAlgCfg := none
  hwmon : Option HwMonFanCfg := none
  /-- `some pathEmpty` -/
  file : Option Bool := none
  cmd : Option CmdFanCfg := none
  deriving Repr, DecidableEq, Inhabited

structure Configuration where
  sensors : List SensorConfig := []
  curves : List CurveConfig := []
  fans : List FanConfig := []
  deriving Repr, DecidableEq, Inhabited

/-- One constructor per distinct error message of validation.go, carrying the entity id the
    message is about. -/
inductive VErr where
  | dupSensor (id : String)
  | sensorMultiBackend (id : String)
  | sensorNoBackend (id : String)
  | sensorBadIndex (id : String)
  | dupCurve (id : String)
  | curveMultiBackend (id : String)
  | curveNoBackend (id : String)
  | curveBadFnType (id : String)
  | curveNoMembers (id : String)
  | curveSelfRef (id : String)
  | curveNoCurve (id : String)
  | curveNoSensorId (id : String)
  | curveNoSensor (id : String)
  | curveEmptySteps (id : String)
  | curvePidZero (id : String)
  | curveCycle
  | dupFan (id : String)
  | fanMultiBackend (id : String)
  | fanNoBackend (id : String)
  | fanNoCurveId (id : String)
  | fanNoCurve (id : String)
  | fanEmptyAlgo (id : String)
  | fanBadMaxPwmChange (id : String)
  | fanPidZero (id : String)
  | fanIndexXorRpm (id : String)
  | fanBadIndex (id : String)
  | fanBadRpmChannel (id : String)
  | fanBadPwmChannel (id : String)
  | fanNoPath (id : String)
  | fanNoSetPwm (id : String)
  | fanSetPwmNoExec (id : String)
  | fanNoGetPwm (id : String)
  | fanGetPwmNoExec (id : String)
  | configPerm
  deriving Repr, DecidableEq, Inhabited

def b2n (b : Bool) : Nat := if b then 1 else 0

def SensorConfig.subConfigs (s : SensorConfig) : Nat := b2n s.hwmon.isSome + b2n s.file + b2n s.cmd
def CurveConfig.subConfigs (c : CurveConfig) : Nat :=
  b2n c.linear.isSome + b2n c.pid.isSome + b2n c.function.isSome
def FanConfig.subConfigs (f : FanConfig) : Nat := b2n f.hwmon.isSome + b2n f.file.isSome + b2n f.cmd.isSome

/-- `sensorIdExists` -/
def sensorIdExists (id : String) (c : Configuration) : Bool := c.sensors.any (fun s => s.id == id)
/-- `curveIdExists` -/
def curveIdExists (id : String) (c : Configuration) : Bool := c.curves.any (fun s => s.id == id)

/-- Go `P == 0 && I == 0 && D == 0` on float64 -/
def allZero (p i d : F64) : Bool := feq p F64.zero && feq i F64.zero && feq d F64.zero

/-! ### sequencing of checks

Every check of validation.go has the shape `if <bad> { return error }`; a function body is a
sequence of such checks and the first error wins. -/

/-- `if bad { return e }` -/
def check (bad : Bool) (e : VErr) : Except VErr Unit := if bad then .error e else .ok ()

/-- `a; b` where `a` returns early on error -/
def seq (a b : Except VErr Unit) : Except VErr Unit :=
  match a with
  | .error e => .error e
  | .ok () => b

infixr:60 " >>> " => seq

/-- The common skeleton of the three `for` loops: `seen` = the `sensorIds`/`curveIds`/`fanIds`
    slice; first the duplicate-id test, then the checks of the entry, then the next entry. -/
def idLoop {α : Type} (getId : α → String) (dup : String → VErr) (body : α → Except VErr Unit) :
    List String → List α → Except VErr Unit
  | _, [] => .ok ()
  | seen, x :: rest =>
    check (seen.contains (getId x)) (dup (getId x)) >>>
    body x >>>
    idLoop getId dup body (seen ++ [getId x]) rest

/-! ### validateSensors -/

def validateSensorEntry (s : SensorConfig) : Except VErr Unit :=
  check (decide (s.subConfigs > 1)) (.sensorMultiBackend s.id) >>>
  check (decide (s.subConfigs ≤ 0)) (.sensorNoBackend s.id) >>>
  check (match s.hwmon with | some idx => decide (idx ≤ 0) | none => false) (.sensorBadIndex s.id)

def validateSensors (c : Configuration) : Except VErr Unit :=
  idLoop (·.id) .dupSensor validateSensorEntry [] c.sensors

/-! ### validateCurves -/

def supportedTypes : List String := ["minimum", "average", "maximum", "delta", "sum", "difference"]

/-- the `for _, curve := range curveConfig.Function.Curves` loop -/
def validateMembers (c : Configuration) (id : String) : List String → Except VErr Unit
  | [] => .ok ()
  | m :: ms =>
    check (m == id) (.curveSelfRef id) >>>
    check (!curveIdExists m c) (.curveNoCurve id) >>>
    validateMembers c id ms

def validateFunction (c : Configuration) (id : String) : Option FunctionCfg → Except VErr Unit
  | none => .ok ()
  | some f =>
    check (!supportedTypes.contains f.type) (.curveBadFnType id) >>>
    check f.curves.isEmpty (.curveNoMembers id) >>>
    validateMembers c id f.curves

def validateLinear (c : Configuration) (id : String) : Option LinearCfg → Except VErr Unit
  | none => .ok ()
  | some l =>
    check (decide (l.sensor.length ≤ 0)) (.curveNoSensorId id) >>>
    check (!sensorIdExists l.sensor c) (.curveNoSensor id) >>>
    check (match l.steps with | some st => st.isEmpty | none => false) (.curveEmptySteps id)

def validatePid (c : Configuration) (id : String) : Option PidCfg → Except VErr Unit
  | none => .ok ()
  | some p =>
    check (decide (p.sensor.length ≤ 0)) (.curveNoSensorId id) >>>
    check (!sensorIdExists p.sensor c) (.curveNoSensor id) >>>
    check (allZero p.p p.i p.d) (.curvePidZero id)

/-- checks of one loop iteration after the duplicate-id test -/
def validateCurveEntry (c : Configuration) (cc : CurveConfig) : Except VErr Unit :=
  check (decide (cc.subConfigs > 1)) (.curveMultiBackend cc.id) >>>
  check (decide (cc.subConfigs ≤ 0)) (.curveNoBackend cc.id) >>>
  validateFunction c cc.id cc.function >>>
  validateLinear c cc.id cc.linear >>>
  validatePid c cc.id cc.pid

/-- The `graph` map of `validateCurves` once the loop has completed: keys = ids of the function
    curves, edges = their member ids. (The loop returns on a duplicate id before it could
    overwrite a key, so the association list has pairwise distinct keys whenever it is used.) -/
abbrev Graph := List (String × List String)

def buildGraph (c : Configuration) : Graph :=
  c.curves.filterMap fun cc => cc.function.map fun f => (cc.id, f.curves)

/-- `graph[v]` (absent key ↦ nil slice) -/
def succs (g : Graph) (u : String) : List String :=
  match g.find? (fun p => p.1 == u) with
  | some p => p.2
  | none => []

/-- append the elements of the first list that are not yet in the second -/
def addNew : List String → List String → List String
  | [], S => S
  | x :: xs, S => if S.contains x then addNew xs S else addNew xs (S ++ [x])

/-- one round of the reachability closure: add the successors of everything in `S` -/
def stepSet (g : Graph) (S : List String) : List String := addNew (S.flatMap (succs g)) S

def closure (g : Graph) : Nat → List String → List String
  | 0, S => S
  | n + 1, S => closure g n (stepSet g S)

/-- total number of edge endpoints: no closure can grow more often than that -/
def closureFuel (g : Graph) : Nat := (g.flatMap (·.2)).length

/-- the vertices reachable from `u` in one or more steps -/
def reachable (g : Graph) (u : String) : List String := closure g (closureFuel g) (succs g u)

/-- SPECIFICATION of `validateNoLoops` (Tarjan SCC, `len(items) > 1`): some strongly connected
    component has more than one vertex ⇔ two distinct vertices reach each other. Vertices that are
    not keys have no outgoing edge, so only keys need to be inspected. -/
def hasCycle (g : Graph) : Bool :=
  g.any fun p => g.any fun q =>
    p.1 != q.1 && (reachable g p.1).contains q.1 && (reachable g q.1).contains p.1

def validateNoLoops (g : Graph) : Except VErr Unit := check (hasCycle g) .curveCycle

def validateCurves (c : Configuration) : Except VErr Unit :=
  idLoop (·.id) .dupCurve (validateCurveEntry c) [] c.curves >>>
  validateNoLoops (buildGraph c)

/-! ### validateFans -/

def validateCtrlAlg (id : String) : Option CtrlAlgCfg → Except VErr Unit
  | none => .ok ()
  | some ca =>
    check (ca.direct.isNone && ca.pid.isNone) (.fanEmptyAlgo id) >>>
    check (match ca.direct with | some (some m) => decide (m ≤ 0) | _ => false) (.fanBadMaxPwmChange id) >>>
    check (match ca.pid with | some (p, i, d) => allZero p i d | none => false) (.fanPidZero id)

def validateFanHwMon (id : String) : Option HwMonFanCfg → Except VErr Unit
  | none => .ok ()
  | some h =>
    check ((h.index != 0 && h.rpmChannel != 0) || (h.index == 0 && h.rpmChannel == 0)) (.fanIndexXorRpm id) >>>
    check (decide (h.index < 0)) (.fanBadIndex id) >>>
    check (decide (h.rpmChannel < 0)) (.fanBadRpmChannel id) >>>
    check (decide (h.pwmChannel < 0)) (.fanBadPwmChannel id)

def validateFanFile (id : String) : Option Bool → Except VErr Unit
  | none => .ok ()
  | some pathEmpty => check pathEmpty (.fanNoPath id)

def validateFanCmd (id : String) : Option CmdFanCfg → Except VErr Unit
  | none => .ok ()
  | some cmd =>
    check cmd.setPwm.isNone (.fanNoSetPwm id) >>>
    check (cmd.setPwm == some true) (.fanSetPwmNoExec id) >>>
    check cmd.getPwm.isNone (.fanNoGetPwm id) >>>
    check (cmd.getPwm == some true) (.fanGetPwmNoExec id)

def validateFanEntry (c : Configuration) (f : FanConfig) : Except VErr Unit :=
  check (decide (f.subConfigs > 1)) (.fanMultiBackend f.id) >>>
  check (decide (f.subConfigs ≤ 0)) (.fanNoBackend f.id) >>>
  check (decide (f.curve.length ≤ 0)) (.fanNoCurveId f.id) >>>
  check (!curveIdExists f.curve c) (.fanNoCurve f.id) >>>
  validateCtrlAlg f.id f.controlAlgorithm >>>
  validateFanHwMon f.id f.hwmon >>>
  validateFanFile f.id f.file >>>
  validateFanCmd f.id f.cmd

def validateFans (c : Configuration) : Except VErr Unit :=
  idLoop (·.id) .dupFan (validateFanEntry c) [] c.fans

/-- `containsCmdSensors() || containsCmdFan()` (the Go functions read the global `CurrentConfig`,
    which is the configuration being validated on the `config validate` path). -/
def containsCmd (c : Configuration) : Bool :=
  c.sensors.any (·.cmd) || c.fans.any (·.cmd.isSome)

/-- `validateConfig(config, path)`; `permOk` = `CheckFilePermissionsForExecution(path)` succeeds.
    NOTE the source: the error of `validateFans` is NOT returned immediately – the permission
    check runs first and its error wins. -/
def validateConfig (c : Configuration) (permOk : Bool) : Except VErr Unit :=
  validateSensors c >>>
  validateCurves c >>>
  (let err := validateFans c
   check (containsCmd c && !permOk) .configPerm >>> err)

/-! ### instantiation (`curves.NewSpeedCurve` for every entry of `config.Curves`) -/

/-- `NewSpeedCurve`: `Linear` wins over `PID` wins over `Function`; no sub-configuration is an error
    (the entry is then not registered). -/
def toCurve (cc : CurveConfig) : Option Curve :=
  match cc.linear, cc.pid, cc.function with
  | some l, _, _ => some { id := cc.id, cfg := .linear l.sensor l.min l.max l.steps }
  | none, some p, _ =>
    some { id := cc.id, cfg := .pid p.sensor p.setPoint, pid := { p := p.p, i := p.i, d := p.d } }
  | none, none, some f => some { id := cc.id, cfg := .function f.type f.curves }
  | none, none, none => none

def toCurveTable (c : Configuration) : CurveTable := c.curves.filterMap toCurve

end Cfg
end Fan2go
