/-
  Model of internal/control_loop/{direct,pid}.go.  Core Lean only.
-/
import Fan2go.Model.Util
namespace Fan2go
open F64

/-- `(*DirectControlLoop).Cycle(target, current)`; `m` = `maxPwmChangePerCycle`. -/
def directCycle (indef : Int) (m : Option Int) (target current : Int) : Int :=
  let stepTarget :=
    match m with
    | none => ofInt target
    | some maxChange =>
      let err := ofInt (target - current)
      let clampedErr := coerce err (neg (ofInt maxChange)) (ofInt maxChange)
      ofInt current + clampedErr
  let coerced := coerce stepTarget (ofInt 0) (ofInt 255)
  toInt indef (round coerced)

/-- `(*PidControlLoop).Cycle(target, current)` with the clock reading supplied. -/
def pidCycle (indef : Int) (st : PidSt) (target current : Int) (now : Int) : PidSt × Int :=
  let (st', result) := pidLoop st (ofInt target) (ofInt current) now
  let coerced := coerce (ofInt current + result) (ofInt 0) (ofInt 255)
  (st', toInt indef (round coerced))

/-- A control loop instance: configuration + memory. -/
inductive LoopSt where
  | direct (m : Option Int)
  | pid (st : PidSt)
  deriving Repr, Inhabited

def LoopSt.cycle (indef : Int) (l : LoopSt) (target current : Int) (now : Int) : LoopSt × Int :=
  match l with
  | .direct m => (.direct m, directCycle indef m target current)
  | .pid st => let (st', r) := pidCycle indef st target current now; (.pid st', r)

end Fan2go
