/-
  Model of WHAT the start-up analysis of a fan computes (C15, second part):
    internal/controller/controller.go   `computePwmMapAutomatically` (255 → 0 sweep / default map),
                                        `updateDistinctPwmValues`, the RPM-curve loop of
                                        `RunInitializationSequence`, `setPwm`, `getPwm`, `waitForFanToSettle`,
                                        `trySetManualPwm`, `restorePwmEnabled`, and `Run` up to the first tick
    internal/util/math.go               `InterpolateLinearly`, `InterpolateLinearlyInt`
    internal/fans/file.go               `var interpolated` (the built-in curve of file / cmd fans)
  written operation by operation after the Go source. Core Lean only.

  `Model/Startup.lean` decides WHICH steps a start takes (booleans); the functions `…D` below are the same
  entry points carrying the DATA: the controller's `pwmMap` / `pwmValuesWithDistinctTarget`, the fan object
  (`FanSt` of Model/Fan.lean), the two database entries with their contents (`DStore`) and the registers of
  the device. `Proofs/Analysis.lean` proves that erasing the data (`DOut.abs`) gives exactly the decisions of
  `Model/Startup.lean` (so every C15 / C16 theorem about the decision model speaks about these runs too).

  The device (`Phys`, `Regs`) is the one the harness plays (go/harness/startup.go): every read succeeds –
  except that the PWM value may be unreadable altogether (`pwmRead = false`) –, every write is applied, a
  written PWM value `v` lands in the register as `resp v`, and the RPM register shows `rpmOf` of the PWM
  register as of the last write event (PWM or mode). `resp` and `rpmOf` are arbitrary functions here; the
  harness instantiates them with `quantResp q` and `harnessRpm spinAt`.

  Not modelled: failing device I/O during the analysis (C09's subject; the decision model has `devOk` for
  it), failing database operations (C14), `fan.SetRpmAvg` inside the measurement loop (no influence on what
  is attached or stored), the PWM value written by the first regulation cycle (Model/Controller.lean's
  subject; `restorePwmEnabled` overwrites it before `Run` returns).
-/
import Fan2go.Model.Startup
import Fan2go.Model.Fan
namespace Fan2go.Analysis
open Fan2go Fan2go.Startup F64

/-! ### the device -/

/-- the physics of the device behind the fan -/
structure Phys where
  /-- how a written PWM value lands in the register -/
  resp : Int → Int
  /-- the RPM the fan settles at for a register value -/
  rpmOf : Int → Int

/-- what the device saw, as the harness records it: PWM writes (the value written, not the register),
    `pwm_enable` writes, and the marker "the fan's curve was evaluated for the first time" -/
inductive DevEv where
  | pwm (v : Int)
  | mode (v : Int)
  | eval
  deriving DecidableEq, Repr, Inhabited

/-- registers of the device (`verifhook.Device{Mode: 2, Pwm: 100}`: the RPM register starts at 0) and the log
    of events, newest first -/
structure Regs where
  pwm : Int := 100
  rpm : Int := 0
  mode : Int := 2
  log : List DevEv := []
  deriving DecidableEq, Repr, Inhabited

/-- a PWM write event -/
def Phys.write (ph : Phys) (r : Regs) (v : Int) : Regs :=
  { r with pwm := ph.resp v, rpm := ph.rpmOf (ph.resp v), log := .pwm v :: r.log }

/-- a `pwm_enable` write event (the RPM register is refreshed at every write event) -/
def Phys.writeMode (ph : Phys) (r : Regs) (v : Int) : Regs :=
  { r with mode := v, rpm := ph.rpmOf r.pwm, log := .mode v :: r.log }

/-- the first `curve.Evaluate()` of the regulation loop -/
def Regs.mark (r : Regs) : Regs := { r with log := .eval :: r.log }

/-- the harness's quantiser `v ↦ (v / q) * q` (Go division truncates), identity for `q ≤ 1` -/
def quantResp (q v : Int) : Int := if q > 1 then Int.tdiv v q * q else v

/-- the harness's fan: 10 RPM per PWM step once the register reaches `spinAt`, else standing still -/
def harnessRpm (spinAt p : Int) : Int := if p ≥ spinAt then 10 * p else 0

def harnessPhys (q spinAt : Int) : Phys := { resp := quantResp q, rpmOf := harnessRpm spinAt }

/-! ### `util.InterpolateLinearly(Int)` and the two constants built with it -/

/-- the loop `for i := start; i <= stop; i++ { interpolated[i] = CalculateInterpolatedCurveValue(data, linear, float64(i)) }`
    (`n` keys from `i` on); the result is sorted by key -/
def interpolateLoop (data : List (Int × F64)) : Int → Nat → Res (List (Int × F64))
  | _, 0 => .ok []
  | i, n + 1 =>
    match interp data (ofInt i) with
    | .ok v =>
      match interpolateLoop data (i + 1) n with
      | .ok r => .ok ((i, v) :: r)
      | .err e => .err e
      | .panic s => .panic s
    | .err e => .err e
    | .panic s => .panic s

/-- `util.InterpolateLinearly(&data, start, stop)`; `data` sorted by key -/
def interpolateLinearly (data : List (Int × F64)) (start stop : Int) : Res (List (Int × F64)) :=
  interpolateLoop data start (stop - start + 1).toNat

/-- `util.InterpolateLinearlyInt(&data, start, stop)`: `float64(v)` in, `int(v)` out -/
def interpolateLinearlyInt (indef : Int) (data : List (Int × Int)) (start stop : Int) : Res (List (Int × Int)) :=
  match interpolateLinearly (data.map fun p => (p.1, ofInt p.2)) start stop with
  | .ok r => .ok (r.map fun p => (p.1, toInt indef p.2))
  | .err e => .err e
  | .panic s => .panic s

/-- `util.InterpolateLinearlyInt(&map[int]int{0: 0, 255: 255}, 0, 255)` of `computePwmMapAutomatically`.
    The fall-back `[]` is unreachable: `Proofs/Analysis.lean` `defaultPwmMap_eq` evaluates the call. -/
def defaultPwmMap (indef : Int) : List (Int × Int) :=
  match interpolateLinearlyInt indef [(0, 0), (255, 255)] 0 255 with
  | .ok m => m
  | _ => []

/-- `var interpolated = util.InterpolateLinearly(&map[int]float64{0: 0, 255: 255}, 0, 255)` (fans/file.go,
    fans/cmd.go): what `GetFanRpmCurveData` of a file / cmd fan returns. Fall-back unreachable (`fileCurve_eq`). -/
def fileCurve : List (Int × F64) :=
  match interpolateLinearly [(0, ofInt 0), (255, ofInt 255)] 0 255 with
  | .ok m => m
  | _ => []

/-! ### the fan and the controller -/

/-- the configuration of one fan as far as start-up reads it -/
structure FanCfg where
  kind : Kind := .hwmon
  /-- `Supports(FeatureRpmSensor)` -/
  hasRpm : Bool := true
  /-- `Supports(FeaturePwmSensor)` -/
  pwmRead : Bool := true
  /-- `Config.PwmMap` (sorted by key) -/
  cfgMap : Option (List (Int × Int)) := none
  neverStop : Bool := false
  cfgMin : Option Int := none
  cfgStart : Option Int := none
  cfgMax : Option Int := none
  deriving Repr, Inhabited

/-- the decision model's view of the fan; `devOk` = "the measurement loop succeeds and yields a point" -/
def FanCfg.decl (c : FanCfg) (devOk : Bool) : FanDecl :=
  { kind := c.kind, hasRpm := c.hasRpm, pwmRead := c.pwmRead, cfgMap := c.cfgMap.isSome,
    minMax := c.cfgMin.isSome && c.cfgMax.isSome, devOk := devOk }

def fanKind : Kind → FanKind
  | .hwmon => .hwmon
  | .file => .file
  | .cmd => .cmd

/-- `fans.NewFan(config)` -/
def FanCfg.newFan (c : FanCfg) : FanSt := FanSt.new (fanKind c.kind) c.neverStop c.cfgMin c.cfgStart c.cfgMax

/-- `Supports(FeatureControlMode)`: hwmon fans with a `pwmN_enable` file (the harness always creates it) -/
def FanCfg.hasMode (c : FanCfg) : Bool := c.kind == .hwmon

/-- `fan.GetFanRpmCurveData()` as `SaveFanPwmData` reads it -/
def curveOf (c : FanCfg) (fan : FanSt) : Option (List (Int × F64)) :=
  match c.kind with
  | .hwmon => fan.curveData
  | _ => some fileCurve

/-- the fields of `DefaultFanController` start-up touches; a PWM map carries the tag of the decision model -/
structure CtlSt where
  pwmMap : Option (MapSrc × List (Int × Int)) := none
  /-- `pwmValuesWithDistinctTarget` -/
  distinct : List Int := []
  lastSet : Option Int := none
  origPwm : Int := 0
  origMode : Int := 0
  deriving Repr, Inhabited

/-- the two database entries of one fan id, with their contents -/
structure DStore where
  rpm : Option (List (Int × F64)) := none
  map : Option (MapSrc × List (Int × Int)) := none
  deriving Repr, Inhabited

def DStore.abs (s : DStore) : Store := { rpm := s.rpm.isSome, map := s.map.map (·.1) }

/-- `applyPwmMapping` -/
def CtlSt.mapping (c : CtlSt) (k : Int) : Int :=
  match c.pwmMap with
  | some (_, m) => mapGet m k
  | none => 0

/-- `updateDistinctPwmValues`: `ExtractKeysWithDistinctValues` walks the sorted keys, so for a key-sorted
    map the result is ascending already and `sort.Ints` changes nothing (`extractKeys_sorted`) -/
def updateDistinct (c : CtlSt) : CtlSt :=
  { c with distinct := match c.pwmMap with
      | some (_, m) => extractKeys m
      | none => [] }

/-- `(*DefaultFanController).getPwm()` -/
def getPwm (cfg : FanCfg) (fan : FanSt) (c : CtlSt) (r : Regs) : Int :=
  if cfg.pwmRead then r.pwm
  else match c.lastSet with
    | some v => v
    | none => fan.getMin

/-- `trySetManualPwm(fan)`: `SetPwmEnabled(1)`, write applied and read back -/
def trySetManual (ph : Phys) (cfg : FanCfg) (r : Regs) : Regs :=
  if cfg.hasMode then ph.writeMode r 1 else r

/-- `restorePwmEnabled()` -/
def restore (ph : Phys) (cfg : FanCfg) (c : CtlSt) (r : Regs) : Regs :=
  let r1 := ph.write r c.origPwm
  if cfg.hasMode && c.origMode != 1 then
    ph.writeMode r1 c.origMode          -- `SetPwmEnabled(original)` succeeds: return
  else
    ph.write r1 255

/-- `setPwm(target)` -/
def setPwm (ph : Phys) (cfg : FanCfg) (c : CtlSt) (r : Regs) (target : Int) : Res (CtlSt × Regs) :=
  match findClosest target c.distinct.toArray with
  | .ok closestTarget =>
    let closestExpected := c.mapping closestTarget
    let c' := { c with lastSet := some target }
    if cfg.pwmRead && closestExpected == r.pwm then .ok (c', r)   -- "nothing to do"
    else .ok (c', ph.write r closestExpected)
  | .err e => .err e
  | .panic s => .panic s

/-! ### the sweep of `computePwmMapAutomatically` -/

/-- `for i := n; i >= 0; i-- { fan.SetPwm(i); pwm, _ := fan.GetPwm(); pwmMap[i] = pwm }`;
    keys arrive in descending order, so prepending keeps the list sorted by key -/
def sweepFrom (ph : Phys) : Nat → Regs → List (Int × Int) → Regs × List (Int × Int)
  | 0, r, acc =>
    let r' := ph.write r 0
    (r', (0, r'.pwm) :: acc)
  | n + 1, r, acc =>
    let r' := ph.write r ((n + 1 : Nat) : Int)
    sweepFrom ph n r' ((((n + 1 : Nat) : Int), r'.pwm) :: acc)

def sweep (ph : Phys) (r : Regs) : Regs × List (Int × Int) := sweepFrom ph 255 r []

/-- `computePwmMapAutomatically()` -/
def computeAuto (indef : Int) (ph : Phys) (cfg : FanCfg) (fan : FanSt) (c : CtlSt) (r : Regs) :
    List Action × CtlSt × Regs :=
  if !cfg.pwmRead then
    ([.defaultMap], { c with pwmMap := some (.default, defaultPwmMap indef) }, r)
  else
    let r1 := trySetManual ph cfg r
    let (r2, m) := sweep ph r1
    -- `_ = fan.SetPwm(f.applyPwmMapping(fan.GetStartPwm()))`
    ([.sweep], { c with pwmMap := some (.swept, m) }, ph.write r2 (mapGet m fan.getStart))

/-- `computePwmMapLocked()` (and `computePwmMap()`, which only adds the mutex) -/
def computePwmMapLockedD (indef : Int) (ph : Phys) (cfg : FanCfg) (fan : FanSt) (c : CtlSt) (st : DStore)
    (r : Regs) : List Action × CtlSt × DStore × Regs :=
  match cfg.cfgMap with
  | some m => ([.useOverride], { c with pwmMap := some (.override, m) }, st, r)
  | none =>
    match st.map with
    | some sm => ([.useStored], { c with pwmMap := some sm }, st, r)
    | none =>
      let (a, c', r') : List Action × CtlSt × Regs :=
        match c.pwmMap with
        | none => computeAuto indef ph cfg fan c r
        | some _ => ([], c, r)
      (a ++ [.saveMap], c', { st with map := c'.pwmMap }, r')

/-! ### the RPM-curve measurement -/

/-- `curveData[k] = v` on the key-sorted list -/
def putF : List (Int × F64) → Int → F64 → List (Int × F64)
  | [], k, v => [(k, v)]
  | (k', v') :: rest, k, v =>
    if k < k' then (k, v) :: (k', v') :: rest
    else if k = k' then (k, v) :: rest
    else (k', v') :: putF rest k v

structure MeasOut where
  ctl : CtlSt
  regs : Regs
  data : List (Int × F64)
  res : Res Unit
  deriving Inhabited

/-- the loop `for _, pwm := range f.pwmValuesWithDistinctTarget { … }` of `RunInitializationSequence`
    (`waitForFanToSettle` / the response delay only let time pass: see `settle`) -/
def measureLoop (ph : Phys) (cfg : FanCfg) (fan : FanSt) : List Int → CtlSt → Regs → List (Int × F64) → MeasOut
  | [], c, r, acc => { ctl := c, regs := r, data := acc, res := .ok () }
  | pwm :: rest, c, r, acc =>
    match setPwm ph cfg c r pwm with
    | .ok (c', r') =>
      let expectedPwm := c'.mapping pwm
      let actualPwm := getPwm cfg fan c' r'
      if actualPwm ≠ expectedPwm then
        measureLoop ph cfg fan rest c' r' acc                                -- "differs from requested one, skipping"
      else
        measureLoop ph cfg fan rest c' r' (putF acc pwm (ofInt r'.rpm))     -- `curveData[pwm] = float64(rpm)`
    | .err e => { ctl := c, regs := r, data := acc, res := .err e }
    | .panic s => { ctl := c, regs := r, data := acc, res := .panic s }

/-! ### `waitForFanToSettle` -/

/-- `rolling.Max` over the window's buckets -/
def windowMax : List F64 → F64
  | [] => F64.zero
  | x :: rest => rest.foldl (fun acc p => if gt p acc then p else acc) x

/-- the loop of `waitForFanToSettle`: `thr` = `MaxRpmDiffForSettledFan`, `rd n` = what the `n`-th `GetRpm`
    returns (`none` = error → `continue`), `win` / `off` = the 10-point rolling window and its write offset,
    `old` = `oldRpm`, `mx` = `measuredRpmDiffMax`. Returns the number of polls after which the loop is left,
    `none` if `fuel` polls were not enough. -/
def settleLoop (thr : F64) (rd : Nat → Option Int) : Nat → Nat → List F64 → Nat → Int → F64 → Option Nat
  | 0, n, _, _, _, mx => if lt mx thr then some n else none
  | fuel + 1, n, win, off, old, mx =>
    if lt mx thr then some n
    else
      match rd n with
      | none => settleLoop thr rd fuel (n + 1) win off old mx
      | some cur =>
        let win' := win.set off (abs (ofInt (cur - old)))
        settleLoop thr rd fuel (n + 1) win' ((off + 1) % 10) cur (ceil (windowMax win'))

/-- `waitForFanToSettle(fan)`: window of 10 filled with `2·thr`, `oldRpm := 0` -/
def settle (thr : F64) (rd : Nat → Option Int) (fuel : Nat) : Option Nat :=
  settleLoop thr rd fuel 0 (List.replicate 10 (ofInt 2 * thr)) 0 0 (ofInt 2 * thr)

/-! ### the entry points, with data -/

structure DOut where
  acts : List Action
  store : DStore
  ctl : CtlSt
  ok : Bool
  regs : Regs
  fan : FanSt
  /-- a panic site reached (never, see `Proofs/Analysis.lean` `measure_ok`) -/
  crash : Option String := none
  deriving Inhabited

def DOut.abs (o : DOut) : Out :=
  { acts := o.acts, store := o.store.abs, ctl := o.ctl.pwmMap.map (·.1), ok := o.ok }

/-- the measurement was entered and did not deliver: an I/O error, or no point at all
    (`AttachFanRpmCurveData` refuses an empty curve) – the decision model's `devOk = false` -/
def DOut.devOk (o : DOut) : Bool := !o.acts.contains .measureFail

/-- `RunInitializationSequence()` -/
def runInitD (indef : Int) (ph : Phys) (cfg : FanCfg) (fan : FanSt) (c : CtlSt) (st : DStore) (r : Regs) : DOut :=
  let (a1, c1, st1, r1) := computePwmMapLockedD indef ph cfg fan c st r
  -- `err = f.persistence.SaveFanPwmMap(fan.GetId(), f.pwmMap)`; `f.updateDistinctPwmValues()`
  let st2 : DStore := { st1 with map := c1.pwmMap }
  let c2 := updateDistinct c1
  let pre := Action.initSequence :: a1 ++ [.saveMap]
  if !cfg.hasRpm then
    { acts := pre ++ [.skipMeasure], store := st2, ctl := c2, ok := true, regs := r1, fan := fan }
  else
    let r2 := trySetManual ph cfg r1
    let mo := measureLoop ph cfg fan c2.distinct c2 r2 []
    match mo.res with
    | .ok () =>
      -- `err = fan.AttachFanRpmCurveData(&curveData)`
      match fan.attach indef (some mo.data) with
      | (fan', .ok ()) =>
        -- `err = f.persistence.SaveFanPwmData(fan)`
        { acts := pre ++ [.manual, .measure, .attach, .saveRpm], store := { st2 with rpm := curveOf cfg fan' },
          ctl := mo.ctl, ok := true, regs := mo.regs, fan := fan' }
      | (fan', _) =>
        { acts := pre ++ [.manual, .measure, .measureFail], store := st2, ctl := mo.ctl, ok := false,
          regs := mo.regs, fan := fan' }
    | .err _ =>
      { acts := pre ++ [.manual, .measure, .measureFail], store := st2, ctl := mo.ctl, ok := false,
        regs := mo.regs, fan := fan }
    | .panic s =>
      { acts := pre ++ [.manual, .measure, .measureFail], store := st2, ctl := mo.ctl, ok := false,
        regs := mo.regs, fan := fan, crash := some s }

/-- the part of `Run` from the second `LoadFanPwmData` on; after the first regulation cycle the context is
    cancelled and `restorePwmEnabled` runs (the cycle itself: `curve.Evaluate()`, `trySetManualPwm` and a PWM
    write that the restore overwrites) -/
def runTailD (indef : Int) (ph : Phys) (cfg : FanCfg) (fan : FanSt) (c : CtlSt) (st : DStore) (r : Regs)
    (acts : List Action) : DOut :=
  match st.rpm with
  | some d =>
    -- `err = fan.AttachFanRpmCurveData(&fanPwmData)`
    match fan.attach indef (some d) with
    | (fan', .ok ()) =>
      -- `f.computePwmMap()`, `f.updateDistinctPwmValues()`
      let (a, c', st', r') := computePwmMapLockedD indef ph cfg fan' c st r
      let c'' := updateDistinct c'
      { acts := acts ++ [.loadRpmOk, .attach] ++ a ++ [.regulate], store := st', ctl := c'', ok := true,
        regs := restore ph cfg c'' (trySetManual ph cfg r'.mark), fan := fan' }
    | (fan', _) =>
      { acts := acts ++ [.loadRpmOk, .attach, .restore], store := st, ctl := c, ok := false,
        regs := restore ph cfg c r, fan := fan' }
  | none =>
    { acts := acts ++ [.loadRpmFail, .restore], store := st, ctl := c, ok := false,
      regs := restore ph cfg c r, fan := fan }

/-- `Run` of a FRESH controller on a FRESH fan object up to (and including) its cancellation right after the
    first regulation cycle -/
def startD (indef : Int) (ph : Phys) (cfg : FanCfg) (st : DStore) (r : Regs) : DOut :=
  let fan := cfg.newFan
  -- `f.originalPwmValue = f.getPwm()`; `f.originalPwmEnabled = fan.GetPwmEnabled()` if supported
  let c0 : CtlSt := { origPwm := getPwm cfg fan {} r, origMode := if cfg.hasMode then r.mode else 0 }
  match st.rpm with
  | some _ => runTailD indef ph cfg fan c0 st r [.loadRpmOk]
  | none =>
    match cfg.kind with
    | .hwmon =>
      let o := runInitD indef ph cfg fan c0 st r
      if o.ok then runTailD indef ph cfg o.fan o.ctl o.store o.regs (.loadRpmFail :: o.acts)
      else { o with acts := .loadRpmFail :: o.acts ++ [.restore], regs := restore ph cfg o.ctl o.regs }
    | _ =>
      -- `err = f.persistence.SaveFanPwmData(fan)`: the built-in curve
      runTailD indef ph cfg fan c0 { st with rpm := curveOf cfg fan } r [.loadRpmFail, .saveRpm]

/-- `fan2go fan reset` -/
def resetD (cfg : FanCfg) (r : Regs) : DOut :=
  { acts := [.deleteRpm, .deleteMap], store := {}, ctl := {}, ok := true, regs := r, fan := cfg.newFan }

/-- `fan2go fan init` -/
def initD (indef : Int) (ph : Phys) (cfg : FanCfg) (r : Regs) : DOut :=
  let o := runInitD indef ph cfg cfg.newFan {} {} r
  { o with acts := [.deleteRpm, .deleteMap] ++ o.acts }

/-- the limits a fresh fan object derives from a stored curve (`LoadFanPwmData` + `AttachFanRpmCurveData`,
    the first thing the next `Run` does): `(min, start, max)`, `none` if the attachment is refused -/
def limitsOf (indef : Int) (cfg : FanCfg) (d : List (Int × F64)) : Option (Int × Int × Int) :=
  match cfg.newFan.attach indef (some d) with
  | (f, .ok ()) => some (f.getMin, f.getStart, f.getMax)
  | _ => none

end Fan2go.Analysis
