/-
  Model of internal/controller/controller.go — the per-fan state machine:
  calculateTargetPwm, ensureNoThirdPartyIsMessingWithUs, setPwm, UpdateFanSpeed, measureRpm,
  trySetManualPwm, restorePwmEnabled, and HwMonFan.SetPwmEnabled.
  Core Lean only.
-/
import Fan2go.Model.Fan
import Fan2go.Model.ControlLoop
namespace Fan2go
open F64

structure Ctl where
  lastSet : Option Int := none
  /-- `minPwmOffset` -/
  offset : Int := 0
  /-- `pwmMap` (`none` = nil map), sorted by key -/
  pwmMap : Option (List (Int × Int)) := none
  /-- `pwmValuesWithDistinctTarget` -/
  distinct : Array Int := #[]
  loop : LoopSt := .direct none
  unexpectedCount : Int := 0
  increasedCount : Int := 0
  origMode : Int := 0
  origPwm : Int := 0
  deriving Repr, Inhabited

structure World where
  fan : FanSt
  dev : Dev
  ctl : Ctl
  /-- `configuration.CurrentConfig.RpmRollingWindowSize` -/
  rpmWindow : Int := 10
  deriving Repr, Inhabited

/-- What a step lets the outside observe. -/
inductive Obs where
  | requested (t : Int)
  | wrotePwm (v : Int) (ok : Bool)
  | wroteMode (m : Int) (ok : Bool)
  | raised (frm to : Int)
  | thirdParty
  | stalledAtMax
  deriving Repr, DecidableEq, Inhabited

/-- `(*HwMonFan).SetPwmEnabled(value)` (file/cmd fans: no-op returning nil). -/
def setPwmEnabled (f : FanSt) (d : Dev) (value : Int) : Dev × Res Unit × List Obs :=
  match f.kind with
  | .hwmon =>
    match d.modeWrite with
    | .refused => (d, .err "write", [.wroteMode value false])
    | w =>
      let d' := if w == .applied then { d with mode := value } else d
      -- err == nil: read back
      let (cur, okRead) := fanGetPwmEnabled f d'
      if !okRead && d'.modeRead == .errPerm then (d', .ok (), [.wroteMode value true])
      else if cur ≠ value then (d', .err "stuck", [.wroteMode value true])
      else (d', .ok (), [.wroteMode value true])
  | _ => (d, .ok (), [])

/-- `trySetManualPwm(fan)` -/
def trySetManualPwm (f : FanSt) (d : Dev) : Dev × Res Unit × List Obs :=
  if !supports f d .controlMode then (d, .ok (), [])
  else
    match setPwmEnabled f d 1 with
    | (d', .ok (), o) => (d', .ok (), o)
    | (d', _, o) =>
      let (d'', r, o') := setPwmEnabled f d' 0
      (d'', r, o ++ o')

/-- `(*DefaultFanController).getPwm()` -/
def ctlGetPwm (w : World) : Res Int :=
  if supports w.fan w.dev .pwmSensor then fanGetPwm w.dev
  else match w.ctl.lastSet with
    | some v => .ok v
    | none => .ok w.fan.getMin

/-- `findClosestDistinctTarget` -/
def closestDistinct (c : Ctl) (target : Int) : Res Int := findClosest target c.distinct

/-- `applyPwmMapping` (indexing a nil map yields 0) -/
def applyPwmMapping (c : Ctl) (k : Int) : Int :=
  match c.pwmMap with
  | some m => mapGet m k
  | none => 0

/-- `ensureNoThirdPartyIsMessingWithUs` -/
def ensureNoThirdParty (w : World) : Res (World × List Obs) :=
  if !supports w.fan w.dev .pwmSensor then .ok (w, [])
  else match w.ctl.lastSet, w.ctl.pwmMap with
    | some l, some _ =>
      match closestDistinct w.ctl l with
      | .ok k =>
        let expected := applyPwmMapping w.ctl k
        match fanGetPwm w.dev with
        | .ok cur =>
          if cur ≠ expected then
            .ok ({ w with ctl := { w.ctl with unexpectedCount := w.ctl.unexpectedCount + 1 } }, [.thirdParty])
          else .ok (w, [])
        | _ => .ok (w, [])
      | .err e => .err e
      | .panic s => .panic s
    | _, _ => .ok (w, [])

/-- the range mapping at controller.go:461 -/
def rescale (indef : Int) (target minPwm maxPwm : Int) : Int :=
  minPwm + toInt indef ((ofInt target / ofInt 255) * (ofInt maxPwm - ofInt minPwm))

def clamp255 (t : Int) : Int := if t > 255 then 255 else if t < 0 then 0 else t

/-- `calculateTargetPwm()`; `curve` is the outcome of `f.curve.Evaluate()`, `now` the clock. -/
def calculateTargetPwm (indef : Int) (w : World) (curve : Res Int) (now : Int) :
    World × Res Int × List Obs :=
  let lastSetR : Res Int :=
    match w.ctl.lastSet with
    | some v => .ok v
    | none =>
      if supports w.fan w.dev .pwmSensor then ctlGetPwm w
      else .ok w.fan.getMin
  match lastSetR with
  | .err e => (w, .err e, [])
  | .panic s => (w, .panic s, [])
  | .ok lastSetPwm =>
  match curve with
  | .err e => (w, .err e, [])
  | .panic s => (w, .panic s, [])
  | .ok cv =>
  let (loop', t0) := w.ctl.loop.cycle indef cv lastSetPwm now
  let w := { w with ctl := { w.ctl with loop := loop' } }
  let t1 := clamp255 t0
  let maxPwm := w.fan.getMax
  let minPwm := w.fan.getMin + w.ctl.offset
  let target := rescale indef t1 minPwm maxPwm
  match ensureNoThirdParty w with
  | .err e => (w, .err e, [])
  | .panic s => (w, .panic s, [])
  | .ok (w, obs) =>
  if supports w.fan w.dev .rpmSensor
     && w.fan.neverStop && w.ctl.lastSet == some target
     && decide (toInt indef w.fan.getRpmAvg ≤ 0) then
    if target ≥ maxPwm then (w, .err "stalled-at-max", obs ++ [.stalledAtMax])
    else
      let offset' := w.ctl.offset + 1
      let ctl := { w.ctl with offset := offset', increasedCount := w.ctl.increasedCount + 1 }
      let fan := w.fan.setRpmAvg indef (ofInt 1)
      ({ w with ctl := ctl, fan := fan }, .ok (target + 1),
        obs ++ [.raised minPwm (minPwm + 1), .requested (target + 1)])
  else (w, .ok target, obs ++ [.requested target])

/-- `setPwm(target)` -/
def ctlSetPwm (w : World) (target : Int) : World × Res Unit × List Obs :=
  match closestDistinct w.ctl target with
  | .err e => (w, .err e, [])
  | .panic s => (w, .panic s, [])
  | .ok closestTarget =>
    let closestExpected := applyPwmMapping w.ctl closestTarget
    let w := { w with ctl := { w.ctl with lastSet := some target } }
    let skip :=
      supports w.fan w.dev .pwmSensor &&
      -- the fan itself is read (`f.fan.GetPwm()`, fix "setPwm: read the fan itself"): not `getPwm()`, whose fallback is
      -- the request recorded just above
      (match fanGetPwm w.dev with
       | .ok cur => closestExpected == cur
       | _ => false)
    if skip then (w, .ok (), [])
    else
      let (d', r) := fanSetPwm w.dev closestExpected
      ({ w with dev := d' }, r, [.wrotePwm closestExpected (match r with | .ok _ => true | _ => false)])

/-- `UpdateFanSpeed()` -/
def updateFanSpeed (indef : Int) (w : World) (curve : Res Int) (now : Int) :
    World × Res Unit × List Obs :=
  match calculateTargetPwm indef w curve now with
  | (w, .err e, o) => (w, .err e, o)
  | (w, .panic s, o) => (w, .panic s, o)
  | (w, .ok target, o) =>
    let (d', _, o1) := trySetManualPwm w.fan w.dev
    let w := { w with dev := d' }
    match ctlSetPwm w target with
    | (w, .panic s, o2) => (w, .panic s, o ++ o1 ++ o2)
    | (w, _, o2) => (w, .ok (), o ++ o1 ++ o2)      -- a write error is only logged

/-- `measureRpm(fan)` -/
def measureRpm (indef : Int) (w : World) : World :=
  let pwm := match ctlGetPwm w with
    | .ok v => v
    | _ => 0
  let rpmR := fanGetRpm w.fan w.dev
  let rpm := match rpmR with
    | .ok v => v
    | _ => 0
  -- a successful read also stores `fan.Rpm` (file/cmd: that field *is* the average)
  let fan := match rpmR, w.fan.kind with
    | .ok v, .file => { w.fan with rpmInt := v }
    | .ok v, .cmd => if w.dev.hasRpm then { w.fan with rpmInt := v } else w.fan
    | _, _ => w.fan
  let updated := updateSimpleMovingAvg fan.getRpmAvg w.rpmWindow (ofInt rpm)
  let fan := fan.setRpmAvg indef updated
  let fan := match fan.kind with
    | .hwmon =>
      let cd := fan.curveData.getD []
      let cd' := if cd.any (·.1 == pwm) then cd.map (fun p => if p.1 == pwm then (pwm, ofInt rpm) else p)
                 else cd ++ [(pwm, ofInt rpm)]
      { fan with curveData := some cd' }
    | _ => fan
  { w with fan := fan }

/-- `restorePwmEnabled()` -/
def restorePwmEnabled (w : World) : World × List Obs :=
  let (d1, r1) := fanSetPwm w.dev w.ctl.origPwm
  let o1 := [Obs.wrotePwm w.ctl.origPwm (match r1 with | .ok _ => true | _ => false)]
  let w := { w with dev := d1 }
  let tryMode := supports w.fan w.dev .controlMode && w.ctl.origMode != 1
  let (w, done, o2) :=
    if tryMode then
      match setPwmEnabled w.fan w.dev w.ctl.origMode with
      | (d2, .ok (), o) => ({ w with dev := d2 }, true, o)
      | (d2, _, o) => ({ w with dev := d2 }, false, o)
    else (w, false, [])
  if done then (w, o1 ++ o2)
  else
    let (d3, r3) := fanSetPwm w.dev 255
    ({ w with dev := d3 }, o1 ++ o2 ++ [.wrotePwm 255 (match r3 with | .ok _ => true | _ => false)])

end Fan2go
