/-
  Model of the start-up decisions of a fan controller (C15):
    internal/controller/controller.go   `Run` up to the first tick, `RunInitializationSequence`,
                                        `computePwmMap`, `computePwmMapLocked`, `computePwmMapAutomatically`
    cmd/fan/reset.go, cmd/fan/init.go   the bodies of `fan2go fan reset` / `fan2go fan init`
  written operation by operation after the Go source. Core Lean only.

  What is modelled is WHICH steps are taken, not the numbers they produce: every step that touches the
  fan or the database is an `Action`; the database is reduced to "is there an RPM-curve entry / which
  PWM map is stored for this fan id" (`Store`); the controller field `pwmMap` (nil on a fresh process)
  is `Option MapSrc`. The mutex of `computePwmMap` / `RunInitializationSequence` is the subject of
  `Model/InitLock.lean` and does not influence the decisions here.

  Explicit inputs (everything the code asks the outside world on this path):
  * `kind`     – the dynamic type of the fan (`fan.(*fans.HwMonFan)` in `Run`)
  * `hasRpm`   – `fan.Supports(FeatureRpmSensor)`
  * `pwmRead`  – `fan.Supports(FeaturePwmSensor)` (true for the harness's fans)
  * `cfgMap`   – `Config.PwmMap != nil`
  * `minMax`   – minPwm and maxPwm both configured. NOTHING on this path reads it; the field exists so
                 that the README promise about it can be stated (and refuted).
  * `devOk`    – the device I/O of the RPM-curve measurement loop succeeds (`setPwm`, `getPwm`, `GetRpm`)
                 and yields at least one point (so `AttachFanRpmCurveData` accepts the curve).
  Database operations themselves are assumed to succeed (their failure modes are C14's subject).
-/
namespace Fan2go.Startup

inductive Kind where
  | hwmon | file | cmd
  deriving DecidableEq, Repr, Inhabited

/-- where a PWM map came from -/
inductive MapSrc where
  | override   -- `pwmMap:` of the configuration
  | swept      -- `computePwmMapAutomatically`: 255 → 0 staircase on the fan
  | default    -- identity map assumed when the PWM value cannot be read
  deriving DecidableEq, Repr, Inhabited

structure FanDecl where
  kind : Kind := .hwmon
  hasRpm : Bool := true
  pwmRead : Bool := true
  cfgMap : Bool := false
  minMax : Bool := false
  devOk : Bool := true
  deriving DecidableEq, Repr, Inhabited

/-- the two database entries of one fan id -/
structure Store where
  rpm : Bool := false            -- bucket `fans`: an RPM-curve entry exists (`LoadFanPwmData` succeeds)
  map : Option MapSrc := none    -- bucket `fanPwmMap`: the stored map (`LoadFanPwmMap` succeeds, non-nil)
  deriving DecidableEq, Repr, Inhabited

inductive Action where
  | loadRpmOk      -- `LoadFanPwmData` returned data
  | loadRpmFail    -- `LoadFanPwmData` returned an error
  | initSequence   -- `RunInitializationSequence` entered
  | useOverride    -- `f.pwmMap = *configOverride`
  | useStored      -- `f.pwmMap = savedPwmMap`
  | sweep          -- `computePwmMapAutomatically` with a readable PWM: writes 255, 254, …, 0 to the fan
  | defaultMap     -- `computePwmMapAutomatically` without a readable PWM: no write
  | saveMap        -- `SaveFanPwmMap(id, f.pwmMap)`
  | skipMeasure    -- "doesn't support RPM sensor, skipping fan curve measurement"
  | manual         -- `trySetManualPwm`
  | measure        -- the RPM-curve loop: `setPwm` over the distinct targets, ascending
  | measureFail    -- … left with an error
  | attach         -- `AttachFanRpmCurveData`
  | saveRpm        -- `SaveFanPwmData`
  | restore        -- `restorePwmEnabled` on the error returns of `Run`
  | deleteRpm      -- `DeleteFanPwmData`
  | deleteMap      -- `DeleteFanPwmMap`
  | regulate       -- the actor group starts: first `UpdateFanSpeed`
  deriving DecidableEq, Repr, Inhabited

/-- an action that puts the fan through PWM values for the sake of analysis -/
def Action.isAnalysis : Action → Bool
  | .sweep => true
  | .measure => true
  | _ => false

/-- what one entry point did -/
structure Out where
  acts : List Action
  store : Store
  ctl : Option MapSrc     -- `f.pwmMap` afterwards
  ok : Bool               -- returned nil (for `start`: reached the regulation loop)
  deriving DecidableEq, Repr, Inhabited

def Out.analysed (o : Out) : Bool := o.acts.any Action.isAnalysis
def Out.swept (o : Out) : Bool := o.acts.contains .sweep
def Out.measured (o : Out) : Bool := o.acts.contains .measure

/-- `computePwmMapLocked` (and `computePwmMap`, which only adds the mutex): actions, `f.pwmMap`, store -/
def computePwmMapLocked (d : FanDecl) (ctl : Option MapSrc) (st : Store) :
    List Action × Option MapSrc × Store :=
  if d.cfgMap then
    -- `if configOverride != nil { f.pwmMap = *configOverride; return nil }` – returns BEFORE saving
    ([.useOverride], some .override, st)
  else
    match st.map with
    | some m =>
      -- `if err == nil && savedPwmMap != nil { f.pwmMap = savedPwmMap; return nil }`
      ([.useStored], some m, st)
    | none =>
      -- `if f.pwmMap == nil { f.computePwmMapAutomatically() }`
      let r : List Action × Option MapSrc :=
        match ctl with
        | none => if d.pwmRead then ([.sweep], some .swept) else ([.defaultMap], some .default)
        | some m => ([], some m)
      -- `return f.persistence.SaveFanPwmMap(f.fan.GetId(), f.pwmMap)`
      (r.1 ++ [.saveMap], r.2, { st with map := r.2 })

/-- `RunInitializationSequence` on a controller whose `pwmMap` is `ctl` -/
def runInit (d : FanDecl) (ctl : Option MapSrc) (st : Store) : Out :=
  let (a1, ctl1, st1) := computePwmMapLocked d ctl st
  -- `err = f.persistence.SaveFanPwmMap(fan.GetId(), f.pwmMap)` – also for a configuration override
  let st2 : Store := { st1 with map := ctl1 }
  let pre := Action.initSequence :: a1 ++ [.saveMap]
  if !d.hasRpm then
    -- `if !fan.Supports(fans.FeatureRpmSensor) { return nil }` – nothing is saved as RPM data
    { acts := pre ++ [.skipMeasure], store := st2, ctl := ctl1, ok := true }
  else if !d.devOk then
    { acts := pre ++ [.manual, .measure, .measureFail], store := st2, ctl := ctl1, ok := false }
  else
    { acts := pre ++ [.manual, .measure, .attach, .saveRpm], store := { st2 with rpm := true }, ctl := ctl1, ok := true }

/-- the part of `Run` from the second `LoadFanPwmData` on -/
def runTail (d : FanDecl) (ctl : Option MapSrc) (st : Store) (acts : List Action) : Out :=
  if st.rpm then
    -- `AttachFanRpmCurveData(&fanPwmData)` (stored curves are never empty), then `computePwmMap` AGAIN
    let (a, ctl', st') := computePwmMapLocked d ctl st
    { acts := acts ++ [.loadRpmOk, .attach] ++ a ++ [.regulate], store := st', ctl := ctl', ok := true }
  else
    -- `fanPwmData, err = f.persistence.LoadFanPwmData(fan); if err != nil { f.restorePwmEnabled(); return err }`
    { acts := acts ++ [.loadRpmFail, .restore], store := st, ctl := ctl, ok := false }

/-- `Run` of a FRESH controller (`pwmMap: nil`) up to the first tick of the regulation loop -/
def start (d : FanDecl) (st : Store) : Out :=
  if st.rpm then
    runTail d none st [.loadRpmOk]
  else
    match d.kind with
    | .hwmon =>
      -- `_, ok := fan.(*fans.HwMonFan); if ok { err = f.RunInitializationSequence() … }`
      let o := runInit d none st
      if o.ok then runTail d o.ctl o.store (.loadRpmFail :: o.acts)
      else { o with acts := .loadRpmFail :: o.acts ++ [.restore] }
    | _ =>
      -- `err = f.persistence.SaveFanPwmData(fan)` – file / cmd fans carry a built-in curve
      runTail d none { st with rpm := true } [.loadRpmFail, .saveRpm]

/-- `fan2go fan reset`: `DeleteFanPwmData`, `DeleteFanPwmMap` -/
def reset (_d : FanDecl) (_st : Store) : Out :=
  { acts := [.deleteRpm, .deleteMap], store := { rpm := false, map := none }, ctl := none, ok := true }

/-- `fan2go fan init`: fresh controller, delete both entries, `RunInitializationSequence` -/
def init (d : FanDecl) (st : Store) : Out :=
  let o := runInit d none (reset d st).store
  { o with acts := [.deleteRpm, .deleteMap] ++ o.acts }

inductive Op where
  | start | reset | init
  deriving DecidableEq, Repr, Inhabited

def step (d : FanDecl) (st : Store) : Op → Out
  | .start => start d st
  | .reset => reset d st
  | .init => init d st

/-- the store after a sequence of operations on one fan -/
def runStore (d : FanDecl) : Store → List Op → Store
  | st, [] => st
  | st, op :: ops => runStore d (step d st op).store ops

/-- the history: for every operation the store it found, the operation and what it did -/
def trace (d : FanDecl) : Store → List Op → List (Store × Op × Out)
  | _, [] => []
  | st, op :: ops => (st, op, step d st op) :: trace d (step d st op).store ops

/-- an entry is missing: the fan was never started, or its data were discarded -/
def Store.missing (st : Store) : Bool := !st.rpm || st.map.isNone

end Fan2go.Startup
