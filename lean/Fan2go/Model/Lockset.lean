/-
  C20 – lockset model (core Lean only).

  `Access` is one row of the regenerated access table (`Generated/Access.lean`, produced by
  go/accessgen from /repo's current sources): activity `activity` of kind `kind` reads/writes field
  `field` of a shared struct `obj` while holding the mutexes `locks`.

  Lock names: `pkg.var` is a package-level mutex; `T.mu` is the mutex field `mu` of THE VERY OBJECT of
  type `T` that the row accesses (the extractor only reports a field mutex when it was taken through the
  same base pointer as the access), so for two rows on the same object equal names mean the same mutex.

  Activity kinds (roots enumerated by the extractor):
    api       – one REST request handler            (internal/api, func(echo.Context) error)
    collector – one Prometheus Collect call         (internal/statistics)
    control   – a fan's control loop                (UpdateFanSpeed, restorePwmEnabled)
    rpmmon    – a fan's RPM monitor                 (measureRpm)
    init      – a fan controller's start-up part    (DefaultFanController.Run before its inner run.Group)
    sensor    – a sensor monitor                    (sensorMonitor.Run)
-/
namespace Fan2go.Lockset

structure Access where
  activity : String
  kind : String
  obj : String
  field : String
  write : Bool
  locks : List String
deriving Repr, DecidableEq

/-- struct types of which every fan has its own instance (fan object, its controller, its statistics) -/
def perFanObjs : List String :=
  ["HwMonFan", "FileFan", "CmdFan", "DefaultFanController", "FanControllerStatistics"]

def perFan (o : String) : Bool := perFanObjs.contains o

/-- activity kinds that exist once per fan and only touch THEIR fan's per-fan objects -/
def fanBound (k : String) : Bool := k == "rpmmon" || k == "control" || k == "init"

/-- Can an activity of `a.kind` and a DIFFERENT activity instance of `b.kind` touch the SAME object of
    type `a.obj` at the same time?
    * two instances of the same fan-bound kind belong to different fans: they share curves, PID loops and
      sensors, never a per-fan object;
    * `init` of a fan happens before the `control`/`rpmmon` goroutines of THAT fan are started
      (goroutine start orders them), and other fans' have other per-fan objects;
    * every sensor has exactly one monitor; two monitors never share an object;
    * everything else (API requests, scrapes, a fan's control loop vs. its RPM monitor, ...) is concurrent.
    Unknown kinds / types default to `true` (conservative). -/
def concurrentKinds (a b : Access) : Bool :=
  if a.kind == b.kind then
    if a.kind == "sensor" then false
    else if fanBound a.kind then !perFan a.obj
    else true
  else if (a.kind == "init" && fanBound b.kind) || (b.kind == "init" && fanBound a.kind) then !perFan a.obj
  else true

def sameLoc (a b : Access) : Bool := a.obj == b.obj && a.field == b.field

/-- the shape of a data race: same location, one side writes, may run concurrently -/
def conflictShape (a b : Access) : Bool := sameLoc a b && (a.write || b.write) && concurrentKinds a b

def commonLock (a b : Access) : Bool := a.locks.any (fun l => b.locks.contains l)

/-- a lockset conflict: race shape and no common mutex -/
def conflict (a b : Access) : Bool := conflictShape a b && !commonLock a b

def kindRank (k : String) : Nat :=
  if k == "api" then 0 else if k == "collector" then 1 else if k == "control" then 2
  else if k == "init" then 3 else if k == "rpmmon" then 4 else if k == "sensor" then 5 else 6

/-- normalised report of a conflicting pair: (obj.field, kindA, kindB) with kindA ≤ kindB -/
def triple (a b : Access) : String × String × String :=
  if kindRank a.kind ≤ kindRank b.kind then (a.obj ++ "." ++ a.field, a.kind, b.kind)
  else (a.obj ++ "." ++ a.field, b.kind, a.kind)

def rawConflicts (tbl : List Access) : List (String × String × String) :=
  tbl.flatMap fun a => (tbl.filter (conflict a)).map (triple a)

/-- every conflicting pair of the table, normalised and deduplicated -/
def conflicts (tbl : List Access) : List (String × String × String) := (rawConflicts tbl).eraseDups

/-! ### the abstract machine

Any number of activity instances (indexed by `Nat`). An instance may acquire a mutex nobody holds,
release one, begin an access of the table provided it holds the access's lockset, and finish it. While
an access is in progress the instance does nothing else (so the lockset stays held for the whole access).
A *race* is a state in which two different instances are both inside accesses of race shape. -/

structure St where
  held : Nat → List String
  cur : Nat → Option Access

def St.init : St := ⟨fun _ => [], fun _ => none⟩

def upd {α : Type} (f : Nat → α) (i : Nat) (v : α) : Nat → α := fun j => if j = i then v else f j

inductive Step (tbl : List Access) : St → St → Prop
  | acquire (s : St) (i : Nat) (l : String) :
      s.cur i = none → (∀ j, l ∉ s.held j) → Step tbl s ⟨upd s.held i (l :: s.held i), s.cur⟩
  | release (s : St) (i : Nat) (l : String) :
      s.cur i = none → Step tbl s ⟨upd s.held i ((s.held i).filter (· != l)), s.cur⟩
  | begin (s : St) (i : Nat) (a : Access) :
      a ∈ tbl → s.cur i = none → (∀ l ∈ a.locks, l ∈ s.held i) → Step tbl s ⟨s.held, upd s.cur i (some a)⟩
  | finish (s : St) (i : Nat) :
      Step tbl s ⟨s.held, upd s.cur i none⟩

inductive Reachable (tbl : List Access) : St → Prop
  | init : Reachable tbl St.init
  | step {s t : St} : Reachable tbl s → Step tbl s t → Reachable tbl t

/-- two different activity instances are simultaneously inside accesses of race shape -/
def Race (s : St) : Prop :=
  ∃ i j a b, i ≠ j ∧ s.cur i = some a ∧ s.cur j = some b ∧ conflictShape a b = true

end Fan2go.Lockset
