/-
  Model of internal/persistence/persistence.go — the bbolt-backed store of per-fan data — as a
  state machine, operation by operation. Core Lean only.

  The on-disk state is two bbolt buckets (persistence.go:15-18):
    "fans"       fan id ↦ JSON of map[int]float64   (kind `rpm`,    Save/Load/DeleteFanPwmData)
    "fanPwmMap"  fan id ↦ JSON of map[int]int       (kind `pwmMap`, Save/Load/DeleteFanPwmMap)

  What is an explicit input / ASSUMED here and NOT proved (see also Props/C14.lean):
  * bbolt: `db.Update(f)` is atomic and durable (all of f's puts/deletes or none; an error returned
    by f rolls everything back); a bucket is a finite map from non-empty byte-string keys to byte
    strings; `bolt.Open` on the db file succeeds (no lock time-out, no permission problem).
    Every Go function opens the file, runs ONE transaction and closes the file again, therefore a
    `persistence` value carries no state besides the path and "reopen" is the identity.
  * encoding/json: `Unmarshal(Marshal(m)) = m` for `map[int]float64` with finite values and for
    `map[int]int` (nil map ↦ "null" ↦ nil map); `Marshal` fails exactly for NaN/±Inf values.
    Because of this a stored byte string is modelled by what `json.Unmarshal` does with it
    (`Blob`): the bytes themselves do not occur in the model.
  * Go `int` is modelled by `Int` (keys / values stay within 64 bits).
-/
import Fan2go.F64.Basic
import Fan2go.Model.Util
namespace Fan2go
namespace Persist

/-- The two kinds of stored data = the two buckets `BucketFans` / `BucketFanPwmMap`. -/
inductive Kind where
  | rpm      -- bucket "fans":      map[int]float64
  | pwmMap   -- bucket "fanPwmMap": map[int]int
  deriving Repr, DecidableEq, Inhabited

/-- value type of the Go map of that kind -/
abbrev Kind.Num : Kind → Type
  | .rpm => F64
  | .pwmMap => Int

/-- A Go `map[int]Num` value: `none` = nil map, `some l` = map with the entries `l` (sorted by key). -/
abbrev Kind.Val (k : Kind) : Type := Option (List (Int × k.Num))

instance : (k : Kind) → DecidableEq k.Num
  | .rpm => inferInstanceAs (DecidableEq F64)
  | .pwmMap => inferInstanceAs (DecidableEq Int)

/-- What `json.Unmarshal(bytes, &m)` (m a nil map variable) does with the stored bytes:
    * `valid v`   – returns nil and leaves `m = v`
                    (what `Save*` writes; also hand-written JSON such as `null` or ` { "1" : 2 } `);
    * `corrupt p` – returns an error and leaves `m = p`: `p = none` for bytes that are not JSON at
                    all (syntax is checked before anything is stored), `p = some m` for
                    well-formed JSON of the wrong shape (the decoder keeps going after a type error,
                    e.g. `{"1":2,"x":3}` leaves `{1:2}` behind). -/
inductive Blob (α : Type) where
  | valid (v : α)
  | corrupt (left : α)
  deriving Repr, DecidableEq, Inhabited

/-- The key/value pairs of one bucket; no key occurs twice. -/
abbrev Entries (α : Type) := List (String × Blob α)

/-- `b.Get(key)` (`none` = Go `nil`) -/
def Entries.get {α} : Entries α → String → Option (Blob α)
  | [], _ => none
  | (i, b) :: rest, id => if i = id then some b else Entries.get rest id

/-- `b.Delete(key)` -/
def Entries.erase {α} (es : Entries α) (id : String) : Entries α :=
  es.filter (fun p => p.1 ≠ id)

/-- `b.Put(key, value)` (replaces) -/
def Entries.put {α} (es : Entries α) (id : String) (b : Blob α) : Entries α :=
  (id, b) :: es.erase id

/-- A bucket: `none` = the bucket does not exist (`tx.Bucket(name) == nil`). -/
abbrev Bucket (α : Type) := Option (Entries α)

/-- The database file. -/
structure Db where
  fans : Bucket (Option (List (Int × F64))) := none
  fanPwmMap : Bucket (Option (List (Int × Int))) := none
  deriving Repr, Inhabited

/-- A freshly created database file: no buckets. -/
def Db.empty : Db := {}

/-- `tx.Bucket([]byte(<bucket name of kind k>))` -/
def Db.bucket (db : Db) : (k : Kind) → Bucket k.Val
  | .rpm => db.fans
  | .pwmMap => db.fanPwmMap

def Db.setBucket (db : Db) : (k : Kind) → Bucket k.Val → Db
  | .rpm, b => { db with fans := b }
  | .pwmMap, b => { db with fanPwmMap := b }

/-- bbolt `Bucket.Put` rejects an empty key (`ErrKeyRequired`) and a key longer than
    `MaxKeySize = 32768` bytes (`ErrKeyTooLarge`). -/
def keyOk (id : String) : Bool := id ≠ "" && id.utf8ByteSize ≤ 32768

/-- `math.IsInf(f, 0) || math.IsNaN(f)` is what makes `json.Marshal` fail (`UnsupportedValueError`). -/
def allFinite (m : List (Int × F64)) : Bool := m.all (fun p => p.2.isFinite)

/-- Everything `Save*` does before the transaction, i.e. from its argument to the value that
    decoding the stored bytes will give back.
    * rpm (persistence.go:78-87): `arg = none` means `fan.GetFanRpmCurveData()` is a nil pointer –
      `range *nil` panics; otherwise the entries are copied into a fresh (non-nil) map which is
      marshalled – an error for NaN/±Inf values.
    * pwmMap (persistence.go:178-186): the map (nil allowed: marshals to `null`) is marshalled;
      `json.Marshal` of a `map[int]int` cannot fail. -/
def encode : (k : Kind) → k.Val → Res k.Val
  | .rpm, none => .panic "nil"
  | .rpm, some m => if allFinite m then .ok (some m) else .err "marshal"
  | .pwmMap, v => .ok v

/-- Common shape of `SaveFanPwmData` (persistence.go:67-97) and `SaveFanPwmMap` (167-197):
    marshal; then in ONE transaction `CreateBucketIfNotExists` and `Put`. An error of `Put`
    (bad key) rolls the bucket creation back. -/
def save (db : Db) (k : Kind) (id : String) (arg : k.Val) : Db × Res Unit :=
  match encode k arg with
  | .panic s => (db, .panic s)
  | .err e => (db, .err e)
  | .ok v =>
    if keyOk id then
      (db.setBucket k (some (((db.bucket k).getD []).put id (.valid v))), .ok ())
    else (db, .err "key")

/-- Common shape of `LoadFanPwmData` (persistence.go:100-137) and `LoadFanPwmMap` (199-236):
    missing bucket or key ↦ `os.ErrNotExist`; undecodable value ↦ the key is DELETED and the
    function returns whatever `Unmarshal` left in the map variable together with a nil error. -/
def load (db : Db) (k : Kind) (id : String) : Db × Res k.Val :=
  match db.bucket k with
  | none => (db, .err "notfound")
  | some es =>
    match es.get id with
    | none => (db, .err "notfound")
    | some (.valid v) => (db, .ok v)
    | some (.corrupt p) => (db.setBucket k (some (es.erase id)), .ok p)

/-- Common shape of `DeleteFanPwmData` (persistence.go:139-164) and `DeleteFanPwmMap` (238-263):
    missing bucket or key is fine. -/
def delete (db : Db) (k : Kind) (id : String) : Db × Res Unit :=
  match db.bucket k with
  | none => (db, .ok ())
  | some es =>
    match es.get id with
    | none => (db, .ok ())
    | some _ => (db.setBucket k (some (es.erase id)), .ok ())

/-- Test-only operation (not in fan2go): write raw bytes under `id` with bbolt directly –
    `CreateBucketIfNotExists` + `Put` in one transaction. The bytes are represented by what
    `json.Unmarshal` does with them. -/
def putRaw (db : Db) (k : Kind) (id : String) (b : Blob k.Val) : Db × Res Unit :=
  if keyOk id then (db.setBucket k (some (((db.bucket k).getD []).put id b)), .ok ())
  else (db, .err "key")

/-- `persistence.NewPersistence(samePath)`: the value holds only the path. -/
def reopen (db : Db) : Db := db

/-! ### the Go API, one definition per function -/

/-- `SaveFanPwmData(fan)` persistence.go:67-97; `data = fan.GetFanRpmCurveData()` (`none` = nil pointer) -/
def saveRpm (db : Db) (id : String) (data : Option (List (Int × F64))) : Db × Res Unit := save db .rpm id data
/-- `LoadFanPwmData(fan)` persistence.go:100-137 -/
def loadRpm (db : Db) (id : String) : Db × Res (Option (List (Int × F64))) := load db .rpm id
/-- `DeleteFanPwmData(fan)` persistence.go:139-164 -/
def deleteRpm (db : Db) (id : String) : Db × Res Unit := delete db .rpm id
/-- `SaveFanPwmMap(fanId, pwmMap)` persistence.go:167-197 (`none` = nil map) -/
def saveMap (db : Db) (id : String) (m : Option (List (Int × Int))) : Db × Res Unit := save db .pwmMap id m
/-- `LoadFanPwmMap(fanId)` persistence.go:199-236 -/
def loadMap (db : Db) (id : String) : Db × Res (Option (List (Int × Int))) := load db .pwmMap id
/-- `DeleteFanPwmMap(fanId)` persistence.go:238-263 -/
def deleteMap (db : Db) (id : String) : Db × Res Unit := delete db .pwmMap id

/-- The process is killed (SIGKILL) at an arbitrary moment during `Save*(k, id, arg)`: by bbolt's
    atomic commit the file holds either the state before or the state after the complete call.
    A relation (nondeterministic): `CrashDuringSave db k id arg db'`. -/
def CrashDuringSave (db : Db) (k : Kind) (id : String) (arg : k.Val) (db' : Db) : Prop :=
  db' = db ∨ db' = (save db k id arg).1

/-! ### operation sequences -/

inductive Op where
  | save (k : Kind) (id : String) (arg : k.Val)
  | load (k : Kind) (id : String)
  | delete (k : Kind) (id : String)
  | reopen
  | putRaw (k : Kind) (id : String) (b : Blob k.Val)

/-- What the caller observes. -/
inductive Out where
  | unit (r : Res Unit)
  | loaded (k : Kind) (r : Res k.Val)

def step (db : Db) : Op → Db × Out
  | .save k id arg => let (d, r) := save db k id arg; (d, .unit r)
  | .load k id => let (d, r) := load db k id; (d, .loaded k r)
  | .delete k id => let (d, r) := delete db k id; (d, .unit r)
  | .reopen => (reopen db, .unit (.ok ()))
  | .putRaw k id b => let (d, r) := putRaw db k id b; (d, .unit r)

def run (db : Db) : List Op → Db × List Out
  | [] => (db, [])
  | op :: ops =>
    let (d, o) := step db op
    let (d', os) := run d ops
    (d', o :: os)

/-- the (kind, id) slot an operation is about -/
def Op.target : Op → Option (Kind × String)
  | .save k id _ => some (k, id)
  | .load k id => some (k, id)
  | .delete k id => some (k, id)
  | .reopen => none
  | .putRaw k id _ => some (k, id)

/-- `op` is a save / delete / putRaw on slot `(k, id)` (a load is NOT a write in this sense). -/
def Op.writes (k : Kind) (id : String) : Op → Bool
  | .save k' id' _ => k' = k && id' = id
  | .delete k' id' => k' = k && id' = id
  | .putRaw k' id' _ => k' = k && id' = id
  | _ => false

/-- `op` may create an entry in slot `(k, id)`. -/
def Op.stores (k : Kind) (id : String) : Op → Bool
  | .save k' id' _ => k' = k && id' = id
  | .putRaw k' id' _ => k' = k && id' = id
  | _ => false

/-! ### the obvious specification

  A plain (total) function from slots to optional contents; no buckets, no lists. -/

abbrev Spec := (k : Kind) → String → Option (Blob k.Val)

def Spec.empty : Spec := fun _ _ => none

/-- function update at slot `(k, id)` -/
def Spec.set (s : Spec) (k : Kind) (id : String) (x : Option (Blob k.Val)) : Spec :=
  fun k' id' => if h : k' = k then (if id' = id then h ▸ x else s k' id') else s k' id'

def Spec.step (s : Spec) : Op → Spec × Out
  | .save k id arg =>
    match encode k arg with
    | .panic e => (s, .unit (.panic e))
    | .err e => (s, .unit (.err e))
    | .ok v => if keyOk id then (s.set k id (some (.valid v)), .unit (.ok ())) else (s, .unit (.err "key"))
  | .load k id =>
    match s k id with
    | none => (s, .loaded k (.err "notfound"))
    | some (.valid v) => (s, .loaded k (.ok v))
    | some (.corrupt p) => (s.set k id none, .loaded k (.ok p))
  | .delete k id => (s.set k id none, .unit (.ok ()))
  | .reopen => (s, .unit (.ok ()))
  | .putRaw k id b => if keyOk id then (s.set k id (some b), .unit (.ok ())) else (s, .unit (.err "key"))

def Spec.run (s : Spec) : List Op → Spec × List Out
  | [] => (s, [])
  | op :: ops =>
    let (d, o) := Spec.step s op
    let (d', os) := Spec.run d ops
    (d', o :: os)

/-- Abstraction function: the contents of slot `(k, id)` in the database file. -/
def abs (db : Db) : Spec := fun k id =>
  match db.bucket k with
  | none => none
  | some es => es.get id

end Persist
end Fan2go
