/-
  Model of the daemon life cycle: internal/backend.go `RunDaemon` (actor group, signal actor, fan
  controller actors), github.com/oklog/run `Group.Run`, and the phase structure of
  internal/controller/controller.go `(*DefaultFanController).Run`.  Core Lean only, executable.

  One daemon with any number of fan controllers is a labelled transition system. A run is a SCHEDULE
  (a list of `Choice`s: who moves next); `lstep` executes one choice (a choice that is not enabled
  leaves the state unchanged), `lrun` a whole schedule. "For all interleavings" = "for all schedules".

  Two semantics (`Sem`) of backend.go are modelled:
  * `Sem.fixed` – the code that is in /repo now (commits 19c718c, 5c3af56): the signal actor is
    `select { case <-sig: case <-ctx.Done(): }`, its interrupt function only calls `cancel()` (the channel
    stays open and registered), controller / sensor actors return the error of `Run`.
  * `Sem.old`   – the code before those commits: the signal actor is `<-sig`, its interrupt function is
    `defer close(sig); cancel()` without `signal.Stop`, and an actor whose `Run` returns an error calls
    `panic(err)`.
  The per-fan effect of `restorePwmEnabled` is abstracted to the Boolean `restored` (justified by
  Props/C03.lean part (i): `C03_restore`).
-/
namespace Fan2go.Lifecycle

/-- Where a controller's `Run` is. -/
inductive Phase where
  /-- `persistence.Init`, reading `originalPwmValue` / `originalPwmEnabled` (controller.go:110-137) -/
  | readOrig
  /-- `time.Sleep(2s + 2·TempSensorPollingRate)` (:141) -/
  | startupWait
  /-- first `LoadFanPwmData` and the decision to initialise (:146-161) -/
  | loadOrInit
  /-- inside `RunInitializationSequence` (:263-351): PWM-map sweep and RPM-curve measurement;
      `trySetManualPwm` and PWM writes happen here; `ctx` is not consulted -/
  | initializing
  /-- after a successful initialisation: second `LoadFanPwmData`, `AttachFanRpmCurveData` (:164-172) -/
  | postInit
  /-- the control-loop actor: 1 s sleep, then `select { ctx.Done | tick }` (:213-231) -/
  | ticking
  /-- the control-loop actor is about to call `restorePwmEnabled` (:219 / :226) -/
  | restoring
  /-- the control-loop actor has returned; the inner `run.Group` waits for the RPM monitor actor, which
      only returns on `ctx.Done()` (:194-203) -/
  | joining
  /-- `Run` has returned -/
  | exited
  deriving Repr, DecidableEq, Inhabited

/-- How a controller's `Run` ended. -/
inductive Reason where
  /-- returned nil after the control loop ended -/
  | done
  /-- returned an error before anything was written to the fan (`persistence.Init`, `SaveFanPwmData`,
      `LoadFanPwmData`, `AttachFanRpmCurveData` on the no-initialisation path) -/
  | runError
  /-- `RunInitializationSequence` failed: `restorePwmEnabled()` then `return err` (:151-154) -/
  | initFail
  /-- `LoadFanPwmData` / `AttachFanRpmCurveData` failed AFTER a successful initialisation sequence:
      `return err` without `restorePwmEnabled()` (:164-172) -/
  | postInitError
  deriving Repr, DecidableEq, Inhabited

structure CState where
  phase : Phase := .readOrig
  /-- the fan has an RPM input, so `Run` starts the RPM monitor actor -/
  hasRpm : Bool := true
  /-- this process has written to the fan (`trySetManualPwm` / `SetPwm`) -/
  touched : Bool := false
  /-- regulation has begun: the control-loop actor has been started -/
  regulated : Bool := false
  /-- `restorePwmEnabled` has run since -/
  restored : Bool := false
  reason : Option Reason := none
  deriving Repr, DecidableEq, Inhabited

/-- The moves of one controller. -/
inductive CAct where
  /-- the success path: next phase; in `restoring` it is the call of `restorePwmEnabled`; in `joining` it
      is the return of the inner group (needs `ctx.Done()` if there is an RPM monitor) -/
  | advance
  /-- `loadOrInit`: no stored data for an hwmon fan, `RunInitializationSequence` starts -/
  | needInit
  /-- the current phase fails: `Run` returns an error (`readOrig`, `loadOrInit`, `initializing`,
      `postInit`), or `UpdateFanSpeed` returns an error (`ticking`, e.g. stalled at maximum PWM) -/
  | fail
  /-- `ticking`: one successful `UpdateFanSpeed` (`trySetManualPwm` + `setPwm`) -/
  | tick
  /-- `ticking`: the `ctx.Done()` case of the select is taken -/
  | seeCancel
  deriving Repr, DecidableEq, Inhabited

/-- What a controller move means for the actor group. -/
inductive CEv where
  | quiet
  /-- `fanController.Run(ctx)` returned (`err ≠ nil`?) -/
  | returned (err : Bool)
  deriving Repr, DecidableEq, Inhabited

/-- One move of a controller; `none` = not enabled. `cancelled` = `ctx.Done()` is closed. -/
def cstep (cancelled : Bool) (c : CState) : CAct → Option (CState × CEv)
  | .advance =>
    match c.phase with
    | .readOrig => some ({ c with phase := .startupWait }, .quiet)
    | .startupWait => some ({ c with phase := .loadOrInit }, .quiet)
    | .loadOrInit => some ({ c with phase := .ticking, regulated := true }, .quiet)
    | .initializing => some ({ c with phase := .postInit }, .quiet)
    | .postInit => some ({ c with phase := .ticking, regulated := true }, .quiet)
    | .ticking => none
    | .restoring => some ({ c with phase := .joining, restored := true }, .quiet)
    | .joining =>
      if cancelled || !c.hasRpm then some ({ c with phase := .exited, reason := some .done }, .returned false)
      else none
    | .exited => none
  | .needInit =>
    match c.phase with
    | .loadOrInit => some ({ c with phase := .initializing, touched := true }, .quiet)
    | _ => none
  | .fail =>
    match c.phase with
    | .readOrig => some ({ c with phase := .exited, reason := some .runError }, .returned true)
    | .loadOrInit => some ({ c with phase := .exited, reason := some .runError }, .returned true)
    | .initializing =>
      some ({ c with phase := .exited, restored := true, reason := some .initFail }, .returned true)
    | .postInit => some ({ c with phase := .exited, reason := some .postInitError }, .returned true)
    | .ticking => some ({ c with phase := .restoring }, .quiet)
    | _ => none
  | .tick =>
    match c.phase with
    | .ticking => some ({ c with touched := true }, .quiet)
    | _ => none
  | .seeCancel =>
    match c.phase with
    | .ticking => if cancelled then some ({ c with phase := .restoring }, .quiet) else none
    | _ => none

/-- The process. `panicked` = killed by a Go runtime panic (exit status 2, no interrupt function runs). -/
inductive Proc where
  | running
  | exited (code : Nat)
  | panicked
  deriving Repr, DecidableEq, Inhabited

inductive Sem where
  | fixed | old
  deriving Repr, DecidableEq, Inhabited

structure LState where
  ctls : List CState
  /-- `ctx.Done()` is closed (`cancel()` was called) -/
  cancelled : Bool := false
  /-- number of signals sitting in `sig` (`make(chan os.Signal, 1)`): 0 or 1 -/
  chanBuf : Nat := 0
  /-- `close(sig)` has happened (old semantics only) while `signal.Notify` is still in force -/
  chanClosed : Bool := false
  /-- the signal actor has returned -/
  sigReturned : Bool := false
  /-- `err := <-errors` in `Group.Run`: the first actor has returned, with this error flag -/
  firstReturn : Option Bool := none
  /-- `Group.Run` has called all interrupt functions -/
  interrupted : Bool := false
  proc : Proc := .running
  deriving Repr, DecidableEq, Inhabited

/-- Who moves next. -/
inductive Choice where
  /-- the OS delivers SIGTERM / SIGINT (any number of times, at any moment) -/
  | signal
  /-- the signal actor's goroutine moves: receives from `sig`, or (fixed) sees `ctx.Done()`,
      or (old) receives the zero value from the closed channel -/
  | sigActor
  /-- `Group.Run` has seen the first return and runs the interrupt functions; the signal actor's is
      `cancel()` (fixed) or `close(sig); cancel()` (old) -/
  | interrupt
  /-- a non-controller actor (sensor monitor, web server) returns an error -/
  | otherError
  /-- controller `i` makes move `a` -/
  | ctl (i : Nat) (a : CAct)
  /-- all actors have returned: `Group.Run` returns and `RunDaemon` calls `os.Exit` -/
  | exit
  deriving Repr, DecidableEq, Inhabited

def noteReturn (s : LState) (err : Bool) : LState :=
  match s.firstReturn with
  | none => { s with firstReturn := some err }
  | some _ => s

/-- One step of the daemon. A choice that is not enabled leaves the state as it is. -/
def lstep (sem : Sem) (s : LState) (ch : Choice) : LState :=
  match s.proc with
  | .exited _ => s
  | .panicked => s
  | .running =>
  match ch with
  | .signal =>
    -- os/signal: non-blocking send to every registered channel
    if s.chanClosed then { s with proc := .panicked }          -- send on closed channel
    else if s.chanBuf = 0 then { s with chanBuf := 1 }
    else s                                                       -- buffer full: the signal is dropped
  | .sigActor =>
    if s.sigReturned then s
    else if s.chanBuf = 1 then noteReturn { s with chanBuf := 0, sigReturned := true } false
    else
      match sem with
      | .fixed => if s.cancelled then noteReturn { s with sigReturned := true } false else s
      | .old => if s.chanClosed then noteReturn { s with sigReturned := true } false else s
  | .interrupt =>
    match s.firstReturn with
    | none => s
    | some _ =>
      if s.interrupted then s
      else
        match sem with
        | .fixed => { s with interrupted := true, cancelled := true }
        | .old => { s with interrupted := true, cancelled := true, chanClosed := true }
  | .otherError =>
    match sem with
    | .fixed => noteReturn s true
    | .old => { s with proc := .panicked }                      -- `panic(err)` in the sensor actor
  | .ctl i a =>
    match s.ctls[i]? with
    | none => s
    | some c =>
      match cstep s.cancelled c a with
      | none => s
      | some (c', ev) =>
        let s' := { s with ctls := s.ctls.set i c' }
        match ev with
        | .quiet => s'
        | .returned false => noteReturn s' false
        | .returned true =>
          match sem with
          | .fixed => noteReturn s' true
          | .old => { s' with proc := .panicked }               -- `panic(err)` in the controller actor
  | .exit =>
    if s.interrupted && s.sigReturned && s.ctls.all (fun c => c.phase == .exited) then
      { s with proc := .exited (if s.firstReturn = some true then 1 else 0) }
    else s

/-- Run a schedule. -/
def lrun (sem : Sem) : LState → List Choice → LState
  | s, [] => s
  | s, ch :: rest => lrun sem (lstep sem s ch) rest

/-- The daemon right after `RunDaemon` has started its actors: `n` controllers, the `i`-th with an RPM
    input iff `rpm i`. -/
def linit (rpms : List Bool) : LState :=
  { ctls := rpms.map (fun b => { hasRpm := b }) }

/-- `ch` would change something / is enabled in `s`. -/
def enabled (sem : Sem) (s : LState) (ch : Choice) : Bool := decide (lstep sem s ch ≠ s)

end Fan2go.Lifecycle
