/-
  Model of the daemon life cycle: internal/backend.go `RunDaemon` (actor group, signal actor, fan
  controller actors), github.com/oklog/run `Group.Run`, and the phase structure of
  internal/controller/controller.go `(*DefaultFanController).Run`.  Core Lean only, executable.

  One daemon with any number of fan controllers is a labelled transition system. A run is a SCHEDULE
  (a list of `Choice`s: who moves next); `lstep` executes one choice (a choice that is not enabled
  leaves the state unchanged), `lrun` a whole schedule. "For all interleavings" = "for all schedules".

  Two semantics (`Sem`) of backend.go are modelled:
  * `Sem.fixed` – the code that is in /repo now (commits 19c718c, 5c3af56): the signal actor is
    `select { case <-sig: case <-ctx.Done(): }`, its interrupt function only calls `cancel()` (the channel
    stays open and registered), controller / sensor actors return the error of `Run`.
  * `Sem.old`   – the code before those commits: the signal actor is `<-sig`, its interrupt function is
    `defer close(sig); cancel()` without `signal.Stop`, and an actor whose `Run` returns an error calls
    `panic(err)`.
  The per-fan effect of `restorePwmEnabled` is the Boolean `restored` plus its effect on the two device
  registers of a cooperative device (`CState.restore`; the faulty devices are the subject of Props/C03.lean
  part (i): `C03_restore`).

  The single-controller slice (`CEvt`, `crunStep`, `crun`) is tied to the real `Run(ctx)` by correspondence
  stream `lc` (go/harness/lifecycle.go vs Driver/LifecycleStream.lean): the real controller is driven on a
  virtual device in virtual time and its context is cancelled at every phase boundary.
-/
namespace Fan2go.Lifecycle

/-- Where a controller's `Run` is. -/
inductive Phase where
  /-- `persistence.Init`, reading `originalPwmValue` / `originalPwmEnabled` (controller.go:112-137) -/
  | readOrig
  /-- `time.Sleep(2s + 2·TempSensorPollingRate)` (:141) -/
  | startupWait
  /-- first `LoadFanPwmData` and the decision to initialise (:146-162) -/
  | loadOrInit
  /-- `RunInitializationSequence` has been entered (:266-276): mutex, `computePwmMapLocked` decides whether
      the PWM map comes from the configuration / the database or has to be swept; nothing written yet -/
  | initializing
  /-- `computePwmMapAutomatically` inside the initialisation sequence (:636-661): `trySetManualPwm`, then
      `SetPwm(255) … SetPwm(0)` with a 5 ms sleep each, then `SetPwm(start PWM)`; `ctx` is not consulted -/
  | initSweep
  /-- the RPM-curve measurement loop (:293-340): `trySetManualPwm`, then per distinct target `setPwm`,
      5 ms, settle polls (first point) / `FanResponseDelay` sleeps; `ctx` is not consulted -/
  | initMeasure
  /-- second `LoadFanPwmData`, `AttachFanRpmCurveData` (:164-175) – reached on EVERY start-up path -/
  | postInit
  /-- `computePwmMap` (:177) had to sweep (`computePwmMapAutomatically`): no map in the configuration, none
      stored (a file fan's first start, a start after `DeleteFanPwmMap`); `ctx` is not consulted -/
  | mapSweep
  /-- the control-loop actor has been started: `time.Sleep(1 * time.Second)` (:218), not interruptible -/
  | headStart
  /-- the control-loop actor's `select { ctx.Done | tick }` (:219-233) -/
  | ticking
  /-- the control-loop actor is about to call `restorePwmEnabled` (:224 / :230) -/
  | restoring
  /-- the control-loop actor has returned; the inner `run.Group` waits for the RPM monitor actor, which
      only returns on `ctx.Done()` (:198-208) -/
  | joining
  /-- `Run` has returned -/
  | exited
  deriving Repr, DecidableEq, Inhabited

/-- How a controller's `Run` ended. -/
inductive Reason where
  /-- returned nil after the control loop ended -/
  | done
  /-- returned an error before anything was written to the fan (`persistence.Init`; `SaveFanPwmData` of a
      file / cmd fan without stored data) -/
  | runError
  /-- `RunInitializationSequence` failed: `restorePwmEnabled()` then `return err` (:151-155) -/
  | initFail
  /-- the second `LoadFanPwmData` / `AttachFanRpmCurveData` failed: `restorePwmEnabled()` then `return err`
      (:164-175; the restore is there since commit c9f18fa) -/
  | postInitError
  deriving Repr, DecidableEq, Inhabited

structure CState where
  phase : Phase := .readOrig
  /-- the fan has an RPM input, so `Run` starts the RPM monitor actor -/
  hasRpm : Bool := true
  /-- this process has written to the fan (any PWM or mode write, `restorePwmEnabled`'s own included) -/
  touched : Bool := false
  /-- regulation has begun: the control-loop actor has been started -/
  regulated : Bool := false
  /-- `restorePwmEnabled` has run since -/
  restored : Bool := false
  reason : Option Reason := none
  /-- `fan.Supports(FeatureControlMode)`: a hwmon fan with a `pwmN_enable` file -/
  hasMode : Bool := true
  /-- the device registers `pwmN_enable`, `pwmN` (a cooperative device: every write is applied; the faulty
      ones are the subject of Props/C03.lean part (i)) -/
  mode : Int := 2
  pwm : Int := 0
  /-- `f.originalPwmEnabled`, `f.originalPwmValue` (Go zero values until `readOrig` has captured them) -/
  origMode : Int := 0
  origPwm : Int := 0
  deriving Repr, DecidableEq, Inhabited

/-- `trySetManualPwm` (:383-397): `SetPwmEnabled(1)` if the fan has a control mode, else nothing. -/
def CState.manual (c : CState) : CState :=
  if c.hasMode then { c with mode := 1, touched := true } else c

/-- one `SetPwm(v)` that reaches the register -/
def CState.wr (c : CState) (v : Int) : CState := { c with pwm := v, touched := true }

/-- `restorePwmEnabled` (:399-419): `SetPwm(original)`; with a control mode and an original mode other than
    manual `SetPwmEnabled(original)` and return; otherwise `SetPwm(255)`. -/
def CState.restore (c : CState) : CState :=
  if c.hasMode && c.origMode != 1 then
    { c with pwm := c.origPwm, mode := c.origMode, touched := true, restored := true }
  else
    { c with pwm := 255, touched := true, restored := true }

/-- C03's predicate on the registers: handed back in the original non-manual mode, or at full speed. -/
def CState.regsRestored (c : CState) : Bool :=
  (c.hasMode && c.origMode != 1 && c.mode == c.origMode) || c.pwm == 255

/-- The moves of one controller. -/
inductive CAct where
  /-- the success path: next phase; in `restoring` it is the call of `restorePwmEnabled`; in `joining` it
      is the return of the inner group (needs `ctx.Done()` if there is an RPM monitor) -/
  | advance
  /-- `loadOrInit`: no stored data for an hwmon fan, `RunInitializationSequence` starts -/
  | needInit
  /-- `initializing` / `postInit`: no PWM map configured or stored and the PWM value is readable:
      `computePwmMapAutomatically` starts with `trySetManualPwm` -/
  | needSweep
  /-- `initSweep` / `mapSweep` / `initMeasure`: one more `SetPwm(v)` of the analysis -/
  | write (v : Int)
  /-- the current phase fails: `Run` returns an error (`readOrig`, `loadOrInit`, `initMeasure`,
      `postInit`), or `UpdateFanSpeed` returns an error (`ticking`, e.g. stalled at maximum PWM) -/
  | fail
  /-- `ticking`: one successful `UpdateFanSpeed`: `trySetManualPwm`, then `setPwm` (which writes `v` unless
      the register already reads `v`) -/
  | tick (v : Int := 128)
  /-- `ticking`: the `ctx.Done()` case of the select is taken -/
  | seeCancel
  deriving Repr, DecidableEq, Inhabited

/-- What a controller move means for the actor group. -/
inductive CEv where
  | quiet
  /-- `fanController.Run(ctx)` returned (`err ≠ nil`?) -/
  | returned (err : Bool)
  deriving Repr, DecidableEq, Inhabited

/-- One move of a controller; `none` = not enabled. `cancelled` = `ctx.Done()` is closed. Only `ticking`
    (`seeCancel`) and `joining` consult it: everything before the control loop's `select` runs to completion. -/
def cstep (cancelled : Bool) (c : CState) : CAct → Option (CState × CEv)
  | .advance =>
    match c.phase with
    | .readOrig =>
      some ({ c with phase := .startupWait, origPwm := c.pwm,
                     origMode := if c.hasMode then c.mode else c.origMode }, .quiet)
    | .startupWait => some ({ c with phase := .loadOrInit }, .quiet)
    | .loadOrInit => some ({ c with phase := .postInit }, .quiet)
    | .initializing =>
      -- map taken from the configuration / the database: no sweep
      if c.hasRpm then some ({ c.manual with phase := .initMeasure }, .quiet)
      else some ({ c with phase := .postInit }, .quiet)
    | .initSweep =>
      if c.hasRpm then some ({ c.manual with phase := .initMeasure }, .quiet)
      else some ({ c with phase := .postInit }, .quiet)
    | .initMeasure => some ({ c with phase := .postInit }, .quiet)
    | .postInit => some ({ c with phase := .headStart, regulated := true }, .quiet)
    | .mapSweep => some ({ c with phase := .headStart, regulated := true }, .quiet)
    | .headStart => some ({ c with phase := .ticking }, .quiet)
    | .ticking => none
    | .restoring => some ({ c.restore with phase := .joining }, .quiet)
    | .joining =>
      if cancelled || !c.hasRpm then some ({ c with phase := .exited, reason := some .done }, .returned false)
      else none
    | .exited => none
  | .needInit =>
    match c.phase with
    | .loadOrInit => some ({ c with phase := .initializing }, .quiet)
    | _ => none
  | .needSweep =>
    match c.phase with
    | .initializing => some ({ c.manual with phase := .initSweep }, .quiet)
    | .postInit => some ({ c.manual with phase := .mapSweep }, .quiet)
    | _ => none
  | .write v =>
    match c.phase with
    | .initSweep => some (c.wr v, .quiet)
    | .initMeasure => some (c.wr v, .quiet)
    | .mapSweep => some (c.wr v, .quiet)
    | _ => none
  | .fail =>
    match c.phase with
    | .readOrig => some ({ c with phase := .exited, reason := some .runError }, .returned true)
    | .loadOrInit => some ({ c with phase := .exited, reason := some .runError }, .returned true)
    | .initMeasure =>
      some ({ c.restore with phase := .exited, reason := some .initFail }, .returned true)
    | .postInit =>
      some ({ c.restore with phase := .exited, reason := some .postInitError }, .returned true)
    | .ticking => some ({ c with phase := .restoring }, .quiet)
    | _ => none
  | .tick v =>
    match c.phase with
    | .ticking => some (if c.manual.pwm = v then c.manual else c.manual.wr v, .quiet)
    | _ => none
  | .seeCancel =>
    match c.phase with
    | .ticking => if cancelled then some ({ c with phase := .restoring }, .quiet) else none
    | _ => none

/-! ### one controller on its own (what stream `lc` drives: the real `Run(ctx)` with a scripted cancellation) -/

/-- An event of a single controller's life: one of its moves, or `cancel()` of its context. -/
inductive CEvt where
  | act (a : CAct)
  | cancel
  deriving Repr, DecidableEq, Inhabited

structure CRun where
  c : CState
  /-- `ctx.Done()` is closed -/
  cancelled : Bool := false
  /-- control cycles begun (`UpdateFanSpeed` calls, the failing one included) -/
  cycles : Nat := 0
  /-- `Run` has returned (`err ≠ nil`?) -/
  ret : Option Bool := none
  deriving Repr, DecidableEq, Inhabited

/-- One event; a move that is not enabled leaves everything as it is. -/
def crunStep (s : CRun) : CEvt → CRun
  | .cancel => { s with cancelled := true }
  | .act a =>
    match cstep s.cancelled s.c a with
    | none => s
    | some (c', ev) =>
      let cyc := match s.c.phase, a with
        | .ticking, .tick _ => s.cycles + 1
        | .ticking, .fail => s.cycles + 1
        | _, _ => s.cycles
      { s with c := c', cycles := cyc,
               ret := match ev with | .quiet => s.ret | .returned e => some e }

def crun : CRun → List CEvt → CRun
  | s, [] => s
  | s, e :: es => crun (crunStep s e) es

/-- A controller about to call `Run` on a fan whose registers read `mode` / `pwm`. -/
def cinit (hasRpm hasMode : Bool) (mode pwm : Int) : CRun :=
  { c := { hasRpm := hasRpm, hasMode := hasMode, mode := mode, pwm := pwm } }

/-- The move a controller makes next when nothing fails and nothing is left to analyse: the success path,
    and in `ticking` the `ctx.Done()` case. -/
def nextMove (c : CState) : CAct :=
  match c.phase with
  | .ticking => .seeCancel
  | _ => .advance

/-- `n` such moves. -/
def drain : Nat → CRun → CRun
  | 0, s => s
  | n + 1, s => drain n (crunStep s (.act (nextMove s.c)))

/-- The process. `panicked` = killed by a Go runtime panic (exit status 2, no interrupt function runs). -/
inductive Proc where
  | running
  | exited (code : Nat)
  | panicked
  deriving Repr, DecidableEq, Inhabited

inductive Sem where
  | fixed | old
  deriving Repr, DecidableEq, Inhabited

structure LState where
  ctls : List CState
  /-- `ctx.Done()` is closed (`cancel()` was called) -/
  cancelled : Bool := false
  /-- number of signals sitting in `sig` (`make(chan os.Signal, 1)`): 0 or 1 -/
  chanBuf : Nat := 0
  /-- `close(sig)` has happened (old semantics only) while `signal.Notify` is still in force -/
  chanClosed : Bool := false
  /-- the signal actor has returned -/
  sigReturned : Bool := false
  /-- `err := <-errors` in `Group.Run`: the first actor has returned, with this error flag -/
  firstReturn : Option Bool := none
  /-- `Group.Run` has called all interrupt functions -/
  interrupted : Bool := false
  proc : Proc := .running
  deriving Repr, DecidableEq, Inhabited

/-- Who moves next. -/
inductive Choice where
  /-- the OS delivers SIGTERM / SIGINT (any number of times, at any moment) -/
  | signal
  /-- the signal actor's goroutine moves: receives from `sig`, or (fixed) sees `ctx.Done()`,
      or (old) receives the zero value from the closed channel -/
  | sigActor
  /-- `Group.Run` has seen the first return and runs the interrupt functions; the signal actor's is
      `cancel()` (fixed) or `close(sig); cancel()` (old) -/
  | interrupt
  /-- a non-controller actor (sensor monitor, web server) returns an error -/
  | otherError
  /-- controller `i` makes move `a` -/
  | ctl (i : Nat) (a : CAct)
  /-- all actors have returned: `Group.Run` returns and `RunDaemon` calls `os.Exit` -/
  | exit
  deriving Repr, DecidableEq, Inhabited

def noteReturn (s : LState) (err : Bool) : LState :=
  match s.firstReturn with
  | none => { s with firstReturn := some err }
  | some _ => s

/-- One step of the daemon. A choice that is not enabled leaves the state as it is. -/
def lstep (sem : Sem) (s : LState) (ch : Choice) : LState :=
  match s.proc with
  | .exited _ => s
  | .panicked => s
  | .running =>
  match ch with
  | .signal =>
    -- os/signal: non-blocking send to every registered channel
    if s.chanClosed then { s with proc := .panicked }          -- send on closed channel
    else if s.chanBuf = 0 then { s with chanBuf := 1 }
    else s                                                       -- buffer full: the signal is dropped
  | .sigActor =>
    if s.sigReturned then s
    else if s.chanBuf = 1 then noteReturn { s with chanBuf := 0, sigReturned := true } false
    else
      match sem with
      | .fixed => if s.cancelled then noteReturn { s with sigReturned := true } false else s
      | .old => if s.chanClosed then noteReturn { s with sigReturned := true } false else s
  | .interrupt =>
    match s.firstReturn with
    | none => s
    | some _ =>
      if s.interrupted then s
      else
        match sem with
        | .fixed => { s with interrupted := true, cancelled := true }
        | .old => { s with interrupted := true, cancelled := true, chanClosed := true }
  | .otherError =>
    match sem with
    | .fixed => noteReturn s true
    | .old => { s with proc := .panicked }                      -- `panic(err)` in the sensor actor
  | .ctl i a =>
    match s.ctls[i]? with
    | none => s
    | some c =>
      match cstep s.cancelled c a with
      | none => s
      | some (c', ev) =>
        let s' := { s with ctls := s.ctls.set i c' }
        match ev with
        | .quiet => s'
        | .returned false => noteReturn s' false
        | .returned true =>
          match sem with
          | .fixed => noteReturn s' true
          | .old => { s' with proc := .panicked }               -- `panic(err)` in the controller actor
  | .exit =>
    if s.interrupted && s.sigReturned && s.ctls.all (fun c => c.phase == .exited) then
      { s with proc := .exited (if s.firstReturn = some true then 1 else 0) }
    else s

/-- Run a schedule. -/
def lrun (sem : Sem) : LState → List Choice → LState
  | s, [] => s
  | s, ch :: rest => lrun sem (lstep sem s ch) rest

/-- The daemon right after `RunDaemon` has started its actors: `n` controllers, the `i`-th with an RPM
    input iff `rpm i`. -/
def linit (rpms : List Bool) : LState :=
  { ctls := rpms.map (fun b => { hasRpm := b }) }

/-- `ch` would change something / is enabled in `s`. -/
def enabled (sem : Sem) (s : LState) (ch : Choice) : Bool := decide (lstep sem s ch ≠ s)

end Fan2go.Lifecycle
