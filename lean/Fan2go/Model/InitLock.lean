/-
  Model of concurrently running fan analyses and `InitializationSequenceMutex` (C16). Core Lean only.

  Any number of processes (index type `ι`, e.g. `Fin N`), each running a straight-line program over
  `Instr`; ONE mutex; interleaving semantics: a schedule is the list of process ids in the order in which
  they take a step. `lock` is enabled only while the mutex is free (Go's `sync.Mutex` is not re-entrant:
  the holder blocks too); `unlock` of a free mutex is Go's fatal error "unlock of unlocked mutex" – no
  successor state; a process at the end of its program takes no step.

  The program of a fan is not hand-written: `programOf` translates the call sequence that
  `vlib/factgen.py` REGENERATES from the current controller.go (`Fan2go/Generated/Facts.lean`).
-/
namespace Fan2go.InitLock

inductive Instr where
  | lock | unlock | sweepStep | measureStep | other
  deriving DecidableEq, Repr, Inhabited

def Instr.isAnalysis : Instr → Bool
  | .sweepStep => true
  | .measureStep => true
  | _ => false

structure State (ι : Type) where
  pc : ι → Nat
  locked : Bool

def State.init {ι : Type} : State ι := { pc := fun _ => 0, locked := false }

def bump {ι : Type} [DecidableEq ι] (s : State ι) (p : ι) : ι → Nat :=
  fun q => if q = p then s.pc q + 1 else s.pc q

/-- one step of process `p`; `none` = `p` is not enabled (terminated, blocked on the mutex) or crashed -/
def step1 {ι : Type} [DecidableEq ι] (progs : ι → List Instr) (s : State ι) (p : ι) : Option (State ι) :=
  match (progs p)[s.pc p]? with
  | none => none
  | some .lock => if s.locked then none else some { pc := bump s p, locked := true }
  | some .unlock => if s.locked then some { pc := bump s p, locked := false } else none
  | some _ => some { pc := bump s p, locked := s.locked }

/-- run a schedule; `none` if it asks a process that is not enabled to step -/
def exec {ι : Type} [DecidableEq ι] (progs : ι → List Instr) : State ι → List ι → Option (State ι)
  | s, [] => some s
  | s, p :: ps =>
    match step1 progs s p with
    | none => none
    | some s' => exec progs s' ps

def Reachable {ι : Type} [DecidableEq ι] (progs : ι → List Instr) (s : State ι) : Prop :=
  ∃ sched : List ι, exec progs State.init sched = some s

/-! ### where a process is in its program -/

/-- has executed at least one analysis step -/
def started (prog : List Instr) (pc : Nat) : Bool := (prog.take pc).any Instr.isAnalysis
/-- has not yet executed its last analysis step -/
def unfinished (prog : List Instr) (pc : Nat) : Bool := (prog.drop pc).any Instr.isAnalysis

/-- between its first and its last analysis step: the fan is in its initial analysis -/
def analysingAt (prog : List Instr) (pc : Nat) : Bool := started prog pc && unfinished prog pc

def analysing {ι : Type} (progs : ι → List Instr) (s : State ι) (p : ι) : Bool :=
  analysingAt (progs p) (s.pc p)

def holdUpd (h : Bool) : Instr → Bool
  | .lock => true
  | .unlock => false
  | _ => h

/-- according to its own program text, the process has locked and not yet unlocked -/
def heldAt (prog : List Instr) (pc : Nat) : Bool := (prog.take pc).foldl holdUpd false

/-- The analysis of the program lies inside ONE lock … unlock span: wherever the process is between its
    first and its last analysis step it holds the mutex, and it unlocks only what it has locked. -/
def covered (prog : List Instr) : Bool :=
  (List.range (prog.length + 1)).all fun pc =>
    (!(analysingAt prog pc) || heldAt prog pc) &&
    (!(prog[pc]? == some Instr.unlock) || heldAt prog pc)

/-! ### programs from the regenerated call sequences -/

/-- one call of the regenerated sequence as instructions; `computePwmMap` is the self-locking entry
    point (`fact_map_locked`: lock, defer unlock, `computePwmMapLocked`) -/
def instrsOf : String → List Instr
  | "lock" => [.lock]
  | "unlock" => [.unlock]
  | "computePwmMapLocked" => [.sweepStep]     -- contains the sweep (fact_map_locked)
  | "computePwmMap" => [.lock, .sweepStep, .unlock]
  | "sweep" => [.sweepStep]
  | "setPwm" => [.measureStep]
  | "settle" => [.measureStep]
  | "getRpm" => [.measureStep]
  | _ => [.other]

/-- the calls in program order, without the `defer` registration and the loop marker -/
def straight (seq : List String) : List Instr :=
  ((seq.filter fun s => s != "defer:unlock" && s != "loop{").map instrsOf).flatten

/-- deferred unlocks run when the function returns: at the END of the program -/
def deferred (seq : List String) : List Instr :=
  (seq.filter (· == "defer:unlock")).map fun _ => Instr.unlock

/-- `k` iterations of the loop that starts at the (first) `loop{` marker and extends to the end of the
    function body -/
def programOfN (k : Nat) (seq : List String) : List Instr :=
  straight (seq.takeWhile (· != "loop{")) ++
  (List.replicate k (straight (seq.dropWhile (· != "loop{")))).flatten ++
  deferred seq

/-- one iteration of the loop -/
def programOf (seq : List String) : List Instr := programOfN 1 seq

def Instr.isMutexOp : Instr → Bool
  | .lock => true
  | .unlock => true
  | _ => false

/-- `if !RunFanInitializationInParallel { Lock(); defer Unlock() }`: with the option on, the mutex
    calls are not executed -/
def programFor (parallel : Bool) (k : Nat) (seq : List String) : List Instr :=
  if parallel then (programOfN k seq).filter (fun i => !i.isMutexOp) else programOfN k seq

/-- the call sequence of `RunInitializationSequence` BEFORE the fix (as factgen printed it then): the
    mutex was taken inside the self-locking `computePwmMap` only, the RPM-curve measurement ran outside -/
def oldSeqInit : List String := ["computePwmMap", "manual", "loop{", "setPwm", "settle", "getRpm"]

def oldProgram : List Instr :=
  [.lock, .sweepStep, .unlock, .other, .measureStep, .measureStep, .measureStep]

end Fan2go.InitLock
