/-
  Model of internal/util/{math,map,slice,pid}.go — operation by operation.
  Core Lean only.
-/
import Fan2go.F64.Basic
namespace Fan2go
open F64

/-- Result of running a piece of Go code that may return an error or panic. -/
inductive Res (α : Type) where
  | ok (a : α)
  | err (e : String)
  | panic (site : String)
  deriving Repr, DecidableEq, Inhabited

namespace Res
def bind {α β} : Res α → (α → Res β) → Res β
  | ok a, f => f a
  | err e, _ => err e
  | panic s, _ => panic s
instance : Monad Res where
  pure := ok
  bind := bind
def isPanic {α} : Res α → Bool
  | panic _ => true
  | _ => false
end Res

/-- `util.Coerce(value, min, max)` -/
def coerce (value lo hi : F64) : F64 :=
  if gt value hi then hi
  else if lt value lo then lo
  else value

/-- `util.Ratio(target, rangeMin, rangeMax)` -/
def ratio (target rangeMin rangeMax : F64) : F64 :=
  ((target - rangeMin) / (rangeMax - rangeMin) * ofInt 100) / ofInt 100

/-- `util.UpdateSimpleMovingAvg(oldAvg, n, newValue)` -/
def updateSimpleMovingAvg (oldAvg : F64) (n : Int) (newValue : F64) : F64 :=
  oldAvg + (F64.one / ofInt n) * (newValue - oldAvg)

/-- The loop of `util.CalculateInterpolatedCurveValue` over the steps sorted by key.
    `first` is the Go condition `i == 0`. -/
def interpLoop (first : Bool) : List (Int × F64) → F64 → F64
  | [], _ => F64.nan                         -- unreachable (guarded by `interp`)
  | [(_, y)], _ => y                         -- fell out of the loop: largest step
  | (x, y) :: (x', y') :: rest, input =>
    if first && le input (ofInt x) then y
    else if ge input (ofInt x') then interpLoop false ((x', y') :: rest) input
    else if feq input (ofInt x) then y
    else
      let r := ratio input (ofInt x) (ofInt x')
      toF32 (y + r * (y' - y))

/-- `util.CalculateInterpolatedCurveValue(steps, "linear", input)`; `steps` sorted by key.
    An empty map makes the Go code index `xValues[-1]`. -/
def interp (steps : List (Int × F64)) (input : F64) : Res F64 :=
  match steps with
  | [] => .panic "index-out-of-range"
  | _ => .ok (interpLoop true steps input)

/-- `util.getClosest(val1, val2, target)` -/
def getClosest (val1 val2 target : Int) : Int :=
  if target - val1 ≥ val2 - target then val2 else val1

/-- The `for i < j` loop of `util.FindClosest`. -/
def findClosestLoop (arr : Array Int) (target : Int) (i j mid : Nat) : Int :=
  if i < j then
    let mid := (i + j) / 2
    if arr[mid]! = target then arr[mid]!
    else if target < arr[mid]! then
      if mid > 0 ∧ target > arr[mid - 1]! then getClosest arr[mid - 1]! arr[mid]! target
      else findClosestLoop arr target i mid mid
    else
      if mid < arr.size - 1 ∧ target < arr[mid + 1]! then getClosest arr[mid]! arr[mid + 1]! target
      else findClosestLoop arr target (mid + 1) j mid
  else arr[mid]!
termination_by j - i
decreasing_by all_goals omega

/-- `util.FindClosest(target, arr)`; panics (index out of range) on an empty slice. -/
def findClosest (target : Int) (arr : Array Int) : Res Int :=
  if arr.size = 0 then .panic "index-out-of-range"
  else if target ≤ arr[0]! then .ok arr[0]!
  else if target ≥ arr[arr.size - 1]! then .ok arr[arr.size - 1]!
  else .ok (findClosestLoop arr target 0 arr.size 0)

/-- lookup in a Go `map[int]int` (absent key ↦ zero value). -/
def mapGet (m : List (Int × Int)) (k : Int) : Int :=
  match m.find? (fun p => p.1 == k) with
  | some p => p.2
  | none => 0

/-- `util.ExtractKeysWithDistinctValues(input)`; `m` sorted by key. -/
def extractKeysAux : Int → List (Int × Int) → List Int
  | _, [] => []
  | last, (k, v) :: rest =>
    if last = -1 ∨ last ≠ v then k :: extractKeysAux v rest
    else extractKeysAux last rest

def extractKeys (m : List (Int × Int)) : List Int := extractKeysAux (-1) m

/-- `util.PidLoop` -/
structure PidSt where
  p : F64
  i : F64
  d : F64
  error : F64 := F64.zero
  integral : F64 := F64.zero
  /-- `none` ⇔ `lastTime.IsZero()`; nanoseconds -/
  lastTime : Option Int := none
  deriving Repr, Inhabited

/-- `(*PidLoop).Loop(target, measured)` with `time.Now()` supplied as `now` (ns). -/
def pidLoop (st : PidSt) (target measured : F64) (now : Int) : PidSt × F64 :=
  let err := target - measured
  match st.lastTime with
  | none =>
    ({ st with error := err, lastTime := some now }, F64.zero)
  | some last =>
    let dt := secondsOfNanos (now - last)
    let proportional := err
    let integral := st.integral + err * dt
    let derivative := (err - st.error) / dt
    let output := st.p * proportional + st.i * integral + st.d * derivative
    ({ st with integral := integral, error := err, lastTime := some now }, output)

end Fan2go
