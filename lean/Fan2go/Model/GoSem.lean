/-
  Semantics of the Go constructs that the second-generation translator (go/transgen2) emits, over the `Res` monad of
  the model (ok / err / panic).  Core Lean only.

  * slices are `Array`s; `Go.idx` panics out of range (as the Go runtime does)
  * maps are key-sorted association lists (the convention of every model in this directory); a missing key reads as
    the zero value; `Go.sortedKeys` = "collect the keys, sort ascending"
  * integer `/` and `%` truncate toward zero and panic on a zero divisor
  * `for cond { }` becomes `for _ in Go.Fuel.mk n do`: at most `n` iterations, then a panic `out-of-fuel` - a theorem
    about a translated loop therefore has to show that the declared bound suffices
-/
import Fan2go.Model.Util
namespace Fan2go
namespace Go

def idx {α : Type} [Inhabited α] (a : Array α) (i : Int) : Res α :=
  if 0 ≤ i ∧ i < a.size then .ok a[i.toNat]! else .panic "index-out-of-range"

def len {α : Type} (a : Array α) : Int := a.size
def lenM {α : Type} (m : List (Int × α)) : Int := m.length

class Zero (α : Type) where
  zero : α
instance : Zero Int := ⟨0⟩
instance : Zero F64 := ⟨F64.ofInt 0⟩

/-- `m[k]` on a Go map: the value of the first entry with that key, the zero value when there is none -/
def mapGet {α : Type} [Zero α] (m : List (Int × α)) (k : Int) : α :=
  match m.find? (fun p => p.1 == k) with
  | some p => p.2
  | none => Zero.zero

/-- keys of a map, ascending (maps are key-sorted association lists) -/
def sortedKeys {α : Type} (m : List (Int × α)) : Array Int := (m.map (·.1)).toArray

def div (a b : Int) : Res Int := if b = 0 then .panic "integer-divide-by-zero" else .ok (Int.tdiv a b)
def mod (a b : Int) : Res Int := if b = 0 then .panic "integer-divide-by-zero" else .ok (Int.tmod a b)

/-- Go `int` is 64-bit two's complement (same definition as `wrap64` of Model/Curves.lean) -/
def wrap64 (n : Int) : Int := (n + 2^63) % 2^64 - 2^63

/-- Go `a & b` on values of an unsigned type (`os.FileMode` is a `uint32`): exact for non-negative operands, the only
    ones the translated code produces -/
def land (a b : Int) : Int := ((a.toNat &&& b.toNat : Nat) : Int)

def fatal {α : Type} : Res α := .panic "fatal"

/-- `for i, v := range xs` -/
def enum {α : Type} (xs : Array α) : List (Int × α) :=
  (List.range xs.size).zip xs.toList |>.map (fun p => ((p.1 : Int), p.2))

/-- bound of a condition-controlled loop -/
structure Fuel where
  n : Nat

def loopFuel {σ : Type} (f : Unit → σ → Res (ForInStep σ)) : Nat → σ → Res σ
  | 0, _ => .panic "out-of-fuel"
  | n+1, s =>
    match f () s with
    | .ok (.done s') => .ok s'
    | .ok (.yield s') => loopFuel f n s'
    | .err e => .err e
    | .panic p => .panic p

instance : ForIn Res Fuel Unit where
  forIn fuel init f := loopFuel f fuel.n init

/-! ### the state monad of the third-generation translation (go/transgen3)

  `GoM σ α`: a Go method body run on a state `σ` (the receiver's fields, the fan, the device behind it ...). The state is
  threaded through; a panic aborts the body and KEEPS the state reached so far (as in Go); `Res.err` is not used by
  translated code (Go errors are values: `Option String`, `none` = nil). -/

end Go

def GoM (σ α : Type) : Type := σ → Res α × σ

namespace GoM
def pure' {σ α : Type} (a : α) : GoM σ α := fun s => (.ok a, s)
def bind' {σ α β : Type} (m : GoM σ α) (f : α → GoM σ β) : GoM σ β := fun s =>
  match m s with
  | (.ok a, s') => f a s'
  | (.err e, s') => (.err e, s')
  | (.panic p, s') => (.panic p, s')
instance {σ : Type} : Monad (GoM σ) where
  pure := pure'
  bind := bind'
/-- run a translated method on a state -/
def run {σ α : Type} (m : GoM σ α) (s : σ) : Res α × σ := m s
end GoM

namespace Go
/-- `*p` on a pointer field: nil dereference panics -/
def deref {σ α : Type} : Option α → GoM σ α
  | some a => fun s => (.ok a, s)
  | none => fun s => (.panic "nil", s)

/-- a pure computation that may panic, inside the state monad -/
def liftRes {σ α : Type} (r : Res α) : GoM σ α := fun s => (r, s)

/-- `m[k] = v` on a Go map (association list): replace the entry with that key, else add one (at the end) -/
def mapSet {α : Type} (m : List (Int × α)) (k : Int) (v : α) : List (Int × α) :=
  if m.any (·.1 == k) then m.map (fun p => if p.1 == k then (k, v) else p) else m ++ [(k, v)]

/-- `m[k] = v` on a Go map kept as a KEY-SORTED association list (the representation the hand-written models of the
    start-up analysis use): replace the entry with that key, else insert it at its place -/
def mapPut {α : Type} : List (Int × α) → Int → α → List (Int × α)
  | [], k, v => [(k, v)]
  | (k', v') :: rest, k, v =>
    if k < k' then (k, v) :: (k', v') :: rest
    else if k = k' then (k, v) :: rest
    else (k', v') :: mapPut rest k v

/-- `fmt.Sprintf("%d", n)` / `strconv.Itoa(n)`: the decimal text of an int -/
def itoa (n : Int) : String := toString n

/-- the values of `for i := a; i >= b; i--` -/
def downFrom (a b : Int) : List Int := (List.range (a - b + 1).toNat).map (fun (j : Nat) => a - (j : Int))

/-- `len(s)` of a string (bytes) -/
def lenS (s : String) : Int := s.utf8ByteSize

/-- a map value that may be nil, as a map: nil is the empty map -/
def mapOf {α : Type} (m : Option (List (Int × α))) : List (Int × α) := m.getD []

/-- `m[k]` on a map field that may be nil: a nil map reads as the zero value -/
def mapGetOpt (m : Option (List (Int × Int))) (k : Int) : Int :=
  match m with
  | some l => mapGet l k
  | none => 0
end Go

/-- Go maps are modelled as association lists sorted by strictly increasing key (the representation invariant the
    tie theorems of Props/Trans2*.lean assume of their map arguments) -/
def SortedMap {α : Type} (m : List (Int × α)) : Prop := m.Pairwise (fun a b => a.1 < b.1)

end Fan2go
