/-
  Model of `util.SafeCmdExecution` (internal/util/exec.go, after the fixes 8c639fb "do not panic when an
  external command cannot be started" and 4d252cb "bound external commands whose descendants keep the
  output pipe open") and of its callers `CmdSensor.GetValue` (internal/sensors/cmd.go) and
  `CmdFan.GetPwm/GetRpm/SetPwm` (internal/fans/cmd.go). Core Lean only.

  The permission test of THIS call is an input (`PermOut`, produced by `checkPerm`), the external
  process is an abstract behaviour `Beh`, the deadline is `timeout` (ms). Model time: a call that
  returns "before the deadline" is bounded by `timeout`; everything else is stated explicitly.

  Go semantics used (os/exec of the pinned toolchain go1.23, `cmd.WaitDelay = cmdWaitDelay = 200 ms`):
  * `cmd.Output()` = Start + Wait; a Start failure (`*fs.PathError` from fork/exec: ENOEXEC, EACCES,
    ENOENT) is returned as is – it is NOT an `*exec.ExitError`; the code now classifies it with
    `errors.As` and returns it as an ordinary error;
  * `Wait` returns after the goroutine copying the child's stdout has seen EOF, i.e. after EVERY holder
    of the pipe's write end (the child and whoever inherited it) has closed it – but at most `WaitDelay`
    after the FIRST of: the context's deadline (then the child is killed as well), or the child's own
    exit (`awaitGoroutines` starts the timer when `Process.Wait` has returned). When the delay expires
    the pipes are closed by force; if the child had exited successfully on its own the error is
    `exec.ErrWaitDelay`, otherwise the child's `*exec.ExitError` is kept;
  * if the deadline has passed when `Output()` returns, the result is `("", err)` with a nil `err`
    replaced by `ctx.Err()`: never a success after the deadline;
  * a context whose timeout is `0` is already expired: `Start` returns `ctx.Err()` without starting anything.

  History: before the fixes a start error PANICKED (unchecked `err.(*exec.ExitError)`) and, with
  `WaitDelay == 0`, a descendant holding the pipe blocked the call for as long as it pleased.
-/
import Fan2go.Model.Perm
namespace Fan2go

/-! ### `strings.Trim(s, "\n")` -/

/-- drop leading `'\n'` -/
def dropNl (l : List Char) : List Char := l.dropWhile (· == '\n')

/-- `strings.Trim(s, "\n")` on the character list: `trimLeftByte(trimRightByte(s, '\n'), '\n')`. -/
def trimNlChars (l : List Char) : List Char := dropNl (dropNl l.reverse).reverse

def trimNl (s : String) : String := String.ofList (trimNlChars s.toList)

/-! ### behaviour of the external process -/

/-- until when (ms after the start of the call) a descendant keeps the inherited stdout pipe open -/
inductive Hold where
  | ms (h : Nat)
  | forever
  deriving Repr, DecidableEq, Inhabited

inductive Beh where
  /-- the process cannot be started: `fork/exec` fails (bad format, no x bit, missing file/interpreter) -/
  | startError
  /-- exits on its own before the deadline with `code`, having written `stdout`; nobody else holds the pipe -/
  | exits (code : Nat) (stdout : String)
  /-- terminated by a signal (not ours) before the deadline -/
  | killedBySignal (stdout : String)
  /-- still running at the deadline and killed then. `orphan = none`: it held its stdout alone
      (`exec sleep 30`). `orphan = some h`: a descendant that inherited the stdout pipe survives the kill
      and keeps the pipe open until `h` – this is what a shell script whose last line is a plain
      `sleep 30` does: the `sleep` is a child of the shell, only the shell is killed. -/
  | outlivesDeadline (orphan : Option Hold)
  /-- the child exits 0 at once with `stdout`, but a descendant inherited the stdout pipe and keeps it
      open until `hold` (`(sleep 30 &); echo hi`). -/
  | grandchildHoldsStdout (stdout : String) (hold : Hold)
  deriving Repr, DecidableEq, Inhabited

/-- what the command wrote, when it ran to a successful end -/
def Beh.stdout : Beh → Option String
  | .exits 0 out => some out
  | .grandchildHoldsStdout out _ => some out
  | _ => none

structure ExecOut where
  /-- `.ok (.ok s)` ⇔ `(s, nil)`; `.ok (.error _)` ⇔ `("", err)`; `.panic site` ⇔ the goroutine panics. -/
  res : Res (Except String String)
  /-- `cmd.Output()` was reached (the code tried to start the executable) -/
  attempted : Bool
  /-- a process was actually started from the executable -/
  ran : Bool
  /-- upper bound (ms of model time) on the duration of the call; `none` = may block indefinitely
      (no longer produced by the model since `cmd.WaitDelay` is set) -/
  boundedBy : Option Nat
  deriving Repr, DecidableEq, Inhabited

/-- `const cmdWaitDelay = 200 * time.Millisecond` -/
def cmdWaitDelayMs : Nat := 200

/-- the part of `SafeCmdExecution` after the permission check has passed -/
def runCmd (beh : Beh) (timeout : Nat) : ExecOut :=
  if timeout = 0 then
    -- ctx already expired: Start returns ctx.Err(); `ctx.Err() == context.DeadlineExceeded` → return "", err
    { res := .ok (.error "context deadline exceeded"), attempted := true, ran := false, boundedBy := some 0 }
  else
  match beh with
  | .startError =>
    -- err is a *fs.PathError; ctx not expired; `errors.As(err, &exitError)` is false → warning, return "", err
    { res := .ok (.error "fork/exec"), attempted := true, ran := false, boundedBy := some 0 }
  | .exits code out =>
    if code = 0 then
      { res := .ok (.ok (trimNl out)), attempted := true, ran := true, boundedBy := some timeout }
    else
      -- *exec.ExitError; output discarded
      { res := .ok (.error "exit status"), attempted := true, ran := true, boundedBy := some timeout }
  | .killedBySignal _ =>
    { res := .ok (.error "signal"), attempted := true, ran := true, boundedBy := some timeout }
  | .outlivesDeadline orphan =>
    -- killed at the deadline (Process.Wait → *exec.ExitError "signal: killed"); Wait then waits for EOF on
    -- the pipe, at most WaitDelay; afterwards `ctx.Err() == DeadlineExceeded` → return "", err
    { res := .ok (.error "signal: killed"), attempted := true, ran := true,
      boundedBy := match orphan with
        | none => some timeout
        | some (.ms h) => some (min (max timeout h) (timeout + cmdWaitDelayMs))
        | some .forever => some (timeout + cmdWaitDelayMs) }
  | .grandchildHoldsStdout out hold =>
    -- the child has exited 0 at once: the WaitDelay timer runs from THEN, not from the deadline
    match hold with
    | .ms h =>
      if h < cmdWaitDelayMs then
        if h < timeout then
          { res := .ok (.ok (trimNl out)), attempted := true, ran := true, boundedBy := some h }
        else
          -- released after the deadline: Output() = (out, nil), `err = ctx.Err()` → return "", err
          { res := .ok (.error "context deadline exceeded"), attempted := true, ran := true, boundedBy := some h }
      else
        -- pipes closed by force after WaitDelay: exec.ErrWaitDelay (whether or not the deadline has passed)
        { res := .ok (.error "exec: WaitDelay expired before I/O complete"), attempted := true, ran := true,
          boundedBy := some cmdWaitDelayMs }
    | .forever =>
      { res := .ok (.error "exec: WaitDelay expired before I/O complete"), attempted := true, ran := true,
        boundedBy := some cmdWaitDelayMs }

/-- `util.SafeCmdExecution(executable, args, timeout)` given the outcome `perm` of
    `CheckFilePermissionsForExecution(executable)` evaluated AT THIS CALL. -/
def safeCmd (perm : PermOut) (beh : Beh) (timeout : Nat) : ExecOut :=
  match perm with
  | .ok (.ok ()) => runCmd beh timeout
  | .ok (.error e) =>
    { res := .ok (.error ("cannot execute: " ++ e)), attempted := false, ran := false, boundedBy := some 0 }
  | .err e => { res := .err e, attempted := false, ran := false, boundedBy := some 0 }
  | .panic s => { res := .panic s, attempted := false, ran := false, boundedBy := some 0 }

/-- the whole call: resolve, stat, check, run -/
def safeCmdExecution (ev : EvalRes) (st : StatRes) (beh : Beh) (timeout : Nat) : ExecOut :=
  safeCmd (checkPerm ev st) beh timeout

/-! ### a sequence of calls with the file changing in between -/

inductive ExecEvent where
  /-- somebody changes the file (chown / chmod / unlink / re-point the symlink) -/
  | setStat (ev : EvalRes) (st : StatRes)
  | call (beh : Beh) (timeout : Nat)
  deriving Repr, Inhabited

/-- Runs the trace from the file state `w`; logs, for every call, the file state AT that call and the outcome.
    (`SafeCmdExecution` keeps no state between calls – there is nothing else to thread through.) -/
def runTrace (w : EvalRes × StatRes) : List ExecEvent → List ((EvalRes × StatRes) × ExecOut)
  | [] => []
  | .setStat ev st :: rest => runTrace (ev, st) rest
  | .call b t :: rest => (w, safeCmdExecution w.1 w.2 b t) :: runTrace w rest

/-! ### callers -/

/-- `CmdSensor.GetValue`, `CmdFan.GetPwm`, `CmdFan.GetRpm`: error ↦ error, text ↦ `strconv.ParseFloat`
    (abstract `parse`), a panic is not recovered anywhere on the way up. -/
def cmdUserValue {α : Type} (parse : String → Option α) (o : ExecOut) : Res (Except String α) :=
  match o.res with
  | .ok (.ok s) =>
    match parse s with
    | some v => .ok (.ok v)
    | none => .ok (.error "parse")
  | .ok (.error e) => .ok (.error e)
  | .err e => .err e
  | .panic s => .panic s

/-- `CmdFan.SetPwm`: the text is ignored -/
def cmdUserSet (o : ExecOut) : Res (Except String Unit) :=
  match o.res with
  | .ok (.ok _) => .ok (.ok ())
  | .ok (.error e) => .ok (.error e)
  | .err e => .err e
  | .panic s => .panic s

end Fan2go
