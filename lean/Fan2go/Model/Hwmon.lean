/-
  Model of internal/hwmon/hwmon.go (`GetChips`, `GetFans`, `GetTempSensors`, `computeIdentifier`,
  `findPlatform`, `UpdateFanConfigFromHwMonControllers`, `setFanConfigPaths`), of the hwmon
  branch of `initializeSensors` and of the loops of `initializeSensors` / `initializeFans` over
  the configured hwmon entries in internal/backend.go — operation by operation.
  Core Lean only.

  Trusted / abstracted:
  * `regexp.MatchString("(?i)"+pattern, platform)` is the abstract parameter
    `matches : String → String → Bool` (a pattern that does not compile makes both Go functions
    return an error; such patterns are outside the model). The driver instantiates it with
    `ciContains` (case-insensitive substring), which coincides with the Go regexp for patterns
    made of ASCII letters, digits and `-` matched against ASCII text.
  * `path.Join(dir, name)` is `dir ++ "/" ++ name`: valid when `dir` is a clean non-empty path and
    `name` a clean non-empty relative name (always the case for libsensors paths / names).
  * file reads of `GetChips` (`<path>/name`, labels, modalias, type) are explicit inputs
    (`RawChip.nameFile`) or not modelled (labels, modalias, type do not influence binding).
  * whitespace inside feature names (skipped by `Sscanf`'s `%d`) is not modelled.
-/
import Fan2go.Model.Util
namespace Fan2go
namespace Hwmon

/-! ## The libsensors view (`gosensors.Chip`) -/

/-- `feature.Type`, reduced to what hwmon.go distinguishes -/
inductive FeatKind where
  | fan | temp | other
  deriving Repr, DecidableEq, Inhabited

/-- A `gosensors.Feature`. `hasInput`: the feature has a sub-feature of type
    `SubFeatureTypeFanInput` (kind fan) resp. `SubFeatureTypeTempInput` (kind temp);
    `inputName`: the `Name` of the first such sub-feature. -/
structure Feature where
  kind : FeatKind
  name : String
  hasInput : Bool
  inputName : String := ""
  deriving Repr, DecidableEq, Inhabited

/-- A `gosensors.Chip` plus the content of `<Path>/name` (trimmed, `""` when unreadable). -/
structure RawChip where
  pfx : String
  busType : Int
  busNr : Int
  addr : Nat
  path : String
  nameFile : String := ""
  features : List Feature
  deriving Repr, DecidableEq, Inhabited

/-! ## What `GetChips` produces -/

/-- the binding-relevant part of a `fans.HwMonFan` (its `Config.HwMon`) -/
structure FanDev where
  index : Int
  rpmChannel : Int
  pwmChannel : Int
  sysfsPath : String
  deriving Repr, DecidableEq, Inhabited

/-- `HwMonController`; `temps` is the `Sensors` map as a key-sorted list of
    `(index, sensor.Input)`. -/
structure Chip where
  name : String := ""
  platform : String
  path : String
  fans : List FanDev
  temps : List (Int × String)
  deriving Repr, DecidableEq, Inhabited

/-- `path.Join(dir, name)` for a clean non-empty `dir` and a clean relative `name` -/
def pathJoin (dir name : String) : String := dir ++ "/" ++ name

/-- `fmt.Sscanf(name, "fan%d", &channel)`: literal `fan`, optional sign, maximal run of decimal
    digits (at least one), value must fit an int64; trailing text is ignored. -/
def scanFanChannel (name : String) : Option Int :=
  match name.toList with
  | 'f' :: 'a' :: 'n' :: rest =>
    let (neg, rest) := match rest with
      | '+' :: r => (false, r)
      | '-' :: r => (true, r)
      | r => (false, r)
    let ds := rest.takeWhile Char.isDigit
    if ds.isEmpty then none
    else
      let v : Nat := ds.foldl (fun a c => a * 10 + (c.toNat - '0'.toNat)) 0
      let i : Int := if neg then - (v : Int) else (v : Int)
      if i < -9223372036854775808 ∨ i > 9223372036854775807 then none else some i
  | _ => none

/-- the channel of a feature that `GetFans` turns into a fan, `none` when it is skipped -/
def fanChannel? (ft : Feature) : Option Int :=
  if ft.kind = .fan ∧ ft.hasInput = true then scanFanChannel ft.name else none

/-- the loop of `GetFans`; `acc` is `result` (`Index: len(result) + 1`) -/
def getFansLoop (path : String) : List Feature → List FanDev → List FanDev
  | [], acc => acc
  | ft :: rest, acc =>
    if ft.kind ≠ .fan then getFansLoop path rest acc
    else if ft.hasInput = false then getFansLoop path rest acc
    else
      match scanFanChannel ft.name with
      | none => getFansLoop path rest acc          -- "No channel found for ..., ignoring."
      | some ch =>
        getFansLoop path rest
          (acc ++ [{ index := (acc.length : Int) + 1, rpmChannel := ch, pwmChannel := ch, sysfsPath := path }])

/-- `GetFans(chip)` -/
def getFans (c : RawChip) : List FanDev := getFansLoop c.path c.features []

/-- the loop of `GetTempSensors`; `cur` is `currentOutputIndex` -/
def getTempsLoop (path : String) : List Feature → Int → List (Int × String) → List (Int × String)
  | [], _, acc => acc
  | ft :: rest, cur, acc =>
    if ft.kind ≠ .temp then getTempsLoop path rest cur acc
    else if ft.hasInput = true then
      getTempsLoop path rest (cur + 1) (acc ++ [(cur + 1, pathJoin path ft.inputName)])
    else getTempsLoop path rest cur acc

/-- `GetTempSensors(chip)` (index ↦ `Input`) -/
def getTemps (c : RawChip) : List (Int × String) := getTempsLoop c.path c.features 0 []

/-- `p` occurs as a contiguous block in `s` -/
def isInfix (p : List Char) : List Char → Bool
  | [] => p.isEmpty
  | c :: cs => p.isPrefixOf (c :: cs) || isInfix p cs

/-- `regexp.MustCompile(".*/platform/{}/.*").FindString(devicePath)` (`{}` is a literal;
    a path has no newline, so a match is the whole path) -/
def findPlatform (devicePath : String) : String :=
  if isInfix "/platform/{}/".toList devicePath.toList then devicePath else ""

/-- file part of `filepath.Split` -/
def baseName (p : String) : String :=
  String.ofList ((p.toList.reverse.takeWhile (· ≠ '/')).reverse)

/-- `%03x` of a non-negative number -/
def hex3 (n : Nat) : String :=
  let ds := Nat.toDigits 16 n
  String.ofList (List.replicate (3 - ds.length) '0' ++ ds)

/-- `computeIdentifier(chip)` -/
def computeIdentifier (c : RawChip) : String :=
  let name := c.pfx
  let name := if name.length ≤ 0 then c.nameFile else name
  let name := if name.length ≤ 0 then baseName c.path else name
  if c.busType = 1 then s!"{name}-isa-{c.busNr}{hex3 c.addr}"
  else if c.busType = 2 then s!"{name}-pci-{c.busNr}{hex3 c.addr}"
  else if c.busType = 4 then s!"{name}-virtual-{c.busNr}"
  else if c.busType = 5 then s!"{name}-acpi-{c.busNr}"
  else if c.busType = 6 then s!"{name}-hid-{c.busNr}-{c.addr}"
  else if c.busType = 8 then s!"{name}-scsi-{c.busNr}-{c.addr}"
  else name

/-- the platform `GetChips` assigns -/
def platformOf (c : RawChip) : String :=
  let platform := findPlatform c.path
  if platform.length ≤ 0 then computeIdentifier c else platform

/-- one iteration of the loop of `GetChips` without the `continue` -/
def mkChip (c : RawChip) : Chip :=
  { name := computeIdentifier c, platform := platformOf c, path := c.path,
    fans := getFans c, temps := getTemps c }

/-- `GetChips()` over the chips libsensors enumerates, in this order; chips with neither a
    fan nor a temperature input are skipped. -/
def getChips (raws : List RawChip) : List Chip :=
  raws.filterMap fun rc =>
    let c := mkChip rc
    if c.fans.length ≤ 0 ∧ c.temps.length ≤ 0 then none else some c

/-! ## Fan binding: `UpdateFanConfigFromHwMonControllers` + `setFanConfigPaths` -/

/-- the user-written part of `HwMonFanConfig` (0 = not given) -/
structure FanSel where
  platform : String
  index : Int := 0
  rpmChannel : Int := 0
  pwmChannel : Int := 0
  deriving Repr, DecidableEq, Inhabited

/-- `HwMonFanConfig` after a successful update -/
structure FanBinding where
  index : Int
  rpmChannel : Int
  pwmChannel : Int
  sysfsPath : String
  rpmInputPath : String
  pwmPath : String
  pwmEnablePath : String
  deriving Repr, DecidableEq, Inhabited

def rpmInputPathOf (sysfs : String) (rpmCh : Int) : String := pathJoin sysfs s!"fan{rpmCh}_input"
def pwmPathOf (sysfs : String) (pwmCh : Int) : String := pathJoin sysfs s!"pwm{pwmCh}"
def pwmEnablePathOf (sysfs : String) (pwmCh : Int) : String := pathJoin sysfs s!"pwm{pwmCh}_enable"

/-- the assignments after the two `continue`s, followed by `setFanConfigPaths(config.HwMon)` -/
def mkBinding (sel : FanSel) (f : FanDev) : FanBinding :=
  let pwmCh := if sel.pwmChannel = 0 then f.pwmChannel else sel.pwmChannel
  { index := f.index, rpmChannel := f.rpmChannel, pwmChannel := pwmCh, sysfsPath := f.sysfsPath,
    rpmInputPath := rpmInputPathOf f.sysfsPath f.rpmChannel,
    pwmPath := pwmPathOf f.sysfsPath pwmCh,
    pwmEnablePath := pwmEnablePathOf f.sysfsPath pwmCh }

/-- a fan passes both `continue` tests of the inner loop -/
def fanOk (sel : FanSel) (f : FanDev) : Bool :=
  !(decide (sel.index > 0) && decide (f.index ≠ sel.index)) &&
  !(decide (sel.rpmChannel > 0) && decide (f.rpmChannel ≠ sel.rpmChannel))

/-- inner loop `for _, fan := range controller.Fans` -/
def bindFanDevs (sel : FanSel) : List FanDev → Option FanBinding
  | [] => none
  | f :: fs =>
    if sel.index > 0 ∧ f.index ≠ sel.index then bindFanDevs sel fs
    else if sel.rpmChannel > 0 ∧ f.rpmChannel ≠ sel.rpmChannel then bindFanDevs sel fs
    else some (mkBinding sel f)

/-- `UpdateFanConfigFromHwMonControllers(controllers, config)`; `.ok b` = `nil` error with the
    config updated to `b`; it has no panic site. -/
def bindFan (matchp : String → String → Bool) : List Chip → FanSel → Res FanBinding
  | [], _ => .err "no-hwmon-fan-matched"
  | c :: cs, sel =>
    if matchp sel.platform c.platform then
      match bindFanDevs sel c.fans with
      | some b => .ok b
      | none => bindFan matchp cs sel
    else bindFan matchp cs sel

/-! ## Sensor binding: hwmon branch of `initializeSensors` -/

structure SensorSel where
  platform : String
  index : Int := 0
  deriving Repr, DecidableEq, Inhabited

/-- `c.Sensors[idx]`: a `map[int]*HwmonSensor` lookup, `none` = key absent -/
def lookupTemp (temps : List (Int × String)) (idx : Int) : Option String :=
  match temps with
  | [] => none
  | (k, v) :: rest => if k = idx then some v else lookupTemp rest idx

/-- `for _, c := range controllers`; state = (`found`, `config.HwMon.TempInput`).
    `if hwmonSensor, exists := c.Sensors[config.HwMon.Index]; exists { found = true; ... }`:
    a matching controller without the key is skipped.
    (Before /repo commit 218c45c the code read `c.Sensors[config.HwMon.Index].Input` without a
    presence test and this branch was a nil-pointer dereference, `.panic "nil"`.) -/
def bindSensorLoop (matchp : String → String → Bool) (sel : SensorSel) :
    List Chip → Bool × String → Res (Bool × String)
  | [], acc => .ok acc
  | c :: cs, acc =>
    if matchp sel.platform c.platform then
      match lookupTemp c.temps sel.index with
      | none => bindSensorLoop matchp sel cs acc
      | some p => bindSensorLoop matchp sel cs (true, p)
    else bindSensorLoop matchp sel cs acc

/-- The hwmon branch of `initializeSensors` for one sensor entry: `.ok input` = the sensor is
    created with this `Input`; `.err` = "couldn't find hwmon device with platform ... and index ...". -/
def bindSensor (matchp : String → String → Bool) (chips : List Chip) (sel : SensorSel) : Res String :=
  match bindSensorLoop matchp sel chips (false, "") with
  | .ok (true, p) => .ok p
  | .ok (false, _) => .err "no-hwmon-device"
  | .err e => .err e
  | .panic s => .panic s

/-! ## Several entries in one call: the loops of `initializeSensors` / `initializeFans`

  Both functions of internal/backend.go have the same shape

      for _, config := range configuration.CurrentConfig.<Sensors|Fans> {
          if config.HwMon != nil { <bind this entry>; if it failed { return error } }
          x, err := New<Sensor|Fan>(config)       // cannot fail for an entry with `HwMon != nil`
          list = append(list, x); Register<Sensor|Fan>(x)
      }

  `config` is a fresh loop-local copy of the entry in every iteration and the binding of an entry
  reads only `controllers` and that entry (`found` is re-initialised per entry; the fan code is
  called with `&config`, the address of the copy, and writes through `config.HwMon`, which is the
  entry's OWN `*HwMonFanConfig`): nothing is carried from one entry to the next. The first entry
  that cannot be bound aborts the whole call with an error (start-up fails); the entries after
  it are not looked at.

  Only the hwmon entries are modelled (`sels` = the entries with `HwMon != nil`, in configuration
  order); the result lists, per entry in this order, what the created sensor / fan is bound to.
  `sensor.GetValue()` failing at this point is only a warning. The error carries the position of
  the failing entry (the Go error text names the entry's id). -/

/-- the shared loop; `i` = position of the head of the remaining entries, `acc` = `sensorList` /
    `fanList` so far -/
def bindEntriesLoop {σ β : Type} (bind1 : σ → Res β) (tag : String) :
    Nat → List σ → List β → Res (List β)
  | _, [], acc => .ok acc
  | i, sel :: rest, acc =>
    match bind1 sel with
    | .ok b => bindEntriesLoop bind1 tag (i + 1) rest (acc ++ [b])
    | .err _ => .err s!"{tag}@{i}"
    | .panic s => .panic s

/-- `initializeSensors(controllers)` restricted to its hwmon entries: the `Input` of every created
    sensor, or `.err "no-hwmon-device@<i>"` for the first entry `i` without a device. -/
def bindSensors (matchp : String → String → Bool) (chips : List Chip) (sels : List SensorSel) :
    Res (List String) :=
  bindEntriesLoop (bindSensor matchp chips) "no-hwmon-device" 0 sels []

/-- `initializeFans(controllers)` restricted to its hwmon entries: the updated `Config.HwMon` of
    every created fan, or `.err "no-hwmon-fan-matched@<i>"` for the first entry `i` that
    `UpdateFanConfigFromHwMonControllers` rejects. -/
def bindFans (matchp : String → String → Bool) (chips : List Chip) (sels : List FanSel) :
    Res (List FanBinding) :=
  bindEntriesLoop (bindFan matchp chips) "no-hwmon-fan-matched" 0 sels []

/-! ## The matcher used by the driver -/

def lowerAscii (c : Char) : Char :=
  if 'A' ≤ c ∧ c ≤ 'Z' then Char.ofNat (c.toNat + 32) else c

/-- case-insensitive (ASCII) substring test: the value of
    `regexp.MatchString("(?i)"+pat, s)` for `pat` over `[A-Za-z0-9-]` and ASCII `s`. -/
def ciContains (pat s : String) : Bool :=
  isInfix (pat.toList.map lowerAscii) (s.toList.map lowerAscii)

end Hwmon
end Fan2go
