/-
  Model of internal/fans/{common,hwmon,file,cmd}.go: limits, setters, boundary derivation,
  and the fan device (registers + fault switches) behind the backend I/O.
  Core Lean only.
-/
import Fan2go.Model.Util
namespace Fan2go
open F64

inductive FanKind where
  | hwmon | file | cmd
  deriving Repr, DecidableEq, Inhabited

/-- The fan object (`HwMonFan` / `FileFan` / `CmdFan`). Pointer-valued fields are `Option`s. -/
structure FanSt where
  kind : FanKind := .hwmon
  neverStop : Bool := false
  /-- `Config.MinPwm/StartPwm/MaxPwm` -/
  cfgMin : Option Int := none
  cfgStart : Option Int := none
  cfgMax : Option Int := none
  /-- `HwMonFan.MinPwm/StartPwm/MaxPwm` (initialised from the configuration by `NewFan`) -/
  minP : Option Int := none
  startP : Option Int := none
  maxP : Option Int := none
  /-- `HwMonFan.RpmMovingAvg` -/
  rpmAvg : F64 := F64.zero
  /-- `FileFan.Rpm` / `CmdFan.Rpm` (these kinds keep the "average" as a truncated int) -/
  rpmInt : Int := 0
  /-- `HwMonFan.FanCurveData`, sorted by key -/
  curveData : Option (List (Int × F64)) := none
  deriving Repr, Inhabited

namespace FanSt

/-- `fans.NewFan(config)` -/
def new (kind : FanKind) (neverStop : Bool) (cfgMin cfgStart cfgMax : Option Int) : FanSt :=
  { kind, neverStop, cfgMin, cfgStart, cfgMax,
    minP := cfgMin, startP := cfgStart, maxP := cfgMax }

def getMin (f : FanSt) : Int :=
  match f.kind with
  | .hwmon => if f.neverStop then f.minP.getD 0 else 0
  | _ => 0

def getMax (f : FanSt) : Int :=
  match f.kind with
  | .hwmon => f.maxP.getD 255
  | _ => 255

def getStart (f : FanSt) : Int :=
  match f.kind with
  | .hwmon => f.startP.getD 255
  | _ => 1

def setMin (f : FanSt) (pwm : Int) (force : Bool) : FanSt :=
  match f.kind with
  | .hwmon => if f.cfgMin.isNone || force then { f with minP := some pwm } else f
  | _ => f

def setStart (f : FanSt) (pwm : Int) (force : Bool) : FanSt :=
  match f.kind with
  | .hwmon => if f.cfgStart.isNone || force then { f with startP := some pwm } else f
  | _ => f

def setMax (f : FanSt) (pwm : Int) (force : Bool) : FanSt :=
  match f.kind with
  | .hwmon => if f.cfgMax.isNone || force then { f with maxP := some pwm } else f
  | _ => f

def getRpmAvg (f : FanSt) : F64 :=
  match f.kind with
  | .hwmon => f.rpmAvg
  | _ => ofInt f.rpmInt

def setRpmAvg (indef : Int) (f : FanSt) (x : F64) : FanSt :=
  match f.kind with
  | .hwmon => { f with rpmAvg := x }
  | _ => { f with rpmInt := toInt indef x }

end FanSt

/-- The loop of `fans.ComputePwmBoundaries` over the sorted keys: `(maxRpm, maxPwm, startPwm)`. -/
def boundariesLoop (indef : Int) : List (Int × F64) → Int × Int × Int → Int × Int × Int
  | [], acc => acc
  | (pwm, rpm) :: rest, (maxRpm, maxPwm, startPwm) =>
    let avgRpm := toInt indef rpm
    let (maxRpm, maxPwm) := if avgRpm > maxRpm then (avgRpm, pwm) else (maxRpm, maxPwm)
    let startPwm := if avgRpm > 0 ∧ pwm < startPwm then pwm else startPwm
    boundariesLoop indef rest (maxRpm, maxPwm, startPwm)

/-- `fans.ComputePwmBoundaries(fan)` given the fan's curve data (sorted by key). -/
def computePwmBoundaries (indef : Int) (userStartPwm : Int) (data : List (Int × F64)) : Int × Int :=
  let (_, maxPwm, startPwm) := boundariesLoop indef data (0, 255, 255)
  let startPwm := if userStartPwm < 255 then userStartPwm else startPwm
  (startPwm, maxPwm)

/-- `(*HwMonFan).AttachFanRpmCurveData(curveData)`; `none` = nil pointer. File and cmd fans ignore it. -/
def FanSt.attach (indef : Int) (f : FanSt) (data : Option (List (Int × F64))) : FanSt × Res Unit :=
  match f.kind with
  | .hwmon =>
    match data with
    | none => (f, .err "invalid")
    | some [] => (f, .err "invalid")
    | some d =>
      let f := { f with curveData := some d }
      let (startPwm, maxPwm) := computePwmBoundaries indef f.getStart d
      let f := f.setStart startPwm false
      let f := f.setMax maxPwm false
      let f := f.setMin startPwm false
      (f, .ok ())
  | _ => (f, .ok ())

/-! ### the device behind the fan -/

/-- How a value written to the PWM control lands in the register. -/
inductive DevResp where
  | identity
  /-- `v ↦ ⌊v / q⌋ · q` (q ≥ 1) -/
  | quant (q : Int)
  /-- arbitrary table, absent ↦ identity -/
  | table (t : List (Int × Int))
  deriving Repr, Inhabited

def DevResp.apply : DevResp → Int → Int
  | .identity, v => v
  | .quant q, v => if q ≤ 0 then v else (v / q) * q
  | .table t, v => match t.find? (fun p => p.1 == v) with
    | some p => p.2
    | none => v

inductive WriteMode where
  | applied | refused | ignored
  deriving Repr, DecidableEq, Inhabited

inductive ReadMode where
  | ok
  /-- error for which `errors.Is(err, os.ErrPermission)` holds -/
  | errPerm
  /-- any other failure; `v` is the value `ReadIntFromFile` returns beside the error
      (−1 for an unreadable or empty file, 0 for unparsable text) -/
  | errOther (v : Int)
  deriving Repr, DecidableEq, Inhabited

structure Dev where
  pwm : Int := 0
  mode : Int := 2
  rpm : Int := 0
  resp : DevResp := .identity
  pwmRead : ReadMode := .ok
  pwmWrite : WriteMode := .applied
  modeRead : ReadMode := .ok
  modeWrite : WriteMode := .applied
  rpmRead : ReadMode := .ok
  /-- `pwmN_enable` exists (hwmon only) -/
  hasMode : Bool := true
  /-- an RPM input is present / configured -/
  hasRpm : Bool := true
  deriving Repr, Inhabited

inductive Feature where
  | pwmSensor | rpmSensor | controlMode
  deriving Repr, DecidableEq

/-- `fan.Supports(feature)` -/
def supports (f : FanSt) (d : Dev) : Feature → Bool
  | .controlMode => f.kind == .hwmon && d.hasMode
  | .pwmSensor => match f.kind with
    | .cmd => true
    | _ => d.pwmRead == .ok
  | .rpmSensor => d.hasRpm

/-- `fan.GetPwm()`: value and error flag. -/
def fanGetPwm (d : Dev) : Res Int :=
  match d.pwmRead with
  | .ok => .ok d.pwm
  | _ => .err "read"

/-- `fan.GetRpm()` -/
def fanGetRpm (f : FanSt) (d : Dev) : Res Int :=
  if !d.hasRpm then (if f.kind == .cmd then .ok 0 else .err "read")   -- no RPM input: cmd fans report 0, a missing file cannot be read
  else match d.rpmRead with
    | .ok => .ok d.rpm
    | _ => .err "read"

/-- `fan.SetPwm(v)` -/
def fanSetPwm (d : Dev) (v : Int) : Dev × Res Unit :=
  match d.pwmWrite with
  | .applied => ({ d with pwm := d.resp.apply v }, .ok ())
  | .ignored => (d, .ok ())
  | .refused => (d, .err "write")

/-- `fan.GetPwmEnabled()` returning the value also in the error case. -/
def fanGetPwmEnabled (f : FanSt) (d : Dev) : Int × Bool :=
  match f.kind with
  | .hwmon => match d.modeRead with
    | .ok => (d.mode, true)
    | .errPerm => (-1, false)
    | .errOther v => (v, false)
  | _ => (1, true)

end Fan2go
