/-
  Specification-level model of `util.ReadIntFromFile`, `util.WriteIntToFile`, `util.WriteIntToFileAtomic`
  (internal/util/file.go): how the integer registers of hwmon / file fans and sensors are read and written. Core Lean only.

  The file system is a function from paths to contents (`none` = the file cannot be read / does not exist), symbolic links
  are a partial function `resolve` (`filepath.EvalSymlinks`: `none` = cannot be resolved). `strings.TrimSpace` and
  `strconv.Atoi` stay parameters (`trim`, `atoi`): what matters here is which file is read, what is done with an empty
  one, WHICH path a write goes to (the resolved one when there is one, evaluated at every write) and WHAT is written (the
  decimal text of the value).
-/
import Fan2go.Model.GoSem
namespace Fan2go

structure FS where
  content : String → Option String
  /-- `filepath.EvalSymlinks` now -/
  resolve : String → Option String
  /-- paths that refuse writes -/
  readOnly : String → Bool := fun _ => false

def FS.write (fs : FS) (p s : String) : FS × Option String :=
  if fs.readOnly p then (fs, some "write")
  else ({ fs with content := fun q => if q = p then some s else fs.content q }, none)

/-- `util.ReadIntFromFile(path)` -/
def readIntSpec (trim : String → String) (atoi : String → Int × Option String) (fs : FS) (path : String) : Int × Option String :=
  match fs.content path with
  | none => (-1, some "read")
  | some c => if Go.lenS c ≤ 0 then (-1, some "file is empty") else atoi (trim c)

/-- the path a write goes to: the resolved one, if resolution succeeds with a non-empty result -/
def writeTarget (fs : FS) (path : String) : String :=
  match fs.resolve path with
  | some r => if Go.lenS r > 0 then r else path
  | none => path

/-- `util.WriteIntToFile(value, path)` / `util.WriteIntToFileAtomic(value, path)` -/
def writeIntSpec (fs : FS) (value : Int) (path : String) : FS × Option String :=
  fs.write (writeTarget fs path) (Go.itoa value)

end Fan2go
