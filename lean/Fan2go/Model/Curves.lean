/-
  Model of internal/curves/{linear,functional,pid}.go over a curve table and a sensor table.
  Core Lean only.
-/
import Fan2go.Model.Util
namespace Fan2go
open F64

/-- What a curve sees of a sensor: `GetMovingAvg()` and the outcome of `GetValue()`. -/
structure SensorView where
  avg : F64
  value : Res F64
  deriving Repr, Inhabited

inductive CurveCfg where
  /-- `steps = none` ⇔ Go `steps == nil`; `some []` is an empty, non-nil map. Sorted by key. -/
  | linear (sensor : String) (min max : Int) (steps : Option (List (Int × F64)))
  | pid (sensor : String) (setPoint : F64)
  | function (type : String) (members : List String)
  deriving Repr, Inhabited

structure Curve where
  id : String
  cfg : CurveCfg
  /-- the `Value` field (last evaluation) -/
  value : Int := 0
  /-- memory of the PID curve (ignored for the other kinds) -/
  pid : PidSt := { p := F64.zero, i := F64.zero, d := F64.zero }
  deriving Repr, Inhabited

abbrev CurveTable := List Curve
abbrev SensorTable := List (String × SensorView)

def CurveTable.get? (t : CurveTable) (id : String) : Option Curve := t.find? (·.id == id)
def CurveTable.set (t : CurveTable) (c : Curve) : CurveTable :=
  t.map (fun x => if x.id == c.id then c else x)
def SensorTable.get? (t : SensorTable) (id : String) : Option SensorView :=
  (t.find? (·.1 == id)).map (·.2)

/-- `LinearSpeedCurve.Evaluate` for the min/max form. -/
def linMinMax (indef : Int) (avg : F64) (mn mx : Int) : Int :=
  let minTemp := ofInt mn * ofInt 1000
  let maxTemp := ofInt mx * ofInt 1000
  if ge avg maxTemp then 255
  else if le avg minTemp then 0
  else
    let r := (avg - minTemp) / (maxTemp - minTemp)
    toInt indef (r * ofInt 255)

/-- `LinearSpeedCurve.Evaluate` for the steps form. -/
def linSteps (indef : Int) (avg : F64) (steps : List (Int × F64)) : Res Int := do
  let v ← interp steps (avg / ofInt 1000)
  pure (toInt indef (round v))

/-- Go `int` arithmetic is 64-bit two's complement: wrap a mathematical integer into that range.
    (Only matters once an implementation-defined `int(NaN)` = `indef` flows into an aggregate.) -/
def wrap64 (n : Int) : Int := (n + 2^63) % 2^64 - 2^63

def sumInts (vs : List Int) : Int := vs.foldl (fun a b => wrap64 (a + b)) 0

/-- the `switch` of `FunctionSpeedCurve.Evaluate` over the member values. -/
def evalFn (indef : Int) (ty : String) (vs : List Int) : Res Int :=
  if ty = "sum" then
    .ok (toInt indef (fmin (ofInt 255) (ofInt (sumInts vs))))
  else if ty = "difference" then
    let d := match vs with
      | [] => 0
      | v :: rest => rest.foldl (fun a b => wrap64 (a - b)) v
    .ok (toInt indef (fmax (ofInt 0) (ofInt d)))
  else if ty = "delta" then
    match vs with
    | [] => .panic "index-out-of-range"
    | v0 :: _ =>
      let (dmin, dmax) := vs.foldl (fun (acc : F64 × F64) v =>
        (fmin acc.1 (ofInt v), fmax acc.2 (ofInt v))) (ofInt v0, ofInt v0)
      .ok (toInt indef (dmax - dmin))
  else if ty = "minimum" then
    .ok (toInt indef (vs.foldl (fun acc v => fmin acc (ofInt v)) (ofInt 255)))
  else if ty = "maximum" then
    .ok (toInt indef (vs.foldl (fun acc v => fmax acc (ofInt v)) (ofInt 0)))
  else if ty = "average" then
    if vs.length = 0 then .panic "integer-divide-by-zero"
    else .ok (Int.tdiv (sumInts vs) vs.length)
  else .panic "fatal"

mutual
/-- `SpeedCurve.Evaluate()` of the curve `id`. Returns the updated table (curve `Value`s and PID
    memories are mutated by evaluation) and the outcome. `fuel` bounds the recursion depth; the Go
    code has no bound (it recurses forever on a cyclic table). -/
def evalCurve (indef : Int) (sensors : SensorTable) (now : Int) :
    Nat → CurveTable → String → CurveTable × Res Int
  | 0, tbl, _ => (tbl, .panic "out-of-fuel")
  | fuel + 1, tbl, id =>
    match tbl.get? id with
    | none => (tbl, .panic "nil-curve")
    | some c =>
      match c.cfg with
      | .linear sensor mn mx steps =>
        match sensors.get? sensor with
        | none => (tbl, .panic "nil-sensor")
        | some sv =>
          let r : Res Int := match steps with
            | some st => linSteps indef sv.avg st
            | none => .ok (linMinMax indef sv.avg mn mx)
          match r with
          | .ok v => (tbl.set { c with value := v }, .ok v)
          | e => (tbl, e)
      | .pid sensor setPoint =>
        match sensors.get? sensor with
        | none => (tbl, .panic "nil-sensor")
        | some sv =>
          match sv.value with
          | .ok measured =>
            let (st', loopValue) := pidLoop c.pid setPoint (measured / ofRat 1000) now
            let lv := coerce loopValue (ofInt 0) (ofInt 1)
            let v := toInt indef (lv * ofInt 255)
            (tbl.set { c with value := v, pid := st' }, .ok v)
          | .err e => (tbl, .err e)
          | .panic s => (tbl, .panic s)
      | .function ty members =>
        match evalMembers indef sensors now fuel tbl members with
        | (tbl', .ok vs) =>
          match evalFn indef ty vs with
          | .ok v =>
            -- `c` may have been re-evaluated below only on a cyclic table; re-read it
            let c' := (tbl'.get? id).getD c
            (tbl'.set { c' with value := v }, .ok v)
          | .err e => (tbl', .err e)
          | .panic s => (tbl', .panic s)
        | (tbl', .err e) => (tbl', .err e)
        | (tbl', .panic s) => (tbl', .panic s)

def evalMembers (indef : Int) (sensors : SensorTable) (now : Int) :
    Nat → CurveTable → List String → CurveTable × Res (List Int)
  | _, tbl, [] => (tbl, .ok [])
  | fuel, tbl, m :: ms =>
    match evalCurve indef sensors now fuel tbl m with
    | (tbl', .ok v) =>
      match evalMembers indef sensors now fuel tbl' ms with
      | (tbl'', .ok vs) => (tbl'', .ok (v :: vs))
      | r => r
    | (tbl', .err e) => (tbl', .err e)
    | (tbl', .panic s) => (tbl', .panic s)
end

end Fan2go
