/-
  Model of `util.CheckFilePermissionsForExecution` (internal/util/file.go:16-50) and of the
  configuration-file rule in `configuration.validateConfig` (internal/configuration/validation.go:16-35),
  branch by branch. Core Lean only.

  External calls are explicit inputs:
  * `filepath.EvalSymlinks(filePath)`  ↦ `EvalRes`  (did resolution succeed?)
  * `os.Stat(<RESOLVED path>)`         ↦ `StatRes`  (the stat record is that of the resolved file –
    the signature has no way to look at the link itself: this is how "after resolving symlinks" is expressed).
-/
import Fan2go.Model.Util
namespace Fan2go

/-- The three fields of `syscall.Stat_t` / `os.FileMode` the Go code looks at.
    `mode` is `info.Mode()` as a number; only its bits `0o020` and `0o002` are ever inspected
    (the permission bits of an `os.FileMode` are its low 9 bits, same layout as `st_mode`). -/
structure Stat where
  uid : Nat
  gid : Nat
  mode : Nat
  deriving Repr, DecidableEq, Inhabited

/-- outcome of `os.Stat(file)` -/
inductive StatRes where
  /-- `os.IsNotExist(err)` -/
  | notExist
  /-- `err != nil` but not a not-exist error (EACCES on a directory, ELOOP / ENOTDIR after the file was swapped, EIO, ...) -/
  | otherErr
  | ok (s : Stat)
  deriving Repr, DecidableEq, Inhabited

/-- outcome of `filepath.EvalSymlinks(file)` (the resolved name itself is irrelevant to the model) -/
inductive EvalRes where
  | err
  | resolved
  deriving Repr, DecidableEq, Inhabited

deriving instance DecidableEq for Except

abbrev PermOut := Res (Except String Unit)

/-- `util.CheckFilePermissionsForExecution(filePath)`.
    `.ok (.ok ())` ⇔ Go returns `(true, nil)`; `.ok (.error msg)` ⇔ `(false, errors.New(msg))`;
    (before fix fc39d65 a non-not-exist stat error left `info == nil` and `info.Sys()` panicked). -/
def checkPerm (ev : EvalRes) (st : StatRes) : PermOut :=
  match ev with
  | .err => .ok (.error "evalsymlinks")                       -- if err != nil { return false, err }
  | .resolved =>
    match st with
    | .notExist => .ok (.error "file not found")               -- if os.IsNotExist(err)
    | .otherErr => .ok (.error "stat")                         -- if err != nil { return false, err }  (fix fc39d65)
    | .ok s =>
      if s.uid ≠ 0 then .ok (.error "owner is not root")
      else if s.gid ≠ 0 ∧ s.mode &&& 0o020 ≠ 0 then
        .ok (.error "group is not root but has write permission")
      else if s.mode &&& 0o002 ≠ 0 then .ok (.error "others have write permission")
      else .ok (.ok ())

/-- The specification predicate of C18: owned by root, not writable by a non-root group,
    not writable by others. -/
def allowed (s : Stat) : Prop :=
  s.uid = 0 ∧ (s.gid = 0 ∨ s.mode &&& 0o020 = 0) ∧ s.mode &&& 0o002 = 0

instance (s : Stat) : Decidable (allowed s) := by unfold allowed; exact inferInstance

/-- "the check passed" -/
def PermOut.passed (p : PermOut) : Bool :=
  match p with
  | .ok (.ok ()) => true
  | _ => false

/-! ### configuration-file rule -/

/-- what `containsCmdSensors()` / `containsCmdFan()` see of the configuration -/
structure CfgView where
  hasCmdSensor : Bool
  hasCmdFan : Bool
  deriving Repr, DecidableEq, Inhabited

/-- `containsCmdSensors() || containsCmdFan()` -/
def needsPermCheck (c : CfgView) : Bool := c.hasCmdSensor || c.hasCmdFan

/-- `validateConfig(config, path)`.
    `early` = error of `validateSensors` / `validateCurves` (returned before anything else),
    `fansErr` = error of `validateFans` (kept in `err`, returned at the very end unless the
    permission check fails first); `ev`/`st` describe the CONFIG FILE `path`. -/
def validateConfigPerm (early fansErr : Option String) (c : CfgView) (ev : EvalRes) (st : StatRes) : PermOut :=
  match early with
  | some e => .ok (.error e)
  | none =>
    let final : PermOut := match fansErr with
      | some e => .ok (.error e)
      | none => .ok (.ok ())
    if needsPermCheck c then
      match checkPerm ev st with
      | .ok (.ok ()) => final
      | .ok (.error e) => .ok (.error ("config file has invalid permissions: " ++ e))
      | .err e => .err e
      | .panic s => .panic s
    else final

end Fan2go
