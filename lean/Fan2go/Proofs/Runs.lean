/-
  Run-level lemmas (induction over the event list, no bound on its length): the floor never drops,
  the fan's own limits never change, every request is at least every earlier floor, and the raises
  of a run are counted by `minPwmOffset`.
-/
import Fan2go.Proofs.ControllerInv
namespace Fan2go
open F64

theorem step_floor_le (indef : Int) (w : World) (e : Ev) : w.floor ≤ (stepEv indef w e).w.floor := by
  rw [(step_cases indef w e).floor]; omega

theorem step_getMin (indef : Int) (w : World) (e : Ev) : (stepEv indef w e).w.fan.getMin = w.fan.getMin :=
  (step_cases indef w e).getMin

theorem step_getMax (indef : Int) (w : World) (e : Ev) : (stepEv indef w e).w.fan.getMax = w.fan.getMax :=
  (step_cases indef w e).getMax

/-- pre- and post-states of a trace keep the limits and never go below the initial floor -/
theorem run_limits_frame (indef : Int) (es : List Ev) : ∀ (w : World), ∀ x ∈ runEvs indef w es,
    (w.floor ≤ x.1.floor ∧ w.floor ≤ x.2.2.w.floor) ∧
    (x.1.fan.getMin = w.fan.getMin ∧ x.2.2.w.fan.getMin = w.fan.getMin) ∧
    (x.1.fan.getMax = w.fan.getMax ∧ x.2.2.w.fan.getMax = w.fan.getMax) := by
  induction es with
  | nil => intro w x hx; cases hx
  | cons e es ih =>
    intro w x hx
    rw [runEvs_cons] at hx
    rcases List.mem_cons.mp hx with h | h
    · subst h
      exact ⟨⟨le_refl _, step_floor_le indef w e⟩, ⟨rfl, step_getMin indef w e⟩, ⟨rfl, step_getMax indef w e⟩⟩
    · split at h
      · obtain ⟨⟨a1, a2⟩, ⟨b1, b2⟩, ⟨c1, c2⟩⟩ := ih _ x h
        have hf := step_floor_le indef w e
        refine ⟨⟨le_trans hf a1, le_trans hf a2⟩, ⟨?_, ?_⟩, ⟨?_, ?_⟩⟩
        · rw [b1, step_getMin]
        · rw [b2, step_getMin]
        · rw [c1, step_getMax]
        · rw [c2, step_getMax]
      · cases h

theorem run_final_frame (indef : Int) (es : List Ev) : ∀ (w : World),
    w.floor ≤ (runFinal indef w es).floor ∧ (runFinal indef w es).fan.getMin = w.fan.getMin ∧
      (runFinal indef w es).fan.getMax = w.fan.getMax := by
  induction es with
  | nil => intro w; exact ⟨le_refl _, rfl, rfl⟩
  | cons e es ih =>
    intro w
    rw [runFinal]
    have hf := step_floor_le indef w e
    split
    · obtain ⟨a, b, c⟩ := ih (stepEv indef w e).w
      exact ⟨le_trans hf a, by rw [b, step_getMin], by rw [c, step_getMax]⟩
    · exact ⟨hf, step_getMin indef w e, step_getMax indef w e⟩

/-- every request made in a run is at least the floor of the state in which it is made -/
theorem run_requested (indef : Int) (es : List Ev) (w : World) (hinv : Inv w) :
    ∀ x ∈ runEvs indef w es, ∀ t, Obs.requested t ∈ x.2.2.obs →
      x.1.floor ≤ t ∧ t ≤ x.1.fan.getMax ∧ x.2.2.w.floor ≤ t := by
  intro x hx t ht
  obtain ⟨hi, hstep⟩ := run_pre_inv indef es w hinv x hx
  have hc := step_cases indef x.1 x.2.1
  rw [← hstep] at hc
  exact hc.requested hi ht

/-- History form of "the raise is permanent": split the trace at any position; every request at or
    after that position is at least the floor that was in force at that position. -/
theorem run_history (indef : Int) (es : List Ev) : ∀ (w : World), Inv w →
    ∀ (l1 : List (World × Ev × StepOut)) (x : World × Ev × StepOut) (l2 : List (World × Ev × StepOut)),
      runEvs indef w es = l1 ++ x :: l2 →
      ∀ y ∈ x :: l2, ∀ t, Obs.requested t ∈ y.2.2.obs → x.1.floor ≤ t := by
  induction es with
  | nil => intro w _ l1 x l2 h; rw [runEvs] at h; cases l1 <;> cases h
  | cons e es ih =>
    intro w hinv l1 x l2 h y hy t ht
    rw [runEvs_cons] at h
    cases l1 with
    | nil =>
      rw [List.nil_append] at h
      injection h with hx hl2
      have hall : ∀ z ∈ runEvs indef w (e :: es), ∀ t, Obs.requested t ∈ z.2.2.obs → w.floor ≤ t := by
        intro z hz t ht
        have h1 := (run_requested indef (e :: es) w hinv z hz t ht).1
        have h2 := (run_limits_frame indef (e :: es) w z hz).1.1
        omega
      have hy' : y ∈ runEvs indef w (e :: es) := by
        rw [runEvs_cons, hx, hl2]; exact hy
      have := hall y hy' t ht
      rw [← hx]; exact this
    | cons a l1' =>
      rw [List.cons_append] at h
      injection h with _ htl
      split at htl
      · exact ih _ ((step_cases indef w e).inv hinv) l1' x l2 htl y hy t ht
      · cases l1' <;> cases htl

/-- index form of `run_history` -/
theorem run_history_idx (indef : Int) (es : List Ev) (w : World) (hinv : Inv w) (i j : Nat)
    (hij : i ≤ j) (hj : j < (runEvs indef w es).length) (t : Int)
    (ht : Obs.requested t ∈ ((runEvs indef w es)[j]).2.2.obs) :
    ((runEvs indef w es)[i]'(by omega)).1.floor ≤ t := by
  have hi : i < (runEvs indef w es).length := by omega
  have hsplit : runEvs indef w es =
      (runEvs indef w es).take i ++ (runEvs indef w es)[i] :: (runEvs indef w es).drop (i + 1) := by
    rw [← List.drop_eq_getElem_cons hi, List.take_append_drop]
  have hmem : (runEvs indef w es)[j] ∈ (runEvs indef w es)[i] :: (runEvs indef w es).drop (i + 1) := by
    rw [← List.drop_eq_getElem_cons hi]
    have hlen : j - i < ((runEvs indef w es).drop i).length := by rw [List.length_drop]; omega
    have : ((runEvs indef w es).drop i)[j - i] = (runEvs indef w es)[j] := by
      rw [List.getElem_drop]; congr 1; omega
    rw [← this]; exact List.getElem_mem hlen
  exact run_history indef es w hinv _ _ _ hsplit _ hmem t ht

/-! ### counting raises -/

/-- number of stall raises announced in a trace -/
def raisesIn (tr : List (World × Ev × StepOut)) : Nat := (tr.map (fun x => raisesOf x.2.2.obs)).sum

/-- the offset at the end of a run is the initial offset plus the number of raises announced -/
theorem run_offset (indef : Int) (es : List Ev) : ∀ (w : World),
    (runFinal indef w es).ctl.offset = w.ctl.offset + (raisesIn (runEvs indef w es) : Int) := by
  induction es with
  | nil => intro w; simp [runFinal, runEvs, raisesIn]
  | cons e es ih =>
    intro w
    have ho := (step_cases indef w e).offset
    rw [runFinal, runEvs_cons]
    cases hres : (stepEv indef w e).result with
    | ok u =>
      simp only []
      rw [ih, ho]
      simp only [raisesIn, List.map_cons, List.sum_cons]
      push_cast; ring
    | err s =>
      simp only []
      rw [ho]
      simp [raisesIn]
    | panic s =>
      simp only []
      rw [ho]
      simp [raisesIn]

/-- under `Inv` there is room for at most `max − floor` raises in any run -/
theorem run_raises_bounded (indef : Int) (es : List Ev) (w : World) (hinv : Inv w) :
    (raisesIn (runEvs indef w es) : Int) ≤ w.fan.getMax - w.floor := by
  have hfin := run_final_inv indef es w hinv
  obtain ⟨-, hmin, hmax⟩ := run_final_frame indef es w
  have h1 := hfin.floor_le_max
  rw [hmin, hmax, run_offset] at h1
  unfold World.floor; omega

end Fan2go
