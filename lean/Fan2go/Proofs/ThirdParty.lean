/-
  Lemmas about `ensureNoThirdPartyIsMessingWithUs`, `calculateTargetPwm`, `setPwm`, `UpdateFanSpeed`
  (model of controller.go) used by Props/C05.lean and Props/C03.lean.  Core Lean only.
  The control loop is never unfolded: all statements hold for every `LoopSt` and every `indef`.
-/
import Fan2go.Spec.Controller
import Fan2go.Proofs.FindClosest
import Fan2go.Proofs.Restore
namespace Fan2go

/-! ### the PWM map part of the invariant -/

/-- The part of `Inv` that C05 depends on; it is preserved by every controller step because no step
    writes `pwmMap` or `pwmValuesWithDistinctTarget`. -/
def MapInv (c : Ctl) : Prop :=
  ∃ m, c.pwmMap = some m ∧ MapOk m ∧ c.distinct = (extractKeys m).toArray

theorem Inv.mapInv {w : World} (h : Inv w) : MapInv w.ctl := h.map_some

theorem mapGet_mem {m : List (Int × Int)} {k : Int} (h : ∃ v, (k, v) ∈ m) :
    ∃ p ∈ m, mapGet m k = p.2 := by
  obtain ⟨v, hv⟩ := h
  unfold mapGet
  cases hf : m.find? (fun p => p.1 == k) with
  | none =>
    rw [List.find?_eq_none] at hf
    have := hf _ hv
    simp at this
  | some p => exact ⟨p, List.mem_of_find?_eq_some hf, rfl⟩

/-- Under the map invariant `findClosestDistinctTarget` never fails and the mapped value is an output of
    the PWM map. -/
theorem closest_ok_mem {c : Ctl} (h : MapInv c) (t : Int) :
    ∃ k, closestDistinct c t = .ok k ∧ ∃ m, c.pwmMap = some m ∧ ∃ p ∈ m, applyPwmMapping c k = p.2 := by
  obtain ⟨m, hm, hok, hd⟩ := h
  have hne : c.distinct.size ≠ 0 := by
    rw [hd]
    have := extractKeys_ne_nil m hok.1
    simp
    exact this
  obtain ⟨r, hr, i, hi, hri⟩ := findClosest_mem c.distinct t hne
  refine ⟨r, hr, m, hm, ?_⟩
  have hmem : r ∈ extractKeys m := by
    rw [hd] at hi hri
    simp at hi
    rw [← hri]
    simp [hi]
  have := mapGet_mem (extractKeys_sub m r hmem)
  simpa [applyPwmMapping, hm] using this

/-! ### what a step may change -/

/-- `w'` differs from `w` at most in control-loop memory, stall bookkeeping (offset, counters), the
    RPM average / curve data of the fan object. Device, request memory, PWM map and the values
    captured at start-up are the same. -/
structure Keeps (w w' : World) : Prop where
  dev : w'.dev = w.dev
  kind : w'.fan.kind = w.fan.kind
  lastSet : w'.ctl.lastSet = w.ctl.lastSet
  pwmMap : w'.ctl.pwmMap = w.ctl.pwmMap
  distinct : w'.ctl.distinct = w.ctl.distinct
  origMode : w'.ctl.origMode = w.ctl.origMode
  origPwm : w'.ctl.origPwm = w.ctl.origPwm

theorem Keeps.refl (w : World) : Keeps w w := ⟨rfl, rfl, rfl, rfl, rfl, rfl, rfl⟩

theorem Keeps.trans {a b c : World} (h1 : Keeps a b) (h2 : Keeps b c) : Keeps a c :=
  ⟨h2.dev.trans h1.dev, h2.kind.trans h1.kind, h2.lastSet.trans h1.lastSet,
   h2.pwmMap.trans h1.pwmMap, h2.distinct.trans h1.distinct, h2.origMode.trans h1.origMode,
   h2.origPwm.trans h1.origPwm⟩

theorem setRpmAvg_kind (indef : Int) (f : FanSt) (x : F64) : (f.setRpmAvg indef x).kind = f.kind := by
  unfold FanSt.setRpmAvg
  cases h : f.kind <;> simp

theorem closestDistinct_congr {c c' : Ctl} (h : c'.distinct = c.distinct) (t : Int) :
    closestDistinct c' t = closestDistinct c t := by
  simp [closestDistinct, h]

theorem applyPwmMapping_congr {c c' : Ctl} (h : c'.pwmMap = c.pwmMap) (k : Int) :
    applyPwmMapping c' k = applyPwmMapping c k := by
  simp [applyPwmMapping, h]

theorem supports_congr {f f' : FanSt} (h : f'.kind = f.kind) (d : Dev) (x : Feature) :
    supports f' d x = supports f d x := by
  cases x <;> simp [supports, h]

/-! ### `ensureNoThirdPartyIsMessingWithUs` -/

/-- the world after one counted third-party change -/
def bump (w : World) : World :=
  { w with ctl := { w.ctl with unexpectedCount := w.ctl.unexpectedCount + 1 } }

theorem bump_keeps (w : World) : Keeps w (bump w) := ⟨rfl, rfl, rfl, rfl, rfl, rfl, rfl⟩

/-- The four ways `ensureNoThirdPartyIsMessingWithUs` can end. -/
theorem ensure_cases (w : World) :
    ensureNoThirdParty w = .ok (w, []) ∨
    (ensureNoThirdParty w = .ok (bump w, [.thirdParty]) ∧
      ∃ l k, w.ctl.lastSet = some l ∧ closestDistinct w.ctl l = .ok k ∧
        fanGetPwm w.dev = .ok w.dev.pwm ∧ w.dev.pwm ≠ applyPwmMapping w.ctl k) ∨
    (∃ e, ensureNoThirdParty w = .err e) ∨ (∃ s, ensureNoThirdParty w = .panic s) := by
  unfold ensureNoThirdParty
  split
  · exact .inl rfl
  · split
    · rename_i l m hl hm
      split
      · rename_i k hk
        split
        · rename_i cur hcur
          have hc : cur = w.dev.pwm := by
            unfold fanGetPwm at hcur
            cases hr : w.dev.pwmRead <;> simp [hr] at hcur
            exact hcur.symm
          subst hc
          by_cases hne : w.dev.pwm ≠ applyPwmMapping w.ctl k
          · exact .inr (.inl ⟨by simp only []; rw [if_pos hne]; rfl, l, k, hl, hk, hcur, hne⟩)
          · exact .inl (by simp only []; rw [if_neg hne])
        · exact .inl rfl
      · exact .inr (.inr (.inl ⟨_, rfl⟩))
      · exact .inr (.inr (.inr ⟨_, rfl⟩))
    · exact .inl rfl

/-- Exact outcome when the PWM can be read and there is a previous request. -/
theorem ensure_counted {w : World} {l k : Int} (hm : ∃ m, w.ctl.pwmMap = some m)
    (hr : w.dev.pwmRead = .ok) (hl : w.ctl.lastSet = some l) (hk : closestDistinct w.ctl l = .ok k) :
    ensureNoThirdParty w =
      if w.dev.pwm ≠ applyPwmMapping w.ctl k then .ok (bump w, [.thirdParty]) else .ok (w, []) := by
  obtain ⟨m, hm⟩ := hm
  have hs : supports w.fan w.dev .pwmSensor = true := by
    unfold supports
    cases w.fan.kind <;> simp [hr]
  simp [ensureNoThirdParty, hs, hl, hm, hk, fanGetPwm, hr, bump]

/-- No previous request: nothing is compared, nothing is counted. -/
theorem ensure_none {w : World} (hl : w.ctl.lastSet = none) : ensureNoThirdParty w = .ok (w, []) := by
  unfold ensureNoThirdParty
  split
  · rfl
  · simp [hl]

/-- If the register shows what the last request dictates, nothing is counted. -/
theorem ensure_synced {w : World} (hs : Synced w) : ensureNoThirdParty w = .ok (w, []) := by
  rcases ensure_cases w with h | ⟨-, l, k, hl, hk, -, hne⟩ | ⟨e, he⟩ | ⟨s, he⟩
  · exact h
  · obtain ⟨k', hk', hp⟩ := hs l hl
    rw [hk] at hk'
    cases hk'
    exact absurd hp hne
  · exfalso
    unfold ensureNoThirdParty at he
    split at he
    · simp at he
    · split at he
      · rename_i l m hl hm
        obtain ⟨k', hk', -⟩ := hs l hl
        rw [hk'] at he
        simp only at he
        split at he <;> (try split at he) <;> simp at he
      · simp at he
  · exfalso
    unfold ensureNoThirdParty at he
    split at he
    · simp at he
    · split at he
      · rename_i l m hl hm
        obtain ⟨k', hk', -⟩ := hs l hl
        rw [hk'] at he
        simp only at he
        split at he <;> (try split at he) <;> simp at he
      · simp at he

/-! ### `calculateTargetPwm` -/

/-- Structure of `calculateTargetPwm`: an early exit that changes nothing; or the control loop's memory
    is updated (`lp`), the third-party check runs on that world, and the stall branch then changes at
    most stall bookkeeping and appends observations that are not third-party reports. -/
theorem calc_cases (indef : Int) (w : World) (curve : Res Int) (now : Int) :
    ((calculateTargetPwm indef w curve now).1 = w ∧ (calculateTargetPwm indef w curve now).2.2 = [] ∧
        (∀ t, (calculateTargetPwm indef w curve now).2.1 ≠ .ok t) ∧
        ((∀ c, curve ≠ .ok c) ∨ w.ctl.lastSet = none)) ∨
    ∃ lp : LoopSt, ∃ c : Int, curve = .ok c ∧
      (((∀ x, ensureNoThirdParty { w with ctl := { w.ctl with loop := lp } } ≠ .ok x) ∧
        (calculateTargetPwm indef w curve now).1 = { w with ctl := { w.ctl with loop := lp } } ∧
        (calculateTargetPwm indef w curve now).2.2 = [] ∧
        ∀ t, (calculateTargetPwm indef w curve now).2.1 ≠ .ok t) ∨
      ∃ w2 o w3 o', ensureNoThirdParty { w with ctl := { w.ctl with loop := lp } } = .ok (w2, o) ∧
        Keeps w2 w3 ∧ w3.ctl.unexpectedCount = w2.ctl.unexpectedCount ∧
        (calculateTargetPwm indef w curve now).1 = w3 ∧
        (calculateTargetPwm indef w curve now).2.2 = o ++ o' ∧ Obs.thirdParty ∉ o' ∧
        ∀ t, (calculateTargetPwm indef w curve now).2.1 = .ok t → Obs.requested t ∈ o') := by
  generalize hr : calculateTargetPwm indef w curve now = r
  unfold calculateTargetPwm at hr
  simp only [] at hr
  split at hr
  · rename_i e he
    subst hr; left
    refine ⟨rfl, rfl, by simp, .inr ?_⟩
    cases hl : w.ctl.lastSet <;> simp [hl] at he ⊢
  · rename_i e he
    subst hr; left
    refine ⟨rfl, rfl, by simp, .inr ?_⟩
    cases hl : w.ctl.lastSet <;> simp [hl] at he ⊢
  · split at hr
    · subst hr; left; simp
    · subst hr; left; simp
    · rename_i lastSetPwm _ _ cv
      rcases hcy : w.ctl.loop.cycle indef cv lastSetPwm now with ⟨lp, t0⟩
      rw [hcy] at hr
      simp only at hr
      right
      refine ⟨lp, cv, rfl, ?_⟩
      split at hr
      · rename_i e he
        subst hr; left
        exact ⟨by intro x; rw [he]; simp, rfl, rfl, by simp⟩
      · rename_i e he
        subst hr; left
        exact ⟨by intro x; rw [he]; simp, rfl, rfl, by simp⟩
      · rename_i w2 o he
        right
        split at hr
        · split at hr
          · subst hr
            exact ⟨w2, o, w2, _, he, Keeps.refl _, rfl, rfl, rfl, by simp, by simp⟩
          · subst hr
            refine ⟨w2, o, _, _, he, ?_, ?_, rfl, rfl, by simp, by simp⟩
            · exact ⟨rfl, setRpmAvg_kind _ _ _, rfl, rfl, rfl, rfl, rfl⟩
            · rfl
        · subst hr
          exact ⟨w2, o, w2, _, he, Keeps.refl _, rfl, rfl, rfl, by simp, by simp⟩

theorem loop_keeps (w : World) (lp : LoopSt) :
    Keeps w { w with ctl := { w.ctl with loop := lp } } := ⟨rfl, rfl, rfl, rfl, rfl, rfl, rfl⟩

theorem Synced.of_keeps {w w' : World} (h : Keeps w w') (hs : Synced w) : Synced w' := by
  intro l hl
  rw [h.lastSet] at hl
  obtain ⟨k, hk, hp⟩ := hs l hl
  exact ⟨k, by rw [closestDistinct_congr h.distinct]; exact hk,
    by rw [h.dev, applyPwmMapping_congr h.pwmMap]; exact hp⟩

theorem MapInv.of_keeps {w w' : World} (h : Keeps w w') (hm : MapInv w.ctl) : MapInv w'.ctl := by
  obtain ⟨m, h1, h2, h3⟩ := hm
  exact ⟨m, by rw [h.pwmMap]; exact h1, h2, by rw [h.distinct]; exact h3⟩

theorem ensure_ok {w w2 : World} {o : List Obs} (h : ensureNoThirdParty w = .ok (w2, o)) :
    (w2 = w ∧ o = []) ∨ (w2 = bump w ∧ o = [.thirdParty]) := by
  rcases ensure_cases w with h' | ⟨h', -⟩ | ⟨e, h'⟩ | ⟨e, h'⟩ <;> rw [h'] at h <;> simp at h
  · exact .inl ⟨h.1.symm, by simp [h.2]⟩
  · exact .inr ⟨h.1.symm, by simp [h.2]⟩

/-- `calculateTargetPwm` leaves the device, the request memory, the PWM map and the start-up values alone. -/
theorem calc_keeps (indef : Int) (w : World) (curve : Res Int) (now : Int) :
    Keeps w (calculateTargetPwm indef w curve now).1 := by
  rcases calc_cases indef w curve now with ⟨h, -⟩ |
    ⟨lp, c, -, ⟨-, h, -⟩ | ⟨w2, o, w3, o', he, hk, -, h, -⟩⟩
  · rw [h]; exact Keeps.refl w
  · rw [h]; exact loop_keeps w lp
  · rw [h]
    rcases ensure_ok he with ⟨rfl, -⟩ | ⟨rfl, -⟩
    · exact (loop_keeps w lp).trans hk
    · exact ((loop_keeps w lp).trans (bump_keeps _)).trans hk

/-- A computed target is always reported. -/
theorem calc_requested (indef : Int) (w : World) (curve : Res Int) (now : Int) (t : Int)
    (ht : (calculateTargetPwm indef w curve now).2.1 = .ok t) :
    Obs.requested t ∈ (calculateTargetPwm indef w curve now).2.2 := by
  rcases calc_cases indef w curve now with ⟨-, -, h, -⟩ |
    ⟨lp, c, -, ⟨-, -, -, h⟩ | ⟨w2, o, w3, o', he, hk, -, -, ho, -, h⟩⟩
  · exact absurd ht (h t)
  · exact absurd ht (h t)
  · rw [ho]; exact List.mem_append_right _ (h t ht)

/-- Nothing is counted when the register shows what the last request dictates. -/
theorem calc_synced (indef : Int) (w : World) (curve : Res Int) (now : Int) (hs : Synced w) :
    (calculateTargetPwm indef w curve now).1.ctl.unexpectedCount = w.ctl.unexpectedCount ∧
    Obs.thirdParty ∉ (calculateTargetPwm indef w curve now).2.2 := by
  rcases calc_cases indef w curve now with ⟨h, ho, -⟩ |
    ⟨lp, c, -, ⟨-, h, ho, -⟩ | ⟨w2, o, w3, o', he, hk, hc, h, ho, hn, -⟩⟩
  · rw [h, ho]; simp
  · rw [h, ho]; simp
  · rw [ensure_synced (hs.of_keeps (loop_keeps w lp))] at he
    simp only [Res.ok.injEq, Prod.mk.injEq] at he
    obtain ⟨rfl, rfl⟩ := he
    rw [h, ho, hc]
    exact ⟨rfl, by simpa using hn⟩

/-- Nothing is counted before the first request. -/
theorem calc_none (indef : Int) (w : World) (curve : Res Int) (now : Int) (hl : w.ctl.lastSet = none) :
    (calculateTargetPwm indef w curve now).1.ctl.unexpectedCount = w.ctl.unexpectedCount ∧
    Obs.thirdParty ∉ (calculateTargetPwm indef w curve now).2.2 :=
  calc_synced indef w curve now (by intro l h; rw [hl] at h; cases h)

/-- C05: exactly the register differing from the expected value is counted, once. -/
theorem calc_counted (indef : Int) (w : World) (c : Int) (now : Int) {l k : Int}
    (hm : MapInv w.ctl) (hr : w.dev.pwmRead = .ok) (hl : w.ctl.lastSet = some l)
    (hk : closestDistinct w.ctl l = .ok k) :
    (Obs.thirdParty ∈ (calculateTargetPwm indef w (.ok c) now).2.2 ↔ w.dev.pwm ≠ applyPwmMapping w.ctl k) ∧
    (calculateTargetPwm indef w (.ok c) now).1.ctl.unexpectedCount =
      w.ctl.unexpectedCount + (if w.dev.pwm ≠ applyPwmMapping w.ctl k then 1 else 0) := by
  rcases calc_cases indef w (.ok c) now with ⟨-, -, -, h | h⟩ |
    ⟨lp, c', -, ⟨hx, -⟩ | ⟨w2, o, w3, o', he, hkp, hc, h, ho, hn, -⟩⟩
  · exact absurd rfl (h c)
  · rw [hl] at h; cases h
  · exfalso
    have := ensure_counted (w := { w with ctl := { w.ctl with loop := lp } }) (l := l) (k := k)
      (by obtain ⟨m, hm, -⟩ := hm; exact ⟨m, hm⟩) hr hl hk
    split at this <;> exact hx _ this
  · have hec := ensure_counted (w := { w with ctl := { w.ctl with loop := lp } }) (l := l) (k := k)
      (by obtain ⟨m, hm, -⟩ := hm; exact ⟨m, hm⟩) hr hl hk
    rw [he] at hec
    have e1 : applyPwmMapping { w.ctl with loop := lp } k = applyPwmMapping w.ctl k := rfl
    simp only [e1] at hec
    by_cases hne : w.dev.pwm ≠ applyPwmMapping w.ctl k
    · rw [if_pos hne] at hec
      simp only [Res.ok.injEq, Prod.mk.injEq] at hec
      obtain ⟨rfl, rfl⟩ := hec
      rw [h, ho, hc, if_pos hne]
      exact ⟨by simp [hne], rfl⟩
    · rw [if_neg hne] at hec
      simp only [Res.ok.injEq, Prod.mk.injEq] at hec
      obtain ⟨rfl, rfl⟩ := hec
      rw [h, ho, hc, if_neg hne]
      exact ⟨by simpa [hne] using hn, by simp⟩

/-! ### `trySetManualPwm`, `setPwm`, `UpdateFanSpeed` -/

theorem setPwmEnabled_obs (f : FanSt) (d : Dev) (v : Int) :
    ∀ x ∈ (setPwmEnabled f d v).2.2, ∃ b, x = Obs.wroteMode v b := by
  unfold setPwmEnabled
  cases f.kind <;> cases d.modeWrite <;> simp [apply_ite Prod.snd]

theorem trySetManual_obs (f : FanSt) (d : Dev) :
    ∀ x ∈ (trySetManualPwm f d).2.2, ∃ m b, x = Obs.wroteMode m b := by
  unfold trySetManualPwm
  split
  · simp
  · have h1 := setPwmEnabled_obs f d 1
    rcases hsp : setPwmEnabled f d 1 with ⟨d', r, o⟩
    rw [hsp] at h1
    have h0 := setPwmEnabled_obs f d' 0
    cases r <;> simp only [] <;> intro x hx
    · obtain ⟨b, hb⟩ := h1 x hx; exact ⟨_, b, hb⟩
    all_goals
      simp only [List.mem_append] at hx
      rcases hx with hx | hx
      · obtain ⟨b, hb⟩ := h1 x hx; exact ⟨_, b, hb⟩
      · obtain ⟨b, hb⟩ := h0 x hx; exact ⟨_, b, hb⟩

/-- `trySetManualPwm` touches at most the mode register. -/
theorem trySetManual_dev (f : FanSt) (d : Dev) : ∃ m, (trySetManualPwm f d).1 = { d with mode := m } := by
  unfold trySetManualPwm
  split
  · exact ⟨d.mode, rfl⟩
  · rcases hsp : setPwmEnabled f d 1 with ⟨d', r, o⟩
    have h1 := setPwmEnabled_dev f d 1
    rw [hsp] at h1
    simp only at h1
    have h0 := setPwmEnabled_dev f d' 0
    cases r <;> simp only []
    · rcases h1 with rfl | rfl
      · exact ⟨d'.mode, rfl⟩
      · exact ⟨1, rfl⟩
    all_goals
      rcases h0 with h0 | h0 <;> rw [h0] <;> rcases h1 with rfl | rfl
      · exact ⟨d'.mode, rfl⟩
      · exact ⟨1, rfl⟩
      · exact ⟨0, rfl⟩
      · exact ⟨0, rfl⟩

/-- With a cooperative driver `trySetManualPwm` puts a mode-capable fan into manual mode. -/
theorem trySetManual_mode {f : FanSt} {d : Dev} (hs : supports f d .controlMode = true)
    (hw : d.modeWrite = .applied) (hr : d.modeRead = .ok) :
    (trySetManualPwm f d).1 = { d with mode := 1 } := by
  have hk : f.kind = .hwmon := by simp [supports] at hs; exact hs.1
  unfold trySetManualPwm
  simp only [hs, setPwmEnabled_applied 1 hk hw hr]
  simp

/-- `setPwm(target)` under the device contract of C05: the register ends at the value the PWM map
    gives for the nearest supported target, and the request is remembered. -/
theorem ctlSetPwm_spec {w : World} (t : Int) (hm : MapInv w.ctl) (hr : w.dev.pwmRead = .ok)
    (hw : w.dev.pwmWrite = .applied)
    (hidem : ∀ m, w.ctl.pwmMap = some m → ∀ p ∈ m, w.dev.resp.apply p.2 = p.2) :
    ∃ k o, closestDistinct w.ctl t = .ok k ∧
      ctlSetPwm w t = ({ w with dev := { w.dev with pwm := applyPwmMapping w.ctl k },
                                ctl := { w.ctl with lastSet := some t } }, .ok (), o) ∧
      ∀ x ∈ o, ∃ v b, x = Obs.wrotePwm v b := by
  obtain ⟨k, hk, m, hmm, p, hp, hpk⟩ := closest_ok_mem hm t
  have hsup : supports w.fan w.dev .pwmSensor = true := by
    unfold supports; cases w.fan.kind <;> simp [hr]
  have hget : fanGetPwm w.dev = .ok w.dev.pwm := by
    simp [fanGetPwm, hr]
  have hsup' : supports w.fan w.dev .pwmSensor = true := hsup
  unfold ctlSetPwm
  simp only [hk, hget, hsup']
  by_cases heq : applyPwmMapping w.ctl k = w.dev.pwm
  · refine ⟨k, [], rfl, ?_, by simp⟩
    simp only [heq, beq_self_eq_true, Bool.and_self, if_true]
  · refine ⟨k, [Obs.wrotePwm (applyPwmMapping w.ctl k) true], rfl, ?_, ?_⟩
    · have : (applyPwmMapping w.ctl k == w.dev.pwm) = false := by simpa using heq
      simp only [this, Bool.and_false, Bool.false_eq_true, if_false]
      rw [fanSetPwm_applied hw, hpk, hidem m hmm p hp]
    · intro x hx; simp at hx; exact ⟨_, _, hx⟩

/-- `UpdateFanSpeed` stops exactly when `calculateTargetPwm` does, without touching the fan. -/
theorem update_stop (indef : Int) (w : World) (curve : Res Int) (now : Int) :
    (∀ e, (calculateTargetPwm indef w curve now).2.1 = .err e →
      updateFanSpeed indef w curve now =
        ((calculateTargetPwm indef w curve now).1, .err e, (calculateTargetPwm indef w curve now).2.2)) ∧
    (∀ s, (calculateTargetPwm indef w curve now).2.1 = .panic s →
      updateFanSpeed indef w curve now =
        ((calculateTargetPwm indef w curve now).1, .panic s, (calculateTargetPwm indef w curve now).2.2)) := by
  unfold updateFanSpeed
  rcases calculateTargetPwm indef w curve now with ⟨w1, r, o⟩
  constructor <;> intro e he <;> simp only at he <;> subst he <;> rfl

/-- One successful control cycle under the device contract of C05. -/
theorem update_spec (indef : Int) (w : World) (curve : Res Int) (now : Int) (hm : MapInv w.ctl)
    (hrb : ReadsBack w) (t : Int) (ht : (calculateTargetPwm indef w curve now).2.1 = .ok t) :
    ∃ k m o', closestDistinct w.ctl t = .ok k ∧
      (supports w.fan w.dev .controlMode = true → m = 1) ∧
      updateFanSpeed indef w curve now =
        ({ (calculateTargetPwm indef w curve now).1 with
            dev := { w.dev with mode := m, pwm := applyPwmMapping w.ctl k },
            ctl := { (calculateTargetPwm indef w curve now).1.ctl with lastSet := some t } },
         .ok (), (calculateTargetPwm indef w curve now).2.2 ++ o') ∧
      Obs.thirdParty ∉ o' := by
  have hk := calc_keeps indef w curve now
  unfold updateFanSpeed
  rcases hc : calculateTargetPwm indef w curve now with ⟨w1, r, o⟩
  rw [hc] at ht hk
  simp only at ht hk
  subst ht
  simp only []
  obtain ⟨m, hmd⟩ := trySetManual_dev w1.fan w1.dev
  have hobs1 := trySetManual_obs w1.fan w1.dev
  have hm1 : supports w.fan w.dev .controlMode = true → m = 1 := by
    intro hs
    have := trySetManual_mode (f := w1.fan) (d := w1.dev)
      (by rw [supports_congr hk.kind, hk.dev]; exact hs) (by rw [hk.dev]; exact hrb.modeWrite)
      (by rw [hk.dev]; exact hrb.modeRead)
    rw [this] at hmd
    have := congrArg Dev.mode hmd
    simpa using this.symm
  rcases htm : trySetManualPwm w1.fan w1.dev with ⟨d', r1, o1⟩
  rw [htm] at hmd hobs1
  simp only at hmd hobs1
  subst hmd
  obtain ⟨k, o2, hck, hset, hobs2⟩ := ctlSetPwm_spec (w := { w1 with dev := { w1.dev with mode := m } }) t
    (show MapInv w1.ctl from hm.of_keeps hk) (by simp [hk.dev, hrb.pwmRead]) (by simp [hk.dev, hrb.pwmWrite])
    (by intro mm hmm; simp only [hk.pwmMap] at hmm; simp only [hk.dev]; exact hrb.idem mm hmm)
  simp only [hset]
  refine ⟨k, m, o1 ++ o2, ?_, hm1, ?_, ?_⟩
  · rw [← closestDistinct_congr hk.distinct]; exact hck
  · simp only [hk.dev, applyPwmMapping_congr hk.pwmMap, List.append_assoc]
  · intro hmem
    simp only [List.mem_append] at hmem
    rcases hmem with h | h
    · obtain ⟨_, _, h⟩ := hobs1 _ h; cases h
    · obtain ⟨_, _, h⟩ := hobs2 _ h; cases h

/-- `UpdateFanSpeed` returns an error only when `calculateTargetPwm` did (a failed PWM write is only
    logged); the world is then the one `calculateTargetPwm` left: the fan was not touched. -/
theorem update_err_inv {indef : Int} {w : World} {curve : Res Int} {now : Int} {w' : World} {e : String}
    {obs : List Obs} (h : updateFanSpeed indef w curve now = (w', .err e, obs)) :
    calculateTargetPwm indef w curve now = (w', .err e, obs) := by
  unfold updateFanSpeed at h
  rcases hc : calculateTargetPwm indef w curve now with ⟨w1, r, o⟩
  rw [hc] at h
  cases r with
  | err e' => simpa using h
  | panic s => simp at h
  | ok t =>
    simp only at h
    split at h <;> simp at h

/-- Shape of every successful control cycle under the device contract of C05. -/
theorem update_ok {indef : Int} {w : World} {curve : Res Int} {now : Int} {w' : World} {obs : List Obs}
    (hm : MapInv w.ctl) (hrb : ReadsBack w)
    (h : updateFanSpeed indef w curve now = (w', .ok (), obs)) :
    ∃ t k m o', (calculateTargetPwm indef w curve now).2.1 = .ok t ∧
      closestDistinct w.ctl t = .ok k ∧ (supports w.fan w.dev .controlMode = true → m = 1) ∧
      w' = { (calculateTargetPwm indef w curve now).1 with
            dev := { w.dev with mode := m, pwm := applyPwmMapping w.ctl k },
            ctl := { (calculateTargetPwm indef w curve now).1.ctl with lastSet := some t } } ∧
      obs = (calculateTargetPwm indef w curve now).2.2 ++ o' ∧ Obs.thirdParty ∉ o' := by
  cases hr : (calculateTargetPwm indef w curve now).2.1 with
  | err e => rw [(update_stop indef w curve now).1 e hr] at h; simp at h
  | panic s => rw [(update_stop indef w curve now).2 s hr] at h; simp at h
  | ok t =>
    obtain ⟨k, m, o', hk, hm1, hu, hn⟩ := update_spec indef w curve now hm hrb t hr
    rw [hu] at h
    simp only [Prod.mk.injEq, true_and] at h
    exact ⟨t, k, m, o', rfl, hk, hm1, h.1.symm, h.2.symm, hn⟩

/-- The conditions under which C05 speaks: PWM map installed, cooperative device, register in sync. -/
structure Good (w : World) : Prop where
  map : MapInv w.ctl
  rb : ReadsBack w
  synced : Synced w

/-- A successful cycle re-establishes `Synced` (from ANY register contents), keeps the device
    contract (no fault switch and no PWM-map entry is touched) and the PWM map. -/
theorem update_ok_good {indef : Int} {w : World} {curve : Res Int} {now : Int} {w' : World}
    {obs : List Obs} (hm : MapInv w.ctl) (hrb : ReadsBack w)
    (h : updateFanSpeed indef w curve now = (w', .ok (), obs)) : Good w' := by
  obtain ⟨t, k, m, o', -, hk, -, rfl, -, -⟩ := update_ok hm hrb h
  have hkp := calc_keeps indef w curve now
  refine ⟨?_, ?_, ?_⟩
  · obtain ⟨mm, h1, h2, h3⟩ := hm.of_keeps hkp
    exact ⟨mm, h1, h2, h3⟩
  · exact ⟨hrb.pwmRead, hrb.pwmWrite, hrb.modeRead, hrb.modeWrite, by
      intro mm hmm; exact hrb.idem mm (by rw [← hkp.pwmMap]; exact hmm)⟩
  · intro l hl
    simp only [Option.some.injEq] at hl
    subst hl
    exact ⟨k, by rw [← hk]; exact closestDistinct_congr hkp.distinct _,
      by simp only; exact (applyPwmMapping_congr hkp.pwmMap k).symm⟩

theorem measureRpm_dev_ctl (indef : Int) (w : World) :
    (measureRpm indef w).dev = w.dev ∧ (measureRpm indef w).ctl = w.ctl := ⟨rfl, rfl⟩

theorem poll_good {indef : Int} {w : World} (h : Good w) : Good (measureRpm indef w) := by
  obtain ⟨hd, hc⟩ := measureRpm_dev_ctl indef w
  refine ⟨by rw [hc]; exact h.map, ⟨?_, ?_, ?_, ?_, ?_⟩, ?_⟩
  · rw [hd]; exact h.rb.pwmRead
  · rw [hd]; exact h.rb.pwmWrite
  · rw [hd]; exact h.rb.modeRead
  · rw [hd]; exact h.rb.modeWrite
  · rw [hd, hc]; exact h.rb.idem
  · intro l hl; rw [hc] at hl; rw [hc, hd]; exact h.synced l hl

/-- One event that is a cycle or a poll, from a good state: nothing is counted, no third-party report
    is emitted, and if regulation continues the state is good again. -/
theorem step_good {indef : Int} {w : World} (h : Good w) (e : Ev) (he : ∀ d, e ≠ .env d) :
    (stepEv indef w e).w.ctl.unexpectedCount = w.ctl.unexpectedCount ∧
    Obs.thirdParty ∉ (stepEv indef w e).obs ∧
    ((stepEv indef w e).result = .ok () → Good (stepEv indef w e).w) := by
  cases e with
  | env d => exact absurd rfl (he d)
  | poll =>
    refine ⟨?_, by simp [stepEv], fun _ => poll_good h⟩
    simp [stepEv, (measureRpm_dev_ctl indef w).2]
  | cycle curve now =>
    obtain ⟨hc, hn⟩ := calc_synced indef w curve now h.synced
    rcases hu : updateFanSpeed indef w curve now with ⟨w', r, obs⟩
    simp only [stepEv, hu]
    cases r with
    | ok u =>
      obtain ⟨t, k, m, o', -, -, -, rfl, rfl, hn'⟩ := update_ok h.map h.rb hu
      refine ⟨hc, ?_, fun _ => update_ok_good h.map h.rb hu⟩
      simp only [List.mem_append, not_or]; exact ⟨hn, hn'⟩
    | err e =>
      have hne : ∀ t, (calculateTargetPwm indef w curve now).2.1 ≠ .ok t := by
        intro t ht
        obtain ⟨k, m, o', -, -, hu', -⟩ := update_spec indef w curve now h.map h.rb t ht
        rw [hu] at hu'; simp at hu'
      cases hr : (calculateTargetPwm indef w curve now).2.1 with
      | ok t => exact absurd hr (hne t)
      | err e' =>
        rw [(update_stop indef w curve now).1 e' hr] at hu
        simp only [Prod.mk.injEq] at hu
        obtain ⟨rfl, -, rfl⟩ := hu
        exact ⟨hc, hn, by simp⟩
      | panic s =>
        rw [(update_stop indef w curve now).2 s hr] at hu
        simp at hu
    | panic s =>
      cases hr : (calculateTargetPwm indef w curve now).2.1 with
      | ok t =>
        obtain ⟨k, m, o', -, -, hu', -⟩ := update_spec indef w curve now h.map h.rb t hr
        rw [hu] at hu'; simp at hu'
      | err e' =>
        rw [(update_stop indef w curve now).1 e' hr] at hu
        simp at hu
      | panic s' =>
        rw [(update_stop indef w curve now).2 s' hr] at hu
        simp only [Prod.mk.injEq] at hu
        obtain ⟨rfl, -, rfl⟩ := hu
        exact ⟨hc, hn, by simp⟩

/-- C05, run form: along any run of cycles and polls from a good state the counter never moves and no
    third-party report is ever emitted. Induction over the event list. -/
theorem run_good (indef : Int) : ∀ (es : List Ev) (w : World), Good w → (∀ e ∈ es, ∀ d, e ≠ .env d) →
    (runFinal indef w es).ctl.unexpectedCount = w.ctl.unexpectedCount ∧
    ∀ x ∈ runEvs indef w es, Obs.thirdParty ∉ x.2.2.obs
  | [], w, _, _ => ⟨rfl, by simp [runEvs]⟩
  | e :: es, w, hg, hes => by
    obtain ⟨hc, hn, hgood⟩ := step_good (indef := indef) hg e (hes e (List.mem_cons_self ..))
    unfold runFinal runEvs
    simp only
    cases hr : (stepEv indef w e).result with
    | ok u =>
      cases u
      obtain ⟨ih1, ih2⟩ := run_good indef es _ (hgood hr)
        (fun e' he' => hes e' (List.mem_cons_of_mem _ he'))
      refine ⟨by simp only; rw [ih1, hc], ?_⟩
      intro x hx
      simp only [List.mem_cons] at hx
      rcases hx with rfl | hx
      · exact hn
      · exact ih2 x hx
    | err e' => exact ⟨hc, by intro x hx; simp at hx; subst hx; exact hn⟩
    | panic s => exact ⟨hc, by intro x hx; simp at hx; subst hx; exact hn⟩

end Fan2go
