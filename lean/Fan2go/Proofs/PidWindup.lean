/-
  Integral wind-up of the PID loop after ONE huge elapsed time (suspend/resume): the integral jumps
  by `err · T`; the request then stays saturated for a long time.
-/
import Fan2go.Proofs.PidLoop
namespace Fan2go
open F64

/-- `Seconds()` of three hours. -/
theorem seconds_3h : secondsOfNanos 10800000000000 = fin 10800 := by decide +kernel

theorem eps_val' : eps = 1 / 1073741824 := by unfold eps; norm_num

/-- the cycle after the long pause: error 100, elapsed time 3 h. The integral jumps to about
    `100 · 10800 = 1 080 000`, the request saturates. -/
theorem windup_first (indef : Int) {s : PidSt × Int} {last c now : Int} (r : RunSt0 s last)
    (hI0 : |intOf s.1| ≤ 1000) (he : c - s.2 = 100) (hc1 : c ≤ 255)
    (hT : now - last = 10800000000000) :
    RunSt0 (pidClosed indef c s now) now ∧ (pidClosed indef c s now).2 = 255 ∧
    1078999 ≤ intOf (pidClosed indef c s now).1 ∧ intOf (pidClosed indef c s now).1 ≤ 1081001 := by
  have hx0 := r.x0
  have hsec : secondsOfNanos (now - last) = fin 10800 := by rw [hT]; exact seconds_3h
  have hcast : ((c - s.2 : Int) : ℚ) = 100 := by rw [he]; norm_num
  obtain ⟨r', _, ha⟩ := run_step0 indef (t := 10800) r (by omega) hc1 hsec
    (hI0.trans (by norm_num)) (by norm_num) (by rw [hcast]; norm_num [abs_of_pos])
  have hI := abs_le.mp hI0
  have hJ := abs_le.mp ha.Jc
  have hepq : |(errOf s.1 : ℚ)| ≤ 255 := by exact_mod_cast r.ep
  have hep := abs_le.mp hepq
  have hup := ha.up 255 (by norm_num) le_rfl
  have hx0q : (0 : ℚ) ≤ s.2 := by exact_mod_cast hx0
  rw [hcast, eps_val'] at hJ
  rw [hcast, eps_val'] at hup
  unfold uExact at hup
  refine ⟨r', ?_, by linarith, by linarith⟩
  have := hup (by norm_num; linarith)
  have := ha.x1
  omega

/-- a cycle with a huge positive integral at an ordinary tick: the request stays 255, the integral
    decreases by at most 511. -/
theorem windup_next (indef : Int) {s : PidSt × Int} {last c now : Int} (r : RunSt0 s last)
    (hx : s.2 = 255) (hlo : 500000 ≤ intOf s.1) (hhi : intOf s.1 ≤ 1081001)
    (hc0 : 0 ≤ c) (hc1 : c ≤ 255) (h0 : 50000000 ≤ now - last) (h1 : now - last ≤ 2000000000) :
    RunSt0 (pidClosed indef c s now) now ∧ (pidClosed indef c s now).2 = 255 ∧
    intOf s.1 - 511 ≤ intOf (pidClosed indef c s now).1 ∧
    intOf (pidClosed indef c s now).1 ≤ intOf s.1 := by
  obtain ⟨hsec, htick, _⟩ := tickOk_of_seconds h0 h1
  have hI21 : |intOf s.1| ≤ 2 ^ 21 := by rw [abs_le]; constructor <;> linarith
  have hcyc := cycOk_of hc0 hc1 r.x0 r.x1 r.ep hI21 (by linarith [htick.t0]) htick.t1
  obtain ⟨r', _, ha⟩ := run_step0 indef r hc0 hc1 hsec hI21 (by linarith [htick.t0]) hcyc.et
  have he : |((c - s.2 : Int) : ℚ)| ≤ 255 := hcyc.e_abs
  have hepq : |(errOf s.1 : ℚ)| ≤ 255 := by exact_mod_cast r.ep
  have hta : |secOf (now - last)| ≤ 2 := by
    rw [abs_of_nonneg (by linarith [htick.t0])]; exact htick.t1
  have het := abs_le.mp ((abs_mul_le' he hta).trans (by norm_num : (255 : ℚ) * 2 ≤ 510))
  have hD := abs_le.mp (deriv_abs he hepq htick)
  have heb := abs_le.mp he
  have hJ := abs_le.mp ha.Jc
  have hup := ha.up 255 (by norm_num) le_rfl
  have hxq : (s.2 : ℚ) = 255 := by rw [hx]; norm_num
  have hle := ha.Jle (by omega)
  rw [eps_val'] at hJ hup
  unfold uExact at hup
  generalize ((c - s.2 : Int) : ℚ) = e at *
  generalize (1 : ℚ) / 200 * ((e - (errOf s.1 : ℚ)) / secOf (now - last)) = D at *
  generalize e * secOf (now - last) = et at *
  refine ⟨r', ?_, by linarith, hle⟩
  have := hup (by rw [hxq]; norm_num; linarith)
  have := ha.x1
  omega

/-- **wind-up after suspend/resume.** Error 100 (`c = x₀ + 100`), small integral, then ONE clock
    step of three hours followed by ordinary ticks (50 ms .. 2 s each): every one of the next 1001
    requests is 255, whatever the curve value `c ∈ 100..255` is. -/
theorem pid_suspend_windup (indef c : Int) (nows : Nat → Int) (s0 : PidSt × Int)
    (r0 : RunSt0 s0 (nows 0)) (hI0 : |intOf s0.1| ≤ 1000) (he : c - s0.2 = 100) (hc1 : c ≤ 255)
    (hT : nows 1 - nows 0 = 10800000000000)
    (hticks : ∀ k, 1 ≤ k →
      50000000 ≤ nows (k + 1) - nows k ∧ nows (k + 1) - nows k ≤ 2000000000) :
    ∀ k, 1 ≤ k → k ≤ 1001 → (pidRun indef (fun _ => c) nows s0 k).2 = 255 := by
  have hc0 : 0 ≤ c := by have := r0.x0; omega
  have key : ∀ j : Nat, j ≤ 1000 →
      RunSt0 (pidRun indef (fun _ => c) nows s0 (j + 1)) (nows (j + 1)) ∧
      (pidRun indef (fun _ => c) nows s0 (j + 1)).2 = 255 ∧
      1078999 - 511 * (j : ℚ) ≤ intOf (pidRun indef (fun _ => c) nows s0 (j + 1)).1 ∧
      intOf (pidRun indef (fun _ => c) nows s0 (j + 1)).1 ≤ 1081001 := by
    intro j
    induction j with
    | zero =>
      intro _
      obtain ⟨a, b, c', d⟩ := windup_first indef (now := nows 1) r0 hI0 he hc1 hT
      have hs : pidRun indef (fun _ => c) nows s0 (0 + 1) = pidClosed indef c s0 (nows 1) := rfl
      rw [hs]
      exact ⟨a, b, by simpa using c', d⟩
    | succ j ih =>
      intro hj
      obtain ⟨a, b, c', d⟩ := ih (by omega)
      have hjq : (j : ℚ) ≤ 1000 := by exact_mod_cast (by omega : j ≤ 1000)
      obtain ⟨a', b', c'', d'⟩ := windup_next indef (c := c) (now := nows (j + 1 + 1)) a b
        (by linarith) d hc0 hc1 (hticks (j + 1) (by omega)).1 (hticks (j + 1) (by omega)).2
      have hs : pidRun indef (fun _ => c) nows s0 (j + 1 + 1)
          = pidClosed indef c (pidRun indef (fun _ => c) nows s0 (j + 1)) (nows (j + 1 + 1)) := rfl
      rw [hs]
      refine ⟨a', b', ?_, by linarith⟩
      push_cast; linarith
  intro k hk1 hk2
  obtain ⟨j, rfl⟩ : ∃ j, k = j + 1 := ⟨k - 1, by omega⟩
  exact (key j (by omega)).2.1

end Fan2go
