/-
  `waitForFanToSettle` (Model/Analysis.lean `settle`): on integer-valued inputs the float loop is an integer
  loop; on a stable device it ends after 10 polls (RPM below the threshold) or 11 (the first difference, the
  RPM itself, has to leave the window); with threshold 0 it never ends.
-/
import Fan2go.Proofs.Analysis
namespace Fan2go.Analysis
open Fan2go F64

/-- an integer as a float -/
abbrev I (x : Int) : F64 := fin ((x : Int) : ℚ)

theorem lt_I (x y : Int) : lt (I x) (I y) = decide (x < y) := by
  simp only [lt]; congr 1; exact propext Int.cast_lt

theorem gt_I (x y : Int) : gt (I x) (I y) = decide (y < x) := by simp only [gt, lt_I]

theorem abs_I (x : Int) : F64.abs (I x) = I |x| := by
  simp only [F64.abs, I]
  congr 1
  by_cases h : x < 0
  · have : ((x : Int) : ℚ) < 0 := by exact_mod_cast h
    rw [if_pos this, abs_of_neg h]; push_cast; rfl
  · have : ¬ ((x : Int) : ℚ) < 0 := by rw [not_lt]; exact_mod_cast (not_lt.mp h)
    rw [if_neg this, abs_of_nonneg (not_lt.mp h)]

theorem ceil_I (x : Int) : F64.ceil (I x) = I x := by
  simp only [F64.ceil, I]
  congr 1
  have : (-((x : Int) : ℚ)) = ((-x : Int) : ℚ) := by push_cast; rfl
  rw [this]
  have h2 : (((-x : Int) : ℚ)).floor = -x := by
    show ⌊((-x : Int) : ℚ)⌋ = -x
    exact Int.floor_intCast (-x)
  rw [h2]; push_cast; ring

/-- `rolling.Max` on integers -/
def imax : List Int → Int
  | [] => 0
  | x :: rest => rest.foldl max x

theorem windowMax_I (l : List Int) : windowMax (l.map I) = I (imax l) := by
  cases l with
  | nil => simp [windowMax, imax, F64.zero]
  | cons x rest =>
    simp only [List.map_cons, windowMax, imax]
    induction rest generalizing x with
    | nil => rfl
    | cons y r ih =>
      simp only [List.map_cons, List.foldl_cons, gt_I]
      by_cases h : x < y
      · simp only [h, decide_true, if_true]; rw [ih y, max_eq_right (le_of_lt h)]
      · simp only [h, decide_false, Bool.false_eq_true, if_false]; rw [ih x, max_eq_left (not_lt.mp h)]

theorem imax_bound {l : List Int} {B : Int} (hB : 0 ≤ B) (h : ∀ x ∈ l, |x| ≤ B) : |imax l| ≤ B := by
  cases l with
  | nil => simpa [imax] using hB
  | cons x rest =>
    simp only [imax]
    have hx := h x (List.mem_cons_self ..)
    have hr : ∀ y ∈ rest, |y| ≤ B := fun y hy => h y (List.mem_cons_of_mem _ hy)
    clear h
    induction rest generalizing x with
    | nil => simpa using hx
    | cons y r ih =>
      simp only [List.foldl_cons]
      apply ih
      · have := hr y (List.mem_cons_self ..)
        rw [abs_le] at *; constructor <;> [exact le_trans hx.1 (le_max_left _ _); exact max_le hx.2 this.2]
      · exact fun z hz => hr z (List.mem_cons_of_mem _ hz)

/-- the loop of `waitForFanToSettle` on integers -/
def settleI (t : Int) (rd : Nat → Option Int) : Nat → Nat → List Int → Nat → Int → Int → Option Nat
  | 0, n, _, _, _, mx => if mx < t then some n else none
  | fuel + 1, n, win, off, old, mx =>
    if mx < t then some n
    else
      match rd n with
      | none => settleI t rd fuel (n + 1) win off old mx
      | some cur =>
        settleI t rd fuel (n + 1) (win.set off |cur - old|) ((off + 1) % 10) cur (imax (win.set off |cur - old|))

theorem ofInt_I {x : Int} (h : |x| ≤ 2 ^ 53) : ofInt x = I x := b_ofInt x h

/-- integer threshold, integer readings below 2^50: the float loop IS the integer loop -/
theorem settleLoop_sim (t : Int) (rd : Nat → Option Int) (hrd : ∀ n v, rd n = some v → |v| ≤ 2 ^ 50) :
    ∀ (fuel n : Nat) (win : List Int) (off : Nat) (old mx : Int), |old| ≤ 2 ^ 50 →
      (∀ x ∈ win, |x| ≤ 2 ^ 52) →
      settleLoop (I t) rd fuel n (win.map I) off old (I mx) = settleI t rd fuel n win off old mx := by
  intro fuel
  induction fuel with
  | zero => intro n win off old mx _ _; simp [settleLoop, settleI, lt_I]
  | succ fuel ih =>
    intro n win off old mx hold hwin
    rw [settleLoop, settleI, lt_I]
    by_cases hlt : mx < t
    · simp [hlt]
    · simp only [hlt, decide_false, Bool.false_eq_true, if_false]
      cases hr : rd n with
      | none => exact ih (n + 1) win off old mx hold hwin
      | some cur =>
        have hcur := hrd n cur hr
        have hdiff : |cur - old| ≤ 2 ^ 51 := by
          rw [abs_le] at *; constructor <;> omega
        have hd53 : |cur - old| ≤ 2 ^ 53 := le_trans hdiff (by norm_num)
        simp only
        rw [ofInt_I hd53, abs_I, ← List.map_set, windowMax_I, ceil_I]
        apply ih _ _ _ _ _ hcur
        intro x hx
        rcases List.mem_or_eq_of_mem_set hx with h | h
        · exact hwin x h
        · rw [h, abs_abs]; exact le_trans hdiff (by norm_num)

theorem two_mul_I {t : Int} (ht : |t| ≤ 2 ^ 50) : ofInt 2 * I t = I (2 * t) := by
  rw [ofInt_I (by norm_num)]
  exact b_int_mul (by rw [abs_le] at *; constructor <;> omega)

theorem settle_sim (t : Int) (ht : |t| ≤ 2 ^ 50) (rd : Nat → Option Int)
    (hrd : ∀ n v, rd n = some v → |v| ≤ 2 ^ 50) (fuel : Nat) :
    settle (I t) rd fuel = settleI t rd fuel 0 (List.replicate 10 (2 * t)) 0 0 (2 * t) := by
  unfold settle
  rw [two_mul_I ht]
  have : List.replicate 10 (I (2 * t)) = (List.replicate 10 (2 * t)).map I := by simp
  rw [this]
  apply settleLoop_sim t rd hrd
  · norm_num
  · intro x hx
    rw [List.eq_of_mem_replicate hx]
    rw [abs_le] at *; constructor <;> omega

/-- a stable device: the loop is left after 10 polls when the RPM is below the threshold, after 11 otherwise
    (the first difference is the RPM itself: it has to leave the 10-point window) -/
theorem settleI_stable (t r : Int) (ht : 0 < t) (f : Nat) :
    settleI t (fun _ => some r) (f + 11) 0 (List.replicate 10 (2 * t)) 0 0 (2 * t) =
      some (if |r| < t then 10 else 11) := by
  have h0 : |r - 0| = |r| := by simp
  have h1 : |r - r| = 0 := by simp
  have ha : 0 ≤ |r| := abs_nonneg r
  generalize |r| = a at *
  simp only [List.replicate]
  rw [settleI, if_neg (by omega)]
  simp only [h0, List.set, imax, List.foldl, Nat.reduceAdd, Nat.reduceMod]
  rw [settleI, if_neg (by omega)]
  simp only [h1, List.set, imax, List.foldl, Nat.reduceAdd, Nat.reduceMod]
  rw [settleI, if_neg (by omega)]
  simp only [h1, List.set, imax, List.foldl, Nat.reduceAdd, Nat.reduceMod]
  rw [settleI, if_neg (by omega)]
  simp only [h1, List.set, imax, List.foldl, Nat.reduceAdd, Nat.reduceMod]
  rw [settleI, if_neg (by omega)]
  simp only [h1, List.set, imax, List.foldl, Nat.reduceAdd, Nat.reduceMod]
  rw [settleI, if_neg (by omega)]
  simp only [h1, List.set, imax, List.foldl, Nat.reduceAdd, Nat.reduceMod]
  rw [settleI, if_neg (by omega)]
  simp only [h1, List.set, imax, List.foldl, Nat.reduceAdd, Nat.reduceMod]
  rw [settleI, if_neg (by omega)]
  simp only [h1, List.set, imax, List.foldl, Nat.reduceAdd, Nat.reduceMod]
  rw [settleI, if_neg (by omega)]
  simp only [h1, List.set, imax, List.foldl, Nat.reduceAdd, Nat.reduceMod]
  rw [settleI, if_neg (by omega)]
  simp only [h1, List.set, imax, List.foldl, Nat.reduceAdd, Nat.reduceMod]
  by_cases hlt : a < t
  · rw [settleI, if_pos (by omega), if_pos hlt]
  · rw [settleI, if_neg (by omega)]
    simp only [h1, List.set, imax, List.foldl, Nat.reduceAdd, Nat.reduceMod]
    cases f with
    | zero => rw [settleI, if_pos (by omega), if_neg hlt]
    | succ f => rw [settleI, if_pos (by omega), if_neg hlt]

/-- `waitForFanToSettle` terminates on a stable device (integer threshold ≥ 1, as configured: default 10): -/
theorem settle_stable (t r : Int) (ht : 0 < t) (htb : t ≤ 2 ^ 50) (hr : |r| ≤ 2 ^ 50) (f : Nat) :
    settle (I t) (fun _ => some r) (f + 11) = some (if |r| < t then 10 else 11) := by
  rw [settle_sim t (by rw [abs_le]; constructor <;> omega) _ (by intro n v h; simp at h; rw [← h]; exact hr)]
  exact settleI_stable t r ht f

theorem settleI_zero (rd : Nat → Option Int) :
    ∀ (fuel n : Nat) (win : List Int) (off : Nat) (old mx : Int), 0 ≤ mx → (∀ x ∈ win, 0 ≤ x) →
      settleI 0 rd fuel n win off old mx = none := by
  intro fuel
  induction fuel with
  | zero => intro n win off old mx h _; simp [settleI]; omega
  | succ fuel ih =>
    intro n win off old mx h hw
    rw [settleI, if_neg (by omega)]
    cases rd n with
    | none => exact ih _ _ _ _ _ h hw
    | some cur =>
      simp only
      have hw' : ∀ x ∈ win.set off |cur - old|, 0 ≤ x := by
        intro x hx
        rcases List.mem_or_eq_of_mem_set hx with h | h
        · exact hw x h
        · rw [h]; exact abs_nonneg _
      apply ih _ _ _ _ _ _ hw'
      -- the maximum of non-negative values is non-negative
      generalize win.set off |cur - old| = l at hw'
      cases l with
      | nil => simp [imax]
      | cons x rest =>
        simp only [imax]
        have hx := hw' x (List.mem_cons_self ..)
        have hr : ∀ y ∈ rest, 0 ≤ y := fun y hy => hw' y (List.mem_cons_of_mem _ hy)
        clear hw'
        induction rest generalizing x with
        | nil => simpa using hx
        | cons y r ih2 =>
          simp only [List.foldl_cons]
          exact ih2 _ (le_trans hx (le_max_left _ _)) (fun z hz => hr z (List.mem_cons_of_mem _ hz))

/-- with `maxRpmDiffForSettledFan: 0` the wait never ends, whatever the fan does -/
theorem settle_zero_threshold (rd : Nat → Option Int) (hrd : ∀ n v, rd n = some v → |v| ≤ 2 ^ 50) (fuel : Nat) :
    settle (I 0) rd fuel = none := by
  rw [settle_sim 0 (by norm_num) rd hrd]
  exact settleI_zero rd fuel 0 _ 0 0 _ (by norm_num) (by intro x hx; rw [List.eq_of_mem_replicate hx]; norm_num)

/-- an RPM input that cannot be read: `continue` without progress – the wait never ends -/
theorem settle_unreadable (thr : F64) (h : lt (ofInt 2 * thr) thr = false) (fuel : Nat) :
    settle thr (fun _ => none) fuel = none := by
  have key : ∀ (fuel n off : Nat) (win : List F64),
      settleLoop thr (fun _ => none) fuel n win off 0 (ofInt 2 * thr) = none := by
    intro fuel
    induction fuel with
    | zero => intro n off win; simp [settleLoop, h]
    | succ fuel ih =>
      intro n off win
      rw [settleLoop]; simp only [h, Bool.false_eq_true, if_false]; exact ih _ _ _
  exact key fuel 0 0 _

end Fan2go.Analysis
