/- kernel-evaluated exploration tables for Proofs/PidSim.lean (part D); each `decide +kernel`
   evaluates the integer model `simOk`/`simOkU` on a block of starting errors. -/
import Fan2go.Proofs.PidSim
namespace Fan2go

set_option maxRecDepth 100000 in
theorem simTabB_209 : simTabB 209 16 = true := by decide +kernel

set_option maxRecDepth 100000 in
theorem simTabB_225 : simTabB 225 16 = true := by decide +kernel

set_option maxRecDepth 100000 in
theorem simTabB_241 : simTabB 241 15 = true := by decide +kernel

end Fan2go
