/-
  Small operation lemmas about `F64` used by Proofs/{MovingAvg,DirectLoop,FanLimits}.lean:
  the four operations on finite payloads, exactness on small integers, `coerce`, `round`, `toInt`.
-/
import Fan2go.F64.Lemmas
import Fan2go.Model.Util
namespace Fan2go
open F64

/-- `q` is the value of a finite binary64 number. -/
def Fin64 (q : ℚ) : Prop := Rep64 q ∧ |q| < f64Huge

theorem f64Huge_def : f64Huge = pow2 1024 := rfl

theorem fin64_zero : Fin64 0 := ⟨fl64_zero, by rw [abs_zero]; exact pow2_pos _⟩

theorem fin64_neg {q : ℚ} (h : Fin64 q) : Fin64 (-q) := ⟨rep64_neg h.1, by rw [abs_neg]; exact h.2⟩

theorem fin64_intCast {n : Int} (h : |n| ≤ 2 ^ 53) : Fin64 (n : ℚ) :=
  ⟨rep64_intCast n h, lt_of_le_of_lt (intCast_abs_le_pow2_1023 h) pow2_1023_lt_f64Huge⟩

/-! ### the operations on finite payloads -/

theorem b_add_fin (a b : ℚ) : (fin a + fin b : F64) = ofRat (a + b) := rfl

theorem b_sub_fin (a b : ℚ) : (fin a - fin b : F64) = ofRat (a - b) := by
  show F64.add (fin a) (F64.neg (fin b)) = _
  simp only [F64.neg, F64.add, sub_eq_add_neg]

theorem b_mul_fin (a b : ℚ) : (fin a * fin b : F64) = ofRat (a * b) := rfl

theorem b_div_fin (a : ℚ) {b : ℚ} (hb : b ≠ 0) : (fin a / fin b : F64) = ofRat (a / b) := by
  show F64.div (fin a) (fin b) = _
  simp only [F64.div, hb, if_false]

/-- `ofRat` of a value that rounds to something of finite magnitude. -/
theorem b_ofRat_between {x lo hi : ℚ} (hlo : Fin64 lo) (hhi : Fin64 hi) (h1 : lo ≤ x) (h2 : x ≤ hi) :
    ofRat x = fin (fl64 x) ∧ lo ≤ fl64 x ∧ fl64 x ≤ hi := by
  have a1 := le_fl64_of_rep_le hlo.1 h1
  have a2 := fl64_le_of_le_rep hhi.1 h2
  refine ⟨ofRat_fin_of_abs_lt ?_, a1, a2⟩
  have := abs_lt.mp hlo.2
  have := abs_lt.mp hhi.2
  rw [abs_lt]; constructor <;> linarith

theorem b_ofRat_fin64 {q : ℚ} (h : Fin64 q) : ofRat q = fin q := by
  have := ofRat_fin_of_abs_lt (x := q) (by rw [fl64_of_rep h.1]; exact h.2)
  rwa [fl64_of_rep h.1] at this

/-- the three possible shapes of `ofRat x`. -/
theorem b_ofRat_cases (x : ℚ) :
    (ofRat x = inf false ∧ f64Huge ≤ fl64 x) ∨ (ofRat x = inf true ∧ fl64 x ≤ -f64Huge) ∨
      (ofRat x = fin (fl64 x)) := by
  unfold ofRat
  by_cases h1 : f64Huge ≤ fl64 x
  · left; simp [h1]
  · by_cases h2 : fl64 x ≤ -f64Huge
    · right; left; simp [h1, h2]
    · right; right; simp [h1, h2]

/-! ### small integers are exact -/

theorem b_ofInt (n : Int) (h : |n| ≤ 2 ^ 53) : ofInt n = fin (n : ℚ) := ofInt_small h

theorem b_int_add {i j : Int} (h : |i + j| ≤ 2 ^ 53) :
    (fin (i : ℚ) + fin (j : ℚ) : F64) = fin ((i + j : Int) : ℚ) := by
  rw [b_add_fin, ← Int.cast_add]; exact ofRat_intCast h

theorem b_int_sub {i j : Int} (h : |i - j| ≤ 2 ^ 53) :
    (fin (i : ℚ) - fin (j : ℚ) : F64) = fin ((i - j : Int) : ℚ) := by
  rw [b_sub_fin, ← Int.cast_sub]; exact ofRat_intCast h

theorem b_int_mul {i j : Int} (h : |i * j| ≤ 2 ^ 53) :
    (fin (i : ℚ) * fin (j : ℚ) : F64) = fin ((i * j : Int) : ℚ) := by
  rw [b_mul_fin, ← Int.cast_mul]; exact ofRat_intCast h

theorem b_neg_int (i : Int) : F64.neg (fin (i : ℚ)) = fin ((-i : Int) : ℚ) := by
  simp [F64.neg]

/-! ### coerce / round / toInt on integers -/

/-- integer clamp, written the way `util.Coerce` tests. -/
def clampI (v lo hi : Int) : Int := if hi < v then hi else if v < lo then lo else v

theorem b_coerce_int (v lo hi : Int) :
    coerce (fin (v : ℚ)) (fin (lo : ℚ)) (fin (hi : ℚ)) = fin ((clampI v lo hi : Int) : ℚ) := by
  unfold coerce clampI F64.gt F64.lt
  simp only [Int.cast_lt, decide_eq_true_eq]
  split_ifs <;> rfl

theorem clampI_eq (v lo hi : Int) (h : lo ≤ hi) : clampI v lo hi = max lo (min hi v) := by
  unfold clampI; split_ifs <;> omega

theorem b_truncRat_def (q : ℚ) : truncRat q = if 0 ≤ q then ⌊q⌋ else -⌊-q⌋ := rfl

theorem b_truncRat_int (n : Int) : truncRat (n : ℚ) = n := by
  rw [b_truncRat_def]
  split_ifs with h
  · exact Int.floor_intCast n
  · have : (-(n : ℚ)) = ((-n : Int) : ℚ) := by push_cast; rfl
    rw [this, Int.floor_intCast]; omega

theorem b_roundRat_int (n : Int) : roundRat (n : ℚ) = n := by
  unfold roundRat
  split_ifs with h
  · show ⌊(n : ℚ) + 1 / 2⌋ = n
    rw [Int.floor_eq_iff]; constructor <;> linarith
  · show -⌊-(n : ℚ) + 1 / 2⌋ = n
    have : ⌊-(n : ℚ) + 1 / 2⌋ = -n := by
      rw [Int.floor_eq_iff]; push_cast; constructor <;> linarith
    rw [this]; omega

theorem b_round_int (n : Int) : F64.round (fin (n : ℚ)) = fin (n : ℚ) := by
  simp only [F64.round, b_roundRat_int]

theorem b_toInt_int (indef : Int) {n : Int} (h1 : -(2 : Int) ^ 63 ≤ n) (h2 : n < (2 : Int) ^ 63) :
    toInt indef (fin (n : ℚ)) = n := by
  simp only [toInt, b_truncRat_int]
  rw [if_neg]; omega

/-- `toInt` of a finite value whose truncation fits into an `int64`. -/
theorem b_toInt_fin (indef : Int) {q : ℚ} (h1 : -(2 : Int) ^ 63 ≤ truncRat q)
    (h2 : truncRat q < (2 : Int) ^ 63) : toInt indef (fin q) = truncRat q := by
  simp only [toInt]
  rw [if_neg]; omega

theorem b_truncRat_nonneg {q : ℚ} (h : 0 ≤ q) : truncRat q = ⌊q⌋ := by
  rw [b_truncRat_def, if_pos h]

end Fan2go
