/-
  Proofs about `Model/InitLock.lean`: the mutual-exclusion invariant, for any number of processes and
  any program shapes, and the bracket lemma `lock :: mid ++ [unlock]` for unrolled loops.
-/
import Fan2go.Model.InitLock
namespace Fan2go.InitLock

/-! ### `heldAt` step by step -/

theorem heldAt_zero (prog : List Instr) : heldAt prog 0 = false := by
  simp [heldAt]

theorem heldAt_succ (prog : List Instr) (pc : Nat) (i : Instr) (h : prog[pc]? = some i) :
    heldAt prog (pc + 1) = holdUpd (heldAt prog pc) i := by
  simp [heldAt, List.take_add_one, h, List.foldl_append]

/-! ### what `covered` says -/

theorem covered_analysing {prog : List Instr} (hc : covered prog = true) (pc : Nat)
    (ha : analysingAt prog pc = true) : heldAt prog pc = true := by
  have hle : pc ≤ prog.length := by
    apply Decidable.byContradiction
    intro hn
    have hn : prog.length ≤ pc := by omega
    simp [analysingAt, unfinished, List.drop_eq_nil_of_le hn] at ha
  have := (List.all_eq_true.mp hc) pc (List.mem_range.mpr (by omega))
  simp [ha] at this
  exact this.1

theorem covered_unlock {prog : List Instr} (hc : covered prog = true) (pc : Nat)
    (hu : prog[pc]? = some Instr.unlock) : heldAt prog pc = true := by
  have hlt : pc < prog.length := by
    rcases List.getElem?_eq_some_iff.mp hu with ⟨h, _⟩
    exact h
  have := (List.all_eq_true.mp hc) pc (List.mem_range.mpr (by omega))
  simp [hu] at this
  exact this.2

/-! ### the invariant -/

/-- a process that (by its program text) holds the mutex finds it locked, and is the only such process -/
def Inv {ι : Type} (progs : ι → List Instr) (s : State ι) : Prop :=
  ∀ p, heldAt (progs p) (s.pc p) = true →
    s.locked = true ∧ ∀ q, heldAt (progs q) (s.pc q) = true → q = p

theorem inv_init {ι : Type} (progs : ι → List Instr) : Inv progs (State.init : State ι) := by
  intro p h
  simp [State.init, heldAt_zero] at h

theorem bump_self {ι : Type} [DecidableEq ι] (s : State ι) (p : ι) : bump s p p = s.pc p + 1 := by
  simp [bump]

theorem bump_other {ι : Type} [DecidableEq ι] (s : State ι) (p q : ι) (h : q ≠ p) : bump s p q = s.pc q := by
  simp [bump, h]

theorem inv_step {ι : Type} [DecidableEq ι] (progs : ι → List Instr)
    (hc : ∀ p, covered (progs p) = true) (s s' : State ι) (p : ι)
    (hinv : Inv progs s) (hs : step1 progs s p = some s') : Inv progs s' := by
  unfold step1 at hs
  cases hi : (progs p)[s.pc p]? with
  | none => simp [hi] at hs
  | some i =>
    have hsucc := heldAt_succ (progs p) (s.pc p) i hi
    -- nobody holds the mutex when it is free
    have free_none : s.locked = false → ∀ q, heldAt (progs q) (s.pc q) = false := by
      intro hl q
      cases hq : heldAt (progs q) (s.pc q) with
      | false => rfl
      | true => have := (hinv q hq).1; simp [hl] at this
    cases i with
    | lock =>
      simp only [hi] at hs
      cases hl : s.locked with
      | true => simp [hl] at hs
      | false =>
        simp [hl] at hs
        subst hs
        have hnone := free_none hl
        -- afterwards only p holds
        have only : ∀ q, heldAt (progs q) (bump s p q) = true → q = p := by
          intro q hq
          apply Decidable.byContradiction
          intro hne
          rw [bump_other s p q hne, hnone q] at hq
          exact Bool.noConfusion hq
        intro r hr
        have hrp := only r hr
        subst hrp
        exact ⟨rfl, fun q hq => only q hq⟩
    | unlock =>
      simp only [hi] at hs
      cases hl : s.locked with
      | false => simp [hl] at hs
      | true =>
        simp [hl] at hs
        subst hs
        have hheld : heldAt (progs p) (s.pc p) = true := covered_unlock (hc p) _ hi
        have huniq := (hinv p hheld).2
        -- afterwards nobody holds
        intro r hr
        exfalso
        by_cases hrp : r = p
        · subst hrp
          simp only [bump_self] at hr
          rw [hsucc] at hr
          simp [holdUpd] at hr
        · simp only [bump_other s p r hrp] at hr
          exact hrp (huniq r hr)
    | sweepStep | measureStep | other =>
      simp only [hi] at hs
      simp at hs
      subst hs
      -- `heldAt` of every process is unchanged
      have same : ∀ q, heldAt (progs q) (bump s p q) = heldAt (progs q) (s.pc q) := by
        intro q
        by_cases hqp : q = p
        · subst hqp
          rw [bump_self, hsucc]
          simp [holdUpd]
        · rw [bump_other s p q hqp]
      intro r hr
      simp only [same] at hr
      obtain ⟨h1, h2⟩ := hinv r hr
      refine ⟨h1, ?_⟩
      intro q hq
      simp only [same] at hq
      exact h2 q hq

theorem inv_exec {ι : Type} [DecidableEq ι] (progs : ι → List Instr)
    (hc : ∀ p, covered (progs p) = true) (sched : List ι) :
    ∀ s s' : State ι, Inv progs s → exec progs s sched = some s' → Inv progs s' := by
  induction sched with
  | nil =>
    intro s s' hinv he
    simp [exec] at he
    subst he
    exact hinv
  | cons p ps ih =>
    intro s s' hinv he
    unfold exec at he
    cases h1 : step1 progs s p with
    | none => simp [h1] at he
    | some s1 =>
      simp only [h1] at he
      exact ih s1 s' (inv_step progs hc s s1 p hinv h1) he

theorem inv_reachable {ι : Type} [DecidableEq ι] (progs : ι → List Instr)
    (hc : ∀ p, covered (progs p) = true) (s : State ι) (hr : Reachable progs s) : Inv progs s := by
  obtain ⟨sched, he⟩ := hr
  exact inv_exec progs hc sched _ _ (inv_init progs) he

/-- mutual exclusion of the analyses, for any index type and any covered programs -/
theorem exclusion {ι : Type} [DecidableEq ι] (progs : ι → List Instr)
    (hc : ∀ p, covered (progs p) = true) (s : State ι) (hr : Reachable progs s) (p q : ι) (hne : p ≠ q) :
    ¬ (analysing progs s p = true ∧ analysing progs s q = true) := by
  rintro ⟨hp, hq⟩
  have hinv := inv_reachable progs hc s hr
  have h1 := covered_analysing (hc p) _ hp
  have h2 := covered_analysing (hc q) _ hq
  exact hne ((hinv q h2).2 p h1)

/-- every reachable state with somebody analysing has the mutex locked -/
theorem analysing_locked {ι : Type} [DecidableEq ι] (progs : ι → List Instr)
    (hc : ∀ p, covered (progs p) = true) (s : State ι) (hr : Reachable progs s) (p : ι)
    (hp : analysing progs s p = true) : s.locked = true :=
  (inv_reachable progs hc s hr p (covered_analysing (hc p) _ hp)).1

/-! ### the bracket shape `lock :: mid ++ [unlock]` is covered, whatever `mid` (without mutex calls) is -/

theorem foldl_noMutex (xs : List Instr) (h : xs.all (fun i => !i.isMutexOp) = true) (b : Bool) :
    xs.foldl holdUpd b = b := by
  induction xs with
  | nil => rfl
  | cons x xs ih =>
    simp only [List.all_cons, Bool.and_eq_true] at h
    have hx : holdUpd b x = b := by
      cases x <;> simp [Instr.isMutexOp] at h <;> rfl
    simp only [List.foldl_cons, hx]
    exact ih h.2

theorem bracket_held (mid : List Instr) (h : mid.all (fun i => !i.isMutexOp) = true) (pc : Nat)
    (h1 : 1 ≤ pc) (h2 : pc ≤ mid.length + 1) :
    heldAt (Instr.lock :: (mid ++ [Instr.unlock])) pc = true := by
  obtain ⟨n, rfl⟩ : ∃ n, pc = n + 1 := ⟨pc - 1, by omega⟩
  have hn : n ≤ mid.length := by omega
  have htake : List.take n (mid ++ [Instr.unlock]) = List.take n mid := by
    rw [List.take_append_of_le_length hn]
  have hall : (List.take n mid).all (fun i => !i.isMutexOp) = true := by
    rw [List.all_eq_true] at h ⊢
    intro x hx
    exact h x (List.mem_of_mem_take hx)
  simp only [heldAt, List.take_succ_cons, List.foldl_cons, holdUpd, htake]
  exact foldl_noMutex _ hall true

theorem bracket_covered (mid : List Instr) (h : mid.all (fun i => !i.isMutexOp) = true) :
    covered (Instr.lock :: (mid ++ [Instr.unlock])) = true := by
  unfold covered
  rw [List.all_eq_true]
  intro pc hpc
  have hlen : pc ≤ mid.length + 2 := by
    have := List.mem_range.mp hpc
    simp at this
    omega
  by_cases h0 : pc = 0
  · subst h0
    simp [analysingAt, started]
  · by_cases hl : pc ≤ mid.length + 1
    · have := bracket_held mid h pc (by omega) hl
      simp [this]
    · have hpc2 : pc = mid.length + 2 := by omega
      subst hpc2
      have hd : List.drop (mid.length + 2) (Instr.lock :: (mid ++ [Instr.unlock])) = [] := by
        apply List.drop_eq_nil_of_le
        simp
      simp [analysingAt, unfinished, hd]

end Fan2go.InitLock
