/-
  The default PID control loop (internal/util/pid.go, internal/control_loop/pid.go) in the closed loop
  the controller wires on the identity range (fan min 0, max 255).

  1. one cycle on finite binary64 operands = explicit rational values `pidJ`, `pidS` (every `fl64` is
     one rounding), and their distance from the EXACT recurrence
         u = 3/10·e + 1/50·(I + e·t) + 1/200·(e − e_prev)/t ,  x' = clampRound (x + u)
     (`pid_cycle_fin`, `pidJ_close` ≤ 2^-30, `pidS_close` ≤ 2^-31, valid while |I| ≤ 2^21);
  2. the closed loop `pidClosed` / `pidRun`, the abstract step relation `AStep` (exact recurrence with
     slack `eps = 2^-30`), the refinement theorem `pidClosed_refines`, and the no-wind-up invariant
     `AInv` (`AStep.inv`, `pidRun_runSt`).
  Continued in Proofs/PidSettle.lean (rest region, quasi-static region), Proofs/PidWindup.lean
  (suspend/resume), Proofs/PidSim*.lean (validated simulation at the 200 ms tick).
-/
import Fan2go.Proofs.DirectLoop
import Fan2go.Proofs.F64Ops
namespace Fan2go
open F64

/-! ## 1. one cycle of the default PID loop on finite operands -/

theorem pow2_m53 : pow2 (-53) = 1 / 2 ^ 53 := by rw [pow2_def]; norm_num
theorem pow2_m1075_le : pow2 (-1075) ≤ 1 / 2 ^ 100 := by
  have h : pow2 (-1075) ≤ pow2 (-100) := pow2_mono (by norm_num)
  have e : pow2 (-100) = 1 / 2 ^ 100 := by rw [pow2_def]; norm_num
  rw [← e]; exact h

/-- rounding error of one binary64 operation on a value of magnitude at most `M`. -/
theorem fl_close {z y M δ : ℚ} (hz : |z| ≤ M) (hzy : |z - y| ≤ δ) :
    |fl64 z - y| ≤ M / 2 ^ 53 + 1 / 2 ^ 100 + δ := by
  have h1 := fl64_abs_err z
  have h2 : pow2 (-53) * |z| ≤ M / 2 ^ 53 := by
    rw [pow2_m53]
    have : (0 : ℚ) < 1 / 2 ^ 53 := by positivity
    calc 1 / 2 ^ 53 * |z| ≤ 1 / 2 ^ 53 * M := mul_le_mul_of_nonneg_left hz this.le
      _ = M / 2 ^ 53 := by ring
  have h3 := pow2_m1075_le
  have h4 : |fl64 z - y| ≤ |fl64 z - z| + |z - y| := by
    have : fl64 z - y = (fl64 z - z) + (z - y) := by ring
    rw [this]; exact abs_add_le _ _
  linarith

theorem fl_bound {z : ℚ} (n : Nat) (hz : |z| ≤ 2 ^ n) : |fl64 z| ≤ 2 ^ n := by
  rw [← pow2_lit] at hz ⊢
  exact abs_fl64_le_of_abs_le_rep (rep64_pow2 _ (by omega)) hz

theorem ofRat_fin_small {x : ℚ} (n : Nat) (hn : n ≤ 1023) (h : |x| ≤ 2 ^ n) :
    ofRat x = fin (fl64 x) :=
  ofRat_fin_of_abs_le (abs_le_pow2_1023_of_le h (by exact_mod_cast hn))

/-- the default gains as binary64 values. -/
def gP : ℚ := fl64 (3 / 10)
def gI : ℚ := fl64 (1 / 50)
def gD : ℚ := fl64 (1 / 200)

theorem gP_close : |gP - 3 / 10| ≤ 1 / 2 ^ 53 := by
  have := fl_close (z := 3 / 10) (y := 3 / 10) (M := 3 / 10) (δ := 0) (by norm_num [abs_of_pos])
    (by norm_num)
  unfold gP; norm_num at this ⊢; linarith
theorem gI_close : |gI - 1 / 50| ≤ 1 / 2 ^ 57 := by
  have := fl_close (z := 1 / 50) (y := 1 / 50) (M := 1 / 50) (δ := 0) (by norm_num [abs_of_pos])
    (by norm_num)
  unfold gI; norm_num at this ⊢; linarith
theorem gD_close : |gD - 1 / 200| ≤ 1 / 2 ^ 59 := by
  have := fl_close (z := 1 / 200) (y := 1 / 200) (M := 1 / 200) (δ := 0)
    (by norm_num [abs_of_pos]) (by norm_num)
  unfold gD; norm_num at this ⊢; linarith

theorem ofRat_gP : ofRat (3 / 10) = fin gP := ofRat_fin_small 0 (by norm_num) (by norm_num [abs_of_pos])
theorem ofRat_gI : ofRat (1 / 50) = fin gI := ofRat_fin_small 0 (by norm_num) (by norm_num [abs_of_pos])
theorem ofRat_gD : ofRat (1 / 200) = fin gD := ofRat_fin_small 0 (by norm_num) (by norm_num [abs_of_pos])

/-- the new integral as binary64 computes it: `integral + err*dt`. -/
def pidJ (I e t : ℚ) : ℚ := fl64 (I + fl64 (e * t))

/-- the PID output as binary64 computes it: `p*err + i*integral + d*((err - lastErr)/dt)`. -/
def pidOut (e ep J t : ℚ) : ℚ :=
  fl64 (fl64 (fl64 (gP * e) + fl64 (gI * J)) + fl64 (gD * fl64 ((e - ep) / t)))

/-- `float64(current) + result`. -/
def pidS (x e ep J t : ℚ) : ℚ := fl64 (x + pidOut e ep J t)

/-- `int(math.Round(util.Coerce(s, 0, 255)))` on a finite `s`. -/
def clampRound (s : ℚ) : Int := roundRat (if 255 < s then 255 else if s < 0 then 0 else s)

theorem clampRound_range (s : ℚ) : 0 ≤ clampRound s ∧ clampRound s ≤ 255 := by
  unfold clampRound
  split_ifs with h1 h2
  · rw [show (255 : ℚ) = ((255 : Int) : ℚ) by norm_num, roundRat_intCast]; omega
  · rw [show (0 : ℚ) = ((0 : Int) : ℚ) by norm_num, roundRat_intCast]; omega
  · constructor
    · exact le_roundRat_of_intCast_le (by push_cast; linarith)
    · exact roundRat_le_of_le_intCast (by push_cast; linarith)

theorem tail_fin (indef : Int) (s : ℚ) :
    toInt indef (F64.round (coerce (fin s) (ofInt 0) (ofInt 255))) = clampRound s := by
  have hr := clampRound_range s
  unfold clampRound at hr ⊢
  rw [ofInt_zero, ofInt_255]
  unfold coerce
  simp only [gt_fin_fin, lt_fin_fin]
  split_ifs with h1 h2
  · rw [round_fin]; simp only [h1, if_true] at hr ⊢
    exact toInt_intCast indef (by omega) (by omega)
  · rw [round_fin]; simp only [h1, h2, if_true, if_false] at hr ⊢
    exact toInt_intCast indef (by omega) (by omega)
  · rw [round_fin]; simp only [h1, h2, if_false] at hr ⊢
    exact toInt_intCast indef (by omega) (by omega)

theorem abs_mul_le' {a b A B : ℚ} (ha : |a| ≤ A) (hb : |b| ≤ B) : |a * b| ≤ A * B := by
  rw [abs_mul]; exact mul_le_mul ha hb (abs_nonneg _) ((abs_nonneg _).trans ha)

theorem abs_add_le' {a b A B : ℚ} (ha : |a| ≤ A) (hb : |b| ≤ B) : |a + b| ≤ A + B :=
  (abs_add_le a b).trans (add_le_add ha hb)

theorem abs_div_le' {a t A T : ℚ} (ha : |a| ≤ A) (hT : 0 < T) (ht : T ≤ t) : |a / t| ≤ A / T := by
  have htp : 0 < t := lt_of_lt_of_le hT ht
  rw [abs_div, abs_of_pos htp]
  have hA : 0 ≤ A := (abs_nonneg _).trans ha
  calc |a| / t ≤ A / t := div_le_div_of_nonneg_right ha htp.le
    _ ≤ A / T := div_le_div_of_nonneg_left hA hT ht

theorem gP_abs : |gP| ≤ 1 := by
  have := fl_bound (z := 3 / 10) 0 (by norm_num [abs_of_pos]); simpa [gP] using this
theorem gI_abs : |gI| ≤ 1 / 32 := by
  have h : |(1 / 50 : ℚ)| ≤ pow2 (-5) := by rw [pow2_def]; norm_num [abs_of_pos]
  have := abs_fl64_le_of_abs_le_rep (rep64_pow2 (-5) (by norm_num)) h
  rw [pow2_def] at this; norm_num at this; unfold gI; norm_num; exact this
theorem gD_abs : |gD| ≤ 1 / 128 := by
  have h : |(1 / 200 : ℚ)| ≤ pow2 (-7) := by rw [pow2_def]; norm_num [abs_of_pos]
  have := abs_fl64_le_of_abs_le_rep (rep64_pow2 (-7) (by norm_num)) h
  rw [pow2_def] at this; norm_num at this; unfold gD; norm_num; exact this

/-- hypotheses under which a cycle stays in the finite part of binary64. -/
structure CycOk (c x ep : Int) (I t : ℚ) : Prop where
  c0 : 0 ≤ c
  c1 : c ≤ 255
  x0 : 0 ≤ x
  x1 : x ≤ 255
  ep : |ep| ≤ 255
  I : |I| ≤ 2 ^ 21
  t0 : 1 / 32 ≤ t
  et : |((c - x : Int) : ℚ) * t| ≤ 2 ^ 21

section bounds
variable {c x ep : Int} {I t : ℚ} (h : CycOk c x ep I t)
include h

theorem CycOk.e_abs : |((c - x : Int) : ℚ)| ≤ 255 := by
  have : |c - x| ≤ 255 := by rw [abs_le]; constructor <;> linarith [h.c0, h.c1, h.x0, h.x1]
  exact_mod_cast this

theorem CycOk.et_abs : |((c - x : Int) : ℚ) * t| ≤ 2 ^ 21 := h.et

theorem CycOk.J_pre : |I + fl64 (((c - x : Int) : ℚ) * t)| ≤ 2 ^ 22 :=
  (abs_add_le' h.I (fl_bound 21 h.et_abs)).trans (by norm_num)

theorem CycOk.J_abs : |pidJ I ((c - x : Int) : ℚ) t| ≤ 2 ^ 22 := fl_bound 22 h.J_pre

theorem CycOk.d_pre : |(((c - x : Int) : ℚ) - (ep : ℚ)) / t| ≤ 2 ^ 14 := by
  have hep : |(ep : ℚ)| ≤ 255 := by exact_mod_cast h.ep
  have : |((c - x : Int) : ℚ) - (ep : ℚ)| ≤ 255 + 255 := by
    rw [sub_eq_add_neg]; exact abs_add_le' h.e_abs (by rwa [abs_neg])
  exact (abs_div_le' this (by norm_num) h.t0).trans (by norm_num)

theorem CycOk.pe_pre : |gP * ((c - x : Int) : ℚ)| ≤ 2 ^ 8 :=
  (abs_mul_le' gP_abs h.e_abs).trans (by norm_num)

theorem CycOk.iJ_pre : |gI * pidJ I ((c - x : Int) : ℚ) t| ≤ 2 ^ 17 :=
  (abs_mul_le' gI_abs h.J_abs).trans (by norm_num)

theorem CycOk.dD_pre : |gD * fl64 ((((c - x : Int) : ℚ) - (ep : ℚ)) / t)| ≤ 2 ^ 7 :=
  (abs_mul_le' gD_abs (fl_bound 14 h.d_pre)).trans (by norm_num)

theorem CycOk.s1_pre :
    |fl64 (gP * ((c - x : Int) : ℚ)) + fl64 (gI * pidJ I ((c - x : Int) : ℚ) t)| ≤ 2 ^ 18 :=
  (abs_add_le' (fl_bound 8 h.pe_pre) (fl_bound 17 h.iJ_pre)).trans (by norm_num)

theorem CycOk.out_pre :
    |fl64 (fl64 (gP * ((c - x : Int) : ℚ)) + fl64 (gI * pidJ I ((c - x : Int) : ℚ) t)) +
      fl64 (gD * fl64 ((((c - x : Int) : ℚ) - (ep : ℚ)) / t))| ≤ 2 ^ 19 :=
  (abs_add_le' (fl_bound 18 h.s1_pre) (fl_bound 7 h.dD_pre)).trans (by norm_num)

theorem CycOk.out_abs : |pidOut ((c - x : Int) : ℚ) ep (pidJ I ((c - x : Int) : ℚ) t) t| ≤ 2 ^ 19 :=
  fl_bound 19 h.out_pre

theorem CycOk.S_pre :
    |(x : ℚ) + pidOut ((c - x : Int) : ℚ) ep (pidJ I ((c - x : Int) : ℚ) t) t| ≤ 2 ^ 20 := by
  have hx : |(x : ℚ)| ≤ 255 := by
    have : |x| ≤ 255 := by rw [abs_le]; constructor <;> linarith [h.x0, h.x1]
    exact_mod_cast this
  exact (abs_add_le' hx h.out_abs).trans (by norm_num)

end bounds

/-- **One cycle of the default PID loop, all operands finite**: the new memory and the result are
    the rational values `pidJ`, `pidS` (each `fl64` is one binary64 rounding). -/
theorem pid_cycle_fin (indef : Int) (st : PidSt) (c x now last ep : Int) (I t : ℚ)
    (hp : st.p = ofRat (3 / 10)) (hi : st.i = ofRat (1 / 50)) (hd : st.d = ofRat (1 / 200))
    (he : st.error = fin (ep : ℚ)) (hI : st.integral = fin I) (hl : st.lastTime = some last)
    (ht : secondsOfNanos (now - last) = fin t) (h : CycOk c x ep I t) :
    pidCycle indef st c x now =
      ({ st with integral := fin (pidJ I ((c - x : Int) : ℚ) t), error := fin ((c - x : Int) : ℚ),
                 lastTime := some now },
        clampRound (pidS x ((c - x : Int) : ℚ) ep (pidJ I ((c - x : Int) : ℚ) t) t)) := by
  have hcx : |c| ≤ 2 ^ 53 := by rw [abs_le]; constructor <;> linarith [h.c0, h.c1]
  have hxx : |x| ≤ 2 ^ 53 := by rw [abs_le]; constructor <;> linarith [h.x0, h.x1]
  have hcxx : |c - x| ≤ 2 ^ 53 := by rw [abs_le]; constructor <;> linarith [h.c0, h.c1, h.x0, h.x1]
  have ht0 : t ≠ 0 := by linarith [h.t0]
  have herr : (ofInt c - ofInt x : F64) = fin ((c - x : Int) : ℚ) := by
    rw [b_ofInt c hcx, b_ofInt x hxx, b_int_sub hcxx]
  have e1 : (fin ((c - x : Int) : ℚ) * fin t : F64) = fin (fl64 (((c - x : Int) : ℚ) * t)) := by
    rw [mul_fin_fin]; exact ofRat_fin_small 21 (by norm_num) h.et_abs
  have e2 : (fin I + fin (fl64 (((c - x : Int) : ℚ) * t)) : F64) = fin (pidJ I ((c - x : Int) : ℚ) t) := by
    rw [add_fin_fin]; exact ofRat_fin_small 22 (by norm_num) h.J_pre
  have e3 : (fin ((c - x : Int) : ℚ) - fin (ep : ℚ) : F64) = fin (((c - x : Int) : ℚ) - (ep : ℚ)) := by
    have hb : |c - x - ep| ≤ 2 ^ 53 := by
      have := abs_le.mp h.ep
      rw [abs_le]; constructor <;> linarith [h.c0, h.c1, h.x0, h.x1]
    have := b_int_sub (i := c - x) (j := ep) hb
    rw [this]; push_cast; rfl
  have e4 : (fin (((c - x : Int) : ℚ) - (ep : ℚ)) / fin t : F64)
      = fin (fl64 ((((c - x : Int) : ℚ) - (ep : ℚ)) / t)) := by
    rw [div_fin_fin _ ht0]; exact ofRat_fin_small 14 (by norm_num) h.d_pre
  have e5 : (fin gP * fin ((c - x : Int) : ℚ) : F64) = fin (fl64 (gP * ((c - x : Int) : ℚ))) := by
    rw [mul_fin_fin]; exact ofRat_fin_small 8 (by norm_num) h.pe_pre
  have e6 : (fin gI * fin (pidJ I ((c - x : Int) : ℚ) t) : F64)
      = fin (fl64 (gI * pidJ I ((c - x : Int) : ℚ) t)) := by
    rw [mul_fin_fin]; exact ofRat_fin_small 17 (by norm_num) h.iJ_pre
  have e7 : (fin gD * fin (fl64 ((((c - x : Int) : ℚ) - (ep : ℚ)) / t)) : F64)
      = fin (fl64 (gD * fl64 ((((c - x : Int) : ℚ) - (ep : ℚ)) / t))) := by
    rw [mul_fin_fin]; exact ofRat_fin_small 7 (by norm_num) h.dD_pre
  have e8 : (fin (fl64 (gP * ((c - x : Int) : ℚ))) + fin (fl64 (gI * pidJ I ((c - x : Int) : ℚ) t)) : F64)
      = fin (fl64 (fl64 (gP * ((c - x : Int) : ℚ)) + fl64 (gI * pidJ I ((c - x : Int) : ℚ) t))) := by
    rw [add_fin_fin]; exact ofRat_fin_small 18 (by norm_num) h.s1_pre
  have e9 : (fin (fl64 (fl64 (gP * ((c - x : Int) : ℚ)) + fl64 (gI * pidJ I ((c - x : Int) : ℚ) t)))
        + fin (fl64 (gD * fl64 ((((c - x : Int) : ℚ) - (ep : ℚ)) / t))) : F64)
      = fin (pidOut ((c - x : Int) : ℚ) ep (pidJ I ((c - x : Int) : ℚ) t) t) := by
    rw [add_fin_fin]; exact ofRat_fin_small 19 (by norm_num) h.out_pre
  have e10 : (fin (x : ℚ) + fin (pidOut ((c - x : Int) : ℚ) ep (pidJ I ((c - x : Int) : ℚ) t) t) : F64)
      = fin (pidS x ((c - x : Int) : ℚ) ep (pidJ I ((c - x : Int) : ℚ) t) t) := by
    rw [add_fin_fin]; exact ofRat_fin_small 20 (by norm_num) h.S_pre
  have eL : pidLoop st (ofInt c) (ofInt x) now =
      ({ st with integral := fin (pidJ I ((c - x : Int) : ℚ) t), error := fin ((c - x : Int) : ℚ),
                 lastTime := some now },
        fin (pidOut ((c - x : Int) : ℚ) ep (pidJ I ((c - x : Int) : ℚ) t) t)) := by
    unfold pidLoop
    rw [hl]
    simp only [ht, herr, hp, hi, hd, he, hI, ofRat_gP, ofRat_gI, ofRat_gD, e1, e2, e3, e4, e5, e6, e7,
      e8, e9]
  unfold pidCycle
  rw [eL]
  show (_, toInt indef (F64.round (coerce (ofInt x + fin _) (ofInt 0) (ofInt 255)))) = _
  rw [b_ofInt x hxx, e10, tail_fin]

/-! ### distance from the exact (rational) recurrence -/

/-- the PID output in exact arithmetic with the decimal gains, `I` the integral BEFORE this cycle. -/
def uExact (e ep I t : ℚ) : ℚ := 3 / 10 * e + 1 / 50 * (I + e * t) + 1 / 200 * ((e - ep) / t)

theorem pidJ_close {c x ep : Int} {I t : ℚ} (h : CycOk c x ep I t) :
    |pidJ I ((c - x : Int) : ℚ) t - (I + ((c - x : Int) : ℚ) * t)| ≤ 1 / 2 ^ 30 := by
  have d1 := fl_close (y := ((c - x : Int) : ℚ) * t) (δ := 0) h.et_abs (by simp)
  have dJ := fl_close (y := I + ((c - x : Int) : ℚ) * t) h.J_pre
    (δ := 2 ^ 21 / 2 ^ 53 + 1 / 2 ^ 100 + 0)
    (by rw [show I + fl64 (((c - x : Int) : ℚ) * t) - (I + ((c - x : Int) : ℚ) * t)
          = fl64 (((c - x : Int) : ℚ) * t) - ((c - x : Int) : ℚ) * t by ring]; exact d1)
  unfold pidJ
  refine dJ.trans ?_
  norm_num

theorem pidS_close {c x ep : Int} {I t : ℚ} (h : CycOk c x ep I t) :
    |pidS x ((c - x : Int) : ℚ) ep (pidJ I ((c - x : Int) : ℚ) t) t
        - ((x : ℚ) + uExact ((c - x : Int) : ℚ) ep I t)| ≤ 1 / 2 ^ 31 := by
  have heb := h.e_abs
  have hJb := h.J_abs
  have dJ := pidJ_close h
  have b1 := h.pe_pre
  have b2 := h.iJ_pre
  have b3 := h.s1_pre
  have b4 := h.d_pre
  have b5 := h.dD_pre
  have b6 := h.out_pre
  have b7 := h.S_pre
  generalize ((c - x : Int) : ℚ) = e at *
  generalize pidJ I e t = J at *
  -- a = fl (gP e)
  have da : |fl64 (gP * e) - 3 / 10 * e| ≤ 2 ^ 8 / 2 ^ 53 + 1 / 2 ^ 100 + 255 / 2 ^ 53 :=
    fl_close b1 (by
      rw [show gP * e - 3 / 10 * e = (gP - 3 / 10) * e by ring]
      exact (abs_mul_le' gP_close heb).trans (by norm_num))
  -- b = fl (gI J)
  have db : |fl64 (gI * J) - 1 / 50 * (I + e * t)|
      ≤ 2 ^ 17 / 2 ^ 53 + 1 / 2 ^ 100 + (2 ^ 22 / 2 ^ 57 + 1 / 50 * (1 / 2 ^ 30)) :=
    fl_close b2 (by
      rw [show gI * J - 1 / 50 * (I + e * t) = (gI - 1 / 50) * J + 1 / 50 * (J - (I + e * t)) by ring]
      refine abs_add_le' ((abs_mul_le' gI_close hJb).trans (by norm_num)) ?_
      exact (abs_mul_le' (a := 1 / 50) (A := 1 / 50) (by norm_num [abs_of_pos]) dJ))
  -- s1
  have ds1 : |fl64 (fl64 (gP * e) + fl64 (gI * J)) - (3 / 10 * e + 1 / 50 * (I + e * t))|
      ≤ 2 ^ 18 / 2 ^ 53 + 1 / 2 ^ 100 + ((2 ^ 8 / 2 ^ 53 + 1 / 2 ^ 100 + 255 / 2 ^ 53)
          + (2 ^ 17 / 2 ^ 53 + 1 / 2 ^ 100 + (2 ^ 22 / 2 ^ 57 + 1 / 50 * (1 / 2 ^ 30)))) :=
    fl_close b3 (by
      rw [show fl64 (gP * e) + fl64 (gI * J) - (3 / 10 * e + 1 / 50 * (I + e * t))
        = (fl64 (gP * e) - 3 / 10 * e) + (fl64 (gI * J) - 1 / 50 * (I + e * t)) by ring]
      exact abs_add_le' da db)
  -- D
  have dD : |fl64 ((e - (ep : ℚ)) / t) - (e - (ep : ℚ)) / t| ≤ 2 ^ 14 / 2 ^ 53 + 1 / 2 ^ 100 + 0 :=
    fl_close b4 (by simp)
  have hDb : |fl64 ((e - (ep : ℚ)) / t)| ≤ 2 ^ 14 := fl_bound 14 b4
  have dc : |fl64 (gD * fl64 ((e - (ep : ℚ)) / t)) - 1 / 200 * ((e - (ep : ℚ)) / t)|
      ≤ 2 ^ 7 / 2 ^ 53 + 1 / 2 ^ 100 + (2 ^ 14 / 2 ^ 59 + 1 / 200 * (2 ^ 14 / 2 ^ 53 + 1 / 2 ^ 100 + 0)) :=
    fl_close b5 (by
      rw [show gD * fl64 ((e - (ep : ℚ)) / t) - 1 / 200 * ((e - (ep : ℚ)) / t)
          = (gD - 1 / 200) * fl64 ((e - (ep : ℚ)) / t)
            + 1 / 200 * (fl64 ((e - (ep : ℚ)) / t) - (e - (ep : ℚ)) / t) by ring]
      refine abs_add_le' ((abs_mul_le' gD_close hDb).trans (by norm_num)) ?_
      exact (abs_mul_le' (a := 1 / 200) (A := 1 / 200) (by norm_num [abs_of_pos]) dD))
  have dout : |pidOut e ep J t - uExact e ep I t| ≤ 2 ^ 19 / 2 ^ 53 + 1 / 2 ^ 100 +
      ((2 ^ 18 / 2 ^ 53 + 1 / 2 ^ 100 + ((2 ^ 8 / 2 ^ 53 + 1 / 2 ^ 100 + 255 / 2 ^ 53)
          + (2 ^ 17 / 2 ^ 53 + 1 / 2 ^ 100 + (2 ^ 22 / 2 ^ 57 + 1 / 50 * (1 / 2 ^ 30)))))
       + (2 ^ 7 / 2 ^ 53 + 1 / 2 ^ 100 + (2 ^ 14 / 2 ^ 59 + 1 / 200 * (2 ^ 14 / 2 ^ 53 + 1 / 2 ^ 100 + 0)))) := by
    unfold pidOut
    refine fl_close b6 ?_
    unfold uExact
    rw [show fl64 (fl64 (gP * e) + fl64 (gI * J)) + fl64 (gD * fl64 ((e - (ep : ℚ)) / t))
          - (3 / 10 * e + 1 / 50 * (I + e * t) + 1 / 200 * ((e - (ep : ℚ)) / t))
        = (fl64 (fl64 (gP * e) + fl64 (gI * J)) - (3 / 10 * e + 1 / 50 * (I + e * t)))
          + (fl64 (gD * fl64 ((e - (ep : ℚ)) / t)) - 1 / 200 * ((e - (ep : ℚ)) / t)) by ring]
    exact abs_add_le' ds1 dc
  unfold pidS
  refine (fl_close (δ := 1 / 2 ^ 32) b7 (by
    rw [show (x : ℚ) + pidOut e ep J t - ((x : ℚ) + uExact e ep I t)
        = pidOut e ep J t - uExact e ep I t by ring]
    exact dout.trans (by norm_num))).trans ?_
  norm_num

/-! ### `clampRound` as a monotone step function with jumps at the half-integers -/

theorem le_clampRound_iff {n : Int} (h1 : 1 ≤ n) (h2 : n ≤ 255) (s : ℚ) :
    n ≤ clampRound s ↔ (n : ℚ) - 1 / 2 ≤ s := by
  have h1q : (1 : ℚ) ≤ n := by exact_mod_cast h1
  have h2q : (n : ℚ) ≤ 255 := by exact_mod_cast h2
  unfold clampRound
  split_ifs with a b
  · rw [show (255 : ℚ) = ((255 : Int) : ℚ) by norm_num, roundRat_intCast]
    constructor
    · intro _; linarith
    · intro _; exact h2
  · rw [show (0 : ℚ) = ((0 : Int) : ℚ) by norm_num, roundRat_intCast]
    constructor
    · intro h; omega
    · intro h; linarith
  · have hs : 0 ≤ s := not_lt.mp b
    rw [roundRat_def, if_pos hs, Int.le_floor]
    constructor <;> intro h <;> linarith

theorem clampRound_lt_iff {n : Int} (h1 : 1 ≤ n) (h2 : n ≤ 255) (s : ℚ) :
    clampRound s < n ↔ s < (n : ℚ) - 1 / 2 := by
  rw [← not_le, le_clampRound_iff h1 h2, not_le]

/-- a value closer than 1/2 to an integer `x ∈ 0..255` is mapped to `x`. -/
theorem clampRound_eq_of_near {x : Int} (h0 : 0 ≤ x) (h1 : x ≤ 255) {s : ℚ}
    (hl : (x : ℚ) - 1 / 2 ≤ s) (hu : s < (x : ℚ) + 1 / 2) : clampRound s = x := by
  have hr := clampRound_range s
  apply le_antisymm
  · rcases eq_or_lt_of_le h1 with e | l
    · omega
    · have : clampRound s < x + 1 := by
        rw [clampRound_lt_iff (by omega) (by omega)]; push_cast; linarith
      omega
  · rcases eq_or_lt_of_le h0 with e | l
    · omega
    · rw [le_clampRound_iff (by omega) h1]; exact hl

/-- rounding to the PWM value is insensitive to a perturbation `δ` unless the exact value is within
    `δ` of a half-integer. -/
theorem clampRound_stable {s s' δ : ℚ} (h : |s - s'| ≤ δ)
    (hfar : ∀ k : Int, δ < |s' - ((k : ℚ) + 1 / 2)|) : clampRound s = clampRound s' := by
  have hd := abs_le.mp h
  have key : ∀ a b : ℚ, |a - b| ≤ δ → (∀ k : Int, δ < |b - ((k : ℚ) + 1 / 2)|) →
      clampRound a ≤ clampRound b := by
    intro a b hab hb
    by_contra hc
    have hc : clampRound b < clampRound a := not_le.mp hc
    have ra := clampRound_range a
    have rb := clampRound_range b
    set n := clampRound a with hn
    have h1 : 1 ≤ n := by omega
    have ha : (n : ℚ) - 1 / 2 ≤ a := (le_clampRound_iff h1 ra.2 a).mp le_rfl
    have hb' : b < (n : ℚ) - 1 / 2 := (clampRound_lt_iff h1 ra.2 b).mp hc
    have := hb (n - 1)
    have hab' := abs_le.mp hab
    rw [abs_of_nonpos (by push_cast; linarith)] at this
    push_cast at this
    linarith
  apply le_antisymm
  · exact key s s' h hfar
  · -- other direction: jump point between s' and s
    by_contra hc
    have hc : clampRound s < clampRound s' := not_le.mp hc
    have ra := clampRound_range s'
    have rb := clampRound_range s
    set n := clampRound s' with hn
    have h1 : 1 ≤ n := by omega
    have ha : (n : ℚ) - 1 / 2 ≤ s' := (le_clampRound_iff h1 ra.2 s').mp le_rfl
    have hb' : s < (n : ℚ) - 1 / 2 := (clampRound_lt_iff h1 ra.2 s).mp hc
    have := hfar (n - 1)
    rw [abs_of_nonneg (by push_cast; linarith)] at this
    push_cast at this
    linarith

/-! ### `Duration.Seconds()` of a tick period between 50 ms and 2 s -/

theorem seconds_tick {d : Int} (h0 : 50000000 ≤ d) (h1 : d ≤ 2000000000) :
    ∃ t : ℚ, secondsOfNanos d = fin t ∧ |t - (d : ℚ) / 1000000000| ≤ 1 / 2 ^ 50 ∧ t ≤ 2 := by
  have hd0 : 0 ≤ d := by omega
  have hq : Int.tdiv d 1000000000 = d / 1000000000 := Int.tdiv_eq_ediv_of_nonneg hd0
  have hr : Int.tmod d 1000000000 = d % 1000000000 := Int.tmod_eq_emod_of_nonneg hd0
  have hq0 : 0 ≤ d / 1000000000 := by omega
  have hq2 : d / 1000000000 ≤ 2 := by omega
  have hr0 : 0 ≤ d % 1000000000 := by omega
  have hr1 : d % 1000000000 < 1000000000 := by omega
  have hdecomp : d = 1000000000 * (d / 1000000000) + d % 1000000000 := by omega
  have hfull : d / 1000000000 = 2 → d % 1000000000 = 0 := by omega
  generalize d / 1000000000 = q at *
  generalize d % 1000000000 = r at *
  have hrq0 : (0 : ℚ) ≤ r := by exact_mod_cast hr0
  have hrq1 : (r : ℚ) < 1000000000 := by exact_mod_cast hr1
  have hqq0 : (0 : ℚ) ≤ q := by exact_mod_cast hq0
  have hqq2 : (q : ℚ) ≤ 2 := by exact_mod_cast hq2
  have hfrac0 : 0 ≤ (r : ℚ) / 1000000000 := by positivity
  have hfrac1 : (r : ℚ) / 1000000000 ≤ 1 := by rw [div_le_one (by norm_num)]; exact hrq1.le
  have hfa : |(r : ℚ) / 1000000000| ≤ 2 ^ 0 := by rw [abs_of_nonneg hfrac0]; simpa using hfrac1
  have hfl0 : 0 ≤ fl64 ((r : ℚ) / 1000000000) := fl64_nonneg hfrac0
  have hfl1 : fl64 ((r : ℚ) / 1000000000) ≤ 1 := fl64_le_of_le_rep fl64_one hfrac1
  have hsum : |(q : ℚ) + fl64 ((r : ℚ) / 1000000000)| ≤ 2 ^ 2 := by
    rw [abs_of_nonneg (by linarith)]; norm_num; linarith
  refine ⟨fl64 ((q : ℚ) + fl64 ((r : ℚ) / 1000000000)), ?_, ?_, ?_⟩
  · unfold secondsOfNanos
    simp only [hq, hr]
    rw [b_ofInt q (by rw [abs_le]; constructor <;> omega),
      b_ofInt r (by rw [abs_le]; constructor <;> omega), b_ofInt 1000000000 (by norm_num)]
    show (fin (q : ℚ) + fin (r : ℚ) / fin ((1000000000 : Int) : ℚ) : F64) = _
    rw [div_fin_fin _ (by norm_num), ofRat_fin_small 0 (by norm_num) (by push_cast; exact hfa),
      add_fin_fin, ofRat_fin_small 2 (by norm_num) (by push_cast at hsum ⊢; exact hsum)]
    push_cast; rfl
  · have d1 := fl_close (y := (r : ℚ) / 1000000000) (δ := 0) (M := 1)
      (by simpa using hfa) (by simp)
    have d2 := fl_close (y := (q : ℚ) + (r : ℚ) / 1000000000) (M := 4)
      (δ := 1 / 2 ^ 53 + 1 / 2 ^ 100 + 0) (hsum.trans (by norm_num)) (by
        rw [show (q : ℚ) + fl64 ((r : ℚ) / 1000000000) - ((q : ℚ) + (r : ℚ) / 1000000000)
          = fl64 ((r : ℚ) / 1000000000) - (r : ℚ) / 1000000000 by ring]; exact d1)
    have hdq : (d : ℚ) / 1000000000 = (q : ℚ) + (r : ℚ) / 1000000000 := by
      rw [hdecomp]; push_cast; field_simp
    rw [hdq]
    refine d2.trans ?_
    norm_num
  · apply fl64_le_of_le_rep (rep64_intCast 2 (by norm_num))
    push_cast
    rcases eq_or_lt_of_le hq2 with e | l
    · have := hfull e
      subst e; rw [this]; simp [fl64_zero]
    · have : (q : ℚ) ≤ 1 := by exact_mod_cast (by omega : q ≤ 1)
      linarith

/-! ### exact monotonicity of the integral update -/

theorem pidJ_rep (I e t : ℚ) : Rep64 (pidJ I e t) := rep64_fl64 _

theorem pidJ_le {I e t : ℚ} (hI : Rep64 I) (ht : 0 ≤ t) (he : e ≤ 0) : pidJ I e t ≤ I := by
  unfold pidJ
  apply fl64_le_of_le_rep hI
  have : fl64 (e * t) ≤ 0 := fl64_nonpos (mul_nonpos_of_nonpos_of_nonneg he ht)
  linarith

theorem pidJ_ge {I e t : ℚ} (hI : Rep64 I) (ht : 0 ≤ t) (he : 0 ≤ e) : I ≤ pidJ I e t := by
  unfold pidJ
  apply le_fl64_of_rep_le hI
  have : 0 ≤ fl64 (e * t) := fl64_nonneg (mul_nonneg he ht)
  linarith

/-! ## 2. the closed loop on the identity range and its abstraction -/

/-- one controller cycle on the identity range (fan min 0, max 255): the algorithm is called with the
    previous request as `current`; its result is clamped and mapped into the range as
    `calculateTargetPwm` does. State = PID memory × previous request. -/
def pidClosed (indef c : Int) (s : PidSt × Int) (now : Int) : PidSt × Int :=
  ((pidCycle indef s.1 c s.2 now).1, rescale indef (clamp255 (pidCycle indef s.1 c s.2 now).2) 0 255)

/-- the closed loop run: cycle `k` (producing state `k+1`) sees the curve value `cs k` and the clock
    reading `nows (k+1)`. -/
def pidRun (indef : Int) (cs : Nat → Int) (nows : Nat → Int) (s0 : PidSt × Int) : Nat → PidSt × Int
  | 0 => s0
  | k + 1 => pidClosed indef (cs k) (pidRun indef cs nows s0 k) (nows (k + 1))

/-- slack of the abstraction (covers every binary64 rounding of one cycle while `|integral| ≤ 2^21`). -/
def eps : ℚ := 1 / 2 ^ 30

/-- Abstract closed-loop cycle: `(x, I, ep) ↦ (x', J)`; `y = x + uExact` is the EXACT real value of
    `current + output`; the new request is the rounding of `y` up to the slack `eps` near the
    half-integers, the new integral is `I + e·t` up to `eps`, and moves in the exact direction. -/
structure AStep (c : Int) (t : ℚ) (x : Int) (I : ℚ) (ep : Int) (x' : Int) (J : ℚ) : Prop where
  x0 : 0 ≤ x'
  x1 : x' ≤ 255
  up : ∀ n : Int, 1 ≤ n → n ≤ 255 →
    (n : ℚ) - 1 / 2 + eps ≤ (x : ℚ) + uExact ((c - x : Int) : ℚ) ep I t → n ≤ x'
  dn : ∀ n : Int, 1 ≤ n → n ≤ 255 →
    (x : ℚ) + uExact ((c - x : Int) : ℚ) ep I t ≤ (n : ℚ) - 1 / 2 - eps → x' < n
  Jc : |J - (I + ((c - x : Int) : ℚ) * t)| ≤ eps
  Jle : c - x ≤ 0 → J ≤ I
  Jge : 0 ≤ c - x → I ≤ J
  Jrep : Rep64 J

/-- the PID memory is "good": default gains, finite representable integral `I`, previous error the
    integer `ep`, previous clock reading `last`. -/
structure PidGood (st : PidSt) (I : ℚ) (ep last : Int) : Prop where
  p : st.p = ofRat (3 / 10)
  i : st.i = ofRat (1 / 50)
  d : st.d = ofRat (1 / 200)
  error : st.error = fin (ep : ℚ)
  integral : st.integral = fin I
  lastTime : st.lastTime = some last
  rep : Rep64 I

theorem cycOk_of {c x ep : Int} {I t : ℚ} (hc0 : 0 ≤ c) (hc1 : c ≤ 255) (hx0 : 0 ≤ x) (hx1 : x ≤ 255)
    (hep : |ep| ≤ 255) (hI : |I| ≤ 2 ^ 21) (ht0 : 1 / 32 ≤ t) (ht1 : t ≤ 2) : CycOk c x ep I t := by
  refine ⟨hc0, hc1, hx0, hx1, hep, hI, ht0, ?_⟩
  have he : |((c - x : Int) : ℚ)| ≤ 255 := by
    have : |c - x| ≤ 255 := by rw [abs_le]; constructor <;> omega
    exact_mod_cast this
  have hta : |t| ≤ 2 := by rw [abs_of_nonneg (by linarith)]; exact ht1
  exact (abs_mul_le' he hta).trans (by norm_num)

/-- **Refinement**: one binary64 cycle of the closed loop is an abstract step. -/
theorem pidClosed_refines (indef : Int) {st : PidSt} {I t : ℚ} {ep last c x now : Int}
    (g : PidGood st I ep last) (ht : secondsOfNanos (now - last) = fin t)
    (h : CycOk c x ep I t) :
    ∃ (st' : PidSt) (x' : Int) (J : ℚ),
      pidClosed indef c (st, x) now = (st', x') ∧ PidGood st' J (c - x) now ∧
      AStep c t x I ep x' J ∧
      x' = clampRound (pidS x ((c - x : Int) : ℚ) ep J t) ∧ J = pidJ I ((c - x : Int) : ℚ) t := by
  have hcyc := pid_cycle_fin indef st c x now last ep I t g.p g.i g.d g.error g.integral g.lastTime ht h
  have hr := clampRound_range (pidS x ((c - x : Int) : ℚ) ep (pidJ I ((c - x : Int) : ℚ) t) t)
  have hS := abs_le.mp (pidS_close h)
  have ht0 : 0 ≤ t := by linarith [h.t0]
  refine ⟨PidSt.mk st.p st.i st.d (fin ((c - x : Int) : ℚ)) (fin (pidJ I ((c - x : Int) : ℚ) t))
      (some now),
    clampRound (pidS x ((c - x : Int) : ℚ) ep (pidJ I ((c - x : Int) : ℚ) t) t),
    pidJ I ((c - x : Int) : ℚ) t, ?_, ?_, ?_, rfl, rfl⟩
  · unfold pidClosed
    simp only [hcyc]
    rw [clamp255_id hr.1 hr.2, dl_rescale_id indef hr.1 hr.2]
  · exact ⟨g.p, g.i, g.d, rfl, rfl, rfl, pidJ_rep _ _ _⟩
  · refine ⟨hr.1, hr.2, ?_, ?_, ?_, ?_, ?_, pidJ_rep _ _ _⟩
    · intro n h1 h2 hy
      rw [le_clampRound_iff h1 h2]
      unfold eps at hy
      have : (1 : ℚ) / 2 ^ 31 ≤ 1 / 2 ^ 30 := by norm_num
      linarith
    · intro n h1 h2 hy
      rw [clampRound_lt_iff h1 h2]
      unfold eps at hy
      have : (0 : ℚ) < 1 / 2 ^ 30 - 1 / 2 ^ 31 := by norm_num
      linarith
    · exact pidJ_close h
    · intro he
      exact pidJ_le g.rep ht0 (by exact_mod_cast he)
    · intro he
      exact pidJ_ge g.rep ht0 (by exact_mod_cast he)

/-! ### (2) no wind-up on the identity range -/

/-- the tick periods of the property: `t` is the `Seconds()` value of a period in 50 ms .. 2 s. -/
structure TickOk (t : ℚ) : Prop where
  t0 : 499 / 10000 ≤ t
  t1 : t ≤ 2

theorem deriv_abs {e ep t : ℚ} (he : |e| ≤ 255) (hep : |ep| ≤ 255) (ht : TickOk t) :
    |(1 : ℚ) / 200 * ((e - ep) / t)| ≤ 256 / 5 := by
  have h1 : |e - ep| ≤ 255 + 255 := by
    rw [sub_eq_add_neg]; exact abs_add_le' he (by rwa [abs_neg])
  have h2 := abs_div_le' h1 (by norm_num) ht.t0
  have h3 := abs_mul_le' (a := 1 / 200) (A := 1 / 200) (by norm_num [abs_of_pos]) h2
  exact h3.trans (by norm_num)

/-- the invariant: the integral is bounded, and whenever it is large the request is saturated on the
    matching side (so that the error can only drive the integral back). -/
def AInv (x : Int) (I : ℚ) : Prop := |I| ≤ 20000 ∧ (19200 ≤ I → x = 255) ∧ (I ≤ -19200 → x = 0)

theorem AStep.inv {c x ep x' : Int} {t I J : ℚ} (h : AStep c t x I ep x' J) (ht : TickOk t)
    (hc0 : 0 ≤ c) (hc1 : c ≤ 255) (hx0 : 0 ≤ x) (hx1 : x ≤ 255) (hep : |ep| ≤ 255)
    (hinv : AInv x I) : AInv x' J := by
  obtain ⟨hI, hhi, hlo⟩ := hinv
  have hIb := abs_le.mp hI
  have he : |((c - x : Int) : ℚ)| ≤ 255 := by
    have : |c - x| ≤ 255 := by rw [abs_le]; constructor <;> omega
    exact_mod_cast this
  have hepq : |(ep : ℚ)| ≤ 255 := by exact_mod_cast hep
  have hta : |t| ≤ 2 := by rw [abs_of_nonneg (by linarith [ht.t0])]; exact ht.t1
  have het := abs_le.mp ((abs_mul_le' he hta).trans (by norm_num : (255 : ℚ) * 2 ≤ 510))
  have hD := abs_le.mp (deriv_abs he hepq ht)
  have heb := abs_le.mp he
  have hJc := abs_le.mp h.Jc
  have hup := h.up 255 (by norm_num) le_rfl
  have hdn := h.dn 1 le_rfl (by norm_num)
  have hx0q : (0 : ℚ) ≤ x := by exact_mod_cast hx0
  have hx1q : (x : ℚ) ≤ 255 := by exact_mod_cast hx1
  have heps : eps = 1 / 1073741824 := by unfold eps; norm_num
  rw [heps] at hJc hup hdn
  unfold uExact at hup hdn
  generalize ((c - x : Int) : ℚ) = e at *
  generalize (1 : ℚ) / 200 * ((e - (ep : ℚ)) / t) = D at *
  generalize e * t = et at *
  refine ⟨?_, ?_, ?_⟩
  · rw [abs_le]; constructor
    · by_cases hl : I ≤ -19200
      · have hx := hlo hl
        have : 0 ≤ c - x := by omega
        linarith [h.Jge this]
      · have hl := not_le.mp hl
        linarith
    · by_cases hl : 19200 ≤ I
      · have hx := hhi hl
        have : c - x ≤ 0 := by omega
        linarith [h.Jle this]
      · have hl := not_le.mp hl
        linarith
  · intro hJ
    have := hup (by push_cast; linarith)
    have := h.x1; omega
  · intro hJ
    have := hdn (by push_cast; linarith)
    have := h.x0; omega

/-! ### the binary64 run as an abstract trajectory -/

/-- payload of the stored integral / previous error / `Seconds()` value (0 if not finite). -/
def intOf (st : PidSt) : ℚ := match st.integral with | fin q => q | _ => 0
def errOf (st : PidSt) : Int := match st.error with | fin q => ⌊q⌋ | _ => 0
def secOf (d : Int) : ℚ := match secondsOfNanos d with | fin q => q | _ => 0

theorem PidGood.intOf_eq {st : PidSt} {I : ℚ} {ep last : Int} (g : PidGood st I ep last) :
    intOf st = I := by unfold intOf; rw [g.integral]
theorem PidGood.errOf_eq {st : PidSt} {I : ℚ} {ep last : Int} (g : PidGood st I ep last) :
    errOf st = ep := by unfold errOf; rw [g.error]; simp

/-- the closed-loop state is well-formed: finite memory with the default gains, request in range. -/
structure RunSt0 (s : PidSt × Int) (last : Int) : Prop where
  good : PidGood s.1 (intOf s.1) (errOf s.1) last
  x0 : 0 ≤ s.2
  x1 : s.2 ≤ 255
  ep : |errOf s.1| ≤ 255

/-- what the closed-loop run keeps true at every cycle. -/
structure RunSt (s : PidSt × Int) (last : Int) : Prop extends RunSt0 s last where
  inv : AInv s.2 (intOf s.1)

theorem tickOk_of_seconds {d : Int} (h0 : 50000000 ≤ d) (h1 : d ≤ 2000000000) :
    secondsOfNanos d = fin (secOf d) ∧ TickOk (secOf d) ∧
      |secOf d - (d : ℚ) / 1000000000| ≤ 1 / 2 ^ 50 := by
  obtain ⟨t, e, hc, h2⟩ := seconds_tick h0 h1
  have : secOf d = t := by unfold secOf; rw [e]
  rw [this]
  refine ⟨e, ⟨?_, h2⟩, hc⟩
  have hc' := abs_le.mp hc
  have : (50000000 : ℚ) ≤ d := by exact_mod_cast h0
  have : (1 : ℚ) / 20 ≤ (d : ℚ) / 1000000000 := by
    rw [le_div_iff₀ (by norm_num)]; linarith
  norm_num at hc' ⊢
  linarith

/-- one cycle from a well-formed state whose integral is below `2^21`, any elapsed time `t ≥ 1/32 s`
    with `|e·t| ≤ 2^21`. -/
theorem run_step0 (indef : Int) {s : PidSt × Int} {last c now : Int} {t : ℚ} (r : RunSt0 s last)
    (hc0 : 0 ≤ c) (hc1 : c ≤ 255) (hsec : secondsOfNanos (now - last) = fin t)
    (hI21 : |intOf s.1| ≤ 2 ^ 21) (ht0 : 1 / 32 ≤ t) (het : |((c - s.2 : Int) : ℚ) * t| ≤ 2 ^ 21) :
    RunSt0 (pidClosed indef c s now) now ∧
    errOf (pidClosed indef c s now).1 = c - s.2 ∧
    AStep c t s.2 (intOf s.1) (errOf s.1) (pidClosed indef c s now).2
      (intOf (pidClosed indef c s now).1) := by
  have hcyc : CycOk c s.2 (errOf s.1) (intOf s.1) t := ⟨hc0, hc1, r.x0, r.x1, r.ep, hI21, ht0, het⟩
  obtain ⟨st', x', J, hcl, g', ha, _, _⟩ := pidClosed_refines indef r.good hsec hcyc
  have hs : s = (s.1, s.2) := rfl
  rw [hs, hcl]
  have hJ : intOf st' = J := g'.intOf_eq
  have hE : errOf st' = c - s.2 := g'.errOf_eq
  simp only
  rw [hJ]
  refine ⟨⟨?_, ha.x0, ha.x1, ?_⟩, hE, ha⟩
  · show PidGood st' (intOf st') (errOf st') now
    rw [hJ, hE]; exact g'
  · show |errOf st'| ≤ 255
    rw [hE, abs_le]; constructor <;> linarith [r.x0, r.x1]

theorem run_step (indef : Int) {s : PidSt × Int} {last c now : Int} (r : RunSt s last)
    (hc0 : 0 ≤ c) (hc1 : c ≤ 255) (h0 : 50000000 ≤ now - last) (h1 : now - last ≤ 2000000000) :
    RunSt (pidClosed indef c s now) now ∧
    errOf (pidClosed indef c s now).1 = c - s.2 ∧
    TickOk (secOf (now - last)) ∧
    AStep c (secOf (now - last)) s.2 (intOf s.1) (errOf s.1) (pidClosed indef c s now).2
      (intOf (pidClosed indef c s now).1) := by
  obtain ⟨hsec, htick, _⟩ := tickOk_of_seconds h0 h1
  have hI21 : |intOf s.1| ≤ 2 ^ 21 := r.inv.1.trans (by norm_num)
  have hcyc := cycOk_of hc0 hc1 r.x0 r.x1 r.ep hI21 (by linarith [htick.t0]) htick.t1
  obtain ⟨r', hE, ha⟩ := run_step0 indef r.toRunSt0 hc0 hc1 hsec hI21 (by linarith [htick.t0]) hcyc.et
  exact ⟨⟨r', ha.inv htick hc0 hc1 r.x0 r.x1 r.ep r.inv⟩, hE, htick, ha⟩

/-- the invariant holds along every closed-loop run on the identity range, whatever the curve
    values and the (admissible) tick periods are. -/
theorem pidRun_runSt (indef : Int) (cs : Nat → Int) (nows : Nat → Int) (s0 : PidSt × Int)
    (r0 : RunSt s0 (nows 0)) (hcs : ∀ k, 0 ≤ cs k ∧ cs k ≤ 255)
    (hticks : ∀ k, 50000000 ≤ nows (k + 1) - nows k ∧ nows (k + 1) - nows k ≤ 2000000000) :
    ∀ k, RunSt (pidRun indef cs nows s0 k) (nows k) := by
  intro k
  induction k with
  | zero => exact r0
  | succ k ih =>
    exact (run_step indef ih (hcs k).1 (hcs k).2 (hticks k).1 (hticks k).2).1

end Fan2go
