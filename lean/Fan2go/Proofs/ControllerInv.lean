/-
  Structure lemmas about the model of `controller.go`: what `calculateTargetPwm`, `setPwm`,
  `UpdateFanSpeed`, `measureRpm` and one event of `stepEv` can change, the preservation of `Inv`,
  the range of the requested value and of the value written, and the bookkeeping of raises.
  Nothing here unfolds a control loop: `LoopSt.cycle` may return any `Int`.
-/
import Fan2go.Proofs.Rescale
import Fan2go.Proofs.FindClosest
import Fan2go.Spec.Controller
namespace Fan2go
open F64

/-! ### fan limits depend on four fields only -/

structure FanSame (f f' : FanSt) : Prop where
  kind : f'.kind = f.kind
  neverStop : f'.neverStop = f.neverStop
  minP : f'.minP = f.minP
  maxP : f'.maxP = f.maxP

theorem FanSame.refl (f : FanSt) : FanSame f f := ⟨rfl, rfl, rfl, rfl⟩

theorem FanSame.trans {f g h : FanSt} (a : FanSame f g) (b : FanSame g h) : FanSame f h :=
  ⟨b.kind.trans a.kind, b.neverStop.trans a.neverStop, b.minP.trans a.minP, b.maxP.trans a.maxP⟩

theorem FanSame.getMin {f f' : FanSt} (h : FanSame f f') : f'.getMin = f.getMin := by
  unfold FanSt.getMin; rw [h.kind, h.neverStop, h.minP]

theorem FanSame.getMax {f f' : FanSt} (h : FanSame f f') : f'.getMax = f.getMax := by
  unfold FanSt.getMax; rw [h.kind, h.maxP]

theorem fanSame_setRpmAvg (indef : Int) (f : FanSt) (x : F64) : FanSame f (f.setRpmAvg indef x) := by
  unfold FanSt.setRpmAvg; split <;> exact ⟨rfl, rfl, rfl, rfl⟩

/-- "0 unless the fan is neverStop" -/
theorem getMin_zero_of_not_neverStop (f : FanSt) (h : f.neverStop = false) : f.getMin = 0 := by
  unfold FanSt.getMin; split
  · rw [h]; rfl
  · rfl

/-- file and cmd fans have no minimum at all -/
theorem getMin_zero_of_not_hwmon (f : FanSt) (h : f.kind ≠ .hwmon) : f.getMin = 0 := by
  unfold FanSt.getMin; split
  · next hk => exact absurd hk h
  · rfl

/-! ### transferring `Inv` -/

theorem Inv.transfer {w w' : World} (h : Inv w)
    (hmin : w'.fan.getMin = w.fan.getMin) (hmax : w'.fan.getMax = w.fan.getMax)
    (hmap : w'.ctl.pwmMap = w.ctl.pwmMap) (hdist : w'.ctl.distinct = w.ctl.distinct)
    (hoff : w.ctl.offset ≤ w'.ctl.offset)
    (hfl : w'.fan.getMin + w'.ctl.offset ≤ w'.fan.getMax) : Inv w' where
  min_nonneg := by rw [hmin]; exact h.min_nonneg
  offset_nonneg := le_trans h.offset_nonneg hoff
  floor_le_max := hfl
  max_le := by rw [hmax]; exact h.max_le
  map_some := by rw [hmap, hdist]; exact h.map_some

theorem Inv.of_same {w w' : World} (h : Inv w)
    (hfan : FanSame w.fan w'.fan)
    (hmap : w'.ctl.pwmMap = w.ctl.pwmMap) (hdist : w'.ctl.distinct = w.ctl.distinct)
    (hoff : w'.ctl.offset = w.ctl.offset) : Inv w' :=
  h.transfer hfan.getMin hfan.getMax hmap hdist (le_of_eq hoff.symm)
    (by rw [hfan.getMin, hfan.getMax, hoff]; exact h.floor_le_max)

theorem Inv.distinct_ne {w : World} (h : Inv w) : w.ctl.distinct.size ≠ 0 := by
  obtain ⟨m, -, hm, hd⟩ := h.map_some
  rw [hd, List.size_toArray]
  intro h0
  exact extractKeys_ne_nil m hm.1 (List.length_eq_zero_iff.mp h0)

theorem Inv.floor_nonneg {w : World} (h : Inv w) : 0 ≤ w.floor := by
  unfold World.floor; have := h.min_nonneg; have := h.offset_nonneg; omega

theorem Inv.min_le_floor {w : World} (h : Inv w) : w.fan.getMin ≤ w.floor := by
  unfold World.floor; have := h.offset_nonneg; omega

/-- under `Inv` the nearest supported input always exists (no panic in `findClosestDistinctTarget`) -/
theorem Inv.closest_ok {w : World} (h : Inv w) (t : Int) :
    ∃ k, closestDistinct w.ctl t = .ok k ∧ ∃ i, i < w.ctl.distinct.size ∧ w.ctl.distinct[i]! = k :=
  findClosest_mem w.ctl.distinct t h.distinct_ne

/-- lookups in a well-formed PWM map are bytes -/
theorem mapGet_range {m : List (Int × Int)} (hm : MapOk m) (k : Int) :
    0 ≤ mapGet m k ∧ mapGet m k ≤ 255 := by
  unfold mapGet
  split
  · next p hp => exact hm.2.2 p (List.mem_of_find?_eq_some hp)
  · omega

theorem Res.err_ne_ok {α : Type} (e : String) : ∀ t : α, (Res.err e : Res α) ≠ .ok t := fun _ h => by cases h
theorem Res.panic_ne_ok {α : Type} (s : String) : ∀ t : α, (Res.panic s : Res α) ≠ .ok t := fun _ h => by cases h

/-! ### pieces of `calculateTargetPwm` -/

/-- the `lastSetPwm` value fed to the control loop as "current" -/
def lastSetR (w : World) : Res Int :=
  match w.ctl.lastSet with
  | some v => .ok v
  | none => if supports w.fan w.dev .pwmSensor then ctlGetPwm w else .ok w.fan.getMin

def withLoop (w : World) (l : LoopSt) : World := { w with ctl := { w.ctl with loop := l } }

def bumpUnexpected (w : World) : World :=
  { w with ctl := { w.ctl with unexpectedCount := w.ctl.unexpectedCount + 1 } }

/-- the state change of the stall branch -/
def raiseWorld (indef : Int) (w : World) : World :=
  { w with ctl := { w.ctl with offset := w.ctl.offset + 1, increasedCount := w.ctl.increasedCount + 1 },
           fan := w.fan.setRpmAvg indef (ofInt 1) }

/-- "the computed target": loop output, clamped, rescaled into `[floor, max]` -/
def computedTarget (indef : Int) (w : World) (cv last now : Int) : Int :=
  rescale indef (clamp255 (w.ctl.loop.cycle indef cv last now).2) (w.fan.getMin + w.ctl.offset) w.fan.getMax

/-- the stall test of controller.go:465-472 -/
def stalled (indef : Int) (w : World) (target : Int) : Bool :=
  supports w.fan w.dev .rpmSensor && w.fan.neverStop && w.ctl.lastSet == some target
    && decide (toInt indef w.fan.getRpmAvg ≤ 0)

theorem stalled_iff (indef : Int) (w : World) (t : Int) :
    stalled indef w t = true ↔
      supports w.fan w.dev .rpmSensor = true ∧ w.fan.neverStop = true ∧ w.ctl.lastSet = some t ∧
        toInt indef w.fan.getRpmAvg ≤ 0 := by
  unfold stalled
  simp only [Bool.and_eq_true, beq_iff_eq, decide_eq_true_eq, and_assoc]

theorem ensureNoThirdParty_cases (w : World) :
    (∃ e, ensureNoThirdParty w = .err e) ∨ (∃ s, ensureNoThirdParty w = .panic s) ∨
    ensureNoThirdParty w = .ok (w, []) ∨
    ensureNoThirdParty w = .ok (bumpUnexpected w, [.thirdParty]) := by
  unfold ensureNoThirdParty bumpUnexpected
  split
  · right; right; left; rfl
  · split
    · split
      · split
        · dsimp only
          split
          · right; right; right; rfl
          · right; right; left; rfl
        · right; right; left; rfl
      · left; exact ⟨_, rfl⟩
      · right; left; exact ⟨_, rfl⟩
    · right; right; left; rfl

/-- with a non-empty list of supported inputs the third-party check cannot fail -/
theorem ensureNoThirdParty_ok (w : World) (hne : w.ctl.distinct.size ≠ 0) :
    ensureNoThirdParty w = .ok (w, []) ∨
    ensureNoThirdParty w = .ok (bumpUnexpected w, [.thirdParty]) := by
  unfold ensureNoThirdParty bumpUnexpected
  split
  · left; rfl
  · split
    · next l _ _ _ =>
      obtain ⟨k, hk⟩ := findClosest_ok w.ctl.distinct l hne
      split
      · split
        · dsimp only
          split
          · right; rfl
          · left; rfl
        · left; rfl
      · next e he => unfold closestDistinct at he; rw [hk] at he; cases he
      · next s hs => unfold closestDistinct at hs; rw [hk] at hs; cases hs
    · left; rfl

/-- forward equation of `calculateTargetPwm` once the early exits are passed -/
theorem calc_eq (indef : Int) (w : World) (cv now last : Int) (wm : World) (obs0 : List Obs)
    (h1 : lastSetR w = .ok last)
    (h2 : ensureNoThirdParty (withLoop w (w.ctl.loop.cycle indef cv last now).1) = .ok (wm, obs0)) :
    calculateTargetPwm indef w (.ok cv) now =
      if stalled indef wm (computedTarget indef w cv last now) = true then
        if computedTarget indef w cv last now ≥ w.fan.getMax then
          (wm, .err "stalled-at-max", obs0 ++ [.stalledAtMax])
        else (raiseWorld indef wm, .ok (computedTarget indef w cv last now + 1),
              obs0 ++ [.raised w.floor (w.floor + 1), .requested (computedTarget indef w cv last now + 1)])
      else (wm, .ok (computedTarget indef w cv last now),
            obs0 ++ [.requested (computedTarget indef w cv last now)]) := by
  unfold lastSetR at h1
  unfold withLoop at h2
  dsimp only at h2
  unfold calculateTargetPwm
  dsimp only
  generalize w.ctl.lastSet = ls at h1 h2 ⊢
  cases ls with
  | some v =>
    simp only at h1 ⊢
    cases h1
    rw [h2]; rfl
  | none =>
    simp only at h1 ⊢
    rw [h1]; dsimp only; rw [h2]; rfl

theorem calc_fail_last (indef : Int) (w : World) (curve : Res Int) (now : Int) {r : Res Int}
    (h1 : lastSetR w = r) (hr : ∀ t, r ≠ .ok t) :
    ∃ r', (∀ t, r' ≠ .ok t) ∧ calculateTargetPwm indef w curve now = (w, r', []) := by
  unfold lastSetR at h1
  unfold calculateTargetPwm
  dsimp only
  generalize w.ctl.lastSet = ls at h1 ⊢
  cases ls with
  | some v => simp only at h1; exact absurd h1.symm (hr v)
  | none =>
    simp only at h1 ⊢
    rw [h1]
    cases r with
    | ok t => exact absurd rfl (hr t)
    | err e => exact ⟨.err e, Res.err_ne_ok e, rfl⟩
    | panic s => exact ⟨.panic s, Res.panic_ne_ok s, rfl⟩

theorem calc_fail_curve (indef : Int) (w : World) (curve : Res Int) (now last : Int)
    (h1 : lastSetR w = .ok last) (hc : ∀ t, curve ≠ .ok t) :
    ∃ r', (∀ t, r' ≠ .ok t) ∧ calculateTargetPwm indef w curve now = (w, r', []) := by
  unfold lastSetR at h1
  unfold calculateTargetPwm
  dsimp only
  generalize w.ctl.lastSet = ls at h1 ⊢
  cases curve with
  | ok t => exact absurd rfl (hc t)
  | err e =>
    refine ⟨.err e, Res.err_ne_ok e, ?_⟩
    cases ls with
    | some v => rfl
    | none => simp only at h1 ⊢; rw [h1]
  | panic s =>
    refine ⟨.panic s, Res.panic_ne_ok s, ?_⟩
    cases ls with
    | some v => rfl
    | none => simp only at h1 ⊢; rw [h1]

theorem calc_fail_tp (indef : Int) (w : World) (cv now last : Int) {r : Res (World × List Obs)}
    (h1 : lastSetR w = .ok last)
    (h2 : ensureNoThirdParty (withLoop w (w.ctl.loop.cycle indef cv last now).1) = r)
    (hr : ∀ x, r ≠ .ok x) :
    ∃ r', (∀ t, r' ≠ .ok t) ∧
      calculateTargetPwm indef w (.ok cv) now = (withLoop w (w.ctl.loop.cycle indef cv last now).1, r', []) := by
  unfold lastSetR at h1
  unfold withLoop at h2 ⊢
  dsimp only at h2 ⊢
  unfold calculateTargetPwm
  dsimp only
  generalize w.ctl.lastSet = ls at h1 h2 ⊢
  cases r with
  | ok x => exact absurd rfl (hr x)
  | err e =>
    refine ⟨.err e, Res.err_ne_ok e, ?_⟩
    cases ls with
    | some v => simp only at h1 ⊢; cases h1; rw [h2]
    | none => simp only at h1 ⊢; rw [h1]; dsimp only; rw [h2]
  | panic s =>
    refine ⟨.panic s, Res.panic_ne_ok s, ?_⟩
    cases ls with
    | some v => simp only at h1 ⊢; cases h1; rw [h2]
    | none => simp only at h1 ⊢; rw [h1]; dsimp only; rw [h2]

/-- The worlds `calculateTargetPwm` passes through before the stall test differ from `w` only in
    the loop memory and the third-party counter. -/
structure Mid (w wm : World) : Prop where
  fan : wm.fan = w.fan
  dev : wm.dev = w.dev
  rpmWindow : wm.rpmWindow = w.rpmWindow
  lastSet : wm.ctl.lastSet = w.ctl.lastSet
  offset : wm.ctl.offset = w.ctl.offset
  pwmMap : wm.ctl.pwmMap = w.ctl.pwmMap
  distinct : wm.ctl.distinct = w.ctl.distinct
  increasedCount : wm.ctl.increasedCount = w.ctl.increasedCount
  origMode : wm.ctl.origMode = w.ctl.origMode
  origPwm : wm.ctl.origPwm = w.ctl.origPwm

theorem Mid.refl (w : World) : Mid w w := ⟨rfl, rfl, rfl, rfl, rfl, rfl, rfl, rfl, rfl, rfl⟩
theorem mid_withLoop (w : World) (l : LoopSt) : Mid w (withLoop w l) :=
  ⟨rfl, rfl, rfl, rfl, rfl, rfl, rfl, rfl, rfl, rfl⟩
theorem mid_bump (w : World) (l : LoopSt) : Mid w (bumpUnexpected (withLoop w l)) :=
  ⟨rfl, rfl, rfl, rfl, rfl, rfl, rfl, rfl, rfl, rfl⟩

theorem Mid.stalled {w wm : World} (h : Mid w wm) (indef t : Int) :
    stalled indef wm t = stalled indef w t := by
  unfold Fan2go.stalled; rw [h.fan, h.dev, h.lastSet]

/-- observations made before the stall test -/
def PreObs (o : List Obs) : Prop := o = [] ∨ o = [.thirdParty]

/-- All outcomes of `calculateTargetPwm`, backwards. -/
inductive CalcCase (indef : Int) (w : World) (curve : Res Int) (now : Int) :
    World → Res Int → List Obs → Prop
  /-- early exit: reading the current PWM failed, the curve failed, or the third-party check
      panicked -/
  | fail (wm : World) (r : Res Int) (hm : Mid w wm) (hr : ∀ t, r ≠ .ok t) :
      CalcCase indef w curve now wm r []
  | atMax (wm : World) (obs0 : List Obs) (cv last : Int) (hm : Mid w wm) (ho : PreObs obs0)
      (hc : curve = .ok cv) (hl : lastSetR w = .ok last)
      (hs : stalled indef w (computedTarget indef w cv last now) = true)
      (hge : computedTarget indef w cv last now ≥ w.fan.getMax) :
      CalcCase indef w curve now wm (.err "stalled-at-max") (obs0 ++ [.stalledAtMax])
  | raise (wm : World) (obs0 : List Obs) (cv last : Int) (hm : Mid w wm) (ho : PreObs obs0)
      (hc : curve = .ok cv) (hl : lastSetR w = .ok last)
      (hs : stalled indef w (computedTarget indef w cv last now) = true)
      (hlt : computedTarget indef w cv last now < w.fan.getMax) :
      CalcCase indef w curve now (raiseWorld indef wm) (.ok (computedTarget indef w cv last now + 1))
        (obs0 ++ [.raised w.floor (w.floor + 1), .requested (computedTarget indef w cv last now + 1)])
  | plain (wm : World) (obs0 : List Obs) (cv last : Int) (hm : Mid w wm) (ho : PreObs obs0)
      (hc : curve = .ok cv) (hl : lastSetR w = .ok last)
      (hs : stalled indef w (computedTarget indef w cv last now) = false) :
      CalcCase indef w curve now wm (.ok (computedTarget indef w cv last now))
        (obs0 ++ [.requested (computedTarget indef w cv last now)])

theorem calcTarget_cases (indef : Int) (w : World) (curve : Res Int) (now : Int) :
    CalcCase indef w curve now (calculateTargetPwm indef w curve now).1
      (calculateTargetPwm indef w curve now).2.1 (calculateTargetPwm indef w curve now).2.2 := by
  cases h1 : lastSetR w with
  | err e =>
    obtain ⟨r', hr', he⟩ := calc_fail_last indef w curve now h1 (fun _ h => by cases h)
    rw [he]; exact .fail w r' (Mid.refl w) hr'
  | panic s =>
    obtain ⟨r', hr', he⟩ := calc_fail_last indef w curve now h1 (fun _ h => by cases h)
    rw [he]; exact .fail w r' (Mid.refl w) hr'
  | ok last =>
    cases hc : curve with
    | err e =>
      obtain ⟨r', hr', he⟩ := calc_fail_curve indef w (.err e) now last h1 (fun _ h => by cases h)
      rw [he]; exact .fail w r' (Mid.refl w) hr'
    | panic s =>
      obtain ⟨r', hr', he⟩ := calc_fail_curve indef w (.panic s) now last h1 (fun _ h => by cases h)
      rw [he]; exact .fail w r' (Mid.refl w) hr'
    | ok cv =>
      have key : ∀ (wm : World) (obs0 : List Obs), Mid w wm → PreObs obs0 →
          ensureNoThirdParty (withLoop w (w.ctl.loop.cycle indef cv last now).1) = .ok (wm, obs0) →
          CalcCase indef w (.ok cv) now (calculateTargetPwm indef w (.ok cv) now).1
            (calculateTargetPwm indef w (.ok cv) now).2.1 (calculateTargetPwm indef w (.ok cv) now).2.2 := by
        intro wm obs0 hm ho h2
        rw [calc_eq indef w cv now last wm obs0 h1 h2, hm.stalled]
        by_cases hs : stalled indef w (computedTarget indef w cv last now) = true
        · rw [if_pos hs]
          by_cases hge : computedTarget indef w cv last now ≥ w.fan.getMax
          · rw [if_pos hge]; exact .atMax wm obs0 cv last hm ho rfl h1 hs hge
          · rw [if_neg hge]; exact .raise wm obs0 cv last hm ho rfl h1 hs (by omega)
        · rw [if_neg hs]
          exact .plain wm obs0 cv last hm ho rfl h1 (by simpa using hs)
      rcases ensureNoThirdParty_cases (withLoop w (w.ctl.loop.cycle indef cv last now).1) with
        ⟨e, he⟩ | ⟨s, hs⟩ | h2 | h2
      · obtain ⟨r', hr', hq⟩ := calc_fail_tp indef w cv now last h1 he (fun x h => by cases h)
        rw [hq]; exact .fail _ r' (mid_withLoop w _) hr'
      · obtain ⟨r', hr', hq⟩ := calc_fail_tp indef w cv now last h1 hs (fun x h => by cases h)
        rw [hq]; exact .fail _ r' (mid_withLoop w _) hr'
      · exact key _ _ (mid_withLoop w _) (Or.inl rfl) h2
      · exact key _ _ (mid_bump w _) (Or.inr rfl) h2

theorem calcTarget_cases' {indef : Int} {w : World} {curve : Res Int} {now : Int} {w' : World} {r : Res Int}
    {obs : List Obs} (h : calculateTargetPwm indef w curve now = (w', r, obs)) :
    CalcCase indef w curve now w' r obs := by
  have := calcTarget_cases indef w curve now
  rw [h] at this; exact this

/-- forward form under `Inv`: once the current PWM is known and the curve evaluated, the outcome is
    decided by the stall test alone (the third-party check cannot fail). -/
theorem calc_forward {w : World} (hinv : Inv w) (indef cv now last : Int) (hl : lastSetR w = .ok last) :
    ∃ wm obs0, Mid w wm ∧ PreObs obs0 ∧
      calculateTargetPwm indef w (.ok cv) now =
        if stalled indef w (computedTarget indef w cv last now) = true then
          if computedTarget indef w cv last now ≥ w.fan.getMax then
            (wm, .err "stalled-at-max", obs0 ++ [.stalledAtMax])
          else (raiseWorld indef wm, .ok (computedTarget indef w cv last now + 1),
                obs0 ++ [.raised w.floor (w.floor + 1), .requested (computedTarget indef w cv last now + 1)])
        else (wm, .ok (computedTarget indef w cv last now),
              obs0 ++ [.requested (computedTarget indef w cv last now)]) := by
  have hne : (withLoop w (w.ctl.loop.cycle indef cv last now).1).ctl.distinct.size ≠ 0 := hinv.distinct_ne
  rcases ensureNoThirdParty_ok _ hne with h2 | h2
  · refine ⟨withLoop w (w.ctl.loop.cycle indef cv last now).1, [], mid_withLoop w _, Or.inl rfl, ?_⟩
    rw [calc_eq indef w cv now last _ _ hl h2, (mid_withLoop w _).stalled]
  · refine ⟨bumpUnexpected (withLoop w (w.ctl.loop.cycle indef cv last now).1), [.thirdParty],
      mid_bump w _, Or.inr rfl, ?_⟩
    rw [calc_eq indef w cv now last _ _ hl h2, (mid_bump w _).stalled]

theorem lastSetR_of_some {w : World} {l : Int} (h : w.ctl.lastSet = some l) : lastSetR w = .ok l := by
  unfold lastSetR; rw [h]

/-! ### consequences of the case analysis -/

def Obs.isRaised : Obs → Bool
  | .raised _ _ => true
  | _ => false

/-- number of stall raises announced in a list of observations -/
def raisesOf (o : List Obs) : Nat := o.countP Obs.isRaised

theorem raisesOf_append (a b : List Obs) : raisesOf (a ++ b) = raisesOf a + raisesOf b :=
  List.countP_append

theorem raisesOf_eq_zero {o : List Obs} (h : ∀ x ∈ o, x.isRaised = false) : raisesOf o = 0 := by
  unfold raisesOf
  rw [List.countP_eq_zero]
  intro x hx; rw [h x hx]; simp

theorem raisesOf_raise (a b t : Int) : raisesOf [.raised a b, .requested t] = 1 := rfl
theorem raisesOf_requested (t : Int) : raisesOf [.requested t] = 0 := rfl
theorem raisesOf_stalledAtMax : raisesOf [.stalledAtMax] = 0 := rfl

theorem PreObs.raises {o : List Obs} (h : PreObs o) : raisesOf o = 0 := by
  rcases h with rfl | rfl <;> rfl

theorem PreObs.mem {o : List Obs} (h : PreObs o) {x : Obs} (hx : x ∈ o) : x = .thirdParty := by
  rcases h with rfl | rfl
  · cases hx
  · simpa using hx

/-- what `calculateTargetPwm` leaves untouched, whatever the outcome -/
structure CalcFrame (w w' : World) : Prop where
  fan : FanSame w.fan w'.fan
  dev : w'.dev = w.dev
  rpmWindow : w'.rpmWindow = w.rpmWindow
  lastSet : w'.ctl.lastSet = w.ctl.lastSet
  pwmMap : w'.ctl.pwmMap = w.ctl.pwmMap
  distinct : w'.ctl.distinct = w.ctl.distinct
  origMode : w'.ctl.origMode = w.ctl.origMode
  origPwm : w'.ctl.origPwm = w.ctl.origPwm

theorem Mid.calcFrame {w wm : World} (h : Mid w wm) : CalcFrame w wm :=
  ⟨by rw [h.fan]; exact FanSame.refl _, h.dev, h.rpmWindow, h.lastSet, h.pwmMap, h.distinct,
    h.origMode, h.origPwm⟩

theorem Mid.raiseFrame {w wm : World} (h : Mid w wm) (indef : Int) : CalcFrame w (raiseWorld indef wm) :=
  ⟨by
      have : (raiseWorld indef wm).fan = wm.fan.setRpmAvg indef (ofInt 1) := rfl
      rw [this, h.fan]; exact fanSame_setRpmAvg _ _ _,
    h.dev, h.rpmWindow, h.lastSet, h.pwmMap, h.distinct, h.origMode, h.origPwm⟩

theorem raiseWorld_offset (indef : Int) (w : World) :
    (raiseWorld indef w).ctl.offset = w.ctl.offset + 1 := rfl

theorem CalcCase.frame {indef : Int} {w : World} {curve : Res Int} {now : Int} {w' : World}
    {r : Res Int} {obs : List Obs} (h : CalcCase indef w curve now w' r obs) : CalcFrame w w' := by
  cases h with
  | fail wm r hm hr => exact hm.calcFrame
  | atMax wm obs0 cv last hm => exact hm.calcFrame
  | raise wm obs0 cv last hm => exact hm.raiseFrame indef
  | plain wm obs0 cv last hm => exact hm.calcFrame

/-- each announced raise is one increment of `minPwmOffset`, and nothing else changes it -/
theorem CalcCase.offset {indef : Int} {w : World} {curve : Res Int} {now : Int} {w' : World}
    {r : Res Int} {obs : List Obs} (h : CalcCase indef w curve now w' r obs) :
    w'.ctl.offset = w.ctl.offset + (raisesOf obs : Int) := by
  cases h with
  | fail wm r hm hr => rw [hm.offset]; simp [raisesOf]
  | atMax wm obs0 cv last hm ho =>
    rw [hm.offset, raisesOf_append, ho.raises, raisesOf_stalledAtMax]; simp
  | raise wm obs0 cv last hm ho =>
    rw [raiseWorld_offset, hm.offset, raisesOf_append, ho.raises, raisesOf_raise]; simp
  | plain wm obs0 cv last hm ho =>
    rw [hm.offset, raisesOf_append, ho.raises, raisesOf_requested]; simp

/-- the computed target lies between the effective floor and the fan's maximum -/
theorem computedTarget_range {w : World} (hinv : Inv w) (indef cv last now : Int) :
    w.floor ≤ computedTarget indef w cv last now ∧ computedTarget indef w cv last now ≤ w.fan.getMax := by
  unfold computedTarget World.floor
  exact rescale_range indef _ _ _ (clamp255_bounds _) (by have := hinv.min_nonneg; have := hinv.offset_nonneg; omega)
    hinv.floor_le_max hinv.max_le

/-- no observation of `calculateTargetPwm` is a write -/
theorem CalcCase.obs_kind {indef : Int} {w : World} {curve : Res Int} {now : Int} {w' : World}
    {r : Res Int} {obs : List Obs} (h : CalcCase indef w curve now w' r obs) {x : Obs} (hx : x ∈ obs) :
    x = .thirdParty ∨ x = .stalledAtMax ∨ (∃ t, x = .requested t ∧ r = .ok t) ∨
      (x = .raised w.floor (w.floor + 1) ∧ ∃ t, r = .ok t) := by
  cases h with
  | fail wm r hm hr => cases hx
  | atMax wm obs0 cv last hm ho =>
    rcases List.mem_append.mp hx with h | h
    · exact Or.inl (ho.mem h)
    · right; left; simpa using h
  | raise wm obs0 cv last hm ho =>
    rcases List.mem_append.mp hx with h | h
    · exact Or.inl (ho.mem h)
    · simp only [List.mem_cons, List.not_mem_nil, or_false] at h
      rcases h with h | h
      · right; right; right; exact ⟨h, _, rfl⟩
      · right; right; left; exact ⟨_, h, rfl⟩
  | plain wm obs0 cv last hm ho =>
    rcases List.mem_append.mp hx with h | h
    · exact Or.inl (ho.mem h)
    · simp only [List.mem_cons, List.not_mem_nil, or_false] at h
      right; right; left; exact ⟨_, h, rfl⟩

/-- a successful computation announces its result -/
theorem CalcCase.requested_mem {indef : Int} {w : World} {curve : Res Int} {now : Int} {w' : World}
    {t : Int} {obs : List Obs} (h : CalcCase indef w curve now w' (.ok t) obs) :
    Obs.requested t ∈ obs := by
  generalize hr : (Res.ok t : Res Int) = r at h
  cases h with
  | fail wm r hm hr' => exact absurd hr.symm (hr' t)
  | atMax => cases hr
  | raise => cases hr; simp
  | plain => cases hr; simp

/-- C01/C02 core: the requested value is inside `[floor, max]`, also w.r.t. the floor after the cycle -/
theorem CalcCase.range {indef : Int} {w : World} {curve : Res Int} {now : Int} {w' : World}
    {t : Int} {obs : List Obs} (hinv : Inv w) (h : CalcCase indef w curve now w' (.ok t) obs) :
    w.floor ≤ t ∧ t ≤ w.fan.getMax ∧ w'.floor ≤ t := by
  generalize hr : (Res.ok t : Res Int) = r at h
  cases h with
  | fail wm r hm hr' => exact absurd hr.symm (hr' t)
  | atMax => cases hr
  | raise wm obs0 cv last hm ho hc hl hs hlt =>
    cases hr
    have hrg := computedTarget_range hinv indef cv last now
    have hf : (raiseWorld indef wm).floor = w.floor + 1 := by
      unfold World.floor
      rw [(hm.raiseFrame indef).fan.getMin, raiseWorld_offset, hm.offset]; omega
    rw [hf]; omega
  | plain wm obs0 cv last hm ho hc hl hs =>
    cases hr
    have hrg := computedTarget_range hinv indef cv last now
    have hf : w'.floor = w.floor := by unfold World.floor; rw [hm.fan, hm.offset]
    rw [hf]; omega

theorem CalcCase.inv {indef : Int} {w : World} {curve : Res Int} {now : Int} {w' : World}
    {r : Res Int} {obs : List Obs} (hinv : Inv w) (h : CalcCase indef w curve now w' r obs) : Inv w' := by
  have hfr := h.frame
  have hoff := h.offset
  refine hinv.transfer hfr.fan.getMin hfr.fan.getMax hfr.pwmMap hfr.distinct (by omega) ?_
  cases h with
  | fail wm r hm hr => rw [hm.fan, hm.offset]; exact hinv.floor_le_max
  | atMax wm obs0 cv last hm => rw [hm.fan, hm.offset]; exact hinv.floor_le_max
  | plain wm obs0 cv last hm => rw [hm.fan, hm.offset]; exact hinv.floor_le_max
  | raise wm obs0 cv last hm ho hc hl hs hlt =>
    have hrg := computedTarget_range hinv indef cv last now
    rw [(hm.raiseFrame indef).fan.getMin, (hm.raiseFrame indef).fan.getMax, raiseWorld_offset, hm.offset]
    unfold World.floor at hrg; omega

/-- the shape of a raise (C02): strict, by one, and the request goes one above the stalled one -/
theorem CalcCase.raise_shape {indef : Int} {w : World} {curve : Res Int} {now : Int} {w' : World}
    {r : Res Int} {obs : List Obs} (h : CalcCase indef w curve now w' r obs) {a b : Int}
    (hx : Obs.raised a b ∈ obs) :
    a = w.floor ∧ b = a + 1 ∧ w'.ctl.offset = w.ctl.offset + 1 ∧ w'.floor = w.floor + 1 ∧
      ∃ l, w.ctl.lastSet = some l ∧ r = .ok (l + 1) ∧ l < w.fan.getMax ∧
        supports w.fan w.dev .rpmSensor = true ∧ w.fan.neverStop = true ∧
        toInt indef w.fan.getRpmAvg ≤ 0 ∧ w'.fan = w.fan.setRpmAvg indef (ofInt 1) := by
  cases h with
  | fail wm r hm hr => cases hx
  | atMax wm obs0 cv last hm ho =>
    rcases List.mem_append.mp hx with h | h
    · cases ho.mem h
    · simp at h
  | plain wm obs0 cv last hm ho =>
    rcases List.mem_append.mp hx with h | h
    · cases ho.mem h
    · simp at h
  | raise wm obs0 cv last hm ho hc hl hs hlt =>
    rcases List.mem_append.mp hx with h | h
    · cases ho.mem h
    · simp only [List.mem_cons, List.not_mem_nil, or_false] at h
      rcases h with h | h
      · injection h with h1 h2
        obtain ⟨s1, s2, s3, s4⟩ := (stalled_iff indef w _).mp hs
        refine ⟨h1, by omega, by rw [raiseWorld_offset, hm.offset], ?_, _, s3, rfl, hlt, s1, s2, s4, ?_⟩
        · unfold World.floor
          rw [(hm.raiseFrame indef).fan.getMin, raiseWorld_offset, hm.offset]; omega
        · have : (raiseWorld indef wm).fan = wm.fan.setRpmAvg indef (ofInt 1) := rfl
          rw [this, hm.fan]
      · cases h

/-! ### `trySetManualPwm`, `setPwm`, `UpdateFanSpeed` -/

def Obs.isWroteMode : Obs → Bool
  | .wroteMode _ _ => true
  | _ => false

theorem setPwmEnabled_obs_wroteMode (f : FanSt) (d : Dev) (v : Int) :
    ∀ x ∈ (setPwmEnabled f d v).2.2, x.isWroteMode = true := by
  unfold setPwmEnabled
  dsimp only
  repeat' split
  all_goals
    intro x hx
    first
    | (cases hx; done)
    | (simp only [List.mem_singleton] at hx; subst hx; rfl)

theorem trySetManualPwm_obs (f : FanSt) (d : Dev) :
    ∀ x ∈ (trySetManualPwm f d).2.2, x.isWroteMode = true := by
  unfold trySetManualPwm
  split
  · intro x hx; cases hx
  · have h1 := setPwmEnabled_obs_wroteMode f d 1
    split
    · next d' o heq => rw [heq] at h1; exact h1
    · next d' r o _ heq =>
      rw [heq] at h1
      have h2 := setPwmEnabled_obs_wroteMode f d' 0
      intro x hx
      rcases List.mem_append.mp hx with h | h
      · exact h1 x h
      · exact h2 x h

theorem raisesOf_wroteMode {o : List Obs} (h : ∀ x ∈ o, x.isWroteMode = true) : raisesOf o = 0 :=
  raisesOf_eq_zero (fun x hx => by
    have := h x hx
    cases x <;> simp_all [Obs.isWroteMode, Obs.isRaised])

/-- what `setPwm` does to the controller: only `lastSetPwm` and the device change -/
structure SetFrame (w w' : World) : Prop where
  fan : w'.fan = w.fan
  rpmWindow : w'.rpmWindow = w.rpmWindow
  offset : w'.ctl.offset = w.ctl.offset
  pwmMap : w'.ctl.pwmMap = w.ctl.pwmMap
  distinct : w'.ctl.distinct = w.ctl.distinct

theorem ctlSetPwm_frame (w : World) (t : Int) : SetFrame w (ctlSetPwm w t).1 := by
  unfold ctlSetPwm
  dsimp only
  repeat' split
  all_goals exact ⟨rfl, rfl, rfl, rfl, rfl⟩

/-- the only thing `setPwm` can write is the map output of the nearest supported input -/
theorem ctlSetPwm_obs (w : World) (t k : Int) (hk : closestDistinct w.ctl t = .ok k) :
    (ctlSetPwm w t).2.2 = [] ∨ ∃ ok, (ctlSetPwm w t).2.2 = [.wrotePwm (applyPwmMapping w.ctl k) ok] := by
  unfold ctlSetPwm
  rw [hk]
  dsimp only
  repeat' split
  all_goals first
    | (left; rfl)
    | (right; exact ⟨_, rfl⟩)

theorem ctlSetPwm_obs_any (w : World) (t : Int) :
    ∀ x ∈ (ctlSetPwm w t).2.2, ∃ v ok, x = .wrotePwm v ok := by
  unfold ctlSetPwm
  dsimp only
  repeat' split
  all_goals
    intro x hx
    first
    | (cases hx; done)
    | (simp only [List.mem_singleton] at hx; exact ⟨_, _, hx⟩)

theorem raisesOf_setPwm (w : World) (t : Int) : raisesOf (ctlSetPwm w t).2.2 = 0 :=
  raisesOf_eq_zero (fun x hx => by
    obtain ⟨v, ok, rfl⟩ := ctlSetPwm_obs_any w t x hx; rfl)

/-- the world handed to `setPwm`: manual mode has been (tried to be) switched on -/
def afterManual (w : World) : World := { w with dev := (trySetManualPwm w.fan w.dev).1 }

theorem ufs_fail {indef : Int} {w : World} {curve : Res Int} {now : Int} {w' : World} {r : Res Int}
    {o : List Obs} (h : calculateTargetPwm indef w curve now = (w', r, o)) (hr : ∀ t, r ≠ .ok t) :
    ∃ r', (∀ u, r' ≠ .ok u) ∧ updateFanSpeed indef w curve now = (w', r', o) := by
  unfold updateFanSpeed
  rw [h]
  cases r with
  | ok t => exact absurd rfl (hr t)
  | err e => exact ⟨.err e, Res.err_ne_ok e, rfl⟩
  | panic s => exact ⟨.panic s, Res.panic_ne_ok s, rfl⟩

theorem ufs_ok {indef : Int} {w : World} {curve : Res Int} {now : Int} {w' : World} {t : Int}
    {o : List Obs} (h : calculateTargetPwm indef w curve now = (w', .ok t, o)) :
    ∃ r', updateFanSpeed indef w curve now =
      ((ctlSetPwm (afterManual w') t).1, r',
        o ++ (trySetManualPwm w'.fan w'.dev).2.2 ++ (ctlSetPwm (afterManual w') t).2.2) := by
  unfold updateFanSpeed afterManual
  rw [h]
  dsimp only
  split
  · next w2 s o2 heq => exact ⟨.panic s, by rw [heq]⟩
  · next w2 r2 o2 _ heq => exact ⟨.ok (), by rw [heq]⟩

/-! ### `measureRpm` -/

theorem measureRpm_ctl (indef : Int) (w : World) : (measureRpm indef w).ctl = w.ctl := rfl
theorem measureRpm_dev (indef : Int) (w : World) : (measureRpm indef w).dev = w.dev := rfl
theorem measureRpm_rpmWindow (indef : Int) (w : World) : (measureRpm indef w).rpmWindow = w.rpmWindow := rfl

/-- the fan object after the read stored `fan.Rpm` (file/cmd fans) -/
def pollFan0 (w : World) : FanSt :=
  match fanGetRpm w.fan w.dev, w.fan.kind with
  | .ok v, .file => { w.fan with rpmInt := v }
  | .ok v, .cmd => if w.dev.hasRpm then { w.fan with rpmInt := v } else w.fan
  | _, _ => w.fan

/-- the RPM value `measureRpm` feeds into the average (0 on a read error) -/
def pollRpm (w : World) : Int :=
  match fanGetRpm w.fan w.dev with
  | .ok v => v
  | _ => 0

def pollPwm (w : World) : Int :=
  match ctlGetPwm w with
  | .ok v => v
  | _ => 0

/-- `UpdateFanRpmCurveValue` -/
def pollCurve (fan : FanSt) (pwm rpm : Int) : FanSt :=
  match fan.kind with
  | .hwmon =>
    let cd := fan.curveData.getD []
    let cd' := if cd.any (·.1 == pwm) then cd.map (fun p => if p.1 == pwm then (pwm, ofInt rpm) else p)
               else cd ++ [(pwm, ofInt rpm)]
    { fan with curveData := some cd' }
  | _ => fan

theorem measureRpm_eq (indef : Int) (w : World) :
    measureRpm indef w =
      { w with fan := pollCurve ((pollFan0 w).setRpmAvg indef
          (updateSimpleMovingAvg (pollFan0 w).getRpmAvg w.rpmWindow (ofInt (pollRpm w)))) (pollPwm w) (pollRpm w) } := rfl

theorem pollFan0_same (w : World) : FanSame w.fan (pollFan0 w) := by
  unfold pollFan0
  repeat' split
  all_goals exact ⟨rfl, rfl, rfl, rfl⟩

theorem pollCurve_same (f : FanSt) (p r : Int) : FanSame f (pollCurve f p r) := by
  unfold pollCurve
  split
  · exact ⟨rfl, rfl, rfl, rfl⟩
  · exact FanSame.refl _

theorem pollCurve_rpmAvg (f : FanSt) (p r : Int) : (pollCurve f p r).getRpmAvg = f.getRpmAvg := by
  unfold pollCurve
  split
  · next h => unfold FanSt.getRpmAvg; dsimp only
  · rfl

theorem measureRpm_fanSame (indef : Int) (w : World) : FanSame w.fan (measureRpm indef w).fan := by
  rw [measureRpm_eq]
  exact ((pollFan0_same w).trans (fanSame_setRpmAvg _ _ _)).trans (pollCurve_same _ _ _)

/-! ### one event -/

/-- what no event can change: the fan's limits, the PWM map and its supported inputs, the window
    size; `minPwmOffset` can only grow. -/
structure StepFrame (w w' : World) : Prop where
  fan : FanSame w.fan w'.fan
  rpmWindow : w'.rpmWindow = w.rpmWindow
  pwmMap : w'.ctl.pwmMap = w.ctl.pwmMap
  distinct : w'.ctl.distinct = w.ctl.distinct

/-- Complete description of one event, from which every step-level property below is read off. -/
inductive StepCase (indef : Int) (w : World) : Ev → StepOut → Prop
  | env (d : Dev) : StepCase indef w (.env d) { w := { w with dev := d }, obs := [], result := .ok () }
  | poll : StepCase indef w .poll { w := measureRpm indef w, obs := [], result := .ok () }
  | stop (curve : Res Int) (now : Int) (w' : World) (r : Res Int) (o : List Obs) (r' : Res Unit)
      (hc : CalcCase indef w curve now w' r o) (hr : ∀ t, r ≠ .ok t) (hr' : ∀ u, r' ≠ .ok u) :
      StepCase indef w (.cycle curve now) { w := w', obs := o, result := r' }
  | set (curve : Res Int) (now : Int) (w' : World) (t : Int) (o : List Obs) (r' : Res Unit)
      (hc : CalcCase indef w curve now w' (.ok t) o) :
      StepCase indef w (.cycle curve now)
        { w := (ctlSetPwm (afterManual w') t).1,
          obs := o ++ (trySetManualPwm w'.fan w'.dev).2.2 ++ (ctlSetPwm (afterManual w') t).2.2,
          result := r' }

theorem stepEv_cycle (indef : Int) (w : World) (curve : Res Int) (now : Int) :
    stepEv indef w (.cycle curve now) =
      { w := (updateFanSpeed indef w curve now).1, obs := (updateFanSpeed indef w curve now).2.2,
        result := (updateFanSpeed indef w curve now).2.1 } := rfl

theorem step_cases (indef : Int) (w : World) (e : Ev) : StepCase indef w e (stepEv indef w e) := by
  cases e with
  | env d => exact .env d
  | poll => exact .poll
  | cycle curve now =>
    have hc := calcTarget_cases indef w curve now
    rcases hcalc : calculateTargetPwm indef w curve now with ⟨w', r, o⟩
    rw [hcalc] at hc
    cases r with
    | ok t =>
      obtain ⟨r', h⟩ := ufs_ok hcalc
      have : stepEv indef w (.cycle curve now) =
          { w := (ctlSetPwm (afterManual w') t).1,
            obs := o ++ (trySetManualPwm w'.fan w'.dev).2.2 ++ (ctlSetPwm (afterManual w') t).2.2,
            result := r' } := by
        rw [stepEv_cycle, h]
      rw [this]; exact .set curve now w' t o r' hc
    | err e =>
      obtain ⟨r', hr', h⟩ := ufs_fail hcalc (Res.err_ne_ok e)
      have : stepEv indef w (.cycle curve now) = { w := w', obs := o, result := r' } := by
        rw [stepEv_cycle, h]
      rw [this]; exact .stop curve now w' _ o r' hc (Res.err_ne_ok e) hr'
    | panic s =>
      obtain ⟨r', hr', h⟩ := ufs_fail hcalc (Res.panic_ne_ok s)
      have : stepEv indef w (.cycle curve now) = { w := w', obs := o, result := r' } := by
        rw [stepEv_cycle, h]
      rw [this]; exact .stop curve now w' _ o r' hc (Res.panic_ne_ok s) hr'

theorem afterManual_setFrame (w : World) : SetFrame w (afterManual w) := ⟨rfl, rfl, rfl, rfl, rfl⟩

theorem StepCase.frame {indef : Int} {w : World} {e : Ev} {out : StepOut}
    (h : StepCase indef w e out) : StepFrame w out.w := by
  cases h with
  | env d => exact ⟨FanSame.refl _, rfl, rfl, rfl⟩
  | poll => exact ⟨measureRpm_fanSame indef w, rfl, rfl, rfl⟩
  | stop curve now w' r o r' hc =>
    have f := hc.frame
    exact ⟨f.fan, f.rpmWindow, f.pwmMap, f.distinct⟩
  | set curve now w' t o r' hc =>
    have f := hc.frame
    have g := ctlSetPwm_frame (afterManual w') t
    have a := afterManual_setFrame w'
    refine ⟨?_, ?_, ?_, ?_⟩
    · show FanSame w.fan (ctlSetPwm (afterManual w') t).1.fan
      rw [g.fan, a.fan]; exact f.fan
    · show (ctlSetPwm (afterManual w') t).1.rpmWindow = _
      rw [g.rpmWindow, a.rpmWindow, f.rpmWindow]
    · show (ctlSetPwm (afterManual w') t).1.ctl.pwmMap = _
      rw [g.pwmMap, a.pwmMap, f.pwmMap]
    · show (ctlSetPwm (afterManual w') t).1.ctl.distinct = _
      rw [g.distinct, a.distinct, f.distinct]

/-- every announced raise is one increment of the offset; nothing else touches it -/
theorem StepCase.offset {indef : Int} {w : World} {e : Ev} {out : StepOut}
    (h : StepCase indef w e out) : out.w.ctl.offset = w.ctl.offset + (raisesOf out.obs : Int) := by
  cases h with
  | env d => simp [raisesOf]
  | poll => simp [raisesOf, measureRpm_ctl]
  | stop curve now w' r o r' hc => exact hc.offset
  | set curve now w' t o r' hc =>
    have g := ctlSetPwm_frame (afterManual w') t
    have a := afterManual_setFrame w'
    show (ctlSetPwm (afterManual w') t).1.ctl.offset = _
    rw [g.offset, a.offset, hc.offset]
    show _ = _ + ((raisesOf (o ++ (trySetManualPwm w'.fan w'.dev).2.2 ++ (ctlSetPwm (afterManual w') t).2.2) : Nat) : Int)
    rw [raisesOf_append, raisesOf_append, raisesOf_wroteMode (trySetManualPwm_obs _ _), raisesOf_setPwm]
    simp

theorem StepCase.getMin {indef : Int} {w : World} {e : Ev} {out : StepOut}
    (h : StepCase indef w e out) : out.w.fan.getMin = w.fan.getMin := h.frame.fan.getMin

theorem StepCase.getMax {indef : Int} {w : World} {e : Ev} {out : StepOut}
    (h : StepCase indef w e out) : out.w.fan.getMax = w.fan.getMax := h.frame.fan.getMax

theorem StepCase.floor {indef : Int} {w : World} {e : Ev} {out : StepOut}
    (h : StepCase indef w e out) : out.w.floor = w.floor + (raisesOf out.obs : Int) := by
  unfold World.floor; rw [h.getMin, h.offset]; omega

theorem StepCase.inv {indef : Int} {w : World} {e : Ev} {out : StepOut}
    (hinv : Inv w) (h : StepCase indef w e out) : Inv out.w := by
  have hf := h.frame
  cases h with
  | env d => exact hinv.of_same (FanSame.refl _) rfl rfl rfl
  | poll => exact hinv.of_same hf.fan rfl rfl rfl
  | stop curve now w' r o r' hc => exact hc.inv hinv
  | set curve now w' t o r' hc =>
    have i1 := hc.inv hinv
    have g := ctlSetPwm_frame (afterManual w') t
    have a := afterManual_setFrame w'
    exact i1.of_same (by rw [g.fan, a.fan]; exact FanSame.refl _) (by rw [g.pwmMap, a.pwmMap])
      (by rw [g.distinct, a.distinct]) (by rw [g.offset, a.offset])

/-- every request announced by an event lies within `[floor before, max]` and above the floor after -/
theorem StepCase.requested {indef : Int} {w : World} {e : Ev} {out : StepOut}
    (hinv : Inv w) (h : StepCase indef w e out) {t : Int} (ht : Obs.requested t ∈ out.obs) :
    w.floor ≤ t ∧ t ≤ w.fan.getMax ∧ out.w.floor ≤ t := by
  cases h with
  | env d => cases ht
  | poll => cases ht
  | stop curve now w' r o r' hc hr =>
    rcases hc.obs_kind ht with h | h | ⟨t', h, hok⟩ | ⟨h, _⟩
    · cases h
    · cases h
    · exact absurd hok (hr t')
    · cases h
  | set curve now w' t0 o r' hc =>
    have hrange := hc.range hinv
    have g := ctlSetPwm_frame (afterManual w') t0
    have a := afterManual_setFrame w'
    have hfl : (ctlSetPwm (afterManual w') t0).1.floor = w'.floor := by
      unfold World.floor; rw [g.fan, g.offset, a.fan, a.offset]
    have : t = t0 := by
      have ht' : Obs.requested t ∈ o ++ (trySetManualPwm w'.fan w'.dev).2.2 ++ (ctlSetPwm (afterManual w') t0).2.2 := ht
      rcases List.mem_append.mp ht' with h | h
      · rcases List.mem_append.mp h with h | h
        · rcases hc.obs_kind h with h | h | ⟨t', h, hok⟩ | ⟨h, _⟩
          · cases h
          · cases h
          · injection h with h; injection hok with hok; omega
          · cases h
        · have := trySetManualPwm_obs _ _ _ h; cases this
      · obtain ⟨v, ok, h⟩ := ctlSetPwm_obs_any _ _ _ h; cases h
    subst this
    show _ ∧ _ ∧ (ctlSetPwm (afterManual w') t).1.floor ≤ t
    rw [hfl]; exact hrange

/-- every value written by an event is the map output of a supported input nearest the request -/
theorem StepCase.wrote {indef : Int} {w : World} {e : Ev} {out : StepOut}
    (hinv : Inv w) (h : StepCase indef w e out) {v : Int} {ok : Bool} (hv : Obs.wrotePwm v ok ∈ out.obs) :
    ∃ t k m, Obs.requested t ∈ out.obs ∧ w.ctl.pwmMap = some m ∧ closestDistinct w.ctl t = .ok k ∧
      (∃ i, i < w.ctl.distinct.size ∧ w.ctl.distinct[i]! = k) ∧ v = mapGet m k ∧ 0 ≤ v ∧ v ≤ 255 := by
  cases h with
  | env d => cases hv
  | poll => cases hv
  | stop curve now w' r o r' hc hr =>
    rcases hc.obs_kind hv with h | h | ⟨t', h, hok⟩ | ⟨h, _⟩ <;> cases h
  | set curve now w' t o r' hc =>
    have f := hc.frame
    have a := afterManual_setFrame w'
    obtain ⟨m, hm, hmok, hd⟩ := hinv.map_some
    obtain ⟨k, hk, hmem⟩ := hinv.closest_ok t
    have hk' : closestDistinct (afterManual w').ctl t = .ok k := by
      unfold closestDistinct at hk ⊢; rw [a.distinct, f.distinct]; exact hk
    have hmap : applyPwmMapping (afterManual w').ctl k = mapGet m k := by
      unfold applyPwmMapping; rw [a.pwmMap, f.pwmMap, hm]
    have hv' : Obs.wrotePwm v ok ∈ o ++ (trySetManualPwm w'.fan w'.dev).2.2 ++ (ctlSetPwm (afterManual w') t).2.2 := hv
    have hreq : Obs.requested t ∈ o ++ (trySetManualPwm w'.fan w'.dev).2.2 ++ (ctlSetPwm (afterManual w') t).2.2 :=
      List.mem_append_left _ (List.mem_append_left _ hc.requested_mem)
    have hveq : v = mapGet m k := by
      rcases List.mem_append.mp hv' with h | h
      · rcases List.mem_append.mp h with h | h
        · rcases hc.obs_kind h with h | h | ⟨t', h, hok⟩ | ⟨h, _⟩ <;> cases h
        · have := trySetManualPwm_obs _ _ _ h; cases this
      · rcases ctlSetPwm_obs _ t k hk' with h0 | ⟨ok', h0⟩
        · rw [h0] at h; cases h
        · rw [h0, hmap] at h
          simp only [List.mem_cons, List.not_mem_nil, or_false] at h
          injection h
    have hr := mapGet_range hmok k
    exact ⟨t, k, m, hreq, hm, hk, hmem, hveq, by rw [hveq]; exact hr.1, by rw [hveq]; exact hr.2⟩

/-! ### runs -/

theorem runEvs_cons (indef : Int) (w : World) (e : Ev) (es : List Ev) :
    runEvs indef w (e :: es) =
      (w, e, stepEv indef w e) ::
        (match (stepEv indef w e).result with
         | .ok _ => runEvs indef (stepEv indef w e).w es
         | _ => []) := by
  rw [runEvs]; split <;> simp_all

/-- the tail of a trace is the trace of the tail -/
theorem runEvs_tail (indef : Int) (w : World) (e : Ev) (es : List Ev) :
    ∃ es', runEvs indef w (e :: es) = (w, e, stepEv indef w e) :: runEvs indef (stepEv indef w e).w es' := by
  rw [runEvs_cons]
  split
  · exact ⟨es, rfl⟩
  · exact ⟨[], rfl⟩

/-- every pre-state of a run from an `Inv` world satisfies `Inv`, and each recorded outcome is the
    step of its pre-state -/
theorem run_pre_inv (indef : Int) (es : List Ev) : ∀ (w : World), Inv w →
    ∀ x ∈ runEvs indef w es, Inv x.1 ∧ x.2.2 = stepEv indef x.1 x.2.1 := by
  induction es with
  | nil => intro w _ x hx; cases hx
  | cons e es ih =>
    intro w hinv x hx
    rw [runEvs_cons] at hx
    rcases List.mem_cons.mp hx with h | h
    · subst h; exact ⟨hinv, rfl⟩
    · split at h
      · exact ih _ ((step_cases indef w e).inv hinv) x h
      · cases h

theorem run_final_inv (indef : Int) (es : List Ev) : ∀ (w : World), Inv w → Inv (runFinal indef w es) := by
  induction es with
  | nil => intro w h; exact h
  | cons e es ih =>
    intro w hinv
    rw [runFinal]
    have := (step_cases indef w e).inv hinv
    split
    · exact ih _ this
    · exact this

/-! ### a write does happen (used for non-vacuity) -/

theorem setPwmEnabled_pwmRead (f : FanSt) (d : Dev) (v : Int) :
    (setPwmEnabled f d v).1.pwmRead = d.pwmRead := by
  unfold setPwmEnabled
  dsimp only
  repeat' split
  all_goals rfl

theorem trySetManualPwm_pwmRead (f : FanSt) (d : Dev) : (trySetManualPwm f d).1.pwmRead = d.pwmRead := by
  unfold trySetManualPwm
  split
  · rfl
  · have h1 := setPwmEnabled_pwmRead f d 1
    split
    · next d' o heq => rw [heq] at h1; exact h1
    · next d' r o _ heq =>
      rw [heq] at h1
      have h2 := setPwmEnabled_pwmRead f d' 0
      show (setPwmEnabled f d' 0).1.pwmRead = _
      rw [h2, h1]

/-- a controller that cannot read the PWM register back writes on every successful cycle -/
theorem ctlSetPwm_writes_blind (w : World) (t k : Int) (hk : closestDistinct w.ctl t = .ok k)
    (hb : supports w.fan w.dev .pwmSensor = false) :
    ∃ ok, (ctlSetPwm w t).2.2 = [.wrotePwm (applyPwmMapping w.ctl k) ok] := by
  unfold ctlSetPwm
  rw [hk]
  dsimp only
  rw [hb]
  exact ⟨_, rfl⟩

theorem step_writes_blind {indef : Int} {w : World} {curve : Res Int} {now : Int} {w' : World} {t : Int}
    {o : List Obs} (hinv : Inv w) (hk : w.fan.kind ≠ .cmd) (hb : w.dev.pwmRead ≠ .ok)
    (h : calculateTargetPwm indef w curve now = (w', .ok t, o)) :
    ∃ v ok, Obs.wrotePwm v ok ∈ (stepEv indef w (.cycle curve now)).obs := by
  have hc := calcTarget_cases' h
  have f := hc.frame
  obtain ⟨r', hu⟩ := ufs_ok h
  rw [stepEv_cycle, hu]
  obtain ⟨k, hk', -⟩ := (hc.inv hinv).closest_ok t
  have hblind : supports (afterManual w').fan (afterManual w').dev .pwmSensor = false := by
    show supports w'.fan (trySetManualPwm w'.fan w'.dev).1 .pwmSensor = false
    unfold supports
    rw [f.fan.kind, trySetManualPwm_pwmRead, f.dev]
    cases hkind : w.fan.kind with
    | cmd => exact absurd hkind hk
    | hwmon => simp only []; cases hr : w.dev.pwmRead <;> simp_all
    | file => simp only []; cases hr : w.dev.pwmRead <;> simp_all
  obtain ⟨ok, hw⟩ := ctlSetPwm_writes_blind (afterManual w') t k hk' hblind
  refine ⟨applyPwmMapping (afterManual w').ctl k, ok, ?_⟩
  show _ ∈ o ++ (trySetManualPwm w'.fan w'.dev).2.2 ++ (ctlSetPwm (afterManual w') t).2.2
  rw [hw]
  exact List.mem_append_right _ List.mem_cons_self

end Fan2go
