/-
  Proofs about `util.FindClosest` (binary search for the nearest element of a sorted slice)
  and `util.ExtractKeysWithDistinctValues`, over the models in `Fan2go/Model/Util.lean`.
  Core Lean only.
-/
import Fan2go.Model.Util
namespace Fan2go

/-! ## Specification vocabulary -/

/-- strictly increasing array -/
def StrictSorted (arr : Array Int) : Prop := ∀ i j, i < j → j < arr.size → arr[i]! < arr[j]!

/-- r is an element of arr nearest to t -/
def Nearest (arr : Array Int) (t r : Int) : Prop :=
  (∃ i, i < arr.size ∧ arr[i]! = r) ∧ ∀ i, i < arr.size → (r - t).natAbs ≤ (arr[i]! - t).natAbs

theorem StrictSorted.le {arr : Array Int} (hs : StrictSorted arr) {i j : Nat}
    (hij : i ≤ j) (hj : j < arr.size) : arr[i]! ≤ arr[j]! := by
  rcases Nat.lt_or_eq_of_le hij with h | h
  · exact Int.le_of_lt (hs i j h hj)
  · subst h; exact Int.le_refl _

/-- Two adjacent elements strictly bracketing `t`: `getClosest` of them is globally nearest. -/
theorem nearest_bracket {arr : Array Int} (hs : StrictSorted arr) {t : Int} {a b : Nat}
    (hab : b = a + 1) (hb : b < arr.size) (h1 : arr[a]! < t) (h2 : t < arr[b]!) :
    Nearest arr t (getClosest arr[a]! arr[b]! t) := by
  have key : ∀ k, k < arr.size → arr[k]! ≤ arr[a]! ∨ arr[b]! ≤ arr[k]! := by
    intro k hk
    by_cases h : k ≤ a
    · left; exact hs.le h (by omega)
    · right; exact hs.le (by omega) hk
  unfold getClosest
  split
  · refine ⟨⟨b, hb, rfl⟩, fun k hk => ?_⟩
    have := key k hk
    omega
  · refine ⟨⟨a, by omega, rfl⟩, fun k hk => ?_⟩
    have := key k hk
    omega

/-- An element equal to `t` is nearest to `t`. -/
theorem nearest_eq {arr : Array Int} {t : Int} {m : Nat} (hm : m < arr.size) (h : arr[m]! = t) :
    Nearest arr t arr[m]! := by
  refine ⟨⟨m, hm, rfl⟩, fun k _ => ?_⟩
  omega

/-! ## The binary-search loop -/

/-- What the loop actually returns: either an exact hit, or `getClosest` of the two adjacent elements
    strictly bracketing the target. -/
def Picks (arr : Array Int) (t r : Int) : Prop :=
  (∃ m, m < arr.size ∧ arr[m]! = t ∧ r = t) ∨
  (∃ a, a + 1 < arr.size ∧ arr[a]! < t ∧ t < arr[a + 1]! ∧ r = getClosest arr[a]! arr[a + 1]! t)

theorem Picks.nearest {arr : Array Int} (hs : StrictSorted arr) {t r : Int} (h : Picks arr t r) :
    Nearest arr t r := by
  rcases h with ⟨m, hm, he, rfl⟩ | ⟨a, ha, h1, h2, rfl⟩
  · have := nearest_eq hm he; rwa [he] at this
  · exact nearest_bracket hs rfl ha h1 h2

/-- Loop invariant ⇒ the loop returns an exact hit or the better of the two bracketing neighbours.
    Invariant on entry: `i < j ≤ size`, everything left of `i` is `< t`, everything from `j` on is `> t`,
    and (from the two early returns of `findClosest`) `arr[0] < t < arr[size-1]`.
    In particular the `else arr[mid]` fall-through (`i ≥ j`) is never reached. -/
theorem findClosestLoop_picks {arr : Array Int} (hs : StrictSorted arr) {t : Int}
    (h0 : arr[0]! < t) (hN : t < arr[arr.size - 1]!) :
    ∀ (n i j mid : Nat), j - i = n → i < j → j ≤ arr.size →
      (∀ k, k < i → arr[k]! < t) → (∀ k, j ≤ k → k < arr.size → t < arr[k]!) →
      Picks arr t (findClosestLoop arr t i j mid) := by
  intro n
  induction n using Nat.strongRecOn with
  | _ n ih =>
    intro i j mid hn hij hj hlo hhi
    unfold findClosestLoop
    rw [if_pos hij]
    have hm1 : i ≤ (i + j) / 2 := by omega
    have hm2 : (i + j) / 2 < j := by omega
    generalize (i + j) / 2 = m at hm1 hm2
    simp only []
    by_cases heq : arr[m]! = t
    · rw [if_pos heq]; exact .inl ⟨m, by omega, heq, heq⟩
    · rw [if_neg heq]
      by_cases hlt : t < arr[m]!
      · rw [if_pos hlt]
        by_cases hc : m > 0 ∧ t > arr[m - 1]!
        · rw [if_pos hc]
          obtain ⟨a, rfl⟩ : ∃ a, m = a + 1 := ⟨m - 1, by omega⟩
          rw [Nat.add_sub_cancel] at hc ⊢
          exact .inr ⟨a, by omega, hc.2, hlt, rfl⟩
        · rw [if_neg hc]
          -- recurse on (i, m)
          have him : i < m := by
            rcases Nat.lt_or_eq_of_le hm1 with h | h
            · exact h
            · exfalso
              subst h
              by_cases hz : i = 0
              · subst hz; omega
              · have := hlo (i - 1) (by omega)
                have : ¬ (t > arr[i - 1]!) := fun h => hc ⟨by omega, h⟩
                omega
          refine ih (m - i) (by omega) i m m rfl him (by omega) hlo ?_
          intro k hk hks
          have := hs.le hk hks
          omega
      · rw [if_neg hlt]
        have hgt : arr[m]! < t := by omega
        by_cases hc : m < arr.size - 1 ∧ t < arr[m + 1]!
        · rw [if_pos hc]
          exact .inr ⟨m, by omega, hgt, hc.2, rfl⟩
        · rw [if_neg hc]
          -- recurse on (m+1, j)
          have hmj : m + 1 < j := by
            rcases Nat.lt_or_eq_of_le (Nat.succ_le_of_lt hm2) with h | h
            · exact h
            · exfalso
              by_cases hz : j = arr.size
              · have : m = arr.size - 1 := by omega
                subst this; omega
              · have h3 := hhi (m + 1) (by omega) (by omega)
                exact hc ⟨by omega, h3⟩
          refine ih (j - (m + 1)) (by omega) (m + 1) j m rfl hmj hj ?_ hhi
          intro k hk
          have := hs.le (show k ≤ m by omega) (by omega)
          omega

/-- Bounds-safety of the loop, no sortedness needed: every index used is in range and the result is
    an element (including the `else arr[mid]` fall-through, since `mid < size` is maintained). -/
theorem findClosestLoop_mem (arr : Array Int) (t : Int) :
    ∀ (n i j mid : Nat), j - i = n → j ≤ arr.size → mid < arr.size →
      ∃ k, k < arr.size ∧ arr[k]! = findClosestLoop arr t i j mid := by
  intro n
  induction n using Nat.strongRecOn with
  | _ n ih =>
    intro i j mid hn hj hmid
    unfold findClosestLoop
    by_cases hij : i < j
    · rw [if_pos hij]
      have hm1 : i ≤ (i + j) / 2 := by omega
      have hm2 : (i + j) / 2 < j := by omega
      generalize (i + j) / 2 = m at hm1 hm2
      simp only []
      split
      · exact ⟨m, by omega, rfl⟩
      · split
        · split
          · unfold getClosest
            split
            · exact ⟨m, by omega, rfl⟩
            · exact ⟨m - 1, by omega, rfl⟩
          · exact ih (m - i) (by omega) i m m rfl (by omega) (by omega)
        · split
          · next hc =>
            unfold getClosest
            split
            · exact ⟨m + 1, by omega, rfl⟩
            · exact ⟨m, by omega, rfl⟩
          · exact ih (j - (m + 1)) (by omega) (m + 1) j m rfl hj (by omega)
    · rw [if_neg hij]
      exact ⟨mid, hmid, rfl⟩

/-! ## `findClosest` -/

/-- 5. Empty slice: Go panics with index out of range. -/
theorem findClosest_empty (t : Int) : findClosest t #[] = .panic "index-out-of-range" := by
  simp [findClosest]

/-- 4a. Target at or below the first element. -/
theorem findClosest_low {arr : Array Int} {t : Int} (hne : arr.size ≠ 0) (h : t ≤ arr[0]!) :
    findClosest t arr = .ok arr[0]! := by
  unfold findClosest
  rw [if_neg hne, if_pos h]

/-- 4b. Target at or above the last element. -/
theorem findClosest_high {arr : Array Int} {t : Int} (hne : arr.size ≠ 0) (h1 : ¬ t ≤ arr[0]!)
    (h : t ≥ arr[arr.size - 1]!) : findClosest t arr = .ok arr[arr.size - 1]! := by
  unfold findClosest
  rw [if_neg hne, if_neg h1, if_pos h]

/-- In the remaining case the loop runs. -/
theorem findClosest_mid {arr : Array Int} {t : Int} (hne : arr.size ≠ 0) (h1 : ¬ t ≤ arr[0]!)
    (h : ¬ t ≥ arr[arr.size - 1]!) :
    findClosest t arr = .ok (findClosestLoop arr t 0 arr.size 0) := by
  unfold findClosest
  rw [if_neg hne, if_neg h1, if_neg h]

/-- Strictly between first and last element: exact hit or better bracketing neighbour. -/
theorem findClosest_picks {arr : Array Int} {t : Int} (hne : arr.size ≠ 0) (hs : StrictSorted arr)
    (h1 : ¬ t ≤ arr[0]!) (h2 : ¬ t ≥ arr[arr.size - 1]!) :
    Picks arr t (findClosestLoop arr t 0 arr.size 0) :=
  findClosestLoop_picks hs (by omega) (by omega) arr.size 0 arr.size 0 rfl
    (by omega) (Nat.le_refl _) (fun k hk => absurd hk (Nat.not_lt_zero k))
    (fun k hk hk' => by omega)

/-- 1. Main theorem: on a non-empty strictly sorted slice `FindClosest` returns a nearest element. -/
theorem findClosest_nearest (arr : Array Int) (t : Int) (hne : arr.size ≠ 0)
    (hs : StrictSorted arr) : ∃ r, findClosest t arr = .ok r ∧ Nearest arr t r := by
  by_cases h1 : t ≤ arr[0]!
  · refine ⟨_, findClosest_low hne h1, ⟨0, by omega, rfl⟩, fun k hk => ?_⟩
    have := hs.le (Nat.zero_le k) hk
    omega
  · by_cases h2 : t ≥ arr[arr.size - 1]!
    · refine ⟨_, findClosest_high hne h1 h2, ⟨arr.size - 1, by omega, rfl⟩, fun k hk => ?_⟩
      have := hs.le (show k ≤ arr.size - 1 by omega) (by omega)
      omega
    · refine ⟨_, findClosest_mid hne h1 h2, ?_⟩
      exact (findClosest_picks hne hs h1 h2).nearest hs

/-- 2. Without any sortedness assumption: on a non-empty slice `FindClosest` does not panic and the
    result is an element of the slice (every index used is in bounds). -/
theorem findClosest_mem (arr : Array Int) (t : Int) (hne : arr.size ≠ 0) :
    ∃ r, findClosest t arr = .ok r ∧ ∃ i, i < arr.size ∧ arr[i]! = r := by
  by_cases h1 : t ≤ arr[0]!
  · exact ⟨_, findClosest_low hne h1, 0, by omega, rfl⟩
  · by_cases h2 : t ≥ arr[arr.size - 1]!
    · exact ⟨_, findClosest_high hne h1 h2, arr.size - 1, by omega, rfl⟩
    · exact ⟨_, findClosest_mid hne h1 h2,
        findClosestLoop_mem arr t arr.size 0 arr.size 0 rfl (Nat.le_refl _) (by omega)⟩

/-- `findClosest` never panics or errors on a non-empty slice. -/
theorem findClosest_ok (arr : Array Int) (t : Int) (hne : arr.size ≠ 0) :
    ∃ r, findClosest t arr = .ok r :=
  let ⟨r, h, _⟩ := findClosest_mem arr t hne; ⟨r, h⟩

/-- 3. Searching for an element finds exactly that element. -/
theorem findClosest_exact (arr : Array Int) (hne : arr.size ≠ 0) (hs : StrictSorted arr)
    (i : Nat) (hi : i < arr.size) : findClosest arr[i]! arr = .ok arr[i]! := by
  obtain ⟨r, hr, -, hn⟩ := findClosest_nearest arr arr[i]! hne hs
  have := hn i hi
  have : r = arr[i]! := by omega
  rw [hr, this]

/-- 6. Monotone in the target (this includes the equidistant tie-break: by determinism the same
    target always picks the same neighbour, and distinct targets cannot cross). -/
theorem findClosest_mono (arr : Array Int) (hne : arr.size ≠ 0) (hs : StrictSorted arr)
    {t t' : Int} (h : t ≤ t') {r r' : Int}
    (h1 : findClosest t arr = .ok r) (h2 : findClosest t' arr = .ok r') : r ≤ r' := by
  obtain ⟨r0, e0, ⟨a, ha, hra⟩, hn0⟩ := findClosest_nearest arr t hne hs
  obtain ⟨r1, e1, ⟨b, hb, hrb⟩, hn1⟩ := findClosest_nearest arr t' hne hs
  rw [e0] at h1; rw [e1] at h2
  injection h1 with h1; injection h2 with h2
  subst h1 h2
  by_cases htt : t = t'
  · subst htt
    rw [e0] at e1
    injection e1 with e1
    omega
  · have c1 := hn0 b hb
    have c2 := hn1 a ha
    rw [hra] at c2; rw [hrb] at c1
    omega

/-- Tie-break made explicit: when `t` is exactly half-way between adjacent elements, the upper one
    is returned. -/
theorem getClosest_tie (a b t : Int) (h : t - a = b - t) : getClosest a b t = b := by
  unfold getClosest
  rw [if_pos (by omega)]

/-- Tie-break at the `findClosest` level: a target exactly half-way between two adjacent elements
    resolves to the upper one. -/
theorem findClosest_tie (arr : Array Int) (hs : StrictSorted arr) (t : Int) (a : Nat)
    (ha : a + 1 < arr.size) (h : t - arr[a]! = arr[a + 1]! - t) :
    findClosest t arr = .ok arr[a + 1]! := by
  have hlt := hs a (a + 1) (by omega) ha
  have hlo := hs.le (Nat.zero_le a) (by omega)
  have hhi := hs.le (show a + 1 ≤ arr.size - 1 by omega) (by omega)
  have hne : arr.size ≠ 0 := by omega
  have h1 : ¬ t ≤ arr[0]! := by omega
  have h2 : ¬ t ≥ arr[arr.size - 1]! := by omega
  rw [findClosest_mid hne h1 h2]
  rcases findClosest_picks hne hs h1 h2 with ⟨m, hm, he, hr⟩ | ⟨b, hb, hb1, hb2, hr⟩
  · exfalso
    by_cases hma : m ≤ a
    · have := hs.le hma (by omega); omega
    · have := hs.le (show a + 1 ≤ m by omega) hm; omega
  · have : b = a := by
      by_cases c1 : b < a
      · have := hs.le (show b + 1 ≤ a by omega) (by omega); omega
      · by_cases c2 : a < b
        · have := hs.le (show a + 1 ≤ b by omega) (by omega); omega
        · omega
    subst this
    rw [hr, getClosest_tie _ _ _ h]

/-! ## `extractKeys` (`util.ExtractKeysWithDistinctValues`) -/

/-- After processing an entry `(k, v)` the loop state `lastValue` is always `v`. -/
theorem extractKeysAux_cons (last k v : Int) (rest : List (Int × Int)) :
    extractKeysAux last ((k, v) :: rest) =
      (if last = -1 ∨ last ≠ v then [k] else []) ++ extractKeysAux v rest := by
  rw [extractKeysAux]
  split
  · rfl
  · next h =>
    have : last = v := by omega
    subst this; rfl

theorem extractKeysAux_sublist (last : Int) (m : List (Int × Int)) :
    (extractKeysAux last m).Sublist (m.map Prod.fst) := by
  induction m generalizing last with
  | nil => simp [extractKeysAux]
  | cons p rest ih =>
    obtain ⟨k, v⟩ := p
    rw [extractKeysAux_cons]
    split
    · simpa using (ih v)
    · simpa using (ih v).cons k

theorem extractKeysAux_append (last : Int) (pre rest : List (Int × Int)) :
    ∃ last', extractKeysAux last (pre ++ rest) = extractKeysAux last pre ++ extractKeysAux last' rest := by
  induction pre generalizing last with
  | nil => exact ⟨last, by simp [extractKeysAux]⟩
  | cons p pre ih =>
    obtain ⟨k, v⟩ := p
    obtain ⟨l', h⟩ := ih v
    refine ⟨l', ?_⟩
    rw [List.cons_append, extractKeysAux_cons, extractKeysAux_cons, h, List.append_assoc]

/-- 7a. The extracted keys are strictly increasing. -/
theorem extractKeys_sorted (m : List (Int × Int)) (hk : m.Pairwise (fun a b => a.1 < b.1)) :
    (extractKeys m).Pairwise (· < ·) := by
  have : (m.map Prod.fst).Pairwise (· < ·) := by
    rw [List.pairwise_map]; exact hk
  exact this.sublist (extractKeysAux_sublist _ m)

/-- 7b. Every extracted key is a key of the map. -/
theorem extractKeys_sub (m : List (Int × Int)) : ∀ k ∈ extractKeys m, ∃ v, (k, v) ∈ m := by
  intro k hk
  have := (extractKeysAux_sublist (-1) m).subset hk
  rw [List.mem_map] at this
  obtain ⟨⟨k', v⟩, hm, rfl⟩ := this
  exact ⟨v, hm⟩

/-- 7c. The first key is always extracted, first. -/
theorem extractKeys_cons (k v : Int) (rest : List (Int × Int)) :
    extractKeys ((k, v) :: rest) = k :: extractKeysAux v rest := by
  unfold extractKeys
  rw [extractKeysAux_cons]
  simp

theorem extractKeys_head? (m : List (Int × Int)) :
    (extractKeys m).head? = m.head?.map Prod.fst := by
  cases m with
  | nil => rfl
  | cons p rest => obtain ⟨k, v⟩ := p; rw [extractKeys_cons]; rfl

theorem extractKeys_ne_nil (m : List (Int × Int)) : m ≠ [] → extractKeys m ≠ [] := by
  intro h
  cases m with
  | nil => exact absurd rfl h
  | cons p rest => obtain ⟨k, v⟩ := p; rw [extractKeys_cons]; exact List.cons_ne_nil _ _

/-- 7d. Run detection: a non-first key is extracted iff its value differs from the previous entry's value
    (keys strictly increasing, values never the sentinel `-1`). -/
theorem extractKeys_runs (m pre post : List (Int × Int)) (k0 v0 k v : Int)
    (hk : m.Pairwise (fun a b => a.1 < b.1)) (hv : ∀ p ∈ m, p.2 ≠ -1)
    (hm : m = pre ++ [(k0, v0), (k, v)] ++ post) :
    (k ∈ extractKeys m ↔ v ≠ v0) := by
  subst hm
  have hv0 : v0 ≠ -1 := hv (k0, v0) (by simp)
  -- keys of `pre` and `post` and `k0` differ from `k`
  have hpre : ∀ p ∈ pre, p.1 < k := by
    intro p hp
    have := (List.pairwise_append.mp (List.pairwise_append.mp hk).1).2.2 p hp (k, v) (by simp)
    exact this
  have hk0 : k0 < k := by
    have := (List.pairwise_append.mp (List.pairwise_append.mp hk).1).2.1
    simpa using this
  have hpost : ∀ p ∈ post, k < p.1 := by
    intro p hp
    exact (List.pairwise_append.mp hk).2.2 (k, v) (by simp) p hp
  have npre : ∀ l, k ∉ extractKeysAux l pre := by
    intro l hmem
    have := (extractKeysAux_sublist l pre).subset hmem
    rw [List.mem_map] at this
    obtain ⟨p, hp, rfl⟩ := this
    exact absurd (hpre p hp) (Int.lt_irrefl _)
  have npost : ∀ l, k ∉ extractKeysAux l post := by
    intro l hmem
    have := (extractKeysAux_sublist l post).subset hmem
    rw [List.mem_map] at this
    obtain ⟨p, hp, rfl⟩ := this
    exact absurd (hpost p hp) (Int.lt_irrefl _)
  unfold extractKeys
  rw [List.append_assoc]
  obtain ⟨l', hl⟩ := extractKeysAux_append (-1) pre ([(k0, v0), (k, v)] ++ post)
  rw [hl]
  simp only [List.cons_append, List.nil_append, extractKeysAux_cons, List.mem_append]
  constructor
  · rintro (h | h | h | h)
    · exact absurd h (npre _)
    · split at h
      · simp at h; omega
      · simp at h
    · split at h
      · next hc => intro e; omega
      · simp at h
    · exact absurd h (npost _)
  · intro hne
    right; right; left
    rw [if_pos (Or.inr (fun e => hne e.symm))]
    simp

/-- 7e. With the sentinel value `-1` present in the map, run detection is defeated:
    two consecutive equal values `-1` both get extracted. -/
theorem extractKeys_sentinel_counterexample :
    extractKeys [(0, -1), (1, -1)] = [0, 1] ∧ extractKeys [(0, 5), (1, 5)] = [0] := by
  decide

#print axioms findClosest_nearest
#print axioms findClosest_mem
#print axioms findClosest_exact
#print axioms findClosest_low
#print axioms findClosest_high
#print axioms findClosest_empty
#print axioms findClosest_mono
#print axioms findClosest_tie
#print axioms extractKeys_sorted
#print axioms extractKeys_sub
#print axioms extractKeys_ne_nil
#print axioms extractKeys_head?
#print axioms extractKeys_runs
#print axioms extractKeys_sentinel_counterexample

end Fan2go
