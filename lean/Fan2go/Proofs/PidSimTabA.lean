/- kernel-evaluated exploration tables for Proofs/PidSim.lean (part A); each `decide +kernel`
   evaluates the integer model `simOk`/`simOkU` on a block of starting errors. -/
import Fan2go.Proofs.PidSim
namespace Fan2go

set_option maxRecDepth 100000 in
theorem simTabU_1 : simTabU 1 128 = true := by decide +kernel

set_option maxRecDepth 100000 in
theorem simTabU_129 : simTabU 129 127 = true := by decide +kernel

set_option maxRecDepth 100000 in
theorem simTabB_1 : simTabB 1 16 = true := by decide +kernel

set_option maxRecDepth 100000 in
theorem simTabB_17 : simTabB 17 16 = true := by decide +kernel

set_option maxRecDepth 100000 in
theorem simTabB_33 : simTabB 33 16 = true := by decide +kernel

set_option maxRecDepth 100000 in
theorem simTabB_49 : simTabB 49 16 = true := by decide +kernel

set_option maxRecDepth 100000 in
theorem simTabB_65 : simTabB 65 16 = true := by decide +kernel

set_option maxRecDepth 100000 in
theorem simTabB_81 : simTabB 81 16 = true := by decide +kernel

end Fan2go
