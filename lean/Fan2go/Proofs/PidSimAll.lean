/-
  Assembly: every fresh start (curve value c, first request x0, both in 0..255) of the integer model
  reaches the end test within 20 cycles on every branch; hence the binary64 closed loop at the
  default tick (200 ms) requests exactly c from cycle 6820 on.
-/
import Fan2go.Proofs.PidSimTabA
import Fan2go.Proofs.PidSimTabB
import Fan2go.Proofs.PidSimTabC
import Fan2go.Proofs.PidSimTabD
namespace Fan2go
open F64

theorem simTabU_get {lo n : Nat} (h : simTabU lo n = true) {e0 : Nat} (h1 : lo ≤ e0)
    (h2 : e0 < lo + n) :
    simOkU (-((e0 : Int) / 16 + 2)) e0 20 e0 0 e0 = true ∧
    simOkU (-(e0 : Int)) ((e0 : Int) / 16 + 2) 20 (-(e0 : Int)) 0 (-(e0 : Int)) = true := by
  have := List.all_eq_true.mp h (e0 - lo) (List.mem_range.mpr (by omega))
  rw [show lo + (e0 - lo) = e0 by omega, Bool.and_eq_true] at this
  exact this

theorem simU_all {e0 : Nat} (h1 : 1 ≤ e0) (h2 : e0 ≤ 255) :
    simOkU (-((e0 : Int) / 16 + 2)) e0 20 e0 0 e0 = true ∧
    simOkU (-(e0 : Int)) ((e0 : Int) / 16 + 2) 20 (-(e0 : Int)) 0 (-(e0 : Int)) = true := by
  by_cases h : e0 < 129
  · exact simTabU_get simTabU_1 h1 (by omega)
  · exact simTabU_get simTabU_129 (by omega) (by omega)

theorem simTabB_get {lo n : Nat} (h : simTabB lo n = true) {e0 j : Nat} (h1 : lo ≤ e0)
    (h2 : e0 < lo + n) (hj : j < e0 / 16 + 2) :
    ((255 : Int) - j - e0 < 0 ∨ simOk (255 - (j : Int)) 20 (255 - (j : Int) - e0) 0 e0 = true) ∧
    ((255 : Int) < j + e0 ∨ simOk j 20 ((j : Int) + e0) 0 (-(e0 : Int)) = true) := by
  have := List.all_eq_true.mp h (e0 - lo) (List.mem_range.mpr (by omega))
  rw [show lo + (e0 - lo) = e0 by omega] at this
  have := List.all_eq_true.mp this j (List.mem_range.mpr hj)
  simpa only [Bool.and_eq_true, Bool.or_eq_true, decide_eq_true_eq] using this

theorem simB_all {e0 j : Nat} (h1 : 1 ≤ e0) (h2 : e0 ≤ 255) (hj : j < e0 / 16 + 2) :
    ((255 : Int) - j - e0 < 0 ∨ simOk (255 - (j : Int)) 20 (255 - (j : Int) - e0) 0 e0 = true) ∧
    ((255 : Int) < j + e0 ∨ simOk j 20 ((j : Int) + e0) 0 (-(e0 : Int)) = true) := by
  by_cases h1 : e0 < 17
  · exact simTabB_get simTabB_1 (by omega) (by omega) hj
  by_cases h17 : e0 < 33
  · exact simTabB_get simTabB_17 (by omega) (by omega) hj
  by_cases h33 : e0 < 49
  · exact simTabB_get simTabB_33 (by omega) (by omega) hj
  by_cases h49 : e0 < 65
  · exact simTabB_get simTabB_49 (by omega) (by omega) hj
  by_cases h65 : e0 < 81
  · exact simTabB_get simTabB_65 (by omega) (by omega) hj
  by_cases h81 : e0 < 97
  · exact simTabB_get simTabB_81 (by omega) (by omega) hj
  by_cases h97 : e0 < 113
  · exact simTabB_get simTabB_97 (by omega) (by omega) hj
  by_cases h113 : e0 < 129
  · exact simTabB_get simTabB_113 (by omega) (by omega) hj
  by_cases h129 : e0 < 145
  · exact simTabB_get simTabB_129 (by omega) (by omega) hj
  by_cases h145 : e0 < 161
  · exact simTabB_get simTabB_145 (by omega) (by omega) hj
  by_cases h161 : e0 < 177
  · exact simTabB_get simTabB_161 (by omega) (by omega) hj
  by_cases h177 : e0 < 193
  · exact simTabB_get simTabB_177 (by omega) (by omega) hj
  by_cases h193 : e0 < 209
  · exact simTabB_get simTabB_193 (by omega) (by omega) hj
  by_cases h209 : e0 < 225
  · exact simTabB_get simTabB_209 (by omega) (by omega) hj
  by_cases h225 : e0 < 241
  · exact simTabB_get simTabB_225 (by omega) (by omega) hj
  exact simTabB_get simTabB_241 (by omega) (by omega) hj

/-- every fresh start of the integer model passes the exploration. -/
theorem simOk_fresh {c x0 : Int} (hc0 : 0 ≤ c) (hc1 : c ≤ 255) (hx0 : 0 ≤ x0) (hx1 : x0 ≤ 255) :
    simOk c 20 x0 0 (c - x0) = true := by
  rcases lt_trichotomy (c - x0) 0 with hneg | hz | hpos
  · -- the request starts above the curve value
    obtain ⟨n, hn⟩ := Int.eq_ofNat_of_zero_le (by omega : 0 ≤ x0 - c)
    have hn1 : 1 ≤ n := by omega
    have hn2 : n ≤ 255 := by omega
    have he : c - x0 = -(n : Int) := by omega
    by_cases hint : (n : Int) / 16 + 2 ≤ c
    · have := (simU_all hn1 hn2).2
      rw [he]
      have h2 := simOk_of_U (a := -(n : Int)) (b := (n : Int) / 16 + 2) (c := c) hint (by omega) 20
        x0 0 (-(n : Int)) (by omega) (by omega) (by rw [he]; exact this)
      exact h2
    · obtain ⟨j, hj⟩ := Int.eq_ofNat_of_zero_le hc0
      have hjlt : j < n / 16 + 2 := by omega
      have := (simB_all hn1 hn2 hjlt).2
      rcases this with h | h
      · omega
      · rw [he, hj, show x0 = (j : Int) + n by omega]; exact h
  · have hx : x0 = c := by omega
    rw [hx]
    unfold simOk
    have : simDone c c 0 (c - c) = true := by
      simp [simDone, simRest]
    rw [this]; rfl
  · obtain ⟨n, hn⟩ := Int.eq_ofNat_of_zero_le (by omega : 0 ≤ c - x0)
    have hn1 : 1 ≤ n := by omega
    have hn2 : n ≤ 255 := by omega
    by_cases hint : c ≤ 255 - ((n : Int) / 16 + 2)
    · have := (simU_all hn1 hn2).1
      rw [hn]
      have h2 := simOk_of_U (a := -((n : Int) / 16 + 2)) (b := (n : Int)) (c := c) (by omega)
        (by omega) 20 x0 0 (n : Int) (by omega) (by omega) (by rw [hn]; exact this)
      exact h2
    · obtain ⟨j, hj⟩ := Int.eq_ofNat_of_zero_le (by omega : 0 ≤ 255 - c)
      have hjlt : j < n / 16 + 2 := by omega
      have := (simB_all hn1 hn2 hjlt).1
      rcases this with h | h
      · omega
      · rw [hn, show c = 255 - (j : Int) by omega, show x0 = 255 - (j : Int) - n by omega]; exact h

theorem tick5_200ms : Tick5 (secOf 200000000) := by
  have := (tickOk_of_seconds (d := 200000000) (by norm_num) (by norm_num)).2.2
  refine ⟨?_⟩
  have e : ((200000000 : Int) : ℚ) / 1000000000 = 1 / 5 := by norm_num
  rw [e] at this; exact this

/-- **Fresh loop, default gains, default tick (200 ms), identity range, constant curve value `c`:**
    whatever the first request `x0` is, the binary64 closed loop requests exactly `c` at every cycle
    from the 6820-th on. (Cycle 0 is the first call of the loop, which only records the clock.) -/
theorem pid_fresh_settles_200ms (indef : Int) {c x0 : Int} (now0 : Int) (hc0 : 0 ≤ c) (hc1 : c ≤ 255)
    (hx0 : 0 ≤ x0) (hx1 : x0 ≤ 255) :
    ∀ n, 6820 ≤ n →
      (pidRunC indef c 200000000 now0 (pidClosed indef c (pidFresh, x0) now0) n).2 = c := by
  obtain ⟨r0, hx, hI, hE⟩ := pidFresh_first indef (now := now0) hc0 hc1 hx0 hx1
  have T := pidRunC_traj indef r0 hc0 hc1 (dt := 200000000) (by norm_num) (by norm_num)
  have ht := tick5_200ms
  have h0 : pidRunC indef c 200000000 now0 (pidClosed indef c (pidFresh, x0) now0) 0
      = pidClosed indef c (pidFresh, x0) now0 := rfl
  obtain ⟨i, hi, hd⟩ := simOk_sound T ht (by
      show |errOf (pidRunC indef c 200000000 now0 (pidClosed indef c (pidFresh, x0) now0) 0).1| ≤ 255
      rw [h0, hE, abs_le]; constructor <;> omega)
    20 0 0 x0 0 (c - x0) (simOk_fresh hc0 hc1 hx0 hx1)
    (by show (pidRunC indef c 200000000 now0 _ 0).2 = x0; rw [h0, hx])
    (by show errOf (pidRunC indef c 200000000 now0 _ 0).1 = c - x0; rw [h0, hE])
    (by show |intOf (pidRunC indef c 200000000 now0 _ 0).1 - ((0 : Int) : ℚ) / 5| ≤ ((0 : Nat) : ℚ) / 2 ^ 29
        rw [h0, hI]; norm_num)
    (by norm_num)
  intro n hn
  have := T.settle_of_done ht hd n (by omega)
  exact this

end Fan2go
#print axioms Fan2go.pid_fresh_settles_200ms
