/-
  Range of what the control loops hand to the controller (`DirectControlLoop.Cycle`,
  `PidControlLoop.Cycle`): both end with `int(math.Round(util.Coerce(x, 0, 255)))`, which is a byte
  unless `x` is NaN – then it is Go's implementation-defined `int(NaN)`.
  The PID dynamics are never unfolded.
-/
import Fan2go.Proofs.Rescale
import Fan2go.Model.ControlLoop
namespace Fan2go
open F64

theorem ofRat_not_nan (x : ℚ) : F64.ofRat x ≠ F64.nan := by
  unfold F64.ofRat; dsimp only; split
  · intro h; cases h
  · split <;> (intro h; cases h)

theorem ofInt_not_nan (n : Int) : ofInt n ≠ F64.nan := ofRat_not_nan _

theorem ofInt_zero_fin : ofInt 0 = F64.fin 0 := by
  have := ofInt_small (n := 0) (by norm_num); simpa using this

theorem ofInt_255_fin : ofInt 255 = F64.fin 255 := by
  have := ofInt_small (n := 255) (by norm_num); simpa using this

/-- `util.Coerce(x, 0, 255)` is NaN exactly for NaN, else a finite value in `[0, 255]`. -/
theorem coerce_byte (x : F64) :
    (x = F64.nan ∧ coerce x (ofInt 0) (ofInt 255) = F64.nan) ∨
    (x ≠ F64.nan ∧ ∃ q : ℚ, coerce x (ofInt 0) (ofInt 255) = F64.fin q ∧ 0 ≤ q ∧ q ≤ 255) := by
  rw [ofInt_zero_fin, ofInt_255_fin]
  cases x with
  | nan => left; exact ⟨rfl, rfl⟩
  | inf s =>
    right; refine ⟨(fun h => by cases h), ?_⟩
    cases s with
    | false => exact ⟨255, rfl, by norm_num, le_refl _⟩
    | true => exact ⟨0, rfl, le_refl _, by norm_num⟩
  | fin q =>
    right; refine ⟨(fun h => by cases h), ?_⟩
    unfold coerce gt lt
    by_cases h1 : (255 : ℚ) < q
    · refine ⟨255, ?_, by norm_num, le_refl _⟩
      simp only [h1, decide_true, if_true]
    · by_cases h2 : q < 0
      · refine ⟨0, ?_, le_refl _, by norm_num⟩
        simp only [h1, h2, decide_true, decide_false, if_true]
        rfl
      · refine ⟨q, ?_, by linarith, by linarith⟩
        simp only [h1, h2, decide_false]
        rfl

theorem toInt_fin_intCast (indef n : Int) (h0 : 0 ≤ n) (h1 : n ≤ 255) :
    toInt indef (F64.fin (n : ℚ)) = n := by
  rw [toInt_fin_of_nonneg indef (by exact_mod_cast h0)]
  · exact Int.floor_intCast n
  · have : (n : ℚ) ≤ 255 := by exact_mod_cast h1
    linarith [show (255 : ℚ) < 2 ^ 63 by norm_num]

theorem roundRat_byte {q : ℚ} (h0 : 0 ≤ q) (h1 : q ≤ 255) : 0 ≤ roundRat q ∧ roundRat q ≤ 255 := by
  unfold roundRat
  rw [if_pos h0]
  show 0 ≤ ⌊q + 1 / 2⌋ ∧ ⌊q + 1 / 2⌋ ≤ 255
  constructor
  · exact Int.floor_nonneg.mpr (by linarith)
  · have : ⌊q + 1 / 2⌋ < 256 := by
      rw [Int.floor_lt]; push_cast; linarith
    omega

theorem roundRat_of_intCast (n : Int) (h0 : 0 ≤ n) : roundRat (n : ℚ) = n := by
  unfold roundRat
  rw [if_pos (by exact_mod_cast h0)]
  show ⌊(n : ℚ) + 1 / 2⌋ = n
  rw [Int.floor_eq_iff]; constructor <;> linarith

/-- The common tail of both control loops. -/
theorem loopTail_range (indef : Int) (x : F64) :
    (x ≠ F64.nan ∧ 0 ≤ toInt indef (round (coerce x (ofInt 0) (ofInt 255))) ∧
        toInt indef (round (coerce x (ofInt 0) (ofInt 255))) ≤ 255) ∨
    (x = F64.nan ∧ toInt indef (round (coerce x (ofInt 0) (ofInt 255))) = indef) := by
  rcases coerce_byte x with ⟨hx, hc⟩ | ⟨hx, q, hc, h0, h1⟩
  · right; rw [hc]; exact ⟨hx, rfl⟩
  · left; rw [hc]
    have hr := roundRat_byte h0 h1
    show _ ∧ 0 ≤ toInt indef (F64.fin ((roundRat q : Int) : ℚ)) ∧ toInt indef (F64.fin ((roundRat q : Int) : ℚ)) ≤ 255
    rw [toInt_fin_intCast indef _ hr.1 hr.2]
    exact ⟨hx, hr⟩

/-- `DirectControlLoop.Cycle`: a byte, or `int(NaN)`. -/
theorem directCycle_range (indef : Int) (m : Option Int) (target current : Int) :
    (0 ≤ directCycle indef m target current ∧ directCycle indef m target current ≤ 255) ∨
      directCycle indef m target current = indef := by
  unfold directCycle
  dsimp only
  rcases loopTail_range indef (match m with
    | none => ofInt target
    | some maxChange =>
      ofInt current + coerce (ofInt (target - current)) (neg (ofInt maxChange)) (ofInt maxChange)) with h | h
  · left; exact h.2
  · right; exact h.2

/-- without a rate limit the direct loop always returns a byte -/
theorem directCycle_none_range (indef target current : Int) :
    0 ≤ directCycle indef none target current ∧ directCycle indef none target current ≤ 255 := by
  unfold directCycle
  dsimp only
  rcases loopTail_range indef (ofInt target) with h | h
  · exact h.2
  · exact absurd h.1 (ofInt_not_nan _)

theorem coerce_ne_nan {x lo hi : F64} (hx : x ≠ F64.nan) (hlo : lo ≠ F64.nan) (hhi : hi ≠ F64.nan) :
    coerce x lo hi ≠ F64.nan := by
  unfold coerce; split
  · exact hhi
  · split
    · exact hlo
    · exact hx

theorem neg_ne_nan {x : F64} (hx : x ≠ F64.nan) : neg x ≠ F64.nan := by
  cases x with
  | nan => exact absurd rfl hx
  | inf s => intro h; cases h
  | fin q => intro h; cases h

theorem fin_add_ne_nan (a : ℚ) {y : F64} (hy : y ≠ F64.nan) : (F64.fin a + y : F64) ≠ F64.nan := by
  cases y with
  | nan => exact absurd rfl hy
  | inf s => intro h; cases h
  | fin b => exact ofRat_not_nan _

/-- with a rate limit the direct loop returns a byte whenever `current` is exactly representable
    (always the case for a Go `int` fed from `lastSetPwm`/a PWM register) -/
theorem directCycle_range_of_current (indef : Int) (m : Option Int) (target current : Int)
    (hc : |current| ≤ 2 ^ 53) :
    0 ≤ directCycle indef m target current ∧ directCycle indef m target current ≤ 255 := by
  cases m with
  | none => exact directCycle_none_range indef target current
  | some mc =>
    unfold directCycle
    dsimp only
    rcases loopTail_range indef
      (ofInt current + coerce (ofInt (target - current)) (neg (ofInt mc)) (ofInt mc)) with h | h
    · exact h.2
    · exfalso
      rw [ofInt_small hc] at h
      exact fin_add_ne_nan _ (coerce_ne_nan (ofInt_not_nan _) (neg_ne_nan (ofInt_not_nan _)) (ofInt_not_nan _)) h.1

/-- a byte target passes the unlimited direct loop unchanged -/
theorem directCycle_none_byte (indef target current : Int) (h0 : 0 ≤ target) (h1 : target ≤ 255) :
    directCycle indef none target current = target := by
  unfold directCycle
  dsimp only
  rw [ofInt_small (small_of_byte h0 h1), ofInt_zero_fin, ofInt_255_fin]
  have hq0 : (0 : ℚ) ≤ target := by exact_mod_cast h0
  have hq1 : (target : ℚ) ≤ 255 := by exact_mod_cast h1
  have : coerce (F64.fin (target : ℚ)) (F64.fin 0) (F64.fin 255) = F64.fin (target : ℚ) := by
    unfold coerce gt lt
    simp only [not_lt.mpr hq1, not_lt.mpr hq0, decide_false]
    rfl
  rw [this]
  show toInt indef (F64.fin ((roundRat (target : ℚ) : Int) : ℚ)) = target
  rw [roundRat_of_intCast _ h0, toInt_fin_intCast indef _ h0 h1]

/-- `PidControlLoop.Cycle`: a byte, or `int(NaN)` (the PID output may be NaN or ±Inf; ±Inf is
    coerced, NaN is not). -/
theorem pidCycle_range (indef : Int) (st : PidSt) (target current now : Int) :
    (0 ≤ (pidCycle indef st target current now).2 ∧ (pidCycle indef st target current now).2 ≤ 255) ∨
      (pidCycle indef st target current now).2 = indef := by
  unfold pidCycle
  dsimp only
  rcases loopTail_range indef
    (ofInt current + (pidLoop st (ofInt target) (ofInt current) now).2) with h | h
  · left; exact h.2
  · right; exact h.2

/-- every control loop returns a byte or Go's `int(NaN)` -/
theorem loopCycle_range (indef : Int) (l : LoopSt) (target current now : Int) :
    (0 ≤ (l.cycle indef target current now).2 ∧ (l.cycle indef target current now).2 ≤ 255) ∨
      (l.cycle indef target current now).2 = indef := by
  cases l with
  | direct m => exact directCycle_range indef m target current
  | pid st => exact pidCycle_range indef st target current now

/-- Witness that the `int(NaN)` alternative is real: a PID loop called twice at the same clock
    reading with an unchanged error computes `0/0`. The result is `indef` (amd64: `-2^63`), which only
    the controller's own clamp (controller.go:445-452) brings back into `0..255`. -/
theorem pidCycle_nan_witness (indef : Int) :
    (pidCycle indef { p := F64.fin 1, i := F64.fin 0, d := F64.fin 0, lastTime := some 0 } 0 0 0).2 = indef := by
  have hz : F64.ofRat 0 = F64.fin 0 := ofRat_zero
  have e0 : ofInt 0 = F64.fin 0 := ofInt_zero_fin
  have hsec : secondsOfNanos (0 - 0) = F64.fin 0 := by
    unfold secondsOfNanos
    have h1 : Int.tdiv (0 - 0) 1000000000 = 0 := by decide
    have h2 : Int.tmod (0 - 0) 1000000000 = 0 := by decide
    have e9 : ofInt 1000000000 = F64.fin ((1000000000 : Int) : ℚ) := ofInt_small (by norm_num)
    dsimp only
    rw [h1, h2, e0, e9]
    have : F64.div (F64.fin 0) (F64.fin ((1000000000 : Int) : ℚ)) = F64.fin 0 := by
      have := F64.fin_div_fin 0 ((1000000000 : Int) : ℚ) (by norm_num)
      rw [zero_div, hz] at this; exact this
    rw [this]
    show F64.ofRat (0 + 0) = _
    rw [add_zero, hz]
  have hsub : (F64.fin 0 - F64.fin 0 : F64) = F64.fin 0 := by
    rw [F64.fin_sub_fin, sub_zero, hz]
  have hdiv : (F64.fin 0 / F64.fin 0 : F64) = F64.nan := by
    show F64.div (F64.fin 0) (F64.fin 0) = _
    simp [F64.div]
  have hmulnan : ∀ x : F64, (x * F64.nan : F64) = F64.nan := by
    intro x; cases x <;> rfl
  have haddnan : ∀ x : F64, (x + F64.nan : F64) = F64.nan := by
    intro x; cases x <;> rfl
  unfold pidCycle pidLoop
  dsimp only
  rw [e0, hsec]
  simp only [F64.zero, hsub, hdiv, hmulnan, haddnan]
  rw [ofInt_255_fin]
  rfl

end Fan2go
