/-
  Proofs about internal/fans/{common,hwmon}.go as modelled in Model/Fan.lean:
  `boundariesLoop` computes the specification functions `specStart` / `specMax`, the shape of
  `FanSt.attach`, and the invariant "a configured limit is never replaced" along arbitrary
  operation sequences.
-/
import Fan2go.Proofs.F64OpsB
import Fan2go.Model.Fan
namespace Fan2go
open F64

/-! ### specification functions, written from the property text -/

/-- the measured RPM of a data point "in whole RPM" (Go `int(rpm)`). -/
def rpmOf (indef : Int) (p : Int × F64) : Int := toInt indef p.2

/-- keys strictly increasing (Go: `sort.Ints(keys)` of a map's key set). -/
def KeysSorted (d : List (Int × F64)) : Prop := d.Pairwise (fun p q => p.1 < q.1)

/-- "the lowest measured PWM with non-zero RPM" (255 when no point rotates); the data are sorted by
    key, so the lowest is the first. -/
def specStart (indef : Int) (d : List (Int × F64)) : Int :=
  match d.find? (fun p => decide (0 < rpmOf indef p)) with
  | some p => p.1
  | none => 255

/-- "the highest RPM (in whole RPM)", 0 when nothing rotates. -/
def specMaxRpm (indef : Int) (d : List (Int × F64)) : Int := (d.map (rpmOf indef)).foldl max 0

/-- "the lowest measured PWM at which the highest RPM is reached" (255 when nothing rotates). -/
def specMax (indef : Int) (d : List (Int × F64)) : Int :=
  if 0 < specMaxRpm indef d then
    match d.find? (fun p => decide (rpmOf indef p = specMaxRpm indef d)) with
    | some p => p.1
    | none => 255
  else 255

/-! ### generic facts about `find?` on key-sorted data and about `foldl max` -/

theorem find_sorted_lowest {d : List (Int × F64)} (hs : KeysSorted d) {P : Int × F64 → Bool}
    {p : Int × F64} (h : d.find? P = some p) : p ∈ d ∧ P p = true ∧ ∀ q ∈ d, P q = true → p.1 ≤ q.1 := by
  induction d with
  | nil => simp at h
  | cons a r ih =>
    have hs' := List.pairwise_cons.mp hs
    rw [List.find?_cons] at h
    cases hP : P a with
    | true =>
      rw [hP] at h; simp only [Option.some.injEq] at h; subst h
      refine ⟨List.mem_cons_self, hP, ?_⟩
      intro q hq _
      rcases List.mem_cons.mp hq with rfl | hq
      · exact le_rfl
      · exact (hs'.1 q hq).le
    | false =>
      rw [hP] at h
      obtain ⟨m, pp, low⟩ := ih hs'.2 h
      refine ⟨List.mem_cons_of_mem _ m, pp, ?_⟩
      intro q hq hPq
      rcases List.mem_cons.mp hq with rfl | hq
      · rw [hP] at hPq; cases hPq
      · exact low q hq hPq

theorem foldl_max_ge_init (l : List Int) (m : Int) : m ≤ l.foldl max m := by
  induction l generalizing m with
  | nil => exact le_rfl
  | cons a r ih => exact (le_max_left m a).trans (ih (max m a))

theorem foldl_max_ge_mem (l : List Int) (m : Int) : ∀ x ∈ l, x ≤ l.foldl max m := by
  induction l generalizing m with
  | nil => intro x hx; cases hx
  | cons a r ih =>
    intro x hx
    rcases List.mem_cons.mp hx with rfl | hx
    · exact (le_max_right m x).trans (foldl_max_ge_init r (max m x))
    · exact ih (max m a) x hx

theorem foldl_max_mem_or (l : List Int) (m : Int) : l.foldl max m = m ∨ l.foldl max m ∈ l := by
  induction l generalizing m with
  | nil => left; rfl
  | cons a r ih =>
    rcases ih (max m a) with h | h
    · rcases max_choice m a with hc | hc
      · left; rw [List.foldl_cons, h, hc]
      · right; rw [List.foldl_cons, h, hc]; exact List.mem_cons_self
    · right; exact List.mem_cons_of_mem _ h

/-! ### `specStart`, `specMax` say what the property text says -/

theorem specStart_none (indef : Int) (d : List (Int × F64))
    (h : ∀ p ∈ d, rpmOf indef p ≤ 0) : specStart indef d = 255 := by
  unfold specStart
  have : d.find? (fun p => decide (0 < rpmOf indef p)) = none := by
    rw [List.find?_eq_none]; intro p hp; simpa using h p hp
  rw [this]

theorem specStart_lowest (indef : Int) {d : List (Int × F64)} (hs : KeysSorted d)
    (h : ∃ p ∈ d, 0 < rpmOf indef p) :
    ∃ p ∈ d, p.1 = specStart indef d ∧ 0 < rpmOf indef p ∧
      ∀ q ∈ d, 0 < rpmOf indef q → specStart indef d ≤ q.1 := by
  unfold specStart
  cases hf : d.find? (fun p => decide (0 < rpmOf indef p)) with
  | none =>
    obtain ⟨p, hp, hpos⟩ := h
    rw [List.find?_eq_none] at hf
    have := hf p hp; simp at this; omega
  | some p =>
    obtain ⟨m, pp, low⟩ := find_sorted_lowest hs hf
    refine ⟨p, m, rfl, by simpa using pp, ?_⟩
    intro q hq hpos
    exact low q hq (by simpa using hpos)

theorem specMaxRpm_ge (indef : Int) (d : List (Int × F64)) :
    0 ≤ specMaxRpm indef d ∧ ∀ p ∈ d, rpmOf indef p ≤ specMaxRpm indef d :=
  ⟨foldl_max_ge_init _ 0, fun p hp =>
    foldl_max_ge_mem _ 0 _ (List.mem_map.mpr ⟨p, hp, rfl⟩)⟩

theorem specMax_none (indef : Int) (d : List (Int × F64))
    (h : ∀ p ∈ d, rpmOf indef p ≤ 0) : specMax indef d = 255 := by
  unfold specMax
  rw [if_neg]
  rcases foldl_max_mem_or (d.map (rpmOf indef)) 0 with h0 | hm
  · unfold specMaxRpm; omega
  · obtain ⟨p, hp, he⟩ := List.mem_map.mp hm
    have := h p hp
    unfold specMaxRpm; omega

theorem specMax_lowest (indef : Int) {d : List (Int × F64)} (hs : KeysSorted d)
    (h : ∃ p ∈ d, 0 < rpmOf indef p) :
    ∃ p ∈ d, p.1 = specMax indef d ∧ (∀ q ∈ d, rpmOf indef q ≤ rpmOf indef p) ∧
      ∀ q ∈ d, (∀ r ∈ d, rpmOf indef r ≤ rpmOf indef q) → specMax indef d ≤ q.1 := by
  obtain ⟨p0, hp0, hpos0⟩ := h
  obtain ⟨_, hge⟩ := specMaxRpm_ge indef d
  have hMpos : 0 < specMaxRpm indef d := lt_of_lt_of_le hpos0 (hge p0 hp0)
  have hmem : specMaxRpm indef d ∈ d.map (rpmOf indef) := by
    rcases foldl_max_mem_or (d.map (rpmOf indef)) 0 with h0 | hm
    · unfold specMaxRpm at hMpos; omega
    · exact hm
  obtain ⟨pm, hpm, hpme⟩ := List.mem_map.mp hmem
  unfold specMax
  rw [if_pos hMpos]
  cases hf : d.find? (fun p => decide (rpmOf indef p = specMaxRpm indef d)) with
  | none =>
    rw [List.find?_eq_none] at hf
    have := hf pm hpm; simp at this; exact absurd hpme this
  | some p =>
    obtain ⟨m, pp, low⟩ := find_sorted_lowest hs hf
    have ppe : rpmOf indef p = specMaxRpm indef d := by simpa using pp
    refine ⟨p, m, rfl, ?_, ?_⟩
    · intro q hq; rw [ppe]; exact hge q hq
    · intro q hq hq'
      apply low q hq
      have h1 := hq' pm hpm
      have h2 := hge q hq
      simp only [decide_eq_true_eq]; omega

/-! ### the loop of `ComputePwmBoundaries` -/

theorem boundariesLoop_cons (indef : Int) (k : Int) (v : F64) (rest : List (Int × F64))
    (mr mp sp : Int) :
    boundariesLoop indef ((k, v) :: rest) (mr, mp, sp) =
      boundariesLoop indef rest
        (if toInt indef v > mr then toInt indef v else mr,
         if toInt indef v > mr then k else mp,
         if toInt indef v > 0 ∧ k < sp then k else sp) := by
  simp only [boundariesLoop]
  split_ifs <;> rfl

/-- once the start candidate is below every remaining key it no longer changes. -/
theorem bl_start_stable (indef : Int) (d : List (Int × F64)) (mr mp sp : Int)
    (h : ∀ p ∈ d, sp ≤ p.1) : (boundariesLoop indef d (mr, mp, sp)).2.2 = sp := by
  induction d generalizing mr mp with
  | nil => rfl
  | cons a r ih =>
    obtain ⟨k, v⟩ := a
    rw [boundariesLoop_cons]
    have hk : sp ≤ k := h (k, v) List.mem_cons_self
    have hsp : (if toInt indef v > 0 ∧ k < sp then k else sp) = sp := by
      rw [if_neg (by omega)]
    rw [hsp]
    exact ih _ _ (fun p hp => h p (List.mem_cons_of_mem _ hp))

theorem bl_start (indef : Int) (d : List (Int × F64)) (hs : KeysSorted d) (mr mp sp : Int)
    (h : ∀ p ∈ d, p.1 ≤ sp) :
    (boundariesLoop indef d (mr, mp, sp)).2.2 =
      match d.find? (fun p => decide (0 < rpmOf indef p)) with
      | some p => p.1
      | none => sp := by
  induction d generalizing mr mp with
  | nil => rfl
  | cons a r ih =>
    obtain ⟨k, v⟩ := a
    have hs' := List.pairwise_cons.mp hs
    have hk : k ≤ sp := h (k, v) List.mem_cons_self
    rw [boundariesLoop_cons, List.find?_cons]
    by_cases hpos : 0 < toInt indef v
    · have : decide (0 < rpmOf indef (k, v)) = true := decide_eq_true hpos
      simp only [this]
      have hsp : (if toInt indef v > 0 ∧ k < sp then k else sp) = k := by
        split_ifs <;> omega
      rw [hsp]
      exact bl_start_stable indef r _ _ k (fun p hp => (hs'.1 p hp).le)
    · have : decide (0 < rpmOf indef (k, v)) = false := decide_eq_false hpos
      simp only [this]
      have hsp : (if toInt indef v > 0 ∧ k < sp then k else sp) = sp := by
        rw [if_neg (by omega)]
      rw [hsp]
      exact ih hs'.2 _ _ (fun p hp => h p (List.mem_cons_of_mem _ hp))

theorem find_max_some (indef : Int) (r : List (Int × F64)) (mr : Int)
    (h : mr < (r.map (rpmOf indef)).foldl max mr) :
    ∃ p, r.find? (fun p => decide (rpmOf indef p = (r.map (rpmOf indef)).foldl max mr)) = some p := by
  rcases foldl_max_mem_or (r.map (rpmOf indef)) mr with h0 | hm
  · omega
  · obtain ⟨p, hp, he⟩ := List.mem_map.mp hm
    cases hf : r.find? (fun p => decide (rpmOf indef p = (r.map (rpmOf indef)).foldl max mr)) with
    | some q => exact ⟨q, rfl⟩
    | none =>
      rw [List.find?_eq_none] at hf
      have := hf p hp
      simp only [decide_eq_true_eq] at this
      exact absurd he this

theorem bl_max (indef : Int) (d : List (Int × F64)) (mr mp sp : Int) :
    (boundariesLoop indef d (mr, mp, sp)).1 = (d.map (rpmOf indef)).foldl max mr ∧
    (boundariesLoop indef d (mr, mp, sp)).2.1 =
      if mr < (d.map (rpmOf indef)).foldl max mr then
        match d.find? (fun p => decide (rpmOf indef p = (d.map (rpmOf indef)).foldl max mr)) with
        | some p => p.1
        | none => mp
      else mp := by
  induction d generalizing mr mp sp with
  | nil => simp [boundariesLoop]
  | cons a r ih =>
    obtain ⟨k, v⟩ := a
    rw [boundariesLoop_cons, List.map_cons, List.foldl_cons, List.find?_cons]
    have hrk : rpmOf indef (k, v) = toInt indef v := rfl
    rw [hrk]
    by_cases hgt : toInt indef v > mr
    · rw [if_pos hgt, if_pos hgt, max_eq_right (le_of_lt hgt)]
      obtain ⟨i1, i2⟩ := ih (toInt indef v) k (if toInt indef v > 0 ∧ k < sp then k else sp)
      refine ⟨i1, ?_⟩
      rw [i2]
      have hge := foldl_max_ge_init (r.map (rpmOf indef)) (toInt indef v)
      rw [if_pos (lt_of_lt_of_le hgt hge)]
      by_cases he : toInt indef v = (r.map (rpmOf indef)).foldl max (toInt indef v)
      · rw [if_neg (by omega)]
        have : decide (toInt indef v = (r.map (rpmOf indef)).foldl max (toInt indef v)) = true :=
          decide_eq_true he
        simp only [this]
      · have hlt : toInt indef v < (r.map (rpmOf indef)).foldl max (toInt indef v) := by omega
        rw [if_pos hlt]
        have : decide (toInt indef v = (r.map (rpmOf indef)).foldl max (toInt indef v)) = false :=
          decide_eq_false he
        simp only [this]
        obtain ⟨q, hq⟩ := find_max_some indef r _ hlt
        rw [hq]
    · rw [if_neg hgt, if_neg hgt, max_eq_left (not_lt.mp hgt)]
      obtain ⟨i1, i2⟩ := ih mr mp (if toInt indef v > 0 ∧ k < sp then k else sp)
      refine ⟨i1, ?_⟩
      rw [i2]
      split_ifs with hlt
      · have : decide (toInt indef v = (r.map (rpmOf indef)).foldl max mr) = false :=
          decide_eq_false (by omega)
        simp only [this]
      · rfl

/-- `ComputePwmBoundaries` for key-sorted data with keys ≤ 255. -/
theorem computePwmBoundaries_spec (indef : Int) (user : Int) (d : List (Int × F64))
    (hs : KeysSorted d) (hk : ∀ p ∈ d, p.1 ≤ 255) :
    computePwmBoundaries indef user d =
      (if user < 255 then user else specStart indef d, specMax indef d) := by
  have h1 := bl_start indef d hs 0 255 255 hk
  have h2 := (bl_max indef d 0 255 255).2
  unfold computePwmBoundaries
  generalize boundariesLoop indef d (0, 255, 255) = t at h1 h2
  obtain ⟨x, y, z⟩ := t
  simp only at h1 h2 ⊢
  rw [h1, h2]
  rfl

/-! ### `AttachFanRpmCurveData` -/

/-- what a successful attachment does to a hwmon fan. -/
def attachOk (indef : Int) (f : FanSt) (d : List (Int × F64)) : FanSt :=
  let b := computePwmBoundaries indef f.getStart d
  ((({ f with curveData := some d }).setStart b.1 false).setMax b.2 false).setMin b.1 false

theorem attach_hwmon_ne (indef : Int) (f : FanSt) (hk : f.kind = .hwmon) (d : List (Int × F64))
    (hd : d ≠ []) : f.attach indef (some d) = (attachOk indef f d, .ok ()) := by
  obtain ⟨kind, ns, cmin, cstart, cmax, minP, startP, maxP, ra, ri, cd⟩ := f
  simp only at hk; subst hk
  cases d with
  | nil => exact absurd rfl hd
  | cons p r => rfl

theorem attach_hwmon_empty (indef : Int) (f : FanSt) (hk : f.kind = .hwmon) :
    f.attach indef (some []) = (f, .err "invalid") ∧ f.attach indef none = (f, .err "invalid") := by
  unfold FanSt.attach; rw [hk]; exact ⟨rfl, rfl⟩

theorem attach_other (indef : Int) (f : FanSt) (hk : f.kind ≠ .hwmon)
    (d : Option (List (Int × F64))) : f.attach indef d = (f, .ok ()) := by
  unfold FanSt.attach
  cases h : f.kind <;> simp_all

/-! ### limits along operation sequences -/

/-- the operations that can touch the limits of a fan during normal operation
    (the setters are always called with `force = false` there). -/
inductive LimOp where
  | attach (d : Option (List (Int × F64)))
  | setMin (v : Int)
  | setStart (v : Int)
  | setMax (v : Int)

def LimOp.apply (indef : Int) (f : FanSt) : LimOp → FanSt
  | .attach d => (f.attach indef d).1
  | .setMin v => f.setMin v false
  | .setStart v => f.setStart v false
  | .setMax v => f.setMax v false

def runLimOps (indef : Int) (f : FanSt) (ops : List LimOp) : FanSt := ops.foldl (LimOp.apply indef) f

/-- same configuration, and every configured limit is the effective one. -/
structure CfgKept (f0 f : FanSt) : Prop where
  kind : f.kind = f0.kind
  ns : f.neverStop = f0.neverStop
  cmin : f.cfgMin = f0.cfgMin
  cstart : f.cfgStart = f0.cfgStart
  cmax : f.cfgMax = f0.cfgMax
  wmin : ∀ v, f0.cfgMin = some v → f.minP = some v
  wstart : ∀ v, f0.cfgStart = some v → f.startP = some v
  wmax : ∀ v, f0.cfgMax = some v → f.maxP = some v

theorem cfgKept_new (kind : FanKind) (ns : Bool) (a b c : Option Int) :
    CfgKept (FanSt.new kind ns a b c) (FanSt.new kind ns a b c) :=
  ⟨rfl, rfl, rfl, rfl, rfl, fun _ h => h, fun _ h => h, fun _ h => h⟩

theorem cfgKept_setMin {f0 f : FanSt} (h : CfgKept f0 f) (v : Int) :
    CfgKept f0 (f.setMin v false) := by
  obtain ⟨kind, ns, cmin, cstart, cmax, minP, startP, maxP, ra, ri, cd⟩ := f
  cases kind
  · cases cmin with
    | none => exact ⟨h.kind, h.ns, h.cmin, h.cstart, h.cmax, fun w hw => absurd (h.cmin.trans hw) (by simp), h.wstart, h.wmax⟩
    | some w => exact h
  · exact h
  · exact h

theorem cfgKept_setStart {f0 f : FanSt} (h : CfgKept f0 f) (v : Int) :
    CfgKept f0 (f.setStart v false) := by
  obtain ⟨kind, ns, cmin, cstart, cmax, minP, startP, maxP, ra, ri, cd⟩ := f
  cases kind
  · cases cstart with
    | none => exact ⟨h.kind, h.ns, h.cmin, h.cstart, h.cmax, h.wmin, fun w hw => absurd (h.cstart.trans hw) (by simp), h.wmax⟩
    | some w => exact h
  · exact h
  · exact h

theorem cfgKept_setMax {f0 f : FanSt} (h : CfgKept f0 f) (v : Int) :
    CfgKept f0 (f.setMax v false) := by
  obtain ⟨kind, ns, cmin, cstart, cmax, minP, startP, maxP, ra, ri, cd⟩ := f
  cases kind
  · cases cmax with
    | none => exact ⟨h.kind, h.ns, h.cmin, h.cstart, h.cmax, h.wmin, h.wstart, fun w hw => absurd (h.cmax.trans hw) (by simp)⟩
    | some w => exact h
  · exact h
  · exact h

theorem cfgKept_curveData {f0 f : FanSt} (h : CfgKept f0 f) (d : Option (List (Int × F64))) :
    CfgKept f0 { f with curveData := d } :=
  ⟨h.kind, h.ns, h.cmin, h.cstart, h.cmax, h.wmin, h.wstart, h.wmax⟩

theorem cfgKept_attach (indef : Int) {f0 f : FanSt} (h : CfgKept f0 f)
    (d : Option (List (Int × F64))) : CfgKept f0 (f.attach indef d).1 := by
  by_cases hk : f.kind = .hwmon
  · cases d with
    | none => rw [(attach_hwmon_empty indef f hk).2]; exact h
    | some l =>
      by_cases hl : l = []
      · subst hl; rw [(attach_hwmon_empty indef f hk).1]; exact h
      · rw [attach_hwmon_ne indef f hk l hl]
        exact cfgKept_setMin (cfgKept_setMax (cfgKept_setStart (cfgKept_curveData h _) _) _) _
  · rw [attach_other indef f hk]; exact h

theorem cfgKept_run (indef : Int) {f0 f : FanSt} (h : CfgKept f0 f) (ops : List LimOp) :
    CfgKept f0 (runLimOps indef f ops) := by
  induction ops generalizing f with
  | nil => exact h
  | cons op r ih =>
    apply ih
    cases op
    · exact cfgKept_attach indef h _
    · exact cfgKept_setMin h _
    · exact cfgKept_setStart h _
    · exact cfgKept_setMax h _

/-! ### getters after one attachment to an arbitrary hwmon fan -/

theorem attachOk_getStart (indef : Int) (f : FanSt) (hk : f.kind = .hwmon) (d : List (Int × F64)) :
    (attachOk indef f d).getStart =
      if f.cfgStart.isNone then (computePwmBoundaries indef f.getStart d).1 else f.getStart := by
  unfold attachOk FanSt.setMin FanSt.setMax FanSt.setStart FanSt.getStart
  simp only [hk, Bool.or_false]
  cases f.cfgStart <;> cases f.cfgMax <;> cases f.cfgMin <;> simp

theorem attachOk_getMax (indef : Int) (f : FanSt) (hk : f.kind = .hwmon) (d : List (Int × F64)) :
    (attachOk indef f d).getMax =
      if f.cfgMax.isNone then (computePwmBoundaries indef f.getStart d).2 else f.getMax := by
  unfold attachOk FanSt.setMin FanSt.setMax FanSt.setStart FanSt.getMax
  simp only [hk, Bool.or_false]
  cases f.cfgStart <;> cases f.cfgMax <;> cases f.cfgMin <;> simp

theorem attachOk_getMin (indef : Int) (f : FanSt) (hk : f.kind = .hwmon) (d : List (Int × F64)) :
    (attachOk indef f d).getMin =
      if f.neverStop then
        (if f.cfgMin.isNone then (computePwmBoundaries indef f.getStart d).1 else f.minP.getD 0)
      else 0 := by
  unfold attachOk FanSt.setMin FanSt.setMax FanSt.setStart FanSt.getMin
  simp only [hk, Bool.or_false]
  cases f.cfgStart <;> cases f.cfgMax <;> cases f.cfgMin <;> cases f.neverStop <;> simp

theorem attachOk_cfg (indef : Int) (f : FanSt) (d : List (Int × F64)) :
    (attachOk indef f d).kind = f.kind ∧ (attachOk indef f d).cfgStart = f.cfgStart ∧
    (attachOk indef f d).cfgMax = f.cfgMax ∧ (attachOk indef f d).cfgMin = f.cfgMin ∧
    (attachOk indef f d).neverStop = f.neverStop := by
  unfold attachOk FanSt.setMin FanSt.setMax FanSt.setStart
  cases f.kind <;> simp only [Bool.or_false] <;>
    cases f.cfgStart <;> cases f.cfgMax <;> cases f.cfgMin <;> simp

end Fan2go
