/-
  The min/max form of `LinearSpeedCurve.Evaluate` (`linMinMax`): reduction of the float64
  computation to rational arithmetic with explicit roundings, range, monotonicity.
-/
import Fan2go.Proofs.F64Ops

namespace Fan2go
open F64

/-- two distinct binary64 values differ by at least the smallest subnormal, hence their rounded
    difference is not zero. -/
theorem fl64_sub_pos_of_rep {a b : ℚ} (ha : Rep64 a) (hb : Rep64 b) (h : a < b) :
    0 < fl64 (b - a) := by
  obtain ⟨Na, hNa⟩ := rep_grid (prec := 53) (emin := -1022) (by norm_num) ha
  obtain ⟨Nb, hNb⟩ := rep_grid (prec := 53) (emin := -1022) (by norm_num) hb
  have hk : (-1022 : Int) - (((53:Nat) : Int) - 1) = -1074 := by norm_num
  rw [hk] at hNa hNb
  have hp := pow2_pos (-1074)
  have hlt : (Na : ℚ) < Nb := by
    by_contra hc
    have hc := not_lt.mp hc
    have : b ≤ a := by rw [hNa, hNb]; exact mul_le_mul_of_nonneg_right hc hp.le
    linarith
  have hlt' : Na + 1 ≤ Nb := by exact_mod_cast hlt
  have hge : pow2 (-1074) ≤ b - a := by
    rw [hNa, hNb]
    have : ((Na:ℚ) + 1) ≤ Nb := by exact_mod_cast hlt'
    nlinarith
  have := le_fl64_of_rep_le (rep64_pow2 (-1074) (by norm_num)) hge
  linarith

/-! ### `float64(n) * 1000` -/

/-- the float64 value of the Go expression `float64(n) * 1000`. -/
def kTemp (n : Int) : ℚ := fl64 (fl64 (n : ℚ) * 1000)

theorem rep64_kTemp (n : Int) : Rep64 (kTemp n) := rep64_fl64 _

theorem kTemp_mono {m n : Int} (h : m ≤ n) : kTemp m ≤ kTemp n := by
  unfold kTemp
  apply fl64_mono
  have : fl64 (m : ℚ) ≤ fl64 (n : ℚ) := fl64_mono (by exact_mod_cast h)
  linarith

theorem fl64_int64_abs_le {n : Int} (h : |n| ≤ 2 ^ 63) : |fl64 (n : ℚ)| ≤ pow2 63 := by
  apply abs_fl64_le_of_abs_le_rep (rep64_pow2 63 (by norm_num))
  rw [show (63 : Int) = ((63 : Nat) : Int) from rfl, pow2_lit]
  exact_mod_cast h

theorem kTemp_abs_le {n : Int} (h : |n| ≤ 2 ^ 63) : |kTemp n| ≤ pow2 73 := by
  unfold kTemp
  apply abs_fl64_le_of_abs_le_rep (rep64_pow2 73 (by norm_num))
  have h1 := fl64_int64_abs_le h
  rw [show (63 : Int) = ((63 : Nat) : Int) from rfl, pow2_lit] at h1
  rw [show (73 : Int) = ((73 : Nat) : Int) from rfl, pow2_lit, abs_mul]
  have : |(1000 : ℚ)| = 1000 := abs_of_pos (by norm_num)
  rw [this]
  have h0 := abs_nonneg (fl64 (n : ℚ))
  nlinarith

theorem ofInt_mul_1000 {n : Int} (h : |n| ≤ 2 ^ 63) : ofInt n * ofInt 1000 = fin (kTemp n) := by
  rw [ofInt_fin_of_int64 h, ofInt_1000, mul_fin_fin]
  apply ofRat_fin_of_abs_le
  have h1 := fl64_int64_abs_le h
  rw [show (63 : Int) = ((63 : Nat) : Int) from rfl, pow2_lit] at h1
  have h3 : pow2 73 ≤ pow2 1023 := pow2_mono (by norm_num)
  rw [show (73 : Int) = ((73 : Nat) : Int) from rfl, pow2_lit] at h3
  rw [abs_mul]
  have : |(1000 : ℚ)| = 1000 := abs_of_pos (by norm_num)
  rw [this]
  have h0 := abs_nonneg (fl64 (n : ℚ))
  nlinarith

theorem kTemp_small {n : Int} (h : |n| ≤ 2 ^ 53) : kTemp n = fl64 ((n : ℚ) * 1000) := by
  unfold kTemp; rw [fl64_intCast n h]

/-- for every realistic temperature the product is exact. -/
theorem kTemp_exact {n : Int} (h : |n| ≤ 2 ^ 43) : kTemp n = (n : ℚ) * 1000 := by
  rw [kTemp_small (h.trans (by norm_num))]
  have : ((n : ℚ) * 1000) = ((n * 1000 : Int) : ℚ) := by push_cast; ring
  rw [this]
  apply fl64_intCast
  rw [abs_mul]
  have : |(1000 : Int)| = 1000 := rfl
  rw [this]
  have h0 := abs_nonneg n
  nlinarith

/-! ### the ramp between the two saturation branches -/

/-- `float64` value of `(avg - minTemp) / (maxTemp - minTemp) * 255` for finite operands. -/
def linMid (q m X : ℚ) : ℚ := fl64 (fl64 (fl64 (q - m) / fl64 (X - m)) * 255)

theorem rep64_255 : Rep64 (255 : ℚ) := by
  have := rep64_intCast 255 (by norm_num); exact_mod_cast this
theorem rep64_1 : Rep64 (1 : ℚ) := fl64_one
theorem rep64_0 : Rep64 (0 : ℚ) := fl64_zero

theorem linRatio_bounds {q m X : ℚ} (h1 : m ≤ q) (h2 : q ≤ X) :
    0 ≤ fl64 (fl64 (q - m) / fl64 (X - m)) ∧ fl64 (fl64 (q - m) / fl64 (X - m)) ≤ 1 := by
  have hN : 0 ≤ fl64 (q - m) := fl64_nonneg (by linarith)
  have hND : fl64 (q - m) ≤ fl64 (X - m) := fl64_mono (by linarith)
  have hD : 0 ≤ fl64 (X - m) := hN.trans hND
  exact ⟨fl64_nonneg (div_nonneg hN hD), fl64_le_of_le_rep rep64_1 (div_le_one_of_le₀ hND hD)⟩

theorem linMid_bounds {q m X : ℚ} (h1 : m ≤ q) (h2 : q ≤ X) :
    0 ≤ linMid q m X ∧ linMid q m X ≤ 255 := by
  obtain ⟨a, b⟩ := linRatio_bounds h1 h2
  unfold linMid
  exact ⟨fl64_nonneg (by positivity), fl64_le_of_le_rep rep64_255 (by linarith)⟩

theorem linMid_mono {q q' m X : ℚ} (hmX : m ≤ X) (h : q ≤ q') :
    linMid q m X ≤ linMid q' m X := by
  unfold linMid
  have hD : 0 ≤ fl64 (X - m) := fl64_nonneg (by linarith)
  have h1 : fl64 (q - m) ≤ fl64 (q' - m) := fl64_mono (by linarith)
  have h2 := fl64_mono (div_le_div_of_nonneg_right h1 hD)
  exact fl64_mono (by linarith)

theorem linMinMax_unfold (indef : Int) (avg : F64) {mn mx : Int} (hmn : |mn| ≤ 2 ^ 63)
    (hmx : |mx| ≤ 2 ^ 63) :
    linMinMax indef avg mn mx =
      if ge avg (fin (kTemp mx)) then 255
      else if le avg (fin (kTemp mn)) then 0
      else toInt indef ((avg - fin (kTemp mn)) / (fin (kTemp mx) - fin (kTemp mn)) * fin 255) := by
  unfold linMinMax
  simp only [ofInt_mul_1000 hmn, ofInt_mul_1000 hmx, ofInt_255]

theorem pow2_73_le : pow2 73 ≤ pow2 1023 := pow2_mono (by norm_num)

/-- Inside the ramp the Go computation is four correctly rounded rational operations followed by
    a truncation. -/
theorem linMinMax_mid (indef : Int) {q : ℚ} {mn mx : Int} (hmn : |mn| ≤ 2 ^ 63)
    (hmx : |mx| ≤ 2 ^ 63) (h1 : kTemp mn < q) (h2 : q < kTemp mx) :
    linMinMax indef (fin q) mn mx = truncRat (linMid q (kTemp mn) (kTemp mx)) := by
  rw [linMinMax_unfold indef _ hmn hmx]
  have hm := abs_le.mp (kTemp_abs_le hmn)
  have hX := abs_le.mp (kTemp_abs_le hmx)
  have h73 : pow2 73 + pow2 73 ≤ pow2 1023 := by
    have : pow2 73 + pow2 73 = pow2 74 := by
      rw [show (74 : Int) = 73 + 1 by norm_num, pow2_succ]; ring
    rw [this]; exact pow2_mono (by norm_num)
  have hD : 0 < fl64 (kTemp mx - kTemp mn) :=
    fl64_sub_pos_of_rep (rep64_kTemp mn) (rep64_kTemp mx) (h1.trans h2)
  rw [if_neg (by simp [not_le.mpr h2]), if_neg (by simp [not_le.mpr h1])]
  rw [sub_fin_of_abs_le (a := q) (by rw [abs_le]; constructor <;> linarith),
    sub_fin_of_abs_le (a := kTemp mx) (by rw [abs_le]; constructor <;> linarith)]
  obtain ⟨r0, r1⟩ := linRatio_bounds h1.le h2.le
  have hp0 : (1 : ℚ) ≤ pow2 1023 := by
    have := pow2_mono (show (0 : Int) ≤ 1023 by norm_num); rwa [pow2_zero] at this
  have hdiv : |fl64 (q - kTemp mn) / fl64 (kTemp mx - kTemp mn)| ≤ pow2 1023 := by
    have hN : 0 ≤ fl64 (q - kTemp mn) := fl64_nonneg (by linarith)
    have hND : fl64 (q - kTemp mn) ≤ fl64 (kTemp mx - kTemp mn) := fl64_mono (by linarith)
    rw [abs_of_nonneg (div_nonneg hN hD.le)]
    exact (div_le_one_of_le₀ hND hD.le).trans hp0
  rw [div_fin_of_abs_le hD.ne' hdiv]
  have hmul : |fl64 (fl64 (q - kTemp mn) / fl64 (kTemp mx - kTemp mn)) * 255| ≤ pow2 1023 := by
    rw [abs_of_nonneg (by positivity)]
    have h255 : (255 : ℚ) ≤ pow2 1023 := by
      have := pow2_mono (show (8 : Int) ≤ 1023 by norm_num)
      rw [show (8 : Int) = ((8 : Nat) : Int) from rfl, pow2_lit] at this
      linarith
    nlinarith
  rw [mul_fin_of_abs_le hmul]
  obtain ⟨b0, b1⟩ := linMid_bounds (m := kTemp mn) (X := kTemp mx) h1.le h2.le
  have := toInt_fin_of_bounds indef (q := linMid q (kTemp mn) (kTemp mx)) (lo := 0) (hi := 255)
    (by simpa using b0) (by simpa using b1) (by norm_num) (by norm_num)
  exact this.1

/-- value set of the min/max form for a finite reading. -/
theorem linMinMax_fin_cases (indef : Int) (q : ℚ) {mn mx : Int} (hmn : |mn| ≤ 2 ^ 63)
    (hmx : |mx| ≤ 2 ^ 63) :
    (kTemp mx ≤ q ∧ linMinMax indef (fin q) mn mx = 255) ∨
    (q < kTemp mx ∧ q ≤ kTemp mn ∧ linMinMax indef (fin q) mn mx = 0) ∨
    (kTemp mn < q ∧ q < kTemp mx ∧
      linMinMax indef (fin q) mn mx = truncRat (linMid q (kTemp mn) (kTemp mx))) := by
  by_cases h2 : kTemp mx ≤ q
  · left; refine ⟨h2, ?_⟩
    rw [linMinMax_unfold indef _ hmn hmx, if_pos (by simpa using h2)]
  · right
    by_cases h1 : q ≤ kTemp mn
    · left; refine ⟨not_le.mp h2, h1, ?_⟩
      rw [linMinMax_unfold indef _ hmn hmx, if_neg (by simpa using h2), if_pos (by simpa using h1)]
    · right
      exact ⟨not_le.mp h1, not_le.mp h2, linMinMax_mid indef hmn hmx (not_le.mp h1) (not_le.mp h2)⟩

theorem truncRat_linMid_bounds {q m X : ℚ} (h1 : m ≤ q) (h2 : q ≤ X) :
    0 ≤ truncRat (linMid q m X) ∧ truncRat (linMid q m X) ≤ 255 := by
  obtain ⟨b0, b1⟩ := linMid_bounds h1 h2
  exact ⟨truncRat_nonneg b0, truncRat_le_of_le_intCast (by simpa using b1)⟩

/-- Range of the min/max form for every non-NaN reading (±Inf included), any `min`, `max`. -/
theorem linMinMax_range (indef : Int) {avg : F64} (havg : avg ≠ nan) {mn mx : Int}
    (hmn : |mn| ≤ 2 ^ 63) (hmx : |mx| ≤ 2 ^ 63) :
    0 ≤ linMinMax indef avg mn mx ∧ linMinMax indef avg mn mx ≤ 255 := by
  cases avg with
  | nan => exact absurd rfl havg
  | inf s =>
    rw [linMinMax_unfold indef _ hmn hmx]
    cases s <;> simp [ge, le]
  | fin q =>
    rcases linMinMax_fin_cases indef q hmn hmx with ⟨_, h⟩ | ⟨_, _, h⟩ | ⟨h1, h2, h⟩
    · rw [h]; norm_num
    · rw [h]; norm_num
    · rw [h]; exact truncRat_linMid_bounds h1.le h2.le

/-- NaN reading: both guards are false, the ratio is NaN and `int(NaN)` is implementation-defined. -/
theorem linMinMax_nan (indef : Int) (mn mx : Int) : linMinMax indef nan mn mx = indef := by
  unfold linMinMax
  simp

/-- Monotonicity of the min/max form in the reading, for any `min`, `max`. -/
theorem linMinMax_mono (indef : Int) {a b : ℚ} (hab : a ≤ b) {mn mx : Int}
    (hmn : |mn| ≤ 2 ^ 63) (hmx : |mx| ≤ 2 ^ 63) :
    linMinMax indef (fin a) mn mx ≤ linMinMax indef (fin b) mn mx := by
  have ra := linMinMax_range indef (avg := fin a) (by simp) hmn hmx
  have rb := linMinMax_range indef (avg := fin b) (by simp) hmn hmx
  rcases linMinMax_fin_cases indef b hmn hmx with ⟨_, h⟩ | ⟨hb2, hb1, h⟩ | ⟨hb1, hb2, h⟩
  · rw [h]; exact ra.2
  · rcases linMinMax_fin_cases indef a hmn hmx with ⟨ha, _⟩ | ⟨_, _, h'⟩ | ⟨ha1, _, _⟩
    · linarith
    · rw [h, h']
    · linarith
  · rcases linMinMax_fin_cases indef a hmn hmx with ⟨ha, _⟩ | ⟨_, _, h'⟩ | ⟨ha1, ha2, h'⟩
    · linarith
    · rw [h']; exact rb.1
    · rw [h, h']
      exact truncRat_mono (linMid_mono (ha1.trans ha2).le hab)

/-- Monotonicity over all non-NaN readings (±Inf included). -/
theorem linMinMax_mono' (indef : Int) {x y : F64} (h : le x y = true) {mn mx : Int}
    (hmn : |mn| ≤ 2 ^ 63) (hmx : |mx| ≤ 2 ^ 63) :
    linMinMax indef x mn mx ≤ linMinMax indef y mn mx := by
  have hx := ne_nan_of_le_left h
  have hy := ne_nan_of_le_right h
  cases x with
  | nan => exact absurd rfl hx
  | inf s =>
    cases s
    · -- x = +Inf ⇒ y = +Inf
      cases y with
      | nan => exact absurd rfl hy
      | inf t => cases t <;> simp_all [le]
      | fin b => simp [le] at h
    · rw [linMinMax_unfold indef (inf true) hmn hmx]
      simp only [ge, le, if_true]
      exact (linMinMax_range indef hy hmn hmx).1
  | fin a =>
    cases y with
    | nan => exact absurd rfl hy
    | inf t =>
      cases t
      · rw [linMinMax_unfold indef (inf false) hmn hmx]
        simp only [ge, le]
        exact (linMinMax_range indef hx hmn hmx).2
      · simp [le] at h
    | fin b => exact linMinMax_mono indef (by simpa using h) hmn hmx

/-! ### closeness of the ramp to the exact linear function -/

theorem fl64_err_two_sided {w : ℚ} (hw : 0 ≤ w) :
    w - (pow2 (-53) * w + pow2 (-1075)) ≤ fl64 w ∧ fl64 w ≤ w + (pow2 (-53) * w + pow2 (-1075)) := by
  have := abs_le.mp (fl64_abs_err w)
  rw [abs_of_nonneg hw] at this
  constructor <;> linarith [this.1, this.2]

/-- For realistic temperatures (`|min|, |max| ≤ 2^42` °C) the float64 ramp value is within `2^-42`
    of the exact `255·(q − 1000·min)/(1000·(max − min))`. -/
theorem linMid_close {q : ℚ} {mn mx : Int} (hmn : |mn| ≤ 2 ^ 42) (hmx : |mx| ≤ 2 ^ 42)
    (h1 : (mn : ℚ) * 1000 < q) (h2 : q < (mx : ℚ) * 1000) :
    |linMid q ((mn : ℚ) * 1000) ((mx : ℚ) * 1000)
      - 255 * (q - 1000 * mn) / (1000 * ((mx : ℚ) - mn))| ≤ 1 / 2 ^ 42 := by
  have hmn' := abs_le.mp hmn
  have hmx' := abs_le.mp hmx
  have hlt : (mn : ℚ) < mx := by nlinarith
  have hlti : mn < mx := by exact_mod_cast hlt
  -- the denominator is exact
  have hWeq : (mx : ℚ) * 1000 - (mn : ℚ) * 1000 = (((mx - mn) * 1000 : Int) : ℚ) := by
    push_cast; ring
  have hD : fl64 ((mx : ℚ) * 1000 - (mn : ℚ) * 1000) = (((mx - mn) * 1000 : Int) : ℚ) := by
    rw [hWeq]; exact fl64_intCast _ (abs_le.mpr ⟨by omega, by omega⟩)
  set W : ℚ := (((mx - mn) * 1000 : Int) : ℚ) with hW
  have hW1 : (1 : ℚ) ≤ W := by
    rw [hW]; exact_mod_cast (by omega : (1 : Int) ≤ (mx - mn) * 1000)
  have hWpos : 0 < W := by linarith
  have hWval : W = 1000 * ((mx : ℚ) - mn) := by rw [hW]; push_cast; ring
  set u : ℚ := q - (mn : ℚ) * 1000 with hu
  have hu0 : 0 ≤ u := by rw [hu]; linarith
  have huW : u ≤ W := by rw [hu, hWval]; linarith
  set ε : ℚ := pow2 (-53) with hε
  set η : ℚ := pow2 (-1075) with hη
  have hε0 : 0 ≤ ε := pow2_nonneg _
  have hη0 : 0 ≤ η := pow2_nonneg _
  have hηε : η ≤ ε := pow2_mono (by norm_num)
  -- the three roundings
  obtain ⟨n1, n2⟩ := fl64_err_two_sided hu0
  have hN0 : 0 ≤ fl64 u := fl64_nonneg hu0
  have hNW : fl64 u ≤ W := by
    have := fl64_mono huW
    rwa [hW, fl64_intCast _ (abs_le.mpr ⟨by omega, by omega⟩)] at this
  have hx1 : 0 ≤ fl64 u / W := div_nonneg hN0 hWpos.le
  have hx1' : fl64 u / W ≤ 1 := div_le_one_of_le₀ hNW hWpos.le
  obtain ⟨r1, r2⟩ := fl64_err_two_sided hx1
  have hr0 : 0 ≤ fl64 (fl64 u / W) := fl64_nonneg hx1
  have hr1 : fl64 (fl64 u / W) ≤ 1 := fl64_le_of_le_rep rep64_1 hx1'
  obtain ⟨v1, v2⟩ := fl64_err_two_sided (w := fl64 (fl64 u / W) * 255) (by positivity)
  -- first error, divided by W
  have hεu : ε * u ≤ ε * W := mul_le_mul_of_nonneg_left huW hε0
  have hηW : η ≤ η * W := by nlinarith
  have a1 : fl64 u / W ≤ u / W + (ε + η) := by
    rw [div_add' _ _ _ hWpos.ne', div_le_div_iff_of_pos_right hWpos]
    nlinarith
  have a2 : u / W - (ε + η) ≤ fl64 u / W := by
    rw [div_sub' hWpos.ne', div_le_div_iff_of_pos_right hWpos]
    nlinarith
  have hεx : ε * (fl64 u / W) ≤ ε := by nlinarith
  have hεr : ε * (fl64 (fl64 u / W) * 255) ≤ 255 * ε := by nlinarith
  have hE : 255 * (q - 1000 * mn) / (1000 * ((mx : ℚ) - mn)) = 255 * (u / W) := by
    rw [hu, hWval]; ring
  unfold linMid
  rw [hD, hE]
  have hnum : (765 + 511) * ε ≤ 1 / 2 ^ 42 := by
    rw [hε, pow2_def]; norm_num
  rw [abs_le]
  constructor <;> nlinarith

end Fan2go
