/-
  Proofs about `Model/Analysis.lean` (what the start-up analysis computes).
-/
import Mathlib.Tactic
import Fan2go.Model.Analysis
import Fan2go.Proofs.FindClosest
import Fan2go.Proofs.FanLimits
import Fan2go.Proofs.Startup
import Fan2go.Spec.Controller
namespace Fan2go.Analysis
open Fan2go Fan2go.Startup F64

/-! ### the sweep -/

/-- the map a sweep of a device with response `resp` produces: `{i ↦ resp i | i ∈ 0..255}` -/
def sweptMap (resp : Int → Int) : List (Int × Int) :=
  (List.range 256).map fun (i : Nat) => ((i : Int), resp (i : Int))

theorem sweepFrom_eq (ph : Phys) (n : Nat) (r : Regs) (acc : List (Int × Int)) :
    (sweepFrom ph n r acc).2 = ((List.range (n + 1)).map fun (i : Nat) => ((i : Int), ph.resp (i : Int))) ++ acc ∧
    (sweepFrom ph n r acc).1.pwm = ph.resp 0 ∧ (sweepFrom ph n r acc).1.rpm = ph.rpmOf (ph.resp 0) ∧
    (sweepFrom ph n r acc).1.mode = r.mode := by
  induction n generalizing r acc with
  | zero => simp [sweepFrom, Phys.write]
  | succ n ih =>
    rw [sweepFrom]
    obtain ⟨h1, h2, h3, h4⟩ := ih (ph.write r ((n + 1 : Nat) : Int)) ((((n + 1 : Nat) : Int), (ph.write r ((n + 1 : Nat) : Int)).pwm) :: acc)
    refine ⟨?_, h2, h3, ?_⟩
    · rw [h1, List.range_succ (n := n + 1), List.map_append]
      simp [Phys.write]
    · rw [h4]; rfl

/-- `computePwmMapAutomatically` on a readable device: the computed map is `{i ↦ resp i | i ∈ 0..255}`,
    whatever state the device was in -/
theorem sweep_map (ph : Phys) (r : Regs) : (sweep ph r).2 = sweptMap ph.resp := by
  have := (sweepFrom_eq ph 255 r []).1
  simpa [sweep, sweptMap] using this

theorem sweep_regs (ph : Phys) (r : Regs) :
    (sweep ph r).1.pwm = ph.resp 0 ∧ (sweep ph r).1.rpm = ph.rpmOf (ph.resp 0) ∧ (sweep ph r).1.mode = r.mode :=
  (sweepFrom_eq ph 255 r []).2

theorem sweptMap_sorted (resp : Int → Int) : (sweptMap resp).Pairwise (fun a b => a.1 < b.1) := by
  unfold sweptMap
  rw [List.pairwise_map]
  exact (List.pairwise_lt_range (n := 256)).imp (by intro a b h; simp only; exact_mod_cast h)

theorem mem_sweptMap {resp : Int → Int} {p : Int × Int} :
    p ∈ sweptMap resp ↔ 0 ≤ p.1 ∧ p.1 ≤ 255 ∧ p.2 = resp p.1 := by
  unfold sweptMap
  simp only [List.mem_map, List.mem_range]
  constructor
  · rintro ⟨i, hi, rfl⟩
    exact ⟨by positivity, by simp only; omega, rfl⟩
  · rintro ⟨h0, h1, h2⟩
    refine ⟨p.1.toNat, by omega, ?_⟩
    have : ((p.1.toNat : Nat) : Int) = p.1 := Int.toNat_of_nonneg h0
    rw [this, ← h2]

theorem mapGet_of_mem {m : List (Int × Int)} (hs : m.Pairwise (fun a b => a.1 < b.1)) {k v : Int}
    (h : (k, v) ∈ m) : mapGet m k = v := by
  induction m with
  | nil => simp at h
  | cons a rest ih =>
    obtain ⟨ha, hr⟩ := List.pairwise_cons.mp hs
    unfold mapGet
    rw [List.find?_cons]
    rcases List.mem_cons.mp h with h | h
    · subst h; simp
    · have : a.1 < k := ha _ h
      have hne : (a.1 == k) = false := by simp; omega
      rw [hne]
      exact ih hr h

/-- looking the swept map up gives the device's response: the "used" map reflects the device on every key -/
theorem mapGet_sweptMap (resp : Int → Int) {k : Int} (h0 : 0 ≤ k) (h1 : k ≤ 255) :
    mapGet (sweptMap resp) k = resp k :=
  mapGet_of_mem (sweptMap_sorted resp) (mem_sweptMap.mpr ⟨h0, h1, rfl⟩)

/-! ### the swept map is a well-formed PWM map whose outputs the device reads back -/

theorem sweptMap_ne_nil (resp : Int → Int) : sweptMap resp ≠ [] := by
  unfold sweptMap; simp

/-- `MapOk` (the quantifier of C01 / C12) holds of the swept map of a device that answers inside 0..255 -/
theorem sweptMap_mapOk (resp : Int → Int) (h : ∀ v, 0 ≤ v → v ≤ 255 → 0 ≤ resp v ∧ resp v ≤ 255) :
    MapOk (sweptMap resp) := by
  refine ⟨sweptMap_ne_nil resp, sweptMap_sorted resp, ?_⟩
  intro p hp
  obtain ⟨h0, h1, h2⟩ := mem_sweptMap.mp hp
  rw [h2]; exact h p.1 h0 h1

/-- for an idempotent response the device reads back every output of its swept map (`ReadsBack.idem` of C05) -/
theorem sweptMap_idem (resp : Int → Int) (h : ∀ v, 0 ≤ v → v ≤ 255 → resp (resp v) = resp v) :
    ∀ p ∈ sweptMap resp, resp p.2 = p.2 := by
  intro p hp
  obtain ⟨h0, h1, h2⟩ := mem_sweptMap.mp hp
  rw [h2]; exact h p.1 h0 h1

/-! ### the harness's quantiser -/

theorem quantResp_idem (q v : Int) : quantResp q (quantResp q v) = quantResp q v := by
  unfold quantResp
  split
  · next hq => rw [Int.mul_tdiv_cancel _ (by omega)]
  · rfl

theorem quantResp_eq_ediv {q v : Int} (hq : 1 < q) (hv : 0 ≤ v) : quantResp q v = v / q * q := by
  unfold quantResp
  rw [if_pos hq, Int.tdiv_eq_ediv_of_nonneg hv]

theorem quantResp_range (q : Int) {v : Int} (hv : 0 ≤ v) : 0 ≤ quantResp q v ∧ quantResp q v ≤ v := by
  by_cases hq : 1 < q
  · rw [quantResp_eq_ediv hq hv]
    have h1 : 0 ≤ v / q := Int.ediv_nonneg hv (by omega)
    have h2 : v / q * q ≤ v := Int.ediv_mul_le v (by omega)
    exact ⟨Int.mul_nonneg h1 (by omega), h2⟩
  · unfold quantResp; rw [if_neg (by omega)]; exact ⟨hv, le_refl _⟩

/-- a value is a fixed point of the quantiser iff it is a multiple of `q` -/
theorem quantResp_fixed_iff {q v : Int} (hq : 1 < q) (hv : 0 ≤ v) : quantResp q v = v ↔ q ∣ v := by
  rw [quantResp_eq_ediv hq hv]
  constructor
  · intro h; exact ⟨v / q, by rw [mul_comm]; exact h.symm⟩
  · intro h; exact Int.ediv_mul_cancel h

/-! ### the distinct targets of a swept map -/

theorem extractKeysAux_range (f : Nat → Int) (hf : ∀ i, f i ≠ -1) (n : Nat) :
    ∀ (a : Nat) (last : Int),
    extractKeysAux last ((List.range' a n).map fun (i : Nat) => ((i : Int), f i)) =
      ((List.range' a n).filter fun i =>
        if i = a then decide (last = -1 ∨ last ≠ f a) else decide (f (i - 1) ≠ f i)).map (fun (i : Nat) => (i : Int)) := by
  induction n with
  | zero => intro a last; simp [extractKeysAux]
  | succ n ih =>
    intro a last
    rw [List.range'_succ, List.map_cons, extractKeysAux_cons, ih (a + 1) (f a), List.filter_cons]
    have hcongr : (List.range' (a + 1) n).filter (fun i =>
          if i = a + 1 then decide (f a = -1 ∨ f a ≠ f (a + 1)) else decide (f (i - 1) ≠ f i)) =
        (List.range' (a + 1) n).filter (fun i =>
          if i = a then decide (last = -1 ∨ last ≠ f a) else decide (f (i - 1) ≠ f i)) := by
      apply List.filter_congr
      intro i hi
      have hge : a + 1 ≤ i := (List.mem_range'_1.mp hi).1
      have hne : i ≠ a := by omega
      rw [if_neg hne]
      by_cases h1 : i = a + 1
      · subst h1
        simp only [if_true, Nat.add_sub_cancel]
        have := hf a
        simp [this]
      · rw [if_neg h1]
    rw [hcongr]
    simp only [if_true]
    by_cases hc : last = -1 ∨ last ≠ f a
    · simp [hc]
    · simp [hc]

/-- the distinct targets of the swept map of a device: key 0 and every key at which the response changes
    ("first key of each run") -/
theorem extractKeys_sweptMap (resp : Int → Int) (h : ∀ v, 0 ≤ v → v ≤ 255 → resp v ≠ -1) :
    extractKeys (sweptMap resp) =
      ((List.range 256).filter fun (i : Nat) => decide (i = 0 ∨ resp ((i : Int) - 1) ≠ resp (i : Int))).map (fun (i : Nat) => (i : Int)) := by
  have hf : ∀ i : Nat, (fun (j : Nat) => resp (((j % 256 : Nat) : Int))) i ≠ -1 := by
    intro i; exact h _ (by positivity) (by have := Nat.mod_lt i (by norm_num : 256 > 0); omega)
  have hmap : sweptMap resp =
      (List.range' 0 256).map fun (i : Nat) => ((i : Int), (fun (j : Nat) => resp (((j % 256 : Nat) : Int))) i) := by
    unfold sweptMap
    rw [List.range_eq_range']
    apply List.map_congr_left
    intro i hi
    have : i < 256 := by have := List.mem_range'_1.mp hi; omega
    simp [Nat.mod_eq_of_lt this]
  unfold extractKeys
  rw [hmap, extractKeysAux_range _ hf 256 0 (-1), List.range_eq_range']
  congr 1
  apply List.filter_congr
  intro i hi
  have hlt : i < 256 := by have := List.mem_range'_1.mp hi; omega
  by_cases h0 : i = 0
  · subst h0; simp
  · rw [if_neg h0]
    have h1 : (i - 1) % 256 = i - 1 := Nat.mod_eq_of_lt (by omega)
    have h2 : i % 256 = i := Nat.mod_eq_of_lt hlt
    have h3 : (((i - 1 : Nat)) : Int) = (i : Int) - 1 := by omega
    simp [h0, h1, h2, h3]

/-- for the quantiser `q ≥ 2`: the multiples of `q` below 256, ascending; for `q ≤ 1` every value -/
theorem extractKeys_sweptMap_quant (q : Int) :
    extractKeys (sweptMap (quantResp q)) =
      ((List.range 256).filter fun (i : Nat) => decide (q ≤ 1) || decide (q ∣ (i : Int))).map (fun (i : Nat) => (i : Int)) := by
  rw [extractKeys_sweptMap _ (by
    intro v h0 h1; have := (quantResp_range q h0).1; omega)]
  congr 1
  apply List.filter_congr
  intro i hi
  have hlt : i < 256 := List.mem_range.mp hi
  by_cases hq : 1 < q
  · have hq' : ¬ q ≤ 1 := by omega
    by_cases h0 : i = 0
    · subst h0; simp
    · have hi1 : (0 : Int) ≤ (i : Int) - 1 := by omega
      rw [quantResp_eq_ediv hq hi1, quantResp_eq_ediv hq (by positivity)]
      have key : ((i : Int) - 1) / q * q ≠ (i : Int) / q * q ↔ q ∣ (i : Int) := by
        have hqpos : 0 < q := by omega
        constructor
        · intro hne
          by_contra hnd
          apply hne
          have hmod : 0 < (i : Int) % q := by
            have := Int.emod_nonneg (i : Int) (by omega : q ≠ 0)
            have h2 : (i : Int) % q ≠ 0 := fun h => hnd (Int.dvd_of_emod_eq_zero h)
            omega
          have hdiv : ((i : Int) - 1) / q = (i : Int) / q := by
            have e1 := Int.emod_add_mul_ediv (i : Int) q
            have hlt2 := Int.emod_lt_of_pos (i : Int) hqpos
            rw [Int.ediv_eq_iff_of_pos hqpos]  
            constructor <;> nlinarith
          rw [hdiv]
        · rintro ⟨c, hc⟩ heq
          have hcpos : 0 < c := by
            by_contra hcn
            have : q * c ≤ 0 := Int.mul_nonpos_of_nonneg_of_nonpos (by omega) (by omega)
            omega
          have e1 : (i : Int) / q = c := by rw [hc]; exact Int.mul_ediv_cancel_left c (by omega)
          have e2 : ((i : Int) - 1) / q = c - 1 := by
            rw [Int.ediv_eq_iff_of_pos hqpos]
            constructor <;> nlinarith
          rw [e1, e2] at heq
          nlinarith
      simp only [h0, false_or, hq', decide_false, Bool.false_or, decide_eq_decide]
      exact key
  · have hq' : q ≤ 1 := by omega
    unfold quantResp
    simp only [if_neg hq, hq', decide_true, Bool.true_or, decide_eq_true_eq]
    by_cases h0 : i = 0
    · left; exact h0
    · right; omega

/-! ### the RPM-curve measurement loop -/

/-- one pass of the loop body on target `k`, as a specification: the register state afterwards and whether
    the point is recorded. With a readable PWM value: nothing is written when the register already shows the
    expected value (and the point counts), otherwise the expected value is written and the point counts iff
    the device reads it back; without: always written, and the point counts iff the map is the identity at `k`
    (`getPwm` answers with the last REQUEST). -/
def measStep (ph : Phys) (pwmRead : Bool) (m : List (Int × Int)) (k : Int) (r : Regs) : Regs × Bool :=
  if pwmRead then
    if mapGet m k = r.pwm then (r, true)
    else (ph.write r (mapGet m k), decide (ph.resp (mapGet m k) = mapGet m k))
  else (ph.write r (mapGet m k), decide (k = mapGet m k))

/-- the measured curve: for each target in order, the RPM register after the step, if the point is recorded -/
def measSpec (ph : Phys) (pwmRead : Bool) (m : List (Int × Int)) : List Int → Regs → Regs × List (Int × F64)
  | [], r => (r, [])
  | k :: ks, r =>
    let s := measStep ph pwmRead m k r
    let t := measSpec ph pwmRead m ks s.1
    (t.1, if s.2 then (k, ofInt s.1.rpm) :: t.2 else t.2)

theorem putF_append (acc : List (Int × F64)) (k : Int) (v : F64) (h : ∀ p ∈ acc, p.1 < k) :
    putF acc k v = acc ++ [(k, v)] := by
  induction acc with
  | nil => rfl
  | cons a rest ih =>
    obtain ⟨k', v'⟩ := a
    have h1 : k' < k := h (k', v') (List.mem_cons_self ..)
    rw [putF, if_neg (by omega), if_neg (by omega), ih (fun p hp => h p (List.mem_cons_of_mem _ hp))]
    rfl

theorem strictSorted_toArray {l : List Int} (h : l.Pairwise (· < ·)) : StrictSorted l.toArray := by
  intro i j hij hj
  have hj' : j < l.length := by simpa using hj
  have hi' : i < l.length := by omega
  have e1 : l.toArray[i]! = l[i] := by simp [hi']
  have e2 : l.toArray[j]! = l[j] := by simp [hj']
  rw [e1, e2]
  exact List.pairwise_iff_getElem.mp h i j hi' hj' hij

theorem findClosest_of_mem {l : List Int} (h : l.Pairwise (· < ·)) {k : Int} (hk : k ∈ l) :
    findClosest k l.toArray = .ok k := by
  obtain ⟨i, hi, rfl⟩ := List.mem_iff_getElem.mp hk
  have hne : l.toArray.size ≠ 0 := by simp; intro h0; subst h0; simp at hi
  have := findClosest_exact l.toArray hne (strictSorted_toArray h) i (by simpa using hi)
  have e1 : l.toArray[i]! = l[i] := by simp [hi]
  rwa [e1] at this

theorem measureLoop_spec (ph : Phys) (cfg : FanCfg) (fan : FanSt) (src : MapSrc) (m : List (Int × Int))
    (D : List Int) (hD : D.Pairwise (· < ·)) :
    ∀ (ks : List Int) (c : CtlSt) (r : Regs) (acc : List (Int × F64)),
      c.pwmMap = some (src, m) → c.distinct = D → (∀ k ∈ ks, k ∈ D) → ks.Pairwise (· < ·) →
      (∀ p ∈ acc, ∀ k ∈ ks, p.1 < k) →
      let o := measureLoop ph cfg fan ks c r acc
      o.res = .ok () ∧ o.data = acc ++ (measSpec ph cfg.pwmRead m ks r).2 ∧
      o.regs = (measSpec ph cfg.pwmRead m ks r).1 ∧
      o.ctl.pwmMap = c.pwmMap ∧ o.ctl.distinct = c.distinct ∧ o.ctl.origPwm = c.origPwm ∧
      o.ctl.origMode = c.origMode := by
  intro ks
  induction ks with
  | nil => intro c r acc _ _ _ _ _; simp [measureLoop, measSpec]
  | cons k ks ih =>
    intro c r acc hm hd hmem hsorted hacc
    have hk : k ∈ D := hmem k (List.mem_cons_self ..)
    have hfc : findClosest k c.distinct.toArray = .ok k := by rw [hd]; exact findClosest_of_mem hD hk
    have hmap : ∀ (c' : CtlSt), c'.pwmMap = some (src, m) → c'.mapping k = mapGet m k := by
      intro c' h; simp [CtlSt.mapping, h]
    obtain ⟨hk_lt, hs'⟩ := List.pairwise_cons.mp hsorted
    have hmem' : ∀ k' ∈ ks, k' ∈ D := fun k' h => hmem k' (List.mem_cons_of_mem _ h)
    have hacc' : ∀ p ∈ acc, ∀ k' ∈ ks, p.1 < k' := fun p hp k' hk' => hacc p hp k' (List.mem_cons_of_mem _ hk')
    have hacck : ∀ p ∈ acc, p.1 < k := fun p hp => hacc p hp k (List.mem_cons_self ..)
    -- the controller after `setPwm`
    set c' : CtlSt := { c with lastSet := some k } with hc'
    have hm' : c'.pwmMap = some (src, m) := hm
    have hd' : c'.distinct = D := hd
    have hacc2 : ∀ v, ∀ p ∈ acc ++ [(k, v)], ∀ k' ∈ ks, p.1 < k' := by
      intro v p hp k' hk'
      rcases List.mem_append.mp hp with h | h
      · exact hacc' p h k' hk'
      · simp at h; subst h; exact hk_lt k' hk'
    cases hpr : cfg.pwmRead with
    | true =>
      by_cases he : mapGet m k = r.pwm
      · -- nothing to do; the read-back matches
        have hset : setPwm ph cfg c r k = .ok (c', r) := by
          simp [setPwm, hfc, hmap c hm, hpr, he, hc']
        have hstep : measStep ph true m k r = (r, true) := by simp [measStep, he]
        have := ih c' r (acc ++ [(k, ofInt r.rpm)]) hm' hd' hmem' hs' (hacc2 _)
        simp only [measureLoop, hset, getPwm, hpr, if_true, hmap c' hm', he, ne_eq, not_true_eq_false, if_false,
          putF_append acc k _ hacck, measSpec, hstep]
        simpa [hpr, List.append_assoc] using this
      · have hset : setPwm ph cfg c r k = .ok (c', ph.write r (mapGet m k)) := by
          simp [setPwm, hfc, hmap c hm, hpr, he, hc']
        by_cases hrb : ph.resp (mapGet m k) = mapGet m k
        · have hstep : measStep ph true m k r = (ph.write r (mapGet m k), true) := by simp [measStep, he, hrb]
          have := ih c' (ph.write r (mapGet m k)) (acc ++ [(k, ofInt (ph.write r (mapGet m k)).rpm)]) hm' hd' hmem' hs' (hacc2 _)
          have hact : (ph.write r (mapGet m k)).pwm = mapGet m k := by simp [Phys.write, hrb]
          simp only [measureLoop, hset, getPwm, hpr, if_true, hmap c' hm', hact, ne_eq, not_true_eq_false, if_false,
            putF_append acc k _ hacck, measSpec, hstep]
          simpa [hpr, List.append_assoc] using this
        · have hstep : measStep ph true m k r = (ph.write r (mapGet m k), false) := by simp [measStep, he, hrb]
          have := ih c' (ph.write r (mapGet m k)) acc hm' hd' hmem' hs' hacc'
          have hact : (ph.write r (mapGet m k)).pwm ≠ mapGet m k := by simp [Phys.write, hrb]
          simp only [measureLoop, hset, getPwm, hpr, if_true, hmap c' hm', ne_eq, hact, not_false_eq_true,
            measSpec, hstep]
          simpa [hpr] using this
    | false =>
      have hset : setPwm ph cfg c r k = .ok (c', ph.write r (mapGet m k)) := by
        simp [setPwm, hfc, hmap c hm, hpr, hc']
      have hget : getPwm cfg fan c' (ph.write r (mapGet m k)) = k := by simp [getPwm, hpr, hc']
      by_cases hid : k = mapGet m k
      · have hstep : measStep ph false m k r = (ph.write r (mapGet m k), true) := by
          simp only [measStep]; simp [← hid]
        have := ih c' (ph.write r (mapGet m k)) (acc ++ [(k, ofInt (ph.write r (mapGet m k)).rpm)]) hm' hd' hmem' hs' (hacc2 _)
        have hcond : ¬ (k ≠ mapGet m k) := by simpa using hid
        simp only [measureLoop, hset, hget, hmap c' hm', if_neg hcond,
          putF_append acc k _ hacck, measSpec, hstep]
        simpa [hpr, List.append_assoc] using this
      · have hstep : measStep ph false m k r = (ph.write r (mapGet m k), false) := by simp [measStep, hid]
        have := ih c' (ph.write r (mapGet m k)) acc hm' hd' hmem' hs' hacc'
        simp only [measureLoop, hset, hget, hmap c' hm', ne_eq, hid, not_false_eq_true, if_true,
          measSpec, hstep]
        simpa [hpr] using this

/-- every recorded key is a target, in order -/
theorem measSpec_sublist (ph : Phys) (pr : Bool) (m : List (Int × Int)) (ks : List Int) :
    ∀ r, ((measSpec ph pr m ks r).2.map Prod.fst).Sublist ks := by
  induction ks with
  | nil => intro r; simp [measSpec]
  | cons k ks ih =>
    intro r
    simp only [measSpec]
    split
    · simpa using (ih _).cons_cons k
    · exact (ih _).cons k

/-- a target whose map output the device reads back is always recorded (readable PWM) -/
theorem measSpec_complete (ph : Phys) (m : List (Int × Int)) (ks : List Int) :
    ∀ r, ∀ k ∈ ks, ph.resp (mapGet m k) = mapGet m k → k ∈ (measSpec ph true m ks r).2.map Prod.fst := by
  induction ks with
  | nil => intro r k hk; simp at hk
  | cons k0 ks ih =>
    intro r k hk hfix
    simp only [measSpec]
    rcases List.mem_cons.mp hk with h | h
    · subst h
      have : (measStep ph true m k r).2 = true := by
        simp only [measStep, if_true]; split <;> simp [hfix]
      simp [this]
    · have := ih (measStep ph true m k0 r).1 k h hfix
      split
      · simp only [List.map_cons, List.mem_cons]; right; exact this
      · exact this

/-- THE measured curve of a device with an idempotent response, from a register state the device can be in
    (`resp pwm = pwm`, RPM register in step with the PWM register): exactly the targets whose map output the
    device reads back, each with the RPM the fan settles at for that output -/
theorem measSpec_idem (ph : Phys) (m : List (Int × Int)) (hidem : ∀ v, ph.resp (ph.resp v) = ph.resp v)
    (ks : List Int) :
    ∀ r : Regs, ph.resp r.pwm = r.pwm → r.rpm = ph.rpmOf r.pwm →
      (measSpec ph true m ks r).2 =
        (ks.filter fun k => decide (ph.resp (mapGet m k) = mapGet m k)).map
          (fun k => (k, ofInt (ph.rpmOf (mapGet m k)))) ∧
      ph.resp (measSpec ph true m ks r).1.pwm = (measSpec ph true m ks r).1.pwm ∧
      (measSpec ph true m ks r).1.rpm = ph.rpmOf (measSpec ph true m ks r).1.pwm := by
  induction ks with
  | nil => intro r h1 h2; simp [measSpec, h1, h2]
  | cons k ks ih =>
    intro r h1 h2
    simp only [measSpec, measStep, if_true]
    by_cases he : mapGet m k = r.pwm
    · have hfix : ph.resp (mapGet m k) = mapGet m k := by rw [he]; exact h1
      obtain ⟨i1, i2, i3⟩ := ih r h1 h2
      simp only [he, if_true]
      refine ⟨?_, i2, i3⟩
      rw [List.filter_cons, if_pos (by simpa using hfix), List.map_cons, i1, h2, he]
    · simp only [he, if_false]
      have h1' : ph.resp (ph.write r (mapGet m k)).pwm = (ph.write r (mapGet m k)).pwm := by
        simp [Phys.write, hidem]
      have h2' : (ph.write r (mapGet m k)).rpm = ph.rpmOf (ph.write r (mapGet m k)).pwm := by simp [Phys.write]
      obtain ⟨i1, i2, i3⟩ := ih _ h1' h2'
      refine ⟨?_, i2, i3⟩
      by_cases hfix : ph.resp (mapGet m k) = mapGet m k
      · simp only [List.filter_cons, hfix, decide_true, if_true, List.map_cons, i1]
        simp [hfix, Phys.write]
      · simp only [List.filter_cons, hfix, decide_false, Bool.false_eq_true, if_false, i1]

/-- in particular: every map output read back ⇒ every target recorded -/
theorem measSpec_all (ph : Phys) (m : List (Int × Int)) (hidem : ∀ v, ph.resp (ph.resp v) = ph.resp v)
    (ks : List Int) (r : Regs) (h1 : ph.resp r.pwm = r.pwm) (h2 : r.rpm = ph.rpmOf r.pwm)
    (hfix : ∀ k ∈ ks, ph.resp (mapGet m k) = mapGet m k) :
    (measSpec ph true m ks r).2 = ks.map (fun k => (k, ofInt (ph.rpmOf (mapGet m k)))) := by
  rw [(measSpec_idem ph m hidem ks r h1 h2).1]
  congr 1
  rw [List.filter_eq_self]
  intro k hk; simpa using hfix k hk

/-! ### erasing the data gives the decision model (`Model/Startup.lean`) -/

theorem measureLoop_ctl (ph : Phys) (cfg : FanCfg) (fan : FanSt) (ks : List Int) :
    ∀ (c : CtlSt) (r : Regs) (acc : List (Int × F64)),
      (measureLoop ph cfg fan ks c r acc).ctl.pwmMap = c.pwmMap ∧
      (measureLoop ph cfg fan ks c r acc).ctl.origPwm = c.origPwm ∧
      (measureLoop ph cfg fan ks c r acc).ctl.origMode = c.origMode := by
  induction ks with
  | nil => intro c r acc; simp [measureLoop]
  | cons k ks ih =>
    intro c r acc
    rw [measureLoop]
    unfold setPwm
    cases findClosest k c.distinct.toArray with
    | ok ct =>
      simp only
      split
      · next c' r' heq =>
        have hc' : c' = { c with lastSet := some k } := by
          split at heq <;> simp at heq <;> exact heq.1.symm
        split
        · have := ih c' r' acc; rw [hc'] at this ⊢; exact this
        · have := ih c' r' (putF acc k (ofInt r'.rpm)); rw [hc'] at this ⊢; exact this
      · next heq => split at heq <;> simp at heq
      · next heq => split at heq <;> simp at heq
    | err e => simp
    | panic s => simp

theorem kind_cases (k : Kind) : k = .hwmon ∨ fanKind k ≠ FanKind.hwmon := by
  cases k <;> simp [fanKind]

theorem computeAuto_shape (indef : Int) (ph : Phys) (cfg : FanCfg) (fan : FanSt) (c : CtlSt) (r : Regs) :
    let o := computeAuto indef ph cfg fan c r
    o.1 = (if cfg.pwmRead then [Action.sweep] else [Action.defaultMap]) ∧
    o.2.1.pwmMap.map (·.1) = some (if cfg.pwmRead then MapSrc.swept else MapSrc.default) ∧
    o.2.1.origPwm = c.origPwm ∧ o.2.1.origMode = c.origMode := by
  unfold computeAuto
  cases cfg.pwmRead <;> simp

theorem computePwmMapLockedD_abs (indef : Int) (ph : Phys) (cfg : FanCfg) (fan : FanSt) (c : CtlSt)
    (st : DStore) (r : Regs) (dv : Bool) :
    let o := computePwmMapLockedD indef ph cfg fan c st r
    (o.1, o.2.1.pwmMap.map (·.1), o.2.2.1.abs) =
      computePwmMapLocked (cfg.decl dv) (c.pwmMap.map (·.1)) st.abs ∧
    o.2.1.origPwm = c.origPwm ∧ o.2.1.origMode = c.origMode ∧ o.2.2.1.rpm = st.rpm := by
  unfold computePwmMapLockedD computePwmMapLocked
  cases hcm : cfg.cfgMap with
  | some m => simp [FanCfg.decl, hcm]
  | none =>
    cases hsm : st.map with
    | some sm => simp [FanCfg.decl, hcm, DStore.abs, hsm]
    | none =>
      cases hcp : c.pwmMap with
      | some pm => simp [FanCfg.decl, hcm, DStore.abs, hsm, hcp]
      | none =>
        obtain ⟨h1, h2, h3, h4⟩ := computeAuto_shape indef ph cfg fan c r
        simp only [FanCfg.decl, hcm, Option.isSome_none, DStore.abs, hsm, Option.map_none, h1, h2, h3, h4]
        cases cfg.pwmRead <;> simp

/-- the stored RPM curve is usable: `AttachFanRpmCurveData` of a hwmon fan refuses an empty curve, and nothing
    ever stores one (`wf_startD`, `wf_initD`) -/
def DStore.WF (cfg : FanCfg) (st : DStore) : Prop := cfg.kind = .hwmon → st.rpm ≠ some []

theorem attach_ok_of_wf (indef : Int) (cfg : FanCfg) (fan : FanSt) (hk : fan.kind = fanKind cfg.kind)
    {d : List (Int × F64)} (h : cfg.kind = .hwmon → d ≠ []) :
    (fan.attach indef (some d)).2 = .ok () := by
  rcases kind_cases cfg.kind with hh | hh
  · rw [attach_hwmon_ne indef fan (by rw [hk, hh]; rfl) d (h hh)]
  · rw [attach_other indef fan (by rw [hk]; exact hh)]

theorem attach_kind (indef : Int) (fan : FanSt) (d : Option (List (Int × F64))) :
    (fan.attach indef d).1.kind = fan.kind := by
  by_cases hk : fan.kind = .hwmon
  · cases d with
    | none => rw [(attach_hwmon_empty indef fan hk).2]
    | some l =>
      by_cases hl : l = []
      · subst hl; rw [(attach_hwmon_empty indef fan hk).1]
      · rw [attach_hwmon_ne indef fan hk l hl]; exact (attachOk_cfg indef fan l).1
  · rw [attach_other indef fan hk]

theorem attachOk_curveData (indef : Int) (f : FanSt) (d : List (Int × F64)) :
    (attachOk indef f d).curveData = some d := by
  unfold attachOk FanSt.setMin FanSt.setMax FanSt.setStart
  cases f.kind <;> simp only [Bool.or_false] <;>
    cases f.cfgStart <;> cases f.cfgMax <;> cases f.cfgMin <;> simp

@[simp] theorem decl_devOk (cfg : FanCfg) (b : Bool) : (cfg.decl b).devOk = b := rfl
@[simp] theorem decl_hasRpm (cfg : FanCfg) (b : Bool) : (cfg.decl b).hasRpm = cfg.hasRpm := rfl
@[simp] theorem decl_kind (cfg : FanCfg) (b : Bool) : (cfg.decl b).kind = cfg.kind := rfl

theorem lockedD_acts_no_fail (indef : Int) (ph : Phys) (cfg : FanCfg) (fan : FanSt) (c : CtlSt)
    (st : DStore) (r : Regs) :
    (computePwmMapLockedD indef ph cfg fan c st r).1.contains Action.measureFail = false := by
  have h := (computePwmMapLockedD_abs indef ph cfg fan c st r true).1
  have h1 : (computePwmMapLockedD indef ph cfg fan c st r).1 =
      (computePwmMapLocked (cfg.decl true) (c.pwmMap.map (·.1)) st.abs).1 := by
    rw [← h]
  rw [h1]
  unfold computePwmMapLocked
  cases (cfg.decl true).cfgMap <;> cases st.abs.map <;> cases (Option.map (·.1) c.pwmMap) <;>
    cases (cfg.decl true).pwmRead <;> simp

/-- after a successful attachment `SaveFanPwmData` has something to save: the attached curve (hwmon) or the
    built-in one -/
theorem attach_ok_curve (indef : Int) (cfg : FanCfg) (fan fan' : FanSt) (hk : fan.kind = fanKind cfg.kind)
    (d : List (Int × F64)) (res : Res Unit) (h : fan.attach indef (some d) = (fan', res)) (hres : res = .ok ()) :
    curveOf cfg fan' = (if cfg.kind = .hwmon then some d else some fileCurve) ∧ (cfg.kind = .hwmon → d ≠ []) := by
  rcases kind_cases cfg.kind with hh | hh
  · have hk' : fan.kind = .hwmon := by rw [hk, hh]; rfl
    by_cases hd : d = []
    · subst hd
      rw [(attach_hwmon_empty indef fan hk').1] at h
      simp only [Prod.mk.injEq] at h
      rw [← h.2] at hres; simp at hres
    · rw [attach_hwmon_ne indef fan hk' d hd] at h
      simp only [Prod.mk.injEq] at h
      refine ⟨?_, fun _ => hd⟩
      rw [← h.1]
      simp [curveOf, hh, attachOk_curveData]
  · have : cfg.kind ≠ .hwmon := by intro h'; rw [h'] at hh; exact hh rfl
    refine ⟨?_, fun h' => absurd h' this⟩
    rw [if_neg this]
    unfold curveOf
    cases hkk : cfg.kind <;> simp_all

/-- the shape of `RunInitializationSequence`'s outcome; `okf` = "the measurement delivered" -/
theorem runInitD_shape (indef : Int) (ph : Phys) (cfg : FanCfg) (fan : FanSt) (c : CtlSt) (st : DStore) (r : Regs)
    (hk : fan.kind = fanKind cfg.kind) :
    ∃ okf : Bool,
      let L := computePwmMapLockedD indef ph cfg fan c st r
      let o := runInitD indef ph cfg fan c st r
      o.acts = Action.initSequence :: L.1 ++ [Action.saveMap] ++
        (if !cfg.hasRpm then [Action.skipMeasure]
         else if okf then [Action.manual, Action.measure, Action.attach, Action.saveRpm]
         else [Action.manual, Action.measure, Action.measureFail]) ∧
      o.ok = (!cfg.hasRpm || okf) ∧ o.ctl.pwmMap = L.2.1.pwmMap ∧ o.store.map = L.2.1.pwmMap ∧
      (o.store.rpm.isSome = ((cfg.hasRpm && okf) || st.rpm.isSome)) ∧ (st.WF cfg → o.store.WF cfg) ∧
      o.fan.kind = fan.kind ∧
      o.ctl.origPwm = c.origPwm ∧ o.ctl.origMode = c.origMode := by
  have hml := fun (c2 : CtlSt) (r2 : Regs) => measureLoop_ctl ph cfg fan c2.distinct c2 r2 []
  have habs := computePwmMapLockedD_abs indef ph cfg fan c st r true
  unfold runInitD
  generalize computePwmMapLockedD indef ph cfg fan c st r = L at habs
  obtain ⟨a1, c1, st1, r1⟩ := L
  obtain ⟨_, ho1, ho2, hrpm⟩ := habs
  simp only at ho1 ho2 hrpm ⊢
  obtain ⟨m1, m2, m3⟩ := hml (updateDistinct c1) (trySetManual ph cfg r1)
  have hup : (updateDistinct c1).pwmMap = c1.pwmMap := rfl
  have hup2 : (updateDistinct c1).origPwm = c1.origPwm := rfl
  have hup3 : (updateDistinct c1).origMode = c1.origMode := rfl
  cases hr : cfg.hasRpm with
  | false => exact ⟨true, by simp [hup, hup2, hup3, ho1, ho2, hrpm, DStore.WF]⟩
  | true =>
    simp only [Bool.not_true, Bool.false_eq_true, if_false]
    split
    · split
      · next fan' heq =>
        obtain ⟨hc1, hc2⟩ := attach_ok_curve indef cfg fan fan' hk _ _ heq rfl
        have hkf : fan'.kind = fan.kind := by
          have := attach_kind indef fan (some (measureLoop ph cfg fan (updateDistinct c1).distinct (updateDistinct c1) (trySetManual ph cfg r1) []).data)
          rw [heq] at this; exact this
        refine ⟨true, ?_⟩
        have hwf : DStore.WF cfg { rpm := curveOf cfg fan', map := c1.pwmMap } := by
          intro hh; rw [hc1, if_pos hh]; simpa using hc2 hh
        simp only [m1, m2, m3, hup, hup2, hup3, ho1, ho2, hkf, hc1]
        refine ⟨by simp, by simp, trivial, trivial, by split <;> simp, fun _ => by rw [← hc1]; exact hwf, trivial, trivial, trivial⟩
      · next fan' res hne heq =>
        have hkf : fan'.kind = fan.kind := by
          have := attach_kind indef fan (some (measureLoop ph cfg fan (updateDistinct c1).distinct (updateDistinct c1) (trySetManual ph cfg r1) []).data)
          rw [heq] at this; exact this
        exact ⟨false, by simp [m1, m2, m3, hup, hup2, hup3, ho1, ho2, hrpm, hkf, DStore.WF]⟩
    · exact ⟨false, by simp [m1, m2, m3, hup, hup2, hup3, ho1, ho2, hrpm, DStore.WF]⟩
    · exact ⟨false, by simp [m1, m2, m3, hup, hup2, hup3, ho1, ho2, hrpm, DStore.WF]⟩

/-- `RunInitializationSequence`: the data-erased run is the decision model's, with `devOk` = "the measurement
    delivered" -/
theorem runInitD_abs (indef : Int) (ph : Phys) (cfg : FanCfg) (fan : FanSt) (c : CtlSt) (st : DStore) (r : Regs)
    (hk : fan.kind = fanKind cfg.kind) :
    (runInitD indef ph cfg fan c st r).abs =
      runInit (cfg.decl (runInitD indef ph cfg fan c st r).devOk) (c.pwmMap.map (·.1)) st.abs := by
  obtain ⟨okf, hacts, hok, hctl, hsm, hsr, _, _, _, _⟩ := runInitD_shape indef ph cfg fan c st r hk
  have hnf := lockedD_acts_no_fail indef ph cfg fan c st r
  have habs := fun dv => computePwmMapLockedD_abs indef ph cfg fan c st r dv
  generalize computePwmMapLockedD indef ph cfg fan c st r = L at hacts hctl hsm hnf habs
  obtain ⟨a1, c1, st1, r1⟩ := L
  simp only at hacts hctl hsm hnf habs
  generalize runInitD indef ph cfg fan c st r = o at hacts hok hctl hsm hsr
  have hdl : ∀ dv, computePwmMapLocked (cfg.decl dv) (c.pwmMap.map (·.1)) st.abs =
      (a1, c1.pwmMap.map (·.1), st1.abs) := fun dv => ((habs dv).1).symm
  have hst1 : st1.rpm = st.rpm := (habs true).2.2.2
  unfold DOut.devOk runInit
  rw [hdl]
  cases hr : cfg.hasRpm with
  | false =>
    simp only [hr, Bool.not_false, if_true, List.append_assoc] at hacts hok hsr
    simp [DOut.abs, hacts, hok, hctl, hsm, hsr, DStore.abs, hr, hst1]
  | true =>
    cases okf with
    | true =>
      simp only [hr, Bool.not_true, Bool.false_eq_true, if_false, if_true] at hacts hok hsr
      have : o.acts.contains Action.measureFail = false := by
        rw [hacts]
        simp only [List.cons_append, List.contains_cons, List.contains_append, hnf]
        decide
      rw [this]
      simp [DOut.abs, hacts, hok, hctl, hsm, hsr, DStore.abs, hr]
    | false =>
      simp only [hr, Bool.not_true, Bool.false_eq_true, if_false] at hacts hok hsr
      have : o.acts.contains Action.measureFail = true := by rw [hacts]; simp
      rw [this]
      simp [DOut.abs, hacts, hok, hctl, hsm, hsr, DStore.abs, hr, hst1]

theorem runTailD_abs (indef : Int) (ph : Phys) (cfg : FanCfg) (fan : FanSt) (c : CtlSt) (st : DStore) (r : Regs)
    (acts : List Action) (dv : Bool) (hk : fan.kind = fanKind cfg.kind) (hwf : st.WF cfg) :
    (runTailD indef ph cfg fan c st r acts).abs = runTail (cfg.decl dv) (c.pwmMap.map (·.1)) st.abs acts ∧
    ((runTailD indef ph cfg fan c st r acts).store.WF cfg) := by
  unfold runTailD runTail
  cases hrpm : st.rpm with
  | none => exact ⟨by simp [DOut.abs, DStore.abs, hrpm], by simpa [DStore.WF, hrpm] using hwf⟩
  | some d =>
    have hd : cfg.kind = .hwmon → d ≠ [] := fun hh => by
      have := hwf hh; rw [hrpm] at this; simpa using this
    have hatt := attach_ok_of_wf indef cfg fan hk hd
    have hkf := attach_kind indef fan (some d)
    dsimp only
    generalize fan.attach indef (some d) = A at hatt hkf ⊢
    obtain ⟨fan', res⟩ := A
    simp only at hatt hkf
    subst hatt
    simp only
    have habs := computePwmMapLockedD_abs indef ph cfg fan' c st r dv
    generalize computePwmMapLockedD indef ph cfg fan' c st r = L at habs ⊢
    obtain ⟨a, c', st', r'⟩ := L
    obtain ⟨h1, _, _, h4⟩ := habs
    simp only at h1 h4
    constructor
    · simp only [DStore.abs, hrpm, Option.isSome_some, if_true]
      rw [show ({ rpm := true, map := Option.map (fun x => x.1) st.map } : Store) = st.abs by simp [DStore.abs, hrpm], ← h1]
      simp [DOut.abs, updateDistinct]
    · intro hh; simp only; rw [h4, hrpm]; simpa using hd hh

theorem runTail_no_fail (d : FanDecl) (ctl : Option MapSrc) (st : Store) (acts : List Action) :
    (runTail d ctl st acts).acts.contains Action.measureFail = acts.contains Action.measureFail := by
  unfold runTail computePwmMapLocked
  cases st.rpm <;> cases d.cfgMap <;> cases st.map <;> cases ctl <;> cases d.pwmRead <;> simp

/-- `Run` of a fresh controller: erasing the data of `startD` gives `Startup.start`, with `devOk` = "the
    measurement (if any) delivered" -/
theorem startD_abs (indef : Int) (ph : Phys) (cfg : FanCfg) (st : DStore) (r : Regs) (hwf : st.WF cfg) :
    (startD indef ph cfg st r).abs = start (cfg.decl (startD indef ph cfg st r).devOk) st.abs ∧
    (startD indef ph cfg st r).store.WF cfg := by
  have hk0 : cfg.newFan.kind = fanKind cfg.kind := rfl
  unfold startD start
  cases hrpm : st.rpm with
  | some d =>
    simp only [DStore.abs, hrpm, Option.isSome_some, if_true]
    set T := runTailD indef ph cfg cfg.newFan
      { origPwm := getPwm cfg cfg.newFan {} r, origMode := if cfg.hasMode then r.mode else 0 } st r [.loadRpmOk] with hT
    have := runTailD_abs indef ph cfg cfg.newFan
      { origPwm := getPwm cfg cfg.newFan {} r, origMode := if cfg.hasMode then r.mode else 0 } st r [.loadRpmOk]
      T.devOk hk0 hwf
    rw [← hT] at this
    refine ⟨?_, this.2⟩
    rw [this.1]
    simp [DStore.abs, hrpm]
  | none =>
    simp only [DStore.abs, hrpm, Option.isSome_none, Bool.false_eq_true, if_false, decl_kind]
    cases hkind : cfg.kind with
    | hwmon =>
      try dsimp only
      set c0 : CtlSt := { origPwm := getPwm cfg cfg.newFan {} r, origMode := if cfg.hasMode then r.mode else 0 } with hc0
      have hinit := runInitD_abs indef ph cfg cfg.newFan c0 st r hk0
      obtain ⟨okf, _, _, _, _, _, hwf', hkf, _, _⟩ := runInitD_shape indef ph cfg cfg.newFan c0 st r hk0
      try simp only at hwf' hkf
      have habs0 : st.abs = { rpm := false, map := st.map.map (·.1) } := by simp [DStore.abs, hrpm]
      have hc0m : c0.pwmMap.map (·.1) = (none : Option MapSrc) := rfl
      rw [hc0m, habs0] at hinit
      generalize runInitD indef ph cfg cfg.newFan c0 st r = o at hinit hwf' hkf
      cases hok : o.ok with
      | true =>
        simp only [if_true]
        have htail := runTailD_abs indef ph cfg o.fan o.ctl o.store o.regs (.loadRpmFail :: o.acts)
        have hk' : o.fan.kind = fanKind cfg.kind := by rw [hkf]; rfl
        have hdev : (runTailD indef ph cfg o.fan o.ctl o.store o.regs (.loadRpmFail :: o.acts)).devOk = o.devOk := by
          unfold DOut.devOk
          have e : (runTailD indef ph cfg o.fan o.ctl o.store o.regs (.loadRpmFail :: o.acts)).acts =
              (runTailD indef ph cfg o.fan o.ctl o.store o.regs (.loadRpmFail :: o.acts)).abs.acts := rfl
          rw [e, (htail true hk' (hwf' hwf)).1, runTail_no_fail]
          simp
        refine ⟨?_, (htail true hk' (hwf' hwf)).2⟩
        rw [hdev, (htail o.devOk hk' (hwf' hwf)).1]
        have hok' : (runInit (cfg.decl o.devOk) none { rpm := false, map := st.map.map (·.1) }).ok = true := by
          rw [← hinit]; exact hok
        rw [hok', if_pos rfl, ← hinit]
        rfl
      | false =>
        simp only [Bool.false_eq_true, if_false]
        have hdev : ∀ x : DOut, x.acts = .loadRpmFail :: o.acts ++ [.restore] → x.devOk = o.devOk := by
          intro x hx; simp [DOut.devOk, hx]
        rw [hdev _ rfl]
        have hok' : (runInit (cfg.decl o.devOk) none { rpm := false, map := st.map.map (·.1) }).ok = false := by
          rw [← hinit]; exact hok
        rw [hok']
        simp only [Bool.false_eq_true, if_false]
        refine ⟨?_, hwf' hwf⟩
        rw [← hinit]
        rfl
    | file =>
      try dsimp only
      have hwf2 : DStore.WF cfg { st with rpm := curveOf cfg cfg.newFan } := by intro hh; rw [hkind] at hh; cases hh
      set T := runTailD indef ph cfg cfg.newFan
        { origPwm := getPwm cfg cfg.newFan {} r, origMode := if cfg.hasMode then r.mode else 0 }
        { st with rpm := curveOf cfg cfg.newFan } r [.loadRpmFail, .saveRpm] with hT
      have := runTailD_abs indef ph cfg cfg.newFan
        { origPwm := getPwm cfg cfg.newFan {} r, origMode := if cfg.hasMode then r.mode else 0 }
        { st with rpm := curveOf cfg cfg.newFan } r [.loadRpmFail, .saveRpm] T.devOk hk0 hwf2
      rw [← hT] at this
      refine ⟨?_, this.2⟩
      rw [this.1]
      simp [DStore.abs, curveOf, hkind]
    | cmd =>
      try dsimp only
      have hwf2 : DStore.WF cfg { st with rpm := curveOf cfg cfg.newFan } := by intro hh; rw [hkind] at hh; cases hh
      set T := runTailD indef ph cfg cfg.newFan
        { origPwm := getPwm cfg cfg.newFan {} r, origMode := if cfg.hasMode then r.mode else 0 }
        { st with rpm := curveOf cfg cfg.newFan } r [.loadRpmFail, .saveRpm] with hT
      have := runTailD_abs indef ph cfg cfg.newFan
        { origPwm := getPwm cfg cfg.newFan {} r, origMode := if cfg.hasMode then r.mode else 0 }
        { st with rpm := curveOf cfg cfg.newFan } r [.loadRpmFail, .saveRpm] T.devOk hk0 hwf2
      rw [← hT] at this
      refine ⟨?_, this.2⟩
      rw [this.1]
      simp [DStore.abs, curveOf, hkind]

/-- `fan2go fan reset` / `fan2go fan init` -/
theorem resetD_abs (cfg : FanCfg) (r : Regs) (dv : Bool) (st : DStore) :
    (resetD cfg r).abs = reset (cfg.decl dv) st.abs ∧ (resetD cfg r).store.WF cfg :=
  ⟨rfl, by intro _; simp [resetD]⟩

theorem initD_abs (indef : Int) (ph : Phys) (cfg : FanCfg) (st : DStore) (r : Regs) :
    (initD indef ph cfg r).abs = init (cfg.decl (initD indef ph cfg r).devOk) st.abs ∧
    (initD indef ph cfg r).store.WF cfg := by
  have hk0 : cfg.newFan.kind = fanKind cfg.kind := rfl
  have hinit := runInitD_abs indef ph cfg cfg.newFan {} {} r hk0
  obtain ⟨okf, _, _, _, _, _, hwf', _, _, _⟩ := runInitD_shape indef ph cfg cfg.newFan {} {} r hk0
  try simp only at hwf'
  unfold initD init
  generalize runInitD indef ph cfg cfg.newFan {} {} r = o at hinit hwf'
  have hdev : DOut.devOk { o with acts := [.deleteRpm, .deleteMap] ++ o.acts } = o.devOk := by simp [DOut.devOk]
  refine ⟨?_, hwf' (by intro _; simp)⟩
  rw [hdev]
  have : (reset (cfg.decl o.devOk) st.abs).store = ({} : DStore).abs := rfl
  rw [this]
  have e2 : (({} : CtlSt).pwmMap.map (·.1)) = (none : Option MapSrc) := rfl
  rw [e2] at hinit
  rw [← hinit]
  rfl

/-! ### the two constants built with `InterpolateLinearly` are the identity on 0..255 -/

/-- `{i ↦ float64(i) | i ∈ 0..255}` -/
def floatIdent : List (Int × F64) := (List.range 256).map fun (i : Nat) => ((i : Int), F64.fin (((i : Int)) : Rat))

/-- `util.InterpolateLinearly({0: 0, 255: 255}, 0, 255)`: every key through `Ratio`, the multiplication, the
    addition and the `float32` hop – evaluated by the kernel on the `F64` model, key by key -/
theorem interpolate_identity :
    interpolateLinearly [(0, ofInt 0), (255, ofInt 255)] 0 255 = .ok floatIdent := by
  decide +kernel

/-- the built-in RPM curve of file / cmd fans is `{i ↦ i}` -/
theorem fileCurve_eq : fileCurve = floatIdent := by
  unfold fileCurve; rw [interpolate_identity]

/-- `InterpolateLinearlyInt({0:0, 255:255}, 0, 255)` – the PWM map assumed for a fan whose PWM value cannot be
    read – is the identity map on 0..255, whatever `int()` does to non-finite values -/
theorem defaultPwmMap_eq (indef : Int) : defaultPwmMap indef = sweptMap id := by
  unfold defaultPwmMap interpolateLinearlyInt
  have : ([(0, 0), (255, 255)] : List (Int × Int)).map (fun p => (p.1, ofInt p.2)) =
      [(0, ofInt 0), (255, ofInt 255)] := rfl
  rw [this, interpolate_identity]
  simp only [floatIdent, sweptMap, List.map_map]
  apply List.map_congr_left
  intro i hi
  have hlt : i < 256 := List.mem_range.mp hi
  simp only [Function.comp, id, Prod.mk.injEq, true_and]
  have h0 : (0 : Int) ≤ (i : Int) := by positivity
  have h1 : (i : Int) < 256 := by exact_mod_cast hlt
  exact b_toInt_int indef (by omega) (by omega)

end Fan2go.Analysis
