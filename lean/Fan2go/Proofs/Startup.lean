/-
  Proofs about `Model/Startup.lean`. The inputs of one operation (fan declaration × store) range over a
  finite set, so the one-step facts are closed by exhaustive case distinction (`bash_all`: 3·2⁵ fan
  declarations × 2·4 stores, every case by kernel evaluation); the statements about arbitrary operation
  sequences are inductions over the list on top of them.
-/
import Fan2go.Model.Startup
namespace Fan2go.Startup

syntax "bash_all" : tactic
macro_rules
  | `(tactic| bash_all) => `(tactic|
      (intro d st
       rcases d with ⟨k, b1, b2, b3, b4, b5⟩
       rcases st with ⟨r, m⟩
       cases k <;> cases b1 <;> cases b2 <;> cases b3 <;> cases b4 <;> cases b5 <;> cases r <;>
         rcases m with _ | m <;> first | decide | (cases m <;> decide)))

/-! ### one start -/

/-- a start analyses the fan only if an entry is missing -/
theorem start_analysed_missing :
    ∀ (d : FanDecl) (st : Store), (start d st).analysed = true → st.missing = true := by
  bash_all

/-- a start sweeps only if no map is stored (and none is configured, and the PWM is readable) -/
theorem start_swept_iff :
    ∀ (d : FanDecl) (st : Store),
      (start d st).swept = (!d.cfgMap && st.map.isNone && d.pwmRead) := by
  bash_all

/-- a start measures the RPM curve exactly if it is a hwmon fan with an RPM sensor without stored RPM data -/
theorem start_measured_iff :
    ∀ (d : FanDecl) (st : Store),
      (start d st).measured = (!st.rpm && d.kind == .hwmon && d.hasRpm) := by
  bash_all

theorem analysed_eq :
    ∀ (d : FanDecl) (st : Store), (start d st).analysed = ((start d st).swept || (start d st).measured) := by
  bash_all

/-- with a configured map: never a sweep, and the controller ends up with the configured map -/
theorem override_start :
    ∀ (d : FanDecl) (st : Store), d.cfgMap = true →
      (start d st).swept = false ∧ ((start d st).ok = true → (start d st).ctl = some .override) := by
  bash_all

theorem override_init :
    ∀ (d : FanDecl) (st : Store), d.cfgMap = true →
      (init d st).swept = false ∧ (init d st).ctl = some .override := by
  bash_all

/-- both entries stored, no configured map: straight to regulation with the stored data -/
theorem reuse :
    ∀ (d : FanDecl) (st : Store), st.rpm = true → st.map.isSome = true → d.cfgMap = false →
      (start d st).acts = [.loadRpmOk, .loadRpmOk, .attach, .useStored, .regulate] ∧
      (start d st).store = st ∧ (start d st).ctl = st.map ∧ (start d st).ok = true := by
  bash_all

/-- both entries stored, configured map: the same with the configured map -/
theorem reuse_override :
    ∀ (d : FanDecl) (st : Store), st.rpm = true → d.cfgMap = true →
      (start d st).acts = [.loadRpmOk, .loadRpmOk, .attach, .useOverride, .regulate] ∧
      (start d st).store = st ∧ (start d st).ok = true := by
  bash_all

/-- first start of a hwmon fan with an RPM sensor on an empty database: analysed, both entries stored -/
theorem first_start_stores :
    ∀ (d : FanDecl) (st : Store), d.kind = .hwmon → d.hasRpm = true → d.devOk = true →
      st = { rpm := false, map := none } →
      (start d st).ok = true ∧ (start d st).measured = true ∧
      (start d st).store.rpm = true ∧ (start d st).store.map.isSome = true := by
  bash_all

/-- a hwmon fan without RPM sensor never gets past start-up: nothing is ever stored as RPM data -/
theorem hwmon_without_rpm_fails :
    ∀ (d : FanDecl) (st : Store), d.kind = .hwmon → d.hasRpm = false → st.rpm = false →
      (start d st).ok = false ∧ (start d st).store.rpm = false ∧ (start d st).store.map.isSome = true := by
  bash_all

/-! ### settled: the next start is analysis-free -/

def settled (d : FanDecl) (st : Store) : Prop := (start d st).analysed = false

theorem ok_start_settles :
    ∀ (d : FanDecl) (st : Store), (start d st).ok = true → (start d (start d st).store).analysed = false := by
  bash_all

theorem ok_init_settles :
    ∀ (d : FanDecl) (st : Store), (init d st).ok = true → (start d (init d st).store).analysed = false := by
  bash_all

theorem settled_start :
    ∀ (d : FanDecl) (st : Store), (start d st).analysed = false →
      (start d (start d st).store).analysed = false := by
  bash_all

theorem settled_starts (d : FanDecl) (mid : List Op) (hmid : ∀ o ∈ mid, o = Op.start) :
    ∀ st, settled d st → settled d (runStore d st mid) := by
  induction mid with
  | nil => intro st h; exact h
  | cons o os ih =>
    intro st h
    have ho : o = Op.start := hmid o (List.mem_cons_self ..)
    subst ho
    have hos : ∀ o ∈ os, o = Op.start := fun o h => hmid o (List.mem_cons_of_mem _ h)
    simp only [runStore, step]
    exact ih hos _ (settled_start d st h)

/-! ### reset and init -/

theorem reset_store : ∀ (d : FanDecl) (st : Store), (reset d st).store = { rpm := false, map := none } := by
  intro d st; rfl

theorem reset_then_start :
    ∀ (d : FanDecl) (st : Store),
      (start d (reset d st).store).swept = (!d.cfgMap && d.pwmRead) ∧
      (start d (reset d st).store).measured = (d.kind == .hwmon && d.hasRpm) := by
  bash_all

/-- `fan init` analyses whatever was stored -/
theorem init_analyses :
    ∀ (d : FanDecl) (st : Store),
      (init d st).swept = (!d.cfgMap && d.pwmRead) ∧ (init d st).measured = d.hasRpm := by
  bash_all

/-! ### file / cmd fans -/

theorem file_first_start :
    ∀ (d : FanDecl) (st : Store), d.kind ≠ .hwmon → d.cfgMap = false → d.pwmRead = true →
      st = { rpm := false, map := none } →
      (start d st).ok = true ∧ (start d st).swept = true ∧ (start d st).measured = false ∧
      (start d st).store = { rpm := true, map := some .swept } := by
  bash_all

/-! ### trace bookkeeping -/

theorem trace_entry (d : FanDecl) (ops : List Op) :
    ∀ (st : Store) (e : Store × Op × Out), e ∈ trace d st ops → e.2.2 = step d e.1 e.2.1 := by
  induction ops with
  | nil => intro st e h; simp [trace] at h
  | cons o os ih =>
    intro st e h
    simp only [trace, List.mem_cons] at h
    rcases h with h | h
    · subst h; rfl
    · exact ih _ e h

theorem runStore_append (d : FanDecl) (xs ys : List Op) :
    ∀ st, runStore d st (xs ++ ys) = runStore d (runStore d st xs) ys := by
  induction xs with
  | nil => intro st; rfl
  | cons o os ih => intro st; simp only [List.cons_append, runStore]; exact ih _

/-! ### C16 tie: after the initialisation sequence `Run`'s own `computePwmMap` never sweeps -/

theorem map_after_init_no_sweep :
    ∀ (d : FanDecl) (st : Store),
      (computePwmMapLocked d (runInit d none st).ctl (runInit d none st).store).1.contains .sweep = false := by
  bash_all

/-- for a hwmon fan every analysis action of a start happens inside `RunInitializationSequence` -/
theorem hwmon_analysis_inside_init :
    ∀ (d : FanDecl) (st : Store), d.kind = .hwmon → st.rpm = false →
      (start d st).analysed = (runInit d none st).analysed := by
  bash_all

/-- with RPM data stored, the only possible analysis of a start is the sweep inside `computePwmMap` -/
theorem analysis_with_rpm_inside_map :
    ∀ (d : FanDecl) (st : Store), st.rpm = true →
      (start d st).measured = false ∧
      (start d st).swept = (computePwmMapLocked d none st).1.contains .sweep := by
  bash_all

end Fan2go.Startup
