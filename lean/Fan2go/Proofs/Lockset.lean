/-
  C20 – soundness of the lockset discipline on the abstract machine of `Model/Lockset.lean`
  (mutual exclusion argument, any number of activity instances) and the facts about `conflicts`
  that tie the computed conflict list to the machine. Core Lean only.
-/
import Fan2go.Model.Lockset
namespace Fan2go.Lockset

/-! ### `conflicts` lists exactly the conflicting pairs of the table -/

theorem mem_conflicts {tbl : List Access} {a b : Access} (ha : a ∈ tbl) (hb : b ∈ tbl)
    (h : conflict a b = true) : triple a b ∈ conflicts tbl := by
  unfold conflicts rawConflicts
  rw [List.mem_eraseDups, List.mem_flatMap]
  exact ⟨a, ha, List.mem_map.mpr ⟨b, List.mem_filter.mpr ⟨hb, h⟩, rfl⟩⟩

theorem of_mem_conflicts {tbl : List Access} {c : String × String × String} (h : c ∈ conflicts tbl) :
    ∃ a b, a ∈ tbl ∧ b ∈ tbl ∧ conflict a b = true ∧ triple a b = c := by
  unfold conflicts rawConflicts at h
  rw [List.mem_eraseDups, List.mem_flatMap] at h
  obtain ⟨a, ha, h⟩ := h
  obtain ⟨b, hb, rfl⟩ := List.mem_map.mp h
  obtain ⟨hb, hc⟩ := List.mem_filter.mp hb
  exact ⟨a, b, ha, hb, hc, rfl⟩

theorem conflicts_nil_iff {tbl : List Access} :
    conflicts tbl = [] ↔ ∀ a ∈ tbl, ∀ b ∈ tbl, conflict a b = false := by
  constructor
  · intro h a ha b hb
    cases hc : conflict a b with
    | false => rfl
    | true => have := mem_conflicts ha hb hc; rw [h] at this; cases this
  · intro h
    cases hc : conflicts tbl with
    | nil => rfl
    | cons c cs =>
      have hm : c ∈ conflicts tbl := by rw [hc]; exact List.mem_cons_self
      obtain ⟨a, b, ha, hb, hab, _⟩ := of_mem_conflicts hm
      rw [h a ha b hb] at hab; cases hab

theorem commonLock_iff {a b : Access} : commonLock a b = true ↔ ∃ l, l ∈ a.locks ∧ l ∈ b.locks := by
  unfold commonLock
  rw [List.any_eq_true]
  constructor
  · rintro ⟨l, hl, h⟩; exact ⟨l, hl, List.contains_iff_mem.mp h⟩
  · rintro ⟨l, hl, h⟩; exact ⟨l, hl, List.contains_iff_mem.mpr h⟩

/-- a pair of race shape is either protected by a common mutex or a lockset conflict -/
theorem shape_cases {a b : Access} (h : conflictShape a b = true) :
    commonLock a b = true ∨ conflict a b = true := by
  unfold conflict
  cases hc : commonLock a b with
  | true => exact Or.inl rfl
  | false => right; simp [h]

/-! ### the invariant: mutexes are exclusive, an access in progress holds its lockset -/

theorem upd_same {α : Type} (f : Nat → α) (i : Nat) (v : α) : upd f i v i = v := by simp [upd]

theorem upd_other {α : Type} (f : Nat → α) {i j : Nat} (v : α) (h : j ≠ i) : upd f i v j = f j := by
  simp [upd, h]

structure Inv (tbl : List Access) (s : St) : Prop where
  excl : ∀ i j l, i ≠ j → l ∈ s.held i → l ∉ s.held j
  cur_ok : ∀ i a, s.cur i = some a → a ∈ tbl ∧ ∀ l ∈ a.locks, l ∈ s.held i

theorem inv_init (tbl : List Access) : Inv tbl St.init :=
  ⟨fun _ _ _ _ h => (by cases h), fun _ _ h => (by cases h)⟩

theorem inv_step {tbl : List Access} {s t : St} (inv : Inv tbl s) (st : Step tbl s t) : Inv tbl t := by
  cases st with
  | acquire i l hcur hfree =>
    constructor
    · intro i' j' l' hne hi' hj'
      by_cases e1 : i' = i
      · subst e1
        have hj : j' ≠ i' := fun e => hne e.symm
        simp only [upd_same] at hi'
        simp only [upd_other _ _ hj] at hj'
        rcases List.mem_cons.mp hi' with rfl | hi'
        · exact hfree j' hj'
        · exact inv.excl i' j' l' hne hi' hj'
      · simp only [upd_other _ _ e1] at hi'
        by_cases e2 : j' = i
        · subst e2
          simp only [upd_same] at hj'
          rcases List.mem_cons.mp hj' with rfl | hj'
          · exact hfree i' hi'
          · exact inv.excl i' j' l' hne hi' hj'
        · simp only [upd_other _ _ e2] at hj'
          exact inv.excl i' j' l' hne hi' hj'
    · intro i' a ha
      have ha' : s.cur i' = some a := ha
      by_cases e : i' = i
      · subst e; rw [hcur] at ha'; cases ha'
      · obtain ⟨h1, h2⟩ := inv.cur_ok i' a ha'
        refine ⟨h1, fun l hl => ?_⟩
        show l ∈ upd s.held i _ i'
        rw [upd_other _ _ e]; exact h2 l hl
  | release i l hcur =>
    constructor
    · intro i' j' l' hne hi' hj'
      have hi : l' ∈ s.held i' := by
        by_cases e : i' = i
        · subst e; simp only [upd_same] at hi'; exact (List.mem_filter.mp hi').1
        · simp only [upd_other _ _ e] at hi'; exact hi'
      have hj : l' ∈ s.held j' := by
        by_cases e : j' = i
        · subst e; simp only [upd_same] at hj'; exact (List.mem_filter.mp hj').1
        · simp only [upd_other _ _ e] at hj'; exact hj'
      exact inv.excl i' j' l' hne hi hj
    · intro i' a ha
      have ha' : s.cur i' = some a := ha
      by_cases e : i' = i
      · subst e; rw [hcur] at ha'; cases ha'
      · obtain ⟨h1, h2⟩ := inv.cur_ok i' a ha'
        refine ⟨h1, fun l' hl => ?_⟩
        show l' ∈ upd s.held i _ i'
        rw [upd_other _ _ e]; exact h2 l' hl
  | «begin» i a hmem hcur hlocks =>
    constructor
    · exact inv.excl
    · intro i' a' ha
      by_cases e : i' = i
      · subst e
        have : some a = some a' := by simpa [upd_same] using ha
        cases this
        exact ⟨hmem, hlocks⟩
      · have ha' : s.cur i' = some a' := by simpa [upd_other _ _ e] using ha
        exact inv.cur_ok i' a' ha'
  | finish i =>
    constructor
    · exact inv.excl
    · intro i' a' ha
      by_cases e : i' = i
      · subst e
        simp [upd_same] at ha
      · have ha' : s.cur i' = some a' := by simpa [upd_other _ _ e] using ha
        exact inv.cur_ok i' a' ha'

theorem inv_reachable {tbl : List Access} {s : St} (h : Reachable tbl s) : Inv tbl s := by
  induction h with
  | init => exact inv_init tbl
  | step _ st ih => exact inv_step ih st

/-- two accesses simultaneously in progress in different activity instances never share a mutex -/
theorem in_progress_no_common_lock {tbl : List Access} {s : St} (h : Reachable tbl s) {i j : Nat} {a b : Access}
    (hij : i ≠ j) (ha : s.cur i = some a) (hb : s.cur j = some b) : commonLock a b = false := by
  have inv := inv_reachable h
  cases hc : commonLock a b with
  | false => rfl
  | true =>
    obtain ⟨l, hla, hlb⟩ := commonLock_iff.mp hc
    exact absurd ((inv.cur_ok j b hb).2 l hlb) (inv.excl i j l hij ((inv.cur_ok i a ha).2 l hla))

/-- accesses in progress come from the table -/
theorem in_progress_mem {tbl : List Access} {s : St} (h : Reachable tbl s) {i : Nat} {a : Access}
    (ha : s.cur i = some a) : a ∈ tbl := ((inv_reachable h).cur_ok i a ha).1

/-- LOCKSET SOUNDNESS: if every pair of table rows of race shape shares a mutex, the machine never
    reaches a race. -/
theorem lockset_sound {tbl : List Access}
    (hyp : ∀ a ∈ tbl, ∀ b ∈ tbl, conflictShape a b = true → commonLock a b = true) :
    ∀ s, Reachable tbl s → ¬ Race s := by
  rintro s h ⟨i, j, a, b, hij, ha, hb, hs⟩
  have h1 := hyp a (in_progress_mem h ha) b (in_progress_mem h hb) hs
  rw [in_progress_no_common_lock h hij ha hb] at h1
  cases h1

/-- every race the machine can reach is a lockset conflict of the table, hence listed by `conflicts` -/
theorem race_listed {tbl : List Access} {s : St} (h : Reachable tbl s) {i j : Nat} {a b : Access}
    (hij : i ≠ j) (ha : s.cur i = some a) (hb : s.cur j = some b) (hs : conflictShape a b = true) :
    triple a b ∈ conflicts tbl := by
  rcases shape_cases hs with hc | hc
  · rw [in_progress_no_common_lock h hij ha hb] at hc; cases hc
  · exact mem_conflicts (in_progress_mem h ha) (in_progress_mem h hb) hc

/-- an empty conflict list gives the hypothesis of `lockset_sound` -/
theorem sound_of_no_conflicts {tbl : List Access} (h : conflicts tbl = []) :
    ∀ s, Reachable tbl s → ¬ Race s := by
  apply lockset_sound
  intro a ha b hb hs
  rcases shape_cases hs with hc | hc
  · exact hc
  · rw [(conflicts_nil_iff.mp h) a ha b hb] at hc; cases hc

/-- conversely, a lockset conflict of the table IS reachable as a race of the machine (two instances
    acquire their – disjoint – locksets and begin): the machine is not vacuous. -/
theorem conflict_reachable {tbl : List Access} {a b : Access} (ha : a ∈ tbl) (hb : b ∈ tbl)
    (hl : a.locks = []) (hl' : b.locks = []) (hs : conflictShape a b = true) :
    ∃ s, Reachable tbl s ∧ Race s := by
  let s1 : St := ⟨St.init.held, upd St.init.cur 0 (some a)⟩
  let s2 : St := ⟨s1.held, upd s1.cur 1 (some b)⟩
  have r1 : Reachable tbl s1 :=
    Reachable.step Reachable.init (Step.begin St.init 0 a ha rfl (by intro l hl2; rw [hl] at hl2; cases hl2))
  have r2 : Reachable tbl s2 :=
    Reachable.step r1 (Step.begin s1 1 b hb (by simp [s1, upd, St.init]) (by intro l hl2; rw [hl'] at hl2; cases hl2))
  refine ⟨s2, r2, 0, 1, a, b, by decide, ?_, ?_, hs⟩
  · simp [s2, s1, upd]
  · simp [s2, upd]

end Fan2go.Lockset
