/-
  Proofs about the two arithmetic steps of `calculateTargetPwm` that carry C01/C02:
  `clamp255` (controller.go:445-452) and `rescale` (controller.go:461), plus small `F64` evaluation lemmas
  (`toInt` of a small non-negative rational is its floor, independent of `indef`).
-/
import Fan2go.F64.Lemmas
import Fan2go.Model.Controller
namespace Fan2go
open F64

/-! ### evaluation lemmas for `F64` operations on finite values -/

theorem F64.fin_div_fin (a b : ℚ) (hb : b ≠ 0) : (F64.fin a / F64.fin b : F64) = F64.ofRat (a / b) := by
  show F64.div (F64.fin a) (F64.fin b) = _
  simp only [F64.div, if_neg hb]

theorem F64.fin_mul_fin (a b : ℚ) : (F64.fin a * F64.fin b : F64) = F64.ofRat (a * b) := rfl

theorem F64.fin_add_fin (a b : ℚ) : (F64.fin a + F64.fin b : F64) = F64.ofRat (a + b) := rfl

theorem F64.fin_sub_fin (a b : ℚ) : (F64.fin a - F64.fin b : F64) = F64.ofRat (a - b) := by
  show F64.add (F64.fin a) (F64.neg (F64.fin b)) = _
  simp only [F64.neg, F64.add, sub_eq_add_neg]

theorem truncRat_nonneg_floor {q : ℚ} (h : 0 ≤ q) : truncRat q = ⌊q⌋ := by
  unfold truncRat; rw [if_pos h]; rfl

/-- `int(x)` of a finite non-negative float below `2^63` is its floor, whatever `indef` is. -/
theorem toInt_fin_of_nonneg (indef : Int) {q : ℚ} (h0 : 0 ≤ q) (h1 : q < 2 ^ 63) :
    toInt indef (F64.fin q) = ⌊q⌋ := by
  have hf0 : (0 : Int) ≤ ⌊q⌋ := Int.floor_nonneg.mpr h0
  have hf1 : ⌊q⌋ < (2 : Int) ^ 63 := by
    rw [Int.floor_lt]; push_cast; exact h1
  simp only [toInt, truncRat_nonneg_floor h0]
  rw [if_neg]
  intro h
  rcases h with h | h
  · have : (0 : Int) < 2 ^ 63 := by norm_num
    omega
  · omega

/-- a finite float `< 1` (and `≥ 0`) converts to the integer `0`. -/
theorem toInt_fin_lt_one (indef : Int) {q : ℚ} (h0 : 0 ≤ q) (h1 : q < 1) :
    toInt indef (F64.fin q) = 0 := by
  rw [toInt_fin_of_nonneg indef h0 (by linarith [show (1 : ℚ) ≤ 2 ^ 63 by norm_num])]
  rw [Int.floor_eq_iff]; constructor <;> simp [h0, h1]

theorem small_of_byte {n : Int} (h0 : 0 ≤ n) (h1 : n ≤ 255) : |n| ≤ 2 ^ 53 := by
  rw [abs_le]; constructor <;> omega

/-! ### `clamp255` -/

theorem clamp255_bounds (t : Int) : 0 ≤ clamp255 t ∧ clamp255 t ≤ 255 := by
  unfold clamp255; split
  · omega
  · split <;> omega

theorem clamp255_monotone {t t' : Int} (h : t ≤ t') : clamp255 t ≤ clamp255 t' := by
  unfold clamp255; split <;> split <;> (try split) <;> (try split) <;> omega

theorem clamp255_of_byte {t : Int} (h0 : 0 ≤ t) (h1 : t ≤ 255) : clamp255 t = t := by
  unfold clamp255; rw [if_neg (by omega), if_neg (by omega)]

/-! ### `rescale` -/

/-- the float factor `float64(target)/255` for a byte target -/
def ratio255 (t : Int) : ℚ := fl64 ((t : ℚ) / 255)

theorem ratio255_nonneg {t : Int} (h0 : 0 ≤ t) : 0 ≤ ratio255 t := by
  unfold ratio255
  apply fl64_nonneg
  have : (0 : ℚ) ≤ t := by exact_mod_cast h0
  positivity

theorem ratio255_le_one {t : Int} (h1 : t ≤ 255) : ratio255 t ≤ 1 := by
  unfold ratio255
  have h : (t : ℚ) / 255 ≤ 1 := by
    have : (t : ℚ) ≤ 255 := by exact_mod_cast h1
    rw [div_le_one (by norm_num)]; exact this
  have := fl64_mono h
  rwa [fl64_one] at this

theorem ratio255_mono {t t' : Int} (h : t ≤ t') : ratio255 t ≤ ratio255 t' := by
  unfold ratio255
  apply fl64_mono
  have : (t : ℚ) ≤ t' := by exact_mod_cast h
  exact div_le_div_of_nonneg_right this (by norm_num)

theorem ratio255_zero : ratio255 0 = 0 := by
  unfold ratio255; simp [fl64_zero]

theorem ratio255_full : ratio255 255 = 1 := by
  unfold ratio255
  have : ((255 : Int) : ℚ) / 255 = 1 := by norm_num
  rw [this, fl64_one]

/-- closed form of the range mapping for byte arguments: everything is finite and `int(...)` is a floor. -/
theorem rescale_eq (indef t lo hi : Int) (ht : 0 ≤ t ∧ t ≤ 255) (hlo : 0 ≤ lo) (hle : lo ≤ hi)
    (hhi : hi ≤ 255) :
    rescale indef t lo hi = lo + ⌊fl64 (ratio255 t * ((hi - lo : Int) : ℚ))⌋
      ∧ 0 ≤ fl64 (ratio255 t * ((hi - lo : Int) : ℚ))
      ∧ fl64 (ratio255 t * ((hi - lo : Int) : ℚ)) ≤ ((hi - lo : Int) : ℚ) := by
  have hr0 := ratio255_nonneg ht.1
  have hr1 := ratio255_le_one ht.2
  have hd0 : (0 : ℚ) ≤ ((hi - lo : Int) : ℚ) := by exact_mod_cast (by omega : (0 : Int) ≤ hi - lo)
  have hd255 : ((hi - lo : Int) : ℚ) ≤ 255 := by exact_mod_cast (by omega : hi - lo ≤ 255)
  have hdrep : Rep64 ((hi - lo : Int) : ℚ) := rep64_intCast _ (small_of_byte (by omega) (by omega))
  have hp0 : 0 ≤ ratio255 t * ((hi - lo : Int) : ℚ) := mul_nonneg hr0 hd0
  have hpd : ratio255 t * ((hi - lo : Int) : ℚ) ≤ ((hi - lo : Int) : ℚ) := by
    calc ratio255 t * ((hi - lo : Int) : ℚ) ≤ 1 * ((hi - lo : Int) : ℚ) :=
          mul_le_mul_of_nonneg_right hr1 hd0
      _ = _ := one_mul _
  have hf0 : 0 ≤ fl64 (ratio255 t * ((hi - lo : Int) : ℚ)) := fl64_nonneg hp0
  have hfd : fl64 (ratio255 t * ((hi - lo : Int) : ℚ)) ≤ ((hi - lo : Int) : ℚ) :=
    fl64_le_of_le_rep hdrep hpd
  refine ⟨?_, hf0, hfd⟩
  have h255 : (1023 : Int) = ((1023 : Nat) : Int) := rfl
  have hbig : (255 : ℚ) ≤ pow2 1023 := by
    rw [h255, pow2_natCast']
    calc (255 : ℚ) ≤ 2 ^ 8 := by norm_num
      _ ≤ 2 ^ 1023 := pow_le_pow_right₀ (by norm_num) (by norm_num)
  -- the operands
  have e1 : ofInt t = F64.fin (t : ℚ) := ofInt_small (small_of_byte ht.1 ht.2)
  have e2 : ofInt 255 = F64.fin ((255 : Int) : ℚ) := ofInt_small (by norm_num)
  have e3 : ofInt hi = F64.fin (hi : ℚ) := ofInt_small (small_of_byte (by omega) hhi)
  have e4 : ofInt lo = F64.fin (lo : ℚ) := ofInt_small (small_of_byte hlo (by omega))
  -- the quotient
  have hq : (F64.fin (t : ℚ) / F64.fin ((255 : Int) : ℚ) : F64) = F64.fin (ratio255 t) := by
    rw [F64.fin_div_fin _ _ (by norm_num)]
    have : ((255 : Int) : ℚ) = 255 := by norm_num
    rw [this, ofRat_fin_of_abs_le]
    · rfl
    · have h0 : (0 : ℚ) ≤ (t : ℚ) / 255 := by
        have : (0 : ℚ) ≤ t := by exact_mod_cast ht.1
        positivity
      have h1 : (t : ℚ) / 255 ≤ 1 := by
        have : (t : ℚ) ≤ 255 := by exact_mod_cast ht.2
        rw [div_le_one (by norm_num)]; exact this
      rw [abs_of_nonneg h0]; linarith
  -- the difference
  have hs : (F64.fin (hi : ℚ) - F64.fin (lo : ℚ) : F64) = F64.fin ((hi - lo : Int) : ℚ) := by
    rw [F64.fin_sub_fin]
    have : (hi : ℚ) - (lo : ℚ) = ((hi - lo : Int) : ℚ) := by push_cast; ring
    rw [this]
    exact ofRat_intCast (small_of_byte (by omega) (by omega))
  -- the product
  have hm : (F64.fin (ratio255 t) * F64.fin ((hi - lo : Int) : ℚ) : F64)
      = F64.fin (fl64 (ratio255 t * ((hi - lo : Int) : ℚ))) := by
    rw [F64.fin_mul_fin, ofRat_fin_of_abs_le]
    rw [abs_of_nonneg hp0]; linarith
  unfold rescale
  rw [e1, e2, e3, e4, hq, hs, hm, toInt_fin_of_nonneg indef hf0]
  calc fl64 (ratio255 t * ((hi - lo : Int) : ℚ)) ≤ 255 := le_trans hfd hd255
    _ < 2 ^ 63 := by norm_num

/-- the rescaled target lies in `[lo, hi]`. -/
theorem rescale_range (indef t lo hi : Int) (ht : 0 ≤ t ∧ t ≤ 255) (hlo : 0 ≤ lo) (hle : lo ≤ hi)
    (hhi : hi ≤ 255) : lo ≤ rescale indef t lo hi ∧ rescale indef t lo hi ≤ hi := by
  obtain ⟨e, h0, h1⟩ := rescale_eq indef t lo hi ht hlo hle hhi
  rw [e]
  have a : (0 : Int) ≤ ⌊fl64 (ratio255 t * ((hi - lo : Int) : ℚ))⌋ := Int.floor_nonneg.mpr h0
  have b : ⌊fl64 (ratio255 t * ((hi - lo : Int) : ℚ))⌋ ≤ hi - lo := by
    have := Int.floor_le_floor h1
    rwa [Int.floor_intCast] at this
  omega

theorem rescale_zero (indef lo hi : Int) (hlo : 0 ≤ lo) (hle : lo ≤ hi) (hhi : hi ≤ 255) :
    rescale indef 0 lo hi = lo := by
  obtain ⟨e, -, -⟩ := rescale_eq indef 0 lo hi ⟨le_refl _, by norm_num⟩ hlo hle hhi
  rw [e, ratio255_zero, zero_mul, fl64_zero, Int.floor_zero, add_zero]

theorem rescale_full (indef lo hi : Int) (hlo : 0 ≤ lo) (hle : lo ≤ hi) (hhi : hi ≤ 255) :
    rescale indef 255 lo hi = hi := by
  obtain ⟨e, -, -⟩ := rescale_eq indef 255 lo hi ⟨by norm_num, le_refl _⟩ hlo hle hhi
  rw [e, ratio255_full, one_mul,
    fl64_intCast _ (small_of_byte (by omega) (by omega)), Int.floor_intCast]
  omega

theorem rescale_mono (indef lo hi : Int) {t t' : Int} (ht : 0 ≤ t) (htt : t ≤ t') (ht' : t' ≤ 255)
    (hlo : 0 ≤ lo) (hle : lo ≤ hi) (hhi : hi ≤ 255) :
    rescale indef t lo hi ≤ rescale indef t' lo hi := by
  obtain ⟨e, -, -⟩ := rescale_eq indef t lo hi ⟨ht, by omega⟩ hlo hle hhi
  obtain ⟨e', -, -⟩ := rescale_eq indef t' lo hi ⟨by omega, ht'⟩ hlo hle hhi
  rw [e, e']
  have hd0 : (0 : ℚ) ≤ ((hi - lo : Int) : ℚ) := by exact_mod_cast (by omega : (0 : Int) ≤ hi - lo)
  have : ⌊fl64 (ratio255 t * ((hi - lo : Int) : ℚ))⌋ ≤ ⌊fl64 (ratio255 t' * ((hi - lo : Int) : ℚ))⌋ :=
    Int.floor_le_floor (fl64_mono (mul_le_mul_of_nonneg_right (ratio255_mono htt) hd0))
  omega

/-- `rescale` does not depend on `indef` for byte arguments. -/
theorem rescale_indef_irrel (indef indef' t lo hi : Int) (ht : 0 ≤ t ∧ t ≤ 255) (hlo : 0 ≤ lo)
    (hle : lo ≤ hi) (hhi : hi ≤ 255) : rescale indef t lo hi = rescale indef' t lo hi := by
  rw [(rescale_eq indef t lo hi ht hlo hle hhi).1, (rescale_eq indef' t lo hi ht hlo hle hhi).1]

end Fan2go
