/- kernel-evaluated exploration tables for Proofs/PidSim.lean (part B); each `decide +kernel`
   evaluates the integer model `simOk`/`simOkU` on a block of starting errors. -/
import Fan2go.Proofs.PidSim
namespace Fan2go

set_option maxRecDepth 100000 in
theorem simTabB_97 : simTabB 97 16 = true := by decide +kernel

set_option maxRecDepth 100000 in
theorem simTabB_113 : simTabB 113 16 = true := by decide +kernel

set_option maxRecDepth 100000 in
theorem simTabB_129 : simTabB 129 16 = true := by decide +kernel

set_option maxRecDepth 100000 in
theorem simTabB_145 : simTabB 145 16 = true := by decide +kernel

end Fan2go
