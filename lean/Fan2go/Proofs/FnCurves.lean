/-
  The aggregation `switch` of `FunctionSpeedCurve.Evaluate` (`evalFn`): closed forms over member
  values in 0..255, range, monotonicity.
-/
import Fan2go.Proofs.F64Ops

namespace Fan2go
open F64

/-- every member value is a PWM-range integer. -/
def InRange (vs : List Int) : Prop := ∀ v ∈ vs, 0 ≤ v ∧ v ≤ 255

theorem InRange.tail {v : Int} {vs : List Int} (h : InRange (v :: vs)) : InRange vs :=
  fun w hw => h w (List.mem_cons_of_mem _ hw)

theorem InRange.head {v : Int} {vs : List Int} (h : InRange (v :: vs)) : 0 ≤ v ∧ v ≤ 255 :=
  h v List.mem_cons_self

theorem InRange.sum_bounds {vs : List Int} (h : InRange vs) :
    0 ≤ vs.sum ∧ vs.sum ≤ 255 * (vs.length : Int) := by
  induction vs with
  | nil => simp
  | cons v vs ih =>
    have := ih h.tail
    have := h.head
    simp only [List.sum_cons, List.length_cons]
    push_cast
    omega

theorem wrap64_id {n : Int} (h1 : -2 ^ 63 ≤ n) (h2 : n < 2 ^ 63) : wrap64 n = n := by
  unfold wrap64; omega

theorem len_bound {vs : List Int} (hl : vs.length ≤ 2 ^ 40) : 255 * (vs.length : Int) ≤ 2 ^ 48 := by
  have : (vs.length : Int) ≤ 2 ^ 40 := by exact_mod_cast hl
  omega

theorem foldl_wrap_add {vs : List Int} (h : InRange vs) (acc : Int) (h0 : 0 ≤ acc)
    (h1 : acc + 255 * (vs.length : Int) ≤ 2 ^ 62) :
    vs.foldl (fun a b => wrap64 (a + b)) acc = acc + vs.sum := by
  induction vs generalizing acc with
  | nil => simp
  | cons v vs ih =>
    have hv := h.head
    simp only [List.length_cons] at h1
    push_cast at h1
    simp only [List.foldl_cons, List.sum_cons]
    rw [wrap64_id (by omega) (by omega), ih h.tail (acc + v) (by omega) (by omega)]
    ring

theorem foldl_wrap_sub {vs : List Int} (h : InRange vs) (acc : Int) (h0 : acc ≤ 2 ^ 62)
    (h1 : -2 ^ 62 ≤ acc - 255 * (vs.length : Int)) :
    vs.foldl (fun a b => wrap64 (a - b)) acc = acc - vs.sum := by
  induction vs generalizing acc with
  | nil => simp
  | cons v vs ih =>
    have hv := h.head
    simp only [List.length_cons] at h1
    push_cast at h1
    simp only [List.foldl_cons, List.sum_cons]
    rw [wrap64_id (by omega) (by omega), ih h.tail (acc - v) (by omega) (by omega)]
    ring

/-- no 64-bit wrap-around can happen while summing up to `2^40` PWM values. -/
theorem sumInts_eq {vs : List Int} (h : InRange vs) (hl : vs.length ≤ 2 ^ 40) :
    sumInts vs = vs.sum := by
  unfold sumInts
  have := len_bound hl
  rw [foldl_wrap_add h 0 (le_refl _) (by omega)]; ring

theorem ofInt_of_bounds {n : Int} (h1 : -2 ^ 53 ≤ n) (h2 : n ≤ 2 ^ 53) : ofInt n = fin (n : ℚ) :=
  ofInt_small (abs_le.mpr ⟨h1, h2⟩)

theorem toInt_intCast_small (indef : Int) {n : Int} (h1 : -2 ^ 53 ≤ n) (h2 : n ≤ 2 ^ 53) :
    toInt indef (fin (n : ℚ)) = n := toInt_intCast indef (by omega) (by omega)

/-! ### `min` / `max` folds -/

theorem foldl_min_le_acc (vs : List Int) (a : Int) : vs.foldl min a ≤ a := by
  induction vs generalizing a with
  | nil => simp
  | cons v vs ih => exact (ih (min a v)).trans (min_le_left _ _)

theorem foldl_min_le_mem (vs : List Int) (a : Int) {v : Int} (hv : v ∈ vs) : vs.foldl min a ≤ v := by
  induction vs generalizing a with
  | nil => cases hv
  | cons w vs ih =>
    rcases List.mem_cons.mp hv with rfl | h
    · exact (foldl_min_le_acc vs (min a v)).trans (min_le_right _ _)
    · exact ih (min a w) h

theorem foldl_min_mem (vs : List Int) (a : Int) : vs.foldl min a = a ∨ vs.foldl min a ∈ vs := by
  induction vs generalizing a with
  | nil => simp
  | cons w vs ih =>
    rcases ih (min a w) with h | h
    · rcases min_choice a w with h' | h'
      · left; simp only [List.foldl_cons]; rw [h, h']
      · right; simp only [List.foldl_cons]; rw [h, h']; exact List.mem_cons_self
    · right; exact List.mem_cons_of_mem _ h

theorem acc_le_foldl_max (vs : List Int) (a : Int) : a ≤ vs.foldl max a := by
  induction vs generalizing a with
  | nil => simp
  | cons v vs ih => exact (le_max_left _ _).trans (ih (max a v))

theorem mem_le_foldl_max (vs : List Int) (a : Int) {v : Int} (hv : v ∈ vs) : v ≤ vs.foldl max a := by
  induction vs generalizing a with
  | nil => cases hv
  | cons w vs ih =>
    rcases List.mem_cons.mp hv with rfl | h
    · exact (le_max_right _ _).trans (acc_le_foldl_max vs (max a v))
    · exact ih (max a w) h

theorem foldl_max_mem (vs : List Int) (a : Int) : vs.foldl max a = a ∨ vs.foldl max a ∈ vs := by
  induction vs generalizing a with
  | nil => simp
  | cons w vs ih =>
    rcases ih (max a w) with h | h
    · rcases max_choice a w with h' | h'
      · left; simp only [List.foldl_cons]; rw [h, h']
      · right; simp only [List.foldl_cons]; rw [h, h']; exact List.mem_cons_self
    · right; exact List.mem_cons_of_mem _ h

theorem foldl_min_mono {vs ws : List Int} (h : List.Forall₂ (· ≤ ·) vs ws) {a b : Int} (hab : a ≤ b) :
    vs.foldl min a ≤ ws.foldl min b := by
  induction h generalizing a b with
  | nil => simpa
  | cons hvw _ ih => exact ih (min_le_min hab hvw)

theorem foldl_max_mono {vs ws : List Int} (h : List.Forall₂ (· ≤ ·) vs ws) {a b : Int} (hab : a ≤ b) :
    vs.foldl max a ≤ ws.foldl max b := by
  induction h generalizing a b with
  | nil => simpa
  | cons hvw _ ih => exact ih (max_le_max hab hvw)

theorem sum_mono {vs ws : List Int} (h : List.Forall₂ (· ≤ ·) vs ws) : vs.sum ≤ ws.sum := by
  induction h with
  | nil => simp
  | cons hvw _ ih => simp only [List.sum_cons]; omega

/-- the float64 fold of `math.Min` over integer members is the integer fold. -/
theorem foldl_fmin {vs : List Int} (h : InRange vs) (a : Int) :
    vs.foldl (fun acc v => fmin acc (ofInt v)) (fin (a : ℚ)) = fin ((vs.foldl min a : Int) : ℚ) := by
  induction vs generalizing a with
  | nil => simp
  | cons v vs ih =>
    have hv := h.head
    simp only [List.foldl_cons]
    rw [ofInt_of_bounds (by omega) (by omega), fmin_fin_fin, ← Int.cast_min, ih h.tail]

theorem foldl_fmax {vs : List Int} (h : InRange vs) (a : Int) :
    vs.foldl (fun acc v => fmax acc (ofInt v)) (fin (a : ℚ)) = fin ((vs.foldl max a : Int) : ℚ) := by
  induction vs generalizing a with
  | nil => simp
  | cons v vs ih =>
    have hv := h.head
    simp only [List.foldl_cons]
    rw [ofInt_of_bounds (by omega) (by omega), fmax_fin_fin, ← Int.cast_max, ih h.tail]

theorem foldl_fminmax {vs : List Int} (h : InRange vs) (a b : Int) :
    vs.foldl (fun (acc : F64 × F64) v => (fmin acc.1 (ofInt v), fmax acc.2 (ofInt v)))
      (fin (a : ℚ), fin (b : ℚ))
    = (fin ((vs.foldl min a : Int) : ℚ), fin ((vs.foldl max b : Int) : ℚ)) := by
  induction vs generalizing a b with
  | nil => simp
  | cons v vs ih =>
    have hv := h.head
    simp only [List.foldl_cons]
    rw [ofInt_of_bounds (by omega) (by omega), fmin_fin_fin, fmax_fin_fin, ← Int.cast_min,
      ← Int.cast_max, ih h.tail]

/-! ### closed forms -/

theorem evalFn_sum (indef : Int) {vs : List Int} (h : InRange vs) (hl : vs.length ≤ 2 ^ 40) :
    evalFn indef "sum" vs = .ok (min 255 vs.sum) := by
  have hb := h.sum_bounds
  have := len_bound hl
  simp only [evalFn, if_true]
  rw [sumInts_eq h hl, ofInt_255, ofInt_of_bounds (by omega) (by omega)]
  have : (fin 255 : F64) = fin ((255 : Int) : ℚ) := by norm_num
  rw [this, fmin_fin_fin, ← Int.cast_min, toInt_intCast_small indef (by omega) (by omega)]

theorem evalFn_difference_nil (indef : Int) : evalFn indef "difference" [] = .ok 0 := by
  have h1 : ¬ ("difference" = "sum") := by decide
  simp only [evalFn, h1, if_false, if_true]
  rw [ofInt_zero, fmax_fin_fin, max_self]
  have := toInt_intCast_small indef (n := 0) (by norm_num) (by norm_num)
  simpa using this

theorem evalFn_difference (indef : Int) {v : Int} {vs : List Int} (h : InRange (v :: vs))
    (hl : (v :: vs).length ≤ 2 ^ 40) :
    evalFn indef "difference" (v :: vs) = .ok (max 0 (v - vs.sum)) := by
  have hb := h.tail.sum_bounds
  have hv := h.head
  have hl' : vs.length ≤ 2 ^ 40 := by simp only [List.length_cons] at hl; omega
  have := len_bound hl'
  have h1 : ¬ ("difference" = "sum") := by decide
  simp only [evalFn, h1, if_false, if_true]
  rw [foldl_wrap_sub h.tail v (by omega) (by omega), ofInt_zero,
    ofInt_of_bounds (by omega) (by omega)]
  have : (fin 0 : F64) = fin ((0 : Int) : ℚ) := by norm_num
  rw [this, fmax_fin_fin, ← Int.cast_max, toInt_intCast_small indef (by omega) (by omega)]

theorem evalFn_delta (indef : Int) {v : Int} {vs : List Int} (h : InRange (v :: vs)) :
    evalFn indef "delta" (v :: vs) = .ok ((v :: vs).foldl max v - (v :: vs).foldl min v) := by
  have hv := h.head
  have h1 : ¬ ("delta" = "sum") := by decide
  have h2 : ¬ ("delta" = "difference") := by decide
  simp only [evalFn, h1, h2, if_false, if_true]
  rw [ofInt_of_bounds (n := v) (by omega) (by omega), foldl_fminmax h]
  simp only
  have hM : (v :: vs).foldl max v ∈ v :: vs := by
    rcases foldl_max_mem (v :: vs) v with e | e
    · rw [e]; exact List.mem_cons_self
    · exact e
  have hm : (v :: vs).foldl min v ∈ v :: vs := by
    rcases foldl_min_mem (v :: vs) v with e | e
    · rw [e]; exact List.mem_cons_self
    · exact e
  have bM := h _ hM
  have bm := h _ hm
  rw [sub_fin_fin, ← Int.cast_sub, ofRat_intCast (abs_le.mpr ⟨by omega, by omega⟩),
    toInt_intCast_small indef (by omega) (by omega)]

theorem evalFn_delta_nil (indef : Int) : evalFn indef "delta" [] = .panic "index-out-of-range" := by
  have h1 : ¬ ("delta" = "sum") := by decide
  have h2 : ¬ ("delta" = "difference") := by decide
  simp only [evalFn, h1, h2, if_false, if_true]

theorem evalFn_minimum (indef : Int) {vs : List Int} (h : InRange vs) :
    evalFn indef "minimum" vs = .ok (vs.foldl min 255) := by
  have h1 : ¬ ("minimum" = "sum") := by decide
  have h2 : ¬ ("minimum" = "difference") := by decide
  have h3 : ¬ ("minimum" = "delta") := by decide
  simp only [evalFn, h1, h2, h3, if_false, if_true]
  have : (fin 255 : F64) = fin ((255 : Int) : ℚ) := by norm_num
  rw [ofInt_255, this, foldl_fmin h]
  have hb : vs.foldl min 255 ≤ 255 := foldl_min_le_acc vs 255
  have hb0 : 0 ≤ vs.foldl min 255 := by
    rcases foldl_min_mem vs 255 with e | e
    · rw [e]; norm_num
    · exact (h _ e).1
  rw [toInt_intCast_small indef (by omega) (by omega)]

theorem evalFn_maximum (indef : Int) {vs : List Int} (h : InRange vs) :
    evalFn indef "maximum" vs = .ok (vs.foldl max 0) := by
  have h1 : ¬ ("maximum" = "sum") := by decide
  have h2 : ¬ ("maximum" = "difference") := by decide
  have h3 : ¬ ("maximum" = "delta") := by decide
  have h4 : ¬ ("maximum" = "minimum") := by decide
  simp only [evalFn, h1, h2, h3, h4, if_false, if_true]
  have : (fin 0 : F64) = fin ((0 : Int) : ℚ) := by norm_num
  rw [ofInt_zero, this, foldl_fmax h]
  have hb : 0 ≤ vs.foldl max 0 := acc_le_foldl_max vs 0
  have hb0 : vs.foldl max 0 ≤ 255 := by
    rcases foldl_max_mem vs 0 with e | e
    · rw [e]; norm_num
    · exact (h _ e).2
  rw [toInt_intCast_small indef (by omega) (by omega)]

theorem evalFn_average (indef : Int) {vs : List Int} (h : InRange vs) (hl : vs.length ≤ 2 ^ 40)
    (hne : vs ≠ []) : evalFn indef "average" vs = .ok (vs.sum / (vs.length : Int)) := by
  have h1 : ¬ ("average" = "sum") := by decide
  have h2 : ¬ ("average" = "difference") := by decide
  have h3 : ¬ ("average" = "delta") := by decide
  have h4 : ¬ ("average" = "minimum") := by decide
  have h5 : ¬ ("average" = "maximum") := by decide
  have hlen : ¬ vs.length = 0 := by
    intro h0; exact hne (List.length_eq_zero_iff.mp h0)
  simp only [evalFn, h1, h2, h3, h4, h5, hlen, if_false, if_true]
  rw [sumInts_eq h hl, Int.tdiv_eq_ediv_of_nonneg h.sum_bounds.1]

theorem evalFn_average_nil (indef : Int) :
    evalFn indef "average" [] = .panic "integer-divide-by-zero" := by
  have h1 : ¬ ("average" = "sum") := by decide
  have h2 : ¬ ("average" = "difference") := by decide
  have h3 : ¬ ("average" = "delta") := by decide
  have h4 : ¬ ("average" = "minimum") := by decide
  have h5 : ¬ ("average" = "maximum") := by decide
  simp only [evalFn, h1, h2, h3, h4, h5, List.length_nil, if_false, if_true]

/-- the six documented function types. -/
def IsFnType (ty : String) : Prop :=
  ty = "sum" ∨ ty = "difference" ∨ ty = "delta" ∨ ty = "minimum" ∨ ty = "maximum" ∨ ty = "average"

theorem avg_bounds {vs : List Int} (h : InRange vs) (hne : vs ≠ []) :
    0 ≤ vs.sum / (vs.length : Int) ∧ vs.sum / (vs.length : Int) ≤ 255 := by
  have hb := h.sum_bounds
  have hpos : (0 : Int) < vs.length := by
    have : 0 < vs.length := List.length_pos_iff.mpr hne
    exact_mod_cast this
  constructor
  · exact Int.ediv_nonneg hb.1 hpos.le
  · exact Int.ediv_le_of_le_mul hpos hb.2

theorem evalFn_range (indef : Int) {ty : String} (hty : IsFnType ty) {vs : List Int}
    (h : InRange vs) (hl : vs.length ≤ 2 ^ 40) (hne : vs ≠ []) :
    ∃ v, evalFn indef ty vs = .ok v ∧ 0 ≤ v ∧ v ≤ 255 := by
  have hb := h.sum_bounds
  rcases hty with rfl | rfl | rfl | rfl | rfl | rfl
  · exact ⟨_, evalFn_sum indef h hl, by omega, by omega⟩
  · cases vs with
    | nil => exact absurd rfl hne
    | cons v vs =>
      have := h.tail.sum_bounds
      have := h.head
      exact ⟨_, evalFn_difference indef h hl, by omega, by omega⟩
  · cases vs with
    | nil => exact absurd rfl hne
    | cons v vs =>
      refine ⟨_, evalFn_delta indef h, ?_, ?_⟩
      · have a := foldl_min_le_acc (v :: vs) v
        have b := acc_le_foldl_max (v :: vs) v
        omega
      · have hM : (v :: vs).foldl max v ∈ v :: vs := by
          rcases foldl_max_mem (v :: vs) v with e | e
          · rw [e]; exact List.mem_cons_self
          · exact e
        have hm : (v :: vs).foldl min v ∈ v :: vs := by
          rcases foldl_min_mem (v :: vs) v with e | e
          · rw [e]; exact List.mem_cons_self
          · exact e
        have bM := h _ hM
        have bm := h _ hm
        omega
  · refine ⟨_, evalFn_minimum indef h, ?_, foldl_min_le_acc vs 255⟩
    rcases foldl_min_mem vs 255 with e | e
    · rw [e]; norm_num
    · exact (h _ e).1
  · refine ⟨_, evalFn_maximum indef h, acc_le_foldl_max vs 0, ?_⟩
    rcases foldl_max_mem vs 0 with e | e
    · rw [e]; norm_num
    · exact (h _ e).2
  · have := avg_bounds h hne
    exact ⟨_, evalFn_average indef h hl hne, this.1, this.2⟩

/-! ### monotonicity of `sum`, `maximum`, `minimum`, `average` -/

/-- the function types that preserve monotonicity. -/
def IsMonoFnType (ty : String) : Prop :=
  ty = "sum" ∨ ty = "maximum" ∨ ty = "minimum" ∨ ty = "average"

theorem evalFn_mono (indef : Int) {ty : String} (hty : IsMonoFnType ty) {vs ws : List Int}
    (hvw : List.Forall₂ (· ≤ ·) vs ws) (hv : InRange vs) (hw : InRange ws)
    (hl : vs.length ≤ 2 ^ 40) (hne : ty = "average" → vs ≠ []) :
    ∃ a b, evalFn indef ty vs = .ok a ∧ evalFn indef ty ws = .ok b ∧ a ≤ b := by
  have hlen : vs.length = ws.length := hvw.length_eq
  have hl' : ws.length ≤ 2 ^ 40 := by omega
  rcases hty with rfl | rfl | rfl | rfl
  · refine ⟨_, _, evalFn_sum indef hv hl, evalFn_sum indef hw hl', ?_⟩
    have := sum_mono hvw
    omega
  · exact ⟨_, _, evalFn_maximum indef hv, evalFn_maximum indef hw, foldl_max_mono hvw (le_refl _)⟩
  · exact ⟨_, _, evalFn_minimum indef hv, evalFn_minimum indef hw, foldl_min_mono hvw (le_refl _)⟩
  · have hne' := hne rfl
    have hne2 : ws ≠ [] := by
      intro e; rw [e] at hlen
      exact hne' (List.length_eq_zero_iff.mp hlen)
    refine ⟨_, _, evalFn_average indef hv hl hne', evalFn_average indef hw hl' hne2, ?_⟩
    rw [hlen]
    have hpos : (0 : Int) < ws.length := by
      have : 0 < ws.length := List.length_pos_iff.mpr hne2
      exact_mod_cast this
    exact Int.ediv_le_ediv hpos (sum_mono hvw)

/-! ### the folds are the least / greatest member -/

/-- `m` is the least element of `vs`. -/
def IsMinOf (vs : List Int) (m : Int) : Prop := m ∈ vs ∧ ∀ v ∈ vs, m ≤ v
/-- `M` is the greatest element of `vs`. -/
def IsMaxOf (vs : List Int) (M : Int) : Prop := M ∈ vs ∧ ∀ v ∈ vs, v ≤ M

theorem foldl_min_spec {vs : List Int} {a : Int} (hne : vs ≠ []) (h : ∀ v ∈ vs, v ≤ a) :
    IsMinOf vs (vs.foldl min a) := by
  refine ⟨?_, fun v hv => foldl_min_le_mem vs a hv⟩
  rcases foldl_min_mem vs a with e | e
  · cases vs with
    | nil => exact absurd rfl hne
    | cons v0 rest =>
      have h1 := foldl_min_le_mem (v0 :: rest) a (v := v0) List.mem_cons_self
      have h2 := h v0 List.mem_cons_self
      have : v0 = List.foldl min a (v0 :: rest) := by omega
      rw [← this]; exact List.mem_cons_self
  · exact e

theorem foldl_max_spec {vs : List Int} {a : Int} (hne : vs ≠ []) (h : ∀ v ∈ vs, a ≤ v) :
    IsMaxOf vs (vs.foldl max a) := by
  refine ⟨?_, fun v hv => mem_le_foldl_max vs a hv⟩
  rcases foldl_max_mem vs a with e | e
  · cases vs with
    | nil => exact absurd rfl hne
    | cons v0 rest =>
      have h1 := mem_le_foldl_max (v0 :: rest) a (v := v0) List.mem_cons_self
      have h2 := h v0 List.mem_cons_self
      have : v0 = List.foldl max a (v0 :: rest) := by omega
      rw [← this]; exact List.mem_cons_self
  · exact e

theorem foldl_min_head_spec (v : Int) (vs : List Int) : IsMinOf (v :: vs) ((v :: vs).foldl min v) := by
  refine ⟨?_, fun w hw => foldl_min_le_mem _ v hw⟩
  rcases foldl_min_mem (v :: vs) v with e | e
  · rw [e]; exact List.mem_cons_self
  · exact e

theorem foldl_max_head_spec (v : Int) (vs : List Int) : IsMaxOf (v :: vs) ((v :: vs).foldl max v) := by
  refine ⟨?_, fun w hw => mem_le_foldl_max _ v hw⟩
  rcases foldl_max_mem (v :: vs) v with e | e
  · rw [e]; exact List.mem_cons_self
  · exact e

end Fan2go
