/-
  `util.CalculateInterpolatedCurveValue` (`interpLoop` / `interp`) and the steps form of the
  linear curve (`linSteps`): reduction to rational arithmetic with explicit roundings, range,
  values at the knots, monotonicity.
-/
import Fan2go.Proofs.Linear

namespace Fan2go
open F64

/-! ### a binary32 value absorbs anything that is only a little larger -/

/-- If `s` is a non-negative binary32 value and `z ≤ s·(1 + 2^-30)` then `float32(z) ≤ s`:
    the excess is far below half a unit in the last place of `s`. -/
theorem fl32_le_of_near {s z : ℚ} (hs : Rep32 s) (h0 : 0 ≤ s) (hz : z ≤ s + s * pow2 (-30)) :
    fl32 z ≤ s := by
  rcases le_or_gt z s with hzs | hzs
  · exact fl32_le_of_le_rep hs hzs
  have hspos : 0 < s := by
    rcases h0.lt_or_eq with h | h
    · exact h
    · exfalso; rw [← h] at hz hzs; simp at hz; linarith
  have hzpos : 0 < z := hspos.trans hzs
  obtain ⟨se1, se2⟩ := ilog2_spec hspos
  obtain ⟨n, hn, hsn⟩ := rep_form (prec := 24) (emin := -126) (by norm_num) hs hspos.ne'
  rw [abs_of_pos hspos] at hsn
  have hkdef := ulpExp_def 24 (-126) s
  generalize hks : ulpExp 24 (-126) s = ks at hsn hkdef
  generalize he : ilog2 s = e at se1 se2 hkdef
  have hkp := pow2_pos ks
  have hnpos : 0 < n := by
    by_contra hc
    have hc := not_lt.mp hc
    have : (n : ℚ) ≤ 0 := by exact_mod_cast hc
    have : s ≤ 0 := by rw [hsn]; exact mul_nonpos_of_nonpos_of_nonneg this hkp.le
    linarith
  have hn1 : (1 : ℚ) ≤ n := by exact_mod_cast hnpos
  have hks_le_s : pow2 ks ≤ s := by rw [hsn]; nlinarith
  have hkse : ks ≤ e := by
    have := (le_ilog2_iff hspos).mpr hks_le_s
    omega
  have hks_ge : e - 23 ≤ ks := by rw [hkdef]; push_cast; omega
  -- `2^(e+1)` is on the grid of `s`
  have hgrid := pow2_eq_int_mul (a := e + 1) (k := ks) (by omega)
  generalize ((2 : Int) ^ (e + 1 - ks).toNat) = M at hgrid
  have hnM : n + 1 ≤ M := by
    have : (n : ℚ) < M := by
      by_contra hc
      have hc := not_lt.mp hc
      have : pow2 (e + 1) ≤ s := by rw [hgrid, hsn]; exact mul_le_mul_of_nonneg_right hc hkp.le
      linarith
    have : n < M := by exact_mod_cast this
    omega
  have hstep : s + pow2 ks ≤ pow2 (e + 1) := by
    have : ((n : ℚ) + 1) ≤ M := by exact_mod_cast hnM
    rw [hgrid, hsn]; nlinarith
  -- the excess is below half a grid step
  have hexc : s * pow2 (-30) < pow2 ks / 2 := by
    have h1 : s * pow2 (-30) < pow2 (e + 1) * pow2 (-30) :=
      mul_lt_mul_of_pos_right se2 (pow2_pos _)
    have h2 : pow2 (e + 1) * pow2 (-30) = pow2 (e - 29) := by
      rw [← pow2_add]; congr 1; ring
    have h3 : pow2 (e - 29) ≤ pow2 (ks - 1) := pow2_mono (by omega)
    rw [pow2_pred] at h3
    linarith
  have hzlt : z < s + pow2 ks / 2 := by linarith
  have hze : ilog2 z = e := ilog2_unique (by linarith) (by linarith)
  have hkz : ulpExp 24 (-126) z = ks := by rw [ulpExp_def, hze, hkdef]
  rw [fl32_def, flr_of_pos hzpos, flPos_def, hkz]
  have hx : z / pow2 ks < (n : ℚ) + 1 / 2 := by
    rw [div_lt_iff₀ hkp, hsn] at *
    nlinarith
  have hr := abs_le.mp (rne_abs_sub_le (z / pow2 ks))
  have : ((rne (z / pow2 ks) : Int) : ℚ) < (n : ℚ) + 1 := by linarith [hr.2]
  have : rne (z / pow2 ks) < n + 1 := by exact_mod_cast this
  have : rne (z / pow2 ks) ≤ n := by omega
  have : ((rne (z / pow2 ks) : Int) : ℚ) ≤ n := by exact_mod_cast this
  rw [hsn]
  exact mul_le_mul_of_nonneg_right this hkp.le

/-- a positive binary32 value is at least the smallest subnormal. -/
theorem rep32_pos_ge {s : ℚ} (hs : Rep32 s) (h : 0 < s) : pow2 (-149) ≤ s := by
  obtain ⟨N, hN⟩ := rep_grid (prec := 24) (emin := -126) (by norm_num) hs
  have hk : (-126 : Int) - (((24:Nat) : Int) - 1) = -149 := by norm_num
  rw [hk] at hN
  have hp := pow2_pos (-149)
  have hNpos : 0 < N := by
    by_contra hc
    have hc := not_lt.mp hc
    have : (N : ℚ) ≤ 0 := by exact_mod_cast hc
    have : s ≤ 0 := by rw [hN]; exact mul_nonpos_of_nonpos_of_nonneg this hp.le
    linarith
  have : (1 : ℚ) ≤ N := by exact_mod_cast hNpos
  rw [hN]; nlinarith

theorem fl64_le_add_err {w : ℚ} (hw : 0 ≤ w) : fl64 w ≤ w + pow2 (-53) * w + pow2 (-1075) := by
  have := abs_le.mp (fl64_abs_err w)
  rw [abs_of_nonneg hw] at this
  linarith [this.2]

theorem pow2_m53 : pow2 (-53) = 1 / 2 ^ 53 := by rw [pow2_def]; norm_num
theorem pow2_m30 : pow2 (-30) = 1 / 2 ^ 30 := by rw [pow2_def]; norm_num

/-- The float64 sum `y + p` with `p ≤ float64(s - y)`, cast to float32, does not exceed the
    binary32 value `s`. -/
theorem seg_upper {y s p : ℚ} (hy0 : 0 ≤ y) (hs : Rep32 s) (hys : y ≤ s)
    (hp : p ≤ fl64 (s - y)) : fl32 (fl64 (y + p)) ≤ s := by
  have hs0 : 0 ≤ s := hy0.trans hys
  rcases hs0.lt_or_eq with hspos | hs0'
  · have hsmall := rep32_pos_ge hs hspos
    -- the tiny absolute error term is negligible relative to `s`
    have hv : pow2 (-1075) ≤ s * pow2 (-60) := by
      have h1 : pow2 (-1075) = pow2 (-149) * pow2 (-926) := by rw [← pow2_add]; norm_num
      have h2 : pow2 (-926) ≤ pow2 (-60) := pow2_mono (by norm_num)
      rw [h1]
      exact mul_le_mul hsmall h2 (pow2_nonneg _) hs0
    have hc : pow2 (-60) = 1 / 2 ^ 60 := by rw [pow2_def]; norm_num
    rw [hc] at hv
    have hd := fl64_le_add_err (w := s - y) (by linarith)
    have hW : y + p ≤ s + 1 / 2 ^ 53 * s + s * (1 / 2 ^ 60) := by
      rw [pow2_m53] at hd
      have : (1 : ℚ) / 2 ^ 53 * (s - y) ≤ 1 / 2 ^ 53 * s := by
        apply mul_le_mul_of_nonneg_left (by linarith) (by norm_num)
      linarith
    have hWpos : 0 ≤ s + 1 / 2 ^ 53 * s + s * (1 / 2 ^ 60) := by positivity
    have h1 := fl64_mono hW
    have h2 := fl64_le_add_err hWpos
    rw [pow2_m53] at h2
    apply fl32_le_of_near hs hs0
    rw [pow2_m30]
    have key : s + 1 / 2 ^ 53 * s + s * (1 / 2 ^ 60)
        + 1 / 2 ^ 53 * (s + 1 / 2 ^ 53 * s + s * (1 / 2 ^ 60)) + s * (1 / 2 ^ 60)
        ≤ s + s * (1 / 2 ^ 30) := by
      have : s + 1 / 2 ^ 53 * s + s * (1 / 2 ^ 60)
        + 1 / 2 ^ 53 * (s + 1 / 2 ^ 53 * s + s * (1 / 2 ^ 60)) + s * (1 / 2 ^ 60)
        = s * (1 + 1 / 2 ^ 53 + 1 / 2 ^ 60 + 1 / 2 ^ 53 * (1 + 1 / 2 ^ 53 + 1 / 2 ^ 60) + 1 / 2 ^ 60) := by
        ring
      rw [this, show s + s * (1 / 2 ^ 30) = s * (1 + 1 / 2 ^ 30) by ring]
      apply mul_le_mul_of_nonneg_left _ hs0
      norm_num
    linarith
  · -- s = 0 ⇒ y = 0, p ≤ 0
    have hy : y = 0 := le_antisymm (by rw [hs0']; exact hys) hy0
    rw [← hs0', hy, sub_zero, fl64_zero] at hp
    rw [hy, zero_add, ← hs0']
    exact fl32_nonpos (fl64_nonpos hp)

/-! ### `util.Ratio` and one interpolation segment, on rationals -/

/-- float64 value of `util.Ratio(t, x, x')` for finite operands. -/
def ratioQ (t x x' : ℚ) : ℚ := fl64 (fl64 (fl64 (fl64 (t - x) / fl64 (x' - x)) * 100) / 100)

/-- float64 value of `float64(float32(y + ratio*(y' - y)))` for finite operands. -/
def segQ (t x x' y y' : ℚ) : ℚ := fl32 (fl64 (y + fl64 (ratioQ t x x' * fl64 (y' - y))))

theorem rep64_100 : Rep64 (100 : ℚ) := by
  have := rep64_intCast 100 (by norm_num); exact_mod_cast this

theorem ratioQ_parts {t x x' : ℚ} (h1 : x ≤ t) (h2 : t ≤ x') :
    (0 ≤ fl64 (t - x) ∧ fl64 (t - x) ≤ fl64 (x' - x)) ∧
    (0 ≤ fl64 (fl64 (t - x) / fl64 (x' - x)) ∧ fl64 (fl64 (t - x) / fl64 (x' - x)) ≤ 1) ∧
    (0 ≤ fl64 (fl64 (fl64 (t - x) / fl64 (x' - x)) * 100) ∧
      fl64 (fl64 (fl64 (t - x) / fl64 (x' - x)) * 100) ≤ 100) ∧
    (0 ≤ ratioQ t x x' ∧ ratioQ t x x' ≤ 1) := by
  have a := linRatio_bounds h1 h2
  have b0 : 0 ≤ fl64 (fl64 (fl64 (t - x) / fl64 (x' - x)) * 100) :=
    fl64_nonneg (by linarith [a.1])
  have b1 : fl64 (fl64 (fl64 (t - x) / fl64 (x' - x)) * 100) ≤ 100 :=
    fl64_le_of_le_rep rep64_100 (by linarith [a.2])
  refine ⟨⟨fl64_nonneg (by linarith), fl64_mono (by linarith)⟩, a, ⟨b0, b1⟩, ?_, ?_⟩
  · exact fl64_nonneg (by positivity)
  · exact fl64_le_of_le_rep rep64_1 (by rw [div_le_one (by norm_num)]; exact b1)

theorem ratioQ_bounds {t x x' : ℚ} (h1 : x ≤ t) (h2 : t ≤ x') :
    0 ≤ ratioQ t x x' ∧ ratioQ t x x' ≤ 1 := (ratioQ_parts h1 h2).2.2.2

theorem ratioQ_mono {t t' x x' : ℚ} (hx : x ≤ x') (h : t ≤ t') :
    ratioQ t x x' ≤ ratioQ t' x x' := by
  unfold ratioQ
  have hD : 0 ≤ fl64 (x' - x) := fl64_nonneg (by linarith)
  have h1 : fl64 (t - x) ≤ fl64 (t' - x) := fl64_mono (by linarith)
  have h2 := fl64_mono (div_le_div_of_nonneg_right h1 hD)
  have h3 : fl64 (fl64 (fl64 (t - x) / fl64 (x' - x)) * 100)
      ≤ fl64 (fl64 (fl64 (t' - x) / fl64 (x' - x)) * 100) := fl64_mono (by linarith)
  exact fl64_mono (div_le_div_of_nonneg_right h3 (by norm_num))

/-- the product term `float64(r * d)` lies between `0` and `d`. -/
theorem prod_bounds {r d : ℚ} (hr0 : 0 ≤ r) (hr1 : r ≤ 1) (hd : Rep64 d) :
    (0 ≤ d → 0 ≤ fl64 (r * d) ∧ fl64 (r * d) ≤ d) ∧
    (d ≤ 0 → d ≤ fl64 (r * d) ∧ fl64 (r * d) ≤ 0) := by
  constructor
  · intro h
    exact ⟨fl64_nonneg (mul_nonneg hr0 h), fl64_le_of_le_rep hd (by nlinarith)⟩
  · intro h
    exact ⟨le_fl64_of_rep_le hd (by nlinarith), fl64_nonpos (by nlinarith)⟩

/-- speed hypotheses of one step value. -/
structure SpeedOK (y : ℚ) : Prop where
  rep : Rep64 y
  nonneg : 0 ≤ y
  le255 : y ≤ 255

theorem rep32_255 : Rep32 (255 : ℚ) := by
  have := rep32_intCast 255 (by norm_num); exact_mod_cast this

/-- range of a segment value (no assumption on the order of the two speeds). -/
theorem segQ_range {t x x' y y' : ℚ} (h1 : x ≤ t) (h2 : t ≤ x') (hy : SpeedOK y) (hy' : SpeedOK y') :
    0 ≤ segQ t x x' y y' ∧ segQ t x x' y y' ≤ 255 := by
  obtain ⟨r0, r1⟩ := ratioQ_bounds h1 h2
  have hd : Rep64 (fl64 (y' - y)) := rep64_fl64 _
  obtain ⟨pa, pb⟩ := prod_bounds r0 r1 hd
  have dlo : -y ≤ fl64 (y' - y) := le_fl64_of_rep_le (rep64_neg hy.rep) (by linarith [hy'.nonneg])
  have dhi : fl64 (y' - y) ≤ fl64 (255 - y) := fl64_mono (by linarith [hy'.le255])
  have d255 : 0 ≤ fl64 (255 - y) := fl64_nonneg (by linarith [hy.le255])
  unfold segQ
  rcases le_total 0 (fl64 (y' - y)) with h | h
  · obtain ⟨p0, p1⟩ := pa h
    constructor
    · exact fl32_nonneg (fl64_nonneg (by linarith [hy.nonneg]))
    · exact seg_upper hy.nonneg rep32_255 hy.le255 (by linarith)
  · obtain ⟨p0, p1⟩ := pb h
    constructor
    · exact fl32_nonneg (fl64_nonneg (by linarith))
    · exact seg_upper hy.nonneg rep32_255 hy.le255 (by linarith)

/-- with `y ≤ y'` (both binary32 values) a segment value stays between its two knots. -/
theorem segQ_between {t x x' y y' : ℚ} (h1 : x ≤ t) (h2 : t ≤ x') (hy : SpeedOK y)
    (hyy : y ≤ y') (hr : Rep32 y) (hr' : Rep32 y') :
    y ≤ segQ t x x' y y' ∧ segQ t x x' y y' ≤ y' := by
  obtain ⟨r0, r1⟩ := ratioQ_bounds h1 h2
  have hd : Rep64 (fl64 (y' - y)) := rep64_fl64 _
  have hd0 : 0 ≤ fl64 (y' - y) := fl64_nonneg (by linarith)
  obtain ⟨p0, p1⟩ := (prod_bounds r0 r1 hd).1 hd0
  unfold segQ
  constructor
  · exact le_fl32_of_rep_le hr (le_fl64_of_rep_le hy.rep (by linarith))
  · exact seg_upper hy.nonneg hr' hyy p1

theorem segQ_mono {t t' x x' y y' : ℚ} (hx : x ≤ x') (hyy : y ≤ y') (h : t ≤ t') :
    segQ t x x' y y' ≤ segQ t' x x' y y' := by
  unfold segQ
  have hd0 : 0 ≤ fl64 (y' - y) := fl64_nonneg (by linarith)
  have hr := ratioQ_mono hx h
  have h1 : fl64 (ratioQ t x x' * fl64 (y' - y)) ≤ fl64 (ratioQ t' x x' * fl64 (y' - y)) :=
    fl64_mono (mul_le_mul_of_nonneg_right hr hd0)
  exact fl32_mono (fl64_mono (by linarith))

/-! ### the float64 segment computation equals `segQ` -/

theorem key_cast {x : Int} (hx : |x| ≤ 2 ^ 50) : |(x : ℚ)| ≤ 2 ^ 50 := by exact_mod_cast hx

theorem ofInt_key {x : Int} (hx : |x| ≤ 2 ^ 50) : ofInt x = fin (x : ℚ) :=
  ofInt_small (hx.trans (by norm_num))

theorem rep64_key {x : Int} (hx : |x| ≤ 2 ^ 50) : Rep64 (x : ℚ) :=
  rep64_intCast x (hx.trans (by norm_num))

theorem seg_eq {t : ℚ} {x x' : Int} {y y' : ℚ} (hx : |x| ≤ 2 ^ 50) (hx' : |x'| ≤ 2 ^ 50)
    (h1 : (x : ℚ) ≤ t) (h2 : t < x') (hy : SpeedOK y) (hy' : SpeedOK y') :
    toF32 (fin y + ratio (fin t) (ofInt x) (ofInt x') * (fin y' - fin y))
      = fin (segQ t x x' y y') := by
  have hxq := abs_le.mp (key_cast hx)
  have hxq' := abs_le.mp (key_cast hx')
  obtain ⟨⟨n0, n1⟩, ⟨a0, a1⟩, ⟨b0, b1⟩, ⟨c0, c1⟩⟩ := ratioQ_parts h1 h2.le
  have hD : 0 < fl64 ((x' : ℚ) - x) :=
    fl64_sub_pos_of_rep (rep64_key hx) (rep64_key hx') (lt_of_le_of_lt h1 h2)
  unfold ratio
  rw [ofInt_key hx, ofInt_key hx', ofInt_100]
  rw [sub_fin_of_abs_le (a := t) (abs_le_pow2_1023_of_le (n := 60)
      (by rw [abs_le]; constructor <;> linarith) (by norm_num)),
    sub_fin_of_abs_le (a := (x' : ℚ)) (abs_le_pow2_1023_of_le (n := 60)
      (by rw [abs_le]; constructor <;> linarith) (by norm_num))]
  have e1 : |fl64 (t - x) / fl64 ((x' : ℚ) - x)| ≤ pow2 1023 := by
    apply abs_le_pow2_1023_of_le (n := 1) _ (by norm_num)
    rw [abs_of_nonneg (div_nonneg n0 hD.le)]
    have := div_le_one_of_le₀ n1 hD.le
    linarith
  rw [div_fin_of_abs_le hD.ne' e1]
  rw [mul_fin_of_abs_le (abs_le_pow2_1023_of_le (n := 10)
      (by rw [abs_of_nonneg (by positivity)]; linarith) (by norm_num))]
  rw [div_fin_of_abs_le (by norm_num) (abs_le_pow2_1023_of_le (n := 10)
      (by rw [abs_of_nonneg (by positivity)]; linarith) (by norm_num))]
  have hdabs : |fl64 (y' - y)| ≤ 255 := by
    apply abs_fl64_le_of_abs_le_rep rep64_255
    rw [abs_le]; constructor <;> linarith [hy.nonneg, hy.le255, hy'.nonneg, hy'.le255]
  rw [sub_fin_of_abs_le (a := y') (abs_le_pow2_1023_of_le (n := 10)
      (by rw [abs_le]; constructor <;> linarith [hy.nonneg, hy.le255, hy'.nonneg, hy'.le255])
      (by norm_num))]
  have hrd : |ratioQ t x x' * fl64 (y' - y)| ≤ 255 := by
    rw [abs_mul, abs_of_nonneg c0]
    have := abs_nonneg (fl64 (y' - y))
    nlinarith
  have hp : |fl64 (ratioQ t x x' * fl64 (y' - y))| ≤ 255 :=
    abs_fl64_le_of_abs_le_rep rep64_255 hrd
  change toF32 (fin y + fin (ratioQ t x x') * fin (fl64 (y' - y))) = _
  rw [mul_fin_of_abs_le (abs_le_pow2_1023_of_le (n := 10) (by linarith) (by norm_num))]
  have hp' := abs_le.mp hp
  have hsum : |y + fl64 (ratioQ t x x' * fl64 (y' - y))| ≤ 512 := by
    rw [abs_le]; constructor <;> linarith [hy.nonneg, hy.le255]
  rw [add_fin_of_abs_le (abs_le_pow2_1023_of_le (n := 10) (by linarith) (by norm_num))]
  have r512 : Rep64 (512 : ℚ) := by
    have := rep64_intCast 512 (by norm_num); exact_mod_cast this
  have hfl := abs_fl64_le_of_abs_le_rep r512 hsum
  rw [toF32_fin_of_abs_le]
  · rfl
  · have : pow2 ((10 : Nat) : Int) ≤ pow2 127 := pow2_mono (by norm_num)
    rw [pow2_lit] at this
    linarith

/-! ### the loop of `CalculateInterpolatedCurveValue` on rationals -/

/-- a step list with finite speeds. -/
def toSteps (ks : List (Int × ℚ)) : List (Int × F64) := ks.map fun p => (p.1, fin p.2)

/-- `interpLoop` for a finite input, on rationals. -/
def interpQ (first : Bool) : List (Int × ℚ) → ℚ → ℚ
  | [], _ => 0
  | [(_, y)], _ => y
  | (x, y) :: (x', y') :: rest, q =>
    if first = true ∧ q ≤ x then y
    else if (x' : ℚ) ≤ q then interpQ false ((x', y') :: rest) q
    else if q = x then y
    else segQ q x x' y y'

/-- speed of the largest step. -/
def lastY : List (Int × ℚ) → ℚ
  | [] => 0
  | [(_, y)] => y
  | _ :: p :: rest => lastY (p :: rest)

/-- keys strictly increasing and bounded, speeds binary64 values in `[0, 255]`. -/
def StepsOK (ks : List (Int × ℚ)) : Prop :=
  (∀ p ∈ ks, |p.1| ≤ 2 ^ 50 ∧ SpeedOK p.2) ∧ ks.Pairwise (fun a b => a.1 < b.1)

/-- speeds non-decreasing along the keys, each a binary32 value. -/
def StepsMono (ks : List (Int × ℚ)) : Prop :=
  ks.Pairwise (fun a b => a.2 ≤ b.2) ∧ ∀ p ∈ ks, Rep32 p.2

theorem StepsOK.tail {p : Int × ℚ} {ks : List (Int × ℚ)} (h : StepsOK (p :: ks)) : StepsOK ks :=
  ⟨fun q hq => h.1 q (List.mem_cons_of_mem _ hq), (List.pairwise_cons.mp h.2).2⟩

theorem StepsOK.head {p : Int × ℚ} {ks : List (Int × ℚ)} (h : StepsOK (p :: ks)) :
    |p.1| ≤ 2 ^ 50 ∧ SpeedOK p.2 := h.1 p List.mem_cons_self

theorem StepsOK.lt {p p' : Int × ℚ} {ks : List (Int × ℚ)} (h : StepsOK (p :: p' :: ks)) :
    p.1 < p'.1 := (List.pairwise_cons.mp h.2).1 p' List.mem_cons_self

theorem StepsMono.tail {p : Int × ℚ} {ks : List (Int × ℚ)} (h : StepsMono (p :: ks)) :
    StepsMono ks :=
  ⟨(List.pairwise_cons.mp h.1).2, fun q hq => h.2 q (List.mem_cons_of_mem _ hq)⟩

theorem StepsMono.head {p : Int × ℚ} {ks : List (Int × ℚ)} (h : StepsMono (p :: ks)) :
    Rep32 p.2 := h.2 p List.mem_cons_self

theorem StepsMono.le {p p' : Int × ℚ} {ks : List (Int × ℚ)} (h : StepsMono (p :: p' :: ks)) :
    p.2 ≤ p'.2 := (List.pairwise_cons.mp h.1).1 p' List.mem_cons_self

/-- the loop invariant: either we are in the first iteration or the input is not below the
    current key. -/
def LoopInv (first : Bool) (x : Int) (q : ℚ) : Prop := first = true ∨ (x : ℚ) ≤ q

theorem interpLoop_fin (first : Bool) (x : Int) (y : ℚ) (rest : List (Int × ℚ))
    (hok : StepsOK ((x, y) :: rest)) (q : ℚ) (hinv : LoopInv first x q) :
    interpLoop first (toSteps ((x, y) :: rest)) (fin q) = fin (interpQ first ((x, y) :: rest) q) := by
  induction rest generalizing first x y with
  | nil => simp [toSteps, interpLoop, interpQ]
  | cons p' rest ih =>
    obtain ⟨x', y'⟩ := p'
    have hx := hok.head.1
    have hy := hok.head.2
    have hx' := hok.tail.head.1
    have hy' := hok.tail.head.2
    have hlt : x < x' := hok.lt
    simp only at hx hy hx' hy' hlt
    have hstep : toSteps ((x, y) :: (x', y') :: rest) = (x, fin y) :: (x', fin y') :: toSteps rest := rfl
    have htail : (x', fin y') :: toSteps rest = toSteps ((x', y') :: rest) := rfl
    rw [hstep, interpLoop, interpQ, ofInt_key hx, ofInt_key hx']
    by_cases hA : first = true ∧ q ≤ x
    · rw [if_pos hA, if_pos (by simp [hA.1, hA.2])]
    · rw [if_neg hA]
      have hA' : ¬ ((first && le (fin q) (fin (x : ℚ))) = true) := by
        simpa using hA
      rw [if_neg hA']
      by_cases hB : (x' : ℚ) ≤ q
      · rw [if_pos hB, if_pos (by simpa using hB), htail]
        exact ih false x' y' hok.tail (Or.inr hB)
      · rw [if_neg hB, if_neg (by simpa using hB)]
        by_cases hC : q = x
        · rw [if_pos hC, if_pos (by simpa using hC)]
        · rw [if_neg hC, if_neg (by simpa using hC)]
          have hxq : (x : ℚ) ≤ q := by
            rcases hinv with h | h
            · have : ¬ q ≤ x := fun hq => hA ⟨h, hq⟩
              exact (not_le.mp this).le
            · exact h
          have := seg_eq hx hx' hxq (not_le.mp hB) hy hy'
          rw [ofInt_key hx, ofInt_key hx'] at this
          exact this

theorem head_le_lastY (x : Int) (y : ℚ) (rest : List (Int × ℚ)) (hm : StepsMono ((x, y) :: rest)) :
    y ≤ lastY ((x, y) :: rest) := by
  induction rest generalizing x y with
  | nil => simp [lastY]
  | cons p' rest ih =>
    obtain ⟨x', y'⟩ := p'
    have := ih x' y' hm.tail
    have h2 : y ≤ y' := hm.le
    simp only [lastY] at *
    linarith

theorem lastY_mem (x : Int) (y : ℚ) (rest : List (Int × ℚ)) :
    ∃ k, (k, lastY ((x, y) :: rest)) ∈ (x, y) :: rest := by
  induction rest generalizing x y with
  | nil => exact ⟨x, by simp [lastY]⟩
  | cons p' rest ih =>
    obtain ⟨x', y'⟩ := p'
    obtain ⟨k, hk⟩ := ih x' y'
    exact ⟨k, by simp only [lastY]; exact List.mem_cons_of_mem _ hk⟩

theorem inv_le {first : Bool} {x : Int} {q : ℚ} (hinv : LoopInv first x q)
    (hA : ¬ (first = true ∧ q ≤ x)) : (x : ℚ) ≤ q := by
  rcases hinv with h | h
  · have : ¬ q ≤ x := fun hq => hA ⟨h, hq⟩
    exact (not_le.mp this).le
  · exact h

/-- range of the loop (speeds in any order). -/
theorem interpQ_range (first : Bool) (x : Int) (y : ℚ) (rest : List (Int × ℚ))
    (hok : StepsOK ((x, y) :: rest)) (q : ℚ) (hinv : LoopInv first x q) :
    0 ≤ interpQ first ((x, y) :: rest) q ∧ interpQ first ((x, y) :: rest) q ≤ 255 := by
  induction rest generalizing first x y with
  | nil => exact ⟨hok.head.2.nonneg, hok.head.2.le255⟩
  | cons p' rest ih =>
    obtain ⟨x', y'⟩ := p'
    have hy := hok.head.2
    have hy' := hok.tail.head.2
    simp only at hy hy'
    rw [interpQ]
    by_cases hA : first = true ∧ q ≤ x
    · rw [if_pos hA]; exact ⟨hy.nonneg, hy.le255⟩
    · rw [if_neg hA]
      by_cases hB : (x' : ℚ) ≤ q
      · rw [if_pos hB]; exact ih false x' y' hok.tail (Or.inr hB)
      · rw [if_neg hB]
        by_cases hC : q = x
        · rw [if_pos hC]; exact ⟨hy.nonneg, hy.le255⟩
        · rw [if_neg hC]
          exact segQ_range (inv_le hinv hA) (not_le.mp hB).le hy hy'

/-- with non-decreasing binary32 speeds every value lies between the current and the last speed. -/
theorem interpQ_between (first : Bool) (x : Int) (y : ℚ) (rest : List (Int × ℚ))
    (hok : StepsOK ((x, y) :: rest)) (hm : StepsMono ((x, y) :: rest)) (q : ℚ)
    (hinv : LoopInv first x q) :
    y ≤ interpQ first ((x, y) :: rest) q ∧
      interpQ first ((x, y) :: rest) q ≤ lastY ((x, y) :: rest) := by
  induction rest generalizing first x y with
  | nil => simp [interpQ, lastY]
  | cons p' rest ih =>
    obtain ⟨x', y'⟩ := p'
    have hy := hok.head.2
    have hyy : y ≤ y' := hm.le
    have hr : Rep32 y := hm.head
    have hr' : Rep32 y' := hm.tail.head
    have hl := head_le_lastY x' y' rest hm.tail
    simp only at hy hyy hr hr'
    rw [interpQ]
    simp only [lastY]
    by_cases hA : first = true ∧ q ≤ x
    · rw [if_pos hA]; exact ⟨le_refl _, by linarith⟩
    · rw [if_neg hA]
      by_cases hB : (x' : ℚ) ≤ q
      · rw [if_pos hB]
        have := ih false x' y' hok.tail hm.tail (Or.inr hB)
        exact ⟨by linarith [this.1], this.2⟩
      · rw [if_neg hB]
        by_cases hC : q = x
        · rw [if_pos hC]; exact ⟨le_refl _, by linarith⟩
        · rw [if_neg hC]
          have := segQ_between (inv_le hinv hA) (not_le.mp hB).le hy hyy hr hr'
          exact ⟨this.1, by linarith [this.2]⟩

/-- monotonicity of the loop in the (finite) input. -/
theorem interpQ_mono (first : Bool) (x : Int) (y : ℚ) (rest : List (Int × ℚ))
    (hok : StepsOK ((x, y) :: rest)) (hm : StepsMono ((x, y) :: rest)) {q q' : ℚ} (hqq : q ≤ q')
    (hinv : LoopInv first x q) :
    interpQ first ((x, y) :: rest) q ≤ interpQ first ((x, y) :: rest) q' := by
  induction rest generalizing first x y with
  | nil => simp [interpQ]
  | cons p' rest ih =>
    obtain ⟨x', y'⟩ := p'
    have hy := hok.head.2
    have hyy : y ≤ y' := hm.le
    have hr : Rep32 y := hm.head
    have hr' : Rep32 y' := hm.tail.head
    have hlt : (x : ℚ) < x' := by exact_mod_cast hok.lt
    simp only at hy hyy hr hr'
    have hinv' : LoopInv first x q' := by
      rcases hinv with h | h
      · exact Or.inl h
      · exact Or.inr (h.trans hqq)
    rw [interpQ, interpQ]
    by_cases hA' : first = true ∧ q' ≤ x
    · have hA : first = true ∧ q ≤ x := ⟨hA'.1, hqq.trans hA'.2⟩
      rw [if_pos hA', if_pos hA]
    · rw [if_neg hA']
      have hxq' : (x : ℚ) ≤ q' := inv_le hinv' hA'
      by_cases hB' : (x' : ℚ) ≤ q'
      · rw [if_pos hB']
        have hbt := interpQ_between false x' y' rest hok.tail hm.tail q' (Or.inr hB')
        by_cases hA : first = true ∧ q ≤ x
        · rw [if_pos hA]; linarith [hbt.1]
        · rw [if_neg hA]
          by_cases hB : (x' : ℚ) ≤ q
          · rw [if_pos hB]
            exact ih false x' y' hok.tail hm.tail (Or.inr hB)
          · rw [if_neg hB]
            by_cases hC : q = x
            · rw [if_pos hC]; linarith [hbt.1]
            · rw [if_neg hC]
              have := segQ_between (inv_le hinv hA) (not_le.mp hB).le hy hyy hr hr'
              linarith [this.2, hbt.1]
      · rw [if_neg hB']
        have hB : ¬ (x' : ℚ) ≤ q := fun h => hB' (h.trans hqq)
        by_cases hC' : q' = x
        · rw [if_pos hC']
          by_cases hA : first = true ∧ q ≤ x
          · rw [if_pos hA]
          · rw [if_neg hA, if_neg hB]
            have hxq := inv_le hinv hA
            have hC : q = x := le_antisymm (by rw [← hC']; exact hqq) hxq
            rw [if_pos hC]
        · rw [if_neg hC']
          have hlow := (segQ_between hxq' (not_le.mp hB').le hy hyy hr hr').1
          by_cases hA : first = true ∧ q ≤ x
          · rw [if_pos hA]; exact hlow
          · rw [if_neg hA, if_neg hB]
            by_cases hC : q = x
            · rw [if_pos hC]; exact hlow
            · rw [if_neg hC]
              exact segQ_mono hlt.le hyy hqq

/-! ### non-finite inputs -/

theorem interpLoop_neg_inf (x : Int) (y : ℚ) (rest : List (Int × ℚ))
    (hok : StepsOK ((x, y) :: rest)) :
    interpLoop true (toSteps ((x, y) :: rest)) (inf true) = fin y := by
  cases rest with
  | nil => simp [toSteps, interpLoop]
  | cons p' rest =>
    obtain ⟨x', y'⟩ := p'
    have hstep : toSteps ((x, y) :: (x', y') :: rest) = (x, fin y) :: (x', fin y') :: toSteps rest := rfl
    rw [hstep, interpLoop, ofInt_key hok.head.1]
    simp [le]

theorem interpLoop_pos_inf (first : Bool) (x : Int) (y : ℚ) (rest : List (Int × ℚ))
    (hok : StepsOK ((x, y) :: rest)) :
    interpLoop first (toSteps ((x, y) :: rest)) (inf false) = fin (lastY ((x, y) :: rest)) := by
  induction rest generalizing first x y with
  | nil => simp [toSteps, interpLoop, lastY]
  | cons p' rest ih =>
    obtain ⟨x', y'⟩ := p'
    have hstep : toSteps ((x, y) :: (x', y') :: rest) = (x, fin y) :: (x', fin y') :: toSteps rest := rfl
    have htail : (x', fin y') :: toSteps rest = toSteps ((x', y') :: rest) := rfl
    rw [hstep, interpLoop, ofInt_key hok.head.1, ofInt_key hok.tail.head.1]
    simp only [le, ge, Bool.and_false, Bool.false_eq_true, if_false, Bool.not_false, if_true]
    rw [htail, ih false x' y' hok.tail]
    simp [lastY]

/-! ### the loop on all non-NaN inputs -/

theorem lastY_ok (x : Int) (y : ℚ) (rest : List (Int × ℚ)) (hok : StepsOK ((x, y) :: rest)) :
    SpeedOK (lastY ((x, y) :: rest)) := by
  obtain ⟨k, hk⟩ := lastY_mem x y rest
  exact (hok.1 _ hk).2

/-- Range of `CalculateInterpolatedCurveValue` on every non-NaN input (±Inf included). -/
theorem interpLoop_range (x : Int) (y : ℚ) (rest : List (Int × ℚ)) (hok : StepsOK ((x, y) :: rest))
    {t : F64} (ht : t ≠ nan) :
    ∃ z, interpLoop true (toSteps ((x, y) :: rest)) t = fin z ∧ 0 ≤ z ∧ z ≤ 255 := by
  cases t with
  | nan => exact absurd rfl ht
  | inf s =>
    cases s
    · have := lastY_ok x y rest hok
      exact ⟨_, interpLoop_pos_inf true x y rest hok, this.nonneg, this.le255⟩
    · exact ⟨_, interpLoop_neg_inf x y rest hok, hok.head.2.nonneg, hok.head.2.le255⟩
  | fin q =>
    have := interpQ_range true x y rest hok q (Or.inl rfl)
    exact ⟨_, interpLoop_fin true x y rest hok q (Or.inl rfl), this.1, this.2⟩

/-- Monotonicity of `CalculateInterpolatedCurveValue` on all non-NaN inputs. -/
theorem interpLoop_mono (x : Int) (y : ℚ) (rest : List (Int × ℚ)) (hok : StepsOK ((x, y) :: rest))
    (hm : StepsMono ((x, y) :: rest)) {t t' : F64} (h : le t t' = true) :
    ∃ z z', interpLoop true (toSteps ((x, y) :: rest)) t = fin z ∧
      interpLoop true (toSteps ((x, y) :: rest)) t' = fin z' ∧ z ≤ z' := by
  have ht := ne_nan_of_le_left h
  have ht' := ne_nan_of_le_right h
  have hyl := head_le_lastY x y rest hm
  cases t with
  | nan => exact absurd rfl ht
  | inf s =>
    cases s
    · -- t = +Inf ⇒ t' = +Inf
      cases t' with
      | nan => exact absurd rfl ht'
      | inf u =>
        cases u
        · exact ⟨_, _, interpLoop_pos_inf true x y rest hok, interpLoop_pos_inf true x y rest hok,
            le_refl _⟩
        · simp [le] at h
      | fin b => simp [le] at h
    · refine ⟨_, ?_, interpLoop_neg_inf x y rest hok, ?_⟩
      · exact (match t' with
          | nan => 0
          | inf true => y
          | inf false => lastY ((x, y) :: rest)
          | fin q => interpQ true ((x, y) :: rest) q)
      · cases t' with
        | nan => exact absurd rfl ht'
        | inf u =>
          cases u
          · exact ⟨interpLoop_pos_inf true x y rest hok, hyl⟩
          · exact ⟨interpLoop_neg_inf x y rest hok, le_refl _⟩
        | fin q =>
          exact ⟨interpLoop_fin true x y rest hok q (Or.inl rfl),
            (interpQ_between true x y rest hok hm q (Or.inl rfl)).1⟩
  | fin a =>
    cases t' with
    | nan => exact absurd rfl ht'
    | inf u =>
      cases u
      · exact ⟨_, _, interpLoop_fin true x y rest hok a (Or.inl rfl),
          interpLoop_pos_inf true x y rest hok,
          (interpQ_between true x y rest hok hm a (Or.inl rfl)).2⟩
      · simp [le] at h
    | fin b =>
      exact ⟨_, _, interpLoop_fin true x y rest hok a (Or.inl rfl),
        interpLoop_fin true x y rest hok b (Or.inl rfl),
        interpQ_mono true x y rest hok hm (by simpa using h) (Or.inl rfl)⟩

/-! ### values at and outside the knots -/

theorem StepsOK.head_lt {x : Int} {y : ℚ} {rest : List (Int × ℚ)} (hok : StepsOK ((x, y) :: rest))
    {p : Int × ℚ} (hp : p ∈ rest) : x < p.1 := (List.pairwise_cons.mp hok.2).1 p hp

/-- exactly at a key the configured speed is returned (no arithmetic, no float32 cast). -/
theorem interpQ_at_key (first : Bool) (x : Int) (y : ℚ) (rest : List (Int × ℚ))
    (hok : StepsOK ((x, y) :: rest)) {k : Int} {v : ℚ} (hmem : (k, v) ∈ (x, y) :: rest) :
    interpQ first ((x, y) :: rest) (k : ℚ) = v := by
  induction rest generalizing first x y with
  | nil =>
    have : (k, v) = (x, y) := by simpa using hmem
    simp only [Prod.mk.injEq] at this
    simp [interpQ, this.2]
  | cons p' rest ih =>
    obtain ⟨x', y'⟩ := p'
    have hlt : x < x' := hok.lt
    rw [interpQ]
    rcases List.mem_cons.mp hmem with h | h
    · simp only [Prod.mk.injEq] at h
      obtain ⟨rfl, rfl⟩ := h
      have hB : ¬ ((x' : ℚ) ≤ (k : ℚ)) := by
        have : (k : ℚ) < x' := by exact_mod_cast hlt
        exact not_le.mpr this
      by_cases hA : first = true ∧ (k : ℚ) ≤ k
      · rw [if_pos hA]
      · rw [if_neg hA, if_neg hB, if_pos rfl]
    · have hk : x' ≤ k := by
        rcases List.mem_cons.mp h with h' | h'
        · simp only [Prod.mk.injEq] at h'; omega
        · have := hok.tail.head_lt h'; simp only at this; omega
      have hA : ¬ (first = true ∧ (k : ℚ) ≤ x) := by
        rintro ⟨_, hc⟩
        have : k ≤ x := by exact_mod_cast hc
        omega
      have hB : (x' : ℚ) ≤ (k : ℚ) := by exact_mod_cast hk
      rw [if_neg hA, if_pos hB]
      exact ih false x' y' hok.tail h

theorem interpQ_below (x : Int) (y : ℚ) (rest : List (Int × ℚ)) {q : ℚ} (h : q ≤ x) :
    interpQ true ((x, y) :: rest) q = y := by
  cases rest with
  | nil => simp [interpQ]
  | cons p' rest => obtain ⟨x', y'⟩ := p'; rw [interpQ, if_pos ⟨rfl, h⟩]

theorem interpQ_above (first : Bool) (x : Int) (y : ℚ) (rest : List (Int × ℚ))
    (hok : StepsOK ((x, y) :: rest)) {q : ℚ} (h : ∀ p ∈ (x, y) :: rest, (p.1 : ℚ) ≤ q) :
    interpQ first ((x, y) :: rest) q = lastY ((x, y) :: rest) := by
  induction rest generalizing first x y with
  | nil => simp [interpQ, lastY]
  | cons p' rest ih =>
    obtain ⟨x', y'⟩ := p'
    have hlt : (x : ℚ) < x' := by exact_mod_cast hok.lt
    have hB : (x' : ℚ) ≤ q := h (x', y') (by simp)
    have hA : ¬ (first = true ∧ q ≤ x) := by
      rintro ⟨_, hc⟩; linarith
    rw [interpQ, if_neg hA, if_pos hB]
    simp only [lastY]
    exact ih false x' y' hok.tail (fun p hp => h p (List.mem_cons_of_mem _ hp))

/-! ### the steps form of the linear curve -/

theorem linSteps_eq (indef : Int) (avg : F64) (p : Int × ℚ) (rest : List (Int × ℚ)) :
    linSteps indef avg (toSteps (p :: rest))
      = .ok (toInt indef (round (interpLoop true (toSteps (p :: rest)) (avg / ofInt 1000)))) := rfl

theorem linSteps_nil (indef : Int) (avg : F64) :
    linSteps indef avg [] = .panic "index-out-of-range" := rfl

theorem div1000_mono {a b : F64} (h : le a b = true) :
    le (a / ofInt 1000) (b / ofInt 1000) = true := by
  rw [ofInt_1000]; exact div_fin_mono (by norm_num) h

theorem div1000_ne_nan {a : F64} (h : a ≠ nan) : a / ofInt 1000 ≠ nan :=
  ne_nan_of_le_left (div1000_mono (F64.le_refl h))

theorem linSteps_of_value (indef : Int) (avg : F64) (p : Int × ℚ) (rest : List (Int × ℚ)) {z : ℚ}
    (hz : interpLoop true (toSteps (p :: rest)) (avg / ofInt 1000) = fin z) (h0 : 0 ≤ z)
    (h1 : z ≤ 255) :
    linSteps indef avg (toSteps (p :: rest)) = .ok (roundRat z) ∧ 0 ≤ roundRat z ∧
      roundRat z ≤ 255 := by
  rw [linSteps_eq, hz]
  have := toInt_round_of_bounds indef (q := z) (lo := 0) (hi := 255) (by simpa using h0)
    (by simpa using h1) (by norm_num) (by norm_num)
  exact ⟨by rw [this.1], this.2.1, this.2.2⟩

/-- Range of the steps form for every non-NaN reading. -/
theorem linSteps_range (indef : Int) (x : Int) (y : ℚ) (rest : List (Int × ℚ))
    (hok : StepsOK ((x, y) :: rest)) {avg : F64} (h : avg ≠ nan) :
    ∃ v, linSteps indef avg (toSteps ((x, y) :: rest)) = .ok v ∧ 0 ≤ v ∧ v ≤ 255 := by
  obtain ⟨z, hz, h0, h1⟩ := interpLoop_range x y rest hok (div1000_ne_nan h)
  exact ⟨_, linSteps_of_value indef avg (x, y) rest hz h0 h1⟩

/-- Monotonicity of the steps form. -/
theorem linSteps_mono (indef : Int) (x : Int) (y : ℚ) (rest : List (Int × ℚ))
    (hok : StepsOK ((x, y) :: rest)) (hm : StepsMono ((x, y) :: rest)) {a b : F64}
    (h : le a b = true) :
    ∃ v w, linSteps indef a (toSteps ((x, y) :: rest)) = .ok v ∧
      linSteps indef b (toSteps ((x, y) :: rest)) = .ok w ∧ v ≤ w := by
  obtain ⟨z, z', hz, hz', hzz⟩ := interpLoop_mono x y rest hok hm (div1000_mono h)
  obtain ⟨w, hw, w0, w1⟩ := interpLoop_range x y rest hok (div1000_ne_nan (ne_nan_of_le_left h))
  obtain ⟨w', hw', w0', w1'⟩ := interpLoop_range x y rest hok (div1000_ne_nan (ne_nan_of_le_right h))
  rw [hz] at hw; rw [hz'] at hw'
  cases hw; cases hw'
  exact ⟨_, _, (linSteps_of_value indef a (x, y) rest hz w0 w1).1,
    (linSteps_of_value indef b (x, y) rest hz' w0' w1').1, roundRat_mono hzz⟩

/-- value of the steps form for a finite scaled reading `avg/1000 = q`. -/
theorem linSteps_fin (indef : Int) (x : Int) (y : ℚ) (rest : List (Int × ℚ))
    (hok : StepsOK ((x, y) :: rest)) {avg : F64} {q : ℚ} (hq : avg / ofInt 1000 = fin q) :
    linSteps indef avg (toSteps ((x, y) :: rest))
      = .ok (roundRat (interpQ true ((x, y) :: rest) q)) := by
  have hz := interpLoop_fin true x y rest hok q (Or.inl rfl)
  rw [← hq] at hz
  have := interpQ_range true x y rest hok q (Or.inl rfl)
  exact (linSteps_of_value indef avg (x, y) rest hz this.1 this.2).1

/-! ### helpers for stating the hypotheses explicitly -/

theorem stepsOK_of {ks : List (Int × ℚ)}
    (hb : ∀ p ∈ ks, |p.1| ≤ 2 ^ 50 ∧ Rep64 p.2 ∧ 0 ≤ p.2 ∧ p.2 ≤ 255)
    (hkeys : ks.Pairwise (fun a b => a.1 < b.1)) : StepsOK ks :=
  ⟨fun p hp => ⟨(hb p hp).1, ⟨(hb p hp).2.1, (hb p hp).2.2.1, (hb p hp).2.2.2⟩⟩, hkeys⟩

theorem speedOK_int {n : Int} (h0 : 0 ≤ n) (h1 : n ≤ 255) : SpeedOK (n : ℚ) :=
  ⟨rep64_intCast n (abs_le.mpr ⟨by omega, by omega⟩), by exact_mod_cast h0, by exact_mod_cast h1⟩

theorem rep32_int {n : Int} (h0 : 0 ≤ n) (h1 : n ≤ 255) : Rep32 (n : ℚ) :=
  rep32_intCast n (abs_le.mpr ⟨by omega, by omega⟩)

/-- a reading of exactly `k` degrees scales to exactly `k`. -/
theorem div1000_exact {k : Int} (hk : |k| ≤ 2 ^ 50) :
    fin ((k * 1000 : Int) : ℚ) / ofInt 1000 = fin (k : ℚ) := by
  rw [ofInt_1000, div_fin_fin _ (by norm_num)]
  have : ((k * 1000 : Int) : ℚ) / 1000 = (k : ℚ) := by push_cast; field_simp
  rw [this]
  exact ofRat_intCast (hk.trans (by norm_num))

/-! ### inside a segment -/

/-- For two integer speeds the (cast) interpolated value lies between them, in either order. -/
theorem segQ_between_int {t x x' : ℚ} (h1 : x ≤ t) (h2 : t ≤ x') {a b : Int}
    (ha0 : 0 ≤ a) (ha1 : a ≤ 255) (hb0 : 0 ≤ b) (hb1 : b ≤ 255) :
    ((min a b : Int) : ℚ) ≤ segQ t x x' a b ∧ segQ t x x' a b ≤ ((max a b : Int) : ℚ) := by
  obtain ⟨r0, r1⟩ := ratioQ_bounds h1 h2
  have hd : fl64 ((b : ℚ) - a) = ((b - a : Int) : ℚ) := by
    rw [← Int.cast_sub]; exact fl64_intCast _ (abs_le.mpr ⟨by omega, by omega⟩)
  have hdr : Rep64 (((b - a : Int) : ℚ)) := rep64_intCast _ (abs_le.mpr ⟨by omega, by omega⟩)
  have ra := (speedOK_int ha0 ha1).rep
  have rb := (speedOK_int hb0 hb1).rep
  have sa := rep32_int ha0 ha1
  have sb := rep32_int hb0 hb1
  obtain ⟨pa, pb⟩ := prod_bounds r0 r1 hdr
  unfold segQ
  rw [hd]
  rcases le_total a b with hab | hab
  · rw [min_eq_left hab, max_eq_right hab]
    have hd0 : (0 : ℚ) ≤ ((b - a : Int) : ℚ) := by exact_mod_cast (by omega : 0 ≤ b - a)
    obtain ⟨p0, p1⟩ := pa hd0
    push_cast at p1
    constructor
    · exact le_fl32_of_rep_le sa (le_fl64_of_rep_le ra (by linarith))
    · exact fl32_le_of_le_rep sb (fl64_le_of_le_rep rb (by push_cast; linarith))
  · rw [min_eq_right hab, max_eq_left hab]
    have hd0 : ((b - a : Int) : ℚ) ≤ 0 := by exact_mod_cast (by omega : b - a ≤ 0)
    obtain ⟨p0, p1⟩ := pb hd0
    push_cast at p0
    constructor
    · exact le_fl32_of_rep_le sb (le_fl64_of_rep_le rb (by push_cast; linarith))
    · exact fl32_le_of_le_rep sa (fl64_le_of_le_rep ra (by linarith))

/-- value of the loop for an input inside the segment between two adjacent steps. -/
theorem interpQ_seg (first : Bool) (l1 l2 : List (Int × ℚ)) (k k' : Int) (v v' : ℚ)
    (hok : StepsOK (l1 ++ (k, v) :: (k', v') :: l2)) (hne : l1 ++ (k, v) :: (k', v') :: l2 ≠ [])
    {q : ℚ} (hq1 : (k : ℚ) ≤ q) (hq2 : q < k') :
    interpQ first (l1 ++ (k, v) :: (k', v') :: l2) q = if q = k then v else segQ q k k' v v' := by
  induction l1 generalizing first with
  | nil =>
    simp only [List.nil_append]
    rw [interpQ]
    have hB : ¬ ((k' : ℚ) ≤ q) := not_le.mpr hq2
    by_cases hA : first = true ∧ q ≤ k
    · have : q = k := le_antisymm hA.2 hq1
      rw [if_pos hA, if_pos this]
    · rw [if_neg hA, if_neg hB]
  | cons p l1 ih =>
    obtain ⟨x, y⟩ := p
    -- the element following `(x, y)`
    have hk : x < k := by
      have := hok.head_lt (p := (k, v)) (by simp)
      simpa using this
    have hxq : (x : ℚ) < q := lt_of_lt_of_le (by exact_mod_cast hk) hq1
    cases l1 with
    | nil =>
      simp only [List.cons_append, List.nil_append] at *
      rw [interpQ]
      have hA : ¬ (first = true ∧ q ≤ x) := by rintro ⟨_, hc⟩; linarith
      rw [if_neg hA, if_pos hq1]
      exact ih false hok.tail (by simp)
    | cons p' l1' =>
      obtain ⟨x', y'⟩ := p'
      simp only [List.cons_append] at *
      have hx'k : x' < k := by
        have := hok.tail.head_lt (p := (k, v)) (by simp)
        simpa using this
      have hB : (x' : ℚ) ≤ q := le_trans (by exact_mod_cast hx'k.le) hq1
      rw [interpQ]
      have hA : ¬ (first = true ∧ q ≤ x) := by rintro ⟨_, hc⟩; linarith
      rw [if_neg hA, if_pos hB]
      exact ih false hok.tail (by simp)

/-- the steps form between two adjacent integer speeds. -/
theorem linSteps_between_int (indef : Int) (l1 l2 : List (Int × ℚ)) (k k' : Int) (a b : Int)
    (hok : StepsOK (l1 ++ (k, (a : ℚ)) :: (k', (b : ℚ)) :: l2)) {avg : F64} {q : ℚ}
    (hq : avg / ofInt 1000 = fin q) (hq1 : (k : ℚ) ≤ q) (hq2 : q < k') :
    ∃ w, linSteps indef avg (toSteps (l1 ++ (k, (a : ℚ)) :: (k', (b : ℚ)) :: l2)) = .ok w ∧
      min a b ≤ w ∧ w ≤ max a b := by
  have hka : SpeedOK (a : ℚ) := (hok.1 (k, (a : ℚ)) (by simp)).2
  have hkb : SpeedOK (b : ℚ) := (hok.1 (k', (b : ℚ)) (by simp)).2
  have ha0 : 0 ≤ a := by exact_mod_cast hka.nonneg
  have ha1 : a ≤ 255 := by exact_mod_cast hka.le255
  have hb0 : 0 ≤ b := by exact_mod_cast hkb.nonneg
  have hb1 : b ≤ 255 := by exact_mod_cast hkb.le255
  have hseg := interpQ_seg true l1 l2 k k' a b hok (by simp) hq1 hq2
  have hbt := segQ_between_int hq1 hq2.le ha0 ha1 hb0 hb1
  have hval : ((min a b : Int) : ℚ) ≤ interpQ true (l1 ++ (k, (a : ℚ)) :: (k', (b : ℚ)) :: l2) q ∧
      interpQ true (l1 ++ (k, (a : ℚ)) :: (k', (b : ℚ)) :: l2) q ≤ ((max a b : Int) : ℚ) := by
    rw [hseg]
    split_ifs
    · constructor
      · exact_mod_cast min_le_left a b
      · exact_mod_cast le_max_left a b
    · exact hbt
  match hl : l1 ++ (k, (a : ℚ)) :: (k', (b : ℚ)) :: l2, hok, hval with
  | [], _, _ => simp at hl
  | (x, y) :: rest, hok', hval' =>
    refine ⟨_, linSteps_fin indef x y rest hok' hq, ?_, ?_⟩
    · exact le_roundRat_of_intCast_le hval'.1
    · exact roundRat_le_of_le_intCast hval'.2

end Fan2go
