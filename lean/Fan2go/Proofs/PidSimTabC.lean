/- kernel-evaluated exploration tables for Proofs/PidSim.lean (part C); each `decide +kernel`
   evaluates the integer model `simOk`/`simOkU` on a block of starting errors. -/
import Fan2go.Proofs.PidSim
namespace Fan2go

set_option maxRecDepth 100000 in
theorem simTabB_161 : simTabB 161 16 = true := by decide +kernel

set_option maxRecDepth 100000 in
theorem simTabB_177 : simTabB 177 16 = true := by decide +kernel

set_option maxRecDepth 100000 in
theorem simTabB_193 : simTabB 193 16 = true := by decide +kernel

end Fan2go
