/-
  Proofs about `Model/Analysis.lean`, second part: what a first analysis stores (the swept map and the
  measured curve), the limits derived from the curve for the harness's devices, `waitForFanToSettle`.
-/
import Fan2go.Proofs.Analysis
namespace Fan2go.Analysis
open Fan2go Fan2go.Startup F64

/-- what the theorems below assume of the device: an idempotent response that stays inside 0..255 -/
structure Phys.Nice (ph : Phys) : Prop where
  idem : ∀ v, ph.resp (ph.resp v) = ph.resp v
  range : ∀ v, 0 ≤ v → v ≤ 255 → 0 ≤ ph.resp v ∧ ph.resp v ≤ 255

theorem harnessPhys_nice (q s : Int) : (harnessPhys q s).Nice :=
  ⟨fun v => quantResp_idem q v, fun v h0 h1 => by
    have := quantResp_range q h0
    exact ⟨this.1, by simp only [harnessPhys]; omega⟩⟩

/-- the RPM curve a measurement over the swept map of the device records: every distinct target `k`, with the
    RPM the fan settles at for the register value `resp k` -/
def sweptCurve (ph : Phys) : List (Int × F64) :=
  (extractKeys (sweptMap ph.resp)).map fun k => (k, ofInt (ph.rpmOf (ph.resp k)))

theorem sweptCurve_ne_nil (ph : Phys) : sweptCurve ph ≠ [] := by
  unfold sweptCurve
  simp only [ne_eq, List.map_eq_nil_iff]
  exact extractKeys_ne_nil _ (sweptMap_ne_nil _)

theorem extractKeys_sweptMap_range (resp : Int → Int) :
    ∀ k ∈ extractKeys (sweptMap resp), 0 ≤ k ∧ k ≤ 255 := by
  intro k hk
  obtain ⟨v, hv⟩ := extractKeys_sub _ k hk
  have := mem_sweptMap.mp hv
  exact ⟨this.1, this.2.1⟩

/-- the measurement over the swept map, started from a state the device can be in -/
theorem measure_swept (ph : Phys) (hn : ph.Nice) (cfg : FanCfg) (fan : FanSt) (hpr : cfg.pwmRead = true)
    (c : CtlSt) (r : Regs) (hm : c.pwmMap = some (.swept, sweptMap ph.resp))
    (hd : c.distinct = extractKeys (sweptMap ph.resp))
    (h1 : ph.resp r.pwm = r.pwm) (h2 : r.rpm = ph.rpmOf r.pwm) :
    let o := measureLoop ph cfg fan c.distinct c r []
    o.res = .ok () ∧ o.data = sweptCurve ph ∧ o.ctl.pwmMap = c.pwmMap ∧ o.ctl.distinct = c.distinct := by
  have hsorted := extractKeys_sorted _ (sweptMap_sorted ph.resp)
  have := measureLoop_spec ph cfg fan .swept (sweptMap ph.resp) _ hsorted c.distinct c r [] hm hd
    (by intro k hk; rw [← hd]; exact hk) (by rw [hd]; exact hsorted) (by intro p hp; simp at hp)
  obtain ⟨e1, e2, _, e4, e5, _, _⟩ := this
  refine ⟨e1, ?_, e4, e5⟩
  rw [e2, hpr, List.nil_append, hd]
  have hfix : ∀ k ∈ extractKeys (sweptMap ph.resp),
      ph.resp (mapGet (sweptMap ph.resp) k) = mapGet (sweptMap ph.resp) k := by
    intro k hk
    obtain ⟨k0, k1⟩ := extractKeys_sweptMap_range _ k hk
    rw [mapGet_sweptMap _ k0 k1]; exact hn.idem k
  rw [measSpec_all ph _ hn.idem _ r h1 h2 hfix]
  unfold sweptCurve
  apply List.map_congr_left
  intro k hk
  obtain ⟨k0, k1⟩ := extractKeys_sweptMap_range _ k hk
  rw [mapGet_sweptMap _ k0 k1]

/-- `computePwmMapLocked` when nothing is configured, stored or cached and the PWM value is readable: sweep -/
theorem locked_swept (indef : Int) (ph : Phys) (cfg : FanCfg) (fan : FanSt) (c : CtlSt) (st : DStore) (r : Regs)
    (hpr : cfg.pwmRead = true) (hcm : cfg.cfgMap = none) (hc : c.pwmMap = none) (hst : st.map = none) :
    ∃ R : Regs, R.pwm = ph.resp (mapGet (sweptMap ph.resp) fan.getStart) ∧ R.rpm = ph.rpmOf R.pwm ∧
      computePwmMapLockedD indef ph cfg fan c st r =
        ([.sweep, .saveMap], { c with pwmMap := some (.swept, sweptMap ph.resp) },
         { st with map := some (.swept, sweptMap ph.resp) }, R) := by
  refine ⟨ph.write (sweep ph (trySetManual ph cfg r)).1 (mapGet (sweptMap ph.resp) fan.getStart), rfl, rfl, ?_⟩
  unfold computePwmMapLockedD computeAuto
  simp only [hcm, hst, hc, hpr, Bool.not_true, Bool.false_eq_true, if_false]
  have := sweep_map ph (trySetManual ph cfg r)
  generalize sweep ph (trySetManual ph cfg r) = S at this
  obtain ⟨r2, m⟩ := S
  simp only at this
  subst this
  rfl

/-- `RunInitializationSequence` of a hwmon fan with RPM input and readable PWM, nothing configured / stored:
    what it stores and leaves in the controller -/
theorem runInitD_swept (indef : Int) (ph : Phys) (hn : ph.Nice) (cfg : FanCfg) (hk : cfg.kind = .hwmon)
    (hr : cfg.hasRpm = true) (hpr : cfg.pwmRead = true) (hcm : cfg.cfgMap = none)
    (fan : FanSt) (hfk : fan.kind = .hwmon) (c : CtlSt) (hc : c.pwmMap = none)
    (st : DStore) (hst : st.map = none) (r : Regs) :
    let o := runInitD indef ph cfg fan c st r
    o.ok = true ∧ o.crash = none ∧ o.devOk = true ∧
    o.store.map = some (.swept, sweptMap ph.resp) ∧ o.store.rpm = some (sweptCurve ph) ∧
    o.ctl.pwmMap = some (.swept, sweptMap ph.resp) ∧ o.ctl.distinct = extractKeys (sweptMap ph.resp) ∧
    o.fan = attachOk indef fan (sweptCurve ph) := by
  obtain ⟨R, hR1, hR2, hL⟩ := locked_swept indef ph cfg fan c st r hpr hcm hc hst
  unfold runInitD
  rw [hL]
  simp only [hr, Bool.not_true, Bool.false_eq_true, if_false]
  set c2 := updateDistinct { c with pwmMap := some (MapSrc.swept, sweptMap ph.resp) } with hc2
  have hm2 : c2.pwmMap = some (.swept, sweptMap ph.resp) := rfl
  have hd2 : c2.distinct = extractKeys (sweptMap ph.resp) := rfl
  have hmode : cfg.hasMode = true := by simp [FanCfg.hasMode, hk]
  have hr2a : ph.resp (trySetManual ph cfg R).pwm = (trySetManual ph cfg R).pwm := by
    simp only [trySetManual, hmode, if_true, Phys.writeMode]
    rw [hR1]; exact hn.idem _
  have hr2b : (trySetManual ph cfg R).rpm = ph.rpmOf (trySetManual ph cfg R).pwm := by
    simp [trySetManual, hmode, Phys.writeMode]
  obtain ⟨e1, e2, e3, e4⟩ := measure_swept ph hn cfg fan hpr c2 (trySetManual ph cfg R) hm2 hd2 hr2a hr2b
  generalize measureLoop ph cfg fan c2.distinct c2 (trySetManual ph cfg R) [] = mo at e1 e2 e3 e4
  rw [e1]
  simp only
  rw [e2, attach_hwmon_ne indef fan hfk _ (sweptCurve_ne_nil ph)]
  simp only
  refine ⟨trivial, trivial, ?_, trivial, ?_, by rw [e3, hm2], by rw [e4, hd2], trivial⟩
  · simp [DOut.devOk]
  · simp [curveOf, hk, attachOk_curveData]

theorem newFan_kind_hwmon (cfg : FanCfg) (hk : cfg.kind = .hwmon) : cfg.newFan.kind = .hwmon := by
  simp [FanCfg.newFan, FanSt.new, hk, fanKind]

/-- `fan2go fan init` of such a fan -/
theorem initD_swept (indef : Int) (ph : Phys) (hn : ph.Nice) (cfg : FanCfg) (hk : cfg.kind = .hwmon)
    (hr : cfg.hasRpm = true) (hpr : cfg.pwmRead = true) (hcm : cfg.cfgMap = none) (r : Regs) :
    let o := initD indef ph cfg r
    o.ok = true ∧ o.crash = none ∧ o.devOk = true ∧
    o.store.map = some (.swept, sweptMap ph.resp) ∧ o.store.rpm = some (sweptCurve ph) ∧
    o.ctl.pwmMap = some (.swept, sweptMap ph.resp) ∧ o.ctl.distinct = extractKeys (sweptMap ph.resp) := by
  obtain ⟨h1, h2, h3, h4, h5, h6, h7, _⟩ :=
    runInitD_swept indef ph hn cfg hk hr hpr hcm cfg.newFan (newFan_kind_hwmon cfg hk) {} rfl {} rfl r
  unfold initD
  refine ⟨h1, h2, ?_, h4, h5, h6, h7⟩
  simp only [DOut.devOk] at h3 ⊢
  simpa using h3

/-- the first `Run` of such a fan (no RPM curve and no map stored): it reaches regulation with the swept map
    and its distinct targets in the controller, and both entries stored -/
theorem startD_swept (indef : Int) (ph : Phys) (hn : ph.Nice) (cfg : FanCfg) (hk : cfg.kind = .hwmon)
    (hr : cfg.hasRpm = true) (hpr : cfg.pwmRead = true) (hcm : cfg.cfgMap = none)
    (st : DStore) (hsr : st.rpm = none) (hsm : st.map = none) (r : Regs) :
    let o := startD indef ph cfg st r
    o.ok = true ∧ o.crash = none ∧
    o.store.map = some (.swept, sweptMap ph.resp) ∧ o.store.rpm = some (sweptCurve ph) ∧
    o.ctl.pwmMap = some (.swept, sweptMap ph.resp) ∧ o.ctl.distinct = extractKeys (sweptMap ph.resp) := by
  unfold startD
  simp only [hsr, hk]
  set c0 : CtlSt := { origPwm := getPwm cfg cfg.newFan {} r, origMode := if cfg.hasMode then r.mode else 0 }
  obtain ⟨h1, h2, _, h4, h5, h6, h7, h8⟩ :=
    runInitD_swept indef ph hn cfg hk hr hpr hcm cfg.newFan (newFan_kind_hwmon cfg hk) c0 rfl st hsm r
  generalize runInitD indef ph cfg cfg.newFan c0 st r = o at h1 h2 h4 h5 h6 h7 h8
  simp only [h1, if_true]
  unfold runTailD
  simp only [h5]
  have hfk : o.fan.kind = .hwmon := by
    rw [h8, (attachOk_cfg indef _ _).1]; exact newFan_kind_hwmon cfg hk
  rw [attach_hwmon_ne indef o.fan hfk _ (sweptCurve_ne_nil ph)]
  simp only
  unfold computePwmMapLockedD
  simp only [hcm, h4]
  refine ⟨?_, ?_, ?_, ?_, ?_, ?_⟩ <;> trivial

/-! ### the limits derived from the measured curve -/

theorem sweptCurve_sorted (ph : Phys) : KeysSorted (sweptCurve ph) := by
  unfold KeysSorted sweptCurve
  rw [List.pairwise_map]
  exact extractKeys_sorted _ (sweptMap_sorted ph.resp)

theorem mem_sweptCurve {ph : Phys} {p : Int × F64} :
    p ∈ sweptCurve ph ↔ p.1 ∈ extractKeys (sweptMap ph.resp) ∧ p.2 = ofInt (ph.rpmOf (ph.resp p.1)) := by
  unfold sweptCurve
  simp only [List.mem_map]
  constructor
  · rintro ⟨k, hk, rfl⟩; exact ⟨hk, rfl⟩
  · rintro ⟨h1, h2⟩; exact ⟨p.1, h1, by rw [← h2]⟩

theorem sweptCurve_le255 (ph : Phys) : ∀ p ∈ sweptCurve ph, p.1 ≤ 255 := fun _ hp =>
  (extractKeys_sweptMap_range _ _ (mem_sweptCurve.mp hp).1).2

/-- the whole RPM of a recorded point is the device's RPM at that target -/
theorem rpmOf_sweptCurve (indef : Int) (ph : Phys) (hb : ∀ k, 0 ≤ k → k ≤ 255 → |ph.rpmOf (ph.resp k)| ≤ 2 ^ 53) {p : Int × F64}
    (hp : p ∈ sweptCurve ph) : rpmOf indef p = ph.rpmOf (ph.resp p.1) := by
  unfold rpmOf
  obtain ⟨k0, k1⟩ := extractKeys_sweptMap_range _ _ (mem_sweptCurve.mp hp).1
  rw [(mem_sweptCurve.mp hp).2, b_ofInt _ (hb _ k0 k1)]
  have := abs_le.mp (hb _ k0 k1)
  exact b_toInt_int indef (by omega) (by omega)

/-- start PWM derived from the measured curve: the lowest target at which the fan rotates … -/
theorem sweptCurve_specStart (indef : Int) (ph : Phys) (hb : ∀ k, 0 ≤ k → k ≤ 255 → |ph.rpmOf (ph.resp k)| ≤ 2 ^ 53)
    (h : ∃ k ∈ extractKeys (sweptMap ph.resp), 0 < ph.rpmOf (ph.resp k)) :
    specStart indef (sweptCurve ph) ∈ extractKeys (sweptMap ph.resp) ∧
    0 < ph.rpmOf (ph.resp (specStart indef (sweptCurve ph))) ∧
    ∀ k ∈ extractKeys (sweptMap ph.resp), 0 < ph.rpmOf (ph.resp k) → specStart indef (sweptCurve ph) ≤ k := by
  obtain ⟨k0, hk0, hpos0⟩ := h
  have hp0 : (k0, ofInt (ph.rpmOf (ph.resp k0))) ∈ sweptCurve ph := mem_sweptCurve.mpr ⟨hk0, rfl⟩
  obtain ⟨p, hp, e, hpos, hlow⟩ := specStart_lowest indef (sweptCurve_sorted ph)
    ⟨_, hp0, by rw [rpmOf_sweptCurve indef ph hb hp0]; exact hpos0⟩
  rw [← e]
  refine ⟨(mem_sweptCurve.mp hp).1, by rw [← rpmOf_sweptCurve indef ph hb hp]; exact hpos, ?_⟩
  intro k hk hkpos
  have hpk : (k, ofInt (ph.rpmOf (ph.resp k))) ∈ sweptCurve ph := mem_sweptCurve.mpr ⟨hk, rfl⟩
  have := hlow _ hpk (by rw [rpmOf_sweptCurve indef ph hb hpk]; exact hkpos)
  rw [e]; exact this

/-- … and 255 when it rotates at no target -/
theorem sweptCurve_specStart_none (indef : Int) (ph : Phys) (hb : ∀ k, 0 ≤ k → k ≤ 255 → |ph.rpmOf (ph.resp k)| ≤ 2 ^ 53)
    (h : ∀ k ∈ extractKeys (sweptMap ph.resp), ph.rpmOf (ph.resp k) ≤ 0) :
    specStart indef (sweptCurve ph) = 255 ∧ specMax indef (sweptCurve ph) = 255 := by
  have : ∀ p ∈ sweptCurve ph, rpmOf indef p ≤ 0 := by
    intro p hp; rw [rpmOf_sweptCurve indef ph hb hp]; exact h _ (mem_sweptCurve.mp hp).1
  exact ⟨specStart_none indef _ this, specMax_none indef _ this⟩

/-- max PWM derived from the measured curve: the lowest target at which the highest RPM is reached -/
theorem sweptCurve_specMax (indef : Int) (ph : Phys) (hb : ∀ k, 0 ≤ k → k ≤ 255 → |ph.rpmOf (ph.resp k)| ≤ 2 ^ 53)
    (h : ∃ k ∈ extractKeys (sweptMap ph.resp), 0 < ph.rpmOf (ph.resp k)) :
    specMax indef (sweptCurve ph) ∈ extractKeys (sweptMap ph.resp) ∧
    (∀ k ∈ extractKeys (sweptMap ph.resp),
      ph.rpmOf (ph.resp k) ≤ ph.rpmOf (ph.resp (specMax indef (sweptCurve ph)))) ∧
    ∀ k ∈ extractKeys (sweptMap ph.resp),
      (∀ j ∈ extractKeys (sweptMap ph.resp), ph.rpmOf (ph.resp j) ≤ ph.rpmOf (ph.resp k)) →
      specMax indef (sweptCurve ph) ≤ k := by
  obtain ⟨k0, hk0, hpos0⟩ := h
  have hp0 : (k0, ofInt (ph.rpmOf (ph.resp k0))) ∈ sweptCurve ph := mem_sweptCurve.mpr ⟨hk0, rfl⟩
  obtain ⟨p, hp, e, hmax, hlow⟩ := specMax_lowest indef (sweptCurve_sorted ph)
    ⟨_, hp0, by rw [rpmOf_sweptCurve indef ph hb hp0]; exact hpos0⟩
  have hcurve : ∀ k, k ∈ extractKeys (sweptMap ph.resp) → (k, ofInt (ph.rpmOf (ph.resp k))) ∈ sweptCurve ph :=
    fun k hk => mem_sweptCurve.mpr ⟨hk, rfl⟩
  rw [← e]
  refine ⟨(mem_sweptCurve.mp hp).1, ?_, ?_⟩
  · intro k hk
    have := hmax _ (hcurve k hk)
    rwa [rpmOf_sweptCurve indef ph hb (hcurve k hk), rpmOf_sweptCurve indef ph hb hp] at this
  · intro k hk hk'
    have := hlow _ (hcurve k hk) (by
      intro r hr
      rw [rpmOf_sweptCurve indef ph hb (hcurve k hk), rpmOf_sweptCurve indef ph hb hr]
      exact hk' _ (mem_sweptCurve.mp hr).1)
    rw [e]; exact this

/-! ### … for the harness's devices: quantiser `q`, rotation from register value `spinAt` on, 10 RPM per step -/

theorem mem_targets_quant (q k : Int) :
    k ∈ extractKeys (sweptMap (quantResp q)) ↔ 0 ≤ k ∧ k ≤ 255 ∧ (q ≤ 1 ∨ q ∣ k) := by
  rw [extractKeys_sweptMap_quant]
  simp only [List.mem_map, List.mem_filter, List.mem_range, Bool.or_eq_true, decide_eq_true_eq]
  constructor
  · rintro ⟨i, ⟨hi, hc⟩, rfl⟩
    exact ⟨by positivity, by omega, hc⟩
  · rintro ⟨h0, h1, hc⟩
    refine ⟨k.toNat, ⟨by omega, ?_⟩, Int.toNat_of_nonneg h0⟩
    rw [Int.toNat_of_nonneg h0]; exact hc

/-- at a target the quantiser's register shows the target itself -/
theorem quantResp_target {q k : Int} (hk : k ∈ extractKeys (sweptMap (quantResp q))) : quantResp q k = k := by
  obtain ⟨h0, _, hc⟩ := (mem_targets_quant q k).mp hk
  by_cases hq : 1 < q
  · exact (quantResp_fixed_iff hq h0).mpr (by rcases hc with h | h; omega; exact h)
  · unfold quantResp; rw [if_neg hq]

theorem harness_rpm_target {q s k : Int} (hk : k ∈ extractKeys (sweptMap (quantResp q))) :
    (harnessPhys q s).rpmOf ((harnessPhys q s).resp k) = if k ≥ s then 10 * k else 0 := by
  simp only [harnessPhys, quantResp_target hk, harnessRpm]

theorem harness_rpm_bound (q s : Int) :
    ∀ k, 0 ≤ k → k ≤ 255 → |(harnessPhys q s).rpmOf ((harnessPhys q s).resp k)| ≤ 2 ^ 53 := by
  intro k h0 h1
  have := quantResp_range q h0
  simp only [harnessPhys, harnessRpm]
  split <;> rw [abs_le] <;> constructor <;> omega

/-- the highest target of the quantiser's swept map -/
def topTarget (q : Int) : Int := if q ≤ 1 then 255 else 255 / q * q

theorem topTarget_mem (q : Int) :
    topTarget q ∈ extractKeys (sweptMap (quantResp q)) ∧
    ∀ k ∈ extractKeys (sweptMap (quantResp q)), k ≤ topTarget q := by
  unfold topTarget
  by_cases hq : q ≤ 1
  · rw [if_pos hq]
    exact ⟨(mem_targets_quant q 255).mpr ⟨by norm_num, le_refl _, Or.inl hq⟩,
      fun k hk => ((mem_targets_quant q k).mp hk).2.1⟩
  · rw [if_neg hq]
    have hqpos : 0 < q := by omega
    have h1 : 0 ≤ 255 / q := Int.ediv_nonneg (by norm_num) (by omega)
    have h2 : 255 / q * q ≤ 255 := Int.ediv_mul_le 255 (by omega)
    refine ⟨(mem_targets_quant q _).mpr ⟨Int.mul_nonneg h1 (by omega), h2, Or.inr ⟨255 / q, by ring⟩⟩, ?_⟩
    intro k hk
    obtain ⟨k0, k1, hc⟩ := (mem_targets_quant q k).mp hk
    rcases hc with hc | ⟨c, rfl⟩
    · omega
    · have : c ≤ 255 / q := by
        rw [Int.le_ediv_iff_mul_le hqpos]; rw [mul_comm] at k1; exact k1
      nlinarith

/-- THE limits a measurement of a harness device yields (nothing configured): if the top target rotates the
    max PWM is the top target and the start PWM is the spin threshold rounded up to a target (the lowest
    positive target ≥ `spinAt`); if not even the top target rotates both stay at 255. -/
theorem harness_limits (indef q s : Int) :
    let d := sweptCurve (harnessPhys q s)
    let T := topTarget q
    (s ≤ T ∧ 0 < T →
      specMax indef d = T ∧
      specStart indef d ∈ extractKeys (sweptMap (quantResp q)) ∧ s ≤ specStart indef d ∧ 0 < specStart indef d ∧
      ∀ k ∈ extractKeys (sweptMap (quantResp q)), s ≤ k → 0 < k → specStart indef d ≤ k) ∧
    (¬ (s ≤ T ∧ 0 < T) → specStart indef d = 255 ∧ specMax indef d = 255) := by
  dsimp only
  set T := topTarget q with hT
  have hb := harness_rpm_bound q s
  obtain ⟨hTm, hTtop⟩ := topTarget_mem q
  have hresp : (harnessPhys q s).resp = quantResp q := rfl
  have hpos : ∀ k ∈ extractKeys (sweptMap (quantResp q)),
      (0 < (harnessPhys q s).rpmOf ((harnessPhys q s).resp k) ↔ s ≤ k ∧ 0 < k) := by
    intro k hk
    rw [harness_rpm_target hk]
    split <;> constructor <;> intro h <;> omega
  constructor
  · rintro ⟨hs, hT0⟩
    have hex : ∃ k ∈ extractKeys (sweptMap (harnessPhys q s).resp), 0 < (harnessPhys q s).rpmOf ((harnessPhys q s).resp k) :=
      ⟨T, hTm, (hpos T hTm).mpr ⟨hs, hT0⟩⟩
    obtain ⟨m1, m2, m3⟩ := sweptCurve_specMax indef (harnessPhys q s) hb hex
    obtain ⟨s1, s2, s3⟩ := sweptCurve_specStart indef (harnessPhys q s) hb hex
    rw [hresp] at m1 m3 s1 s3
    refine ⟨?_, s1, ((hpos _ s1).mp s2).1, ((hpos _ s1).mp s2).2, fun k hk h1 h2 => s3 k hk ((hpos k hk).mpr ⟨h1, h2⟩)⟩
    -- the top target rotates fastest, and no lower target reaches its RPM
    have hle := hTtop _ m1
    have hge := m2 T hTm
    rw [harness_rpm_target hTm, harness_rpm_target m1, if_pos (by omega : T ≥ s)] at hge
    split at hge <;> omega
  · intro hno
    apply sweptCurve_specStart_none indef (harnessPhys q s) hb
    intro k hk
    rw [hresp] at hk
    by_contra hc
    have := (hpos k hk).mp (by omega)
    have := hTtop k hk
    exact hno ⟨by omega, by omega⟩

/-- the limits the next `Run` derives from a stored curve (hwmon): configured values win, the rest comes from
    the curve through `specStart` / `specMax` (the specification functions of C13) -/
theorem limitsOf_hwmon (indef : Int) (cfg : FanCfg) (hk : cfg.kind = .hwmon) (d : List (Int × F64))
    (hne : d ≠ []) (hs : KeysSorted d) (h255 : ∀ p ∈ d, p.1 ≤ 255) :
    limitsOf indef cfg d = some
      (if cfg.neverStop then
          cfg.cfgMin.getD (if cfg.cfgStart.getD 255 < 255 then cfg.cfgStart.getD 255 else specStart indef d)
        else 0,
       cfg.cfgStart.getD (specStart indef d), cfg.cfgMax.getD (specMax indef d)) := by
  have hfk := newFan_kind_hwmon cfg hk
  unfold limitsOf
  rw [attach_hwmon_ne indef _ hfk d hne]
  simp only [attachOk_getStart indef _ hfk, attachOk_getMax indef _ hfk, attachOk_getMin indef _ hfk,
    computePwmBoundaries_spec indef _ d hs h255]
  simp only [FanCfg.newFan, FanSt.new, hk, fanKind, FanSt.getStart, FanSt.getMax]
  cases cfg.neverStop <;> cases cfg.cfgMin <;> cases cfg.cfgStart <;> cases cfg.cfgMax <;> simp

/-- file / cmd fans: constant limits, whatever is stored -/
theorem limitsOf_other (indef : Int) (cfg : FanCfg) (hk : cfg.kind ≠ .hwmon) (d : List (Int × F64)) :
    limitsOf indef cfg d = some (0, 1, 255) := by
  have hfk : cfg.newFan.kind ≠ .hwmon := by
    simp only [FanCfg.newFan, FanSt.new]; cases h : cfg.kind <;> simp_all [fanKind]
  unfold limitsOf
  rw [attach_other indef _ hfk]
  have : cfg.newFan.kind = .file ∨ cfg.newFan.kind = .cmd := by
    cases h : cfg.newFan.kind <;> simp_all
  rcases this with h | h <;> simp [FanSt.getMin, FanSt.getStart, FanSt.getMax, h]

/-- the first `Run` of a file / cmd fan with a readable PWM value and nothing configured / stored: swept map
    stored and used, the built-in curve stored -/
theorem startD_other_swept (indef : Int) (ph : Phys) (cfg : FanCfg) (hk : cfg.kind ≠ .hwmon)
    (hpr : cfg.pwmRead = true) (hcm : cfg.cfgMap = none)
    (st : DStore) (hsr : st.rpm = none) (hsm : st.map = none) (r : Regs) :
    let o := startD indef ph cfg st r
    o.ok = true ∧ o.store.map = some (.swept, sweptMap ph.resp) ∧ o.store.rpm = some fileCurve ∧
    o.ctl.pwmMap = some (.swept, sweptMap ph.resp) ∧ o.ctl.distinct = extractKeys (sweptMap ph.resp) := by
  have hfk : cfg.newFan.kind ≠ .hwmon := by
    simp only [FanCfg.newFan, FanSt.new]; cases h : cfg.kind <;> simp_all [fanKind]
  have hcurve : curveOf cfg cfg.newFan = some fileCurve := by
    unfold curveOf; cases h : cfg.kind <;> simp_all
  unfold startD
  simp only [hsr]
  rw [hcurve]
  unfold runTailD
  simp only
  rw [attach_other indef _ hfk]
  simp only
  obtain ⟨R, _, _, hL⟩ := locked_swept indef ph cfg cfg.newFan
    { origPwm := getPwm cfg cfg.newFan {} r, origMode := if cfg.hasMode then r.mode else 0 }
    { st with rpm := some fileCurve } r hpr hcm rfl hsm
  rw [hL]
  refine ⟨?_, ?_, ?_, ?_, ?_⟩ <;> trivial

end Fan2go.Analysis
