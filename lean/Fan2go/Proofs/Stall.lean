/-
  The stall branch of `calculateTargetPwm`, forwards: when it fires, what it yields; and what one
  RPM poll does to the average of file/cmd fans.
-/
import Fan2go.Proofs.ControllerInv
import Fan2go.Proofs.LoopRange
import Fan2go.Proofs.RpmDecay
namespace Fan2go
open F64

theorem ofInt_one_fin : ofInt 1 = F64.fin 1 := by
  have := ofInt_small (n := 1) (by norm_num); simpa using this

/-- after `fan.SetRpmAvg(1)` the fan reports the average 1, whatever its kind -/
theorem getRpmAvg_setRpmAvg_one (indef : Int) (f : FanSt) :
    (f.setRpmAvg indef (ofInt 1)).getRpmAvg = F64.fin 1 := by
  unfold FanSt.setRpmAvg
  split
  · next h => unfold FanSt.getRpmAvg; dsimp only; rw [h]; exact ofInt_one_fin
  · next h =>
    unfold FanSt.getRpmAvg; dsimp only
    have : toInt indef (ofInt 1) = 1 := by
      rw [ofInt_one_fin]
      have := toInt_fin_intCast indef 1 (by norm_num) (by norm_num)
      simpa using this
    rw [this]
    split
    · next hk => exact absurd hk h
    · exact ofInt_one_fin

/-- with the unlimited direct loop and a byte curve value, "the computed target" is the rescaled
    curve value -/
theorem computedTarget_direct_none {w : World} (indef cv last now : Int) (hloop : w.ctl.loop = .direct none)
    (h0 : 0 ≤ cv) (h1 : cv ≤ 255) :
    computedTarget indef w cv last now = rescale indef cv w.floor w.fan.getMax := by
  unfold computedTarget World.floor
  rw [hloop]
  show rescale indef (clamp255 (directCycle indef none cv last)) _ _ = _
  rw [directCycle_none_byte indef cv last h0 h1, clamp255_of_byte h0 h1]

/-- The stall branch fires: request one above the stalled one, offset and floor one up, average
    reset to 1, `Inv` kept. -/
theorem calc_stall_raises {w : World} (hinv : Inv w) (indef cv now l : Int)
    (hl : w.ctl.lastSet = some l) (hT : computedTarget indef w cv l now = l)
    (hrpm : supports w.fan w.dev .rpmSensor = true) (hns : w.fan.neverStop = true)
    (havg : toInt indef w.fan.getRpmAvg ≤ 0) (hlt : l < w.fan.getMax) :
    ∃ w' obs, calculateTargetPwm indef w (.ok cv) now = (w', .ok (l + 1), obs) ∧
      w'.ctl.offset = w.ctl.offset + 1 ∧ w'.floor = w.floor + 1 ∧
      w'.fan.getRpmAvg = F64.fin 1 ∧
      Obs.raised w.floor (w.floor + 1) ∈ obs ∧ Obs.requested (l + 1) ∈ obs ∧ Inv w' := by
  obtain ⟨wm, obs0, hm, ho, h⟩ := calc_forward hinv indef cv now l (lastSetR_of_some hl)
  have hs : stalled indef w (computedTarget indef w cv l now) = true := by
    rw [stalled_iff, hT]; exact ⟨hrpm, hns, hl, havg⟩
  rw [if_pos hs, if_neg (by rw [hT]; omega), hT] at h
  have hcase := calcTarget_cases' h
  refine ⟨_, _, h, ?_, ?_, ?_, ?_, ?_, hcase.inv hinv⟩
  · rw [raiseWorld_offset, hm.offset]
  · unfold World.floor
    rw [(hm.raiseFrame indef).fan.getMin, raiseWorld_offset, hm.offset]; omega
  · exact getRpmAvg_setRpmAvg_one indef wm.fan
  · simp
  · simp

/-- The stall branch at the maximum: the cycle ends with `ErrFanStalledAtMaxPwm`. -/
theorem calc_stall_at_max {w : World} (hinv : Inv w) (indef cv now l : Int)
    (hl : w.ctl.lastSet = some l) (hT : computedTarget indef w cv l now = l)
    (hrpm : supports w.fan w.dev .rpmSensor = true) (hns : w.fan.neverStop = true)
    (havg : toInt indef w.fan.getRpmAvg ≤ 0) (hge : w.fan.getMax ≤ l) :
    ∃ w' obs, calculateTargetPwm indef w (.ok cv) now = (w', .err "stalled-at-max", obs) ∧
      Obs.stalledAtMax ∈ obs ∧ w'.ctl.offset = w.ctl.offset := by
  obtain ⟨wm, obs0, hm, ho, h⟩ := calc_forward hinv indef cv now l (lastSetR_of_some hl)
  have hs : stalled indef w (computedTarget indef w cv l now) = true := by
    rw [stalled_iff, hT]; exact ⟨hrpm, hns, hl, havg⟩
  rw [if_pos hs, if_pos (by rw [hT]; omega)] at h
  exact ⟨_, _, h, by simp, hm.offset⟩

/-- not stalled: plain request -/
theorem calc_not_stalled {w : World} (hinv : Inv w) (indef cv now last : Int)
    (hl : lastSetR w = .ok last)
    (hs : stalled indef w (computedTarget indef w cv last now) = false) :
    ∃ w' obs, calculateTargetPwm indef w (.ok cv) now = (w', .ok (computedTarget indef w cv last now), obs) ∧
      w'.ctl.offset = w.ctl.offset := by
  obtain ⟨wm, obs0, hm, ho, h⟩ := calc_forward hinv indef cv now last hl
  rw [hs] at h
  exact ⟨_, _, h, hm.offset⟩

/-! ### one RPM poll of a file/cmd fan -/

theorem ofInt_pos_cases {n : Int} (hn : 1 ≤ n) :
    ofInt n = F64.inf false ∨ ∃ q : ℚ, ofInt n = F64.fin q ∧ 1 ≤ q := by
  have h1 : (1 : ℚ) ≤ fl64 (n : ℚ) := by
    have := fl64_mono (show (1 : ℚ) ≤ (n : ℚ) by exact_mod_cast hn)
    rwa [fl64_one] at this
  unfold ofInt F64.ofRat
  dsimp only
  split
  · left; rfl
  · split
    · next h => exfalso; have : (0 : ℚ) < f64Huge := pow2_pos _; linarith
    · right; exact ⟨_, rfl, h1⟩

/-- averaging a 0 reading into a 0 average gives 0, for every window size ≥ 1 -/
theorem updateAvg_zero_zero {n : Int} (hn : 1 ≤ n) :
    updateSimpleMovingAvg (F64.fin 0) n (F64.fin 0) = F64.fin 0 := by
  have hz : F64.ofRat 0 = F64.fin 0 := ofRat_zero
  unfold updateSimpleMovingAvg
  have hsub : (F64.fin 0 - F64.fin 0 : F64) = F64.fin 0 := by rw [F64.fin_sub_fin, sub_zero, hz]
  rw [hsub]
  rcases ofInt_pos_cases hn with h | ⟨q, h, hq⟩
  · rw [h]
    have : (F64.one / F64.inf false : F64) = F64.fin 0 := rfl
    rw [this, F64.fin_mul_fin, mul_zero, hz, F64.fin_add_fin, add_zero, hz]
  · rw [h]
    have hq0 : q ≠ 0 := by intro h0; rw [h0] at hq; norm_num at hq
    have : (F64.one / F64.fin q : F64) = F64.ofRat (1 / q) := F64.fin_div_fin 1 q hq0
    rw [this]
    have hmul : ∀ x : F64, x ≠ F64.nan → (∀ s, x ≠ F64.inf s) → (x * F64.fin 0 : F64) = F64.fin 0 := by
      intro x h1 h2
      cases x with
      | nan => exact absurd rfl h1
      | inf s => exact absurd rfl (h2 s)
      | fin a => rw [F64.fin_mul_fin, mul_zero, hz]
    have hfin : ∃ c, F64.ofRat (1 / q) = F64.fin c := by
      refine ⟨_, ofRat_fin_of_abs_le ?_⟩
      have h0 : (0 : ℚ) < 1 / q := by positivity
      have h1 : 1 / q ≤ 1 := by rw [div_le_one (by linarith)]; exact hq
      rw [abs_of_pos h0]
      calc 1 / q ≤ 1 := h1
        _ = pow2 0 := pow2_zero.symm
        _ ≤ pow2 1023 := pow2_mono (by norm_num)
    obtain ⟨c, hc⟩ := hfin
    rw [hc, F64.fin_mul_fin, mul_zero, hz, F64.fin_add_fin, add_zero, hz]

/-- A file/cmd fan that reads 0 RPM has average 0 after ONE poll (its "average" is the last reading,
    truncated): the stall test `int(avg) <= 0` is true at the next cycle. -/
theorem measureRpm_filecmd_zero (indef : Int) (w : World) (hk : w.fan.kind ≠ .hwmon)
    (hhas : w.dev.hasRpm = true) (hread : w.dev.rpmRead = .ok) (hrpm : w.dev.rpm = 0)
    (hn : 1 ≤ w.rpmWindow) :
    (measureRpm indef w).fan.getRpmAvg = F64.fin 0 ∧ toInt indef (measureRpm indef w).fan.getRpmAvg ≤ 0 := by
  have hget : fanGetRpm w.fan w.dev = .ok 0 := by
    unfold fanGetRpm; rw [hhas, hread, hrpm]; rfl
  have hf0 : pollFan0 w = { w.fan with rpmInt := 0 } := by
    unfold pollFan0; rw [hget]
    cases hkind : w.fan.kind with
    | hwmon => exact absurd hkind hk
    | file => rfl
    | cmd => simp only [hhas, if_true]
  have hr : pollRpm w = 0 := by unfold pollRpm; rw [hget]
  have hkind0 : (pollFan0 w).kind ≠ .hwmon := by rw [hf0]; exact hk
  have havg0 : (pollFan0 w).getRpmAvg = F64.fin 0 := by
    unfold FanSt.getRpmAvg
    split
    · next h => exact absurd h hkind0
    · rw [hf0]; exact ofInt_zero_fin
  have key : (measureRpm indef w).fan.getRpmAvg = F64.fin 0 := by
    rw [measureRpm_eq]
    show (pollCurve _ _ _).getRpmAvg = _
    rw [pollCurve_rpmAvg, havg0, hr, ofInt_zero_fin, updateAvg_zero_zero hn]
    unfold FanSt.setRpmAvg
    split
    · next h => exact absurd h hkind0
    · unfold FanSt.getRpmAvg; dsimp only
      split
      · next h => exact absurd h hkind0
      · have : toInt indef (F64.fin 0) = 0 := toInt_fin_lt_one indef (le_refl _) (by norm_num)
        rw [this]; exact ofInt_zero_fin
  refine ⟨key, ?_⟩
  rw [key, toInt_fin_lt_one indef (le_refl _) (by norm_num)]

/-! ### RPM polls of a hwmon fan reading 0 -/

/-- one poll of a hwmon fan whose RPM input reads 0: the average is updated with `zeroPoll`, nothing else
    that matters changes -/
theorem measureRpm_hwmon_zero (indef : Int) (w : World) (hk : w.fan.kind = .hwmon)
    (hhas : w.dev.hasRpm = true) (hread : w.dev.rpmRead = .ok) (hrpm : w.dev.rpm = 0) :
    (measureRpm indef w).fan.getRpmAvg = zeroPoll w.rpmWindow w.fan.getRpmAvg := by
  have hget : fanGetRpm w.fan w.dev = .ok 0 := by
    unfold fanGetRpm; rw [hhas, hread, hrpm]; rfl
  have hf0 : pollFan0 w = w.fan := by
    unfold pollFan0; rw [hget, hk]
  have hr : pollRpm w = 0 := by unfold pollRpm; rw [hget]
  rw [measureRpm_eq]
  show (pollCurve _ _ _).getRpmAvg = _
  rw [pollCurve_rpmAvg, hf0, hr]
  unfold FanSt.setRpmAvg
  split
  · unfold FanSt.getRpmAvg; dsimp only; rw [hk]; rfl
  · next h => exact absurd hk h

/-- what `k` polls leave alone -/
theorem pollN_frame (indef : Int) (w : World) (k : ℕ) :
    ((measureRpm indef)^[k] w).ctl = w.ctl ∧ ((measureRpm indef)^[k] w).dev = w.dev ∧
      ((measureRpm indef)^[k] w).rpmWindow = w.rpmWindow ∧ FanSame w.fan ((measureRpm indef)^[k] w).fan := by
  induction k with
  | zero => exact ⟨rfl, rfl, rfl, FanSame.refl _⟩
  | succ k ih =>
    rw [Function.iterate_succ_apply']
    obtain ⟨a, b, c, d⟩ := ih
    exact ⟨by rw [measureRpm_ctl, a], by rw [measureRpm_dev, b], by rw [measureRpm_rpmWindow, c],
      d.trans (measureRpm_fanSame _ _)⟩

theorem pollN_hwmon_zero (indef : Int) (w : World) (hk : w.fan.kind = .hwmon)
    (hhas : w.dev.hasRpm = true) (hread : w.dev.rpmRead = .ok) (hrpm : w.dev.rpm = 0) (k : ℕ) :
    ((measureRpm indef)^[k] w).fan.getRpmAvg = (zeroPoll w.rpmWindow)^[k] w.fan.getRpmAvg := by
  induction k with
  | zero => rfl
  | succ k ih =>
    rw [Function.iterate_succ_apply', Function.iterate_succ_apply']
    obtain ⟨-, b, c, d⟩ := pollN_frame indef w k
    rw [measureRpm_hwmon_zero indef _ (by rw [d.kind, hk]) (by rw [b, hhas]) (by rw [b, hread])
      (by rw [b, hrpm]), c, ih]

/-- polls do not move "the computed target", the stall-test inputs other than the average, or `Inv` -/
theorem pollN_keeps (indef : Int) (w : World) (k : ℕ) :
    (∀ cv l now, computedTarget indef ((measureRpm indef)^[k] w) cv l now = computedTarget indef w cv l now) ∧
    ((measureRpm indef)^[k] w).floor = w.floor ∧
    ((measureRpm indef)^[k] w).fan.getMax = w.fan.getMax ∧
    ((measureRpm indef)^[k] w).fan.neverStop = w.fan.neverStop ∧
    supports ((measureRpm indef)^[k] w).fan ((measureRpm indef)^[k] w).dev .rpmSensor
      = supports w.fan w.dev .rpmSensor ∧
    (Inv w → Inv ((measureRpm indef)^[k] w)) := by
  obtain ⟨a, b, c, d⟩ := pollN_frame indef w k
  refine ⟨?_, ?_, d.getMax, d.neverStop, ?_, ?_⟩
  · intro cv l now; unfold computedTarget; rw [a, d.getMin, d.getMax]
  · unfold World.floor; rw [a, d.getMin]
  · unfold supports; rw [b]
  · intro hinv; exact hinv.of_same d (by rw [a]) (by rw [a]) (by rw [a])

end Fan2go
