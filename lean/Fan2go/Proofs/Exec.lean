/-
  Lemmas about the models of `Model/Perm.lean` and `Model/Exec.lean`:
  bit facts for the permission test, and the algebra of `strings.Trim(s, "\n")`.
  Core Lean only.
-/
import Fan2go.Model.Exec
namespace Fan2go

/-! ## permission bits -/

/-- `m & 2^i == 0` ⇔ bit `i` of `m` is clear – for every natural `m`. -/
theorem and_two_pow_eq_zero (m i : Nat) : m &&& 2 ^ i = 0 ↔ m.testBit i = false := by
  constructor
  · intro h
    have := congrArg (fun x => x.testBit i) h
    simpa [Nat.testBit_and, Nat.testBit_two_pow_self] using this
  · intro h
    apply Nat.eq_of_testBit_eq
    intro j
    rw [Nat.testBit_and, Nat.testBit_two_pow, Nat.zero_testBit]
    by_cases hij : i = j
    · subst hij; simp [h]
    · simp [hij]

theorem and_020_eq_zero (m : Nat) : m &&& 0o020 = 0 ↔ m.testBit 4 = false :=
  and_two_pow_eq_zero m 4

theorem and_002_eq_zero (m : Nat) : m &&& 0o002 = 0 ↔ m.testBit 1 = false :=
  and_two_pow_eq_zero m 1

/-- Only the low 9 bits matter: masks below 512 see `m` and `m % 512` alike. -/
theorem and_mod_512 (m k : Nat) (hk : k < 512) : (m % 512) &&& k = m &&& k := by
  apply Nat.eq_of_testBit_eq
  intro i
  rw [Nat.testBit_and, Nat.testBit_and]
  by_cases hi : i < 9
  · have : (m % 2 ^ 9).testBit i = m.testBit i := by
      rw [Nat.testBit_mod_two_pow]; simp [hi]
    simpa using congrArg (· && k.testBit i) this
  · have hk' : k.testBit i = false := by
      apply Nat.testBit_lt_two_pow
      exact Nat.lt_of_lt_of_le hk (by
        have : 2 ^ 9 ≤ 2 ^ i := Nat.pow_le_pow_right (by decide) (Nat.le_of_not_lt hi)
        simpa using this)
    simp [hk']

/-! ## shape of the results -/

/-- on an existing file the check never panics: it passes or returns an error value -/
theorem checkPerm_ok_cases (s : Stat) :
    checkPerm .resolved (.ok s) = .ok (.ok ()) ∨ ∃ e, checkPerm .resolved (.ok s) = .ok (.error e) := by
  simp only [checkPerm]
  split
  · exact Or.inr ⟨_, rfl⟩
  · split
    · exact Or.inr ⟨_, rfl⟩
    · split
      · exact Or.inr ⟨_, rfl⟩
      · exact Or.inl rfl

/-- once the check has passed, `cmd.Output()` is always reached -/
theorem runCmd_attempted (beh : Beh) (t : Nat) : (runCmd beh t).attempted = true := by
  unfold runCmd
  repeat (first | rfl | split)

/-! ## `strings.Trim(s, "\n")` -/

theorem dropNl_nil : dropNl [] = [] := rfl

theorem dropNl_cons_ne {a : Char} (h : a ≠ '\n') (t : List Char) : dropNl (a :: t) = a :: t := by
  simp [dropNl, h]

theorem dropNl_cons_nl (t : List Char) : dropNl ('\n' :: t) = dropNl t := by
  simp [dropNl]

/-- leading newlines disappear -/
theorem dropNl_append_nl {pre : List Char} (hpre : ∀ c ∈ pre, c = '\n') (x : List Char) :
    dropNl (pre ++ x) = dropNl x := by
  induction pre with
  | nil => rfl
  | cons a t ih =>
    have ha : a = '\n' := hpre a (List.mem_cons_self)
    subst ha
    rw [List.cons_append, dropNl_cons_nl]
    exact ih (fun c hc => hpre c (List.mem_cons_of_mem _ hc))

theorem dropNl_all_nl {pre : List Char} (hpre : ∀ c ∈ pre, c = '\n') : dropNl pre = [] := by
  have := dropNl_append_nl hpre []
  simpa [dropNl_nil] using this

/-- a list that does not start with a newline is left alone -/
theorem dropNl_of_head {l : List Char} (h : l.head? ≠ some '\n') : dropNl l = l := by
  cases l with
  | nil => rfl
  | cons a t =>
    apply dropNl_cons_ne
    intro ha; apply h; simp [ha]

theorem dropNl_head (l : List Char) : (dropNl l).head? ≠ some '\n' := by
  induction l with
  | nil => simp [dropNl]
  | cons a t ih =>
    by_cases ha : a = '\n'
    · subst ha; rw [dropNl_cons_nl]; exact ih
    · rw [dropNl_cons_ne ha]; simpa using ha

/-- `dropNl l` is a suffix of `l`, the dropped prefix consists of newlines -/
theorem dropNl_split (l : List Char) : ∃ pre, (∀ c ∈ pre, c = '\n') ∧ l = pre ++ dropNl l := by
  induction l with
  | nil => exact ⟨[], by simp, rfl⟩
  | cons a t ih =>
    by_cases ha : a = '\n'
    · subst ha
      obtain ⟨pre, hp, he⟩ := ih
      refine ⟨'\n' :: pre, ?_, ?_⟩
      · intro c hc
        rcases List.mem_cons.mp hc with h | h
        · exact h
        · exact hp c h
      · rw [dropNl_cons_nl, List.cons_append, ← he]
    · exact ⟨[], by simp, by rw [dropNl_cons_ne ha]; rfl⟩

/-- **Uniqueness / full specification of Trim**: if `l = pre ++ m ++ post` where `pre` and `post`
    consist of newlines only and `m` neither starts nor ends with a newline, then `Trim l = m`. -/
theorem trimNlChars_unique {pre m post : List Char}
    (hpre : ∀ c ∈ pre, c = '\n') (hpost : ∀ c ∈ post, c = '\n')
    (hhead : m.head? ≠ some '\n') (hlast : m.getLast? ≠ some '\n') :
    trimNlChars (pre ++ m ++ post) = m := by
  unfold trimNlChars
  have hrev : (pre ++ m ++ post).reverse = post.reverse ++ (m.reverse ++ pre.reverse) := by
    simp [List.reverse_append, List.append_assoc]
  have hpost' : ∀ c ∈ post.reverse, c = '\n' := fun c hc => hpost c (List.mem_reverse.mp hc)
  have hpre' : ∀ c ∈ pre.reverse, c = '\n' := fun c hc => hpre c (List.mem_reverse.mp hc)
  rw [hrev, dropNl_append_nl hpost']
  cases hm : m.reverse with
  | nil =>
    have : m = [] := by simpa using hm
    subst this
    simp [dropNl_all_nl hpre', dropNl_nil]
  | cons a t =>
    have ha : a ≠ '\n' := by
      intro h
      apply hlast
      have : m.getLast? = some a := by
        rw [List.getLast?_eq_head?_reverse, hm]; rfl
      rw [this, h]
    rw [List.cons_append, dropNl_cons_ne ha, ← List.cons_append, ← hm]
    simp only [List.reverse_append, List.reverse_reverse]
    rw [dropNl_append_nl hpre]
    exact dropNl_of_head hhead

/-- a text that neither starts nor ends with a newline is returned unchanged (inner newlines survive) -/
theorem trimNlChars_fixed {l : List Char} (hhead : l.head? ≠ some '\n') (hlast : l.getLast? ≠ some '\n') :
    trimNlChars l = l := by
  have := trimNlChars_unique (pre := []) (post := []) (m := l) (by simp) (by simp) hhead hlast
  simpa using this

theorem trimNlChars_head (l : List Char) : (trimNlChars l).head? ≠ some '\n' := dropNl_head _

theorem trimNlChars_last (l : List Char) : (trimNlChars l).getLast? ≠ some '\n' := by
  unfold trimNlChars
  -- x := strip-trailing(l) does not end with '\n'; `dropNl x` is a suffix of x
  have hx : ((dropNl l.reverse).reverse).getLast? ≠ some '\n' := by
    rw [List.getLast?_reverse]; exact dropNl_head _
  generalize (dropNl l.reverse).reverse = x at hx
  obtain ⟨pre, _, he⟩ := dropNl_split x
  intro h
  apply hx
  rw [he, List.getLast?_append, h]
  rfl

/-- **Decomposition**: the input is `newlines ++ Trim input ++ newlines`. -/
theorem trimNlChars_split (l : List Char) :
    ∃ pre post, (∀ c ∈ pre, c = '\n') ∧ (∀ c ∈ post, c = '\n') ∧ l = pre ++ trimNlChars l ++ post := by
  obtain ⟨q, hq, he⟩ := dropNl_split l.reverse
  obtain ⟨pre, hp, he2⟩ := dropNl_split (dropNl l.reverse).reverse
  refine ⟨pre, q.reverse, hp, fun c hc => hq c (List.mem_reverse.mp hc), ?_⟩
  unfold trimNlChars
  rw [← he2]
  have := congrArg List.reverse he
  simpa [List.reverse_append] using this

theorem trimNlChars_idem (l : List Char) : trimNlChars (trimNlChars l) = trimNlChars l :=
  trimNlChars_fixed (trimNlChars_head l) (trimNlChars_last l)

/-- nothing but newlines ↦ empty -/
theorem trimNlChars_all_nl {l : List Char} (h : ∀ c ∈ l, c = '\n') : trimNlChars l = [] := by
  have := trimNlChars_unique (pre := l) (post := []) (m := []) h (by simp) (by simp) (by simp)
  simpa using this

/-! string level -/

theorem trimNl_toList (s : String) : (trimNl s).toList = trimNlChars s.toList := by
  simp [trimNl]

theorem trimNl_idem (s : String) : trimNl (trimNl s) = trimNl s := by
  unfold trimNl
  simp [trimNlChars_idem]

end Fan2go
