/-
  Lemmas about `restorePwmEnabled`, `setPwmEnabled`, `fanSetPwm` (model of controller.go:389-409 and
  hwmon.go:166-180) used by Props/C03.lean.  Core Lean only.
-/
import Fan2go.Spec.Controller
namespace Fan2go

/-! ### the primitive writes -/

theorem fanSetPwm_applied {d : Dev} (h : d.pwmWrite = .applied) (v : Int) :
    fanSetPwm d v = ({ d with pwm := d.resp.apply v }, .ok ()) := by
  simp [fanSetPwm, h]

theorem fanSetPwm_ignored {d : Dev} (h : d.pwmWrite = .ignored) (v : Int) :
    fanSetPwm d v = (d, .ok ()) := by
  simp [fanSetPwm, h]

theorem fanSetPwm_refused {d : Dev} (h : d.pwmWrite = .refused) (v : Int) :
    fanSetPwm d v = (d, .err "write") := by
  simp [fanSetPwm, h]

/-- A PWM write touches nothing but the PWM register. -/
theorem fanSetPwm_frame (d : Dev) (v : Int) :
    (fanSetPwm d v).1.mode = d.mode ∧ (fanSetPwm d v).1.resp = d.resp ∧
    (fanSetPwm d v).1.pwmRead = d.pwmRead ∧ (fanSetPwm d v).1.pwmWrite = d.pwmWrite ∧
    (fanSetPwm d v).1.modeRead = d.modeRead ∧ (fanSetPwm d v).1.modeWrite = d.modeWrite ∧
    (fanSetPwm d v).1.rpmRead = d.rpmRead ∧ (fanSetPwm d v).1.hasMode = d.hasMode ∧
    (fanSetPwm d v).1.hasRpm = d.hasRpm ∧ (fanSetPwm d v).1.rpm = d.rpm := by
  unfold fanSetPwm
  cases h : d.pwmWrite <;> simp [h]

/-- A mode write leaves the device as it is or changes exactly the mode register. -/
theorem setPwmEnabled_dev (f : FanSt) (d : Dev) (v : Int) :
    (setPwmEnabled f d v).1 = d ∨ (setPwmEnabled f d v).1 = { d with mode := v } := by
  unfold setPwmEnabled
  cases f.kind <;> cases d.modeWrite <;> simp [apply_ite Prod.fst]

/-- A mode write touches nothing but the mode register. -/
theorem setPwmEnabled_frame (f : FanSt) (d : Dev) (v : Int) :
    (setPwmEnabled f d v).1.pwm = d.pwm ∧ (setPwmEnabled f d v).1.resp = d.resp ∧
    (setPwmEnabled f d v).1.pwmRead = d.pwmRead ∧ (setPwmEnabled f d v).1.pwmWrite = d.pwmWrite ∧
    (setPwmEnabled f d v).1.modeRead = d.modeRead ∧ (setPwmEnabled f d v).1.modeWrite = d.modeWrite ∧
    (setPwmEnabled f d v).1.rpmRead = d.rpmRead ∧ (setPwmEnabled f d v).1.hasMode = d.hasMode ∧
    (setPwmEnabled f d v).1.hasRpm = d.hasRpm ∧ (setPwmEnabled f d v).1.rpm = d.rpm := by
  rcases setPwmEnabled_dev f d v with h | h <;> rw [h] <;> simp

/-- `SetPwmEnabled` returns nil only if the register shows the value, or the read-back is blind
    (permission error: "continuing assuming it worked"), or the read-back failed otherwise but the
    value returned beside the error happens to equal the requested one. -/
theorem setPwmEnabled_ok {f : FanSt} {d d' : Dev} {v : Int} {o : List Obs}
    (hk : f.kind = .hwmon) (h : setPwmEnabled f d v = (d', .ok (), o)) :
    (d'.modeRead = .ok ∧ d'.mode = v) ∨ d'.modeRead = .errPerm ∨ d'.modeRead = .errOther v := by
  unfold setPwmEnabled at h
  simp only [hk] at h
  cases hw : d.modeWrite <;> cases hr : d.modeRead <;>
    simp [hw, hr, fanGetPwmEnabled, hk] at h
  all_goals (try (split at h <;> simp at h))
  all_goals (obtain ⟨h, -⟩ := h; subst h; simp_all)

/-- With an applied mode write and a working read-back, `SetPwmEnabled` succeeds and the register
    holds the value. -/
theorem setPwmEnabled_applied {f : FanSt} {d : Dev} (v : Int)
    (hk : f.kind = .hwmon) (hw : d.modeWrite = .applied) (hr : d.modeRead = .ok) :
    setPwmEnabled f d v = ({ d with mode := v }, .ok (), [.wroteMode v true]) := by
  simp [setPwmEnabled, hk, hw, hr, fanGetPwmEnabled]

/-! ### the two exits of `restorePwmEnabled` -/

/-- `restorePwmEnabled` either hands the fan back (`SetPwmEnabled(original)` returned nil; no PWM 255
    write follows) or falls through to the PWM 255 write. -/
theorem restore_cases (w : World) :
    (∃ d2 o, supports w.fan (fanSetPwm w.dev w.ctl.origPwm).1 .controlMode = true ∧ w.ctl.origMode ≠ 1 ∧
        setPwmEnabled w.fan (fanSetPwm w.dev w.ctl.origPwm).1 w.ctl.origMode = (d2, .ok (), o) ∧
        (restorePwmEnabled w).1 = { w with dev := d2 } ∧
        (∀ b, Obs.wrotePwm 255 b ∈ (restorePwmEnabled w).2 → w.ctl.origPwm = 255))
    ∨ (∃ d2, (d2 = (fanSetPwm w.dev w.ctl.origPwm).1 ∨
              d2 = (setPwmEnabled w.fan (fanSetPwm w.dev w.ctl.origPwm).1 w.ctl.origMode).1) ∧
        (restorePwmEnabled w).1 = { w with dev := (fanSetPwm d2 255).1 }) := by
  unfold restorePwmEnabled
  simp only []
  by_cases htry : (supports w.fan (fanSetPwm w.dev w.ctl.origPwm).1 .controlMode && w.ctl.origMode != 1) = true
  · simp only [htry, if_true]
    rcases hsp : setPwmEnabled w.fan (fanSetPwm w.dev w.ctl.origPwm).1 w.ctl.origMode with ⟨d2, r, o⟩
    cases r with
    | ok u =>
      left
      refine ⟨d2, o, ?_, ?_, rfl, rfl, ?_⟩
      · simp at htry; exact htry.1
      · simp at htry; exact htry.2
      · intro b hb
        simp at hb
        rcases hb with hb | hb
        · exact hb.1.symm
        · exfalso
          have : o = [] ∨ o = [.wroteMode w.ctl.origMode true] ∨ o = [.wroteMode w.ctl.origMode false] := by
            have := congrArg (fun x => x.2.2) hsp
            simp only at this
            rw [← this]
            unfold setPwmEnabled
            cases w.fan.kind <;> cases (fanSetPwm w.dev w.ctl.origPwm).1.modeWrite <;>
              simp [apply_ite Prod.snd]
          rcases this with h | h | h <;> simp [h] at hb
    | err e => right; exact ⟨d2, .inr rfl, rfl⟩
    | panic e => right; exact ⟨d2, .inr rfl, rfl⟩
  · simp only [htry]
    right
    exact ⟨_, .inl rfl, rfl⟩

/-- The fall-through exit forces full speed when the PWM write lands. -/
theorem fanSetPwm_255 {d : Dev} (hpw : d.pwmWrite = .applied) (h255 : d.resp.apply 255 = 255) :
    (fanSetPwm d 255).1.pwm = 255 := by
  rw [fanSetPwm_applied hpw]; exact h255

/-- C03 (i), main lemma. -/
theorem restore_restored (w : World) (hpw : w.dev.pwmWrite = .applied)
    (h255 : w.dev.resp.apply 255 = 255)
    (hmr : w.dev.modeRead = .ok ∨ ∃ v, w.dev.modeRead = .errOther v ∧ v ≠ w.ctl.origMode) :
    Restored (restorePwmEnabled w).1 := by
  have f1 := fanSetPwm_frame w.dev w.ctl.origPwm
  rcases restore_cases w with ⟨d2, o, hsup, hne, hsp, hw, -⟩ | ⟨d2, hd2, hw⟩
  · left
    have hk : w.fan.kind = .hwmon := by
      simp [supports] at hsup; exact hsup.1
    have f2 := setPwmEnabled_frame w.fan (fanSetPwm w.dev w.ctl.origPwm).1 w.ctl.origMode
    rw [hsp] at f2
    simp only at f2
    rw [hw]
    refine ⟨?_, hne, ?_⟩
    · simp [supports] at hsup ⊢
      exact ⟨hk, by rw [f2.2.2.2.2.2.2.2.1]; exact hsup.2⟩
    · have hmr2 : d2.modeRead = w.dev.modeRead := by rw [f2.2.2.2.2.1, f1.2.2.2.2.1]
      rcases setPwmEnabled_ok hk hsp with ⟨-, h⟩ | h | h
      · exact h
      · rw [hmr2] at h; rcases hmr with h' | ⟨v, h', -⟩ <;> simp [h'] at h
      · rw [hmr2] at h; rcases hmr with h' | ⟨v, h', hv⟩ <;> simp [h'] at h
        exact absurd h hv
  · right
    rw [hw]
    have hd : d2.pwmWrite = .applied ∧ d2.resp = w.dev.resp := by
      rcases hd2 with rfl | rfl
      · exact ⟨by rw [f1.2.2.2.1]; exact hpw, f1.2.1⟩
      · have f2 := setPwmEnabled_frame w.fan (fanSetPwm w.dev w.ctl.origPwm).1 w.ctl.origMode
        exact ⟨by rw [f2.2.2.2.1, f1.2.2.2.1]; exact hpw, by rw [f2.2.1, f1.2.1]⟩
    exact fanSetPwm_255 hd.1 (by rw [hd.2]; exact h255)

/-- C03 (i): with a cooperative driver the fan is handed back in its original mode, and no
    PWM-255 write is made (other than the original PWM itself being 255). -/
theorem restore_original_mode (w : World) (hk : w.fan.kind = .hwmon) (hm : w.dev.hasMode = true)
    (hne : w.ctl.origMode ≠ 1) (hmw : w.dev.modeWrite = .applied) (hmr : w.dev.modeRead = .ok) :
    (restorePwmEnabled w).1.dev.mode = w.ctl.origMode ∧
    (restorePwmEnabled w).1.dev.pwm = (fanSetPwm w.dev w.ctl.origPwm).1.pwm ∧
    (∀ b, Obs.wrotePwm 255 b ∈ (restorePwmEnabled w).2 → w.ctl.origPwm = 255) := by
  have f1 := fanSetPwm_frame w.dev w.ctl.origPwm
  have hsp := setPwmEnabled_applied (f := w.fan) (d := (fanSetPwm w.dev w.ctl.origPwm).1) w.ctl.origMode hk
    (by rw [f1.2.2.2.2.2.1]; exact hmw) (by rw [f1.2.2.2.2.1]; exact hmr)
  have hsup : supports w.fan (fanSetPwm w.dev w.ctl.origPwm).1 .controlMode = true := by
    simp [supports, hk, f1.2.2.2.2.2.2.2.1, hm]
  simp [restorePwmEnabled, hsup, hsp, hne]
  exact fun h => h.symm

end Fan2go
