/-
  Invariants of the daemon life-cycle model (Model/Lifecycle.lean) used by Props/C03.lean part (ii).
  Core Lean only. Every statement is for all numbers of controllers and all schedules.
-/
import Fan2go.Model.Lifecycle
namespace Fan2go.Lifecycle

/-! ### one controller -/

/-- Per-controller invariant: nothing is written before initialisation / the first tick; a controller
    that has left the control loop has restored its fan; a controller whose `Run` has returned has
    restored its fan if regulation had begun, and also if it was only touched by the initialisation
    sequence — except on the `postInitError` return. -/
def cinv (c : CState) : Bool :=
  match c.phase with
  | .readOrig | .startupWait | .loadOrInit => !c.touched && !c.regulated && !c.restored
  | .initializing | .postInit => !c.regulated && !c.restored
  | .ticking | .restoring => c.regulated && !c.restored
  | .joining => c.regulated && c.restored
  | .exited => (!c.regulated || c.restored) &&
      (!c.touched || c.restored || c.reason == some .postInitError)

theorem cstep_cinv {b : Bool} {c c' : CState} {a : CAct} {ev : CEv}
    (h : cinv c = true) (hs : cstep b c a = some (c', ev)) : cinv c' = true := by
  rcases c with ⟨ph, hr, t, rg, rs, rn⟩
  cases a <;> cases ph <;> simp [cstep] at hs
  all_goals (try (obtain ⟨rfl, rfl⟩ := hs)) <;> (try (obtain ⟨-, rfl, rfl⟩ := hs))
  all_goals simp_all [cinv]

/-- A controller's `Run` returns an error only through the three error exits, and returns at all only
    into phase `exited`. -/
theorem cstep_returned {b : Bool} {c c' : CState} {a : CAct} {e : Bool}
    (hs : cstep b c a = some (c', .returned e)) : c'.phase = .exited := by
  rcases c with ⟨ph, hr, t, rg, rs, rn⟩
  cases a <;> cases ph <;> simp [cstep] at hs
  all_goals (try (obtain ⟨rfl, -⟩ := hs)) <;> (try (obtain ⟨-, rfl, -⟩ := hs))
  all_goals rfl

/-! ### the daemon -/

theorem noteReturn_eq (s : LState) (e : Bool) :
    noteReturn s e = { s with firstReturn := some (s.firstReturn.getD e) } := by
  unfold noteReturn
  cases h : s.firstReturn <;> simp
  rcases s with ⟨_, _, _, _, _, fr, _, _⟩
  simp at h; subst h; rfl

/-- Invariant of the fixed semantics. -/
structure GInv (s : LState) : Prop where
  ctls : ∀ c ∈ s.ctls, cinv c = true
  open_ : s.chanClosed = false
  alive : s.proc ≠ .panicked
  exited : ∀ code, s.proc = .exited code → ∀ c ∈ s.ctls, c.phase = .exited
  buf : s.chanBuf = 0 ∨ s.chanBuf = 1
  sigRet : s.sigReturned = true → s.firstReturn.isSome = true
  intr : s.interrupted = true → s.cancelled = true

theorem linit_ginv (rpms : List Bool) : GInv (linit rpms) := by
  refine ⟨?_, rfl, by simp [linit], by simp [linit], .inl rfl, by simp [linit], by simp [linit]⟩
  intro c hc
  unfold linit at hc
  simp only [List.mem_map] at hc
  obtain ⟨b, -, rfl⟩ := hc
  rfl

theorem lstep_ginv {s : LState} (h : GInv s) (ch : Choice) : GInv (lstep .fixed s ch) := by
  obtain ⟨h1, h2, h3, h4, h5, h6, h7⟩ := h
  rcases s with ⟨ctls, canc, buf, closed, sret, fr, intr, proc⟩
  simp only at h1 h2 h3 h4 h5 h6 h7
  subst h2
  cases proc with
  | exited code => exact ⟨h1, rfl, h3, h4, h5, h6, h7⟩
  | panicked => exact absurd rfl h3
  | running =>
  cases ch with
  | signal =>
    simp only [lstep, Bool.false_eq_true, if_false]
    split
    · exact ⟨h1, rfl, h3, h4, .inr rfl, h6, h7⟩
    · exact ⟨h1, rfl, h3, h4, h5, h6, h7⟩
  | sigActor =>
    simp only [lstep, noteReturn_eq]
    split
    · exact ⟨h1, rfl, h3, h4, h5, h6, h7⟩
    · split
      · exact ⟨h1, rfl, h3, h4, .inl rfl, fun _ => rfl, h7⟩
      · split
        · exact ⟨h1, rfl, h3, h4, h5, fun _ => rfl, h7⟩
        · exact ⟨h1, rfl, h3, h4, h5, h6, h7⟩
  | interrupt =>
    simp only [lstep]
    split
    · exact ⟨h1, rfl, h3, h4, h5, h6, h7⟩
    · split
      · exact ⟨h1, rfl, h3, h4, h5, h6, h7⟩
      · exact ⟨h1, rfl, h3, h4, h5, h6, fun _ => rfl⟩
  | otherError =>
    simp only [lstep, noteReturn_eq]
    exact ⟨h1, rfl, h3, h4, h5, fun _ => rfl, h7⟩
  | ctl i a =>
    simp only [lstep]
    cases hi : ctls[i]? with
    | none => exact ⟨h1, rfl, h3, h4, h5, h6, h7⟩
    | some c =>
      simp only []
      have hc : c ∈ ctls := List.mem_of_getElem? hi
      cases hcs : cstep canc c a with
      | none => exact ⟨h1, rfl, h3, h4, h5, h6, h7⟩
      | some r =>
        obtain ⟨c', ev⟩ := r
        simp only [noteReturn_eq]
        have hc' := cstep_cinv (h1 c hc) hcs
        have hset : ∀ x ∈ ctls.set i c', cinv x = true := by
          intro x hx
          rcases List.mem_or_eq_of_mem_set hx with hx | rfl
          · exact h1 x hx
          · exact hc'
        cases ev with
        | quiet => exact ⟨hset, rfl, h3, (by intro code hh; cases hh), h5, h6, h7⟩
        | returned e =>
          cases e
          · exact ⟨hset, rfl, h3, (by intro code hh; cases hh), h5, fun _ => rfl, h7⟩
          · exact ⟨hset, rfl, h3, (by intro code hh; cases hh), h5, fun _ => rfl, h7⟩
  | exit =>
    simp only [lstep]
    split
    · rename_i hcond
      simp only [Bool.and_eq_true, List.all_eq_true, beq_iff_eq] at hcond
      exact ⟨h1, rfl, by simp, fun _ _ => hcond.2, h5, h6, h7⟩
    · exact ⟨h1, rfl, h3, h4, h5, h6, h7⟩

theorem lrun_ginv : ∀ (sched : List Choice) {s : LState}, GInv s → GInv (lrun .fixed s sched)
  | [], _, h => h
  | ch :: rest, _, h => lrun_ginv rest (lstep_ginv h ch)

/-! ### progress -/

/-- Under the fixed semantics an enabled controller move changes that controller and at most the
    group's `firstReturn`; nothing else. -/
theorem lstep_ctl_fixed {s : LState} {i : Nat} {c c' : CState} {a : CAct} {ev : CEv}
    (hp : s.proc = .running) (hi : s.ctls[i]? = some c)
    (hcs : cstep s.cancelled c a = some (c', ev)) :
    ∃ fr, lstep .fixed s (.ctl i a) = { s with ctls := s.ctls.set i c', firstReturn := fr } ∧
      (s.firstReturn.isSome = true → fr.isSome = true) := by
  rcases s with ⟨ctls, canc, buf, closed, sret, fr, intr, proc⟩
  simp only at hp hi hcs
  subst hp
  simp only [lstep, hi, hcs, noteReturn_eq]
  cases ev with
  | quiet => exact ⟨fr, rfl, id⟩
  | returned e => cases e <;> exact ⟨_, rfl, fun _ => rfl⟩

theorem getElem?_set_self' {l : List CState} {i : Nat} {c c' : CState} (hi : l[i]? = some c) :
    (l.set i c')[i]? = some c' := by
  have : i < l.length := by
    rcases Nat.lt_or_ge i l.length with h | h
    · exact h
    · rw [List.getElem?_eq_none h] at hi; cases hi
  simp [this]

/-- Enabledness, `ticking`: once `ctx` is cancelled the control loop can take the `ctx.Done()` case. -/
theorem progress_ticking {s : LState} {i : Nat} {c : CState} (hp : s.proc = .running)
    (hcan : s.cancelled = true) (hi : s.ctls[i]? = some c) (hph : c.phase = .ticking) :
    (lstep .fixed s (.ctl i .seeCancel)).ctls[i]? = some { c with phase := .restoring } ∧
    (lstep .fixed s (.ctl i .seeCancel)).proc = .running ∧
    (lstep .fixed s (.ctl i .seeCancel)).cancelled = true := by
  have hcs : cstep s.cancelled c .seeCancel = some ({ c with phase := .restoring }, .quiet) := by
    simp [cstep, hph, hcan]
  obtain ⟨fr, h, -⟩ := lstep_ctl_fixed hp hi hcs
  rw [h]
  exact ⟨getElem?_set_self' hi, hp, hcan⟩

/-- Enabledness, `restoring`: `restorePwmEnabled` is always enabled (it does not wait for anything). -/
theorem progress_restoring {s : LState} {i : Nat} {c : CState} (hp : s.proc = .running)
    (hi : s.ctls[i]? = some c) (hph : c.phase = .restoring) :
    (lstep .fixed s (.ctl i .advance)).ctls[i]? = some { c with phase := .joining, restored := true } ∧
    (lstep .fixed s (.ctl i .advance)).proc = .running ∧
    (lstep .fixed s (.ctl i .advance)).cancelled = s.cancelled := by
  have hcs : cstep s.cancelled c .advance = some ({ c with phase := .joining, restored := true }, .quiet) := by
    simp [cstep, hph]
  obtain ⟨fr, h, -⟩ := lstep_ctl_fixed hp hi hcs
  rw [h]
  exact ⟨getElem?_set_self' hi, hp, rfl⟩

/-- Enabledness, `joining`: once `ctx` is cancelled (or without RPM monitor) `Run` returns nil. -/
theorem progress_joining {s : LState} {i : Nat} {c : CState} (hp : s.proc = .running)
    (hcan : s.cancelled = true ∨ c.hasRpm = false) (hi : s.ctls[i]? = some c) (hph : c.phase = .joining) :
    (lstep .fixed s (.ctl i .advance)).ctls[i]? = some { c with phase := .exited, reason := some .done } ∧
    (lstep .fixed s (.ctl i .advance)).proc = .running := by
  have hcs : cstep s.cancelled c .advance =
      some ({ c with phase := .exited, reason := some .done }, .returned false) := by
    rcases hcan with h | h <;> simp [cstep, hph, h]
  obtain ⟨fr, h, -⟩ := lstep_ctl_fixed hp hi hcs
  rw [h]
  exact ⟨getElem?_set_self' hi, hp⟩

/-- distance of a phase from `exited` along the shutdown path -/
def rank : Phase → Nat
  | .exited => 0 | .joining => 1 | .restoring => 2 | .ticking => 3
  | .postInit => 4 | .initializing => 5 | .loadOrInit => 4 | .startupWait => 5 | .readOrig => 6

def mu : List CState → Nat
  | [] => 0
  | c :: cs => rank c.phase + mu cs

theorem cstep_progress (c : CState) (h : c.phase ≠ .exited) :
    ∃ a c' ev, cstep true c a = some (c', ev) ∧ rank c'.phase < rank c.phase := by
  rcases c with ⟨ph, hr, t, rg, rs, rn⟩
  cases ph
  case exited => exact absurd rfl h
  case ticking => exact ⟨.seeCancel, _, _, rfl, by simp [rank]⟩
  all_goals exact ⟨.advance, _, _, rfl, by simp [rank]⟩

theorem mu_set : ∀ (l : List CState) (i : Nat) (c c' : CState), l[i]? = some c →
    mu (l.set i c') + rank c.phase = mu l + rank c'.phase
  | [], i, c, c', h => by simp at h
  | x :: xs, 0, c, c', h => by
    simp at h; subst h
    simp [mu]; omega
  | x :: xs, i + 1, c, c', h => by
    simp at h
    have := mu_set xs i c c' h
    simp [mu]; omega

theorem mu_zero : ∀ (l : List CState), mu l = 0 → ∀ c ∈ l, c.phase = .exited
  | [], _, c, hc => by simp at hc
  | x :: xs, h, c, hc => by
    simp [mu] at h
    rcases List.mem_cons.1 hc with rfl | hc
    · rcases c with ⟨ph, _, _, _, _, _⟩
      cases ph <;> simp [rank] at h ⊢
    · exact mu_zero xs h.2 c hc

theorem mu_pos : ∀ (l : List CState), 0 < mu l →
    ∃ (i : Nat) (c : CState), l[i]? = some c ∧ c.phase ≠ Phase.exited
  | [], h => by simp [mu] at h
  | x :: xs, h => by
    by_cases hx : x.phase = .exited
    · have : 0 < mu xs := by simp [mu, hx, rank] at h; exact h
      obtain ⟨i, c, hi, hc⟩ := mu_pos xs this
      exact ⟨i + 1, c, by simpa using hi, hc⟩
    · exact ⟨0, x, rfl, hx⟩

/-- the shutdown has been triggered and every interrupt function has run -/
structure Ready (s : LState) : Prop where
  running : s.proc = .running
  cancelled : s.cancelled = true
  interrupted : s.interrupted = true
  sigReturned : s.sigReturned = true

/-- From a state in which shutdown has been triggered there is a schedule on which the process exits. -/
theorem ready_can_exit : ∀ (k : Nat) (s : LState), mu s.ctls ≤ k → Ready s →
    ∃ sched code, (lrun .fixed s sched).proc = .exited code
  | 0, s, hk, hr => by
    have hall := mu_zero s.ctls (by omega)
    refine ⟨[.exit], if s.firstReturn = some true then 1 else 0, ?_⟩
    have : s.ctls.all (fun c => c.phase == .exited) = true := by
      simp only [List.all_eq_true, beq_iff_eq]; exact hall
    simp [lrun, lstep, hr.running, hr.interrupted, hr.sigReturned, this]
  | k + 1, s, hk, hr => by
    by_cases h0 : mu s.ctls = 0
    · exact ready_can_exit k s (by omega) hr
    · obtain ⟨i, c, hi, hc⟩ := mu_pos s.ctls (by omega)
      obtain ⟨a, c', ev, hcs, hlt⟩ := cstep_progress c hc
      have hcs' : cstep s.cancelled c a = some (c', ev) := by rw [hr.cancelled]; exact hcs
      obtain ⟨fr, hstep, -⟩ := lstep_ctl_fixed hr.running hi hcs'
      have hmu := mu_set s.ctls i c c' hi
      have hr' : Ready (lstep .fixed s (.ctl i a)) := by
        rw [hstep]; exact ⟨hr.running, hr.cancelled, hr.interrupted, hr.sigReturned⟩
      have hk' : mu (lstep .fixed s (.ctl i a)).ctls ≤ k := by
        rw [hstep]; simp only; omega
      obtain ⟨sched, code, hfin⟩ := ready_can_exit k _ hk' hr'
      exact ⟨.ctl i a :: sched, code, hfin⟩

/-- One signal is enough to trigger the shutdown from any reachable running state. -/
theorem signal_ready {s : LState} (h : GInv s) (hp : s.proc = .running) :
    Ready (lrun .fixed s [.signal, .sigActor, .interrupt]) ∧
    (lrun .fixed s [.signal, .sigActor, .interrupt]).ctls = s.ctls := by
  obtain ⟨h1, h2, h3, h4, h5, h6, h7⟩ := h
  rcases s with ⟨ctls, canc, buf, closed, sret, fr, intr, proc⟩
  simp only at h1 h2 h3 h4 h5 h6 h7 hp
  subst h2 hp
  rcases h5 with rfl | rfl <;> cases sret <;> cases fr <;> cases intr <;> cases canc <;>
    simp_all [lrun, lstep, noteReturn_eq] <;> constructor <;> rfl

theorem lrun_append (sem : Sem) : ∀ (a b : List Choice) (s : LState),
    lrun sem s (a ++ b) = lrun sem (lrun sem s a) b
  | [], _, _ => rfl
  | x :: a, b, s => by simp [lrun, lrun_append sem a b]

end Fan2go.Lifecycle
