/-
  Invariants of the daemon life-cycle model (Model/Lifecycle.lean) used by Props/C03.lean part (ii).
  Core Lean only. Every statement is for all numbers of controllers and all schedules; the last two sections
  are about one controller on its own (`CRun`, what stream `lc` drives) and its simulation by the daemon model.
-/
import Fan2go.Model.Lifecycle
namespace Fan2go.Lifecycle

/-! ### one controller -/

/-- Per-controller invariant: nothing is written before the first analysis step / the first tick; a
    controller that has left the control loop has restored its fan and the registers show it; a controller
    whose `Run` has returned has restored its fan if regulation had begun and also if it had only been
    touched by the start-up analysis; the only unrestored returns are the `runError` ones, untouched. -/
def cinv (c : CState) : Bool :=
  match c.phase with
  | .readOrig | .startupWait | .loadOrInit | .initializing => !c.touched && !c.regulated && !c.restored
  | .initSweep | .initMeasure | .postInit | .mapSweep => !c.regulated && !c.restored
  | .headStart | .ticking | .restoring => c.regulated && !c.restored
  | .joining => c.regulated && c.restored && c.touched && c.regsRestored
  | .exited => (!c.regulated || c.restored) && (!c.touched || c.restored) &&
      (!c.restored || c.regsRestored) &&
      (c.restored || c.reason == some .runError) &&
      c.reason.isSome

theorem restore_regs (c : CState) : c.restore.regsRestored = true ∧ c.restore.restored = true ∧
    c.restore.touched = true ∧ c.restore.regulated = c.regulated ∧ c.restore.phase = c.phase ∧
    c.restore.reason = c.reason := by
  unfold CState.restore CState.regsRestored
  split <;> simp_all

theorem manual_flags (c : CState) : c.manual.regulated = c.regulated ∧ c.manual.restored = c.restored ∧
    c.manual.phase = c.phase ∧ c.manual.reason = c.reason := by
  unfold CState.manual; split <;> simp

theorem cstep_cinv {b : Bool} {c c' : CState} {a : CAct} {ev : CEv}
    (h : cinv c = true) (hs : cstep b c a = some (c', ev)) : cinv c' = true := by
  have hr := restore_regs c
  have hm := manual_flags c
  cases hph : c.phase <;> cases a <;> simp [cstep, hph] at hs
  all_goals (try split at hs)
  all_goals (try simp at hs)
  all_goals (try (obtain ⟨rfl, rfl⟩ := hs))
  all_goals (try (obtain ⟨-, rfl, rfl⟩ := hs))
  all_goals simp_all [cinv, CState.wr, CState.regsRestored]

/-- A controller's `Run` returns only into phase `exited`, and a move into `exited` is a return; the
    error flag is set exactly on the three error exits. -/
theorem cstep_returned {b : Bool} {c c' : CState} {a : CAct} {e : Bool}
    (hs : cstep b c a = some (c', .returned e)) : c'.phase = .exited := by
  have hr := restore_regs c
  cases hph : c.phase <;> cases a <;> simp [cstep, hph] at hs
  all_goals (try split at hs)
  all_goals (try simp at hs)
  all_goals (try (obtain ⟨rfl, -⟩ := hs))
  all_goals (try (obtain ⟨-, rfl, -⟩ := hs))
  all_goals rfl

theorem cstep_quiet {b : Bool} {c c' : CState} {a : CAct}
    (hs : cstep b c a = some (c', .quiet)) : c'.phase ≠ .exited ∧ c.phase ≠ .exited := by
  have hm := manual_flags c
  have hr := restore_regs c
  cases hph : c.phase <;> cases a <;> simp [cstep, hph] at hs
  all_goals (try split at hs)
  all_goals (try simp at hs)
  all_goals (try subst hs)
  all_goals (try (obtain ⟨-, rfl⟩ := hs))
  all_goals simp_all [CState.wr]

theorem cstep_exited {b : Bool} {c : CState} {a : CAct} (h : c.phase = .exited) : cstep b c a = none := by
  cases a <;> simp [cstep, h]

/-- What the invariant says about a controller whose `Run` has returned. -/
theorem cinv_exited {c : CState} (h : cinv c = true) (hph : c.phase = .exited) :
    (c.regulated = true → c.restored = true) ∧ (c.touched = true → c.restored = true) ∧
    (c.restored = true → c.regsRestored = true) ∧
    (c.restored = false → c.reason = some .runError ∧ c.touched = false) ∧
    c.reason.isSome = true := by
  simp [cinv, hph] at h
  obtain ⟨⟨⟨⟨h1, h2⟩, h3⟩, h4⟩, h5⟩ := h
  refine ⟨fun hr => ?_, fun hr => ?_, fun hr => ?_, fun hr => ⟨?_, ?_⟩, h5⟩
  · simpa [hr] using h1
  · simpa [hr] using h2
  · simpa [hr] using h3
  · simpa [hr] using h4
  · simpa [hr] using h2

/-- `Run` returns an error only from the start-up paths: regulation had not begun. -/
theorem cstep_returned_err {b : Bool} {c c' : CState} {a : CAct}
    (h : cinv c = true) (hs : cstep b c a = some (c', .returned true)) : c'.regulated = false := by
  have hr := restore_regs c
  cases hph : c.phase <;> cases a <;> simp [cstep, hph] at hs
  all_goals (try split at hs)
  all_goals (try simp at hs)
  all_goals (try subst hs)
  all_goals simp_all [cinv]

/-- A move that leaves the fan untouched leaves its registers as they were. -/
theorem cstep_untouched {b : Bool} {c c' : CState} {a : CAct} {ev : CEv}
    (hs : cstep b c a = some (c', ev)) (ht : c'.touched = false) :
    c.touched = false ∧ c'.mode = c.mode ∧ c'.pwm = c.pwm := by
  cases hph : c.phase <;> cases a <;> simp [cstep, hph] at hs
  all_goals (try split at hs)
  all_goals (try simp at hs)
  all_goals (try (obtain ⟨rfl, rfl⟩ := hs))
  all_goals (try (obtain ⟨-, rfl, rfl⟩ := hs))
  all_goals (revert ht; simp [CState.manual, CState.restore, CState.wr])
  all_goals (try split)
  all_goals simp_all

/-! ### the daemon -/

theorem noteReturn_eq (s : LState) (e : Bool) :
    noteReturn s e = { s with firstReturn := some (s.firstReturn.getD e) } := by
  unfold noteReturn
  cases h : s.firstReturn <;> simp
  rcases s with ⟨_, _, _, _, _, fr, _, _⟩
  simp at h; subst h; rfl

/-- Invariant of the fixed semantics. -/
structure GInv (s : LState) : Prop where
  ctls : ∀ c ∈ s.ctls, cinv c = true
  open_ : s.chanClosed = false
  alive : s.proc ≠ .panicked
  exited : ∀ code, s.proc = .exited code → ∀ c ∈ s.ctls, c.phase = .exited
  buf : s.chanBuf = 0 ∨ s.chanBuf = 1
  sigRet : s.sigReturned = true → s.firstReturn.isSome = true
  intr : s.interrupted = true → s.cancelled = true

theorem linit_ginv (rpms : List Bool) : GInv (linit rpms) := by
  refine ⟨?_, rfl, by simp [linit], by simp [linit], .inl rfl, by simp [linit], by simp [linit]⟩
  intro c hc
  unfold linit at hc
  simp only [List.mem_map] at hc
  obtain ⟨b, -, rfl⟩ := hc
  rfl

theorem lstep_ginv {s : LState} (h : GInv s) (ch : Choice) : GInv (lstep .fixed s ch) := by
  obtain ⟨h1, h2, h3, h4, h5, h6, h7⟩ := h
  rcases s with ⟨ctls, canc, buf, closed, sret, fr, intr, proc⟩
  simp only at h1 h2 h3 h4 h5 h6 h7
  subst h2
  cases proc with
  | exited code => exact ⟨h1, rfl, h3, h4, h5, h6, h7⟩
  | panicked => exact absurd rfl h3
  | running =>
  cases ch with
  | signal =>
    simp only [lstep, Bool.false_eq_true, if_false]
    split
    · exact ⟨h1, rfl, h3, h4, .inr rfl, h6, h7⟩
    · exact ⟨h1, rfl, h3, h4, h5, h6, h7⟩
  | sigActor =>
    simp only [lstep, noteReturn_eq]
    split
    · exact ⟨h1, rfl, h3, h4, h5, h6, h7⟩
    · split
      · exact ⟨h1, rfl, h3, h4, .inl rfl, fun _ => rfl, h7⟩
      · split
        · exact ⟨h1, rfl, h3, h4, h5, fun _ => rfl, h7⟩
        · exact ⟨h1, rfl, h3, h4, h5, h6, h7⟩
  | interrupt =>
    simp only [lstep]
    split
    · exact ⟨h1, rfl, h3, h4, h5, h6, h7⟩
    · split
      · exact ⟨h1, rfl, h3, h4, h5, h6, h7⟩
      · exact ⟨h1, rfl, h3, h4, h5, h6, fun _ => rfl⟩
  | otherError =>
    simp only [lstep, noteReturn_eq]
    exact ⟨h1, rfl, h3, h4, h5, fun _ => rfl, h7⟩
  | ctl i a =>
    simp only [lstep]
    cases hi : ctls[i]? with
    | none => exact ⟨h1, rfl, h3, h4, h5, h6, h7⟩
    | some c =>
      simp only []
      have hc : c ∈ ctls := List.mem_of_getElem? hi
      cases hcs : cstep canc c a with
      | none => exact ⟨h1, rfl, h3, h4, h5, h6, h7⟩
      | some r =>
        obtain ⟨c', ev⟩ := r
        simp only [noteReturn_eq]
        have hc' := cstep_cinv (h1 c hc) hcs
        have hset : ∀ x ∈ ctls.set i c', cinv x = true := by
          intro x hx
          rcases List.mem_or_eq_of_mem_set hx with hx | rfl
          · exact h1 x hx
          · exact hc'
        cases ev with
        | quiet => exact ⟨hset, rfl, h3, (by intro code hh; cases hh), h5, h6, h7⟩
        | returned e =>
          cases e
          · exact ⟨hset, rfl, h3, (by intro code hh; cases hh), h5, fun _ => rfl, h7⟩
          · exact ⟨hset, rfl, h3, (by intro code hh; cases hh), h5, fun _ => rfl, h7⟩
  | exit =>
    simp only [lstep]
    split
    · rename_i hcond
      simp only [Bool.and_eq_true, List.all_eq_true, beq_iff_eq] at hcond
      exact ⟨h1, rfl, by simp, fun _ _ => hcond.2, h5, h6, h7⟩
    · exact ⟨h1, rfl, h3, h4, h5, h6, h7⟩

theorem lrun_ginv : ∀ (sched : List Choice) {s : LState}, GInv s → GInv (lrun .fixed s sched)
  | [], _, h => h
  | ch :: rest, _, h => lrun_ginv rest (lstep_ginv h ch)

/-! ### progress -/

/-- Under the fixed semantics an enabled controller move changes that controller and at most the
    group's `firstReturn`; nothing else. -/
theorem lstep_ctl_fixed {s : LState} {i : Nat} {c c' : CState} {a : CAct} {ev : CEv}
    (hp : s.proc = .running) (hi : s.ctls[i]? = some c)
    (hcs : cstep s.cancelled c a = some (c', ev)) :
    ∃ fr, lstep .fixed s (.ctl i a) = { s with ctls := s.ctls.set i c', firstReturn := fr } ∧
      (s.firstReturn.isSome = true → fr.isSome = true) := by
  rcases s with ⟨ctls, canc, buf, closed, sret, fr, intr, proc⟩
  simp only at hp hi hcs
  subst hp
  simp only [lstep, hi, hcs, noteReturn_eq]
  cases ev with
  | quiet => exact ⟨fr, rfl, id⟩
  | returned e => cases e <;> exact ⟨_, rfl, fun _ => rfl⟩

theorem getElem?_set_self' {l : List CState} {i : Nat} {c c' : CState} (hi : l[i]? = some c) :
    (l.set i c')[i]? = some c' := by
  have : i < l.length := by
    rcases Nat.lt_or_ge i l.length with h | h
    · exact h
    · rw [List.getElem?_eq_none h] at hi; cases hi
  simp [this]

/-- Enabledness, `ticking`: once `ctx` is cancelled the control loop can take the `ctx.Done()` case. -/
theorem progress_ticking {s : LState} {i : Nat} {c : CState} (hp : s.proc = .running)
    (hcan : s.cancelled = true) (hi : s.ctls[i]? = some c) (hph : c.phase = .ticking) :
    (lstep .fixed s (.ctl i .seeCancel)).ctls[i]? = some { c with phase := .restoring } ∧
    (lstep .fixed s (.ctl i .seeCancel)).proc = .running ∧
    (lstep .fixed s (.ctl i .seeCancel)).cancelled = true := by
  have hcs : cstep s.cancelled c .seeCancel = some ({ c with phase := .restoring }, .quiet) := by
    simp [cstep, hph, hcan]
  obtain ⟨fr, h, -⟩ := lstep_ctl_fixed hp hi hcs
  rw [h]
  exact ⟨getElem?_set_self' hi, hp, hcan⟩

/-- Enabledness, `restoring`: `restorePwmEnabled` is always enabled (it does not wait for anything). -/
theorem progress_restoring {s : LState} {i : Nat} {c : CState} (hp : s.proc = .running)
    (hi : s.ctls[i]? = some c) (hph : c.phase = .restoring) :
    (lstep .fixed s (.ctl i .advance)).ctls[i]? = some { c.restore with phase := .joining } ∧
    (lstep .fixed s (.ctl i .advance)).proc = .running ∧
    (lstep .fixed s (.ctl i .advance)).cancelled = s.cancelled := by
  have hcs : cstep s.cancelled c .advance = some ({ c.restore with phase := .joining }, .quiet) := by
    simp [cstep, hph]
  obtain ⟨fr, h, -⟩ := lstep_ctl_fixed hp hi hcs
  rw [h]
  exact ⟨getElem?_set_self' hi, hp, rfl⟩

/-- Enabledness, `joining`: once `ctx` is cancelled (or without RPM monitor) `Run` returns nil. -/
theorem progress_joining {s : LState} {i : Nat} {c : CState} (hp : s.proc = .running)
    (hcan : s.cancelled = true ∨ c.hasRpm = false) (hi : s.ctls[i]? = some c) (hph : c.phase = .joining) :
    (lstep .fixed s (.ctl i .advance)).ctls[i]? = some { c with phase := .exited, reason := some .done } ∧
    (lstep .fixed s (.ctl i .advance)).proc = .running := by
  have hcs : cstep s.cancelled c .advance =
      some ({ c with phase := .exited, reason := some .done }, .returned false) := by
    rcases hcan with h | h <;> simp [cstep, hph, h]
  obtain ⟨fr, h, -⟩ := lstep_ctl_fixed hp hi hcs
  rw [h]
  exact ⟨getElem?_set_self' hi, hp⟩

/-- distance of a phase from `exited`: every move other than the self-loops `write` / `tick` lowers it -/
def rank : Phase → Nat
  | .exited => 0 | .joining => 1 | .restoring => 2 | .ticking => 3 | .headStart => 4 | .mapSweep => 5
  | .postInit => 6 | .initMeasure => 7 | .initSweep => 8 | .initializing => 9 | .loadOrInit => 10
  | .startupWait => 11 | .readOrig => 12

def mu : List CState → Nat
  | [] => 0
  | c :: cs => rank c.phase + mu cs

theorem rank_le (p : Phase) : rank p ≤ 12 := by cases p <;> simp [rank]

theorem rank_zero {p : Phase} (h : rank p = 0) : p = .exited := by cases p <;> simp [rank] at h ⊢

/-- Every enabled move either lowers the rank or is one more write of the analysis / one more cycle of
    the control loop in the same phase: a controller cannot circle. -/
theorem cstep_rank {b : Bool} {c c' : CState} {a : CAct} {ev : CEv} (hs : cstep b c a = some (c', ev)) :
    rank c'.phase < rank c.phase ∨
    (c'.phase = c.phase ∧ ((∃ v, a = .write v) ∨ (∃ v, a = .tick v))) := by
  have hm := manual_flags c
  have hr := restore_regs c
  cases hph : c.phase <;> cases a <;> simp [cstep, hph] at hs
  all_goals (try split at hs)
  all_goals (try simp at hs)
  all_goals (try (obtain ⟨rfl, rfl⟩ := hs))
  all_goals (try (obtain ⟨-, rfl, rfl⟩ := hs))
  all_goals simp_all [rank, CState.wr]

/-- With `ctx` cancelled the move `nextMove` is enabled in every phase but `exited`, and lowers the rank. -/
theorem cstep_next (c : CState) (h : c.phase ≠ .exited) :
    ∃ c' ev, cstep true c (nextMove c) = some (c', ev) ∧ rank c'.phase < rank c.phase := by
  have hm := manual_flags c
  have hr := restore_regs c
  cases hph : c.phase
  case exited => exact absurd hph h
  all_goals simp [nextMove, cstep, hph]
  all_goals (try split)
  all_goals simp_all [rank]

theorem cstep_progress (c : CState) (h : c.phase ≠ .exited) :
    ∃ a c' ev, cstep true c a = some (c', ev) ∧ rank c'.phase < rank c.phase :=
  let ⟨c', ev, h1, h2⟩ := cstep_next c h
  ⟨_, c', ev, h1, h2⟩

theorem mu_set : ∀ (l : List CState) (i : Nat) (c c' : CState), l[i]? = some c →
    mu (l.set i c') + rank c.phase = mu l + rank c'.phase
  | [], i, c, c', h => by simp at h
  | x :: xs, 0, c, c', h => by
    simp at h; subst h
    simp [mu]; omega
  | x :: xs, i + 1, c, c', h => by
    simp at h
    have := mu_set xs i c c' h
    simp [mu]; omega

theorem mu_zero : ∀ (l : List CState), mu l = 0 → ∀ c ∈ l, c.phase = .exited
  | [], _, c, hc => by simp at hc
  | x :: xs, h, c, hc => by
    simp [mu] at h
    rcases List.mem_cons.1 hc with rfl | hc
    · exact rank_zero h.1
    · exact mu_zero xs h.2 c hc

theorem mu_pos : ∀ (l : List CState), 0 < mu l →
    ∃ (i : Nat) (c : CState), l[i]? = some c ∧ c.phase ≠ Phase.exited
  | [], h => by simp [mu] at h
  | x :: xs, h => by
    by_cases hx : x.phase = .exited
    · have : 0 < mu xs := by simp [mu, hx, rank] at h; exact h
      obtain ⟨i, c, hi, hc⟩ := mu_pos xs this
      exact ⟨i + 1, c, by simpa using hi, hc⟩
    · exact ⟨0, x, rfl, hx⟩

/-- the shutdown has been triggered and every interrupt function has run -/
structure Ready (s : LState) : Prop where
  running : s.proc = .running
  cancelled : s.cancelled = true
  interrupted : s.interrupted = true
  sigReturned : s.sigReturned = true

/-- From a state in which shutdown has been triggered there is a schedule on which the process exits. -/
theorem ready_can_exit : ∀ (k : Nat) (s : LState), mu s.ctls ≤ k → Ready s →
    ∃ sched code, (lrun .fixed s sched).proc = .exited code
  | 0, s, hk, hr => by
    have hall := mu_zero s.ctls (by omega)
    refine ⟨[.exit], if s.firstReturn = some true then 1 else 0, ?_⟩
    have : s.ctls.all (fun c => c.phase == .exited) = true := by
      simp only [List.all_eq_true, beq_iff_eq]; exact hall
    simp [lrun, lstep, hr.running, hr.interrupted, hr.sigReturned, this]
  | k + 1, s, hk, hr => by
    by_cases h0 : mu s.ctls = 0
    · exact ready_can_exit k s (by omega) hr
    · obtain ⟨i, c, hi, hc⟩ := mu_pos s.ctls (by omega)
      obtain ⟨a, c', ev, hcs, hlt⟩ := cstep_progress c hc
      have hcs' : cstep s.cancelled c a = some (c', ev) := by rw [hr.cancelled]; exact hcs
      obtain ⟨fr, hstep, -⟩ := lstep_ctl_fixed hr.running hi hcs'
      have hmu := mu_set s.ctls i c c' hi
      have hr' : Ready (lstep .fixed s (.ctl i a)) := by
        rw [hstep]; exact ⟨hr.running, hr.cancelled, hr.interrupted, hr.sigReturned⟩
      have hk' : mu (lstep .fixed s (.ctl i a)).ctls ≤ k := by
        rw [hstep]; simp only; omega
      obtain ⟨sched, code, hfin⟩ := ready_can_exit k _ hk' hr'
      exact ⟨.ctl i a :: sched, code, hfin⟩

/-- One signal is enough to trigger the shutdown from any reachable running state. -/
theorem signal_ready {s : LState} (h : GInv s) (hp : s.proc = .running) :
    Ready (lrun .fixed s [.signal, .sigActor, .interrupt]) ∧
    (lrun .fixed s [.signal, .sigActor, .interrupt]).ctls = s.ctls := by
  obtain ⟨h1, h2, h3, h4, h5, h6, h7⟩ := h
  rcases s with ⟨ctls, canc, buf, closed, sret, fr, intr, proc⟩
  simp only at h1 h2 h3 h4 h5 h6 h7 hp
  subst h2 hp
  rcases h5 with rfl | rfl <;> cases sret <;> cases fr <;> cases intr <;> cases canc <;>
    simp_all [lrun, lstep, noteReturn_eq] <;> constructor <;> rfl

theorem lrun_append (sem : Sem) : ∀ (a b : List Choice) (s : LState),
    lrun sem s (a ++ b) = lrun sem (lrun sem s a) b
  | [], _, _ => rfl
  | x :: a, b, s => by simp [lrun, lrun_append sem a b]

/-! ### one controller on its own (`CRun`): what stream `lc` samples -/

theorem cstep_regulated {b : Bool} {c c' : CState} {a : CAct} {ev : CEv}
    (hs : cstep b c a = some (c', ev)) (h : c.regulated = true) : c'.regulated = true := by
  have hm := manual_flags c
  have hr := restore_regs c
  cases hph : c.phase <;> cases a <;> simp [cstep, hph] at hs
  all_goals (try split at hs)
  all_goals (try simp at hs)
  all_goals (try (obtain ⟨rfl, rfl⟩ := hs))
  all_goals (try (obtain ⟨-, rfl, rfl⟩ := hs))
  all_goals simp_all [CState.wr]

/-- Invariant of a single controller's run on a fan whose registers read `m0` / `p0` at the start. -/
structure RInv (m0 p0 : Int) (s : CRun) : Prop where
  inv : cinv s.c = true
  /-- `Run` has returned exactly when the controller is in `exited` -/
  ret : s.ret.isSome = true ↔ s.c.phase = .exited
  /-- an untouched fan's registers are as they were found -/
  untouched : s.c.touched = false → s.c.mode = m0 ∧ s.c.pwm = p0
  /-- a control cycle has begun only if regulation has -/
  cyc : 0 < s.cycles → s.c.regulated = true
  /-- `Run` returns an error only from the start-up paths -/
  err : s.ret = some true → s.c.regulated = false

theorem cinit_rinv (hasRpm hasMode : Bool) (m0 p0 : Int) : RInv m0 p0 (cinit hasRpm hasMode m0 p0) :=
  ⟨rfl, by simp [cinit], fun _ => ⟨rfl, rfl⟩, by simp [cinit], by simp [cinit]⟩

theorem crunStep_rinv {m0 p0 : Int} {s : CRun} (h : RInv m0 p0 s) (e : CEvt) : RInv m0 p0 (crunStep s e) := by
  obtain ⟨h1, h2, h3, h4, h5⟩ := h
  cases e with
  | cancel => exact ⟨h1, h2, h3, h4, h5⟩
  | act a =>
    simp only [crunStep]
    cases hcs : cstep s.cancelled s.c a with
    | none => exact ⟨h1, h2, h3, h4, h5⟩
    | some r =>
      obtain ⟨c', ev⟩ := r
      have hinv := cstep_cinv h1 hcs
      refine ⟨hinv, ?_, ?_, ?_, ?_⟩
      · cases ev with
        | quiet =>
          obtain ⟨hq1, hq2⟩ := cstep_quiet hcs
          simp only []
          constructor
          · intro hr; exact absurd (h2.1 hr) hq2
          · intro hp; exact absurd hp hq1
        | returned b =>
          simp only [Option.isSome_some, true_iff]
          exact cstep_returned hcs
      · intro ht
        obtain ⟨ht0, hm, hp⟩ := cstep_untouched hcs ht
        obtain ⟨hm0, hp0⟩ := h3 ht0
        exact ⟨hm.trans hm0, hp.trans hp0⟩
      · intro hpos
        by_cases hreg : s.c.regulated = true
        · exact cstep_regulated hcs hreg
        · -- the counter has just become positive: the move was a cycle in `ticking`
          have h0 : ¬ 0 < s.cycles := fun h => hreg (h4 h)
          have hph : s.c.phase = .ticking := by
            cases hph : s.c.phase <;> cases a <;> simp_all
          simp [cinv, hph] at h1
          exact absurd h1.1 hreg
      · cases ev with
        | quiet =>
          obtain ⟨-, hq2⟩ := cstep_quiet hcs
          intro hr
          have : s.ret.isSome = true := by simp only [] at hr; rw [hr]; rfl
          exact absurd (h2.1 this) hq2
        | returned b =>
          intro hr
          simp only [Option.some.injEq] at hr
          subst hr
          exact cstep_returned_err h1 hcs

theorem crun_rinv {m0 p0 : Int} : ∀ (es : List CEvt) {s : CRun}, RInv m0 p0 s → RInv m0 p0 (crun s es)
  | [], _, h => h
  | e :: es, _, h => crun_rinv es (crunStep_rinv h e)

theorem crun_append : ∀ (a b : List CEvt) (s : CRun), crun s (a ++ b) = crun (crun s a) b
  | [], _, _ => rfl
  | x :: a, b, s => by simp [crun, crun_append a b]

theorem crunStep_cancelled (s : CRun) (e : CEvt) (h : s.cancelled = true) : (crunStep s e).cancelled = true := by
  cases e with
  | cancel => rfl
  | act a =>
    simp only [crunStep]
    cases cstep s.cancelled s.c a with
    | none => exact h
    | some r => exact h

theorem crun_cancelled : ∀ (es : List CEvt) (s : CRun), s.cancelled = true → (crun s es).cancelled = true
  | [], _, h => h
  | e :: es, s, h => crun_cancelled es _ (crunStep_cancelled s e h)

/-- Once `ctx` is cancelled, `rank` many success-path moves bring the controller to `exited`: nothing on
    the shutdown path waits for anything. -/
theorem drain_exits : ∀ (n : Nat) (s : CRun), s.cancelled = true → rank s.c.phase ≤ n →
    (drain n s).c.phase = .exited
  | 0, s, _, hr => rank_zero (Nat.le_zero.1 hr)
  | n + 1, s, hc, hr => by
    simp only [drain]
    by_cases hex : s.c.phase = .exited
    · have : crunStep s (.act (nextMove s.c)) = s := by simp [crunStep, cstep_exited hex]
      rw [this]
      exact drain_exits n s hc (by simp [hex, rank])
    · obtain ⟨c', ev, hcs, hlt⟩ := cstep_next s.c hex
      have hstep : (crunStep s (.act (nextMove s.c))).c = c' ∧
          (crunStep s (.act (nextMove s.c))).cancelled = true := by
        simp [crunStep, hc, hcs]
      apply drain_exits n _ hstep.2
      rw [hstep.1]; omega

theorem drain_eq_crun : ∀ (n : Nat) (s : CRun), ∃ es, drain n s = crun s es
  | 0, s => ⟨[], rfl⟩
  | n + 1, s => by
    obtain ⟨es, h⟩ := drain_eq_crun n (crunStep s (.act (nextMove s.c)))
    exact ⟨.act (nextMove s.c) :: es, h⟩

/-! ### the single controller IS the one-controller daemon (`CRun` vs `LState`) -/

/-- the single controller's events as choices of the daemon LTS with one controller: a move of the
    controller, or one signal taken by the signal actor followed by the group's interrupt (`cancel()`) -/
def embed : List CEvt → List Choice
  | [] => []
  | .act a :: es => .ctl 0 a :: embed es
  | .cancel :: es => .signal :: .sigActor :: .interrupt :: embed es

structure Sim (L : LState) (s : CRun) : Prop where
  ctls : L.ctls = [s.c]
  canc : L.cancelled = s.cancelled
  run : L.proc = .running
  open_ : L.chanClosed = false
  buf : L.chanBuf = 0 ∨ L.chanBuf = 1
  pre : L.cancelled = false → L.sigReturned = false ∧ L.interrupted = false
  post : L.cancelled = true → L.sigReturned = true ∧ L.interrupted = true

theorem sim_step {L : LState} {s : CRun} (h : Sim L s) (e : CEvt) :
    Sim (lrun .fixed L (embed [e])) (crunStep s e) := by
  obtain ⟨h1, h2, h3, h4, h5, h6, h7⟩ := h
  rcases L with ⟨ctls, canc, buf, closed, sret, fr, intr, proc⟩
  simp only at h1 h2 h3 h4 h5 h6 h7
  subst h1 h3 h4
  cases e with
  | cancel =>
    cases canc
    · obtain ⟨rfl, rfl⟩ := h6 rfl
      rcases h5 with rfl | rfl <;> cases fr <;>
        exact ⟨rfl, rfl, rfl, rfl, .inl rfl, by simp [embed, lrun, lstep, noteReturn], by simp [embed, lrun, lstep, noteReturn]⟩
    · obtain ⟨rfl, rfl⟩ := h7 rfl
      rcases h5 with rfl | rfl <;> cases fr <;>
        simp [embed, lrun, lstep, crunStep] <;>
        exact ⟨rfl, by simp, rfl, rfl, by simp, by simp, by simp⟩
  | act a =>
    simp only [embed, lrun, lstep, crunStep, List.getElem?_cons_zero, ← h2]
    cases hcs : cstep canc s.c a with
    | none => exact ⟨rfl, h2, rfl, rfl, h5, h6, h7⟩
    | some r =>
      obtain ⟨c', ev⟩ := r
      cases ev with
      | quiet => exact ⟨rfl, rfl, rfl, rfl, h5, h6, h7⟩
      | returned b =>
        cases b <;> simp only [noteReturn_eq] <;> exact ⟨rfl, rfl, rfl, rfl, h5, h6, h7⟩

theorem embed_append : ∀ (a b : List CEvt), embed (a ++ b) = embed a ++ embed b
  | [], _ => rfl
  | .act x :: a, b => by simp [embed, embed_append a b]
  | .cancel :: a, b => by simp [embed, embed_append a b]

theorem sim_run : ∀ (es : List CEvt) {L : LState} {s : CRun}, Sim L s →
    Sim (lrun .fixed L (embed es)) (crun s es)
  | [], _, _, h => h
  | e :: es, L, s, h => by
    have h1 := sim_step h e
    have : embed (e :: es) = embed [e] ++ embed es := embed_append [e] es
    rw [this, lrun_append]
    exact sim_run es h1

/-- the daemon with the single controller `c`, right after start, simulates the controller on its own -/
theorem sim_init (c : CState) : Sim { ctls := [c] } { c := c } :=
  ⟨rfl, rfl, rfl, rfl, .inl rfl, fun _ => ⟨rfl, rfl⟩, fun h => by simp at h⟩


end Fan2go.Lifecycle
