/-
  Proofs about `util.UpdateSimpleMovingAvg` (Model/Util.lean `updateSimpleMovingAvg`) in binary64:
  hull, history, n = 1, counterexamples, one-step contraction.
-/
import Fan2go.Proofs.F64OpsB
import Fan2go.Model.Sensor
namespace Fan2go
open F64

/-- one poll: `avg' = avg + (1 / float64(n)) * (x - avg)`. -/
def upd (n : Int) (avg x : F64) : F64 := updateSimpleMovingAvg avg n x

/-- the binary64 weight `1 / float64(n)`. -/
def wgt (n : Int) : ℚ := fl64 (1 / (n : ℚ))

/-- the rounded increment `(1/n) ⊗ (b ⊖ a)`. -/
def incQ (n : Int) (a b : ℚ) : ℚ := fl64 (wgt n * fl64 (b - a))

theorem pow2_neg_one : pow2 (-1) = 1 / 2 := by rw [pow2_neg, pow2_one]; norm_num

theorem one_le_pow2_1023 : (1 : ℚ) ≤ pow2 1023 := by
  rw [← pow2_zero]; exact pow2_mono (by norm_num)

theorem wgt_nonneg {n : Int} (hn : 1 ≤ n) : 0 ≤ wgt n := by
  apply fl64_nonneg
  have : (0 : ℚ) < n := by exact_mod_cast (by omega : 0 < n)
  positivity

theorem wgt_le_one {n : Int} (hn : 1 ≤ n) : wgt n ≤ 1 := by
  have h1 : (1 : ℚ) ≤ n := by exact_mod_cast hn
  have : 1 / (n : ℚ) ≤ 1 := by rw [div_le_one (by linarith)]; exact h1
  have := fl64_le_of_le_rep (r := 1) fl64_one this
  exact this

theorem wgt_le_half {n : Int} (hn : 2 ≤ n) : wgt n ≤ 1 / 2 := by
  have h1 : (2 : ℚ) ≤ n := by exact_mod_cast hn
  have : 1 / (n : ℚ) ≤ 1 / 2 := by
    apply div_le_div_of_nonneg_left <;> linarith
  have hr : Rep64 (1 / 2 : ℚ) := by rw [← pow2_neg_one]; exact rep64_pow2 (-1) (by norm_num)
  exact fl64_le_of_le_rep hr this

theorem wgt_one : wgt 1 = 1 := by
  unfold wgt; norm_num; exact fl64_one

/-- the update on finite payloads, as long as the difference does not overflow. -/
theorem upd_fin {n : Int} (h1 : 1 ≤ n) (h2 : n ≤ 2 ^ 53) {a b : ℚ} (hd : |b - a| ≤ pow2 1023) :
    upd n (fin a) (fin b) = ofRat (a + incQ n a b) := by
  have hn0 : (n : ℚ) ≠ 0 := by
    have : (0 : ℚ) < n := by exact_mod_cast (by omega : 0 < n)
    exact this.ne'
  have hw0 := wgt_nonneg h1
  have hw1 := wgt_le_one h1
  unfold upd updateSimpleMovingAvg F64.one
  rw [b_ofInt n (by rw [abs_of_nonneg (by omega)]; exact h2), b_div_fin 1 hn0, b_sub_fin]
  have e1 : ofRat (1 / (n : ℚ)) = fin (wgt n) := by
    apply ofRat_fin_of_abs_le
    have h1q : (1 : ℚ) ≤ n := by exact_mod_cast h1
    have : 0 < 1 / (n : ℚ) := by positivity
    rw [abs_of_pos this]
    have : 1 / (n : ℚ) ≤ 1 := by rw [div_le_one (by linarith)]; exact h1q
    exact this.trans one_le_pow2_1023
  have e2 : ofRat (b - a) = fin (fl64 (b - a)) := ofRat_fin_of_abs_le hd
  rw [e1, e2, b_mul_fin]
  have hdb : |fl64 (b - a)| ≤ pow2 1023 :=
    abs_fl64_le_of_abs_le_rep (rep64_pow2 1023 (by norm_num)) hd
  have e3 : ofRat (wgt n * fl64 (b - a)) = fin (incQ n a b) := by
    apply ofRat_fin_of_abs_le
    rw [abs_mul, abs_of_nonneg hw0]
    calc wgt n * |fl64 (b - a)| ≤ 1 * |fl64 (b - a)| :=
          mul_le_mul_of_nonneg_right hw1 (abs_nonneg _)
      _ ≤ pow2 1023 := by rw [one_mul]; exact hdb
  rw [e3, b_add_fin]

/-- core of the hull argument: for `x ≤ y` and a weight `c ∈ [0, 1/2]` the rounded increment
    `c ⊗ (y ⊖ x)` lies in `[0, y - x]`. -/
theorem inc_bounds {c x y : ℚ} (hc0 : 0 ≤ c) (hc : c ≤ 1 / 2) (hx : Rep64 x) (hy : Rep64 y)
    (hxy : x ≤ y) : 0 ≤ fl64 (c * fl64 (y - x)) ∧ fl64 (c * fl64 (y - x)) ≤ y - x := by
  have hd0 : 0 ≤ fl64 (y - x) := fl64_nonneg (by linarith)
  refine ⟨fl64_nonneg (mul_nonneg hc0 hd0), ?_⟩
  rcases eq_or_lt_of_le hxy with he | hlt
  · subst he; simp [fl64_zero]
  · have hpos : 0 < y - x := by linarith
    have hd2 : fl64 (y - x) ≤ 2 * (y - x) := fl64_le_two_mul hpos
    rcases le_or_gt (pow2 (-1021)) (fl64 (y - x)) with hbig | hsmall
    · -- d/2 is representable
      have hr : Rep64 (fl64 (y - x) / 2) := by
        apply rep_half (by norm_num) (rep64_fl64 _)
        rw [abs_of_nonneg hd0]; exact hbig
      have : c * fl64 (y - x) ≤ fl64 (y - x) / 2 := by nlinarith
      have := fl64_le_of_le_rep hr this
      linarith
    · -- the difference itself is representable
      have hlt' : y - x < pow2 (-1021) := by
        by_contra hcon
        have := le_fl64_of_rep_le (rep64_pow2 (-1021) (by norm_num)) (not_lt.mp hcon)
        linarith
      have hrs : Rep64 (y - x) := by
        apply rep_sub_small (by norm_num) hy hx
        rw [abs_of_pos hpos]; exact hlt'
      rw [fl64_of_rep hrs]
      have : c * (y - x) ≤ y - x := by nlinarith
      exact fl64_le_of_le_rep hrs this

theorem incQ_swap (n : Int) (a b : ℚ) : incQ n a b = - incQ n b a := by
  unfold incQ
  rw [show b - a = -(a - b) by ring, fl64_neg, mul_neg, fl64_neg]

/-- the exact sum `a + inc` stays in the hull of `a` and `b` (n ≥ 2). -/
theorem sum_in_hull {n : Int} (hn : 2 ≤ n) {a b : ℚ} (ha : Rep64 a) (hb : Rep64 b) :
    min a b ≤ a + incQ n a b ∧ a + incQ n a b ≤ max a b := by
  have hc0 := wgt_nonneg (n := n) (by omega)
  have hc := wgt_le_half hn
  rcases le_total a b with h | h
  · obtain ⟨p0, p1⟩ := inc_bounds hc0 hc ha hb h
    rw [min_eq_left h, max_eq_right h]
    unfold incQ; constructor <;> linarith
  · obtain ⟨p0, p1⟩ := inc_bounds hc0 hc hb ha h
    rw [min_eq_right h, max_eq_left h, incQ_swap]
    unfold incQ; constructor <;> linarith

theorem fin64_min {a b : ℚ} (ha : Fin64 a) (hb : Fin64 b) : Fin64 (min a b) := by
  rcases min_choice a b with h | h <;> rw [h] <;> assumption

theorem fin64_max {a b : ℚ} (ha : Fin64 a) (hb : Fin64 b) : Fin64 (max a b) := by
  rcases max_choice a b with h | h <;> rw [h] <;> assumption

/-- HULL, window ≥ 2: the new average is a finite double between the old average and the reading. -/
theorem upd_hull {n : Int} (h2 : 2 ≤ n) (hn : n ≤ 2 ^ 53) {a b : ℚ} (ha : Fin64 a) (hb : Fin64 b)
    (hd : |b - a| ≤ pow2 1023) :
    ∃ c, upd n (fin a) (fin b) = fin c ∧ Fin64 c ∧ min a b ≤ c ∧ c ≤ max a b := by
  rw [upd_fin (by omega) hn hd]
  obtain ⟨s1, s2⟩ := sum_in_hull h2 ha.1 hb.1
  obtain ⟨e, l, u⟩ := b_ofRat_between (fin64_min ha hb) (fin64_max ha hb) s1 s2
  refine ⟨_, e, ⟨rep64_fl64 _, ?_⟩, l, u⟩
  have m1 := abs_lt.mp (fin64_min ha hb).2
  have m2 := abs_lt.mp (fin64_max ha hb).2
  rw [abs_lt]; constructor <;> linarith

/-- HULL along a whole history of readings inside a band `[L, U]` of width ≤ 2^1023. -/
theorem upd_hull_history {n : Int} (h2 : 2 ≤ n) (hn : n ≤ 2 ^ 53) {L U : ℚ}
    (hw : U - L ≤ pow2 1023) (bs : List ℚ) (hb : ∀ b ∈ bs, Fin64 b ∧ L ≤ b ∧ b ≤ U) :
    ∀ a0 : ℚ, Fin64 a0 → L ≤ a0 → a0 ≤ U →
      ∃ c, (bs.map fin).foldl (upd n) (fin a0) = fin c ∧ Fin64 c ∧ L ≤ c ∧ c ≤ U := by
  induction bs with
  | nil => intro a0 ha hl hu; exact ⟨a0, rfl, ha, hl, hu⟩
  | cons b r ih =>
    intro a0 ha hl hu
    obtain ⟨fb, lb, ub⟩ := hb b List.mem_cons_self
    have hd : |b - a0| ≤ pow2 1023 := by
      rw [abs_le]; constructor <;> linarith
    obtain ⟨c, e, fc, lc, uc⟩ := upd_hull h2 hn ha fb hd
    rw [List.map_cons, List.foldl_cons, e]
    apply ih (fun x hx => hb x (List.mem_cons_of_mem _ hx)) c fc
    · exact (le_min hl lb).trans lc
    · exact uc.trans (max_le hu ub)

/-! ### window 1 -/

theorem incQ_one (a b : ℚ) : incQ 1 a b = fl64 (b - a) := by
  unfold incQ; rw [wgt_one, one_mul, fl64_idem]

/-- window 1 with an exactly representable difference: the average jumps to the reading. -/
theorem upd_one_exact {a b : ℚ} (hb : Fin64 b) (hr : Rep64 (b - a)) (hd : |b - a| ≤ pow2 1023) :
    upd 1 (fin a) (fin b) = fin b := by
  rw [upd_fin le_rfl (by norm_num) hd, incQ_one, fl64_of_rep hr, add_sub_cancel]
  exact b_ofRat_fin64 hb

/-- window 1 in general: `a ⊕ (b ⊖ a)`. -/
theorem upd_one {a b : ℚ} (hd : |b - a| ≤ pow2 1023) :
    upd 1 (fin a) (fin b) = ofRat (a + fl64 (b - a)) := by
  rw [upd_fin le_rfl (by norm_num) hd, incQ_one]

/-! ### NaN -/

theorem upd_nan_left (n : Int) (x : F64) : upd n nan x = nan := rfl

theorem upd_nan_right (n : Int) (avg : F64) : upd n avg nan = nan := by
  unfold upd updateSimpleMovingAvg
  have h1 : (nan - avg : F64) = nan := rfl
  rw [h1]
  have h2 : ∀ c : F64, (c * nan : F64) = nan := by intro c; cases c <;> rfl
  rw [h2]
  cases avg <;> rfl

/-! ### one-step contraction toward a constant reading -/

theorem pow2_m48 : pow2 (-48) = 32 * pow2 (-53) := by
  rw [show (-48 : ℤ) = 5 + (-53) by norm_num, pow2_add]; congr 1

theorem pow2_m1072 : pow2 (-1072) = 8 * pow2 (-1075) := by
  rw [show (-1072 : ℤ) = 3 + (-1075) by norm_num, pow2_add]; congr 1

/-- One poll with reading `c`: the distance to `c` shrinks by the factor `1 - 1/n` up to the rounding
    slack `2^-48 · M + 2^-1072`, `M` any bound on `|a|`, `|c|` (at most `2^1000`). -/
theorem upd_contract {n : Int} (h1 : 1 ≤ n) (hn : n ≤ 2 ^ 53) {a c M : ℚ} (ha : |a| ≤ M)
    (hc : |c| ≤ M) (hM : M ≤ pow2 1000) :
    ∃ a', upd n (fin a) (fin c) = fin a' ∧ Rep64 a' ∧
      |a' - c| ≤ (1 - 1 / (n : ℚ)) * |a - c| + pow2 (-48) * M + pow2 (-1072) := by
  have hM0 : 0 ≤ M := (abs_nonneg a).trans ha
  have hu0 : 0 < pow2 (-53) := pow2_pos _
  have hu1 : pow2 (-53) ≤ 1 := by rw [← pow2_zero]; exact pow2_mono (by norm_num)
  have hη0 : 0 < pow2 (-1075) := pow2_pos _
  have hη1 : pow2 (-1075) ≤ 1 := by rw [← pow2_zero]; exact pow2_mono (by norm_num)
  have hnq : (1 : ℚ) ≤ n := by exact_mod_cast h1
  have hn0 : (0 : ℚ) < n := by linarith
  have hinv0 : 0 < 1 / (n : ℚ) := by positivity
  have hinv1 : 1 / (n : ℚ) ≤ 1 := by rw [div_le_one hn0]; exact hnq
  have hP : (1 : ℚ) ≤ pow2 1000 := by rw [← pow2_zero]; exact pow2_mono (by norm_num)
  have hP2 : 16 * pow2 1000 ≤ pow2 1023 := by
    have : (16 : ℚ) * pow2 1000 = pow2 1004 := by
      rw [show (1004 : ℤ) = 4 + 1000 by norm_num, pow2_add]; congr 1
    rw [this]; exact pow2_mono (by norm_num)
  obtain ⟨a1, a2⟩ := abs_le.mp ha
  obtain ⟨c1, c2⟩ := abs_le.mp hc
  -- the difference
  have hx1 : |c - a| ≤ 2 * M := by rw [abs_le]; constructor <;> linarith
  have hfin1 : |c - a| ≤ pow2 1023 := by linarith
  rw [upd_fin h1 hn hfin1]
  unfold incQ
  generalize hu : pow2 (-53) = u at *
  generalize hη : pow2 (-1075) = η at *
  have ed : |fl64 (c - a) - (c - a)| ≤ 2 * (u * M) + η := by
    have e := fl64_abs_err (c - a)
    rw [hu, hη] at e
    have : u * |c - a| ≤ u * (2 * M) := mul_le_mul_of_nonneg_left hx1 hu0.le
    linarith
  generalize hx : c - a = x1 at *
  generalize hdd : fl64 x1 = d at *
  have hd : |d| ≤ 2 * M + 2 * (u * M) + η := by
    have := abs_le.mp ed; have := abs_le.mp hx1; rw [abs_le]; constructor <;> linarith
  -- the weight
  have hw0 : 0 ≤ wgt n := wgt_nonneg h1
  have hw1 : wgt n ≤ 1 := wgt_le_one h1
  have ew : |wgt n - 1 / (n : ℚ)| ≤ u := by
    have hlow : pow2 (-1022) ≤ |1 / (n : ℚ)| := by
      rw [abs_of_pos hinv0]
      have h53 : (n : ℚ) ≤ 2 ^ 53 := by exact_mod_cast hn
      have : 1 / (2 : ℚ) ^ 53 ≤ 1 / (n : ℚ) := one_div_le_one_div_of_le hn0 h53
      have e : pow2 (-53) = 1 / (2 : ℚ) ^ 53 := by
        rw [pow2_neg, show (53 : ℤ) = ((53 : ℕ) : ℤ) by norm_num, pow2_natCast']; simp
      have : pow2 (-1022) ≤ pow2 (-53) := pow2_mono (by norm_num)
      linarith
    have e := fl64_rel_err hlow
    rw [abs_of_pos hinv0, hu] at e
    have : u * (1 / (n : ℚ)) ≤ u * 1 := mul_le_mul_of_nonneg_left hinv1 hu0.le
    unfold wgt; linarith
  generalize wgt n = w at *
  -- the product
  have eprod : |w * d - x1 / (n : ℚ)| ≤ 4 * (u * M) + η := by
    have hsplit : w * d - x1 / (n : ℚ) = w * (d - x1) + (w - 1 / (n : ℚ)) * x1 := by ring
    rw [hsplit]
    have h1' : |w * (d - x1)| ≤ |d - x1| := by
      rw [abs_mul, abs_of_nonneg hw0]; exact mul_le_of_le_one_left (abs_nonneg _) hw1
    have h2' : |(w - 1 / (n : ℚ)) * x1| ≤ u * (2 * M) := by
      rw [abs_mul]; exact mul_le_mul ew hx1 (abs_nonneg _) hu0.le
    have := abs_add_le (w * (d - x1)) ((w - 1 / (n : ℚ)) * x1)
    linarith
  have hprod : |w * d| ≤ 2 * M + 2 * (u * M) + η := by
    rw [abs_mul, abs_of_nonneg hw0]
    exact (mul_le_of_le_one_left (abs_nonneg _) hw1).trans hd
  have huM0 : 0 ≤ u * M := mul_nonneg hu0.le hM0
  have uuM : u * (u * M) ≤ u * M := mul_le_of_le_one_left huM0 hu1
  have uη : u * η ≤ η := mul_le_of_le_one_left hη0.le hu1
  have uM_le : u * M ≤ M := mul_le_of_le_one_left hM0 hu1
  have ep : |fl64 (w * d) - w * d| ≤ 4 * (u * M) + 2 * η := by
    have e := fl64_abs_err (w * d)
    rw [hu, hη] at e
    have h3 : u * |w * d| ≤ u * (2 * M + 2 * (u * M) + η) := mul_le_mul_of_nonneg_left hprod hu0.le
    have h4 : u * (2 * M + 2 * (u * M) + η) = 2 * (u * M) + 2 * (u * (u * M)) + u * η := by ring
    linarith
  generalize hpp : fl64 (w * d) = p at *
  have ept : |p - x1 / (n : ℚ)| ≤ 8 * (u * M) + 3 * η := by
    have e : p - x1 / (n : ℚ) = (p - w * d) + (w * d - x1 / (n : ℚ)) := by ring
    rw [e]; have := abs_add_le (p - w * d) (w * d - x1 / (n : ℚ)); linarith
  have ht : |x1 / (n : ℚ)| ≤ 2 * M := by
    rw [abs_div, abs_of_pos hn0]
    exact (div_le_self (abs_nonneg _) hnq).trans hx1
  have hp : |p| ≤ 2 * M + 8 * (u * M) + 3 * η := by
    have e : p = x1 / (n : ℚ) + (p - x1 / (n : ℚ)) := by ring
    rw [e]; have := abs_add_le (x1 / (n : ℚ)) (p - x1 / (n : ℚ)); linarith
  have hs : |a + p| ≤ 3 * M + 8 * (u * M) + 3 * η := by
    have := abs_add_le a p; linarith
  have hsfin : |a + p| ≤ pow2 1023 := by linarith
  have es : |fl64 (a + p) - (a + p)| ≤ 11 * (u * M) + 4 * η := by
    have e := fl64_abs_err (a + p)
    rw [hu, hη] at e
    have h3 : u * |a + p| ≤ u * (3 * M + 8 * (u * M) + 3 * η) :=
      mul_le_mul_of_nonneg_left hs hu0.le
    have h4 : u * (3 * M + 8 * (u * M) + 3 * η) = 3 * (u * M) + 8 * (u * (u * M)) + 3 * (u * η) := by
      ring
    linarith
  refine ⟨fl64 (a + p), ofRat_fin_of_abs_le hsfin, rep64_fl64 _, ?_⟩
  have hsc : a + p - c = (1 - 1 / (n : ℚ)) * (a - c) + (p - x1 / (n : ℚ)) := by
    rw [← hx]; field_simp; ring
  have e : fl64 (a + p) - c =
      (fl64 (a + p) - (a + p)) + ((1 - 1 / (n : ℚ)) * (a - c) + (p - x1 / (n : ℚ))) := by
    rw [← hsc]; ring
  rw [e]
  have b1 := abs_add_le (fl64 (a + p) - (a + p)) ((1 - 1 / (n : ℚ)) * (a - c) + (p - x1 / (n : ℚ)))
  have b2 := abs_add_le ((1 - 1 / (n : ℚ)) * (a - c)) (p - x1 / (n : ℚ))
  have b3 : |(1 - 1 / (n : ℚ)) * (a - c)| = (1 - 1 / (n : ℚ)) * |a - c| := by
    rw [abs_mul, abs_of_nonneg (by linarith)]
  rw [pow2_m48, pow2_m1072, hu, hη]
  nlinarith

/-! ### k polls with a constant reading -/

/-- `k` polls that all read `c`. -/
def pollConst (n : Int) (c : ℚ) (k : Nat) (avg : F64) : F64 := (fun v => upd n v (fin c))^[k] avg

theorem abs_le_of_between {x lo hi M : ℚ} (h1 : lo ≤ x) (h2 : x ≤ hi) (hlo : |lo| ≤ M) (hhi : |hi| ≤ M) :
    |x| ≤ M := by
  have := abs_le.mp hlo; have := abs_le.mp hhi
  rw [abs_le]; constructor <;> linarith

theorem upd_converge_hist {n : Int} (h2 : 2 ≤ n) (hn : n ≤ 2 ^ 53) {a0 c M : ℚ} (ha : Fin64 a0)
    (hc : Fin64 c) (haM : |a0| ≤ M) (hcM : |c| ≤ M) (hM : M ≤ pow2 1000) (k : Nat) :
    ∃ ak, pollConst n c k (fin a0) = fin ak ∧ Fin64 ak ∧ min a0 c ≤ ak ∧ ak ≤ max a0 c ∧
      |ak - c| ≤ (1 - 1 / (n : ℚ)) ^ k * |a0 - c| + n * (pow2 (-48) * M + pow2 (-1072)) := by
  have hnq : (2 : ℚ) ≤ n := by exact_mod_cast h2
  have hn0 : (0 : ℚ) < n := by linarith
  have hσ : 0 ≤ pow2 (-48) * M + pow2 (-1072) :=
    add_nonneg (mul_nonneg (pow2_nonneg _) ((abs_nonneg a0).trans haM)) (pow2_nonneg _)
  have hminM : |min a0 c| ≤ M := by
    rcases min_choice a0 c with h | h <;> rw [h]
    · exact haM
    · exact hcM
  have hmaxM : |max a0 c| ≤ M := by
    rcases max_choice a0 c with h | h <;> rw [h]
    · exact haM
    · exact hcM
  induction k with
  | zero =>
    refine ⟨a0, rfl, ha, min_le_left _ _, le_max_left _ _, ?_⟩
    have : 0 ≤ (n : ℚ) * (pow2 (-48) * M + pow2 (-1072)) := mul_nonneg hn0.le hσ
    simp only [pow_zero, one_mul]; linarith
  | succ k ih =>
    obtain ⟨ak, e, fk, lk, uk, bk⟩ := ih
    have hakM : |ak| ≤ M := abs_le_of_between lk uk hminM hmaxM
    have hd : |c - ak| ≤ pow2 1023 := by
      have := abs_le.mp hakM; have := abs_le.mp hcM
      have : 2 * pow2 1000 ≤ pow2 1023 := by
        have e : (2 : ℚ) * pow2 1000 = pow2 1001 := by
          rw [show (1001 : ℤ) = 1000 + 1 by norm_num, pow2_succ]
        rw [e]; exact pow2_mono (by norm_num)
      rw [abs_le]; constructor <;> linarith
    obtain ⟨c', e', fc', lc', uc'⟩ := upd_hull h2 hn fk hc hd
    obtain ⟨a', ea', _, ba'⟩ := upd_contract (by omega) hn hakM hcM hM
    have hac : a' = c' := by
      have := ea'.symm.trans e'; exact F64.fin.inj this
    subst hac
    refine ⟨a', ?_, fc', ?_, ?_, ?_⟩
    · unfold pollConst at e ⊢
      rw [Function.iterate_succ_apply', e, ea']
    · exact (le_min lk (min_le_right _ _)).trans lc'
    · exact uc'.trans (max_le uk (le_max_right _ _))
    · have hr0 : 0 ≤ 1 - 1 / (n : ℚ) := by
        have : 1 / (n : ℚ) ≤ 1 := by rw [div_le_one hn0]; linarith
        linarith
      have step : (1 - 1 / (n : ℚ)) * |ak - c| ≤
          (1 - 1 / (n : ℚ)) * ((1 - 1 / (n : ℚ)) ^ k * |a0 - c| +
            n * (pow2 (-48) * M + pow2 (-1072))) := mul_le_mul_of_nonneg_left bk hr0
      have hid : (1 - 1 / (n : ℚ)) * (n * (pow2 (-48) * M + pow2 (-1072))) +
          (pow2 (-48) * M + pow2 (-1072)) = n * (pow2 (-48) * M + pow2 (-1072)) := by
        field_simp; ring
      rw [pow_succ]
      have : (1 - 1 / (n : ℚ)) * ((1 - 1 / (n : ℚ)) ^ k * |a0 - c| +
            n * (pow2 (-48) * M + pow2 (-1072))) =
          (1 - 1 / (n : ℚ)) ^ k * (1 - 1 / (n : ℚ)) * |a0 - c| +
            (1 - 1 / (n : ℚ)) * (n * (pow2 (-48) * M + pow2 (-1072))) := by ring
      linarith

/-! ### min / max of a history -/

theorem q_foldl_max_ge_init (l : List ℚ) (m : ℚ) : m ≤ l.foldl max m := by
  induction l generalizing m with
  | nil => exact le_rfl
  | cons a r ih => exact (le_max_left m a).trans (ih (max m a))

theorem q_foldl_max_ge_mem (l : List ℚ) (m : ℚ) : ∀ x ∈ l, x ≤ l.foldl max m := by
  induction l generalizing m with
  | nil => intro x hx; cases hx
  | cons a r ih =>
    intro x hx
    rcases List.mem_cons.mp hx with rfl | hx
    · exact (le_max_right m x).trans (q_foldl_max_ge_init r (max m x))
    · exact ih (max m a) x hx

theorem q_foldl_min_le_init (l : List ℚ) (m : ℚ) : l.foldl min m ≤ m := by
  induction l generalizing m with
  | nil => exact le_rfl
  | cons a r ih => exact (ih (min m a)).trans (min_le_left m a)

theorem q_foldl_min_le_mem (l : List ℚ) (m : ℚ) : ∀ x ∈ l, l.foldl min m ≤ x := by
  induction l generalizing m with
  | nil => intro x hx; cases hx
  | cons a r ih =>
    intro x hx
    rcases List.mem_cons.mp hx with rfl | hx
    · exact (q_foldl_min_le_init r (min m x)).trans (min_le_right m x)
    · exact ih (min m a) x hx

/-! ### concrete counterexamples (evaluated by the kernel) -/

/-- `2^54` -/
def w54 : ℚ := 18014398509481984
/-- the double nearest to 76.228 -/
def w76 : ℚ := 5364068631174971 / 70368744177664
/-- the double nearest to 0.211 -/
def w0211 : ℚ := 7602076171001397 / 36028797018963968
/-- the largest finite double, `(2^53 - 1) * 2^971` -/
def maxFin : ℚ := 179769313486231570814527423731704356798070567525844996598917476803157260780028538760589558632766878171540458953514382464234321326889464182768467546703537516986049910576551282076245490090389328944075868508455133942304583236903222948165808559332123348274797826204144723168738177180919299881250404026184124858368

theorem maxFin_eq : maxFin = (2 ^ 53 - 1) * pow2 971 := by decide +kernel

theorem fin64_of_pos {q : ℚ} (h0 : 0 ≤ q) (hr : fl64 q = q) (hl : q < f64Huge) : Fin64 q :=
  ⟨hr, by rw [abs_of_nonneg h0]; exact hl⟩

theorem fin64_w54 : Fin64 w54 := fin64_of_pos (by decide +kernel) (by decide +kernel) (by decide +kernel)
theorem fin64_one : Fin64 1 := fin64_of_pos (by decide +kernel) (by decide +kernel) (by decide +kernel)
theorem fin64_w76 : Fin64 w76 := fin64_of_pos (by decide +kernel) (by decide +kernel) (by decide +kernel)
theorem fin64_w0211 : Fin64 w0211 :=
  fin64_of_pos (by decide +kernel) (by decide +kernel) (by decide +kernel)
theorem fin64_maxFin : Fin64 maxFin :=
  fin64_of_pos (by decide +kernel) (by decide +kernel) (by decide +kernel)

/-- window 1, average 2^54, reading 1: the new average is 0. -/
theorem upd_w54 : upd 1 (fin w54) (fin 1) = fin 0 := by decide +kernel

/-- window 1, average 76.228, reading 0.211: the new average is 0.21099999999999852 < 0.211. -/
theorem upd_w76 : upd 1 (fin w76) (fin w0211) = fin (7602076171001344 / 36028797018963968) := by
  decide +kernel

theorem upd_w76_lt : (7602076171001344 / 36028797018963968 : ℚ) < min w76 w0211 := by
  rw [lt_min_iff]; constructor <;> decide +kernel

/-- any window ≥ 2 (here 2), average -MAX, reading +MAX: the difference overflows, the average
    becomes +Inf. -/
theorem upd_overflow : upd 2 (fin (-maxFin)) (fin maxFin) = inf false := by decide +kernel

end Fan2go
