/-
  Order facts about the direct control loop without change limit and the range mapping
  `rescale` of `calculateTargetPwm` (controller.go:461), as needed by C07.
  (Names are prefixed `c07_` so that they cannot clash with `Proofs/Rescale.lean`.)
-/
import Fan2go.Proofs.Linear
import Fan2go.Model.Controller

namespace Fan2go
open F64

theorem coerce_fin (a lo hi : ℚ) :
    coerce (fin a) (fin lo) (fin hi) = fin (if hi < a then hi else if a < lo then lo else a) := by
  unfold coerce
  simp only [gt_fin_fin, lt_fin_fin]
  split_ifs <;> rfl

theorem c07_clamp255_mono {a b : Int} (h : a ≤ b) : clamp255 a ≤ clamp255 b := by
  unfold clamp255; split_ifs <;> omega

theorem c07_clamp255_range (a : Int) : 0 ≤ clamp255 a ∧ clamp255 a ≤ 255 := by
  unfold clamp255; split_ifs <;> omega

/-- The direct loop without `maxPwmChangePerCycle` returns the curve value clamped to 0..255. -/
theorem c07_directCycle_none (indef : Int) {c : Int} (hc : |c| ≤ 2 ^ 53) (cur : Int) :
    directCycle indef none c cur = clamp255 c := by
  unfold directCycle
  simp only
  rw [ofInt_small hc, ofInt_zero, ofInt_255, coerce_fin]
  have : (if (255 : ℚ) < c then (255 : ℚ) else if (c : ℚ) < 0 then 0 else (c : ℚ))
      = ((clamp255 c : Int) : ℚ) := by
    unfold clamp255
    have e1 : ((255 : ℚ) < c) ↔ (c > 255) := by
      constructor <;> intro h <;> [exact_mod_cast h; exact_mod_cast h]
    have e2 : ((c : ℚ) < 0) ↔ (c < 0) := by
      constructor <;> intro h <;> [exact_mod_cast h; exact_mod_cast h]
    simp only [e1, e2]
    split_ifs <;> simp
  rw [this]
  have r := c07_clamp255_range c
  exact toInt_round_intCast indef (by omega) (by omega)

/-- `rescale` is monotone in the (clamped) target for `minPwm ≤ maxPwm`. -/
theorem c07_rescale_mono (indef : Int) {t t' lo hi : Int} (ht : 0 ≤ t) (htt : t ≤ t')
    (ht' : t' ≤ 255) (hlo : |lo| ≤ 2 ^ 50) (hhi : |hi| ≤ 2 ^ 50) (h : lo ≤ hi) :
    rescale indef t lo hi ≤ rescale indef t' lo hi := by
  have hlo' := abs_le.mp hlo
  have hhi' := abs_le.mp hhi
  have key : ∀ s : Int, 0 ≤ s → s ≤ 255 →
      (ofInt s / ofInt 255) * (ofInt hi - ofInt lo)
        = fin (fl64 (fl64 ((s : ℚ) / 255) * ((hi - lo : Int) : ℚ))) ∧
      0 ≤ fl64 ((s : ℚ) / 255) ∧ fl64 ((s : ℚ) / 255) ≤ 1 := by
    intro s s0 s1
    have s0' : (0 : ℚ) ≤ s := by exact_mod_cast s0
    have s1' : (s : ℚ) ≤ 255 := by exact_mod_cast s1
    have r0 : 0 ≤ fl64 ((s : ℚ) / 255) := fl64_nonneg (by positivity)
    have r1 : fl64 ((s : ℚ) / 255) ≤ 1 :=
      fl64_le_of_le_rep rep64_1 (by rw [div_le_one (by norm_num)]; exact s1')
    rw [ofInt_small (abs_le.mpr ⟨by omega, by omega⟩), ofInt_255,
      ofInt_small (hhi.trans (by norm_num)), ofInt_small (hlo.trans (by norm_num)),
      div_fin_of_abs_le (by norm_num)
        (abs_le_pow2_1023_of_le (n := 1) (by
          rw [abs_of_nonneg (by positivity)]
          have : (s : ℚ) / 255 ≤ 1 := by rw [div_le_one (by norm_num)]; exact s1'
          linarith) (by norm_num)),
      sub_fin_fin, ← Int.cast_sub, ofRat_intCast (abs_le.mpr ⟨by omega, by omega⟩)]
    refine ⟨?_, r0, r1⟩
    apply mul_fin_of_abs_le
    have hW0 : (0 : ℚ) ≤ ((hi - lo : Int) : ℚ) := by exact_mod_cast (by omega : 0 ≤ hi - lo)
    have hW1 : ((hi - lo : Int) : ℚ) ≤ 2 ^ 51 := by exact_mod_cast (by omega : hi - lo ≤ 2 ^ 51)
    apply abs_le_pow2_1023_of_le (n := 51) _ (by norm_num)
    rw [abs_of_nonneg (mul_nonneg r0 hW0)]
    nlinarith
  obtain ⟨e, a0, a1⟩ := key t ht (by omega)
  obtain ⟨e', b0, b1⟩ := key t' (by omega) ht'
  unfold rescale
  rw [e, e']
  have hW0 : (0 : ℚ) ≤ ((hi - lo : Int) : ℚ) := by exact_mod_cast (by omega : 0 ≤ hi - lo)
  have hW1 : ((hi - lo : Int) : ℚ) ≤ 2 ^ 51 := by exact_mod_cast (by omega : hi - lo ≤ 2 ^ 51)
  have hr : fl64 ((t : ℚ) / 255) ≤ fl64 ((t' : ℚ) / 255) := by
    apply fl64_mono
    apply div_le_div_of_nonneg_right _ (by norm_num)
    exact_mod_cast htt
  have hm : fl64 (fl64 ((t : ℚ) / 255) * ((hi - lo : Int) : ℚ))
      ≤ fl64 (fl64 ((t' : ℚ) / 255) * ((hi - lo : Int) : ℚ)) :=
    fl64_mono (mul_le_mul_of_nonneg_right hr hW0)
  have hlow : (0 : ℚ) ≤ fl64 (fl64 ((t : ℚ) / 255) * ((hi - lo : Int) : ℚ)) :=
    fl64_nonneg (mul_nonneg a0 hW0)
  have hup : fl64 (fl64 ((t' : ℚ) / 255) * ((hi - lo : Int) : ℚ)) ≤ ((hi - lo : Int) : ℚ) :=
    fl64_le_of_le_rep (rep64_intCast _ (abs_le.mpr ⟨by omega, by omega⟩)) (by nlinarith)
  have := toInt_mono indef hm (by linarith) (by
    have : ((2 : ℚ) ^ 51) < 2 ^ 63 := by norm_num
    linarith)
  omega

/-- **requested PWM is non-decreasing in the curve value** (direct loop, no change limit). -/
theorem c07_request_mono (indef : Int) {c c' cur cur' lo hi : Int} (hc : |c| ≤ 2 ^ 53)
    (hc' : |c'| ≤ 2 ^ 53) (hcc : c ≤ c') (hlo : |lo| ≤ 2 ^ 50) (hhi : |hi| ≤ 2 ^ 50) (h : lo ≤ hi) :
    rescale indef (clamp255 (directCycle indef none c cur)) lo hi
      ≤ rescale indef (clamp255 (directCycle indef none c' cur')) lo hi := by
  rw [c07_directCycle_none indef hc, c07_directCycle_none indef hc']
  have r := c07_clamp255_range (clamp255 c)
  have r' := c07_clamp255_range (clamp255 c')
  exact c07_rescale_mono indef r.1 (c07_clamp255_mono (c07_clamp255_mono hcc)) r'.2 hlo hhi h

end Fan2go
