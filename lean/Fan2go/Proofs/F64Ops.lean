/-
  Order and monotonicity facts about the operations of the executable IEEE-754 model
  (`Fan2go/F64/Basic.lean`) and about `util.Coerce` (`Model/Util.lean`).

  The order used throughout is Go's own `<=` on float64, i.e. `F64.le x y = true`
  (written `le x y`); it is reflexive exactly on the non-NaN values and transitive.
-/
import Fan2go.F64.Lemmas
import Fan2go.Model.Curves

namespace Fan2go
open F64

theorem pow2_lit (n : Nat) : pow2 (n : Int) = (2 : ℚ) ^ n := pow2_natCast' n

/-- discharge the no-overflow side condition of the `*_fin_of_abs_le` lemmas. -/
theorem abs_le_pow2_1023_of_le {x : ℚ} {n : Nat} (h : |x| ≤ 2 ^ n) (hn : (n : Int) ≤ 1023) :
    |x| ≤ pow2 1023 := by
  rw [← pow2_lit] at h
  exact h.trans (pow2_mono hn)

namespace F64

/-! ### comparisons on finite values -/

@[simp] theorem le_fin_fin {a b : ℚ} : le (fin a) (fin b) = true ↔ a ≤ b := by simp [le]
@[simp] theorem lt_fin_fin {a b : ℚ} : lt (fin a) (fin b) = true ↔ a < b := by simp [lt]
@[simp] theorem ge_fin_fin {a b : ℚ} : ge (fin a) (fin b) = true ↔ b ≤ a := by simp [ge]
@[simp] theorem gt_fin_fin {a b : ℚ} : gt (fin a) (fin b) = true ↔ b < a := by simp [gt]
@[simp] theorem feq_fin_fin {a b : ℚ} : feq (fin a) (fin b) = true ↔ a = b := by simp [feq]

@[simp] theorem le_nan_left (x : F64) : le nan x = false := by cases x <;> rfl
@[simp] theorem le_nan_right (x : F64) : le x nan = false := by cases x <;> rfl
@[simp] theorem lt_nan_left (x : F64) : lt nan x = false := by cases x <;> rfl
@[simp] theorem lt_nan_right (x : F64) : lt x nan = false := by cases x <;> rfl
@[simp] theorem ge_nan_left (x : F64) : ge nan x = false := by simp [ge]
@[simp] theorem ge_nan_right (x : F64) : ge x nan = false := by simp [ge]
@[simp] theorem gt_nan_left (x : F64) : gt nan x = false := by simp [gt]
@[simp] theorem gt_nan_right (x : F64) : gt x nan = false := by simp [gt]
@[simp] theorem feq_nan_left (x : F64) : feq nan x = false := by cases x <;> rfl
@[simp] theorem feq_nan_right (x : F64) : feq x nan = false := by cases x <;> rfl

protected theorem le_refl {x : F64} (h : x ≠ nan) : le x x = true := by
  cases x with
  | nan => exact absurd rfl h
  | inf s => cases s <;> rfl
  | fin q => simp

theorem ne_nan_of_le_left {x y : F64} (h : le x y = true) : x ≠ nan := by
  rintro rfl; simp at h

theorem ne_nan_of_le_right {x y : F64} (h : le x y = true) : y ≠ nan := by
  rintro rfl; simp at h

protected theorem le_trans {x y z : F64} (h1 : le x y = true) (h2 : le y z = true) : le x z = true := by
  cases x with
  | nan => simp at h1
  | inf s =>
    cases y with
    | nan => simp at h1
    | inf t =>
      cases z with
      | nan => simp at h2
      | inf u => cases s <;> cases t <;> cases u <;> simp_all [le]
      | fin c => cases s <;> cases t <;> simp_all [le]
    | fin b =>
      cases z with
      | nan => simp at h2
      | inf u => cases s <;> cases u <;> simp_all [le]
      | fin c => cases s <;> simp_all [le]
  | fin a =>
    cases y with
    | nan => simp at h1
    | inf t =>
      cases z with
      | nan => simp at h2
      | inf u => cases t <;> cases u <;> simp_all [le]
      | fin c => cases t <;> simp_all [le]
    | fin b =>
      cases z with
      | nan => simp at h2
      | inf u => cases u <;> simp_all [le]
      | fin c => simp only [le_fin_fin] at *; exact _root_.le_trans h1 h2

/-- `x ≤ y` fails and neither is NaN ⇒ `y < x`. -/
protected theorem lt_of_not_le {x y : F64} (hx : x ≠ nan) (hy : y ≠ nan) (h : le x y = false) :
    lt y x = true := by
  cases x with
  | nan => exact absurd rfl hx
  | inf s =>
    cases y with
    | nan => exact absurd rfl hy
    | inf t => cases s <;> cases t <;> simp_all [le, lt]
    | fin b => cases s <;> simp_all [le, lt]
  | fin a =>
    cases y with
    | nan => exact absurd rfl hy
    | inf t => cases t <;> simp_all [le, lt]
    | fin b => simpa [le, lt] using h

protected theorem le_of_lt {x y : F64} (h : lt x y = true) : le x y = true := by
  cases x with
  | nan => simp at h
  | inf s =>
    cases y with
    | nan => simp at h
    | inf t => cases s <;> cases t <;> simp_all [le, lt]
    | fin b => cases s <;> simp_all [le, lt]
  | fin a =>
    cases y with
    | nan => simp at h
    | inf t => cases t <;> simp_all [le, lt]
    | fin b => simp only [lt_fin_fin, le_fin_fin] at *; exact h.le

/-! ### `ofRat`, `ofInt` -/

theorem ofRat_ne_nan (x : ℚ) : ofRat x ≠ nan := by
  unfold ofRat; simp only; split_ifs <;> simp

/-- Rounding a rational into binary64 (overflow to ±Inf included) is monotone. -/
theorem ofRat_mono {x y : ℚ} (h : x ≤ y) : le (ofRat x) (ofRat y) = true := by
  have hm := fl64_mono h
  have hH : (0 : ℚ) < f64Huge := pow2_pos _
  unfold ofRat; simp only
  split_ifs <;> simp [le] <;> linarith

theorem ofInt_fin {n : Int} (h : |(n : ℚ)| ≤ pow2 1023) : ofInt n = fin (fl64 n) :=
  ofRat_fin_of_abs_le h

/-- every Go `int` (64 bit) converts to a finite float64. -/
theorem ofInt_fin_of_int64 {n : Int} (h : |n| ≤ 2 ^ 63) : ofInt n = fin (fl64 n) := by
  apply ofInt_fin
  have h1 : |(n : ℚ)| ≤ ((2 ^ 63 : Int) : ℚ) := by exact_mod_cast h
  have h2 : (((2 : Int) ^ 63 : Int) : ℚ) = pow2 ((63 : Nat) : Int) := (pow2_natCast_int 63).symm
  rw [h2] at h1
  exact h1.trans (pow2_mono (by norm_num))

theorem ofInt_mono {m n : Int} (h : m ≤ n) : le (ofInt m) (ofInt n) = true :=
  ofRat_mono (by exact_mod_cast h)

@[simp] theorem ofInt_zero : ofInt 0 = fin 0 := by
  simpa using ofInt_small (n := 0) (by norm_num)
@[simp] theorem ofInt_one : ofInt 1 = fin 1 := by
  simpa using ofInt_small (n := 1) (by norm_num)
@[simp] theorem ofInt_100 : ofInt 100 = fin 100 := by
  simpa using ofInt_small (n := 100) (by norm_num)
@[simp] theorem ofInt_255 : ofInt 255 = fin 255 := by
  simpa using ofInt_small (n := 255) (by norm_num)
@[simp] theorem ofInt_1000 : ofInt 1000 = fin 1000 := by
  simpa using ofInt_small (n := 1000) (by norm_num)

/-! ### the four operations on finite operands are `ofRat` of the exact result -/

protected theorem add_def (x y : F64) : x + y = add x y := rfl
protected theorem sub_def (x y : F64) : x - y = sub x y := rfl
protected theorem mul_def (x y : F64) : x * y = mul x y := rfl
protected theorem div_def (x y : F64) : x / y = div x y := rfl

@[simp] theorem add_fin_fin (a b : ℚ) : fin a + fin b = ofRat (a + b) := rfl
@[simp] theorem sub_fin_fin (a b : ℚ) : fin a - fin b = ofRat (a - b) := by
  show add (fin a) (neg (fin b)) = _
  simp only [neg, add, sub_eq_add_neg]
@[simp] theorem mul_fin_fin (a b : ℚ) : fin a * fin b = ofRat (a * b) := rfl
theorem div_fin_fin (a : ℚ) {b : ℚ} (hb : b ≠ 0) : fin a / fin b = ofRat (a / b) := by
  show div (fin a) (fin b) = _
  simp [div, hb]

@[simp] theorem nan_add (x : F64) : nan + x = nan := by cases x <;> rfl
@[simp] theorem add_nan (x : F64) : x + nan = nan := by cases x <;> rfl
@[simp] theorem nan_sub (x : F64) : nan - x = nan := by cases x <;> rfl
@[simp] theorem sub_nan (x : F64) : x - nan = nan := by cases x <;> rfl
@[simp] theorem nan_mul (x : F64) : nan * x = nan := by cases x <;> rfl
@[simp] theorem mul_nan (x : F64) : x * nan = nan := by cases x <;> rfl
@[simp] theorem nan_div (x : F64) : nan / x = nan := by cases x <;> rfl
@[simp] theorem div_nan (x : F64) : x / nan = nan := by cases x <;> rfl
/-- `+Inf + -Inf` is NaN. -/
@[simp] theorem inf_add_inf_ne : inf false + inf true = nan := rfl
@[simp] theorem inf_add_inf_ne' : inf true + inf false = nan := rfl
/-- `0 / 0` is NaN. -/
@[simp] theorem zero_div_zero : fin 0 / fin 0 = nan := rfl

theorem add_fin_of_abs_le {a b : ℚ} (h : |a + b| ≤ pow2 1023) :
    fin a + fin b = fin (fl64 (a + b)) := ofRat_fin_of_abs_le h
theorem sub_fin_of_abs_le {a b : ℚ} (h : |a - b| ≤ pow2 1023) :
    fin a - fin b = fin (fl64 (a - b)) := by rw [sub_fin_fin]; exact ofRat_fin_of_abs_le h
theorem mul_fin_of_abs_le {a b : ℚ} (h : |a * b| ≤ pow2 1023) :
    fin a * fin b = fin (fl64 (a * b)) := ofRat_fin_of_abs_le h
theorem div_fin_of_abs_le {a b : ℚ} (hb : b ≠ 0) (h : |a / b| ≤ pow2 1023) :
    fin a / fin b = fin (fl64 (a / b)) := by rw [div_fin_fin a hb]; exact ofRat_fin_of_abs_le h

/-! ### monotonicity of the operations (second operand finite) -/

theorem add_fin_mono {x y : F64} (c : ℚ) (h : le x y = true) :
    le (x + fin c) (y + fin c) = true := by
  cases x with
  | nan => simp at h
  | inf s =>
    cases y with
    | nan => simp at h
    | inf t => exact h
    | fin b =>
      cases s
      · simp [le] at h
      · show le (inf true) (ofRat (b + c)) = true
        have := ofRat_ne_nan (b + c)
        cases hq : ofRat (b + c) with
        | nan => exact absurd hq this
        | inf u => cases u <;> rfl
        | fin r => rfl
  | fin a =>
    cases y with
    | nan => simp at h
    | inf t =>
      cases t
      · show le (ofRat (a + c)) (inf false) = true
        have := ofRat_ne_nan (a + c)
        cases hq : ofRat (a + c) with
        | nan => exact absurd hq this
        | inf u => cases u <;> rfl
        | fin r => rfl
      · simp [le] at h
    | fin b =>
      rw [le_fin_fin] at h
      exact ofRat_mono (by linarith)

theorem fin_add_mono {x y : F64} (c : ℚ) (h : le x y = true) :
    le (fin c + x) (fin c + y) = true := by
  have key : ∀ z : F64, fin c + z = z + fin c := by
    intro z; cases z with
    | nan => rfl
    | inf s => rfl
    | fin q => simp [add_comm]
  rw [key, key]; exact add_fin_mono c h

theorem sub_fin_mono {x y : F64} (c : ℚ) (h : le x y = true) :
    le (x - fin c) (y - fin c) = true := by
  have key : ∀ z : F64, z - fin c = z + fin (-c) := fun z => rfl
  rw [key, key]; exact add_fin_mono (-c) h

/-- `le (inf true) z` for every non-NaN `z`. -/
theorem neg_inf_le {z : F64} (h : z ≠ nan) : le (inf true) z = true := by
  cases z with
  | nan => exact absurd rfl h
  | inf u => cases u <;> rfl
  | fin r => rfl

theorem le_pos_inf {z : F64} (h : z ≠ nan) : le z (inf false) = true := by
  cases z with
  | nan => exact absurd rfl h
  | inf u => cases u <;> rfl
  | fin r => rfl

theorem mul_fin_mono {x y : F64} {c : ℚ} (hc : 0 < c) (h : le x y = true) :
    le (x * fin c) (y * fin c) = true := by
  have hc0 : c ≠ 0 := hc.ne'
  have hcn : ¬ c < 0 := not_lt.mpr hc.le
  have hinf : ∀ s, inf s * fin c = inf s := by
    intro s; show mul (inf s) (fin c) = _; simp [mul, hc0, hcn]
  cases x with
  | nan => simp at h
  | inf s =>
    cases y with
    | nan => simp at h
    | inf t => rw [hinf, hinf]; exact h
    | fin b =>
      cases s
      · simp [le] at h
      · rw [hinf, mul_fin_fin]; exact neg_inf_le (ofRat_ne_nan _)
  | fin a =>
    cases y with
    | nan => simp at h
    | inf t =>
      cases t
      · rw [hinf, mul_fin_fin]; exact le_pos_inf (ofRat_ne_nan _)
      · simp [le] at h
    | fin b =>
      rw [le_fin_fin] at h
      rw [mul_fin_fin, mul_fin_fin]
      exact ofRat_mono (mul_le_mul_of_nonneg_right h hc.le)

theorem div_fin_mono {x y : F64} {c : ℚ} (hc : 0 < c) (h : le x y = true) :
    le (x / fin c) (y / fin c) = true := by
  have hc0 : c ≠ 0 := hc.ne'
  have hcn : ¬ c < 0 := not_lt.mpr hc.le
  have hinf : ∀ s, inf s / fin c = inf s := by
    intro s; show div (inf s) (fin c) = _; simp [div, hcn]
  cases x with
  | nan => simp at h
  | inf s =>
    cases y with
    | nan => simp at h
    | inf t => rw [hinf, hinf]; exact h
    | fin b =>
      cases s
      · simp [le] at h
      · rw [hinf, div_fin_fin _ hc0]; exact neg_inf_le (ofRat_ne_nan _)
  | fin a =>
    cases y with
    | nan => simp at h
    | inf t =>
      cases t
      · rw [hinf, div_fin_fin _ hc0]; exact le_pos_inf (ofRat_ne_nan _)
      · simp [le] at h
    | fin b =>
      rw [le_fin_fin] at h
      rw [div_fin_fin _ hc0, div_fin_fin _ hc0]
      exact ofRat_mono (div_le_div_of_nonneg_right h hc.le)

/-- multiplication by a non-negative finite factor, finite operands. -/
theorem fin_mul_fin_mono {a b c : ℚ} (hc : 0 ≤ c) (h : a ≤ b) :
    le (fin a * fin c) (fin b * fin c) = true := by
  rw [mul_fin_fin, mul_fin_fin]; exact ofRat_mono (mul_le_mul_of_nonneg_right h hc)

/-! ### `int(x)`: truncation -/

theorem truncRat_def (q : ℚ) : truncRat q = if 0 ≤ q then ⌊q⌋ else -⌊-q⌋ := rfl

theorem truncRat_of_nonneg {q : ℚ} (h : 0 ≤ q) : truncRat q = ⌊q⌋ := by
  rw [truncRat_def, if_pos h]

theorem truncRat_eq_neg_ceil {q : ℚ} (h : q < 0) : truncRat q = ⌈q⌉ := by
  rw [truncRat_def, if_neg (not_le.mpr h), Int.ceil, Int.floor]
  rfl

theorem truncRat_intCast (n : Int) : truncRat (n : ℚ) = n := by
  rw [truncRat_def]
  split_ifs with h
  · exact Int.floor_intCast n
  · rw [← Int.cast_neg, Int.floor_intCast]; ring

theorem truncRat_mono {a b : ℚ} (h : a ≤ b) : truncRat a ≤ truncRat b := by
  rw [truncRat_def, truncRat_def]
  split_ifs with ha hb hb
  · exact Int.floor_le_floor h
  · exact absurd (ha.trans h) hb
  · have h1 : 0 ≤ ⌊-a⌋ := Int.floor_nonneg.mpr (by linarith)
    have h2 : 0 ≤ ⌊b⌋ := Int.floor_nonneg.mpr hb
    omega
  · have : ⌊-b⌋ ≤ ⌊-a⌋ := Int.floor_le_floor (by linarith)
    omega

theorem truncRat_nonneg {q : ℚ} (h : 0 ≤ q) : 0 ≤ truncRat q := by
  have := truncRat_mono h; rwa [← Int.cast_zero, truncRat_intCast] at this

theorem truncRat_le_of_le_intCast {q : ℚ} {n : Int} (h : q ≤ n) : truncRat q ≤ n := by
  have := truncRat_mono h; rwa [truncRat_intCast] at this

theorem le_truncRat_of_intCast_le {q : ℚ} {n : Int} (h : (n : ℚ) ≤ q) : n ≤ truncRat q := by
  have := truncRat_mono h; rwa [truncRat_intCast] at this

/-- truncation toward zero never moves away from zero: `|q − trunc q| < 1`. -/
theorem truncRat_le_self {q : ℚ} (h : 0 ≤ q) : (truncRat q : ℚ) ≤ q ∧ q < truncRat q + 1 := by
  rw [truncRat_of_nonneg h]; exact ⟨Int.floor_le q, Int.lt_floor_add_one q⟩

theorem toInt_fin_of_range (indef : Int) {q : ℚ} (h1 : -(2:Int)^63 ≤ truncRat q)
    (h2 : truncRat q < (2:Int)^63) : toInt indef (fin q) = truncRat q := by
  unfold toInt; simp only
  rw [if_neg]; omega

/-- the common case: a value between two "small" integers. -/
theorem toInt_fin_of_bounds (indef : Int) {q : ℚ} {lo hi : Int} (hlo : (lo : ℚ) ≤ q)
    (hhi : q ≤ hi) (h1 : -(2:Int)^63 ≤ lo) (h2 : hi < (2:Int)^63) :
    toInt indef (fin q) = truncRat q ∧ lo ≤ truncRat q ∧ truncRat q ≤ hi := by
  have a := le_truncRat_of_intCast_le hlo
  have b := truncRat_le_of_le_intCast hhi
  exact ⟨toInt_fin_of_range indef (by omega) (by omega), a, b⟩

@[simp] theorem toInt_nan (indef : Int) : toInt indef nan = indef := rfl
@[simp] theorem toInt_inf (indef : Int) (s : Bool) : toInt indef (inf s) = indef := rfl

theorem toInt_intCast (indef : Int) {n : Int} (h1 : -(2:Int)^63 ≤ n) (h2 : n < (2:Int)^63) :
    toInt indef (fin (n : ℚ)) = n := by
  rw [toInt_fin_of_range indef] <;> rw [truncRat_intCast] <;> assumption

/-- `int(·)` is monotone on finite values inside the int64 range. -/
theorem toInt_mono (indef : Int) {a b : ℚ} (h : a ≤ b) (h1 : -(2:ℚ)^63 ≤ a) (h2 : b < (2:ℚ)^63) :
    toInt indef (fin a) ≤ toInt indef (fin b) := by
  have hm := truncRat_mono h
  have ha : -(2:Int)^63 ≤ truncRat a := le_truncRat_of_intCast_le (by push_cast; exact h1)
  have hb : truncRat b ≤ (2:Int)^63 := truncRat_le_of_le_intCast (by push_cast; exact h2.le)
  have hb' : truncRat b < (2:Int)^63 := by
    rcases lt_or_eq_of_le hb with h | h
    · exact h
    · exfalso
      have hb0 : 0 ≤ b := by
        by_contra hneg
        have : truncRat b ≤ 0 := truncRat_le_of_le_intCast (by push_cast; linarith)
        omega
      have := (truncRat_le_self hb0).1
      rw [h] at this; push_cast at this; linarith
  rw [toInt_fin_of_range indef ha (by omega), toInt_fin_of_range indef (by omega) hb']
  exact hm

/-! ### `math.Round` -/

theorem roundRat_def (q : ℚ) :
    roundRat q = if 0 ≤ q then ⌊q + 1/2⌋ else -⌊-q + 1/2⌋ := rfl

theorem roundRat_intCast (n : Int) : roundRat (n : ℚ) = n := by
  rw [roundRat_def]
  split_ifs with h
  · rw [Int.floor_eq_iff]; constructor <;> linarith
  · have : ⌊-(n : ℚ) + 1/2⌋ = -n := by
      rw [Int.floor_eq_iff]; constructor <;> push_cast <;> linarith
    rw [this]; ring

theorem roundRat_mono {a b : ℚ} (h : a ≤ b) : roundRat a ≤ roundRat b := by
  rw [roundRat_def, roundRat_def]
  split_ifs with ha hb hb
  · exact Int.floor_le_floor (by linarith)
  · exact absurd (ha.trans h) hb
  · have h1 : 0 ≤ ⌊-a + 1/2⌋ := Int.floor_nonneg.mpr (by linarith)
    have h2 : 0 ≤ ⌊b + 1/2⌋ := Int.floor_nonneg.mpr (by linarith)
    omega
  · have : ⌊-b + 1/2⌋ ≤ ⌊-a + 1/2⌋ := Int.floor_le_floor (by linarith)
    omega

theorem roundRat_le_of_le_intCast {q : ℚ} {n : Int} (h : q ≤ n) : roundRat q ≤ n := by
  have := roundRat_mono h; rwa [roundRat_intCast] at this

theorem le_roundRat_of_intCast_le {q : ℚ} {n : Int} (h : (n : ℚ) ≤ q) : n ≤ roundRat q := by
  have := roundRat_mono h; rwa [roundRat_intCast] at this

@[simp] theorem round_fin (q : ℚ) : round (fin q) = fin (roundRat q) := rfl

theorem round_mono {x y : F64} (h : le x y = true) : le (round x) (round y) = true := by
  cases x with
  | nan => simp at h
  | inf s =>
    cases y with
    | nan => simp at h
    | inf t => exact h
    | fin b => cases s <;> simp_all [le, round]
  | fin a =>
    cases y with
    | nan => simp at h
    | inf t => cases t <;> simp_all [le, round]
    | fin b =>
      simp only [round_fin, le_fin_fin] at *
      exact_mod_cast roundRat_mono h

/-- `int(math.Round(float64(n))) = n`. -/
theorem toInt_round_intCast (indef : Int) {n : Int} (h1 : -(2:Int)^63 ≤ n) (h2 : n < (2:Int)^63) :
    toInt indef (round (fin (n : ℚ))) = n := by
  rw [round_fin, roundRat_intCast, toInt_intCast indef h1 h2]

/-- `int(math.Round(q))` for `q` between two small integers. -/
theorem toInt_round_of_bounds (indef : Int) {q : ℚ} {lo hi : Int} (hlo : (lo : ℚ) ≤ q)
    (hhi : q ≤ hi) (h1 : -(2:Int)^63 ≤ lo) (h2 : hi < (2:Int)^63) :
    toInt indef (round (fin q)) = roundRat q ∧ lo ≤ roundRat q ∧ roundRat q ≤ hi := by
  have a := le_roundRat_of_intCast_le hlo
  have b := roundRat_le_of_le_intCast hhi
  rw [round_fin, toInt_intCast indef (by omega) (by omega)]
  exact ⟨rfl, a, b⟩

/-! ### `float64(float32(x))` -/

theorem toF32_ne_nan {x : F64} (h : x ≠ nan) : toF32 x ≠ nan := by
  cases x with
  | nan => exact absurd rfl h
  | inf s => simp [toF32]
  | fin q => unfold toF32; simp only; split_ifs <;> simp

theorem toF32_mono {x y : F64} (h : le x y = true) : le (toF32 x) (toF32 y) = true := by
  have hH : (0 : ℚ) < f32Huge := pow2_pos _
  cases x with
  | nan => simp at h
  | inf s =>
    cases y with
    | nan => simp at h
    | inf t => exact h
    | fin b =>
      cases s
      · simp [le] at h
      · exact neg_inf_le (toF32_ne_nan (by simp))
  | fin a =>
    cases y with
    | nan => simp at h
    | inf t =>
      cases t
      · exact le_pos_inf (toF32_ne_nan (by simp))
      · simp [le] at h
    | fin b =>
      rw [le_fin_fin] at h
      have hm := fl32_mono h
      unfold toF32; simp only
      split_ifs <;> simp [le] <;> linarith

theorem rep32_pow2_127 : Rep32 (pow2 127) := rep32_pow2 127 (by norm_num)

theorem toF32_fin_of_abs_le {q : ℚ} (h : |q| ≤ pow2 127) : toF32 (fin q) = fin (fl32 q) := by
  have hr := rep32_pow2_127
  have hb := abs_le.mp h
  have u : fl32 q ≤ pow2 127 := fl32_le_of_le_rep hr hb.2
  have l : -pow2 127 ≤ fl32 q := le_fl32_of_rep_le (rep_neg hr) hb.1
  have hlt : pow2 127 < f32Huge := pow2_lt (by norm_num)
  unfold toF32; simp only
  rw [if_neg (by linarith), if_neg (by linarith)]

/-- a binary32-representable value passes the cast unchanged. -/
theorem toF32_of_rep32 {q : ℚ} (hq : Rep32 q) (h : |q| ≤ pow2 127) : toF32 (fin q) = fin q := by
  rw [toF32_fin_of_abs_le h, rep32_iff_fl32.mp hq]

/-! ### `math.Min`, `math.Max` on finite values -/

@[simp] theorem fmin_fin_fin (a b : ℚ) : fmin (fin a) (fin b) = fin (min a b) := by
  simp only [fmin]; split_ifs with h
  · rw [min_eq_left h]
  · rw [min_eq_right (not_le.mp h).le]

@[simp] theorem fmax_fin_fin (a b : ℚ) : fmax (fin a) (fin b) = fin (max a b) := by
  simp only [fmax]; split_ifs with h
  · rw [max_eq_right h]
  · rw [max_eq_left (not_le.mp h).le]

end F64

/-! ### `util.Coerce` -/

/-- **NaN leaks through `Coerce`**: both guards are comparisons, and every comparison with NaN is
    false. -/
theorem coerce_nan (lo hi : F64) : coerce nan lo hi = nan := by
  simp [coerce]

/-- For a non-NaN value and finite bounds `lo ≤ hi` the result is inside `[lo, hi]`. -/
theorem coerce_range {x : F64} {lo hi : ℚ} (hx : x ≠ nan) (h : lo ≤ hi) :
    ∃ q, coerce x (fin lo) (fin hi) = fin q ∧ lo ≤ q ∧ q ≤ hi := by
  cases x with
  | nan => exact absurd rfl hx
  | inf s =>
    cases s
    · exact ⟨hi, by simp [coerce, gt, lt], h, le_refl _⟩
    · exact ⟨lo, by simp [coerce, gt, lt], le_refl _, h⟩
  | fin a =>
    unfold coerce
    by_cases h1 : hi < a
    · exact ⟨hi, by simp [h1], h, le_refl _⟩
    · by_cases h2 : a < lo
      · exact ⟨lo, by simp [h1, h2], le_refl _, h⟩
      · exact ⟨a, by simp [h1, h2], not_lt.mp h2, not_lt.mp h1⟩

/-- `Coerce` is the identity on values already inside the interval. -/
theorem coerce_id {a lo hi : ℚ} (h1 : lo ≤ a) (h2 : a ≤ hi) :
    coerce (fin a) (fin lo) (fin hi) = fin a := by
  simp [coerce, not_lt.mpr h1, not_lt.mpr h2]

end Fan2go
