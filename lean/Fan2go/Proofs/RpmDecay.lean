/-
  How fast the RPM moving average of a hwmon fan (`util.UpdateSimpleMovingAvg`, an exponential
  average with weight `1/n`) falls below 1 when the fan reads 0 RPM, in IEEE-754 binary64 arithmetic:
  one poll contracts an average `≥ 1` by the factor `1 − 31/(32 n)`, so `16·n` polls bring any average
  `≤ 2^15 = 32768` below 1, where `int(avg) <= 0` holds.
-/
import Fan2go.Proofs.Rescale
import Fan2go.Proofs.LoopRange
namespace Fan2go
open F64

/-- one poll at 0 RPM -/
def zeroPoll (n : Int) (a : F64) : F64 := updateSimpleMovingAvg a n (ofInt 0)

/-- the same on the rational payload -/
def decayStep (n : Int) (q : ℚ) : ℚ := fl64 (q - fl64 (fl64 (1 / (n : ℚ)) * q))

theorem pow2_neg53 : pow2 (-53) = 1 / 2 ^ 53 := by rw [pow2_def]; norm_num
theorem pow2_neg20 : pow2 (-20) = 1 / 2 ^ 20 := by rw [pow2_def]; norm_num
theorem pow2_15 : pow2 15 = 2 ^ 15 := by rw [pow2_def]; norm_num

theorem pow2_15_le : pow2 15 ≤ pow2 1023 := pow2_mono (by norm_num)

section step
variable {n : Int} {q : ℚ}

/-- the weight `float64(1)/float64(n)` -/
theorem weight_bounds (hn : 1 ≤ n) (hn' : n ≤ 2 ^ 20) :
    pow2 (-20) ≤ fl64 (1 / (n : ℚ)) ∧ fl64 (1 / (n : ℚ)) ≤ 1 ∧
      1 / (n : ℚ) * (1 - 1 / 2 ^ 53) ≤ fl64 (1 / (n : ℚ)) := by
  have hnq : (1 : ℚ) ≤ n := by exact_mod_cast hn
  have hnq' : (n : ℚ) ≤ 2 ^ 20 := by exact_mod_cast hn'
  have hpos : (0 : ℚ) < n := by linarith
  have hk1 : 1 / (n : ℚ) ≤ 1 := by rw [div_le_one hpos]; exact hnq
  have hk0 : pow2 (-20) ≤ 1 / (n : ℚ) := by
    rw [pow2_neg20]; exact one_div_le_one_div_of_le hpos hnq'
  refine ⟨le_fl64_of_rep_le (rep64_pow2 _ (by norm_num)) hk0, ?_, ?_⟩
  · have := fl64_mono hk1; rwa [fl64_one] at this
  · have hnorm : pow2 (-1022) ≤ |1 / (n : ℚ)| := by
      rw [abs_of_pos (by positivity)]
      exact le_trans (pow2_mono (by norm_num)) hk0
    have := (abs_le.mp (fl64_rel_err hnorm)).1
    rw [abs_of_pos (by positivity), pow2_neg53] at this
    linarith

theorem decayStep_bounds (hn : 1 ≤ n) (hn' : n ≤ 2 ^ 20) (hrep : Rep64 q) (h0 : 0 ≤ q) :
    0 ≤ fl64 (fl64 (1 / (n : ℚ)) * q) ∧ fl64 (fl64 (1 / (n : ℚ)) * q) ≤ q ∧
      0 ≤ decayStep n q ∧ decayStep n q ≤ q := by
  obtain ⟨hc0, hc1, -⟩ := weight_bounds hn hn'
  have hcpos : 0 ≤ fl64 (1 / (n : ℚ)) := le_trans (pow2_nonneg _) hc0
  have hm0 : 0 ≤ fl64 (fl64 (1 / (n : ℚ)) * q) := fl64_nonneg (mul_nonneg hcpos h0)
  have hm1 : fl64 (fl64 (1 / (n : ℚ)) * q) ≤ q :=
    fl64_le_of_le_rep hrep (by nlinarith)
  refine ⟨hm0, hm1, ?_, ?_⟩
  · exact fl64_nonneg (by linarith)
  · exact fl64_le_of_le_rep hrep (by linarith)

/-- one poll at 0 RPM contracts an average `≥ 1` by `1 − 31/(32 n)` -/
theorem decayStep_contract (hn : 1 ≤ n) (hn' : n ≤ 2 ^ 20) (hrep : Rep64 q) (h1 : 1 ≤ q) :
    decayStep n q ≤ q * (1 - 31 / (32 * (n : ℚ))) := by
  obtain ⟨hc0, hc1, hclo⟩ := weight_bounds hn hn'
  obtain ⟨hm0, hm1, -, -⟩ := decayStep_bounds hn hn' hrep (by linarith : (0 : ℚ) ≤ q)
  have hnq : (1 : ℚ) ≤ n := by exact_mod_cast hn
  have hnq' : (n : ℚ) ≤ 2 ^ 20 := by exact_mod_cast hn'
  have hpos : (0 : ℚ) < n := by linarith
  have hq0 : (0 : ℚ) ≤ q := by linarith
  set c := fl64 (1 / (n : ℚ)) with hc
  set m := fl64 (c * q) with hm
  -- s = q / n
  have hs_def : q * (31 / (32 * (n : ℚ))) = 31 / 32 * (1 / (n : ℚ) * q) := by
    field_simp
  have hs_lo : q / 2 ^ 20 ≤ 1 / (n : ℚ) * q := by
    have : (1 : ℚ) / 2 ^ 20 ≤ 1 / (n : ℚ) := one_div_le_one_div_of_le hpos hnq'
    have := mul_le_mul_of_nonneg_right this hq0
    linarith
  -- c*q ≥ (1-u) s
  have hX : (1 - 1 / 2 ^ 53) * (1 / (n : ℚ) * q) ≤ c * q := by
    have := mul_le_mul_of_nonneg_right hclo hq0
    linarith
  -- m ≥ (1-u) c q
  have hcq_norm : pow2 (-1022) ≤ |c * q| := by
    have hcq : pow2 (-20) ≤ c * q := by
      calc pow2 (-20) = pow2 (-20) * 1 := (mul_one _).symm
        _ ≤ c * q := mul_le_mul hc0 h1 (by norm_num) (le_trans (pow2_nonneg _) hc0)
    rw [abs_of_nonneg (le_trans (pow2_nonneg _) hcq)]
    exact le_trans (pow2_mono (by norm_num)) hcq
  have hcq0 : 0 ≤ c * q := mul_nonneg (le_trans (pow2_nonneg _) hc0) hq0
  have hm_lo : (c * q) * (1 - 1 / 2 ^ 53) ≤ m := by
    have := (abs_le.mp (fl64_rel_err hcq_norm)).1
    rw [abs_of_nonneg hcq0, pow2_neg53] at this
    linarith
  -- q' ≤ (q - m)(1+u) + δ
  have hd0 : 0 ≤ q - m := by linarith
  have hq' : decayStep n q ≤ (q - m) + 1 / 2 ^ 53 * (q - m) + 1 / 2 ^ 53 := by
    have := (abs_le.mp (fl64_abs_err (q - m))).2
    rw [abs_of_nonneg hd0, pow2_neg53] at this
    have hδ : pow2 (-1075) ≤ 1 / 2 ^ 53 := by
      rw [← pow2_neg53]; exact pow2_mono (by norm_num)
    show fl64 (q - m) ≤ _
    linarith
  rw [mul_sub, mul_one, hs_def]
  generalize 1 / (n : ℚ) * q = s at hs_lo hX ⊢
  generalize c * q = X at hX hm_lo
  generalize decayStep n q = q' at hq'
  linarith

end step

/-! ### the power bound -/

theorem rho_pow_le (N : ℕ) (hN : 1 ≤ N) : (1 - 31 / (32 * (N : ℚ))) ^ N ≤ 32 / 63 := by
  have hNq : (1 : ℚ) ≤ N := by exact_mod_cast hN
  have hpos : (0 : ℚ) < N := by linarith
  set x : ℚ := 31 / (32 * (N : ℚ)) with hx
  have hx0 : 0 < x := by positivity
  have hx1 : x ≤ 31 / 32 := by
    rw [hx, div_le_div_iff₀ (by positivity) (by norm_num)]
    nlinarith
  have hb : 1 + (N : ℚ) * x ≤ (1 + x) ^ N := one_add_mul_le_pow (by linarith) N
  have hNx : (N : ℚ) * x = 31 / 32 := by rw [hx]; field_simp
  have hprod : (1 - x) ^ N * (1 + x) ^ N ≤ 1 := by
    rw [← mul_pow]
    apply pow_le_one₀
    · nlinarith
    · nlinarith
  have h1x : 0 ≤ (1 - x) ^ N := pow_nonneg (by linarith) N
  have hbig : (63 : ℚ) / 32 ≤ (1 + x) ^ N := by rw [hNx] at hb; linarith
  -- (1-x)^N ≤ 1/(1+x)^N ≤ 32/63
  have : (1 - x) ^ N * (63 / 32) ≤ 1 := le_trans (mul_le_mul_of_nonneg_left hbig h1x) hprod
  linarith

theorem rho_pow16_small (N : ℕ) (hN : 1 ≤ N) :
    (1 - 31 / (32 * (N : ℚ))) ^ (16 * N) * 2 ^ 15 < 1 := by
  have hNq : (1 : ℚ) ≤ N := by exact_mod_cast hN
  have h0 : (0 : ℚ) ≤ 1 - 31 / (32 * (N : ℚ)) := by
    have : 31 / (32 * (N : ℚ)) ≤ 31 / 32 := by
      rw [div_le_div_iff₀ (by positivity) (by norm_num)]; nlinarith
    linarith
  have h := rho_pow_le N hN
  have : (1 - 31 / (32 * (N : ℚ))) ^ (16 * N) ≤ (32 / 63 : ℚ) ^ 16 := by
    rw [show 16 * N = N * 16 from Nat.mul_comm _ _, pow_mul]
    exact pow_le_pow_left₀ (pow_nonneg h0 N) h 16
  calc (1 - 31 / (32 * (N : ℚ))) ^ (16 * N) * 2 ^ 15 ≤ (32 / 63 : ℚ) ^ 16 * 2 ^ 15 :=
        mul_le_mul_of_nonneg_right this (by norm_num)
    _ < 1 := by norm_num

/-! ### iterating -/

/-- invariant of the iteration on payloads -/
theorem decay_iter (N : ℕ) (hN : 1 ≤ N) (hN' : (N : Int) ≤ 2 ^ 20) (q : ℚ) (hrep : Rep64 q)
    (h0 : 0 ≤ q) (k : ℕ) :
    Rep64 ((decayStep N)^[k] q) ∧ 0 ≤ (decayStep N)^[k] q ∧ (decayStep N)^[k] q ≤ q ∧
      ((decayStep N)^[k] q < 1 ∨ (decayStep N)^[k] q ≤ (1 - 31 / (32 * (N : ℚ))) ^ k * q) := by
  have hn : (1 : Int) ≤ N := by exact_mod_cast hN
  induction k with
  | zero => exact ⟨hrep, h0, le_refl _, Or.inr (by simp)⟩
  | succ k ih =>
    obtain ⟨r, a0, a1, a2⟩ := ih
    rw [Function.iterate_succ_apply']
    obtain ⟨-, -, b0, b1⟩ := decayStep_bounds hn hN' r a0
    refine ⟨rep64_fl64 _, b0, le_trans b1 a1, ?_⟩
    rcases lt_or_ge ((decayStep N)^[k] q) 1 with hlt | hge
    · left; exact lt_of_le_of_lt b1 hlt
    · right
      rcases a2 with a2 | a2
      · exact absurd a2 (not_lt.mpr hge)
      · have hc := decayStep_contract hn hN' r hge
        have hρ0 : (0 : ℚ) ≤ 1 - 31 / (32 * ((N : Int) : ℚ)) := by
          have hNq : (1 : ℚ) ≤ ((N : Int) : ℚ) := by exact_mod_cast hN
          have : 31 / (32 * ((N : Int) : ℚ)) ≤ 31 / 32 := by
            rw [div_le_div_iff₀ (by positivity) (by norm_num)]; nlinarith
          linarith
        have hcast : ((N : Int) : ℚ) = (N : ℚ) := by norm_cast
        rw [hcast] at hc hρ0
        calc decayStep N ((decayStep N)^[k] q)
            ≤ (decayStep N)^[k] q * (1 - 31 / (32 * (N : ℚ))) := hc
          _ ≤ ((1 - 31 / (32 * (N : ℚ))) ^ k * q) * (1 - 31 / (32 * (N : ℚ))) :=
              mul_le_mul_of_nonneg_right a2 hρ0
          _ = (1 - 31 / (32 * (N : ℚ))) ^ (k + 1) * q := by ring

/-- after `16·n` polls at 0 RPM the payload is below 1 -/
theorem decay_below_one (N : ℕ) (hN : 1 ≤ N) (hN' : (N : Int) ≤ 2 ^ 20) (q : ℚ) (hrep : Rep64 q)
    (h0 : 0 ≤ q) (hq : q ≤ 2 ^ 15) :
    0 ≤ (decayStep N)^[16 * N] q ∧ (decayStep N)^[16 * N] q < 1 := by
  obtain ⟨-, a0, -, a2⟩ := decay_iter N hN hN' q hrep h0 (16 * N)
  refine ⟨a0, ?_⟩
  rcases a2 with a2 | a2
  · exact a2
  · have hs := rho_pow16_small N hN
    have hρ : (0 : ℚ) ≤ (1 - 31 / (32 * (N : ℚ))) ^ (16 * N) := by
      apply pow_nonneg
      have hNq : (1 : ℚ) ≤ N := by exact_mod_cast hN
      have : 31 / (32 * (N : ℚ)) ≤ 31 / 32 := by
        rw [div_le_div_iff₀ (by positivity) (by norm_num)]; nlinarith
      linarith
    calc (decayStep N)^[16 * N] q ≤ (1 - 31 / (32 * (N : ℚ))) ^ (16 * N) * q := a2
      _ ≤ (1 - 31 / (32 * (N : ℚ))) ^ (16 * N) * 2 ^ 15 := mul_le_mul_of_nonneg_left hq hρ
      _ < 1 := hs

/-! ### back to `F64` -/

/-- `zeroPoll` on a representable non-negative payload `≤ 2^15` is `decayStep` -/
theorem zeroPoll_fin {n : Int} (hn : 1 ≤ n) (hn' : n ≤ 2 ^ 20) {q : ℚ} (hrep : Rep64 q) (h0 : 0 ≤ q)
    (hq : q ≤ 2 ^ 15) : zeroPoll n (F64.fin q) = F64.fin (decayStep n q) := by
  obtain ⟨hc0, hc1, -⟩ := weight_bounds hn hn'
  obtain ⟨hm0, hm1, -, -⟩ := decayStep_bounds hn hn' hrep h0
  have hcpos : 0 ≤ fl64 (1 / (n : ℚ)) := le_trans (pow2_nonneg _) hc0
  have hnq : (1 : ℚ) ≤ n := by exact_mod_cast hn
  have hbig : (2 : ℚ) ^ 15 ≤ pow2 1023 := by rw [← pow2_15]; exact pow2_15_le
  have hone : (1 : ℚ) ≤ pow2 1023 := by
    calc (1 : ℚ) = pow2 0 := pow2_zero.symm
      _ ≤ pow2 1023 := pow2_mono (by norm_num)
  have hnsmall : |n| ≤ 2 ^ 53 := by rw [abs_le]; constructor <;> omega
  unfold zeroPoll updateSimpleMovingAvg
  rw [ofInt_small hnsmall, ofInt_zero_fin]
  -- 1/n
  have e1 : (F64.one / F64.fin (n : ℚ) : F64) = F64.fin (fl64 (1 / (n : ℚ))) := by
    have hne : (n : ℚ) ≠ 0 := by linarith
    rw [show F64.one = F64.fin 1 from rfl, F64.fin_div_fin 1 _ hne, ofRat_fin_of_abs_le]
    rw [abs_of_pos (by positivity)]
    have : 1 / (n : ℚ) ≤ 1 := by rw [div_le_one (by linarith)]; exact hnq
    linarith
  -- 0 - q
  have e2 : (F64.fin 0 - F64.fin q : F64) = F64.fin (-q) := by
    rw [F64.fin_sub_fin, zero_sub, ofRat_of_rep (rep64_neg hrep)]
    rw [abs_neg, abs_of_nonneg h0]; linarith
  -- c * (-q)
  have e3 : (F64.fin (fl64 (1 / (n : ℚ))) * F64.fin (-q) : F64)
      = F64.fin (-(fl64 (fl64 (1 / (n : ℚ)) * q))) := by
    rw [F64.fin_mul_fin, mul_neg, ofRat_fin_of_abs_le, fl64_neg]
    rw [abs_neg, abs_of_nonneg (mul_nonneg hcpos h0)]
    have : fl64 (1 / (n : ℚ)) * q ≤ q := by nlinarith
    linarith
  -- q + (-m)
  have e4 : (F64.fin q + F64.fin (-(fl64 (fl64 (1 / (n : ℚ)) * q))) : F64) = F64.fin (decayStep n q) := by
    rw [F64.fin_add_fin, ofRat_fin_of_abs_le]
    · unfold decayStep; rw [sub_eq_add_neg]
    · rw [← sub_eq_add_neg, abs_of_nonneg (by linarith)]; linarith
  rw [e1, e2, e3, e4]

/-- K polls at 0 RPM, on `F64` -/
theorem zeroPoll_iter {n : Int} (hn : 1 ≤ n) (hn' : n ≤ 2 ^ 20) {q : ℚ} (hrep : Rep64 q) (h0 : 0 ≤ q)
    (hq : q ≤ 2 ^ 15) (k : ℕ) : (zeroPoll n)^[k] (F64.fin q) = F64.fin ((decayStep n)^[k] q) := by
  obtain ⟨N, rfl⟩ := Int.eq_ofNat_of_zero_le (by omega : 0 ≤ n)
  have hN : 1 ≤ N := by exact_mod_cast hn
  induction k with
  | zero => rfl
  | succ k ih =>
    rw [Function.iterate_succ_apply', Function.iterate_succ_apply', ih]
    obtain ⟨r, a0, a1, -⟩ := decay_iter N hN hn' q hrep h0 k
    exact zeroPoll_fin hn hn' r a0 (le_trans a1 hq)

/-- **hwmon fans notice a stall within `16·n` polls**: from any representable average in
    `[0, 32768]`, `16·n` polls reading 0 RPM bring the average into `[0, 1)`, where `int(avg) <= 0`. -/
theorem hwmon_decay (indef : Int) {n : Int} (hn : 1 ≤ n) (hn' : n ≤ 2 ^ 20) {q : ℚ} (hrep : Rep64 q)
    (h0 : 0 ≤ q) (hq : q ≤ 2 ^ 15) :
    ∃ q', (zeroPoll n)^[16 * n.toNat] (F64.fin q) = F64.fin q' ∧ 0 ≤ q' ∧ q' < 1 ∧
      toInt indef ((zeroPoll n)^[16 * n.toNat] (F64.fin q)) ≤ 0 := by
  obtain ⟨N, rfl⟩ := Int.eq_ofNat_of_zero_le (by omega : 0 ≤ n)
  have hN : 1 ≤ N := by exact_mod_cast hn
  rw [Int.toNat_natCast, zeroPoll_iter hn hn' hrep h0 hq]
  obtain ⟨b0, b1⟩ := decay_below_one N hN hn' q hrep h0 hq
  exact ⟨_, rfl, b0, b1, by rw [toInt_fin_lt_one indef b0 b1]⟩

/-- the average never increases and never becomes negative while the fan reads 0 RPM -/
theorem zeroPoll_monotone {n : Int} (hn : 1 ≤ n) (hn' : n ≤ 2 ^ 20) {q : ℚ} (hrep : Rep64 q) (h0 : 0 ≤ q)
    (hq : q ≤ 2 ^ 15) :
    ∃ q', zeroPoll n (F64.fin q) = F64.fin q' ∧ Rep64 q' ∧ 0 ≤ q' ∧ q' ≤ q :=
  ⟨_, zeroPoll_fin hn hn' hrep h0 hq, rep64_fl64 _, (decayStep_bounds hn hn' hrep h0).2.2.1,
    (decayStep_bounds hn hn' hrep h0).2.2.2⟩

/-- after the reset to 1 a single poll at 0 RPM brings the average below 1 again -/
theorem zeroPoll_one_lt_one {n : Int} (hn : 1 ≤ n) (hn' : n ≤ 2 ^ 20) :
    ∃ q', zeroPoll n (F64.fin 1) = F64.fin q' ∧ 0 ≤ q' ∧ q' < 1 := by
  have hrep : Rep64 (1 : ℚ) := fl64_one
  refine ⟨_, zeroPoll_fin hn hn' hrep (by norm_num) (by norm_num),
    (decayStep_bounds hn hn' hrep (by norm_num)).2.2.1, ?_⟩
  have hc := decayStep_contract hn hn' hrep (le_refl _)
  have hnq : (1 : ℚ) ≤ n := by exact_mod_cast hn
  have : (0 : ℚ) < 31 / (32 * (n : ℚ)) := by positivity
  linarith

end Fan2go
