/-
  Proofs about `Model/Config.lean` (the validator) and its connection to `Model/Curves.lean`
  (evaluation of the instantiated curve table). Property C11.
-/
import Mathlib.Tactic
import Mathlib.Data.Finset.Card
import Mathlib.Logic.Relation
import Mathlib.Data.List.Nodup
import Fan2go.Model.Config

namespace Fan2go
namespace Cfg
open Relation

/-! ## vocabulary of the property -/

/-- fan ids, sensor ids and curve ids are each pairwise distinct -/
def uniqueIds (c : Configuration) : Prop :=
  (c.sensors.map (·.id)).Nodup ∧ (c.curves.map (·.id)).Nodup ∧ (c.fans.map (·.id)).Nodup

/-- every entry has exactly one sub-configuration ("backend") -/
def oneBackend (c : Configuration) : Prop :=
  (∀ s ∈ c.sensors, s.subConfigs = 1) ∧ (∀ cc ∈ c.curves, cc.subConfigs = 1) ∧
  (∀ f ∈ c.fans, f.subConfigs = 1)

def SensorDefined (c : Configuration) (id : String) : Prop := ∃ s ∈ c.sensors, s.id = id
def CurveDefined (c : Configuration) (id : String) : Prop := ∃ cc ∈ c.curves, cc.id = id

/-- every sensor id of a linear/pid curve, every member id of a function curve and every curve
    id of a fan names an existing entry -/
def refsResolve (c : Configuration) : Prop :=
  (∀ cc ∈ c.curves, ∀ l, cc.linear = some l → SensorDefined c l.sensor) ∧
  (∀ cc ∈ c.curves, ∀ p, cc.pid = some p → SensorDefined c p.sensor) ∧
  (∀ cc ∈ c.curves, ∀ f, cc.function = some f → ∀ m ∈ f.curves, CurveDefined c m) ∧
  (∀ f ∈ c.fans, CurveDefined c f.curve)

/-- `MemberOf c u v`: a function curve with id `u` lists `v` among its members -/
def MemberOf (c : Configuration) (u v : String) : Prop :=
  ∃ cc ∈ c.curves, cc.id = u ∧ ∃ f, cc.function = some f ∧ v ∈ f.curves

/-- no function curve lists itself -/
def NoSelfRef (c : Configuration) : Prop := ∀ u, ¬ MemberOf c u u

/-- no function curve reaches itself through members (in one or more steps) -/
def Acyclic (c : Configuration) : Prop := ∀ u, ¬ TransGen (MemberOf c) u u

/-- every function curve has at least one member -/
def FunctionsNonempty (c : Configuration) : Prop :=
  ∀ cc ∈ c.curves, ∀ f, cc.function = some f → f.curves ≠ []

/-- no linear curve has an empty non-nil step map -/
def NoEmptySteps (c : Configuration) : Prop :=
  ∀ cc ∈ c.curves, ∀ l, cc.linear = some l → l.steps ≠ some []

/-- every `controlAlgorithm` block that is present selects `direct` or `pid`, so that
    `initializeFanControllers` builds a (non-nil) control loop -/
def AlgoInstantiable (c : Configuration) : Prop :=
  ∀ f ∈ c.fans, ∀ ca, f.controlAlgorithm = some ca → ca.direct.isSome = true ∨ ca.pid.isSome = true

/-! ## the sequencing combinators -/

@[simp] theorem check_ok (b : Bool) (e : VErr) : check b e = .ok () ↔ b = false := by
  cases b <;> simp [check]

@[simp] theorem seq_ok (a b : Except VErr Unit) : (a >>> b) = .ok () ↔ a = .ok () ∧ b = .ok () := by
  cases a with
  | error e => simp [seq]
  | ok u => cases u; simp [seq]

theorem idLoop_ok {α : Type} (getId : α → String) (dup : String → VErr)
    (body : α → Except VErr Unit) (seen : List String) (l : List α) :
    idLoop getId dup body seen l = .ok () ↔
      (∀ x ∈ l, getId x ∉ seen) ∧ (l.map getId).Nodup ∧ ∀ x ∈ l, body x = .ok () := by
  induction l generalizing seen with
  | nil => simp [idLoop]
  | cons x rest ih =>
    simp only [idLoop, seq_ok, check_ok, ih, List.map_cons, List.nodup_cons, List.mem_cons,
      List.mem_append, forall_eq_or_imp, List.mem_map, not_or, List.not_mem_nil,
      not_false_eq_true, and_true, List.contains_eq_mem, decide_eq_false_iff_not]
    constructor
    · rintro ⟨h1, h2, h3, h4, h5⟩
      refine ⟨⟨h1, fun y hy => (h3 y hy).1⟩, ⟨?_, h4⟩, h2, h5⟩
      rintro ⟨y, hy, hxy⟩
      exact (h3 y hy).2 hxy
    · rintro ⟨⟨h1, h2⟩, ⟨h3, h4⟩, h5, h6⟩
      exact ⟨h1, h5, fun y hy => ⟨h2 y hy, fun hxy => h3 ⟨y, hy, hxy⟩⟩, h4, h6⟩

/-! ## characterisation of the entry checks -/

theorem sensorIdExists_iff (id : String) (c : Configuration) :
    sensorIdExists id c = true ↔ SensorDefined c id := by
  simp [sensorIdExists, SensorDefined]

theorem curveIdExists_iff (id : String) (c : Configuration) :
    curveIdExists id c = true ↔ CurveDefined c id := by
  simp [curveIdExists, CurveDefined]

theorem validateSensorEntry_ok (s : SensorConfig) :
    validateSensorEntry s = .ok () ↔ s.subConfigs = 1 ∧ ∀ idx, s.hwmon = some idx → 0 < idx := by
  simp only [validateSensorEntry, seq_ok, check_ok, decide_eq_false_iff_not]
  constructor
  · rintro ⟨h1, h2, h3⟩
    refine ⟨by omega, ?_⟩
    intro idx hidx
    rw [hidx] at h3
    simpa using h3
  · rintro ⟨h1, h2⟩
    refine ⟨by omega, by omega, ?_⟩
    cases h : s.hwmon with
    | none => rfl
    | some idx => simpa using h2 idx h

theorem validateMembers_ok (c : Configuration) (id : String) (ms : List String) :
    validateMembers c id ms = .ok () ↔ ∀ m ∈ ms, m ≠ id ∧ CurveDefined c m := by
  induction ms with
  | nil => simp [validateMembers]
  | cons m ms ih =>
    simp only [validateMembers, seq_ok, check_ok, ih, List.mem_cons, forall_eq_or_imp,
      Bool.not_eq_false', curveIdExists_iff, beq_eq_false_iff_ne, and_assoc]

theorem validateFunction_ok (c : Configuration) (id : String) (fo : Option FunctionCfg) :
    validateFunction c id fo = .ok () ↔
      ∀ f, fo = some f → f.type ∈ supportedTypes ∧ f.curves ≠ [] ∧
        ∀ m ∈ f.curves, m ≠ id ∧ CurveDefined c m := by
  cases fo with
  | none => simp [validateFunction]
  | some f =>
    simp [validateFunction, validateMembers_ok]

theorem validateLinear_ok (c : Configuration) (id : String) (lo : Option LinearCfg) :
    validateLinear c id lo = .ok () ↔
      ∀ l, lo = some l → l.sensor ≠ "" ∧ SensorDefined c l.sensor ∧ l.steps ≠ some [] := by
  cases lo with
  | none => simp [validateLinear]
  | some l =>
    obtain ⟨sensor, mn, mx, steps⟩ := l
    rcases steps with _ | _ | ⟨a, as⟩ <;>
      simp [validateLinear, sensorIdExists_iff, String.length_eq_zero_iff]

theorem validatePid_ok (c : Configuration) (id : String) (po : Option PidCfg) :
    validatePid c id po = .ok () ↔
      ∀ p, po = some p → p.sensor ≠ "" ∧ SensorDefined c p.sensor ∧ allZero p.p p.i p.d = false := by
  cases po with
  | none => simp [validatePid]
  | some p =>
    simp [validatePid, sensorIdExists_iff, String.length_eq_zero_iff]

theorem validateCurveEntry_ok (c : Configuration) (cc : CurveConfig) :
    validateCurveEntry c cc = .ok () ↔
      cc.subConfigs = 1 ∧
      (∀ f, cc.function = some f → f.type ∈ supportedTypes ∧ f.curves ≠ [] ∧
        ∀ m ∈ f.curves, m ≠ cc.id ∧ CurveDefined c m) ∧
      (∀ l, cc.linear = some l → l.sensor ≠ "" ∧ SensorDefined c l.sensor ∧ l.steps ≠ some []) ∧
      (∀ p, cc.pid = some p → p.sensor ≠ "" ∧ SensorDefined c p.sensor ∧ allZero p.p p.i p.d = false) := by
  simp only [validateCurveEntry, seq_ok, check_ok, decide_eq_false_iff_not, validateFunction_ok,
    validateLinear_ok, validatePid_ok]
  constructor
  · rintro ⟨h1, h2, h3⟩
    exact ⟨by omega, h3⟩
  · rintro ⟨h1, h3⟩
    exact ⟨by omega, by omega, h3⟩

theorem validateFanEntry_ok (c : Configuration) (f : FanConfig) :
    validateFanEntry c f = .ok () ↔
      f.subConfigs = 1 ∧ f.curve ≠ "" ∧ CurveDefined c f.curve ∧
      validateCtrlAlg f.id f.controlAlgorithm = .ok () ∧ validateFanHwMon f.id f.hwmon = .ok () ∧
      validateFanFile f.id f.file = .ok () ∧ validateFanCmd f.id f.cmd = .ok () := by
  simp only [validateFanEntry, seq_ok, check_ok, decide_eq_false_iff_not, Bool.not_eq_false',
    curveIdExists_iff, Nat.le_zero, String.length_eq_zero_iff]
  constructor
  · rintro ⟨h1, h2, h3⟩
    exact ⟨by omega, h3⟩
  · rintro ⟨h1, h3⟩
    exact ⟨by omega, by omega, h3⟩

/-! ## what acceptance by the three loops means -/

theorem validateSensors_ok (c : Configuration) :
    validateSensors c = .ok () ↔
      (c.sensors.map (·.id)).Nodup ∧ ∀ s ∈ c.sensors, validateSensorEntry s = .ok () := by
  simp [validateSensors, idLoop_ok]

theorem validateCurves_ok (c : Configuration) :
    validateCurves c = .ok () ↔
      (c.curves.map (·.id)).Nodup ∧ (∀ cc ∈ c.curves, validateCurveEntry c cc = .ok ()) ∧
      hasCycle (buildGraph c) = false := by
  simp [validateCurves, validateNoLoops, idLoop_ok, and_assoc]

theorem validateFans_ok (c : Configuration) :
    validateFans c = .ok () ↔
      (c.fans.map (·.id)).Nodup ∧ ∀ f ∈ c.fans, validateFanEntry c f = .ok () := by
  simp [validateFans, idLoop_ok]

theorem validateConfig_ok (c : Configuration) (permOk : Bool) :
    validateConfig c permOk = .ok () ↔
      validateSensors c = .ok () ∧ validateCurves c = .ok () ∧
      (containsCmd c && !permOk) = false ∧ validateFans c = .ok () := by
  simp only [validateConfig, seq_ok, check_ok]

/-! ## the reachability closure computes reachability

`Edge g u v`: the graph `g` (association list, first key wins – like the Go map once keys are
distinct) has the edge `u → v`. -/

def Edge (g : Graph) (u v : String) : Prop := v ∈ succs g u

theorem mem_addNew (xs S : List String) (x : String) : x ∈ addNew xs S ↔ x ∈ xs ∨ x ∈ S := by
  induction xs generalizing S with
  | nil => simp [addNew]
  | cons y ys ih =>
    simp only [addNew, List.contains_eq_mem, decide_eq_true_eq, List.mem_cons]
    split
    · rename_i h
      rw [ih]
      constructor
      · rintro (h1 | h1)
        · exact Or.inl (Or.inr h1)
        · exact Or.inr h1
      · rintro ((rfl | h1) | h1)
        · exact Or.inr h
        · exact Or.inl h1
        · exact Or.inr h1
    · rw [ih]
      simp only [List.mem_append, List.mem_singleton]
      tauto

theorem mem_stepSet (g : Graph) (S : List String) (x : String) :
    x ∈ stepSet g S ↔ x ∈ S ∨ ∃ s ∈ S, Edge g s x := by
  simp only [stepSet, mem_addNew, List.mem_flatMap, Edge]
  exact or_comm

theorem subset_closure (g : Graph) (n : Nat) (S : List String) : ∀ x ∈ S, x ∈ closure g n S := by
  induction n generalizing S with
  | zero => intro x hx; simpa [closure] using hx
  | succ n ih =>
    intro x hx
    simp only [closure]
    exact ih _ x ((mem_stepSet g S x).2 (Or.inl hx))

/-- soundness: everything in the closure is reachable from the start set -/
theorem closure_sound (g : Graph) (n : Nat) (S : List String) (x : String) (hx : x ∈ closure g n S) :
    ∃ s ∈ S, ReflTransGen (Edge g) s x := by
  induction n generalizing S with
  | zero => exact ⟨x, by simpa [closure] using hx, ReflTransGen.refl⟩
  | succ n ih =>
    simp only [closure] at hx
    obtain ⟨s, hs, hsx⟩ := ih _ hx
    rcases (mem_stepSet g S s).1 hs with h | ⟨t, ht, hts⟩
    · exact ⟨s, h, hsx⟩
    · exact ⟨t, ht, ReflTransGen.head hts hsx⟩

def ClosedUnder (g : Graph) (S : List String) : Prop := ∀ x ∈ S, ∀ y, Edge g x y → y ∈ S

theorem closure_of_closed (g : Graph) (n : Nat) (S : List String) (hS : ClosedUnder g S) :
    ∀ x, x ∈ closure g n S → x ∈ S := by
  induction n generalizing S with
  | zero => intro x hx; simpa [closure] using hx
  | succ n ih =>
    intro x hx
    simp only [closure] at hx
    have hstep : ∀ y, y ∈ stepSet g S ↔ y ∈ S := by
      intro y
      rw [mem_stepSet]
      constructor
      · rintro (h | ⟨s, hs, hsy⟩)
        · exact h
        · exact hS s hs y hsy
      · exact Or.inl
    have hcl : ClosedUnder g (stepSet g S) := by
      intro a ha b hab
      exact (hstep b).2 (hS a ((hstep a).1 ha) b hab)
    exact (hstep x).1 (ih _ hcl x hx)

/-- all edge endpoints of the graph -/
def endpoints (g : Graph) : List String := g.flatMap (·.2)

theorem succs_subset_endpoints (g : Graph) (u : String) : ∀ v ∈ succs g u, v ∈ endpoints g := by
  intro v hv
  unfold succs at hv
  split at hv
  · rename_i p hp
    exact List.mem_flatMap.2 ⟨p, List.mem_of_find?_eq_some hp, hv⟩
  · simp at hv

/-- completeness: with enough fuel the closure is closed under the edge relation -/
theorem closure_closed (g : Graph) (n : Nat) (S : List String)
    (hSM : ∀ x ∈ S, x ∈ endpoints g)
    (hn : ((endpoints g).toFinset \ S.toFinset).card ≤ n) :
    ClosedUnder g (closure g n S) := by
  induction n generalizing S with
  | zero =>
    have hMS : ∀ x ∈ endpoints g, x ∈ S := by
      intro x hx
      by_contra hxS
      have : x ∈ (endpoints g).toFinset \ S.toFinset := by simp [hx, hxS]
      have hpos := Finset.card_pos.2 ⟨x, this⟩
      omega
    intro x hx y hxy
    simp only [closure] at hx ⊢
    exact hMS y (succs_subset_endpoints g x y hxy)
  | succ n ih =>
    by_cases hstab : ∀ y ∈ stepSet g S, y ∈ S
    · have hcl : ClosedUnder g S := by
        intro a ha b hab
        exact hstab b ((mem_stepSet g S b).2 (Or.inr ⟨a, ha, hab⟩))
      intro x hx y hxy
      have hxS := closure_of_closed g (n + 1) S hcl x hx
      exact subset_closure g (n + 1) S y (hcl x hxS y hxy)
    · obtain ⟨y, hy, hyS⟩ : ∃ y, y ∈ stepSet g S ∧ y ∉ S := by
        by_contra hcon
        exact hstab (fun y hy => by_contra fun hyS => hcon ⟨y, hy, hyS⟩)
      have hyM : y ∈ endpoints g := by
        rcases (mem_stepSet g S y).1 hy with h | ⟨s, _, hsy⟩
        · exact absurd h hyS
        · exact succs_subset_endpoints g s y hsy
      have hSM' : ∀ x ∈ stepSet g S, x ∈ endpoints g := by
        intro x hx
        rcases (mem_stepSet g S x).1 hx with h | ⟨s, _, hsx⟩
        · exact hSM x h
        · exact succs_subset_endpoints g s x hsx
      have hlt : ((endpoints g).toFinset \ (stepSet g S).toFinset).card <
          ((endpoints g).toFinset \ S.toFinset).card := by
        apply Finset.card_lt_card
        constructor
        · intro a ha
          simp only [Finset.mem_sdiff, List.mem_toFinset] at ha ⊢
          exact ⟨ha.1, fun h => ha.2 ((mem_stepSet g S a).2 (Or.inl h))⟩
        · intro hsub
          have : y ∈ (endpoints g).toFinset \ (stepSet g S).toFinset :=
            hsub (by simp [hyM, hyS])
          simp only [Finset.mem_sdiff, List.mem_toFinset] at this
          exact this.2 hy
      simp only [closure]
      exact ih _ hSM' (by omega)

theorem reachable_sound (g : Graph) (u x : String) (h : x ∈ reachable g u) :
    TransGen (Edge g) u x := by
  obtain ⟨s, hs, hsx⟩ := closure_sound g _ _ x h
  exact TransGen.head' hs hsx

theorem reachable_complete (g : Graph) (u x : String) (h : TransGen (Edge g) u x) :
    x ∈ reachable g u := by
  have hcl : ClosedUnder g (reachable g u) := by
    apply closure_closed
    · exact succs_subset_endpoints g u
    · calc ((endpoints g).toFinset \ (succs g u).toFinset).card
          ≤ (endpoints g).toFinset.card := Finset.card_le_card Finset.sdiff_subset
        _ ≤ (endpoints g).length := List.toFinset_card_le _
  induction h with
  | single hux => exact subset_closure g _ _ _ hux
  | tail _ hbc ih => exact hcl _ ih _ hbc

theorem reachable_iff (g : Graph) (u x : String) : x ∈ reachable g u ↔ TransGen (Edge g) u x :=
  ⟨reachable_sound g u x, reachable_complete g u x⟩

/-- a vertex with an outgoing edge is a key of the graph -/
theorem key_of_edge (g : Graph) (u v : String) (h : Edge g u v) : ∃ p ∈ g, p.1 = u := by
  unfold Edge succs at h
  split at h
  · rename_i p hp
    exact ⟨p, List.mem_of_find?_eq_some hp, by simpa using List.find?_some hp⟩
  · simp at h

theorem key_of_transGen (g : Graph) (u v : String) (h : TransGen (Edge g) u v) : ∃ p ∈ g, p.1 = u := by
  obtain ⟨w, huw, _⟩ := TransGen.head'_iff.1 h
  exact key_of_edge g u w huw

/-- The SCC criterion, as a statement about the graph: `hasCycle` ⇔ two distinct vertices reach
    each other. -/
theorem hasCycle_iff (g : Graph) :
    hasCycle g = true ↔ ∃ u v, u ≠ v ∧ TransGen (Edge g) u v ∧ TransGen (Edge g) v u := by
  simp only [hasCycle, List.any_eq_true, Bool.and_eq_true, bne_iff_ne, ne_eq,
    List.contains_eq_mem, decide_eq_true_eq, reachable_iff]
  constructor
  · rintro ⟨p, _, q, _, ⟨hne, h1⟩, h2⟩
    exact ⟨p.1, q.1, hne, h1, h2⟩
  · rintro ⟨u, v, hne, h1, h2⟩
    obtain ⟨p, hp, rfl⟩ := key_of_transGen g u v h1
    obtain ⟨q, hq, rfl⟩ := key_of_transGen g v _ h2
    exact ⟨p, hp, q, hq, ⟨hne, h1⟩, h2⟩

/-- no cycle through two or more distinct vertices + no self loop ⇒ no vertex reaches itself -/
theorem acyclic_of_not_hasCycle (g : Graph) (hc : hasCycle g = false)
    (hself : ∀ u, ¬ Edge g u u) : ∀ u, ¬ TransGen (Edge g) u u := by
  intro u huu
  obtain ⟨w, huw, hwu⟩ := TransGen.head'_iff.1 huu
  by_cases hwu' : w = u
  · subst hwu'; exact hself _ huw
  · rcases reflTransGen_iff_eq_or_transGen.1 hwu with h | h
    · exact hwu' h.symm
    · have : hasCycle g = true :=
        (hasCycle_iff g).2 ⟨u, w, fun h => hwu' h.symm, TransGen.single huw, h⟩
      simp [hc] at this

theorem not_hasCycle_of_acyclic (g : Graph) (h : ∀ u, ¬ TransGen (Edge g) u u) :
    hasCycle g = false := by
  by_contra hc
  have hc' : hasCycle g = true := by simpa using hc
  obtain ⟨u, v, _, h1, h2⟩ := (hasCycle_iff g).1 hc'
  exact h u (h1.trans h2)

/-! ## the graph the validator builds vs. the member relation of the configuration -/

theorem mem_buildGraph (c : Configuration) (p : String × List String) :
    p ∈ buildGraph c ↔ ∃ cc ∈ c.curves, ∃ f, cc.function = some f ∧ p = (cc.id, f.curves) := by
  simp only [buildGraph, List.mem_filterMap, Option.map_eq_some_iff]
  constructor
  · rintro ⟨cc, hcc, f, hf, rfl⟩
    exact ⟨cc, hcc, f, hf, rfl⟩
  · rintro ⟨cc, hcc, f, hf, rfl⟩
    exact ⟨cc, hcc, f, hf, rfl⟩

theorem edge_memberOf (c : Configuration) (u v : String) (h : Edge (buildGraph c) u v) :
    MemberOf c u v := by
  unfold Edge succs at h
  split at h
  · rename_i p hp
    obtain ⟨cc, hcc, f, hf, rfl⟩ := (mem_buildGraph c p).1 (List.mem_of_find?_eq_some hp)
    have hid : cc.id = u := by simpa using List.find?_some hp
    exact ⟨cc, hcc, hid, f, hf, h⟩
  · simp at h

theorem memberOf_edge (c : Configuration) (hnd : (c.curves.map (·.id)).Nodup) (u v : String)
    (h : MemberOf c u v) : Edge (buildGraph c) u v := by
  obtain ⟨cc, hcc, hid, f, hf, hv⟩ := h
  have hmem : (cc.id, f.curves) ∈ buildGraph c := (mem_buildGraph c _).2 ⟨cc, hcc, f, hf, rfl⟩
  have hsome : ((buildGraph c).find? (fun p => p.1 == u)).isSome = true :=
    List.find?_isSome.2 ⟨_, hmem, by simp [hid]⟩
  obtain ⟨p, hp⟩ := Option.isSome_iff_exists.1 hsome
  obtain ⟨cc', hcc', f', hf', rfl⟩ := (mem_buildGraph c p).1 (List.mem_of_find?_eq_some hp)
  have hid' : cc'.id = u := by simpa using List.find?_some hp
  have hEq : cc' = cc := List.inj_on_of_nodup_map hnd hcc' hcc (by rw [hid', hid])
  subst hEq
  have : f' = f := by rw [hf] at hf'; exact (Option.some.inj hf').symm
  subst this
  unfold Edge succs
  rw [hp]
  exact hv

/-! ## soundness of acceptance -/

section sound
variable {c : Configuration} {permOk : Bool}

theorem accepted_uniqueIds (h : validateConfig c permOk = .ok ()) : uniqueIds c := by
  obtain ⟨hs, hc, _, hf⟩ := (validateConfig_ok c permOk).1 h
  exact ⟨((validateSensors_ok c).1 hs).1, ((validateCurves_ok c).1 hc).1, ((validateFans_ok c).1 hf).1⟩

theorem accepted_oneBackend (h : validateConfig c permOk = .ok ()) : oneBackend c := by
  obtain ⟨hs, hc, _, hf⟩ := (validateConfig_ok c permOk).1 h
  refine ⟨fun s hsm => ?_, fun cc hcc => ?_, fun f hfm => ?_⟩
  · exact ((validateSensorEntry_ok s).1 (((validateSensors_ok c).1 hs).2 s hsm)).1
  · exact ((validateCurveEntry_ok c cc).1 (((validateCurves_ok c).1 hc).2.1 cc hcc)).1
  · exact ((validateFanEntry_ok c f).1 (((validateFans_ok c).1 hf).2 f hfm)).1

theorem accepted_refsResolve (h : validateConfig c permOk = .ok ()) : refsResolve c := by
  obtain ⟨_, hc, _, hf⟩ := (validateConfig_ok c permOk).1 h
  have hce := fun cc hcc => (validateCurveEntry_ok c cc).1 (((validateCurves_ok c).1 hc).2.1 cc hcc)
  refine ⟨fun cc hcc l hl => ?_, fun cc hcc p hp => ?_, fun cc hcc f hfn m hm => ?_, fun f hfm => ?_⟩
  · exact ((hce cc hcc).2.2.1 l hl).2.1
  · exact ((hce cc hcc).2.2.2 p hp).2.1
  · exact (((hce cc hcc).2.1 f hfn).2.2 m hm).2
  · exact ((validateFanEntry_ok c f).1 (((validateFans_ok c).1 hf).2 f hfm)).2.2.1

theorem accepted_noSelfRef (h : validateConfig c permOk = .ok ()) : NoSelfRef c := by
  obtain ⟨_, hc, _, _⟩ := (validateConfig_ok c permOk).1 h
  rintro u ⟨cc, hcc, hid, f, hfn, hu⟩
  have := (validateCurveEntry_ok c cc).1 (((validateCurves_ok c).1 hc).2.1 cc hcc)
  exact ((this.2.1 f hfn).2.2 u hu).1 hid.symm

theorem accepted_acyclic (h : validateConfig c permOk = .ok ()) : Acyclic c := by
  have hself := accepted_noSelfRef h
  obtain ⟨_, hc, _, _⟩ := (validateConfig_ok c permOk).1 h
  obtain ⟨hnd, _, hcyc⟩ := (validateCurves_ok c).1 hc
  intro u huu
  have huu' : TransGen (Edge (buildGraph c)) u u :=
    TransGen.mono (fun a b hab => memberOf_edge c hnd a b hab) _ _ huu
  exact acyclic_of_not_hasCycle _ hcyc (fun v hv => hself v (edge_memberOf c v v hv)) u huu'

/-- every function curve has a supported type -/
theorem accepted_fnType (h : validateConfig c permOk = .ok ()) :
    ∀ cc ∈ c.curves, ∀ f, cc.function = some f → f.type ∈ supportedTypes := by
  obtain ⟨_, hc, _, _⟩ := (validateConfig_ok c permOk).1 h
  intro cc hcc f hfn
  exact (((validateCurveEntry_ok c cc).1 (((validateCurves_ok c).1 hc).2.1 cc hcc)).2.1 f hfn).1

/-- every function curve has at least one member (check added by the fix of C11) -/
theorem accepted_functionsNonempty (h : validateConfig c permOk = .ok ()) : FunctionsNonempty c := by
  obtain ⟨_, hc, _, _⟩ := (validateConfig_ok c permOk).1 h
  intro cc hcc f hfn
  exact (((validateCurveEntry_ok c cc).1 (((validateCurves_ok c).1 hc).2.1 cc hcc)).2.1 f hfn).2.1

/-- no linear curve has an empty non-nil step map (check added by the fix of C11) -/
theorem accepted_noEmptySteps (h : validateConfig c permOk = .ok ()) : NoEmptySteps c := by
  obtain ⟨_, hc, _, _⟩ := (validateConfig_ok c permOk).1 h
  intro cc hcc l hl
  exact (((validateCurveEntry_ok c cc).1 (((validateCurves_ok c).1 hc).2.1 cc hcc)).2.2.1 l hl).2.2

theorem validateCtrlAlg_some (id : String) (ca : CtrlAlgCfg)
    (h : validateCtrlAlg id (some ca) = .ok ()) : ca.direct.isSome = true ∨ ca.pid.isSome = true := by
  simp only [validateCtrlAlg, seq_ok, check_ok] at h
  obtain ⟨d, p⟩ := ca
  cases d <;> cases p <;> simp_all

/-- a present `controlAlgorithm` selects direct or pid (check added by the fix of C11) -/
theorem accepted_algoInstantiable (h : validateConfig c permOk = .ok ()) : AlgoInstantiable c := by
  obtain ⟨_, _, _, hf⟩ := (validateConfig_ok c permOk).1 h
  intro f hfm ca hca
  have := ((validateFanEntry_ok c f).1 (((validateFans_ok c).1 hf).2 f hfm)).2.2.2.1
  rw [hca] at this
  exact validateCtrlAlg_some f.id ca this

end sound

/-! ## the documented forms (README.md, fan2go.yaml) and completeness -/

/-- sensors: `hwmon` with `index ≥ 1` | `file` | `cmd` – exactly one -/
def docSensor (s : SensorConfig) : Bool :=
  match s.hwmon, s.file, s.cmd with
  | some idx, false, false => decide (1 ≤ idx)
  | none, true, false => true
  | none, false, true => true
  | _, _, _ => false

/-- `linear` with `min`/`max` (no steps) or with a step list of at least one entry -/
def docLinear (l : LinearCfg) : Bool :=
  l.sensor != "" && (match l.steps with | none => true | some st => !st.isEmpty)

/-- `pid` with gains that are not all zero -/
def docPid (p : PidCfg) : Bool := p.sensor != "" && !allZero p.p p.i p.d

/-- `function` with one of the six types and at least one member -/
def docFunction (f : FunctionCfg) : Bool := supportedTypes.contains f.type && !f.curves.isEmpty

def docCurve (cc : CurveConfig) : Bool :=
  match cc.linear, cc.pid, cc.function with
  | some l, none, none => docLinear l
  | none, some p, none => docPid p
  | none, none, some f => docFunction f
  | _, _, _ => false

/-- `controlAlgorithm`: absent | `direct` | `pid` (decodes to the default gains, not all zero) |
    `{direct: {maxPwmChangePerCycle: n}}` with `n ≥ 1` | `{pid: {p,i,d}}` not all zero -/
def docCtrl : Option CtrlAlgCfg → Bool
  | none => true
  | some ⟨some none, none⟩ => true
  | some ⟨some (some n), none⟩ => decide (1 ≤ n)
  | some ⟨none, some (p, i, d)⟩ => !allZero p i d
  | _ => false

/-- hwmon fan: exactly one of `index` / `rpmChannel`, `≥ 1`; optional `pwmChannel ≥ 0` -/
def docHwMonFan (h : HwMonFanCfg) : Bool :=
  ((decide (1 ≤ h.index) && h.rpmChannel == 0) || (h.index == 0 && decide (1 ≤ h.rpmChannel)))
    && decide (0 ≤ h.pwmChannel)

def docFan (f : FanConfig) : Bool :=
  f.curve != "" && docCtrl f.controlAlgorithm &&
  (match f.hwmon, f.file, f.cmd with
   | some h, none, none => docHwMonFan h
   | none, some pathEmpty, none => !pathEmpty
   | none, none, some cmd => cmd.setPwm == some false && cmd.getPwm == some false
   | _, _, _ => false)

/-- a configuration assembled only from the documented forms -/
def Documented (c : Configuration) : Prop :=
  c.sensors.all docSensor = true ∧ c.curves.all docCurve = true ∧ c.fans.all docFan = true

instance (c : Configuration) : Decidable (Documented c) := by unfold Documented; infer_instance

theorem docSensor_ok (s : SensorConfig) (h : docSensor s = true) : validateSensorEntry s = .ok () := by
  rw [validateSensorEntry_ok]
  obtain ⟨id, hw, fl, cm⟩ := s
  cases hw <;> cases fl <;> cases cm <;>
    simp_all [docSensor, SensorConfig.subConfigs, b2n]
  all_goals omega

theorem docCtrl_ok (id : String) (ca : Option CtrlAlgCfg) (h : docCtrl ca = true) :
    validateCtrlAlg id ca = .ok () := by
  cases ca with
  | none => rfl
  | some ca =>
    obtain ⟨d, p⟩ := ca
    rcases d with _ | _ | n <;> rcases p with _ | ⟨p, i, d⟩ <;>
      simp_all [docCtrl, validateCtrlAlg]
    all_goals omega

theorem docHwMonFan_ok (id : String) (hw : HwMonFanCfg) (h : docHwMonFan hw = true) :
    validateFanHwMon id (some hw) = .ok () := by
  obtain ⟨i, r, p⟩ := hw
  simp only [docHwMonFan, Bool.and_eq_true, Bool.or_eq_true, decide_eq_true_eq, beq_iff_eq] at h
  simp only [validateFanHwMon, seq_ok, check_ok, Bool.or_eq_false_iff, Bool.and_eq_false_iff,
    bne_eq_false_iff_eq, beq_eq_false_iff_ne, decide_eq_false_iff_not, ne_eq]
  omega

theorem docFan_ok (c : Configuration) (f : FanConfig) (h : docFan f = true)
    (href : CurveDefined c f.curve) : validateFanEntry c f = .ok () := by
  rw [validateFanEntry_ok]
  obtain ⟨id, curve, ca, hw, fl, cm⟩ := f
  simp only [docFan, Bool.and_eq_true, bne_iff_ne, ne_eq] at h
  obtain ⟨⟨hcurve, hca⟩, hb⟩ := h
  refine ⟨?_, hcurve, href, docCtrl_ok id ca hca, ?_⟩
  · cases hw <;> cases fl <;> cases cm <;> simp_all [FanConfig.subConfigs, b2n]
  · rcases hw with _ | hw <;> rcases fl with _ | fl <;> rcases cm with _ | cm <;> simp at hb
    · obtain ⟨s, g⟩ := cm
      obtain ⟨rfl, rfl⟩ := hb
      simp [validateFanHwMon, validateFanFile, validateFanCmd]
    · subst hb
      simp [validateFanHwMon, validateFanFile, validateFanCmd]
    · exact ⟨docHwMonFan_ok id hw hb, by simp [validateFanFile], by simp [validateFanCmd]⟩

theorem docCurve_ok (c : Configuration) (cc : CurveConfig) (h : docCurve cc = true)
    (hl : ∀ l, cc.linear = some l → SensorDefined c l.sensor)
    (hp : ∀ p, cc.pid = some p → SensorDefined c p.sensor)
    (hf : ∀ f, cc.function = some f → ∀ m ∈ f.curves, m ≠ cc.id ∧ CurveDefined c m) :
    validateCurveEntry c cc = .ok () := by
  rw [validateCurveEntry_ok]
  obtain ⟨id, l, p, f⟩ := cc
  rcases l with _ | l <;> rcases p with _ | p <;> rcases f with _ | f <;>
    simp [docCurve] at h
  · refine ⟨by simp [CurveConfig.subConfigs, b2n], ?_, by simp, by simp⟩
    intro f' hf'
    cases hf'
    simp only [docFunction, Bool.and_eq_true, List.contains_eq_mem, decide_eq_true_eq,
      Bool.not_eq_true', List.isEmpty_eq_false_iff] at h
    exact ⟨h.1, h.2, hf f rfl⟩
  · refine ⟨by simp [CurveConfig.subConfigs, b2n], by simp, by simp, ?_⟩
    intro p' hp'
    cases hp'
    simp only [docPid, Bool.and_eq_true, bne_iff_ne, ne_eq, Bool.not_eq_true'] at h
    exact ⟨h.1, hp p rfl, h.2⟩
  · refine ⟨by simp [CurveConfig.subConfigs, b2n], by simp, ?_, by simp⟩
    intro l' hl'
    cases hl'
    simp only [docLinear, Bool.and_eq_true, bne_iff_ne, ne_eq] at h
    refine ⟨h.1, hl l rfl, ?_⟩
    intro hst
    rw [hst] at h
    simp at h

/-- completeness: a configuration assembled from the documented forms whose references resolve,
    whose ids are unique and whose member graph is acyclic is accepted (the configuration file
    having acceptable permissions, which only matters when a `cmd` entry is present). -/
theorem documented_accepted (c : Configuration) (permOk : Bool) (hd : Documented c)
    (hr : refsResolve c) (hu : uniqueIds c) (ha : Acyclic c) (hperm : permOk = true) :
    validateConfig c permOk = .ok () := by
  obtain ⟨hds, hdc, hdf⟩ := hd
  obtain ⟨hrl, hrp, hrf, hrfan⟩ := hr
  obtain ⟨hus, huc, huf⟩ := hu
  rw [validateConfig_ok, validateSensors_ok, validateCurves_ok, validateFans_ok]
  refine ⟨⟨hus, fun s hs => docSensor_ok s (List.all_eq_true.1 hds s hs)⟩,
    ⟨huc, fun cc hcc => ?_, ?_⟩, by simp [hperm],
    ⟨huf, fun f hf => docFan_ok c f (List.all_eq_true.1 hdf f hf) (hrfan f hf)⟩⟩
  · refine docCurve_ok c cc (List.all_eq_true.1 hdc cc hcc) (hrl cc hcc) (hrp cc hcc) ?_
    intro f hfn m hm
    refine ⟨?_, hrf cc hcc f hfn m hm⟩
    rintro rfl
    exact ha _ (TransGen.single ⟨cc, hcc, rfl, f, hfn, hm⟩)
  · apply not_hasCycle_of_acyclic
    intro u huu
    exact ha u (TransGen.mono (fun a b hab => edge_memberOf c a b hab) _ _ huu)

/-! ## instantiation and evaluation of an accepted configuration (`Model/Curves.lean`)

Evaluation mutates the table (`Value` fields, PID memories) but never the ids or the curve
configurations: the *shape* `id ↦ cfg` is invariant. Totality is proved over a fixed shape by
induction on the fuel, carrying the list of ancestors of the curve being evaluated: on an acyclic
shape the ancestors are pairwise distinct function curves, so there are at most `N` of them and
the fuel `N + 1` cannot run out. -/

abbrev Shape := String → Option CurveCfg

def shapeOf (T : CurveTable) : Shape := fun id => (T.get? id).map (·.cfg)

theorem get?_id (T : CurveTable) (id : String) (c : Curve) (h : T.get? id = some c) : c.id = id := by
  simpa using List.find?_some h

theorem get?_nil (id : String) : CurveTable.get? [] id = none := rfl

theorem get?_cons (x : Curve) (xs : CurveTable) (id : String) :
    CurveTable.get? (x :: xs) id = if x.id = id then some x else CurveTable.get? xs id := by
  unfold CurveTable.get?
  rw [List.find?_cons]
  by_cases h : x.id = id
  · have : (x.id == id) = true := by simpa using h
    rw [this]; simp [h]
  · have : (x.id == id) = false := by simpa using h
    rw [this]; simp [h]

theorem set_cons (x : Curve) (xs : CurveTable) (c : Curve) :
    CurveTable.set (x :: xs) c = (if x.id = c.id then c else x) :: CurveTable.set xs c := by
  unfold CurveTable.set
  by_cases h : x.id = c.id <;> simp [h]

theorem get?_set_ne (T : CurveTable) (c' : Curve) (id' : String) (h : id' ≠ c'.id) :
    (T.set c').get? id' = T.get? id' := by
  induction T with
  | nil => rfl
  | cons x xs ih =>
    rw [set_cons, get?_cons, get?_cons, ih]
    by_cases hx : x.id = c'.id
    · have h1 : ¬ c'.id = id' := fun e => h e.symm
      have h2 : ¬ x.id = id' := fun e => h1 (hx ▸ e)
      simp [hx, h1]
    · simp [hx]

theorem get?_set_self (T : CurveTable) (c' c0 : Curve) (h : T.get? c'.id = some c0) :
    (T.set c').get? c'.id = some c' := by
  induction T with
  | nil => simp [get?_nil] at h
  | cons x xs ih =>
    rw [set_cons, get?_cons]
    rw [get?_cons] at h
    by_cases hx : x.id = c'.id
    · simp [hx]
    · simp only [hx, if_false] at h ⊢
      exact ih h

theorem shapeOf_set (T : CurveTable) (c' c0 : Curve) (h : T.get? c'.id = some c0)
    (hcfg : c'.cfg = c0.cfg) : shapeOf (T.set c') = shapeOf T := by
  funext id'
  unfold shapeOf
  by_cases hid : id' = c'.id
  · subst hid
    rw [get?_set_self T c' c0 h, h]
    simp [hcfg]
  · rw [get?_set_ne T c' id' hid]

def SEdge (σ : Shape) (u v : String) : Prop := ∃ ty ms, σ u = some (.function ty ms) ∧ v ∈ ms

structure GoodShape (sensors : SensorTable) (σ : Shape) (N : Nat) : Prop where
  linear : ∀ id s mn mx steps, σ id = some (.linear s mn mx steps) →
    (∃ sv, sensors.get? s = some sv) ∧ steps ≠ some []
  pid : ∀ id s sp, σ id = some (.pid s sp) →
    ∃ sv, sensors.get? s = some sv ∧ ∀ site, sv.value ≠ .panic site
  function : ∀ id ty ms, σ id = some (.function ty ms) →
    ty ∈ supportedTypes ∧ ms ≠ [] ∧ ∀ m ∈ ms, (σ m).isSome = true
  acyclic : ∀ u, ¬ TransGen (SEdge σ) u u
  bound : ∀ path : List String, path.Nodup →
    (∀ p ∈ path, ∃ ty ms, σ p = some (.function ty ms)) → path.length ≤ N

theorem interp_ok (st : List (Int × F64)) (x : F64) (h : st ≠ []) : ∃ v, interp st x = .ok v := by
  cases st with
  | nil => exact absurd rfl h
  | cons a as => exact ⟨_, rfl⟩

theorem evalFn_ok (indef : Int) (ty : String) (vs : List Int) (hty : ty ∈ supportedTypes)
    (hvs : vs ≠ []) : ∃ v, evalFn indef ty vs = .ok v := by
  cases vs with
  | nil => exact absurd rfl hvs
  | cons v0 rest =>
    simp only [supportedTypes, List.mem_cons, List.not_mem_nil, or_false] at hty
    rcases hty with rfl | rfl | rfl | rfl | rfl | rfl <;> simp [evalFn]

/-- what the totality proof needs from one evaluation: the table keeps its shape and the outcome
    is not a panic -/
def EvalOk (σ : Shape) {α : Type} (r : CurveTable × Res α) : Prop :=
  shapeOf r.1 = σ ∧ ∀ site, r.2 ≠ .panic site

theorem evalMembers_total (indef : Int) (sensors : SensorTable) (now : Int) (σ : Shape) (fuel : Nat)
    (ms : List String)
    (H : ∀ m ∈ ms, ∀ T, shapeOf T = σ → EvalOk σ (evalCurve indef sensors now fuel T m)) :
    ∀ T, shapeOf T = σ →
      EvalOk σ (evalMembers indef sensors now fuel T ms) ∧
      ∀ vs, (evalMembers indef sensors now fuel T ms).2 = .ok vs → vs.length = ms.length := by
  induction ms with
  | nil =>
    intro T hT
    rw [evalMembers.eq_1]
    exact ⟨⟨hT, by simp⟩, by simp⟩
  | cons m ms ih =>
    intro T hT
    rw [evalMembers.eq_2]
    have h1 := H m (by simp) T hT
    rcases hr : evalCurve indef sensors now fuel T m with ⟨T', r⟩
    rw [hr] at h1
    cases r with
    | ok v =>
      dsimp only
      have h2 := ih (fun m' hm' => H m' (by simp [hm'])) T' h1.1
      rcases hr2 : evalMembers indef sensors now fuel T' ms with ⟨T'', r2⟩
      rw [hr2] at h2
      cases r2 with
      | ok vs =>
        dsimp only
        refine ⟨⟨h2.1.1, by simp⟩, ?_⟩
        intro vs' hvs'
        simp only [Res.ok.injEq] at hvs'
        subst hvs'
        simp [h2.2 vs rfl]
      | err e => exact ⟨⟨h2.1.1, by simp⟩, by simp⟩
      | panic s => exact absurd rfl (h2.1.2 s)
    | err e => exact ⟨⟨h1.1, by simp⟩, by simp⟩
    | panic s => exact absurd rfl (h1.2 s)

theorem shapeOf_set_of (σ : Shape) (T : CurveTable) (hT : shapeOf T = σ) (id : String) (cu : Curve)
    (hcu : T.get? id = some cu) (c' : Curve) (hid : c'.id = id) (hcfg : c'.cfg = cu.cfg) :
    shapeOf (T.set c') = σ := by
  rw [shapeOf_set T c' cu (by rw [hid]; exact hcu) hcfg]
  exact hT

theorem shape_get (σ : Shape) (T : CurveTable) (hT : shapeOf T = σ) (id : String) (cfg : CurveCfg)
    (h : σ id = some cfg) : ∃ cu, T.get? id = some cu ∧ cu.cfg = cfg ∧ cu.id = id := by
  have : (T.get? id).map (·.cfg) = some cfg := by rw [← h, ← hT]; rfl
  obtain ⟨cu, hcu, hcfg⟩ := Option.map_eq_some_iff.1 this
  exact ⟨cu, hcu, hcfg, get?_id T id cu hcu⟩

theorem evalCurve_total (indef : Int) (sensors : SensorTable) (now : Int) (σ : Shape) (N : Nat)
    (hg : GoodShape sensors σ N) :
    ∀ fuel T id (path : List String), shapeOf T = σ → (σ id).isSome = true → path.Nodup →
      (∀ p ∈ path, TransGen (SEdge σ) p id) → N + 1 ≤ path.length + fuel →
      EvalOk σ (evalCurve indef sensors now fuel T id) := by
  intro fuel
  induction fuel with
  | zero =>
    intro T id path _ _ hnd hpath hlen
    exfalso
    have := hg.bound path hnd (fun p hp => by
      obtain ⟨w, ⟨ty, ms, h1, _⟩, _⟩ := TransGen.head'_iff.1 (hpath p hp)
      exact ⟨ty, ms, h1⟩)
    omega
  | succ fuel ih =>
    intro T id path hT hid hnd hpath hlen
    obtain ⟨cfg, hcfg⟩ := Option.isSome_iff_exists.1 hid
    obtain ⟨cu, hcu, hcucfg, hcuid⟩ := shape_get σ T hT id cfg hcfg
    rw [evalCurve.eq_2, hcu]
    dsimp only
    cases cfg with
    | linear s mn mx steps =>
      rw [hcucfg]
      dsimp only
      obtain ⟨⟨sv, hsv⟩, hsteps⟩ := hg.linear id s mn mx steps hcfg
      rw [hsv]
      dsimp only
      have hset : ∀ v, shapeOf (T.set { id := cu.id, cfg := .linear s mn mx steps, value := v, pid := cu.pid }) = σ :=
        fun v => shapeOf_set_of σ T hT id cu hcu _ hcuid hcucfg.symm
      cases steps with
      | none =>
        dsimp only
        exact ⟨hset _, by simp⟩
      | some st =>
        dsimp only
        obtain ⟨v, hv⟩ := interp_ok st (sv.avg / F64.ofInt 1000) (fun h => hsteps (by rw [h]))
        have : linSteps indef sv.avg st = .ok (F64.toInt indef (F64.round v)) := by
          simp [linSteps, hv, bind, Res.bind, pure]
        rw [this]
        dsimp only
        exact ⟨hset _, by simp⟩
    | pid s sp =>
      rw [hcucfg]
      dsimp only
      obtain ⟨sv, hsv, hval⟩ := hg.pid id s sp hcfg
      rw [hsv]
      dsimp only
      cases hv : sv.value with
      | ok measured =>
        dsimp only
        exact ⟨shapeOf_set_of σ T hT id cu hcu _ hcuid hcucfg.symm, by simp⟩
      | err e => exact ⟨hT, by simp⟩
      | panic site => exact absurd hv (hval site)
    | function ty ms =>
      rw [hcucfg]
      dsimp only
      obtain ⟨hty, hne, hms⟩ := hg.function id ty ms hcfg
      have hidpath : id ∉ path := fun h => hg.acyclic id (hpath id h)
      have H : ∀ m ∈ ms, ∀ T', shapeOf T' = σ → EvalOk σ (evalCurve indef sensors now fuel T' m) := by
        intro m hm T' hT'
        have hedge : SEdge σ id m := ⟨ty, ms, hcfg, hm⟩
        refine ih T' m (id :: path) hT' (hms m hm) (List.nodup_cons.2 ⟨hidpath, hnd⟩) ?_ ?_
        · intro p hp
          rcases List.mem_cons.1 hp with rfl | hp
          · exact TransGen.single hedge
          · exact TransGen.tail (hpath p hp) hedge
        · simp only [List.length_cons]; omega
      obtain ⟨⟨hT', hnp⟩, hlenvs⟩ := evalMembers_total indef sensors now σ fuel ms H T hT
      rcases hr : evalMembers indef sensors now fuel T ms with ⟨T', r⟩
      rw [hr] at hT' hnp hlenvs
      cases r with
      | ok vs =>
        dsimp only
        have hvs : vs ≠ [] := by
          intro h
          have := hlenvs vs rfl
          rw [h] at this
          exact hne (List.length_eq_zero_iff.1 this.symm)
        obtain ⟨v, hv⟩ := evalFn_ok indef ty vs hty hvs
        rw [hv]
        dsimp only
        obtain ⟨cu', hcu', hcucfg', hcuid'⟩ := shape_get σ T' hT' id _ hcfg
        rw [hcu']
        dsimp only [Option.getD_some]
        exact ⟨shapeOf_set_of σ T' hT' id cu' hcu' _ hcuid' rfl, by simp⟩
      | err e => exact ⟨hT', by simp⟩
      | panic site => exact absurd rfl (hnp site)

/-! ### from an accepted configuration to a good shape -/

/-- every sensor entry is backed by a sensor that delivers finite values -/
def SensorsDefined (c : Configuration) (sensors : SensorTable) : Prop :=
  ∀ s ∈ c.sensors, ∃ sv, sensors.get? s.id = some sv ∧ sv.avg.isFinite = true ∧
    ∃ x, sv.value = .ok x ∧ x.isFinite = true

theorem toCurve_some (cc : CurveConfig) (cu : Curve) (h : toCurve cc = some cu) :
    cu.id = cc.id ∧
    (∀ s mn mx st, cu.cfg = .linear s mn mx st → ∃ l, cc.linear = some l ∧ l.sensor = s ∧ l.steps = st) ∧
    (∀ s sp, cu.cfg = .pid s sp → ∃ p, cc.pid = some p ∧ p.sensor = s) ∧
    (∀ ty ms, cu.cfg = .function ty ms → cc.function = some ⟨ty, ms⟩) := by
  obtain ⟨id, l, p, f⟩ := cc
  rcases l with _ | l <;> rcases p with _ | p <;> rcases f with _ | f <;>
    simp only [toCurve, Option.some.injEq, reduceCtorEq] at h <;> subst h <;> simp
  all_goals (intros; constructor <;> assumption)

theorem toCurve_isSome (cc : CurveConfig) (h : cc.subConfigs = 1) : (toCurve cc).isSome = true := by
  obtain ⟨id, l, p, f⟩ := cc
  rcases l with _ | l <;> rcases p with _ | p <;> rcases f with _ | f <;>
    simp_all [toCurve, CurveConfig.subConfigs, b2n]

theorem toCurveTable_get (c : Configuration) (id : String) (cu : Curve)
    (h : (toCurveTable c).get? id = some cu) : ∃ cc ∈ c.curves, toCurve cc = some cu ∧ cc.id = id := by
  have hmem : cu ∈ toCurveTable c := List.mem_of_find?_eq_some h
  obtain ⟨cc, hcc, hto⟩ := List.mem_filterMap.1 hmem
  refine ⟨cc, hcc, hto, ?_⟩
  rw [← (toCurve_some cc cu hto).1]
  exact get?_id _ id cu h

theorem toCurveTable_isSome (c : Configuration) (hb : oneBackend c) (id : String)
    (h : CurveDefined c id) : (shapeOf (toCurveTable c) id).isSome = true := by
  obtain ⟨cc, hcc, rfl⟩ := h
  obtain ⟨cu, hcu⟩ := Option.isSome_iff_exists.1 (toCurve_isSome cc (hb.2.1 cc hcc))
  have hmem : cu ∈ toCurveTable c := List.mem_filterMap.2 ⟨cc, hcc, hcu⟩
  have : ((toCurveTable c).get? cc.id).isSome = true :=
    List.find?_isSome.2 ⟨cu, hmem, by simp [(toCurve_some cc cu hcu).1]⟩
  simpa [shapeOf] using this

theorem sedge_memberOf (c : Configuration) (u v : String)
    (h : SEdge (shapeOf (toCurveTable c)) u v) : MemberOf c u v := by
  obtain ⟨ty, ms, hσ, hv⟩ := h
  obtain ⟨cu, hcu, hcfg⟩ := Option.map_eq_some_iff.1 hσ
  obtain ⟨cc, hcc, hto, hid⟩ := toCurveTable_get c u cu hcu
  exact ⟨cc, hcc, hid, ⟨ty, ms⟩, (toCurve_some cc cu hto).2.2.2 ty ms hcfg, hv⟩

theorem goodShape_of_accepted (c : Configuration) (permOk : Bool)
    (h : validateConfig c permOk = .ok ()) (hne : FunctionsNonempty c) (hst : NoEmptySteps c)
    (sensors : SensorTable) (hs : SensorsDefined c sensors) :
    GoodShape sensors (shapeOf (toCurveTable c)) c.curves.length := by
  have hrefs := accepted_refsResolve h
  have hb := accepted_oneBackend h
  have sens : ∀ s, SensorDefined c s → ∃ sv, sensors.get? s = some sv ∧ ∃ x, sv.value = .ok x := by
    rintro _ ⟨s, hs', rfl⟩
    obtain ⟨sv, h1, _, x, h2, _⟩ := hs s hs'
    exact ⟨sv, h1, x, h2⟩
  refine ⟨?_, ?_, ?_, ?_, ?_⟩
  · intro id s mn mx steps hσ
    obtain ⟨cu, hcu, hcfg⟩ := Option.map_eq_some_iff.1 hσ
    obtain ⟨cc, hcc, hto, _⟩ := toCurveTable_get c id cu hcu
    obtain ⟨l, hl, rfl, rfl⟩ := (toCurve_some cc cu hto).2.1 s mn mx steps hcfg
    obtain ⟨sv, hsv, _⟩ := sens _ (hrefs.1 cc hcc l hl)
    exact ⟨⟨sv, hsv⟩, hst cc hcc l hl⟩
  · intro id s sp hσ
    obtain ⟨cu, hcu, hcfg⟩ := Option.map_eq_some_iff.1 hσ
    obtain ⟨cc, hcc, hto, _⟩ := toCurveTable_get c id cu hcu
    obtain ⟨p, hp, rfl⟩ := (toCurve_some cc cu hto).2.2.1 s sp hcfg
    obtain ⟨sv, hsv, x, hx⟩ := sens _ (hrefs.2.1 cc hcc p hp)
    exact ⟨sv, hsv, fun site => by simp [hx]⟩
  · intro id ty ms hσ
    obtain ⟨cu, hcu, hcfg⟩ := Option.map_eq_some_iff.1 hσ
    obtain ⟨cc, hcc, hto, _⟩ := toCurveTable_get c id cu hcu
    have hf := (toCurve_some cc cu hto).2.2.2 ty ms hcfg
    exact ⟨accepted_fnType h cc hcc _ hf, hne cc hcc _ hf,
      fun m hm => toCurveTable_isSome c hb m (hrefs.2.2.1 cc hcc _ hf m hm)⟩
  · intro u huu
    exact accepted_acyclic h u (TransGen.mono (fun a b hab => sedge_memberOf c a b hab) _ _ huu)
  · intro path hnd hp
    have hsub : path ⊆ (toCurveTable c).map (·.id) := by
      intro p hpm
      obtain ⟨ty, ms, hσ⟩ := hp p hpm
      obtain ⟨cu, hcu, _⟩ := Option.map_eq_some_iff.1 hσ
      exact List.mem_map.2 ⟨cu, List.mem_of_find?_eq_some hcu, get?_id _ p cu hcu⟩
    calc path.length ≤ ((toCurveTable c).map (·.id)).length := (hnd.subperm hsub).length_le
      _ = (toCurveTable c).length := List.length_map _
      _ ≤ c.curves.length := List.length_filterMap_le _ _

/-- An accepted configuration in which every function curve has at least one member and no
    linear curve has an empty (non-nil) step map can be instantiated and every curve evaluated –
    nested function curves of any depth included – without a panic and without running out of
    the fuel `number of curves + 1` (i.e. without endless recursion). -/
theorem eval_total_of_accepted (c : Configuration) (permOk : Bool)
    (h : validateConfig c permOk = .ok ()) (hne : FunctionsNonempty c) (hst : NoEmptySteps c)
    (indef : Int) (sensors : SensorTable) (now : Int) (hs : SensorsDefined c sensors) :
    ∀ cc ∈ c.curves, ∀ site,
      (evalCurve indef sensors now (c.curves.length + 1) (toCurveTable c) cc.id).2 ≠ .panic site := by
  intro cc hcc
  have hg := goodShape_of_accepted c permOk h hne hst sensors hs
  have := evalCurve_total indef sensors now _ _ hg (c.curves.length + 1) (toCurveTable c) cc.id []
    rfl (toCurveTable_isSome c (accepted_oneBackend h) cc.id ⟨cc, hcc, rfl⟩) List.nodup_nil
    (by simp) (by simp)
  exact this.2

end Cfg
end Fan2go
