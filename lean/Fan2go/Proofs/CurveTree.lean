/-
  `SpeedCurve.Evaluate` over a curve table (`evalCurve` / `evalMembers`): compositionality of
  function curves, range of every well-formed curve tree, the PID curve.
-/
import Fan2go.Proofs.FnCurves
import Fan2go.Proofs.Interp

namespace Fan2go
open F64

/-! ### unfolding of function curves -/

/-- The outcome of a function curve is `evalFn` applied to the outcomes of its members. -/
theorem evalCurve_function (indef : Int) (sensors : SensorTable) (now : Int) (fuel : Nat)
    (tbl : CurveTable) (id : String) (c : Curve) (ty : String) (members : List String)
    (hget : tbl.get? id = some c) (hcfg : c.cfg = .function ty members) :
    (evalCurve indef sensors now (fuel + 1) tbl id).2 =
      (evalMembers indef sensors now fuel tbl members).2.bind (evalFn indef ty) := by
  rw [evalCurve]
  simp only [hget, hcfg]
  rcases evalMembers indef sensors now fuel tbl members with ⟨tbl', r⟩
  cases r with
  | ok vs =>
    simp only [Res.bind]
    cases evalFn indef ty vs <;> rfl
  | err e => rfl
  | panic s => rfl

/-- Members are evaluated in order, threading the table. -/
theorem evalMembers_cons (indef : Int) (sensors : SensorTable) (now : Int) (fuel : Nat)
    (tbl : CurveTable) (m : String) (ms : List String) :
    (evalMembers indef sensors now fuel tbl (m :: ms)).2 =
      (evalCurve indef sensors now fuel tbl m).2.bind (fun v =>
        (evalMembers indef sensors now fuel (evalCurve indef sensors now fuel tbl m).1 ms).2.bind
          (fun vs => .ok (v :: vs))) := by
  rw [evalMembers]
  rcases evalCurve indef sensors now fuel tbl m with ⟨tbl', r⟩
  cases r with
  | ok v =>
    simp only [Res.bind]
    rcases evalMembers indef sensors now fuel tbl' ms with ⟨tbl'', r'⟩
    cases r' <;> rfl
  | err e => rfl
  | panic s => rfl

theorem evalMembers_nil (indef : Int) (sensors : SensorTable) (now : Int) (fuel : Nat)
    (tbl : CurveTable) : evalMembers indef sensors now fuel tbl [] = (tbl, .ok []) := by
  rw [evalMembers]

/-! ### the static part of a curve table is never changed by evaluation -/

/-- configuration of the curve `id` (of the first entry with that id, as the Go map lookup). -/
def cfgOf (tbl : CurveTable) (id : String) : Option CurveCfg := (tbl.get? id).map (·.cfg)

theorem ct_get?_set_ne (tbl : CurveTable) (c : Curve) {j : String} (h : j ≠ c.id) :
    (tbl.set c).get? j = tbl.get? j := by
  induction tbl with
  | nil => rfl
  | cons x xs ih =>
    unfold CurveTable.get? CurveTable.set at *
    simp only [List.map_cons, List.find?_cons]
    by_cases hx : x.id = c.id
    · have h1 : (x.id == c.id) = true := by simpa using hx
      have h2 : (c.id == j) = false := by simpa using fun e => h e.symm
      have h3 : (x.id == j) = false := by simpa [hx] using fun e => h e.symm
      simp only [h1, if_true, h2, h3]
      exact ih
    · have h1 : (x.id == c.id) = false := by simpa using hx
      simp only [h1, Bool.false_eq_true, if_false]
      cases hj : (x.id == j)
      · exact ih
      · rfl

theorem ct_get?_set_eq (tbl : CurveTable) (c : Curve) :
    (tbl.set c).get? c.id = (tbl.get? c.id).map (fun _ => c) := by
  induction tbl with
  | nil => rfl
  | cons x xs ih =>
    unfold CurveTable.get? CurveTable.set at *
    simp only [List.map_cons, List.find?_cons]
    by_cases hx : x.id = c.id
    · have h1 : (x.id == c.id) = true := by simpa using hx
      simp [h1]
    · have h1 : (x.id == c.id) = false := by simpa using hx
      simp only [h1, Bool.false_eq_true, if_false]
      exact ih

theorem ct_get?_id {tbl : CurveTable} {id : String} {c : Curve} (h : tbl.get? id = some c) :
    c.id = id := by
  unfold CurveTable.get? at h
  have := List.find?_some h
  simpa using this

/-- writing back a curve that differs from the stored one only in `value` / `pid`. -/
theorem cfgOf_set {tbl : CurveTable} {c0 c : Curve} (hget : tbl.get? c.id = some c0)
    (hcfg : c.cfg = c0.cfg) : cfgOf (tbl.set c) = cfgOf tbl := by
  funext j
  unfold cfgOf
  by_cases hj : j = c.id
  · subst hj; rw [ct_get?_set_eq, hget]; simp [hcfg]
  · rw [ct_get?_set_ne tbl c hj]

/-! ### well-formed curve trees -/

/-- A curve tree that the configuration validator is meant to guarantee: leaves are linear curves
    (min/max form with 64-bit `min`, `max`; or steps form with a non-empty step list satisfying
    `StepsOK`) whose sensor exists and reports a non-NaN average; inner nodes are function curves of
    one of the six types with at least one and at most `2^40` members. The index bounds the depth. -/
inductive WFCurve (sensors : SensorTable) (cfg : String → Option CurveCfg) : Nat → String → Prop
  | minmax {n : Nat} {id sensor : String} {mn mx : Int} {sv : SensorView} :
      cfg id = some (.linear sensor mn mx none) → |mn| ≤ 2 ^ 63 → |mx| ≤ 2 ^ 63 →
      sensors.get? sensor = some sv → sv.avg ≠ nan → WFCurve sensors cfg (n + 1) id
  | steps {n : Nat} {id sensor : String} {mn mx : Int} {sv : SensorView} {x : Int} {y : ℚ}
      {rest : List (Int × ℚ)} :
      cfg id = some (.linear sensor mn mx (some (toSteps ((x, y) :: rest)))) →
      StepsOK ((x, y) :: rest) →
      sensors.get? sensor = some sv → sv.avg ≠ nan → WFCurve sensors cfg (n + 1) id
  | fn {n : Nat} {id ty : String} {members : List String} :
      cfg id = some (.function ty members) → IsFnType ty → members ≠ [] →
      members.length ≤ 2 ^ 40 → (∀ m ∈ members, WFCurve sensors cfg n m) →
      WFCurve sensors cfg (n + 1) id

theorem WFCurve.mono {sensors : SensorTable} {cfg : String → Option CurveCfg} {n : Nat}
    {id : String} (h : WFCurve sensors cfg n id) : WFCurve sensors cfg (n + 1) id := by
  induction h with
  | minmax h1 h2 h3 h4 h5 => exact .minmax h1 h2 h3 h4 h5
  | steps h1 h2 h3 h4 => exact .steps h1 h2 h3 h4
  | fn h1 h2 h3 h4 _ ih => exact .fn h1 h2 h3 h4 ih

/-- what evaluation of a well-formed node delivers. -/
def GoodEval (tbl : CurveTable) (r : CurveTable × Res Int) : Prop :=
  (∃ v, r.2 = .ok v ∧ 0 ≤ v ∧ v ≤ 255) ∧ cfgOf r.1 = cfgOf tbl

def GoodEvals (tbl : CurveTable) (n : Nat) (r : CurveTable × Res (List Int)) : Prop :=
  (∃ vs, r.2 = .ok vs ∧ InRange vs ∧ vs.length = n) ∧ cfgOf r.1 = cfgOf tbl

theorem cfgOf_get {tbl : CurveTable} {id : String} {k : CurveCfg} (h : cfgOf tbl id = some k) :
    ∃ c, tbl.get? id = some c ∧ c.cfg = k ∧ c.id = id := by
  unfold cfgOf at h
  cases hc : tbl.get? id with
  | none => rw [hc] at h; cases h
  | some c =>
    rw [hc] at h
    simp only [Option.map_some, Option.some.injEq] at h
    exact ⟨c, rfl, h, ct_get?_id hc⟩

theorem evalMembers_good (indef : Int) (sensors : SensorTable) (now : Int) (fuel : Nat)
    (ih : ∀ tbl id, WFCurve sensors (cfgOf tbl) fuel id →
      GoodEval tbl (evalCurve indef sensors now fuel tbl id))
    (ms : List String) : ∀ tbl, (∀ m ∈ ms, WFCurve sensors (cfgOf tbl) fuel m) →
      GoodEvals tbl ms.length (evalMembers indef sensors now fuel tbl ms) := by
  induction ms with
  | nil =>
    intro tbl _
    rw [evalMembers_nil]
    refine ⟨⟨[], rfl, ?_, rfl⟩, rfl⟩
    intro v hv; cases hv
  | cons m ms ihm =>
    intro tbl hwf
    have h1 := ih tbl m (hwf m List.mem_cons_self)
    rw [evalMembers]
    rcases hr : evalCurve indef sensors now fuel tbl m with ⟨tbl', r⟩
    rw [hr] at h1
    obtain ⟨⟨v, hv, v0, v1⟩, hc⟩ := h1
    simp only at hv hc
    subst hv
    simp only
    have hwf' : ∀ m' ∈ ms, WFCurve sensors (cfgOf tbl') fuel m' := by
      intro m' hm'; rw [hc]; exact hwf m' (List.mem_cons_of_mem _ hm')
    have h2 := ihm tbl' hwf'
    rcases hr2 : evalMembers indef sensors now fuel tbl' ms with ⟨tbl'', r2⟩
    rw [hr2] at h2
    obtain ⟨⟨vs, hvs, hin, hlen⟩, hc2⟩ := h2
    simp only at hvs hc2
    subst hvs
    simp only
    refine ⟨⟨v :: vs, rfl, ?_, by simp [hlen]⟩, hc2.trans hc⟩
    intro w hw
    rcases List.mem_cons.mp hw with rfl | hw
    · exact ⟨v0, v1⟩
    · exact hin w hw

/-- **Every well-formed curve tree evaluates to a value in 0..255** (and leaves the static part of
    the table untouched), whatever the stored `value`s / PID memories and whatever duplicates the
    table contains. -/
theorem evalCurve_good (indef : Int) (sensors : SensorTable) (now : Int) (fuel : Nat) :
    ∀ tbl id, WFCurve sensors (cfgOf tbl) fuel id →
      GoodEval tbl (evalCurve indef sensors now fuel tbl id) := by
  induction fuel with
  | zero => intro tbl id h; cases h
  | succ fuel ih =>
    intro tbl id h
    cases h with
    | minmax h1 h2 h3 h4 h5 =>
      obtain ⟨c, hget, hcfg, hid⟩ := cfgOf_get h1
      rw [evalCurve]
      simp only [hget, hcfg, h4]
      have hr := linMinMax_range indef h5 h2 h3
      refine ⟨⟨_, rfl, hr.1, hr.2⟩, ?_⟩
      exact cfgOf_set (c0 := c) (by simpa [hid] using hget) hcfg.symm
    | steps h1 h2 h4 h5 =>
      obtain ⟨c, hget, hcfg, hid⟩ := cfgOf_get h1
      rw [evalCurve]
      simp only [hget, hcfg, h4]
      obtain ⟨v, hv, v0, v1⟩ := linSteps_range indef _ _ _ h2 h5
      rw [hv]
      refine ⟨⟨_, rfl, v0, v1⟩, ?_⟩
      exact cfgOf_set (c0 := c) (by simpa [hid] using hget) hcfg.symm
    | @fn _ _ ty members h1 h2 h3 h4 h5 =>
      obtain ⟨c, hget, hcfg, hid⟩ := cfgOf_get h1
      rw [evalCurve]
      simp only [hget, hcfg]
      have hm := evalMembers_good indef sensors now fuel ih _ tbl h5
      rcases hr : evalMembers indef sensors now fuel tbl _ with ⟨tbl', r⟩
      rw [hr] at hm
      obtain ⟨⟨vs, hvs, hin, hlen⟩, hc⟩ := hm
      simp only at hvs hc
      subst hvs
      simp only
      have hne : vs ≠ [] := by
        intro e; rw [e] at hlen
        exact h3 (List.length_eq_zero_iff.mp hlen.symm)
      obtain ⟨v, hv, v0, v1⟩ := evalFn_range indef h2 hin (by omega) hne
      rw [hv]
      simp only
      refine ⟨⟨_, rfl, v0, v1⟩, ?_⟩
      -- the re-read curve has the same id and configuration
      have h1' : cfgOf tbl' id = some (.function ty members) := by rw [hc]; exact h1
      obtain ⟨c', hget', hcfg', hid'⟩ := cfgOf_get h1'
      rw [hget']
      simp only [Option.getD_some]
      exact (cfgOf_set (c := { c' with value := v }) (c0 := c')
        (by simpa [hid'] using hget') rfl).trans hc

/-! ### the PID curve -/

/-- `int(Coerce(loopValue, 0, 1) * 255)` -/
def pidValue (indef : Int) (loopValue : F64) : Int :=
  toInt indef (coerce loopValue (ofInt 0) (ofInt 1) * ofInt 255)

theorem evalCurve_pid (indef : Int) (sensors : SensorTable) (now : Int) (fuel : Nat)
    (tbl : CurveTable) (id : String) (c : Curve) (sensor : String) (setPoint measured : F64)
    (sv : SensorView) (hget : tbl.get? id = some c) (hcfg : c.cfg = .pid sensor setPoint)
    (hs : sensors.get? sensor = some sv) (hv : sv.value = .ok measured) :
    (evalCurve indef sensors now (fuel + 1) tbl id).2
      = .ok (pidValue indef (pidLoop c.pid setPoint (measured / ofRat 1000) now).2) := by
  rw [evalCurve]
  simp only [hget, hcfg, hs, hv]
  rfl

theorem pidValue_range (indef : Int) {lv : F64} (h : lv ≠ nan) :
    0 ≤ pidValue indef lv ∧ pidValue indef lv ≤ 255 := by
  unfold pidValue
  rw [ofInt_zero, ofInt_one, ofInt_255]
  obtain ⟨q, hq, q0, q1⟩ := coerce_range (lo := 0) (hi := 1) h (by norm_num)
  rw [hq, mul_fin_of_abs_le]
  · have a : (0 : ℚ) ≤ fl64 (q * 255) := fl64_nonneg (by positivity)
    have b : fl64 (q * 255) ≤ 255 := fl64_le_of_le_rep rep64_255 (by linarith)
    have := toInt_fin_of_bounds indef (q := fl64 (q * 255)) (lo := 0) (hi := 255)
      (by simpa using a) (by simpa using b) (by norm_num) (by norm_num)
    rw [this.1]; exact ⟨this.2.1, this.2.2⟩
  · apply abs_le_pow2_1023_of_le (n := 10) _ (by norm_num)
    rw [abs_of_nonneg (by positivity)]; linarith

/-- a NaN loop value passes `Coerce` and the scaling; `int(NaN)` is implementation-defined. -/
theorem pidValue_nan (indef : Int) : pidValue indef nan = indef := by
  unfold pidValue
  rw [coerce_nan]
  simp

/-- table and outcome of evaluating a PID curve. -/
theorem evalCurve_pid_full (indef : Int) (sensors : SensorTable) (now : Int) (fuel : Nat)
    (tbl : CurveTable) (id : String) (c : Curve) (sensor : String) (setPoint measured : F64)
    (sv : SensorView) (hget : tbl.get? id = some c) (hcfg : c.cfg = .pid sensor setPoint)
    (hs : sensors.get? sensor = some sv) (hv : sv.value = .ok measured) :
    evalCurve indef sensors now (fuel + 1) tbl id
      = (tbl.set { c with
            value := pidValue indef (pidLoop c.pid setPoint (measured / ofRat 1000) now).2,
            pid := (pidLoop c.pid setPoint (measured / ofRat 1000) now).1 },
         .ok (pidValue indef (pidLoop c.pid setPoint (measured / ofRat 1000) now).2)) := by
  rw [evalCurve]
  simp only [hget, hcfg, hs, hv]
  rfl

/-! #### two successive evaluations of a single PID curve -/

/-- a table holding one freshly constructed PID curve (`NewPidLoop(p, i, d)`). -/
def pidCurve (p i d setPoint : F64) : Curve :=
  { id := "c", cfg := .pid "s" setPoint, pid := { p := p, i := i, d := d } }

def pidSensors (reading : F64) : SensorTable := [("s", { avg := reading, value := .ok reading })]

/-- outcomes of two successive `Evaluate()` calls at clock readings `now₁`, `now₂` with sensor
    readings `m₁`, `m₂`. -/
def pidTwice (indef : Int) (p i d setPoint m₁ m₂ : F64) (now₁ now₂ : Int) : Res Int × Res Int :=
  let r1 := evalCurve indef (pidSensors m₁) now₁ 1 [pidCurve p i d setPoint] "c"
  let r2 := evalCurve indef (pidSensors m₂) now₂ 1 r1.1 "c"
  (r1.2, r2.2)

/-- loop values of the two evaluations, straight from `util.PidLoop.Loop`. -/
def pidTwiceLoop (p i d setPoint m₁ m₂ : F64) (now₁ now₂ : Int) : F64 × F64 :=
  let s1 := pidLoop { p := p, i := i, d := d } setPoint (m₁ / ofRat 1000) now₁
  let s2 := pidLoop s1.1 setPoint (m₂ / ofRat 1000) now₂
  (s1.2, s2.2)

theorem pidTwice_eq (indef : Int) (p i d setPoint m₁ m₂ : F64) (now₁ now₂ : Int) :
    pidTwice indef p i d setPoint m₁ m₂ now₁ now₂ =
      (.ok (pidValue indef (pidTwiceLoop p i d setPoint m₁ m₂ now₁ now₂).1),
       .ok (pidValue indef (pidTwiceLoop p i d setPoint m₁ m₂ now₁ now₂).2)) := by
  unfold pidTwice
  have hg : ∀ c : Curve, c.id = "c" → CurveTable.get? [c] "c" = some c := by
    intro c hc; simp [CurveTable.get?, hc]
  have hsens : ∀ m : F64, SensorTable.get? (pidSensors m) "s"
      = some { avg := m, value := .ok m } := by
    intro m; simp [SensorTable.get?, pidSensors]
  have e1 := evalCurve_pid_full indef (pidSensors m₁) now₁ 0 [pidCurve p i d setPoint] "c"
    (pidCurve p i d setPoint) "s" setPoint m₁ _ (hg _ rfl) rfl (hsens m₁) rfl
  simp only [e1]
  have hset : ∀ c' : Curve, c'.id = "c" →
      CurveTable.set [pidCurve p i d setPoint] c' = [c'] := by
    intro c' hc'; simp [CurveTable.set, pidCurve, hc']
  rw [hset _ rfl]
  have e2 := fun (c' : Curve) (hid : c'.id = "c") (hcfg : c'.cfg = .pid "s" setPoint) =>
    evalCurve_pid_full indef (pidSensors m₂) now₂ 0 [c'] "c" c' "s" setPoint m₂ _ (hg c' hid) hcfg
      (hsens m₂) rfl
  rw [e2 _ rfl rfl]
  rfl

/-! ### monotone curve trees (C07) -/

/-- outcome of a linear curve, whatever happens to the table. -/
theorem evalCurve_linear (indef : Int) (sensors : SensorTable) (now : Int) (fuel : Nat)
    (tbl : CurveTable) (id : String) (c : Curve) (sensor : String) (mn mx : Int)
    (steps : Option (List (Int × F64))) (sv : SensorView) (hget : tbl.get? id = some c)
    (hcfg : c.cfg = .linear sensor mn mx steps) (hs : sensors.get? sensor = some sv) :
    (evalCurve indef sensors now (fuel + 1) tbl id).2 =
      match steps with
      | some st => linSteps indef sv.avg st
      | none => .ok (linMinMax indef sv.avg mn mx) := by
  rw [evalCurve]
  simp only [hget, hcfg, hs]
  cases steps with
  | none => rfl
  | some st =>
    simp only
    cases linSteps indef sv.avg st <;> rfl

/-- every sensor of `S` exists in `S'` with an average that is not smaller (Go `<=`; in particular
    neither average is NaN). -/
def SensorsLe (S S' : SensorTable) : Prop :=
  ∀ s sv, S.get? s = some sv → ∃ sv', S'.get? s = some sv' ∧ le sv.avg sv'.avg = true

/-- A monotone curve tree: as `WFCurve`, but step speeds are non-decreasing binary32 values and
    inner nodes are `sum`, `maximum`, `minimum` or `average`. -/
inductive WFMonoCurve (sensors : SensorTable) (cfg : String → Option CurveCfg) : Nat → String → Prop
  | minmax {n : Nat} {id sensor : String} {mn mx : Int} {sv : SensorView} :
      cfg id = some (.linear sensor mn mx none) → |mn| ≤ 2 ^ 63 → |mx| ≤ 2 ^ 63 →
      sensors.get? sensor = some sv → WFMonoCurve sensors cfg (n + 1) id
  | steps {n : Nat} {id sensor : String} {mn mx : Int} {sv : SensorView} {x : Int} {y : ℚ}
      {rest : List (Int × ℚ)} :
      cfg id = some (.linear sensor mn mx (some (toSteps ((x, y) :: rest)))) →
      StepsOK ((x, y) :: rest) → StepsMono ((x, y) :: rest) →
      sensors.get? sensor = some sv → WFMonoCurve sensors cfg (n + 1) id
  | fn {n : Nat} {id ty : String} {members : List String} :
      cfg id = some (.function ty members) → IsMonoFnType ty → members ≠ [] →
      members.length ≤ 2 ^ 40 → (∀ m ∈ members, WFMonoCurve sensors cfg n m) →
      WFMonoCurve sensors cfg (n + 1) id

theorem IsMonoFnType.isFnType {ty : String} (h : IsMonoFnType ty) : IsFnType ty := by
  rcases h with rfl | rfl | rfl | rfl <;> unfold IsFnType <;> simp

theorem WFMonoCurve.toWF {S S' : SensorTable} (hS : SensorsLe S S')
    {cfg : String → Option CurveCfg} {n : Nat} {id : String} (h : WFMonoCurve S cfg n id) :
    WFCurve S cfg n id ∧ WFCurve S' cfg n id := by
  induction h with
  | minmax h1 h2 h3 h4 =>
    obtain ⟨sv', hs', hle⟩ := hS _ _ h4
    exact ⟨.minmax h1 h2 h3 h4 (ne_nan_of_le_left hle), .minmax h1 h2 h3 hs' (ne_nan_of_le_right hle)⟩
  | steps h1 h2 _ h4 =>
    obtain ⟨sv', hs', hle⟩ := hS _ _ h4
    exact ⟨.steps h1 h2 h4 (ne_nan_of_le_left hle), .steps h1 h2 hs' (ne_nan_of_le_right hle)⟩
  | fn h1 h2 h3 h4 _ ih =>
    exact ⟨.fn h1 h2.isFnType h3 h4 (fun m hm => (ih m hm).1),
      .fn h1 h2.isFnType h3 h4 (fun m hm => (ih m hm).2)⟩

/-- the two runs compared by the monotonicity theorem. -/
def MonoEval (r r' : CurveTable × Res Int) : Prop :=
  ∃ v v', r.2 = .ok v ∧ r'.2 = .ok v' ∧ v ≤ v' ∧ (0 ≤ v ∧ v ≤ 255) ∧ (0 ≤ v' ∧ v' ≤ 255)

theorem evalMembers_mono (indef : Int) (S S' : SensorTable) (hS : SensorsLe S S') (now now' : Int)
    (fuel : Nat)
    (ih : ∀ tbl tbl' id, cfgOf tbl = cfgOf tbl' → WFMonoCurve S (cfgOf tbl) fuel id →
      MonoEval (evalCurve indef S now fuel tbl id) (evalCurve indef S' now' fuel tbl' id))
    (ms : List String) : ∀ tbl tbl', cfgOf tbl = cfgOf tbl' →
      (∀ m ∈ ms, WFMonoCurve S (cfgOf tbl) fuel m) →
      ∃ vs vs', (evalMembers indef S now fuel tbl ms).2 = .ok vs ∧
        (evalMembers indef S' now' fuel tbl' ms).2 = .ok vs' ∧ List.Forall₂ (· ≤ ·) vs vs' ∧
        InRange vs ∧ InRange vs' ∧ vs.length = ms.length := by
  induction ms with
  | nil =>
    intro tbl tbl' _ _
    refine ⟨[], [], by rw [evalMembers_nil], by rw [evalMembers_nil], .nil, ?_, ?_, rfl⟩ <;>
      (intro v hv; cases hv)
  | cons m ms ihm =>
    intro tbl tbl' hcfg hwf
    have hwm := hwf m List.mem_cons_self
    obtain ⟨v, v', h1, h1', hvv, hr, hr'⟩ := ih tbl tbl' m hcfg hwm
    have g := (evalCurve_good indef S now fuel tbl m (hwm.toWF hS).1).2
    have g' := (evalCurve_good indef S' now' fuel tbl' m (by rw [← hcfg]; exact (hwm.toWF hS).2)).2
    have hcfg2 : cfgOf (evalCurve indef S now fuel tbl m).1
        = cfgOf (evalCurve indef S' now' fuel tbl' m).1 := g.trans (hcfg.trans g'.symm)
    obtain ⟨vs, vs', h2, h2', hf, hi, hi', hl⟩ := ihm _ _ hcfg2
      (fun m' hm' => by rw [g]; exact hwf m' (List.mem_cons_of_mem _ hm'))
    refine ⟨v :: vs, v' :: vs', ?_, ?_, .cons hvv hf, ?_, ?_, by simp [hl]⟩
    · rw [evalMembers_cons, h1]; simp only [Res.bind]; rw [h2]
    · rw [evalMembers_cons, h1']; simp only [Res.bind]; rw [h2']
    · intro w hw
      rcases List.mem_cons.mp hw with rfl | hw
      · exact hr
      · exact hi w hw
    · intro w hw
      rcases List.mem_cons.mp hw with rfl | hw
      · exact hr'
      · exact hi' w hw

/-- **Monotonicity of a whole curve tree**: if every sensor average in `S'` is at least the one in
    `S`, every monotone curve tree evaluates in `S'` to at least its value in `S` — whatever the
    tables' stored values (only their static parts must agree) and clock readings. -/
theorem evalCurve_mono (indef : Int) (S S' : SensorTable) (hS : SensorsLe S S') (now now' : Int)
    (fuel : Nat) : ∀ tbl tbl' id, cfgOf tbl = cfgOf tbl' → WFMonoCurve S (cfgOf tbl) fuel id →
      MonoEval (evalCurve indef S now fuel tbl id) (evalCurve indef S' now' fuel tbl' id) := by
  induction fuel with
  | zero => intro tbl tbl' id _ h; cases h
  | succ fuel ih =>
    intro tbl tbl' id hcfg h
    have hwf := h.toWF hS
    obtain ⟨⟨v, hv, v0, v1⟩, _⟩ := evalCurve_good indef S now (fuel + 1) tbl id hwf.1
    obtain ⟨⟨v', hv', v0', v1'⟩, _⟩ := evalCurve_good indef S' now' (fuel + 1) tbl' id
      (by rw [← hcfg]; exact hwf.2)
    refine ⟨v, v', hv, hv', ?_, ⟨v0, v1⟩, ⟨v0', v1'⟩⟩
    cases h with
    | @minmax _ _ sensor mn mx sv h1 h2 h3 h4 =>
      obtain ⟨sv', hs', hle⟩ := hS _ _ h4
      obtain ⟨c, hget, hc, _⟩ := cfgOf_get h1
      obtain ⟨c', hget', hc', _⟩ := cfgOf_get (by rw [← hcfg]; exact h1 : cfgOf tbl' id = _)
      rw [evalCurve_linear indef S now fuel tbl id c sensor mn mx none sv hget hc h4] at hv
      rw [evalCurve_linear indef S' now' fuel tbl' id c' sensor mn mx none sv' hget' hc' hs'] at hv'
      simp only [Res.ok.injEq] at hv hv'
      rw [← hv, ← hv']
      exact linMinMax_mono' indef hle h2 h3
    | @steps _ _ sensor mn mx sv x y rest h1 h2 h3 h4 =>
      obtain ⟨sv', hs', hle⟩ := hS _ _ h4
      obtain ⟨c, hget, hc, _⟩ := cfgOf_get h1
      obtain ⟨c', hget', hc', _⟩ := cfgOf_get (by rw [← hcfg]; exact h1 : cfgOf tbl' id = _)
      rw [evalCurve_linear indef S now fuel tbl id c sensor mn mx _ sv hget hc h4] at hv
      rw [evalCurve_linear indef S' now' fuel tbl' id c' sensor mn mx _ sv' hget' hc' hs'] at hv'
      simp only at hv hv'
      obtain ⟨a, b, ha, hb, hab⟩ := linSteps_mono indef x y rest h2 h3 hle
      rw [ha] at hv; rw [hb] at hv'
      simp only [Res.ok.injEq] at hv hv'
      omega
    | @fn _ _ ty members h1 h2 h3 h4 h5 =>
      obtain ⟨c, hget, hc, _⟩ := cfgOf_get h1
      obtain ⟨c', hget', hc', _⟩ := cfgOf_get (by rw [← hcfg]; exact h1 : cfgOf tbl' id = _)
      rw [evalCurve_function indef S now fuel tbl id c ty members hget hc] at hv
      rw [evalCurve_function indef S' now' fuel tbl' id c' ty members hget' hc'] at hv'
      obtain ⟨vs, vs', e, e', hf, hi, hi', hl⟩ :=
        evalMembers_mono indef S S' hS now now' fuel ih members tbl tbl' hcfg h5
      rw [e] at hv; rw [e'] at hv'
      simp only [Res.bind] at hv hv'
      have hne : ty = "average" → vs ≠ [] := by
        intro _ e0; rw [e0] at hl
        exact h3 (List.length_eq_zero_iff.mp hl.symm)
      obtain ⟨a, b, ha, hb, hab⟩ := evalFn_mono indef h2 hf hi hi' (by omega) hne
      rw [ha] at hv; rw [hb] at hv'
      simp only [Res.ok.injEq] at hv hv'
      omega

end Fan2go
