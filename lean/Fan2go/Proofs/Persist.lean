/-
  Lemmas about the persistence model (`Fan2go.Model.Persist`): the key/value list of a bucket
  behaves like a finite map, the abstraction function `abs` commutes with every operation
  (refinement of the "obvious" specification `Spec`), and the frame / preservation lemmas used by
  `Props/C14.lean`. Core Lean only (no Mathlib needed).
-/
import Fan2go.Model.Persist
namespace Fan2go
namespace Persist

/-! ### a bucket's entry list is a finite map -/

theorem Entries.get_erase_same {α} (es : Entries α) (id : String) : (es.erase id).get id = none := by
  induction es with
  | nil => rfl
  | cons p rest ih =>
    obtain ⟨i, b⟩ := p
    by_cases h : i = id
    · simpa [Entries.erase, List.filter_cons, h] using ih
    · simpa [Entries.erase, List.filter_cons, h, Entries.get] using ih

theorem Entries.get_erase_ne {α} (es : Entries α) {id id' : String} (h : id' ≠ id) :
    (es.erase id).get id' = es.get id' := by
  induction es with
  | nil => rfl
  | cons p rest ih =>
    obtain ⟨i, b⟩ := p
    by_cases hi : i = id
    · have hne : ¬ i = id' := fun e => h (e ▸ hi ▸ rfl)
      simpa [Entries.erase, List.filter_cons, hi, Entries.get, hne, h.symm] using ih
    · by_cases hi' : i = id'
      · subst hi'
        simp [Entries.erase, hi, Entries.get]
      · simpa [Entries.erase, List.filter_cons, hi, Entries.get, hi'] using ih

theorem Entries.get_put_same {α} (es : Entries α) (id : String) (b : Blob α) :
    (es.put id b).get id = some b := by
  simp [Entries.put, Entries.get]

theorem Entries.get_put_ne {α} (es : Entries α) {id id' : String} (b : Blob α) (h : id' ≠ id) :
    (es.put id b).get id' = es.get id' := by
  have h' : ¬ id = id' := fun e => h e.symm
  simp [Entries.put, Entries.get, h', Entries.get_erase_ne es h]

theorem Entries.erase_erase {α} (es : Entries α) (id : String) : (es.erase id).erase id = es.erase id := by
  simp [Entries.erase, List.filter_filter]

theorem Entries.erase_put {α} (es : Entries α) (id : String) (b : Blob α) :
    (es.put id b).erase id = es.erase id := by
  simp [Entries.put, Entries.erase, List.filter_filter]

/-! ### buckets of the database -/

@[simp] theorem Db.bucket_setBucket_same (db : Db) (k : Kind) (b : Bucket k.Val) :
    (db.setBucket k b).bucket k = b := by cases k <;> rfl

theorem Db.bucket_setBucket_ne (db : Db) {k k' : Kind} (b : Bucket k.Val) (h : k' ≠ k) :
    (db.setBucket k b).bucket k' = db.bucket k' := by
  cases k <;> cases k' <;> first | rfl | exact absurd rfl h

theorem Db.setBucket_bucket (db : Db) (k : Kind) : db.setBucket k (db.bucket k) = db := by
  cases k <;> rfl

theorem Db.setBucket_setBucket (db : Db) (k : Kind) (b b' : Bucket k.Val) :
    (db.setBucket k b).setBucket k b' = db.setBucket k b' := by cases k <;> rfl

/-! ### function update of the specification state -/

@[simp] theorem Spec.set_same (s : Spec) (k : Kind) (id : String) (x : Option (Blob k.Val)) :
    s.set k id x k id = x := by simp [Spec.set]

theorem Spec.set_ne (s : Spec) {k k' : Kind} {id id' : String} (x : Option (Blob k.Val))
    (h : (k', id') ≠ (k, id)) : s.set k id x k' id' = s k' id' := by
  unfold Spec.set
  by_cases hk : k' = k
  · subst hk
    have hid : ¬ id' = id := fun e => h (by rw [e])
    simp [hid]
  · simp [hk]

theorem Spec.set_eq_self (s : Spec) (k : Kind) (id : String) (x : Option (Blob k.Val))
    (h : s k id = x) : s.set k id x = s := by
  funext k' id'
  by_cases e : (k', id') = (k, id)
  · cases e; simp [h]
  · exact Spec.set_ne s x e

/-! ### `abs` of the state after each kind of bucket update -/

theorem abs_def (db : Db) (k : Kind) (id : String) :
    abs db k id = match db.bucket k with | none => none | some es => es.get id := rfl

/-- `Put` into the (possibly just created) bucket = function update -/
theorem abs_put (db : Db) (k : Kind) (id : String) (b : Blob k.Val) :
    abs (db.setBucket k (some (((db.bucket k).getD []).put id b))) = (abs db).set k id (some b) := by
  funext k' id'
  by_cases hk : k' = k
  · subst hk
    by_cases hid : id' = id
    · subst hid
      simp [abs_def, Entries.get_put_same]
    · rw [Spec.set_ne _ _ (fun e => hid (by cases e; rfl))]
      simp only [abs_def, Db.bucket_setBucket_same, Entries.get_put_ne _ _ hid]
      cases db.bucket k' <;> rfl
  · rw [Spec.set_ne _ _ (fun e => hk (by cases e; rfl))]
    simp only [abs_def, Db.bucket_setBucket_ne _ _ hk]

/-- `Delete` in an existing bucket = function update with "absent" -/
theorem abs_erase (db : Db) (k : Kind) (id : String) (es : Entries k.Val) (hb : db.bucket k = some es) :
    abs (db.setBucket k (some (es.erase id))) = (abs db).set k id none := by
  funext k' id'
  by_cases hk : k' = k
  · subst hk
    by_cases hid : id' = id
    · subst hid
      simp [abs_def, Entries.get_erase_same]
    · rw [Spec.set_ne _ _ (fun e => hid (by cases e; rfl))]
      simp only [abs_def, Db.bucket_setBucket_same, Entries.get_erase_ne _ hid, hb]
  · rw [Spec.set_ne _ _ (fun e => hk (by cases e; rfl))]
    simp only [abs_def, Db.bucket_setBucket_ne _ _ hk]

/-! ### results in terms of the abstract contents -/

/-- what `Load*` returns for the given slot contents -/
def loadOut {α} : Option (Blob α) → Res α
  | none => .err "notfound"
  | some (.valid v) => .ok v
  | some (.corrupt p) => .ok p

theorem load_out (db : Db) (k : Kind) (id : String) : (load db k id).2 = loadOut (abs db k id) := by
  unfold load
  rw [abs_def]
  cases db.bucket k with
  | none => rfl
  | some es =>
    simp only
    cases es.get id with
    | none => rfl
    | some b => cases b <;> rfl

theorem load_abs (db : Db) (k : Kind) (id : String) :
    abs (load db k id).1 =
      match abs db k id with
      | some (.corrupt _) => (abs db).set k id none
      | _ => abs db := by
  unfold load
  rw [abs_def]
  cases hb : db.bucket k with
  | none => rfl
  | some es =>
    simp only
    cases es.get id with
    | none => rfl
    | some b =>
      cases b with
      | valid v => rfl
      | corrupt p => exact abs_erase db k id es hb

theorem delete_out (db : Db) (k : Kind) (id : String) : (delete db k id).2 = .ok () := by
  unfold delete
  cases db.bucket k with
  | none => rfl
  | some es => simp only; cases es.get id <;> rfl

theorem delete_abs (db : Db) (k : Kind) (id : String) :
    abs (delete db k id).1 = (abs db).set k id none := by
  unfold delete
  cases hb : db.bucket k with
  | none => exact (Spec.set_eq_self _ _ _ _ (by rw [abs_def, hb])).symm
  | some es =>
    simp only
    cases hg : es.get id with
    | none => exact (Spec.set_eq_self _ _ _ _ (by rw [abs_def, hb]; exact hg)).symm
    | some b => exact abs_erase db k id es hb

/-- deleting an absent entry does not touch the file contents -/
theorem delete_absent (db : Db) (k : Kind) (id : String) (h : abs db k id = none) :
    delete db k id = (db, .ok ()) := by
  unfold delete
  rw [abs_def] at h
  cases hb : db.bucket k with
  | none => rfl
  | some es =>
    rw [hb] at h
    simp only at h
    simp only [h]

/-! ### refinement: one step, then whole runs -/

theorem step_refines (db : Db) (op : Op) :
    abs (step db op).1 = (Spec.step (abs db) op).1 ∧ (step db op).2 = (Spec.step (abs db) op).2 := by
  cases op with
  | save k id arg =>
    simp only [step, Spec.step, save]
    cases encode k arg with
    | panic s => exact ⟨rfl, rfl⟩
    | err e => exact ⟨rfl, rfl⟩
    | ok v =>
      simp only
      cases keyOk id with
      | false => exact ⟨rfl, rfl⟩
      | true => exact ⟨abs_put db k id (.valid v), rfl⟩
  | load k id =>
    simp only [step, Spec.step]
    refine ⟨?_, ?_⟩
    · rw [load_abs]
      cases abs db k id with
      | none => rfl
      | some b => cases b <;> rfl
    · rw [load_out]
      cases abs db k id with
      | none => rfl
      | some b => cases b <;> rfl
  | delete k id =>
    simp only [step, Spec.step]
    exact ⟨delete_abs db k id, by rw [delete_out]⟩
  | reopen => exact ⟨rfl, rfl⟩
  | putRaw k id b =>
    simp only [step, Spec.step, putRaw]
    cases keyOk id with
    | false => exact ⟨rfl, rfl⟩
    | true => exact ⟨abs_put db k id b, rfl⟩

theorem run_refines (db : Db) (ops : List Op) :
    abs (run db ops).1 = (Spec.run (abs db) ops).1 ∧ (run db ops).2 = (Spec.run (abs db) ops).2 := by
  induction ops generalizing db with
  | nil => exact ⟨rfl, rfl⟩
  | cons op ops ih =>
    obtain ⟨h1, h2⟩ := step_refines db op
    obtain ⟨i1, i2⟩ := ih (step db op).1
    simp only [run, Spec.run]
    rw [← h1, ← h2]
    exact ⟨i1, by rw [i2]⟩

/-! ### frame and preservation (proved on the specification, transferred by refinement) -/

/-- an operation changes at most the slot it is about -/
theorem Spec.step_frame (s : Spec) (op : Op) (k : Kind) (id : String)
    (h : op.target ≠ some (k, id)) : (Spec.step s op).1 k id = s k id := by
  cases op with
  | save k0 id0 arg =>
    have hne : (k, id) ≠ (k0, id0) := fun e => h (by rw [Op.target, e])
    simp only [Spec.step]
    cases encode k0 arg with
    | panic _ => rfl
    | err _ => rfl
    | ok v =>
      simp only
      cases keyOk id0 with
      | false => rfl
      | true => exact Spec.set_ne s _ hne
  | load k0 id0 =>
    have hne : (k, id) ≠ (k0, id0) := fun e => h (by rw [Op.target, e])
    simp only [Spec.step]
    cases s k0 id0 with
    | none => rfl
    | some b =>
      cases b with
      | valid _ => rfl
      | corrupt _ => exact Spec.set_ne s _ hne
  | delete k0 id0 =>
    have hne : (k, id) ≠ (k0, id0) := fun e => h (by rw [Op.target, e])
    exact Spec.set_ne s _ hne
  | reopen => rfl
  | putRaw k0 id0 b =>
    have hne : (k, id) ≠ (k0, id0) := fun e => h (by rw [Op.target, e])
    simp only [Spec.step]
    cases keyOk id0 with
    | false => rfl
    | true => exact Spec.set_ne s _ hne

theorem step_frame (db : Db) (op : Op) (k : Kind) (id : String) (h : op.target ≠ some (k, id)) :
    abs (step db op).1 k id = abs db k id := by
  rw [(step_refines db op).1]; exact Spec.step_frame _ op k id h

theorem run_frame (db : Db) (ops : List Op) (k : Kind) (id : String)
    (h : ∀ op ∈ ops, op.target ≠ some (k, id)) : abs (run db ops).1 k id = abs db k id := by
  induction ops generalizing db with
  | nil => rfl
  | cons op ops ih =>
    simp only [run]
    rw [ih (step db op).1 (fun o ho => h o (List.mem_cons_of_mem _ ho))]
    exact step_frame db op k id (h op List.mem_cons_self)

/-- an operation that is not a write on `(k, id)` and is about `(k, id)` is the load of `(k, id)` -/
theorem Op.eq_load_of_not_writes {op : Op} {k : Kind} {id : String}
    (ht : op.target = some (k, id)) (hw : op.writes k id = false) : op = .load k id := by
  cases op with
  | save k0 id0 arg => simp [Op.target] at ht; simp [Op.writes, ht.1, ht.2] at hw
  | load k0 id0 => simp [Op.target] at ht; rw [ht.1, ht.2]
  | delete k0 id0 => simp [Op.target] at ht; simp [Op.writes, ht.1, ht.2] at hw
  | reopen => simp [Op.target] at ht
  | putRaw k0 id0 b => simp [Op.target] at ht; simp [Op.writes, ht.1, ht.2] at hw

/-- a decodable entry survives every operation except a save / delete / putRaw on its own slot -/
theorem step_keeps_valid (db : Db) (op : Op) (k : Kind) (id : String) (v : k.Val)
    (hv : abs db k id = some (.valid v)) (hw : op.writes k id = false) :
    abs (step db op).1 k id = some (.valid v) := by
  by_cases ht : op.target = some (k, id)
  · rw [Op.eq_load_of_not_writes ht hw]
    simp only [step]
    rw [load_abs, hv]
    exact hv
  · rw [step_frame db op k id ht]; exact hv

theorem run_keeps_valid (db : Db) (ops : List Op) (k : Kind) (id : String) (v : k.Val)
    (hv : abs db k id = some (.valid v)) (hw : ∀ op ∈ ops, op.writes k id = false) :
    abs (run db ops).1 k id = some (.valid v) := by
  induction ops generalizing db with
  | nil => exact hv
  | cons op ops ih =>
    simp only [run]
    exact ih (step db op).1 (step_keeps_valid db op k id v hv (hw op List.mem_cons_self))
      (fun o ho => hw o (List.mem_cons_of_mem _ ho))

/-- an absent entry stays absent under every operation except a save / putRaw on its own slot -/
theorem step_keeps_absent (db : Db) (op : Op) (k : Kind) (id : String)
    (hv : abs db k id = none) (hs : op.stores k id = false) :
    abs (step db op).1 k id = none := by
  by_cases ht : op.target = some (k, id)
  · cases op with
    | save k0 id0 arg => simp [Op.target] at ht; simp [Op.stores, ht.1, ht.2] at hs
    | load k0 id0 =>
      simp [Op.target] at ht
      obtain ⟨rfl, rfl⟩ := ht
      simp only [step]
      rw [load_abs, hv]; exact hv
    | delete k0 id0 =>
      simp [Op.target] at ht
      obtain ⟨rfl, rfl⟩ := ht
      simp only [step]
      rw [delete_abs]; exact Spec.set_same _ _ _ _
    | reopen => simp [Op.target] at ht
    | putRaw k0 id0 b => simp [Op.target] at ht; simp [Op.stores, ht.1, ht.2] at hs
  · rw [step_frame db op k id ht]; exact hv

theorem run_keeps_absent (db : Db) (ops : List Op) (k : Kind) (id : String)
    (hv : abs db k id = none) (hs : ∀ op ∈ ops, op.stores k id = false) :
    abs (run db ops).1 k id = none := by
  induction ops generalizing db with
  | nil => exact hv
  | cons op ops ih =>
    simp only [run]
    exact ih (step db op).1 (step_keeps_absent db op k id hv (hs op List.mem_cons_self))
      (fun o ho => hs o (List.mem_cons_of_mem _ ho))

/-! ### save -/

theorem save_ok (db : Db) (k : Kind) (id : String) (arg v : k.Val)
    (hkey : keyOk id = true) (henc : encode k arg = .ok v) :
    (save db k id arg).2 = .ok () ∧ abs (save db k id arg).1 = (abs db).set k id (some (.valid v)) := by
  have hs : save db k id arg
      = (db.setBucket k (some (((db.bucket k).getD []).put id (.valid v))), .ok ()) := by
    unfold save; rw [henc]; simp [hkey]
  rw [hs]; exact ⟨rfl, abs_put db k id (.valid v)⟩

/-- a save either succeeds (then it is as in `save_ok`) or leaves the file untouched -/
theorem save_cases (db : Db) (k : Kind) (id : String) (arg : k.Val) :
    (save db k id arg).1 = db ∨
    ∃ v, encode k arg = .ok v ∧ abs (save db k id arg).1 = (abs db).set k id (some (.valid v)) := by
  unfold save
  cases henc : encode k arg with
  | panic s => exact Or.inl rfl
  | err e => exact Or.inl rfl
  | ok v =>
    simp only
    cases keyOk id with
    | false => exact Or.inl rfl
    | true => exact Or.inr ⟨v, rfl, abs_put db k id (.valid v)⟩

/-- saving the same thing twice = saving it once (used for "crash, then retry") -/
theorem save_save (db : Db) (k : Kind) (id : String) (arg : k.Val) :
    save (save db k id arg).1 k id arg = save db k id arg := by
  unfold save
  cases encode k arg with
  | panic s => rfl
  | err e => rfl
  | ok v =>
    simp only
    cases hk : keyOk id with
    | false => simp
    | true =>
      simp only [if_true, Db.bucket_setBucket_same, Option.getD_some, Db.setBucket_setBucket]
      congr 3
      simp [Entries.put, Entries.erase, List.filter_filter]

theorem allFinite_false_of_mem {m : List (Int × F64)} {p : Int × F64} (hp : p ∈ m)
    (hf : p.2.isFinite = false) : allFinite m = false := by
  unfold allFinite
  cases h : m.all (fun p => p.2.isFinite) with
  | false => rfl
  | true =>
    rw [List.all_eq_true] at h
    have := h p hp
    simp [hf] at this

end Persist
end Fan2go
