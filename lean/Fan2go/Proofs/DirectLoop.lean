/-
  Proofs about internal/control_loop/direct.go (`directCycle`), the first cycle of pid.go, the range
  mapping `rescale` of controller.go:461 and the closed loop the controller builds from them
  (the value fed back as `current` is the previous REQUEST, already rescaled).
-/
import Fan2go.Proofs.F64OpsB
import Fan2go.Model.Controller
namespace Fan2go
open F64

/-! ### clamp255 -/

theorem clamp255_eq_clampI (t : Int) : clamp255 t = clampI t 0 255 := by
  unfold clamp255 clampI; split_ifs <;> omega

theorem clamp255_range (t : Int) : 0 ≤ clamp255 t ∧ clamp255 t ≤ 255 := by
  unfold clamp255; split_ifs <;> omega

theorem clamp255_id {t : Int} (h0 : 0 ≤ t) (h1 : t ≤ 255) : clamp255 t = t := by
  unfold clamp255; split_ifs <;> omega

theorem clamp255_mono {s t : Int} (h : s ≤ t) : clamp255 s ≤ clamp255 t := by
  unfold clamp255; split_ifs <;> omega

/-! ### the direct loop -/

theorem dl_ofInt0 : ofInt 0 = fin ((0 : Int) : ℚ) := b_ofInt 0 (by norm_num)
theorem dl_ofInt255 : ofInt 255 = fin ((255 : Int) : ℚ) := b_ofInt 255 (by norm_num)

/-- the tail of `Cycle`: `int(math.Round(Coerce(v, 0, 255)))` on an integer-valued `v`. -/
theorem dl_tail_int (indef : Int) (v : Int) :
    toInt indef (F64.round (coerce (fin (v : ℚ)) (ofInt 0) (ofInt 255))) = clamp255 v := by
  rw [dl_ofInt0, dl_ofInt255, b_coerce_int, b_round_int, clamp255_eq_clampI]
  apply b_toInt_int <;> (unfold clampI; split_ifs <;> omega)

/-- without `maxPwmChangePerCycle` the loop returns the clamped curve value, whatever `current` is. -/
theorem dl_direct_none (indef : Int) (c x : Int) (hc : |c| ≤ 2 ^ 53) :
    directCycle indef none c x = clamp255 c := by
  unfold directCycle
  simp only
  rw [b_ofInt c hc]
  exact dl_tail_int indef c

/-- `Coerce(v, 0, 255)` for a `v` above 255 (finite or +Inf). -/
theorem dl_coerce_big {x : ℚ} (h : (255 : ℚ) < fl64 x) :
    coerce (ofRat x) (ofInt 0) (ofInt 255) = fin ((255 : Int) : ℚ) := by
  rw [dl_ofInt0, dl_ofInt255]
  have hh : (0 : ℚ) < f64Huge := pow2_pos _
  rcases b_ofRat_cases x with ⟨e, _⟩ | ⟨e, hle⟩ | e
  · rw [e]; rfl
  · exfalso; linarith
  · rw [e]; unfold coerce F64.gt F64.lt
    simp [h]

theorem dl_coerce_small {x : ℚ} (h : fl64 x < 0) :
    coerce (ofRat x) (ofInt 0) (ofInt 255) = fin ((0 : Int) : ℚ) := by
  rw [dl_ofInt0, dl_ofInt255]
  have hh : (0 : ℚ) < f64Huge := pow2_pos _
  rcases b_ofRat_cases x with ⟨e, hle⟩ | ⟨e, _⟩ | e
  · exfalso; linarith
  · rw [e]; rfl
  · rw [e]; unfold coerce F64.gt F64.lt
    have h1 : ¬ (255 : ℚ) < fl64 x := by linarith
    simp [h1, h]

/-- … also for curve values so large that `float64(target)` rounds or overflows. -/
theorem dl_direct_none_all (indef : Int) (c x : Int) : directCycle indef none c x = clamp255 c := by
  rcases le_or_gt |c| (2 ^ 53) with h | h
  · exact dl_direct_none indef c x h
  · have r53 : Rep64 (((2 : Int) ^ 53 : Int) : ℚ) := rep64_intCast _ (by norm_num)
    have rn53 : Rep64 ((-(2 : Int) ^ 53 : Int) : ℚ) := rep64_intCast _ (by norm_num)
    have hshape : directCycle indef none c x =
        toInt indef (F64.round (coerce (ofRat (c : ℚ)) (ofInt 0) (ofInt 255))) := rfl
    rw [hshape]
    rcases lt_or_ge 0 c with hpos | hneg
    · have hc : (2 : Int) ^ 53 ≤ c := by rw [abs_of_pos hpos] at h; exact h.le
      have : (((2 : Int) ^ 53 : Int) : ℚ) ≤ fl64 (c : ℚ) :=
        le_fl64_of_rep_le r53 (by exact_mod_cast hc)
      rw [dl_coerce_big (by push_cast at this; linarith), b_round_int, b_toInt_int indef (by norm_num)
        (by norm_num)]
      unfold clamp255; rw [if_pos (by omega)]
    · have hc : c ≤ -(2 : Int) ^ 53 := by rw [abs_of_nonpos hneg] at h; omega
      have : fl64 (c : ℚ) ≤ ((-(2 : Int) ^ 53 : Int) : ℚ) :=
        fl64_le_of_le_rep rn53 (by exact_mod_cast hc)
      rw [dl_coerce_small (by push_cast at this; linarith), b_round_int, b_toInt_int indef (by norm_num)
        (by norm_num)]
      unfold clamp255; rw [if_neg (by omega), if_pos (by omega)]

/-- with `maxPwmChangePerCycle = m`: exact integer characterisation (all float operations are exact
    on these integers). -/
theorem dl_direct_some (indef : Int) (m c x : Int) (hm0 : 0 ≤ m) (hm : m ≤ 2 ^ 51)
    (hc : |c| ≤ 2 ^ 51) (hx : |x| ≤ 2 ^ 51) :
    directCycle indef (some m) c x = clamp255 (x + clampI (c - x) (-m) m) := by
  have hc' := abs_le.mp hc
  have hx' := abs_le.mp hx
  unfold directCycle
  simp only
  rw [b_ofInt (c - x) (by rw [abs_le]; constructor <;> omega),
    b_ofInt m (by rw [abs_le]; constructor <;> omega),
    b_ofInt x (by rw [abs_le]; constructor <;> omega), b_neg_int, b_coerce_int]
  have hcl : -m ≤ clampI (c - x) (-m) m ∧ clampI (c - x) (-m) m ≤ m := by
    unfold clampI; split_ifs <;> omega
  rw [b_int_add (by rw [abs_le]; constructor <;> omega)]
  exact dl_tail_int indef _

/-- the rate-limited step on the 0..255 scale. -/
def stepI (m c x : Int) : Int := x + max (-m) (min m (c - x))

theorem dl_limited_step (indef : Int) (m c x : Int) (hm1 : 1 ≤ m) (hm : m ≤ 255) (hc0 : 0 ≤ c)
    (hc : c ≤ 255) (hx0 : 0 ≤ x) (hx : x ≤ 255) :
    directCycle indef (some m) c x = stepI m c x := by
  rw [dl_direct_some indef m c x (by omega) (by omega) (by rw [abs_le]; constructor <;> omega)
    (by rw [abs_le]; constructor <;> omega), clampI_eq _ _ _ (by omega)]
  unfold stepI
  apply clamp255_id <;> omega

theorem stepI_facts (m c x : Int) (hm1 : 1 ≤ m) (hc0 : 0 ≤ c) (hc : c ≤ 255) (hx0 : 0 ≤ x)
    (hx : x ≤ 255) :
    |stepI m c x - x| ≤ m ∧ 0 ≤ stepI m c x ∧ stepI m c x ≤ 255 ∧
    (x ≤ c → x ≤ stepI m c x ∧ stepI m c x ≤ c) ∧ (c ≤ x → c ≤ stepI m c x ∧ stepI m c x ≤ x) ∧
    (|c - x| ≤ m → stepI m c x = c) ∧ (m < |c - x| → |c - stepI m c x| = |c - x| - m) := by
  unfold stepI
  refine ⟨?_, ?_, ?_, ?_, ?_, ?_, ?_⟩
  · rw [abs_le]; constructor <;> omega
  · omega
  · omega
  · intro h; constructor <;> omega
  · intro h; constructor <;> omega
  · intro h; have := abs_le.mp h; omega
  · intro h
    rcases le_total c x with hcx | hcx
    · rw [abs_of_nonpos (by omega)] at h
      rw [abs_of_nonpos (by omega), abs_of_nonpos (by omega)]; omega
    · rw [abs_of_nonneg (by omega)] at h
      rw [abs_of_nonneg (by omega), abs_of_nonneg (by omega)]; omega

/-! ### rescale -/

/-- the rational value whose truncation `rescale` adds to `minPwm`. -/
def rescaleQ (t lo hi : Int) : ℚ := fl64 (fl64 ((t : ℚ) / 255) * ((hi - lo : Int) : ℚ))

theorem dl_ratio_bounds {t : Int} (h0 : 0 ≤ t) (h1 : t ≤ 255) :
    0 ≤ fl64 ((t : ℚ) / 255) ∧ fl64 ((t : ℚ) / 255) ≤ 1 := by
  have a0 : (0 : ℚ) ≤ t := by exact_mod_cast h0
  have a1 : (t : ℚ) ≤ 255 := by exact_mod_cast h1
  constructor
  · exact fl64_nonneg (by positivity)
  · exact fl64_le_of_le_rep fl64_one (by rw [div_le_one (by norm_num)]; exact a1)

theorem dl_rescaleQ_abs {t lo hi : Int} (h0 : 0 ≤ t) (h1 : t ≤ 255) (hlo : |lo| ≤ 2 ^ 52)
    (hhi : |hi| ≤ 2 ^ 52) :
    |fl64 ((t : ℚ) / 255) * ((hi - lo : Int) : ℚ)| ≤ (((2 : Int) ^ 53 : Int) : ℚ) := by
  obtain ⟨q0, q1⟩ := dl_ratio_bounds h0 h1
  have hD : |hi - lo| ≤ 2 ^ 53 := by
    have := abs_le.mp hlo; have := abs_le.mp hhi; rw [abs_le]; constructor <;> omega
  have hDq : |((hi - lo : Int) : ℚ)| ≤ (((2 : Int) ^ 53 : Int) : ℚ) := by exact_mod_cast hD
  rw [abs_mul, abs_of_nonneg q0]
  calc fl64 ((t : ℚ) / 255) * |((hi - lo : Int) : ℚ)| ≤ 1 * |((hi - lo : Int) : ℚ)| :=
        mul_le_mul_of_nonneg_right q1 (abs_nonneg _)
    _ ≤ _ := by rw [one_mul]; exact hDq

theorem b_truncRat_abs_le {q : ℚ} {N : Int} (h : |q| ≤ (N : ℚ)) : |truncRat q| ≤ N := by
  obtain ⟨l, u⟩ := abs_le.mp h
  rw [b_truncRat_def]
  split_ifs with h0
  · have f0 : 0 ≤ ⌊q⌋ := Int.floor_nonneg.mpr h0
    have f1 : ⌊q⌋ ≤ N := by
      have : (⌊q⌋ : ℚ) ≤ q := Int.floor_le q
      exact_mod_cast this.trans u
    rw [abs_le]; constructor <;> omega
  · have hq : 0 ≤ -q := by linarith
    have f0 : 0 ≤ ⌊-q⌋ := Int.floor_nonneg.mpr hq
    have f1 : ⌊-q⌋ ≤ N := by
      have : (⌊-q⌋ : ℚ) ≤ -q := Int.floor_le (-q)
      have : (⌊-q⌋ : ℚ) ≤ N := by linarith
      exact_mod_cast this
    rw [abs_le]; constructor <;> omega

/-- `rescale` without the float vocabulary (no dependence on `indef` in this range). -/
theorem dl_rescale_eq (indef : Int) {t lo hi : Int} (h0 : 0 ≤ t) (h1 : t ≤ 255) (hlo : |lo| ≤ 2 ^ 52)
    (hhi : |hi| ≤ 2 ^ 52) : rescale indef t lo hi = lo + truncRat (rescaleQ t lo hi) := by
  have hlo' := abs_le.mp hlo
  have hhi' := abs_le.mp hhi
  have a0 : (0 : ℚ) ≤ t := by exact_mod_cast h0
  have a1 : (t : ℚ) ≤ 255 := by exact_mod_cast h1
  unfold rescale rescaleQ
  rw [b_ofInt t (by rw [abs_le]; constructor <;> omega), dl_ofInt255,
    b_ofInt hi (by rw [abs_le]; constructor <;> omega),
    b_ofInt lo (by rw [abs_le]; constructor <;> omega),
    b_int_sub (by rw [abs_le]; constructor <;> omega), b_div_fin _ (by norm_num)]
  have e1 : ofRat ((t : ℚ) / ((255 : Int) : ℚ)) = fin (fl64 ((t : ℚ) / 255)) := by
    push_cast
    apply ofRat_fin_of_abs_le
    rw [abs_of_nonneg (by positivity)]
    have : (t : ℚ) / 255 ≤ 1 := by rw [div_le_one (by norm_num)]; exact a1
    linarith [show (1 : ℚ) ≤ pow2 1023 by rw [← pow2_zero]; exact pow2_mono (by norm_num)]
  have hb := dl_rescaleQ_abs h0 h1 hlo hhi
  have h53 : (((2 : Int) ^ 53 : Int) : ℚ) ≤ pow2 1023 := by
    rw [← pow2_natCast_int]; exact pow2_mono (by norm_num)
  rw [e1, b_mul_fin, ofRat_fin_of_abs_le (hb.trans h53)]
  have hr : |fl64 (fl64 ((t : ℚ) / 255) * ((hi - lo : Int) : ℚ))| ≤ (((2 : Int) ^ 53 : Int) : ℚ) :=
    abs_fl64_le_of_abs_le_rep (rep64_intCast _ (by norm_num)) hb
  have ht := abs_le.mp (b_truncRat_abs_le hr)
  rw [b_toInt_fin indef (by omega) (by omega)]

theorem dl_rescale_indep (indef : Int) {t lo hi : Int} (h0 : 0 ≤ t) (h1 : t ≤ 255)
    (hlo : |lo| ≤ 2 ^ 52) (hhi : |hi| ≤ 2 ^ 52) : rescale indef t lo hi = rescale 0 t lo hi := by
  rw [dl_rescale_eq indef h0 h1 hlo hhi, dl_rescale_eq 0 h0 h1 hlo hhi]

theorem dl_rescaleQ_nonneg {t lo hi : Int} (h0 : 0 ≤ t) (h1 : t ≤ 255) (h : lo ≤ hi) :
    0 ≤ rescaleQ t lo hi := by
  obtain ⟨q0, _⟩ := dl_ratio_bounds h0 h1
  have : (0 : ℚ) ≤ ((hi - lo : Int) : ℚ) := by exact_mod_cast (by omega : 0 ≤ hi - lo)
  exact fl64_nonneg (mul_nonneg q0 this)

theorem dl_rescaleQ_le {t lo hi : Int} (h0 : 0 ≤ t) (h1 : t ≤ 255) (h : lo ≤ hi)
    (hD : |hi - lo| ≤ 2 ^ 53) : rescaleQ t lo hi ≤ ((hi - lo : Int) : ℚ) := by
  obtain ⟨q0, q1⟩ := dl_ratio_bounds h0 h1
  have hd : (0 : ℚ) ≤ ((hi - lo : Int) : ℚ) := by exact_mod_cast (by omega : 0 ≤ hi - lo)
  apply fl64_le_of_le_rep (rep64_intCast _ hD)
  calc _ ≤ 1 * ((hi - lo : Int) : ℚ) := mul_le_mul_of_nonneg_right q1 hd
    _ = _ := one_mul _

theorem dl_rescaleQ_mono {s t lo hi : Int} (hst : s ≤ t) (h : lo ≤ hi) :
    rescaleQ s lo hi ≤ rescaleQ t lo hi := by
  have hd : (0 : ℚ) ≤ ((hi - lo : Int) : ℚ) := by exact_mod_cast (by omega : 0 ≤ hi - lo)
  have : (s : ℚ) / 255 ≤ (t : ℚ) / 255 := by
    apply div_le_div_of_nonneg_right _ (by norm_num)
    exact_mod_cast hst
  exact fl64_mono (mul_le_mul_of_nonneg_right (fl64_mono this) hd)

section range
variable (indef : Int) {lo hi : Int} (hl : 0 ≤ lo) (hlh : lo ≤ hi) (hh : hi ≤ 255)
include hl hlh hh

theorem dl_rescale_floor {t : Int} (h0 : 0 ≤ t) (h1 : t ≤ 255) :
    rescale indef t lo hi = lo + ⌊rescaleQ t lo hi⌋ := by
  rw [dl_rescale_eq indef h0 h1 (by rw [abs_le]; constructor <;> omega)
    (by rw [abs_le]; constructor <;> omega), b_truncRat_nonneg (dl_rescaleQ_nonneg h0 h1 hlh)]

theorem dl_rescale_range {t : Int} (h0 : 0 ≤ t) (h1 : t ≤ 255) :
    lo ≤ rescale indef t lo hi ∧ rescale indef t lo hi ≤ hi := by
  rw [dl_rescale_floor indef hl hlh hh h0 h1]
  have n0 := dl_rescaleQ_nonneg h0 h1 hlh
  have n1 := dl_rescaleQ_le h0 h1 hlh (by rw [abs_le]; constructor <;> omega)
  have f0 : 0 ≤ ⌊rescaleQ t lo hi⌋ := Int.floor_nonneg.mpr n0
  have f1 : ⌊rescaleQ t lo hi⌋ ≤ hi - lo := by
    have : (⌊rescaleQ t lo hi⌋ : ℚ) ≤ rescaleQ t lo hi := Int.floor_le _
    exact_mod_cast this.trans n1
  constructor <;> omega

theorem dl_rescale_zero : rescale indef 0 lo hi = lo := by
  rw [dl_rescale_floor indef hl hlh hh le_rfl (by norm_num)]
  have : rescaleQ 0 lo hi = 0 := by unfold rescaleQ; simp [fl64_zero]
  rw [this]; simp

theorem dl_rescale_full : rescale indef 255 lo hi = hi := by
  rw [dl_rescale_floor indef hl hlh hh (by norm_num) le_rfl]
  have : rescaleQ 255 lo hi = ((hi - lo : Int) : ℚ) := by
    unfold rescaleQ
    have : ((255 : Int) : ℚ) / 255 = 1 := by norm_num
    rw [this, fl64_one, one_mul]
    exact fl64_intCast _ (by rw [abs_le]; constructor <;> omega)
  rw [this, Int.floor_intCast]; omega

theorem dl_rescale_mono {s t : Int} (h0 : 0 ≤ s) (hst : s ≤ t) (h1 : t ≤ 255) :
    rescale indef s lo hi ≤ rescale indef t lo hi := by
  rw [dl_rescale_floor indef hl hlh hh h0 (by omega),
    dl_rescale_floor indef hl hlh hh (by omega) h1]
  have := Int.floor_le_floor (dl_rescaleQ_mono hst hlh)
  omega

end range

/-- the range 0..255 is mapped identically (256 cases, evaluated by the kernel). -/
theorem dl_rescale_id_check :
    (List.range 256).all (fun t => rescale 0 (t : Int) 0 255 == (t : Int)) = true := by
  decide +kernel

theorem dl_rescale_id (indef : Int) {t : Int} (h0 : 0 ≤ t) (h1 : t ≤ 255) :
    rescale indef t 0 255 = t := by
  rw [dl_rescale_indep indef h0 h1 (by norm_num) (by norm_num)]
  have h := List.all_eq_true.mp dl_rescale_id_check t.toNat (List.mem_range.mpr (by omega))
  have e : ((t.toNat : Nat) : Int) = t := Int.toNat_of_nonneg h0
  rw [e] at h
  simpa using h

/-! ### the closed loop -/

/-- what the controller requests next, given the curve value `c` and the previous request `x`. -/
def closedLoop (indef : Int) (m : Option Int) (lo hi c x : Int) : Int :=
  rescale indef (clamp255 (directCycle indef m c x)) lo hi

/-- the steady request the property names: a function of curve value and fan range alone. -/
def steady (indef : Int) (c lo hi : Int) : Int := rescale indef (clamp255 c) lo hi

theorem closedLoop_none (indef : Int) (lo hi c x : Int) :
    closedLoop indef none lo hi c x = steady indef c lo hi := by
  unfold closedLoop steady
  rw [dl_direct_none_all, clamp255_id (clamp255_range c).1 (clamp255_range c).2]

theorem closedLoop_some (indef : Int) {m lo hi c x : Int} (hm1 : 1 ≤ m) (hm : m ≤ 255) (hc0 : 0 ≤ c)
    (hc : c ≤ 255) (hx0 : 0 ≤ x) (hx : x ≤ 255) :
    closedLoop indef (some m) lo hi c x = rescale indef (stepI m c x) lo hi := by
  unfold closedLoop
  obtain ⟨_, s0, s1, _⟩ := stepI_facts m c x hm1 hc0 hc hx0 hx
  rw [dl_limited_step indef m c x hm1 hm hc0 hc hx0 hx, clamp255_id s0 s1]

theorem closedLoop_some_indep (indef : Int) {m lo hi c x : Int} (hm1 : 1 ≤ m) (hm : m ≤ 255)
    (hc0 : 0 ≤ c) (hc : c ≤ 255) (hx0 : 0 ≤ x) (hx : x ≤ 255) (hlo : |lo| ≤ 2 ^ 52)
    (hhi : |hi| ≤ 2 ^ 52) :
    closedLoop indef (some m) lo hi c x = closedLoop 0 (some m) lo hi c x := by
  obtain ⟨_, s0, s1, _⟩ := stepI_facts m c x hm1 hc0 hc hx0 hx
  rw [closedLoop_some indef hm1 hm hc0 hc hx0 hx, closedLoop_some 0 hm1 hm hc0 hc hx0 hx,
    dl_rescale_indep indef s0 s1 hlo hhi]

/-- closed form of the rate-limited approach on the identity range. -/
def approach (m c x0 : Int) (k : Nat) : Int :=
  if x0 ≤ c then min c (x0 + k * m) else max c (x0 - k * m)

theorem closedLoop_identity_iter (indef : Int) {m c x0 : Int} (hm1 : 1 ≤ m) (hm : m ≤ 255)
    (hc0 : 0 ≤ c) (hc : c ≤ 255) (hx0 : 0 ≤ x0) (hx : x0 ≤ 255) (k : Nat) :
    (closedLoop indef (some m) 0 255 c)^[k] x0 = approach m c x0 k := by
  induction k with
  | zero => unfold approach; simp; split_ifs <;> omega
  | succ k ih =>
    have hkm : (0 : Int) ≤ k * m := by positivity
    have hk1 : ((k + 1 : Nat) : Int) * m = k * m + m := by push_cast; ring
    have hr : 0 ≤ approach m c x0 k ∧ approach m c x0 k ≤ 255 := by
      unfold approach; split_ifs <;> constructor <;> omega
    rw [Function.iterate_succ_apply', ih, closedLoop_some indef hm1 hm hc0 hc hr.1 hr.2]
    obtain ⟨_, s0, s1, _⟩ := stepI_facts m c _ hm1 hc0 hc hr.1 hr.2
    rw [dl_rescale_id indef s0 s1]
    unfold approach stepI
    rw [hk1]
    generalize (k : Int) * m = km at *
    split_ifs <;> omega

/-! ### PID, first cycle -/

theorem dl_pid_first (indef : Int) (st : PidSt) (c x now : Int) (h : st.lastTime = none)
    (hx : |x| ≤ 2 ^ 53) :
    (pidCycle indef st c x now).2 = clamp255 x ∧
    (pidCycle indef st c x now).1.lastTime = some now ∧
    (pidCycle indef st c x now).1.integral = st.integral := by
  have e : pidLoop st (ofInt c) (ofInt x) now =
      ({ st with error := ofInt c - ofInt x, lastTime := some now }, F64.zero) := by
    unfold pidLoop; rw [h]
  unfold pidCycle
  rw [e]
  refine ⟨?_, rfl, rfl⟩
  show toInt indef (F64.round (coerce (ofInt x + F64.zero) (ofInt 0) (ofInt 255))) = clamp255 x
  rw [b_ofInt x hx]
  have : (fin (x : ℚ) + F64.zero : F64) = fin (x : ℚ) := by
    unfold F64.zero; rw [b_add_fin, add_zero]; exact ofRat_intCast hx
  rw [this]
  exact dl_tail_int indef x

/-- a rest point of the PID loop: no error now, none before, empty integral, positive finite `dt`,
    finite gains – the output is 0, the memory does not change, the result is the clamped `current`. -/
theorem dl_pid_rest (indef : Int) (st : PidSt) (x now last : Int) (p i d t : ℚ)
    (hp : st.p = fin p) (hi : st.i = fin i) (hd : st.d = fin d) (he : st.error = fin 0)
    (hI : st.integral = fin 0) (hl : st.lastTime = some last)
    (ht : secondsOfNanos (now - last) = fin t) (ht0 : t ≠ 0) (hx : |x| ≤ 2 ^ 53) :
    pidCycle indef st x x now = ({ st with lastTime := some now }, clamp255 x) := by
  have e0 : (ofInt x - ofInt x : F64) = fin 0 := by
    rw [b_ofInt x hx, b_sub_fin, sub_self, ofRat_zero]
  have e : pidLoop st (ofInt x) (ofInt x) now = ({ st with lastTime := some now }, fin 0) := by
    unfold pidLoop
    rw [hl]
    simp only [ht, e0, hp, hi, hd, he, hI, b_mul_fin, b_add_fin, b_sub_fin, b_div_fin _ ht0, mul_zero,
      zero_mul, add_zero, sub_self, zero_div, ofRat_zero]
  unfold pidCycle
  rw [e]
  show (_, toInt indef (F64.round (coerce (ofInt x + fin 0) (ofInt 0) (ofInt 255)))) = _
  rw [b_ofInt x hx]
  have : (fin (x : ℚ) + fin 0 : F64) = fin (x : ℚ) := by
    rw [b_add_fin, add_zero]; exact ofRat_intCast hx
  rw [this, dl_tail_int indef x]

/-! ### concrete evaluations for the scale-mismatch counterexample (kernel-evaluated) -/

theorem dl_wit_traj :
    (List.range 12).map (fun k => (closedLoop 0 (some 10) 100 255 0)^[k] 100)
      = [100, 154, 187, 207, 219, 227, 231, 234, 236, 237, 237, 237] := by decide +kernel

theorem dl_wit_step : closedLoop 0 (some 10) 100 255 0 100 = 154 := by decide +kernel

theorem dl_wit_fix : closedLoop 0 (some 10) 100 255 0 237 = 237 ∧
    closedLoop 0 (some 10) 100 255 0 238 = 238 ∧ closedLoop 0 (some 10) 100 255 0 239 = 239 := by
  decide +kernel

theorem dl_wit_traj_from_max :
    (List.range 5).map (fun k => (closedLoop 0 (some 10) 100 255 0)^[k] 255)
      = [255, 248, 244, 242, 241] := by decide +kernel

end Fan2go
