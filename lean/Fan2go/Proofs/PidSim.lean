/-
  Validated simulation of the default PID loop at the default tick (200 ms) from a FRESH loop:
  an integer model at the nominal tick 1/5 s (integral = m/5) that branches wherever the exact output
  is within 1/1000 of a rounding tie; every abstract trajectory (hence the binary64 run) follows one
  of its branches; each branch is followed until it enters the region `Qpos`/`Qneg`/`ARest` of
  Proofs/PidSettle.lean.
-/
import Fan2go.Proofs.PidSettle
namespace Fan2go
open F64

/-! ### the integer model -/

/-- 1000 × (exact output) at tick 1/5: `300·e + 4·(m+e) + 25·(e − ep)`, integral = `m/5`. -/
def simU (c x m ep : Int) : Int := 300 * (c - x) + 4 * (m + (c - x)) + 25 * ((c - x) - ep)

def simLo (c x m ep : Int) : Int := clamp255 (x + (simU c x m ep + 499) / 1000)
def simHi (c x m ep : Int) : Int := clamp255 (x + (simU c x m ep + 501) / 1000)

/-- 1000 × the PI signal `Gq`. -/
def simG (c x m : Int) : Int := 300 * (c - x) + 4 * (m + (c - x))

def simQpos (c x m ep : Int) : Bool :=
  decide (1 ≤ c - x) && decide (c - x ≤ 62) &&
  (decide (ep = c - x) || decide (ep = c - x + 1)) &&
  (decide (x = 0) || decide (-490 + 26 * (ep - (c - x)) + 1 ≤ simG c x m)) &&
  decide (simG c x m + 1 ≤ 525 + 4 * (c - x)) && decide (-5000 ≤ simG c x m)

def simRest (c x m ep : Int) : Bool :=
  decide (x = c) &&
  (decide (c = 0) || (decide (-498 ≤ 4 * m - 25 * ep) && decide (-498 ≤ 4 * m))) &&
  (decide (c = 255) || (decide (4 * m - 25 * ep ≤ 498) && decide (4 * m ≤ 498)))

def simDone (c x m ep : Int) : Bool :=
  simRest c x m ep || simQpos c x m ep || simQpos (255 - c) (255 - x) (-m) (-ep)

/-- explore all branches for at most `f` cycles; `true` = every branch reaches `simDone`. -/
def simOk (c : Int) : Nat → Int → Int → Int → Bool
  | 0, x, m, ep => simDone c x m ep
  | f + 1, x, m, ep =>
    simDone c x m ep ||
      (simOk c f (simLo c x m ep) (m + (c - x)) (c - x) &&
        (simLo c x m ep == simHi c x m ep || simOk c f (simHi c x m ep) (m + (c - x)) (c - x)))

/-- all starting requests for one curve value, fresh loop (integral 0, previous error = error). -/
def simAll (c : Int) (f : Nat) : Bool :=
  (List.range 256).all fun x0 => simOk c f (x0 : Int) 0 (c - (x0 : Int))

/-! ### soundness of one simulated cycle -/

/-- the real tick is the `Seconds()` value of 200 ms. -/
structure Tick5 (t : ℚ) : Prop where
  close : |t - 1 / 5| ≤ 1 / 2 ^ 50

theorem Tick5.tickOk {t : ℚ} (h : Tick5 t) : TickOk t := by
  have := abs_le.mp h.close
  norm_num at this
  exact ⟨by linarith, by linarith⟩

/-- `1/t` is within `1e-12` of 5. -/
theorem Tick5.inv {t : ℚ} (h : Tick5 t) : |1 / t - 5| ≤ 1 / 10 ^ 12 := by
  have hc := abs_le.mp h.close
  have htp : 0 < t := by norm_num at hc; linarith
  have h1 : 1 / t - 5 = (1 / t) * (5 * (1 / 5 - t)) := by field_simp
  have h2 : |1 / t| ≤ 6 := by
    rw [abs_of_pos (by positivity), div_le_iff₀ htp]; norm_num at hc; linarith
  have h3 : |5 * (1 / 5 - t)| ≤ 5 / 2 ^ 50 := by
    rw [abs_le]; constructor <;> norm_num at hc ⊢ <;> linarith
  rw [h1]
  exact (abs_mul_le' h2 h3).trans (by norm_num)

/-- exact real output vs the integer model. -/
theorem sim_y_close {t I : ℚ} {c x m ep : Int} (ht : Tick5 t) (hc0 : 0 ≤ c) (hc1 : c ≤ 255)
    (hx0 : 0 ≤ x) (hx1 : x ≤ 255) (hep : |ep| ≤ 255) {β : ℚ} (hI : |I - (m : ℚ) / 5| ≤ β) :
    |uExact ((c - x : Int) : ℚ) ep I t - (simU c x m ep : ℚ) / 1000| ≤ β / 50 + 1 / 10 ^ 9 := by
  have he : |((c - x : Int) : ℚ)| ≤ 255 := by
    have : |c - x| ≤ 255 := by rw [abs_le]; constructor <;> omega
    exact_mod_cast this
  have hepq : |(ep : ℚ)| ≤ 255 := by exact_mod_cast hep
  have hd : |((c - x : Int) : ℚ) - (ep : ℚ)| ≤ 510 := by
    rw [sub_eq_add_neg]; exact (abs_add_le' (B := 255) he (by rwa [abs_neg])).trans (by norm_num)
  have hid : uExact ((c - x : Int) : ℚ) ep I t - (simU c x m ep : ℚ) / 1000
      = 1 / 50 * (I - (m : ℚ) / 5) + 1 / 50 * (((c - x : Int) : ℚ) * (t - 1 / 5))
        + 1 / 200 * ((((c - x : Int) : ℚ) - (ep : ℚ)) * (1 / t - 5)) := by
    unfold uExact simU; push_cast; ring
  rw [hid]
  have b1 : |1 / 50 * (I - (m : ℚ) / 5)| ≤ 1 / 50 * β :=
    abs_mul_le' (a := 1 / 50) (A := 1 / 50) (by norm_num [abs_of_pos]) hI
  have b2 : |1 / 50 * (((c - x : Int) : ℚ) * (t - 1 / 5))| ≤ 1 / 50 * (255 * (1 / 2 ^ 50)) :=
    abs_mul_le' (a := 1 / 50) (A := 1 / 50) (by norm_num [abs_of_pos]) (abs_mul_le' he ht.close)
  have b3 : |1 / 200 * ((((c - x : Int) : ℚ) - (ep : ℚ)) * (1 / t - 5))|
      ≤ 1 / 200 * (510 * (1 / 10 ^ 12)) :=
    abs_mul_le' (a := 1 / 200) (A := 1 / 200) (by norm_num [abs_of_pos]) (abs_mul_le' hd ht.inv)
  refine (abs_add_le' (abs_add_le' b1 b2) b3).trans ?_
  norm_num
  linarith

/-- **one simulated cycle is sound**: the real next request is one of the (at most two) simulated
    successors, and the real integral stays within `β + 2^-29` of the simulated one. -/
theorem sim_step_sound {t I J : ℚ} {c x m ep x' : Int} (h : AStep c t x I ep x' J) (ht : Tick5 t)
    (hc0 : 0 ≤ c) (hc1 : c ≤ 255) (hx0 : 0 ≤ x) (hx1 : x ≤ 255) (hep : |ep| ≤ 255) {β : ℚ}
    (hI : |I - (m : ℚ) / 5| ≤ β) (hβ : β ≤ 1 / 10 ^ 6) :
    (x' = simLo c x m ep ∨ x' = simHi c x m ep) ∧
    |J - ((m + (c - x) : Int) : ℚ) / 5| ≤ β + 1 / 2 ^ 29 := by
  have hy := abs_le.mp (sim_y_close ht hc0 hc1 hx0 hx1 hep hI)
  have hepsv := eps_val
  have hx'0 := h.x0
  have hx'1 := h.x1
  set U := simU c x m ep with hU
  constructor
  · -- lower candidate
    have hlo : simLo c x m ep ≤ x' := by
      unfold simLo
      rw [← hU]
      set q := (U + 499) / 1000 with hq
      have hq1 : 1000 * q ≤ U + 499 := by omega
      have hcl : clamp255 (x + q) ≤ x + q ∨ clamp255 (x + q) = 0 := by
        unfold clamp255; split_ifs <;> omega
      rcases hcl with hcl | hcl
      · rcases le_or_gt (clamp255 (x + q)) 0 with h0 | h0
        · omega
        · apply h.up _ (by omega) (clamp255_range _).2
          have h1 : ((clamp255 (x + q) : Int) : ℚ) ≤ (x : ℚ) + (q : ℚ) := by exact_mod_cast hcl
          have h2 : (1000 : ℚ) * q ≤ U + 499 := by exact_mod_cast hq1
          linarith
      · omega
    have hhi : x' ≤ simHi c x m ep := by
      unfold simHi
      rw [← hU]
      set q := (U + 501) / 1000 with hq
      have hq1 : U + 501 < 1000 * (q + 1) := by omega
      have hcl : x + q ≤ clamp255 (x + q) ∨ clamp255 (x + q) = 255 := by
        unfold clamp255; split_ifs <;> omega
      rcases hcl with hcl | hcl
      · rcases le_or_gt 255 (clamp255 (x + q)) with h0 | h0
        · omega
        · have hr := clamp255_range (x + q)
          have := h.dn (clamp255 (x + q) + 1) (by omega) (by omega) (by
            have h1 : (x : ℚ) + (q : ℚ) ≤ ((clamp255 (x + q) : Int) : ℚ) := by exact_mod_cast hcl
            have h2 : (U : ℚ) + 501 < 1000 * ((q : ℚ) + 1) := by exact_mod_cast hq1
            simp only [Int.cast_add, Int.cast_one]
            linarith)
          omega
      · omega
    have hgap : simHi c x m ep ≤ simLo c x m ep + 1 := by
      unfold simHi simLo clamp255
      rw [← hU]
      split_ifs <;> omega
    omega
  · have he : |((c - x : Int) : ℚ)| ≤ 255 := by
      have : |c - x| ≤ 255 := by rw [abs_le]; constructor <;> omega
      exact_mod_cast this
    have hid : J - ((m + (c - x) : Int) : ℚ) / 5
        = (J - (I + ((c - x : Int) : ℚ) * t)) + (I - (m : ℚ) / 5)
          + ((c - x : Int) : ℚ) * (t - 1 / 5) := by push_cast; ring
    rw [hid]
    refine (abs_add_le' (abs_add_le' h.Jc hI) (abs_mul_le' he ht.close)).trans ?_
    rw [hepsv]; norm_num; linarith

/-! ### soundness of the end test -/

theorem Tick5.dl_close {t : ℚ} (h : Tick5 t) : |dl t - 1 / 40| ≤ 1 / 10 ^ 12 := by
  have : dl t - 1 / 40 = 1 / 200 * (1 / t - 5) := by unfold dl; ring
  rw [this]
  exact (abs_mul_le' (a := 1 / 200) (A := 1 / 200) (by norm_num [abs_of_pos]) h.inv).trans
    (by norm_num)

theorem simG_close {t I : ℚ} {c x m : Int} (ht : Tick5 t) (he : |((c - x : Int) : ℚ)| ≤ 255)
    (hI : |I - (m : ℚ) / 5| ≤ 1 / 10 ^ 6) :
    |Gq c x I t - (simG c x m : ℚ) / 1000| ≤ 1 / 10 ^ 7 := by
  have hid : Gq c x I t - (simG c x m : ℚ) / 1000
      = 1 / 50 * (I - (m : ℚ) / 5) + 1 / 50 * (((c - x : Int) : ℚ) * (t - 1 / 5)) := by
    unfold Gq simG; push_cast; ring
  rw [hid]
  have b1 : |1 / 50 * (I - (m : ℚ) / 5)| ≤ 1 / 50 * (1 / 10 ^ 6) :=
    abs_mul_le' (a := 1 / 50) (A := 1 / 50) (by norm_num [abs_of_pos]) hI
  have b2 : |1 / 50 * (((c - x : Int) : ℚ) * (t - 1 / 5))| ≤ 1 / 50 * (255 * (1 / 2 ^ 50)) :=
    abs_mul_le' (a := 1 / 50) (A := 1 / 50) (by norm_num [abs_of_pos]) (abs_mul_le' he ht.close)
  exact (abs_add_le' b1 b2).trans (by norm_num)

theorem qpos_of_sim {t I : ℚ} {c x m ep : Int} (ht : Tick5 t)
    (hI : |I - (m : ℚ) / 5| ≤ 1 / 10 ^ 6) (h : simQpos c x m ep = true) :
    Qpos c t x I ep ∧ PhiN c t x I ≤ 27 := by
  simp only [simQpos, Bool.and_eq_true, Bool.or_eq_true, decide_eq_true_eq] at h
  obtain ⟨⟨⟨⟨⟨h1, h2⟩, h3⟩, h4⟩, h5⟩, h6⟩ := h
  have he : |((c - x : Int) : ℚ)| ≤ 255 := by
    have : |c - x| ≤ 255 := by rw [abs_le]; constructor <;> omega
    exact_mod_cast this
  have hG := abs_le.mp (simG_close ht he hI)
  have hd := abs_le.mp ht.dl_close
  have htc := abs_le.mp ht.close
  have h1q : (1 : ℚ) ≤ ((c - x : Int) : ℚ) := by exact_mod_cast h1
  have h2q : ((c - x : Int) : ℚ) ≤ 62 := by exact_mod_cast h2
  have het : |((c - x : Int) : ℚ) * (t - 1 / 5)| ≤ 255 * (1 / 2 ^ 50) := abs_mul_le' he ht.close
  have het' := abs_le.mp het
  have hmul : ((c - x : Int) : ℚ) * t = ((c - x : Int) : ℚ) / 5 + ((c - x : Int) : ℚ) * (t - 1 / 5) := by
    ring
  have h5q : ((simG c x m : Int) : ℚ) + 1 ≤ 525 + 4 * ((c - x : Int) : ℚ) := by exact_mod_cast h5
  have h6q : (-5000 : ℚ) ≤ ((simG c x m : Int) : ℚ) := by exact_mod_cast h6
  have hv : ((ep - (c - x) : Int) : ℚ) = 0 ∨ ((ep - (c - x) : Int) : ℚ) = 1 := by
    rcases h3 with e | e
    · left; rw [e]; simp
    · right; rw [e]; simp
  have hepsv := eps_val
  refine ⟨⟨h1, ?_, h3, ?_, ?_⟩, ?_⟩
  · rw [hmul]; linarith
  · intro hx
    have hx' : x ≠ 0 := by omega
    have h4' : -490 + 26 * (ep - (c - x)) + 1 ≤ simG c x m := by
      rcases h4 with e | e
      · exact absurd e hx'
      · exact e
    have h4q : (-490 : ℚ) + 26 * ((ep - (c - x) : Int) : ℚ) + 1 ≤ ((simG c x m : Int) : ℚ) := by
      exact_mod_cast h4'
    rcases hv with e | e <;> rw [e] at h4q ⊢ <;> linarith
  · rw [hmul]; linarith
  · unfold PhiN eta
    have : (31 / 100 + (t / 50 - eps)) * ((c - x : Int) : ℚ) ≤ (31 / 100 + 1 / 200) * 62 := by
      apply mul_le_mul _ h2q (by linarith) (by norm_num)
      rw [hepsv]; linarith
    linarith

theorem rest_of_sim {t I : ℚ} {c x m ep : Int} (ht : Tick5 t) (hep : |ep| ≤ 255)
    (hI : |I - (m : ℚ) / 5| ≤ 1 / 10 ^ 6) (h : simRest c x m ep = true) : ARest c t x I ep := by
  simp only [simRest, Bool.and_eq_true, Bool.or_eq_true, decide_eq_true_eq] at h
  obtain ⟨⟨h1, h2⟩, h3⟩ := h
  have hepq : |(ep : ℚ)| ≤ 255 := by exact_mod_cast hep
  have hI' := abs_le.mp hI
  have hk : |(ep : ℚ) * (1 / t - 5)| ≤ 255 * (1 / 10 ^ 12) := abs_mul_le' hepq ht.inv
  have hk' := abs_le.mp hk
  have hid : (1 : ℚ) / 50 * I + 1 / 200 * ((0 - (ep : ℚ)) / t)
      = ((4 * m - 25 * ep : Int) : ℚ) / 1000 + 1 / 50 * (I - (m : ℚ) / 5)
        - 1 / 200 * ((ep : ℚ) * (1 / t - 5)) := by push_cast; ring
  have hid2 : (1 : ℚ) / 50 * I = ((4 * m : Int) : ℚ) / 1000 + 1 / 50 * (I - (m : ℚ) / 5) := by
    push_cast; ring
  have hepsv := eps_val
  refine ⟨h1, ?_, ?_, ?_, ?_⟩
  · intro hc
    rcases h2 with e | ⟨a, _⟩
    · exact absurd e hc
    · have : (-498 : ℚ) ≤ ((4 * m - 25 * ep : Int) : ℚ) := by exact_mod_cast a
      rw [hid, hepsv]; linarith
  · intro hc
    rcases h3 with e | ⟨a, _⟩
    · exact absurd e hc
    · have : ((4 * m - 25 * ep : Int) : ℚ) ≤ 498 := by exact_mod_cast a
      rw [hid, hepsv]; linarith
  · intro hc
    rcases h2 with e | ⟨_, a⟩
    · exact absurd e hc
    · have : (-498 : ℚ) ≤ ((4 * m : Int) : ℚ) := by exact_mod_cast a
      rw [hid2, hepsv]; linarith
  · intro hc
    rcases h3 with e | ⟨_, a⟩
    · exact absurd e hc
    · have : ((4 * m : Int) : ℚ) ≤ 498 := by exact_mod_cast a
      rw [hid2, hepsv]; linarith

/-- the real state is at rest or in one of the two quasi-static regions (with bounded potential). -/
def DoneReal (c : Int) (t : ℚ) (x : Int) (I : ℚ) (ep : Int) : Prop :=
  ARest c t x I ep ∨ (Qpos c t x I ep ∧ PhiN c t x I ≤ 27) ∨
    (Qneg c t x I ep ∧ PhiN (255 - c) t (255 - x) (-I) ≤ 27)

theorem done_of_sim {t I : ℚ} {c x m ep : Int} (ht : Tick5 t) (hep : |ep| ≤ 255)
    (hI : |I - (m : ℚ) / 5| ≤ 1 / 10 ^ 6) (h : simDone c x m ep = true) : DoneReal c t x I ep := by
  simp only [simDone, Bool.or_eq_true] at h
  rcases h with (h | h) | h
  · exact Or.inl (rest_of_sim ht hep hI h)
  · exact Or.inr (Or.inl (qpos_of_sim ht hI h))
  · refine Or.inr (Or.inr (qpos_of_sim (m := -m) ht ?_ h))
    have : -I - ((-m : Int) : ℚ) / 5 = -(I - (m : ℚ) / 5) := by push_cast; ring
    rw [this, abs_neg]; exact hI

/-! ### soundness of the exploration -/

theorem ATraj.ep_abs {c : Int} {t : ℚ} {X : Nat → Int} {I : Nat → ℚ} {E : Nat → Int}
    (T : ATraj c t X I E) (hE0 : |E 0| ≤ 255) (k : Nat) : |E k| ≤ 255 := by
  cases k with
  | zero => exact hE0
  | succ k =>
    rw [T.ep_succ k, abs_le]
    have := T.x_range k
    have := T.c0; have := T.c1
    constructor <;> omega

theorem simOk_sound {c : Int} {t : ℚ} {X : Nat → Int} {I : Nat → ℚ} {E : Nat → Int}
    (T : ATraj c t X I E) (ht : Tick5 t) (hE0 : |E 0| ≤ 255) :
    ∀ (f k j : Nat) (x m ep : Int), simOk c f x m ep = true → X j = x → E j = ep →
      |I j - (m : ℚ) / 5| ≤ (k : ℚ) / 2 ^ 29 → k + f ≤ 500 →
      ∃ i, i ≤ f ∧ DoneReal c t (X (j + i)) (I (j + i)) (E (j + i)) := by
  intro f
  induction f with
  | zero =>
    intro k j x m ep h hx he hI hk
    have hβ : (k : ℚ) / 2 ^ 29 ≤ 1 / 10 ^ 6 := by
      have : (k : ℚ) ≤ 500 := by exact_mod_cast (by omega : k ≤ 500)
      rw [div_le_iff₀ (by positivity)]; norm_num; linarith
    refine ⟨0, le_rfl, ?_⟩
    rw [Nat.add_zero, hx, he]
    exact done_of_sim ht (by rw [← he]; exact T.ep_abs hE0 j) (hI.trans hβ) h
  | succ f ih =>
    intro k j x m ep h hx he hI hk
    have hβ : (k : ℚ) / 2 ^ 29 ≤ 1 / 10 ^ 6 := by
      have : (k : ℚ) ≤ 500 := by exact_mod_cast (by omega : k ≤ 500)
      rw [div_le_iff₀ (by positivity)]; norm_num; linarith
    have hepj : |ep| ≤ 255 := by rw [← he]; exact T.ep_abs hE0 j
    unfold simOk at h
    rw [Bool.or_eq_true] at h
    rcases h with h | h
    · refine ⟨0, by omega, ?_⟩
      rw [Nat.add_zero, hx, he]
      exact done_of_sim ht hepj (hI.trans hβ) h
    · rw [Bool.and_eq_true, Bool.or_eq_true] at h
      obtain ⟨hA, hB⟩ := h
      have hstep := T.step j
      rw [hx, he] at hstep
      have hxr := T.x_range j
      rw [hx] at hxr
      obtain ⟨hcand, hJ⟩ := sim_step_sound hstep ht T.c0 T.c1 hxr.1 hxr.2 hepj hI hβ
      have hI' : |I (j + 1) - ((m + (c - x) : Int) : ℚ) / 5| ≤ ((k + 1 : Nat) : ℚ) / 2 ^ 29 := by
        refine hJ.trans ?_
        push_cast; rw [add_div]
      have hE' : E (j + 1) = c - x := by rw [T.ep_succ j, hx]
      have hlo : X (j + 1) = simLo c x m ep →
          ∃ i, i ≤ f + 1 ∧ DoneReal c t (X (j + i)) (I (j + i)) (E (j + i)) := by
        intro hX
        obtain ⟨i, hi, hd⟩ := ih (k + 1) (j + 1) _ _ _ hA hX hE' hI' (by omega)
        exact ⟨i + 1, by omega, by rw [show j + (i + 1) = j + 1 + i by omega]; exact hd⟩
      rcases hcand with hX | hX
      · exact hlo hX
      · rcases hB with hB | hB
        · have : simLo c x m ep = simHi c x m ep := by simpa using hB
          exact hlo (by rw [this]; exact hX)
        · obtain ⟨i, hi, hd⟩ := ih (k + 1) (j + 1) _ _ _ hB hX hE' hI' (by omega)
          exact ⟨i + 1, by omega, by rw [show j + (i + 1) = j + 1 + i by omega]; exact hd⟩

/-- from `DoneReal` the request equals the curve value after at most 6800 further cycles, forever. -/
theorem ATraj.settle_of_done {c : Int} {t : ℚ} {X : Nat → Int} {I : Nat → ℚ} {E : Nat → Int}
    (T : ATraj c t X I E) (ht : Tick5 t) {k : Nat} (hd : DoneReal c t (X k) (I k) (E k)) :
    ∀ n, k + 6800 ≤ n → X n = c := by
  have hη : (27 : ℚ) ≤ (6800 : Nat) * eta t := by
    have := abs_le.mp ht.close
    have := eps_val
    unfold eta; push_cast; norm_num at *; linarith
  have key : ∃ j, j ≤ 6800 ∧ ARest c t (X (k + j)) (I (k + j)) (E (k + j)) := by
    rcases hd with h | ⟨h, hp⟩ | ⟨h, hp⟩
    · exact ⟨0, by omega, h⟩
    · exact T.settle_Qpos 6800 k h (hp.trans hη)
    · exact T.settle_Qneg 6800 k h (hp.trans hη)
  obtain ⟨j, hj, hr⟩ := key
  intro n hn
  obtain ⟨i, rfl⟩ : ∃ i, n = k + j + i := ⟨n - (k + j), by omega⟩
  exact ((T.rest_forever hr) i).2.1

/-! ### translation invariance: the exploration away from the ends of the scale -/

def simGU (e m : Int) : Int := 300 * e + 4 * (m + e)

def qposU (e m ep : Int) : Bool :=
  decide (1 ≤ e) && decide (e ≤ 62) && (decide (ep = e) || decide (ep = e + 1)) &&
  decide (-490 + 26 * (ep - e) + 1 ≤ simGU e m) && decide (simGU e m + 1 ≤ 525 + 4 * e) &&
  decide (-5000 ≤ simGU e m)

def restU (e m ep : Int) : Bool :=
  decide (e = 0) && decide (-498 ≤ 4 * m - 25 * ep) && decide (-498 ≤ 4 * m) &&
  decide (4 * m - 25 * ep ≤ 498) && decide (4 * m ≤ 498)

def simDoneU (e m ep : Int) : Bool := restU e m ep || qposU e m ep || qposU (-e) (-m) (-ep)

def simUU (e m ep : Int) : Int := 300 * e + 4 * (m + e) + 25 * (e - ep)

/-- exploration in terms of the error only; every error met must stay inside `[a, b]`. -/
def simOkU (a b : Int) : Nat → Int → Int → Int → Bool
  | 0, e, m, ep => simDoneU e m ep
  | f + 1, e, m, ep =>
    simDoneU e m ep ||
      (decide (a ≤ e - (simUU e m ep + 499) / 1000) && decide (e - (simUU e m ep + 499) / 1000 ≤ b) &&
       decide (a ≤ e - (simUU e m ep + 501) / 1000) && decide (e - (simUU e m ep + 501) / 1000 ≤ b) &&
       simOkU a b f (e - (simUU e m ep + 499) / 1000) (m + e) e &&
        ((simUU e m ep + 499) / 1000 == (simUU e m ep + 501) / 1000 ||
          simOkU a b f (e - (simUU e m ep + 501) / 1000) (m + e) e))

/-- starting errors `lo .. lo+n-1` (positive and negative), overshoot at most `e0/16 + 2`. -/
def simTabU (lo n : Nat) : Bool :=
  (List.range n).all fun i =>
    simOkU (-(((lo + i : Nat) : Int) / 16 + 2)) ((lo + i : Nat) : Int) 20 ((lo + i : Nat) : Int) 0
        ((lo + i : Nat) : Int) &&
    simOkU (-((lo + i : Nat) : Int)) (((lo + i : Nat) : Int) / 16 + 2) 20 (-((lo + i : Nat) : Int)) 0
        (-((lo + i : Nat) : Int))

theorem simDone_of_U {c x m ep : Int} (h : simDoneU (c - x) m ep = true) :
    simDone c x m ep = true := by
  simp only [simDoneU, restU, qposU, Bool.or_eq_true, Bool.and_eq_true, decide_eq_true_eq] at h
  simp only [simDone, simRest, simQpos, Bool.or_eq_true, Bool.and_eq_true, decide_eq_true_eq]
  unfold simGU at h
  unfold simG
  omega

theorem simOk_of_U {a b c : Int} (hb : b ≤ c) (ha : c ≤ 255 + a) :
    ∀ (f : Nat) (x m ep : Int), a ≤ c - x → c - x ≤ b → simOkU a b f (c - x) m ep = true →
      simOk c f x m ep = true := by
  intro f
  induction f with
  | zero =>
    intro x m ep _ _ h
    unfold simOkU at h
    unfold simOk
    exact simDone_of_U h
  | succ f ih =>
    intro x m ep hxa hxb h
    unfold simOkU at h
    unfold simOk
    rw [Bool.or_eq_true] at h ⊢
    rcases h with h | h
    · exact Or.inl (simDone_of_U h)
    · right
      simp only [Bool.and_eq_true, Bool.or_eq_true, decide_eq_true_eq, beq_iff_eq] at h
      obtain ⟨⟨⟨⟨⟨h1, h2⟩, h3⟩, h4⟩, h5⟩, h6⟩ := h
      have hU : simU c x m ep = simUU (c - x) m ep := rfl
      have hlo : simLo c x m ep = x + (simUU (c - x) m ep + 499) / 1000 := by
        unfold simLo; rw [hU]; apply clamp255_id <;> omega
      have hhi : simHi c x m ep = x + (simUU (c - x) m ep + 501) / 1000 := by
        unfold simHi; rw [hU]; apply clamp255_id <;> omega
      have e1 : c - (x + (simUU (c - x) m ep + 499) / 1000)
          = c - x - (simUU (c - x) m ep + 499) / 1000 := by ring
      have e2 : c - (x + (simUU (c - x) m ep + 501) / 1000)
          = c - x - (simUU (c - x) m ep + 501) / 1000 := by ring
      rw [Bool.and_eq_true, Bool.or_eq_true, hlo, hhi]
      refine ⟨ih _ _ _ (by rw [e1]; exact h1) (by rw [e1]; exact h2) (by rw [e1]; exact h5), ?_⟩
      rcases h6 with h6 | h6
      · left; simp [h6]
      · right
        exact ih _ _ _ (by rw [e2]; exact h3) (by rw [e2]; exact h4) (by rw [e2]; exact h6)

/-! ### the ends of the scale: individual runs -/

/-- starting errors `lo .. lo+n-1`: the curve values within `e0/16 + 2` of the end of the scale the
    request overshoots toward. -/
def simTabB (lo n : Nat) : Bool :=
  (List.range n).all fun i =>
    (List.range ((lo + i) / 16 + 2)).all fun j =>
      (decide ((255 : Int) - (j : Int) - ((lo + i : Nat) : Int) < 0) ||
        simOk (255 - (j : Int)) 20 (255 - (j : Int) - ((lo + i : Nat) : Int)) 0 ((lo + i : Nat) : Int)) &&
      (decide ((255 : Int) < (j : Int) + ((lo + i : Nat) : Int)) ||
        simOk (j : Int) 20 ((j : Int) + ((lo + i : Nat) : Int)) 0 (-((lo + i : Nat) : Int)))

end Fan2go
