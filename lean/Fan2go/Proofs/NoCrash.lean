/-
  Crash-freedom lemmas for property C09: where a `Res.panic` can come from in one control cycle
  (`calculateTargetPwm`, `setPwm`, `UpdateFanSpeed`), in a run of events, in a sensor poll and in
  curve evaluation with failing sensors.

  Every fault is a value of the device fields / of the poll's `SensorIo` / of the sensor table, so
  all statements quantify over them; no PID dynamics are unfolded (`LoopSt.cycle` is opaque here).
-/
import Fan2go.Proofs.ControllerInv
import Fan2go.Proofs.ThirdParty
import Fan2go.Proofs.Config
import Fan2go.Proofs.CurveTree
import Fan2go.Model.Sensor

namespace Fan2go
open F64

/-! ### the control cycle -/

/-- reading the current PWM (`getPwm`, for every backend and every state of the read switch)
    returns a value or an error, never panics -/
theorem ctlGetPwm_no_panic (w : World) : ∀ s, ctlGetPwm w ≠ .panic s := by
  intro s
  unfold ctlGetPwm fanGetPwm
  repeat' split
  all_goals (intro h; cases h)

theorem lastSetR_no_panic (w : World) : ∀ s, lastSetR w ≠ .panic s := by
  intro s
  unfold lastSetR
  split
  · intro h; cases h
  · split
    · exact ctlGetPwm_no_panic w s
    · intro h; cases h

/-- a failed read of the current PWM is returned as that error, the world untouched -/
theorem calc_err_last (indef : Int) (w : World) (curve : Res Int) (now : Int) {e : String}
    (h1 : lastSetR w = .err e) : calculateTargetPwm indef w curve now = (w, .err e, []) := by
  unfold lastSetR at h1
  unfold calculateTargetPwm
  dsimp only
  generalize w.ctl.lastSet = ls at h1 ⊢
  cases ls with
  | some v => simp only at h1; cases h1
  | none => simp only at h1 ⊢; rw [h1]

/-- a curve error is returned as that error, the world untouched -/
theorem calc_err_curve (indef : Int) (w : World) (e : String) (now last : Int)
    (h1 : lastSetR w = .ok last) : calculateTargetPwm indef w (.err e) now = (w, .err e, []) := by
  unfold lastSetR at h1
  unfold calculateTargetPwm
  dsimp only
  generalize w.ctl.lastSet = ls at h1 ⊢
  cases ls with
  | some v => rfl
  | none => simp only at h1 ⊢; rw [h1]

/-- with a curve error the cycle ends in an error (the curve's, or the PWM read's) and nothing
    at all has changed -/
theorem calc_curve_err (indef : Int) (w : World) (e : String) (now : Int) :
    ∃ e', calculateTargetPwm indef w (.err e) now = (w, .err e', []) := by
  cases h1 : lastSetR w with
  | ok last => exact ⟨e, calc_err_curve indef w e now last h1⟩
  | err e0 => exact ⟨e0, calc_err_last indef w _ now h1⟩
  | panic s => exact absurd h1 (lastSetR_no_panic w s)

/-- `calculateTargetPwm` under `Inv`: a panic can only be the curve's own. -/
theorem calc_no_panic {w : World} (hinv : Inv w) (indef : Int) (curve : Res Int) (now : Int)
    (hc : ∀ s, curve ≠ .panic s) : ∀ s, (calculateTargetPwm indef w curve now).2.1 ≠ .panic s := by
  intro s
  cases h1 : lastSetR w with
  | err e => rw [calc_err_last indef w curve now h1]; intro h; cases h
  | panic s' => exact absurd h1 (lastSetR_no_panic w s')
  | ok last =>
    cases hcv : curve with
    | err e => rw [calc_err_curve indef w e now last h1]; intro h; cases h
    | panic s' => exact absurd hcv (hc s')
    | ok cv =>
      obtain ⟨wm, obs0, -, -, heq⟩ := calc_forward hinv indef cv now last h1
      rw [heq]
      split
      · split <;> (intro h; cases h)
      · intro h; cases h

theorem fanSetPwm_no_panic (d : Dev) (v : Int) : ∀ s, (fanSetPwm d v).2 ≠ .panic s := by
  intro s
  unfold fanSetPwm
  split <;> (intro h; cases h)

/-- `setPwm` panics only through `FindClosest` on an empty slice -/
theorem ctlSetPwm_no_panic (w : World) (t : Int) (hne : w.ctl.distinct.size ≠ 0) :
    ∀ s, (ctlSetPwm w t).2.1 ≠ .panic s := by
  intro s
  obtain ⟨k, hk⟩ := findClosest_ok w.ctl.distinct t hne
  unfold ctlSetPwm closestDistinct
  rw [hk]
  dsimp only
  split_ifs
  · intro h; cases h
  · exact fanSetPwm_no_panic _ _ s

/-- outcome of `UpdateFanSpeed` in terms of its two fallible parts -/
theorem ufs_result (indef : Int) (w : World) (curve : Res Int) (now : Int) :
    (updateFanSpeed indef w curve now).2.1 =
      match (calculateTargetPwm indef w curve now).2.1 with
      | .err e => .err e
      | .panic s => .panic s
      | .ok t =>
        match (ctlSetPwm (afterManual (calculateTargetPwm indef w curve now).1) t).2.1 with
        | .panic s => .panic s
        | _ => .ok () := by
  unfold updateFanSpeed afterManual
  rcases hc : calculateTargetPwm indef w curve now with ⟨w', r, o⟩
  cases r with
  | err e => rfl
  | panic s => rfl
  | ok t =>
    dsimp only
    split
    · next w2 s o2 heq => rw [heq]
    · next w2 r2 o2 hnp heq =>
      rw [heq]
      dsimp only
      cases r2 with
      | panic s => exact absurd rfl (hnp s)
      | ok u => rfl
      | err e => rfl

/-- One control cycle never panics on its own: for EVERY device state (all fault switches), every
    fan kind, every control loop, every `indef`. -/
theorem ufs_no_panic {w : World} (hinv : Inv w) (indef : Int) (curve : Res Int) (now : Int)
    (hc : ∀ s, curve ≠ .panic s) : ∀ s, (updateFanSpeed indef w curve now).2.1 ≠ .panic s := by
  intro s
  rw [ufs_result]
  have h1 := calc_no_panic hinv indef curve now hc
  have hcc := calcTarget_cases indef w curve now
  rcases hcalc : calculateTargetPwm indef w curve now with ⟨w', r, o⟩
  rw [hcalc] at h1 hcc
  cases r with
  | err e => intro h; cases h
  | panic s' => exact absurd rfl (h1 s')
  | ok t =>
    dsimp only
    have hinv' : Inv w' := hcc.inv hinv
    have hne : (afterManual w').ctl.distinct.size ≠ 0 := hinv'.distinct_ne
    have := ctlSetPwm_no_panic (afterManual w') t hne
    split
    · next s' heq => exact absurd heq (this s')
    · intro h; cases h

/-- the outcome of a cycle is `ok` or an error -/
theorem ufs_ok_or_err {w : World} (hinv : Inv w) (indef : Int) (curve : Res Int) (now : Int)
    (hc : ∀ s, curve ≠ .panic s) :
    (updateFanSpeed indef w curve now).2.1 = .ok () ∨ ∃ e, (updateFanSpeed indef w curve now).2.1 = .err e := by
  have := ufs_no_panic hinv indef curve now hc
  cases h : (updateFanSpeed indef w curve now).2.1 with
  | ok u => left; rfl
  | err e => right; exact ⟨e, rfl⟩
  | panic s => exact absurd h (this s)

/-- a cycle that ends in an error has not touched the device nor the values captured at start-up -/
theorem ufs_err_untouched {indef : Int} {w : World} {curve : Res Int} {now : Int} {e : String}
    (h : (updateFanSpeed indef w curve now).2.1 = .err e) :
    (updateFanSpeed indef w curve now).1.dev = w.dev ∧
    (updateFanSpeed indef w curve now).1.ctl.origMode = w.ctl.origMode ∧
    (updateFanSpeed indef w curve now).1.ctl.origPwm = w.ctl.origPwm := by
  rcases hu : updateFanSpeed indef w curve now with ⟨w', r, o⟩
  rw [hu] at h
  dsimp only at h
  subst h
  have hf := (calcTarget_cases' (update_err_inv hu)).frame
  exact ⟨hf.dev, hf.origMode, hf.origPwm⟩

/-- a curve error stops the cycle with an error and leaves the whole world as it was -/
theorem ufs_curve_err (indef : Int) (w : World) (e : String) (now : Int) :
    ∃ e', updateFanSpeed indef w (.err e) now = (w, .err e', []) := by
  obtain ⟨e', h⟩ := calc_curve_err indef w e now
  refine ⟨e', ?_⟩
  unfold updateFanSpeed
  rw [h]

/-! ### runs -/

theorem run_ev_mem (indef : Int) (es : List Ev) : ∀ (w : World), ∀ x ∈ runEvs indef w es, x.2.1 ∈ es := by
  induction es with
  | nil => intro w x hx; cases hx
  | cons e es ih =>
    intro w x hx
    rw [runEvs_cons] at hx
    rcases List.mem_cons.mp hx with h | h
    · subst h; exact List.mem_cons_self
    · split at h
      · exact List.mem_cons_of_mem _ (ih _ x h)
      · cases h

/-- every event of every run from an `Inv` world: no panic, provided no curve evaluation panics -/
theorem run_no_panic (indef : Int) (w0 : World) (es : List Ev) (hinv : Inv w0)
    (hc : ∀ curve now, Ev.cycle curve now ∈ es → ∀ s, curve ≠ .panic s) :
    ∀ x ∈ runEvs indef w0 es, ∀ s, x.2.2.result ≠ .panic s := by
  intro x hx s
  obtain ⟨hi, hstep⟩ := run_pre_inv indef es w0 hinv x hx
  have hmem := run_ev_mem indef es w0 x hx
  rw [hstep]
  cases he : x.2.1 with
  | env d => intro h; cases h
  | poll => intro h; cases h
  | cycle curve now =>
    rw [he] at hmem
    rw [stepEv_cycle]
    exact ufs_no_panic hi indef curve now (hc curve now hmem) s

/-! ### sensors -/

theorem sensorGetValue_no_panic (k : SensorKind) (io : SensorIo) : ∀ s, sensorGetValue k io ≠ .panic s := by
  intro s
  cases k <;> cases io <;> simp only [sensorGetValue] <;> try (intro h; cases h)
  all_goals (split <;> (intro h; cases h))

theorem updateSensor_no_panic (n : Int) (avg : F64) (k : SensorKind) (io : SensorIo) :
    ∀ s, (updateSensor n avg k io).2 ≠ .panic s := by
  intro s
  have := sensorGetValue_no_panic k io
  unfold updateSensor
  cases h : sensorGetValue k io with
  | ok v => intro h'; cases h'
  | err e => intro h'; cases h'
  | panic s' => exact absurd h (this s')

/-! ### curves with failing sensors -/

/-- PID curve whose sensor read fails: the error is returned, no state is changed -/
theorem evalCurve_pid_err (indef : Int) (sensors : SensorTable) (now : Int) (fuel : Nat)
    (tbl : CurveTable) (id : String) (c : Curve) (sensor : String) (setPoint : F64)
    (sv : SensorView) (e : String) (hget : tbl.get? id = some c) (hcfg : c.cfg = .pid sensor setPoint)
    (hs : sensors.get? sensor = some sv) (hv : sv.value = .err e) :
    evalCurve indef sensors now (fuel + 1) tbl id = (tbl, .err e) := by
  rw [evalCurve]
  simp only [hget, hcfg, hs, hv]

/-- a linear curve reads only the moving average: two sensor tables that agree on the average of its
    sensor give the same evaluation (table and outcome), whatever `GetValue` would return -/
theorem evalCurve_linear_avg_only (indef : Int) (S S' : SensorTable) (now now' : Int) (fuel : Nat)
    (tbl : CurveTable) (id : String) (c : Curve) (sensor : String) (mn mx : Int)
    (steps : Option (List (Int × F64))) (sv sv' : SensorView) (hget : tbl.get? id = some c)
    (hcfg : c.cfg = .linear sensor mn mx steps) (hs : S.get? sensor = some sv)
    (hs' : S'.get? sensor = some sv') (havg : sv.avg = sv'.avg) :
    evalCurve indef S now (fuel + 1) tbl id = evalCurve indef S' now' (fuel + 1) tbl id := by
  rw [evalCurve, evalCurve]
  simp only [hget, hcfg, hs, hs', havg]

/-- a linear curve with its sensor present does not panic unless its step map is empty and non-nil
    (excluded by validation, C11) -/
theorem evalCurve_linear_no_panic (indef : Int) (sensors : SensorTable) (now : Int) (fuel : Nat)
    (tbl : CurveTable) (id : String) (c : Curve) (sensor : String) (mn mx : Int)
    (steps : Option (List (Int × F64))) (sv : SensorView) (hget : tbl.get? id = some c)
    (hcfg : c.cfg = .linear sensor mn mx steps) (hs : sensors.get? sensor = some sv)
    (hst : steps ≠ some []) :
    ∃ v, (evalCurve indef sensors now (fuel + 1) tbl id).2 = .ok v := by
  cases steps with
  | none =>
    rw [evalCurve_linear indef sensors now fuel tbl id c sensor mn mx none sv hget hcfg hs]
    exact ⟨_, rfl⟩
  | some st =>
    rw [evalCurve_linear indef sensors now fuel tbl id c sensor mn mx (some st) sv hget hcfg hs]
    obtain ⟨v, hv⟩ := Cfg.interp_ok st (sv.avg / ofInt 1000) (fun h => hst (by rw [h]))
    refine ⟨toInt indef (round v), ?_⟩
    show linSteps indef sv.avg st = _
    unfold linSteps
    rw [hv]; rfl

/-- the first member's error is the error of the member list -/
theorem evalMembers_head_err (indef : Int) (sensors : SensorTable) (now : Int) (fuel : Nat)
    (tbl : CurveTable) (m : String) (ms : List String) (e : String)
    (h : (evalCurve indef sensors now fuel tbl m).2 = .err e) :
    (evalMembers indef sensors now fuel tbl (m :: ms)).2 = .err e := by
  rw [evalMembers_cons, h]; rfl

/-- an error of a later member (after the earlier ones evaluated) is the error of the member list -/
theorem evalMembers_tail_err (indef : Int) (sensors : SensorTable) (now : Int) (fuel : Nat)
    (tbl : CurveTable) (m : String) (ms : List String) (v : Int) (e : String)
    (h : (evalCurve indef sensors now fuel tbl m).2 = .ok v)
    (ht : (evalMembers indef sensors now fuel (evalCurve indef sensors now fuel tbl m).1 ms).2 = .err e) :
    (evalMembers indef sensors now fuel tbl (m :: ms)).2 = .err e := by
  rw [evalMembers_cons, h]
  simp only [Res.bind]
  rw [ht]

/-- an error of the member list is the error of the function curve -/
theorem evalCurve_function_err (indef : Int) (sensors : SensorTable) (now : Int) (fuel : Nat)
    (tbl : CurveTable) (id : String) (c : Curve) (ty : String) (members : List String) (e : String)
    (hget : tbl.get? id = some c) (hcfg : c.cfg = .function ty members)
    (h : (evalMembers indef sensors now fuel tbl members).2 = .err e) :
    (evalCurve indef sensors now (fuel + 1) tbl id).2 = .err e := by
  rw [evalCurve_function indef sensors now fuel tbl id c ty members hget hcfg, h]; rfl

/-- the member list never manufactures a panic: if it panics, one of its members did
    (in the table state in which that member was evaluated) -/
theorem evalMembers_panic_origin (indef : Int) (sensors : SensorTable) (now : Int) (fuel : Nat)
    (ms : List String) : ∀ (tbl : CurveTable) (s : String),
    (evalMembers indef sensors now fuel tbl ms).2 = .panic s →
      ∃ m ∈ ms, ∃ tbl', (evalCurve indef sensors now fuel tbl' m).2 = .panic s := by
  induction ms with
  | nil => intro tbl s h; rw [evalMembers_nil] at h; cases h
  | cons m ms ih =>
    intro tbl s h
    rw [evalMembers_cons] at h
    cases hm : (evalCurve indef sensors now fuel tbl m).2 with
    | panic s' =>
      rw [hm] at h
      simp only [Res.bind] at h
      cases h
      exact ⟨m, List.mem_cons_self, tbl, hm⟩
    | err e => rw [hm] at h; simp only [Res.bind] at h; cases h
    | ok v =>
      rw [hm] at h
      simp only [Res.bind] at h
      cases ht : (evalMembers indef sensors now fuel (evalCurve indef sensors now fuel tbl m).1 ms).2 with
      | panic s' =>
        rw [ht] at h
        cases h
        obtain ⟨m', hm', tbl', h'⟩ := ih _ _ ht
        exact ⟨m', List.mem_cons_of_mem _ hm', tbl', h'⟩
      | err e => rw [ht] at h; cases h
      | ok vs => rw [ht] at h; cases h

namespace Cfg
open Relation

/-! ### accepted configurations with failing sensors -/

/-- every sensor entry is present in the table the curves see; `GetValue` may return a value or an
    error (it never panics, `sensorGetValue_no_panic`), the moving average is arbitrary -/
def SensorsPresent (c : Configuration) (sensors : SensorTable) : Prop :=
  ∀ s ∈ c.sensors, ∃ sv, sensors.get? s.id = some sv ∧ ∀ site, sv.value ≠ .panic site

theorem SensorsDefined.present {c : Configuration} {sensors : SensorTable}
    (h : SensorsDefined c sensors) : SensorsPresent c sensors := by
  intro s hs
  obtain ⟨sv, h1, _, x, h2, _⟩ := h s hs
  exact ⟨sv, h1, fun site => by simp [h2]⟩

/-- `goodShape_of_accepted` with the sensor values unconstrained (errors allowed) -/
theorem goodShape_of_accepted_present (c : Configuration) (permOk : Bool)
    (h : validateConfig c permOk = .ok ())
    (sensors : SensorTable) (hs : SensorsPresent c sensors) :
    GoodShape sensors (shapeOf (toCurveTable c)) c.curves.length := by
  have hrefs := accepted_refsResolve h
  have hb := accepted_oneBackend h
  have hne := accepted_functionsNonempty h
  have hst := accepted_noEmptySteps h
  have sens : ∀ s, SensorDefined c s →
      ∃ sv, sensors.get? s = some sv ∧ ∀ site, sv.value ≠ .panic site := by
    rintro _ ⟨s, hs', rfl⟩
    exact hs s hs'
  refine ⟨?_, ?_, ?_, ?_, ?_⟩
  · intro id s mn mx steps hσ
    obtain ⟨cu, hcu, hcfg⟩ := Option.map_eq_some_iff.1 hσ
    obtain ⟨cc, hcc, hto, _⟩ := toCurveTable_get c id cu hcu
    obtain ⟨l, hl, rfl, rfl⟩ := (toCurve_some cc cu hto).2.1 s mn mx steps hcfg
    obtain ⟨sv, hsv, _⟩ := sens _ (hrefs.1 cc hcc l hl)
    exact ⟨⟨sv, hsv⟩, hst cc hcc l hl⟩
  · intro id s sp hσ
    obtain ⟨cu, hcu, hcfg⟩ := Option.map_eq_some_iff.1 hσ
    obtain ⟨cc, hcc, hto, _⟩ := toCurveTable_get c id cu hcu
    obtain ⟨p, hp, rfl⟩ := (toCurve_some cc cu hto).2.2.1 s sp hcfg
    exact sens _ (hrefs.2.1 cc hcc p hp)
  · intro id ty ms hσ
    obtain ⟨cu, hcu, hcfg⟩ := Option.map_eq_some_iff.1 hσ
    obtain ⟨cc, hcc, hto, _⟩ := toCurveTable_get c id cu hcu
    have hf := (toCurve_some cc cu hto).2.2.2 ty ms hcfg
    exact ⟨accepted_fnType h cc hcc _ hf, hne cc hcc _ hf,
      fun m hm => toCurveTable_isSome c hb m (hrefs.2.2.1 cc hcc _ hf m hm)⟩
  · intro u huu
    exact accepted_acyclic h u (TransGen.mono (fun a b hab => sedge_memberOf c a b hab) _ _ huu)
  · intro path hnd hp
    have hsub : path ⊆ (toCurveTable c).map (·.id) := by
      intro p hpm
      obtain ⟨ty, ms, hσ⟩ := hp p hpm
      obtain ⟨cu, hcu, _⟩ := Option.map_eq_some_iff.1 hσ
      exact List.mem_map.2 ⟨cu, List.mem_of_find?_eq_some hcu, get?_id _ p cu hcu⟩
    calc path.length ≤ ((toCurveTable c).map (·.id)).length := (hnd.subperm hsub).length_le
      _ = (toCurveTable c).length := List.length_map _
      _ ≤ c.curves.length := List.length_filterMap_le _ _

/-- Every curve of an accepted configuration, evaluated in ANY table state that evaluation can
    produce (same ids and curve configurations as the instantiated table: `Value`s and PID memories
    arbitrary) and against sensors whose reads succeed or fail arbitrarily: no panic, recursion
    within the budget, and the table keeps its shape (so the next cycle is covered again). -/
theorem eval_no_panic_of_accepted (c : Configuration) (permOk : Bool)
    (h : validateConfig c permOk = .ok ())
    (indef : Int) (sensors : SensorTable) (now : Int) (hs : SensorsPresent c sensors)
    (T : CurveTable) (hT : shapeOf T = shapeOf (toCurveTable c)) :
    ∀ cc ∈ c.curves,
      shapeOf (evalCurve indef sensors now (c.curves.length + 1) T cc.id).1 = shapeOf (toCurveTable c) ∧
      ∀ site, (evalCurve indef sensors now (c.curves.length + 1) T cc.id).2 ≠ .panic site := by
  intro cc hcc
  have hg := goodShape_of_accepted_present c permOk h sensors hs
  exact evalCurve_total indef sensors now _ _ hg (c.curves.length + 1) T cc.id []
    hT (toCurveTable_isSome c (accepted_oneBackend h) cc.id ⟨cc, hcc, rfl⟩) List.nodup_nil
    (by simp) (by simp)

/-! ### the closed loop: environment, RPM poll, curve evaluation, control cycle -/

/-- what the outside world decides in one tick of the loop of one fan: the complete device state
    (registers and ALL fault switches), the complete sensor table the curves see (averages and
    `GetValue` outcomes), the clock -/
structure Tick where
  dev : Dev
  sensors : SensorTable
  now : Int

/-- the closed loop of one fan regulated by the curve `id`: per tick the environment sets the device,
    the RPM monitor polls, the curve is evaluated on the current table (whose `Value`s / PID memories
    evolve), `UpdateFanSpeed` runs. Regulation ends at the first cycle that does not return `ok`.
    Yields the outcome of every cycle that ran. -/
def closedLoop (indef : Int) (fuel : Nat) (id : String) : World → CurveTable → List Tick → List (Res Unit)
  | _, _, [] => []
  | w, T, t :: ts =>
    let w1 := measureRpm indef { w with dev := t.dev }
    let ev := evalCurve indef t.sensors t.now fuel T id
    let out := updateFanSpeed indef w1 ev.2 t.now
    match out.2.1 with
    | .ok u => .ok u :: closedLoop indef fuel id out.1 ev.1 ts
    | r => [r]

/-- No tick of the closed loop of an accepted configuration panics, for any number of ticks with any
    faults in any of them. -/
theorem closedLoop_no_panic (c : Configuration) (permOk : Bool)
    (h : validateConfig c permOk = .ok ()) (indef : Int) (cc : CurveConfig) (hcc : cc ∈ c.curves)
    (ts : List Tick) (hs : ∀ t ∈ ts, SensorsPresent c t.sensors) :
    ∀ (w : World) (T : CurveTable), Inv w → shapeOf T = shapeOf (toCurveTable c) →
      ∀ r ∈ closedLoop indef (c.curves.length + 1) cc.id w T ts, ∀ s, r ≠ .panic s := by
  induction ts with
  | nil => intro w T _ _ r hr; cases hr
  | cons t ts ih =>
    intro w T hinv hT r hr s
    have hinv1 : Inv (measureRpm indef { w with dev := t.dev }) :=
      (step_cases indef _ .poll).inv ((step_cases indef w (.env t.dev)).inv hinv)
    obtain ⟨hT', hnp⟩ := eval_no_panic_of_accepted c permOk h indef t.sensors t.now
      (hs t List.mem_cons_self) T hT cc hcc
    have hnp2 := ufs_no_panic hinv1 indef _ t.now hnp
    have hinv2 : Inv (updateFanSpeed indef (measureRpm indef { w with dev := t.dev })
        (evalCurve indef t.sensors t.now (c.curves.length + 1) T cc.id).2 t.now).1 :=
      (step_cases indef _ (.cycle _ t.now)).inv hinv1
    rw [closedLoop] at hr
    split at hr
    · rcases List.mem_cons.mp hr with rfl | hr
      · intro h'; cases h'
      · exact ih (fun t' ht' => hs t' (List.mem_cons_of_mem _ ht')) _ _ hinv2 hT' r hr s
    · next hne =>
      simp only [List.mem_singleton] at hr
      subst hr
      exact hnp2 s

end Cfg
end Fan2go
