/-
  The default PID loop in closed loop on the identity range – analysis of the abstract step relation
  `AStep` (Proofs/PidLoop.lean): rest region, monotone approach, quasi-static region `Q` from which
  the request reaches the curve value exactly and stays.
-/
import Fan2go.Proofs.PidLoop
namespace Fan2go
open F64

theorem eps_val : eps = 1 / 1073741824 := by unfold eps; norm_num

/-! ### (5) the request moves toward the curve value when the exact output says so -/

theorem AStep.move_up {c x ep x' : Int} {t I J : ℚ} (h : AStep c t x I ep x' J) (n : Int)
    (hn : 1 ≤ n) (hx0 : 0 ≤ x) (hxn : x + n ≤ 255)
    (hu : (n : ℚ) - 1 / 2 + eps ≤ uExact ((c - x : Int) : ℚ) ep I t) : x + n ≤ x' :=
  h.up (x + n) (by omega) hxn (by push_cast at hu ⊢; linarith)

theorem AStep.move_dn {c x ep x' : Int} {t I J : ℚ} (h : AStep c t x I ep x' J) (n : Int)
    (hn : 1 ≤ n) (hx1 : x ≤ 255) (hxn : 0 ≤ x - n)
    (hu : uExact ((c - x : Int) : ℚ) ep I t ≤ -((n : ℚ) - 1 / 2 + eps)) : x' ≤ x - n := by
  have := h.dn (x - n + 1) (by omega) (by omega) (by push_cast at hu ⊢; linarith)
  omega

/-! ### (3) the rest region -/

/-- request = curve value, and the integral (and the derivative kick of the last move) too small to
    move the request – or pushing it against the end of the scale (curve value 0 or 255): the state
    never changes again. -/
structure ARest (c : Int) (t : ℚ) (x : Int) (I : ℚ) (ep : Int) : Prop where
  xc : x = c
  now_lo : c ≠ 0 → -(1 / 2 - 2 * eps) ≤ 1 / 50 * I + 1 / 200 * ((0 - (ep : ℚ)) / t)
  now_hi : c ≠ 255 → 1 / 50 * I + 1 / 200 * ((0 - (ep : ℚ)) / t) ≤ 1 / 2 - 2 * eps
  later_lo : c ≠ 0 → -(1 / 2 - 2 * eps) ≤ 1 / 50 * I
  later_hi : c ≠ 255 → 1 / 50 * I ≤ 1 / 2 - 2 * eps

theorem AStep.rest_step {c x ep x' : Int} {t I J : ℚ} (h : AStep c t x I ep x' J)
    (hc0 : 0 ≤ c) (hc1 : c ≤ 255) (hr : ARest c t x I ep) :
    x' = c ∧ J = I ∧ ARest c t x' J (c - x) := by
  obtain ⟨rfl, hnl, hnh, hll, hlh⟩ := hr
  have hJ : J = I := le_antisymm (h.Jle (by omega)) (h.Jge (by omega))
  have hup := h.up x
  have hdn := h.dn (x + 1)
  have hx0' := h.x0
  have hx1' := h.x1
  have hu : uExact ((x - x : Int) : ℚ) ep I t = 1 / 50 * I + 1 / 200 * ((0 - (ep : ℚ)) / t) := by
    unfold uExact; simp
  rw [hu] at hup hdn
  have he := eps_val
  have hx : x' = x := by
    apply le_antisymm
    · rcases eq_or_lt_of_le hc1 with e | l
      · omega
      · have := hnh (by omega)
        have := hdn (by omega) (by omega) (by push_cast; linarith)
        omega
    · rcases eq_or_lt_of_le hc0 with e | l
      · omega
      · have := hnl (by omega)
        exact hup (by omega) hc1 (by linarith)
  refine ⟨hx, hJ, hx, ?_, ?_, ?_, ?_⟩
  · intro hc; rw [hJ]; simpa using hll hc
  · intro hc; rw [hJ]; simpa using hlh hc
  · intro hc; rw [hJ]; exact hll hc
  · intro hc; rw [hJ]; exact hlh hc

/-! ### the quasi-static region Q -/

/-- the derivative gain per unit of error change: `d / t`. -/
def dl (t : ℚ) : ℚ := 1 / 200 * (1 / t)

theorem dl_bounds {t : ℚ} (ht : TickOk t) : 0 < dl t ∧ dl t ≤ 1003 / 10000 := by
  have htp : 0 < t := by linarith [ht.t0]
  unfold dl
  constructor
  · positivity
  · have : 1 / t ≤ 1 / (499 / 10000) := one_div_le_one_div_of_le (by norm_num) ht.t0
    norm_num at this ⊢
    linarith

/-- the proportional + integral part of the next output. -/
def Gq (c x : Int) (I t : ℚ) : ℚ :=
  3 / 10 * ((c - x : Int) : ℚ) + 1 / 50 * (I + ((c - x : Int) : ℚ) * t)

/-- minimal growth of `Gq` per cycle in which the request does not move (error ≥ 1). -/
def eta (t : ℚ) : ℚ := t / 50 - eps

/-- Quasi-static region below the curve value: error `e ≥ 1` with `e·t ≤ 12.5`, the last move was 0
    or +1, and the PI signal is inside the band where the next move is again 0 or +1. -/
structure Qpos (c : Int) (t : ℚ) (x : Int) (I : ℚ) (ep : Int) : Prop where
  e1 : 1 ≤ c - x
  et : ((c - x : Int) : ℚ) * t ≤ 25 / 2
  v : ep = c - x ∨ ep = c - x + 1
  lo : 0 < x → -49 / 100 + dl t * ((ep - (c - x) : Int) : ℚ) ≤ Gq c x I t
  hi : Gq c x I t ≤ 1 / 2 + dl t + 1 / 1000 + 1 / 50 * (((c - x : Int) : ℚ) * t)

/-- potential: decreases by at least `eta t` per cycle inside `Qpos`. -/
def PhiN (c : Int) (t : ℚ) (x : Int) (I : ℚ) : ℚ :=
  (31 / 100 + eta t) * ((c - x : Int) : ℚ) + (3 / 2 - Gq c x I t)

theorem uExact_v0 (e I t : ℚ) : uExact e e I t = 3 / 10 * e + 1 / 50 * (I + e * t) := by
  unfold uExact; simp

theorem uExact_v1 (e I t : ℚ) : uExact e (e + 1) I t = 3 / 10 * e + 1 / 50 * (I + e * t) - dl t := by
  unfold uExact dl; ring

theorem AStep.qpos_step {c x ep x' : Int} {t I J : ℚ} (h : AStep c t x I ep x' J) (ht : TickOk t)
    (hc1 : c ≤ 255) (hx0 : 0 ≤ x) (hq : Qpos c t x I ep) :
    (Qpos c t x' J (c - x) ∧ PhiN c t x' J + eta t ≤ PhiN c t x I) ∨ ARest c t x' J (c - x) := by
  obtain ⟨he1, het, hv, hlo, hhi⟩ := hq
  obtain ⟨hd0, hd1⟩ := dl_bounds ht
  have hepsv := eps_val
  have ht0 := ht.t0
  have ht1 := ht.t1
  have hJc := abs_le.mp h.Jc
  have hJge := h.Jge (by omega)
  have hx'0 := h.x0
  have hx'1 := h.x1
  have he1q : (1 : ℚ) ≤ ((c - x : Int) : ℚ) := by exact_mod_cast he1
  have het0 : 0 ≤ ((c - x : Int) : ℚ) * t := by positivity
  have hett : t ≤ ((c - x : Int) : ℚ) * t := by nlinarith
  -- the exact output in terms of Gq
  have hu : uExact ((c - x : Int) : ℚ) ep I t = Gq c x I t - dl t * ((ep - (c - x) : Int) : ℚ) := by
    rcases hv with rfl | rfl
    · rw [uExact_v0]; unfold Gq; simp
    · have : (((c - x + 1 : Int)) : ℚ) = ((c - x : Int) : ℚ) + 1 := by push_cast; ring
      rw [this, uExact_v1]; unfold Gq; simp
  have hvq : ((ep - (c - x) : Int) : ℚ) = 0 ∨ ((ep - (c - x) : Int) : ℚ) = 1 := by
    rcases hv with rfl | rfl
    · left; simp
    · right; simp
  have hvb : 0 ≤ dl t * ((ep - (c - x) : Int) : ℚ) ∧ dl t * ((ep - (c - x) : Int) : ℚ) ≤ dl t := by
    rcases hvq with e | e <;> rw [e] <;> constructor <;> linarith
  -- the move is 0 or +1
  have hge : x ≤ x' := by
    rcases eq_or_lt_of_le hx0 with e | l
    · omega
    · have := hlo l
      exact h.up x (by omega) (by omega) (by rw [hu]; linarith)
  have hle : x' ≤ x + 1 := by
    by_cases hx : x + 2 ≤ 255
    · have := h.dn (x + 2) (by omega) hx (by rw [hu]; simp only [Int.cast_add, Int.cast_ofNat]; linarith)
      omega
    · omega
  have hup1 := h.up (x + 1) (by omega) (by omega)
  have hdn1 := h.dn (x + 1) (by omega) (by omega)
  rw [hu] at hup1 hdn1
  simp only [Int.cast_add, Int.cast_one] at hup1 hdn1
  rcases (by omega : x' = x ∨ x' = x + 1) with hx' | hx'
  · -- no move
    left
    have hsmall : Gq c x I t - dl t * ((ep - (c - x) : Int) : ℚ) < 1 / 2 + eps := by
      by_contra hc
      have := hup1 (by linarith [not_lt.mp hc])
      omega
    have hG' : Gq c x' J t = Gq c x I t + 1 / 50 * (J - I) := by
      rw [hx']; unfold Gq; ring
    refine ⟨⟨by omega, by rw [hx']; exact het, Or.inl (by rw [hx']), ?_, ?_⟩, ?_⟩
    · intro hpos
      have := hlo (by omega)
      rw [hx']; simp only [sub_self, Int.cast_zero, mul_zero, add_zero]
      rw [← hx', hG']; linarith
    · rw [hG', hx']; linarith
    · unfold PhiN eta
      rw [hG', hx']; linarith
  · -- move by +1
    have hbig : 1 / 2 - eps < Gq c x I t - dl t * ((ep - (c - x) : Int) : ℚ) := by
      by_contra hc
      have := hdn1 (by linarith [not_lt.mp hc])
      omega
    have hcast : ((c - x' : Int) : ℚ) = ((c - x : Int) : ℚ) - 1 := by rw [hx']; push_cast; ring
    have hG' : Gq c x' J t = Gq c x I t - 3 / 10 + 1 / 50 * (J - (I + ((c - x : Int) : ℚ) * t))
        + 1 / 50 * (((c - x : Int) : ℚ) * t - t) := by
      unfold Gq; rw [hcast]; ring
    by_cases hlast : c - x = 1
    · -- arrived at the curve value
      right
      have hxc : x' = c := by omega
      have hcast1 : ((c - x : Int) : ℚ) = 1 := by rw [hlast]; simp
      have hG0 : Gq c x' J t = 1 / 50 * J := by
        unfold Gq; rw [hxc]; simp
      rw [hcast1] at hG' hhi hJc
      have hkick : (1 : ℚ) / 200 * ((0 - ((1 : Int) : ℚ)) / t) = - dl t := by
        unfold dl; push_cast; ring
      refine ⟨hxc, ?_, ?_, ?_, ?_⟩
      · intro _; rw [hlast, ← hG0, hG', hkick]; linarith
      · intro _; rw [hlast, ← hG0, hG', hkick]; linarith
      · intro _; rw [← hG0, hG']; linarith
      · intro _; rw [← hG0, hG']; linarith
    · left
      refine ⟨⟨by omega, ?_, Or.inr (by omega), ?_, ?_⟩, ?_⟩
      · rw [hcast]; linarith
      · intro _
        have : ((c - x - (c - x') : Int) : ℚ) = 1 := by rw [hx']; push_cast; ring
        rw [this, hG']; linarith
      · rw [hG', hcast]; linarith
      · unfold PhiN eta
        rw [hG', hcast]; nlinarith

/-! ### mirror symmetry `x ↦ 255 − x` -/

theorem uExact_neg (e ep I t : ℚ) : uExact (-e) (-ep) (-I) t = - uExact e ep I t := by
  unfold uExact; ring

theorem AStep.mirror {c x ep x' : Int} {t I J : ℚ} (h : AStep c t x I ep x' J) :
    AStep (255 - c) t (255 - x) (-I) (-ep) (255 - x') (-J) := by
  have hcast : (((255 - c) - (255 - x) : Int) : ℚ) = -((c - x : Int) : ℚ) := by push_cast; ring
  have hy : ((255 - x : Int) : ℚ) + uExact (((255 - c) - (255 - x) : Int) : ℚ) ((-ep : Int) : ℚ) (-I) t
      = 255 - ((x : ℚ) + uExact ((c - x : Int) : ℚ) ep I t) := by
    rw [hcast]; push_cast; rw [uExact_neg]; ring
  refine ⟨by have := h.x1; omega, by have := h.x0; omega, ?_, ?_, ?_, ?_, ?_, rep64_neg h.Jrep⟩
  · intro n h1 h2 hn
    rw [hy] at hn
    have := h.dn (256 - n) (by omega) (by omega) (by simp only [Int.cast_sub, Int.cast_ofNat] at hn ⊢; linarith)
    omega
  · intro n h1 h2 hn
    rw [hy] at hn
    have := h.up (256 - n) (by omega) (by omega) (by simp only [Int.cast_sub, Int.cast_ofNat] at hn ⊢; linarith)
    omega
  · rw [hcast]
    have : -J - (-I + -((c - x : Int) : ℚ) * t) = -(J - (I + ((c - x : Int) : ℚ) * t)) := by ring
    rw [this, abs_neg]; exact h.Jc
  · intro he
    have := h.Jge (by omega); linarith
  · intro he
    have := h.Jle (by omega); linarith

theorem ARest.mirror {c x ep : Int} {t I : ℚ} (h : ARest (255 - c) t (255 - x) (-I) (-ep)) :
    ARest c t x I ep := by
  obtain ⟨h1, h2, h3, h4, h5⟩ := h
  have e1 : (1 : ℚ) / 50 * -I + 1 / 200 * ((0 - ((-ep : Int) : ℚ)) / t)
      = -(1 / 50 * I + 1 / 200 * ((0 - (ep : ℚ)) / t)) := by push_cast; ring
  have e2 : (1 : ℚ) / 50 * -I = -(1 / 50 * I) := by ring
  rw [e1] at h2 h3
  rw [e2] at h4 h5
  refine ⟨by omega, ?_, ?_, ?_, ?_⟩
  · intro hc; have := h3 (by omega); linarith
  · intro hc; have := h2 (by omega); linarith
  · intro hc; have := h5 (by omega); linarith
  · intro hc; have := h4 (by omega); linarith

/-- Quasi-static region above the curve value (mirror image of `Qpos`). -/
def Qneg (c : Int) (t : ℚ) (x : Int) (I : ℚ) (ep : Int) : Prop :=
  Qpos (255 - c) t (255 - x) (-I) (-ep)

/-! ### abstract trajectories with a constant curve value and a constant tick -/

structure ATraj (c : Int) (t : ℚ) (x : Nat → Int) (I : Nat → ℚ) (ep : Nat → Int) : Prop where
  step : ∀ k, AStep c t (x k) (I k) (ep k) (x (k + 1)) (I (k + 1))
  ep_succ : ∀ k, ep (k + 1) = c - x k
  tick : TickOk t
  c0 : 0 ≤ c
  c1 : c ≤ 255
  x0 : 0 ≤ x 0
  x1 : x 0 ≤ 255

theorem ATraj.x_range {c : Int} {t : ℚ} {x : Nat → Int} {I : Nat → ℚ} {ep : Nat → Int}
    (T : ATraj c t x I ep) (k : Nat) : 0 ≤ x k ∧ x k ≤ 255 := by
  cases k with
  | zero => exact ⟨T.x0, T.x1⟩
  | succ k => exact ⟨(T.step k).x0, (T.step k).x1⟩

theorem ATraj.mirror {c : Int} {t : ℚ} {x : Nat → Int} {I : Nat → ℚ} {ep : Nat → Int}
    (T : ATraj c t x I ep) :
    ATraj (255 - c) t (fun k => 255 - x k) (fun k => - I k) (fun k => - ep k) := by
  refine ⟨fun k => (T.step k).mirror, ?_, T.tick, by have := T.c1; omega, by have := T.c0; omega,
    by have := T.x1; omega, by have := T.x0; omega⟩
  intro k
  show -ep (k + 1) = 255 - c - (255 - x k)
  rw [T.ep_succ k]; ring

/-- once in the rest region, the request equals the curve value forever and the integral is frozen. -/
theorem ATraj.rest_forever {c : Int} {t : ℚ} {x : Nat → Int} {I : Nat → ℚ} {ep : Nat → Int}
    (T : ATraj c t x I ep) {k : Nat} (hr : ARest c t (x k) (I k) (ep k)) :
    ∀ j, ARest c t (x (k + j)) (I (k + j)) (ep (k + j)) ∧ x (k + j) = c ∧ I (k + j) = I k := by
  intro j
  induction j with
  | zero => exact ⟨hr, hr.xc, rfl⟩
  | succ j ih =>
    obtain ⟨r, _, hI⟩ := ih
    obtain ⟨a, b, d⟩ := (T.step (k + j)).rest_step T.c0 T.c1 r
    rw [← T.ep_succ (k + j)] at d
    exact ⟨d, a, by rw [show k + (j + 1) = k + j + 1 from rfl, b, hI]⟩

/-- from the region `Qpos` the request climbs monotonically in single steps to the curve value and
    rests there; the number of cycles is bounded by the potential. -/
theorem ATraj.settle_Qpos {c : Int} {t : ℚ} {x : Nat → Int} {I : Nat → ℚ} {ep : Nat → Int}
    (T : ATraj c t x I ep) :
    ∀ (n : Nat) (k : Nat), Qpos c t (x k) (I k) (ep k) → PhiN c t (x k) (I k) ≤ n * eta t →
      ∃ j, j ≤ n ∧ ARest c t (x (k + j)) (I (k + j)) (ep (k + j)) := by
  have hη : 0 < eta t := by
    have := T.tick.t0; have := eps_val; unfold eta; linarith
  intro n
  induction n with
  | zero =>
    intro k hq hphi
    exfalso
    obtain ⟨hd0, hd1⟩ := dl_bounds T.tick
    have he1q : (1 : ℚ) ≤ ((c - x k : Int) : ℚ) := by exact_mod_cast hq.e1
    have h1 := hq.hi
    have h2 := hq.et
    unfold PhiN at hphi
    simp only [Nat.cast_zero, zero_mul] at hphi
    nlinarith
  | succ n ih =>
    intro k hq hphi
    rcases (T.step k).qpos_step T.tick T.c1 (T.x_range k).1 hq with ⟨hq', hdec⟩ | hr
    · rw [← T.ep_succ k] at hq'
      have : PhiN c t (x (k + 1)) (I (k + 1)) ≤ n * eta t := by
        push_cast at hphi; linarith
      obtain ⟨j, hj, hr⟩ := ih (k + 1) hq' this
      exact ⟨j + 1, by omega, by rw [show k + (j + 1) = k + 1 + j by omega]; exact hr⟩
    · rw [← T.ep_succ k] at hr
      exact ⟨1, by omega, hr⟩

theorem ATraj.settle_Qneg {c : Int} {t : ℚ} {x : Nat → Int} {I : Nat → ℚ} {ep : Nat → Int}
    (T : ATraj c t x I ep) (n : Nat) (k : Nat) (hq : Qneg c t (x k) (I k) (ep k))
    (hphi : PhiN (255 - c) t (255 - x k) (- I k) ≤ n * eta t) :
    ∃ j, j ≤ n ∧ ARest c t (x (k + j)) (I (k + j)) (ep (k + j)) := by
  obtain ⟨j, hj, hr⟩ := T.mirror.settle_Qpos n k hq hphi
  exact ⟨j, hj, hr.mirror⟩

/-! ### the binary64 run with constant curve value and constant tick is an abstract trajectory -/

/-- the closed-loop run with a constant curve value `c` and a constant tick period `dt` (ns). -/
def pidRunC (indef c dt now0 : Int) (s0 : PidSt × Int) (k : Nat) : PidSt × Int :=
  pidRun indef (fun _ => c) (fun k => now0 + k * dt) s0 k

theorem pidRunC_succ (indef c dt now0 : Int) (s0 : PidSt × Int) (k : Nat) :
    pidRunC indef c dt now0 s0 (k + 1)
      = pidClosed indef c (pidRunC indef c dt now0 s0 k) (now0 + ((k + 1 : Nat) : Int) * dt) := rfl

theorem pidRunC_runSt (indef : Int) {c dt now0 : Int} {s0 : PidSt × Int} (r0 : RunSt s0 now0)
    (hc0 : 0 ≤ c) (hc1 : c ≤ 255) (h0 : 50000000 ≤ dt) (h1 : dt ≤ 2000000000) (k : Nat) :
    RunSt (pidRunC indef c dt now0 s0 k) (now0 + k * dt) := by
  have := pidRun_runSt indef (fun _ => c) (fun k => now0 + k * dt) s0 (by simpa using r0)
    (fun _ => ⟨hc0, hc1⟩) (fun k => by
      have : now0 + ((k + 1 : Nat) : Int) * dt - (now0 + (k : Int) * dt) = dt := by push_cast; ring
      rw [this]; exact ⟨h0, h1⟩) k
  exact this

theorem pidRunC_traj (indef : Int) {c dt now0 : Int} {s0 : PidSt × Int} (r0 : RunSt s0 now0)
    (hc0 : 0 ≤ c) (hc1 : c ≤ 255) (h0 : 50000000 ≤ dt) (h1 : dt ≤ 2000000000) :
    ATraj c (secOf dt) (fun k => (pidRunC indef c dt now0 s0 k).2)
      (fun k => intOf (pidRunC indef c dt now0 s0 k).1)
      (fun k => errOf (pidRunC indef c dt now0 s0 k).1) := by
  have hr := pidRunC_runSt indef r0 hc0 hc1 h0 h1
  have hstep : ∀ k, _ := fun k =>
    run_step indef (hr k) hc0 hc1 (now := now0 + ((k + 1 : Nat) : Int) * dt)
      (by have : now0 + ((k + 1 : Nat) : Int) * dt - (now0 + (k : Int) * dt) = dt := by
            push_cast; ring
          rw [this]; exact h0)
      (by have : now0 + ((k + 1 : Nat) : Int) * dt - (now0 + (k : Int) * dt) = dt := by
            push_cast; ring
          rw [this]; exact h1)
  have hdt : ∀ k : Nat, now0 + ((k + 1 : Nat) : Int) * dt - (now0 + (k : Int) * dt) = dt := by
    intro k; push_cast; ring
  refine ⟨?_, ?_, (tickOk_of_seconds h0 h1).2.1, hc0, hc1, (hr 0).x0, (hr 0).x1⟩
  · intro k
    have := (hstep k).2.2.2
    rw [hdt k] at this
    exact this
  · intro k
    exact (hstep k).2.1

/-! ### the first cycle of a fresh loop -/

/-- a PID loop as `NewPidLoop(0.3, 0.02, 0.005)` creates it. -/
def pidFresh : PidSt := { p := ofRat (3 / 10), i := ofRat (1 / 50), d := ofRat (1 / 200) }

theorem pidFresh_first (indef : Int) {c x now : Int} (hc0 : 0 ≤ c) (hc1 : c ≤ 255) (hx0 : 0 ≤ x)
    (hx1 : x ≤ 255) :
    RunSt (pidClosed indef c (pidFresh, x) now) now ∧
    (pidClosed indef c (pidFresh, x) now).2 = x ∧
    intOf (pidClosed indef c (pidFresh, x) now).1 = 0 ∧
    errOf (pidClosed indef c (pidFresh, x) now).1 = c - x := by
  have hcx : |c| ≤ 2 ^ 53 := by rw [abs_le]; constructor <;> omega
  have hxx : |x| ≤ 2 ^ 53 := by rw [abs_le]; constructor <;> omega
  have hcxx : |c - x| ≤ 2 ^ 53 := by rw [abs_le]; constructor <;> omega
  have herr : (ofInt c - ofInt x : F64) = fin ((c - x : Int) : ℚ) := by
    rw [b_ofInt c hcx, b_ofInt x hxx, b_int_sub hcxx]
  have e : pidLoop pidFresh (ofInt c) (ofInt x) now =
      ({ pidFresh with error := fin ((c - x : Int) : ℚ), lastTime := some now }, F64.zero) := by
    unfold pidLoop pidFresh; simp only [herr]
  have hcyc : pidCycle indef pidFresh c x now
      = ({ pidFresh with error := fin ((c - x : Int) : ℚ), lastTime := some now }, x) := by
    unfold pidCycle
    rw [e]
    show (_, toInt indef (F64.round (coerce (ofInt x + F64.zero) (ofInt 0) (ofInt 255)))) = _
    rw [b_ofInt x hxx]
    have : (fin (x : ℚ) + F64.zero : F64) = fin (x : ℚ) := by
      unfold F64.zero; rw [b_add_fin, add_zero]; exact ofRat_intCast hxx
    rw [this, dl_tail_int indef x, clamp255_id hx0 hx1]
  have hcl : pidClosed indef c (pidFresh, x) now
      = ({ pidFresh with error := fin ((c - x : Int) : ℚ), lastTime := some now }, x) := by
    unfold pidClosed
    simp only [hcyc]
    rw [clamp255_id hx0 hx1, dl_rescale_id indef hx0 hx1]
  rw [hcl]
  have hI : intOf { pidFresh with error := fin ((c - x : Int) : ℚ), lastTime := some now } = 0 := rfl
  have hE : errOf { pidFresh with error := fin ((c - x : Int) : ℚ), lastTime := some now } = c - x := by
    unfold errOf; simp
  refine ⟨⟨⟨⟨rfl, rfl, rfl, ?_, ?_, rfl, ?_⟩, hx0, hx1, ?_⟩, ?_⟩, rfl, hI, hE⟩
  · rw [hE]
  · rw [hI]; rfl
  · rw [hI]; exact fl64_zero
  · rw [hE, abs_le]; constructor <;> omega
  · rw [hI]; refine ⟨by norm_num, ?_, ?_⟩ <;> intro h <;> norm_num at h

/-! ### run-level corollaries -/

theorem pidRunC_rest_forever (indef : Int) {c dt now0 : Int} {s0 : PidSt × Int} (r0 : RunSt s0 now0)
    (hc0 : 0 ≤ c) (hc1 : c ≤ 255) (h0 : 50000000 ≤ dt) (h1 : dt ≤ 2000000000) (k : Nat)
    (hr : ARest c (secOf dt) (pidRunC indef c dt now0 s0 k).2 (intOf (pidRunC indef c dt now0 s0 k).1)
      (errOf (pidRunC indef c dt now0 s0 k).1)) :
    ∀ m, k ≤ m → (pidRunC indef c dt now0 s0 m).2 = c ∧
      intOf (pidRunC indef c dt now0 s0 m).1 = intOf (pidRunC indef c dt now0 s0 k).1 := by
  have T := pidRunC_traj indef r0 hc0 hc1 h0 h1
  intro m hm
  obtain ⟨j, rfl⟩ : ∃ j, m = k + j := ⟨m - k, by omega⟩
  exact ((T.rest_forever hr) j).2

theorem pidRunC_settle_Q (indef : Int) {c dt now0 : Int} {s0 : PidSt × Int} (r0 : RunSt s0 now0)
    (hc0 : 0 ≤ c) (hc1 : c ≤ 255) (h0 : 50000000 ≤ dt) (h1 : dt ≤ 2000000000) (k n : Nat)
    (hq : (Qpos c (secOf dt) (pidRunC indef c dt now0 s0 k).2 (intOf (pidRunC indef c dt now0 s0 k).1)
            (errOf (pidRunC indef c dt now0 s0 k).1) ∧
          PhiN c (secOf dt) (pidRunC indef c dt now0 s0 k).2 (intOf (pidRunC indef c dt now0 s0 k).1)
            ≤ n * eta (secOf dt)) ∨
        (Qneg c (secOf dt) (pidRunC indef c dt now0 s0 k).2 (intOf (pidRunC indef c dt now0 s0 k).1)
            (errOf (pidRunC indef c dt now0 s0 k).1) ∧
          PhiN (255 - c) (secOf dt) (255 - (pidRunC indef c dt now0 s0 k).2)
            (-intOf (pidRunC indef c dt now0 s0 k).1) ≤ n * eta (secOf dt))) :
    ∀ m, k + n ≤ m → (pidRunC indef c dt now0 s0 m).2 = c := by
  have T := pidRunC_traj indef r0 hc0 hc1 h0 h1
  have key : ∃ j, j ≤ n ∧ ARest c (secOf dt) (pidRunC indef c dt now0 s0 (k + j)).2
      (intOf (pidRunC indef c dt now0 s0 (k + j)).1) (errOf (pidRunC indef c dt now0 s0 (k + j)).1) := by
    rcases hq with ⟨h, hp⟩ | ⟨h, hp⟩
    · exact T.settle_Qpos n k h hp
    · exact T.settle_Qneg n k h hp
  obtain ⟨j, hj, hr⟩ := key
  intro m hm
  exact (pidRunC_rest_forever indef r0 hc0 hc1 h0 h1 (k + j) hr m (by omega)).1

/-! ### (5) far from the curve value the request moves toward it -/

theorem AStep.far_up {c x ep x' : Int} {t I J : ℚ} (h : AStep c t x I ep x' J) (ht : TickOk t)
    (hc1 : c ≤ 255) (hx0 : 0 ≤ x) (hep : |ep| ≤ 255) (hfar : 175 ≤ c - x) (hI : 0 ≤ I) : x < x' := by
  have he : |((c - x : Int) : ℚ)| ≤ 255 := by
    have : |c - x| ≤ 255 := by rw [abs_le]; constructor <;> omega
    exact_mod_cast this
  have hepq : |(ep : ℚ)| ≤ 255 := by exact_mod_cast hep
  have hD := abs_le.mp (deriv_abs he hepq ht)
  have hfq : (175 : ℚ) ≤ ((c - x : Int) : ℚ) := by exact_mod_cast hfar
  have het : 0 ≤ ((c - x : Int) : ℚ) * t := mul_nonneg (by linarith) (by linarith [ht.t0])
  have := h.move_up 1 le_rfl hx0 (by omega) (by
    unfold uExact; rw [eps_val]; push_cast at hD het hfq ⊢; linarith)
  omega

theorem AStep.far_dn {c x ep x' : Int} {t I J : ℚ} (h : AStep c t x I ep x' J) (ht : TickOk t)
    (hc0 : 0 ≤ c) (hx1 : x ≤ 255) (hep : |ep| ≤ 255) (hfar : c - x ≤ -175) (hI : I ≤ 0) : x' < x := by
  have he : |((c - x : Int) : ℚ)| ≤ 255 := by
    have : |c - x| ≤ 255 := by rw [abs_le]; constructor <;> omega
    exact_mod_cast this
  have hepq : |(ep : ℚ)| ≤ 255 := by exact_mod_cast hep
  have hD := abs_le.mp (deriv_abs he hepq ht)
  have hfq : ((c - x : Int) : ℚ) ≤ -175 := by exact_mod_cast hfar
  have het : ((c - x : Int) : ℚ) * t ≤ 0 :=
    mul_nonpos_of_nonpos_of_nonneg (by linarith) (by linarith [ht.t0])
  have := h.move_dn 1 le_rfl hx1 (by omega) (by
    unfold uExact; rw [eps_val]; push_cast at hD het hfq ⊢; linarith)
  omega

end Fan2go
