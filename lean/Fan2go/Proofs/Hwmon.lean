/-
  Proofs about the hwmon discovery / binding model (`Fan2go/Model/Hwmon.lean`).
  Core Lean only.
-/
import Fan2go.Model.Hwmon
namespace Fan2go
namespace Hwmon

/-! ## `GetFans` / `GetTempSensors`: index = enumeration position among the accepted features -/

/-- channels of the features `GetFans` accepts, in feature order -/
def fanChannels (fs : List Feature) : List Int := fs.filterMap fanChannel?

/-- fans numbered `n+1, n+2, ...` on the given channels -/
def mkFans (path : String) : Nat → List Int → List FanDev
  | _, [] => []
  | n, ch :: rest =>
    { index := (n : Int) + 1, rpmChannel := ch, pwmChannel := ch, sysfsPath := path } :: mkFans path (n + 1) rest

/-- `Name`s of the input sub-features of the features `GetTempSensors` accepts, in feature order -/
def tempInputs (fs : List Feature) : List String :=
  fs.filterMap fun ft => if ft.kind = .temp ∧ ft.hasInput = true then some ft.inputName else none

def mkTemps (path : String) : Nat → List String → List (Int × String)
  | _, [] => []
  | n, nm :: rest => ((n : Int) + 1, pathJoin path nm) :: mkTemps path (n + 1) rest

theorem getFansLoop_eq (path : String) (fs : List Feature) (acc : List FanDev) :
    getFansLoop path fs acc = acc ++ mkFans path acc.length (fanChannels fs) := by
  induction fs generalizing acc with
  | nil => simp [getFansLoop, fanChannels, mkFans]
  | cons ft rest ih =>
    unfold getFansLoop
    by_cases hk : ft.kind = .fan
    · by_cases hi : ft.hasInput = true
      · cases hs : scanFanChannel ft.name with
        | none =>
          have : fanChannel? ft = none := by simp [fanChannel?, hk, hi, hs]
          simp [hk, hi, ih, fanChannels, this]
        | some ch =>
          have : fanChannel? ft = some ch := by simp [fanChannel?, hk, hi, hs]
          simp [hk, hi, ih, fanChannels, this, mkFans]
      · have hi' : ft.hasInput = false := by simpa using hi
        have : fanChannel? ft = none := by simp [fanChannel?, hi']
        simp [hk, hi', ih, fanChannels, this]
    · have : fanChannel? ft = none := by simp [fanChannel?, hk]
      simp [hk, ih, fanChannels, this]

/-- `GetFans`: the k-th accepted feature (in libsensors feature order) becomes the fan with
    `Index = k`; a feature whose name does not parse does not consume an index. -/
theorem getFans_eq (c : RawChip) : getFans c = mkFans c.path 0 (fanChannels c.features) := by
  simp [getFans, getFansLoop_eq]

theorem getTempsLoop_eq (path : String) (fs : List Feature) (n : Nat) (acc : List (Int × String)) :
    getTempsLoop path fs (n : Int) acc = acc ++ mkTemps path n (tempInputs fs) := by
  induction fs generalizing n acc with
  | nil => simp [getTempsLoop, tempInputs, mkTemps]
  | cons ft rest ih =>
    unfold getTempsLoop
    by_cases hk : ft.kind = .temp
    · by_cases hi : ft.hasInput = true
      · have h := ih (n + 1) (acc ++ [((n : Int) + 1, pathJoin path ft.inputName)])
        have hcast : ((n + 1 : Nat) : Int) = (n : Int) + 1 := by omega
        rw [hcast] at h
        simp [hk, hi, h, tempInputs, mkTemps]
      · have hi' : ft.hasInput = false := by simpa using hi
        simp [hk, hi', ih, tempInputs]
    · simp [hk, ih, tempInputs]

theorem getTemps_eq (c : RawChip) : getTemps c = mkTemps c.path 0 (tempInputs c.features) := by
  have := getTempsLoop_eq c.path c.features 0 []
  simpa [getTemps] using this

theorem mem_mkFans {path : String} {n : Nat} {chs : List Int} {f : FanDev} (h : f ∈ mkFans path n chs) :
    f.sysfsPath = path ∧ f.pwmChannel = f.rpmChannel ∧ f.index > n := by
  induction chs generalizing n with
  | nil => simp [mkFans] at h
  | cons ch rest ih =>
    simp only [mkFans, List.mem_cons] at h
    rcases h with h | h
    · subst h; refine ⟨rfl, rfl, ?_⟩; show (n : Int) + 1 > n; omega
    · obtain ⟨a, b, c⟩ := ih h
      refine ⟨a, b, ?_⟩
      have : ((n + 1 : Nat) : Int) = (n : Int) + 1 := by omega
      omega

theorem lookupTemp_mkTemps (path : String) (n : Nat) (names : List String) (i : Nat) :
    lookupTemp (mkTemps path n names) ((n : Int) + (i : Int) + 1) = (names[i]?).map (pathJoin path) := by
  induction names generalizing n i with
  | nil => simp [mkTemps, lookupTemp]
  | cons nm rest ih =>
    cases i with
    | zero => simp [mkTemps, lookupTemp]
    | succ i =>
      have hne : ¬ ((n : Int) + 1 = (n : Int) + ((i + 1 : Nat) : Int) + 1) := by omega
      have h := ih (n + 1) i
      have hcast : (((n + 1 : Nat) : Int) + (i : Int) + 1) = (n : Int) + ((i + 1 : Nat) : Int) + 1 := by omega
      rw [hcast] at h
      simp only [mkTemps, lookupTemp]
      rw [if_neg hne]
      simpa using h

theorem lookupTemp_mkTemps_low (path : String) (n : Nat) (names : List String) (idx : Int)
    (h : idx ≤ n) : lookupTemp (mkTemps path n names) idx = none := by
  induction names generalizing n with
  | nil => simp [mkTemps, lookupTemp]
  | cons nm rest ih =>
    have hne : ¬ ((n : Int) + 1 = idx) := by omega
    have := ih (n + 1) (by omega)
    simp [mkTemps, lookupTemp, hne, this]

/-- `GetTempSensors`: key `i+1` of the `Sensors` map is the `i`-th accepted temperature feature. -/
theorem lookupTemp_getTemps (c : RawChip) (i : Nat) :
    lookupTemp (getTemps c) ((i : Int) + 1) = ((tempInputs c.features)[i]?).map (pathJoin c.path) := by
  have := lookupTemp_mkTemps c.path 0 (tempInputs c.features) i
  simpa [getTemps_eq] using this

/-- there is no key `≤ 0` in the `Sensors` map -/
theorem lookupTemp_getTemps_nonpos (c : RawChip) (idx : Int) (h : idx ≤ 0) :
    lookupTemp (getTemps c) idx = none := by
  rw [getTemps_eq]; exact lookupTemp_mkTemps_low _ 0 _ _ (by simpa using h)

/-! ## well-formedness of what `GetChips` returns -/

/-- every fan of the controller lives in the controller's directory and has pwm channel = rpm channel -/
def Chip.WF (c : Chip) : Prop := ∀ f ∈ c.fans, f.sysfsPath = c.path ∧ f.pwmChannel = f.rpmChannel

theorem mkChip_wf (rc : RawChip) : (mkChip rc).WF := by
  intro f hf
  simp only [mkChip, getFans_eq] at hf
  obtain ⟨a, b, _⟩ := mem_mkFans hf
  exact ⟨a, b⟩

theorem mem_getChips {raws : List RawChip} {c : Chip} (h : c ∈ getChips raws) :
    ∃ rc ∈ raws, c = mkChip rc := by
  simp only [getChips, List.mem_filterMap] at h
  obtain ⟨rc, hrc, hc⟩ := h
  refine ⟨rc, hrc, ?_⟩
  split at hc
  · cases hc
  · cases hc; rfl

theorem getChips_wf {raws : List RawChip} {c : Chip} (h : c ∈ getChips raws) : c.WF := by
  obtain ⟨rc, _, rfl⟩ := mem_getChips h
  exact mkChip_wf rc

theorem mkChip_mem_getChips {raws : List RawChip} {rc : RawChip} (h : rc ∈ raws)
    (hne : (getFans rc) ≠ [] ∨ (getTemps rc) ≠ []) : mkChip rc ∈ getChips raws := by
  simp only [getChips, List.mem_filterMap]
  refine ⟨rc, h, ?_⟩
  have : ¬ ((mkChip rc).fans.length ≤ 0 ∧ (mkChip rc).temps.length ≤ 0) := by
    intro ⟨a, b⟩
    have ha : (mkChip rc).fans = [] := List.eq_nil_of_length_eq_zero (by omega)
    have hb : (mkChip rc).temps = [] := List.eq_nil_of_length_eq_zero (by omega)
    rcases hne with h | h
    · exact h ha
    · exact h hb
  show (if _ then none else some (mkChip rc)) = _
  rw [if_neg this]

/-! ## fan binding -/

theorem bindFanDevs_cons (sel : FanSel) (f : FanDev) (fs : List FanDev) :
    bindFanDevs sel (f :: fs) = if fanOk sel f = true then some (mkBinding sel f) else bindFanDevs sel fs := by
  rw [bindFanDevs]
  by_cases h1 : sel.index > 0 ∧ f.index ≠ sel.index
  · have : fanOk sel f = false := by
      obtain ⟨a, b⟩ := h1
      simp [fanOk, a, b]
    simp [h1, this]
  · by_cases h2 : sel.rpmChannel > 0 ∧ f.rpmChannel ≠ sel.rpmChannel
    · have : fanOk sel f = false := by
        obtain ⟨a, b⟩ := h2
        simp [fanOk, a, b]
      simp [h1, h2, this]
    · have : fanOk sel f = true := by
        simp only [fanOk, Bool.and_eq_true, Bool.not_eq_true', Bool.and_eq_false_iff,
          decide_eq_false_iff_not]
        constructor
        · by_cases a : sel.index > 0
          · right; intro b; exact h1 ⟨a, b⟩
          · left; exact a
        · by_cases a : sel.rpmChannel > 0
          · right; intro b; exact h2 ⟨a, b⟩
          · left; exact a
      simp [h1, h2, this]

theorem bindFanDevs_eq_find (sel : FanSel) (fs : List FanDev) :
    bindFanDevs sel fs = (fs.find? (fanOk sel)).map (mkBinding sel) := by
  induction fs with
  | nil => simp [bindFanDevs]
  | cons f fs ih =>
    rw [bindFanDevs_cons, List.find?_cons]
    by_cases h : fanOk sel f = true
    · simp [h]
    · have h' : fanOk sel f = false := by simpa using h
      simp [h', ih]

theorem bindFanDevs_none_iff (sel : FanSel) (fs : List FanDev) :
    bindFanDevs sel fs = none ↔ ∀ f ∈ fs, fanOk sel f = false := by
  rw [bindFanDevs_eq_find]
  simp [List.find?_eq_none]

theorem bindFanDevs_some {sel : FanSel} {fs : List FanDev} {b : FanBinding}
    (h : bindFanDevs sel fs = some b) : ∃ f ∈ fs, fanOk sel f = true ∧ b = mkBinding sel f := by
  rw [bindFanDevs_eq_find] at h
  cases hf : fs.find? (fanOk sel) with
  | none => simp [hf] at h
  | some f =>
    simp [hf] at h
    exact ⟨f, List.mem_of_find?_eq_some hf, List.find?_some hf, h.symm⟩

/-- the device is unique among the fans of the controller: it is the one bound -/
theorem bindFanDevs_unique {sel : FanSel} {fs : List FanDev} {f : FanDev}
    (hf : f ∈ fs) (hok : fanOk sel f = true) (huniq : ∀ f' ∈ fs, fanOk sel f' = true → f' = f) :
    bindFanDevs sel fs = some (mkBinding sel f) := by
  cases h : bindFanDevs sel fs with
  | none =>
    have := (bindFanDevs_none_iff sel fs).1 h f hf
    simp [hok] at this
  | some b =>
    obtain ⟨f', hf', hok', rfl⟩ := bindFanDevs_some h
    rw [huniq f' hf' hok']

theorem bindFan_ne_panic (m : String → String → Bool) (chips : List Chip) (sel : FanSel) (s : String) :
    bindFan m chips sel ≠ .panic s := by
  induction chips with
  | nil => simp [bindFan]
  | cons c cs ih =>
    unfold bindFan
    split
    · split
      · simp
      · exact ih
    · exact ih

theorem bindFan_err_of_no_device {m : String → String → Bool} {chips : List Chip} {sel : FanSel}
    (h : ∀ c ∈ chips, m sel.platform c.platform = true → ∀ f ∈ c.fans, fanOk sel f = false) :
    bindFan m chips sel = .err "no-hwmon-fan-matched" := by
  induction chips with
  | nil => simp [bindFan]
  | cons c cs ih =>
    have ih' := ih (fun c' hc' => h c' (List.mem_cons_of_mem _ hc'))
    unfold bindFan
    by_cases hm : m sel.platform c.platform = true
    · have : bindFanDevs sel c.fans = none :=
        (bindFanDevs_none_iff sel c.fans).2 (h c (List.mem_cons_self) hm)
      simp [hm, this, ih']
    · simp [hm, ih']

/-- whatever is bound is a device of a matching controller that passes the selector -/
theorem bindFan_sound {m : String → String → Bool} {chips : List Chip} {sel : FanSel} {b : FanBinding}
    (h : bindFan m chips sel = .ok b) :
    ∃ c ∈ chips, m sel.platform c.platform = true ∧ ∃ f ∈ c.fans, fanOk sel f = true ∧ b = mkBinding sel f := by
  induction chips with
  | nil => simp [bindFan] at h
  | cons c cs ih =>
    unfold bindFan at h
    by_cases hm : m sel.platform c.platform = true
    · simp only [hm, if_true] at h
      cases hb : bindFanDevs sel c.fans with
      | none =>
        simp only [hb] at h
        obtain ⟨c', hc', r⟩ := ih h
        exact ⟨c', List.mem_cons_of_mem _ hc', r⟩
      | some b' =>
        simp only [hb] at h
        cases h
        obtain ⟨f, hf, hok, rfl⟩ := bindFanDevs_some hb
        exact ⟨c, List.mem_cons_self, hm, f, hf, hok, rfl⟩
    · simp only [hm] at h
      obtain ⟨c', hc', r⟩ := ih h
      exact ⟨c', List.mem_cons_of_mem _ hc', r⟩

/-- non-matching controllers are irrelevant -/
theorem bindFan_filter (m : String → String → Bool) (chips : List Chip) (sel : FanSel) :
    bindFan m chips sel = bindFan m (chips.filter fun c => m sel.platform c.platform) sel := by
  induction chips with
  | nil => rfl
  | cons c cs ih =>
    by_cases hm : m sel.platform c.platform = true
    · rw [show (c :: cs).filter (fun c => m sel.platform c.platform) = c :: cs.filter (fun c => m sel.platform c.platform) from by simp [hm]]
      unfold bindFan
      simp only [hm, if_true]
      split
      · rfl
      · exact ih
    · rw [show (c :: cs).filter (fun c => m sel.platform c.platform) = cs.filter (fun c => m sel.platform c.platform) from by simp [hm]]
      conv => lhs; unfold bindFan
      simp only [hm]
      exact ih

/-- exactly one controller matches (possibly listed several times): the result is decided by it alone -/
theorem bindFan_of_unique_chip {m : String → String → Bool} {chips : List Chip} {sel : FanSel} {c : Chip}
    (hc : c ∈ chips) (hm : m sel.platform c.platform = true)
    (huniq : ∀ c' ∈ chips, m sel.platform c'.platform = true → c' = c) :
    bindFan m chips sel =
      match bindFanDevs sel c.fans with
      | some b => .ok b
      | none => .err "no-hwmon-fan-matched" := by
  induction chips with
  | nil => cases hc
  | cons c' cs ih =>
    unfold bindFan
    by_cases hm' : m sel.platform c'.platform = true
    · have : c' = c := huniq c' List.mem_cons_self hm'
      subst this
      simp only [hm', if_true]
      cases hb : bindFanDevs sel c'.fans with
      | some b => rfl
      | none =>
        simp only
        apply bindFan_err_of_no_device
        intro c'' hc'' hm''
        have : c'' = c' := huniq c'' (List.mem_cons_of_mem _ hc'') hm''
        subst this
        exact (bindFanDevs_none_iff sel c''.fans).1 hb
    · simp only [hm']
      have hne : c ≠ c' := by
        intro e; subst e; exact hm' hm
      have hc' : c ∈ cs := by
        rcases List.mem_cons.1 hc with h | h
        · exact absurd h hne
        · exact h
      exact ih hc' (fun c'' hc'' => huniq c'' (List.mem_cons_of_mem _ hc''))

/-- at most one controller matches: enumeration order is irrelevant -/
theorem bindFan_perm {m : String → String → Bool} {chips chips' : List Chip} {sel : FanSel}
    (hp : chips.Perm chips')
    (h1 : (chips.filter fun c => m sel.platform c.platform).length ≤ 1) :
    bindFan m chips sel = bindFan m chips' sel := by
  rw [bindFan_filter m chips, bindFan_filter m chips']
  have hpf := hp.filter (fun c => m sel.platform c.platform)
  generalize chips.filter (fun c => m sel.platform c.platform) = l at hpf h1
  generalize chips'.filter (fun c => m sel.platform c.platform) = l' at hpf
  match l, h1 with
  | [], _ => rw [List.nil_perm.1 hpf]
  | [c], _ => rw [List.singleton_perm.1 hpf]
  | _ :: _ :: _, h => simp at h

/-- binding by index over numbered fans: the `i`-th one -/
theorem bindFanDevs_mkFans_index (sel : FanSel) (path : String) (n i : Nat) (chs : List Int)
    (hidx : sel.index = (n : Int) + (i : Int) + 1) (hrpm : sel.rpmChannel ≤ 0) :
    bindFanDevs sel (mkFans path n chs) =
      (chs[i]?).map fun ch =>
        mkBinding sel { index := sel.index, rpmChannel := ch, pwmChannel := ch, sysfsPath := path } := by
  induction chs generalizing n i with
  | nil => simp [mkFans, bindFanDevs]
  | cons ch rest ih =>
    rw [mkFans, bindFanDevs_cons]
    cases i with
    | zero =>
      have hi : sel.index = (n : Int) + 1 := by simpa using hidx
      have hr : ¬ sel.rpmChannel > 0 := by omega
      have : fanOk sel { index := (n : Int) + 1, rpmChannel := ch, pwmChannel := ch, sysfsPath := path } = true := by
        simp [fanOk, hi, hr]
      simp [this, hi]
    | succ i =>
      have hpos : sel.index > 0 := by omega
      have hne : (n : Int) + 1 ≠ sel.index := by omega
      have : fanOk sel { index := (n : Int) + 1, rpmChannel := ch, pwmChannel := ch, sysfsPath := path } = false := by
        simp [fanOk, hpos, hne]
      have h := ih (n + 1) i (by omega)
      simp [this, h]

/-- binding by rpm channel over numbered fans: the first fan on that channel -/
theorem bindFanDevs_mkFans_channel (sel : FanSel) (path : String) (n i : Nat) (chs : List Int)
    (hidx : sel.index ≤ 0) (hrpm : sel.rpmChannel > 0)
    (hch : chs[i]? = some sel.rpmChannel) (hfirst : ∀ j, j < i → chs[j]? ≠ some sel.rpmChannel) :
    bindFanDevs sel (mkFans path n chs) =
      some (mkBinding sel { index := (n : Int) + (i : Int) + 1, rpmChannel := sel.rpmChannel,
                            pwmChannel := sel.rpmChannel, sysfsPath := path }) := by
  induction chs generalizing n i with
  | nil => simp at hch
  | cons ch rest ih =>
    rw [mkFans, bindFanDevs_cons]
    have hi : ¬ sel.index > 0 := by omega
    cases i with
    | zero =>
      have hc : ch = sel.rpmChannel := by simpa using hch
      subst hc
      have : fanOk sel { index := (n : Int) + 1, rpmChannel := sel.rpmChannel, pwmChannel := sel.rpmChannel, sysfsPath := path } = true := by
        simp [fanOk, hi]
      simp [this]
    | succ i =>
      have hne : ch ≠ sel.rpmChannel := by
        have := hfirst 0 (by omega)
        simpa using this
      have : fanOk sel { index := (n : Int) + 1, rpmChannel := ch, pwmChannel := ch, sysfsPath := path } = false := by
        simp [fanOk, hrpm, hne]
      have h := ih (n + 1) i (by simpa using hch) (fun j hj => by
        have := hfirst (j + 1) (by omega)
        simpa using this)
      have hcast : ((n + 1 : Nat) : Int) + (i : Int) + 1 = (n : Int) + ((i + 1 : Nat) : Int) + 1 := by omega
      rw [hcast] at h
      simp [this, h]

/-! ## sensor binding

  (Before /repo commit 218c45c a matching controller without the key made the loop panic; the
  lemmas below are about the fixed loop, which skips such a controller.) -/

/-- the controllers the loop reacts to: platform matches AND the key is present -/
def sensorHit (m : String → String → Bool) (sel : SensorSel) (c : Chip) : Bool :=
  m sel.platform c.platform && (lookupTemp c.temps sel.index).isSome

theorem sensorHit_iff {m : String → String → Bool} {sel : SensorSel} {c : Chip} :
    sensorHit m sel c = true ↔
      m sel.platform c.platform = true ∧ ∃ p, lookupTemp c.temps sel.index = some p := by
  simp [sensorHit, Option.isSome_iff_exists]

theorem bindSensorLoop_filter (m : String → String → Bool) (sel : SensorSel) (chips : List Chip)
    (acc : Bool × String) :
    bindSensorLoop m sel chips acc = bindSensorLoop m sel (chips.filter (sensorHit m sel)) acc := by
  induction chips generalizing acc with
  | nil => rfl
  | cons c cs ih =>
    by_cases hm : m sel.platform c.platform = true
    · cases hl : lookupTemp c.temps sel.index with
      | none =>
        have hh : sensorHit m sel c = false := by simp [sensorHit, hl]
        rw [show (c :: cs).filter (sensorHit m sel) = cs.filter (sensorHit m sel) from by simp [hh]]
        conv => lhs; rw [bindSensorLoop]
        simp only [hm, if_true, hl]
        exact ih _
      | some p =>
        have hh : sensorHit m sel c = true := by simp [sensorHit, hl, hm]
        rw [show (c :: cs).filter (sensorHit m sel) = c :: cs.filter (sensorHit m sel) from by simp [hh]]
        rw [bindSensorLoop, bindSensorLoop]
        simp only [hm, if_true, hl]
        exact ih _
    · have hh : sensorHit m sel c = false := by simp [sensorHit, hm]
      rw [show (c :: cs).filter (sensorHit m sel) = cs.filter (sensorHit m sel) from by simp [hh]]
      conv => lhs; rw [bindSensorLoop]
      simp only [hm]
      exact ih _

/-- a list of hits: the LAST one wins -/
theorem bindSensorLoop_all_hit {m : String → String → Bool} {sel : SensorSel} {l : List Chip}
    (acc : Bool × String) (h : ∀ c ∈ l, sensorHit m sel c = true) :
    bindSensorLoop m sel l acc =
      .ok (match l.getLast? with
           | none => acc
           | some c => (true, (lookupTemp c.temps sel.index).getD "")) := by
  induction l generalizing acc with
  | nil => rfl
  | cons c cs ih =>
    have ih' := fun acc => ih acc (fun c' hc' => h c' (List.mem_cons_of_mem _ hc'))
    obtain ⟨hm, p, hl⟩ := sensorHit_iff.1 (h c List.mem_cons_self)
    rw [bindSensorLoop]
    simp only [hm, if_true, hl, ih']
    cases cs with
    | nil => simp [hl]
    | cons c' l =>
      rw [List.getLast?_cons_cons]
      cases hg : (c' :: l).getLast? with
      | none => simp at hg
      | some x => rfl

/-- closed form of the loop: no panic, no error; the last hit (if any) decides -/
theorem bindSensorLoop_eq (m : String → String → Bool) (sel : SensorSel) (chips : List Chip)
    (acc : Bool × String) :
    bindSensorLoop m sel chips acc =
      .ok (match (chips.filter (sensorHit m sel)).getLast? with
           | none => acc
           | some c => (true, (lookupTemp c.temps sel.index).getD "")) := by
  rw [bindSensorLoop_filter]
  exact bindSensorLoop_all_hit acc (fun c hc => (List.mem_filter.1 hc).2)

/-- closed form of `bindSensor` -/
theorem bindSensor_eq (m : String → String → Bool) (sel : SensorSel) (chips : List Chip) :
    bindSensor m chips sel =
      match (chips.filter (sensorHit m sel)).getLast? with
      | none => .err "no-hwmon-device"
      | some c => .ok ((lookupTemp c.temps sel.index).getD "") := by
  unfold bindSensor
  rw [bindSensorLoop_eq]
  cases (chips.filter (sensorHit m sel)).getLast? <;> rfl

theorem bindSensor_ne_panic (m : String → String → Bool) (chips : List Chip) (sel : SensorSel) (s : String) :
    bindSensor m chips sel ≠ .panic s := by
  rw [bindSensor_eq]
  cases (chips.filter (sensorHit m sel)).getLast? <;> simp

/-- no matching controller has the key (in particular: no controller matches): an error -/
theorem bindSensor_err_of_no_hit {m : String → String → Bool} {sel : SensorSel} {chips : List Chip}
    (h : ∀ c ∈ chips, m sel.platform c.platform = true → lookupTemp c.temps sel.index = none) :
    bindSensor m chips sel = .err "no-hwmon-device" := by
  have : chips.filter (sensorHit m sel) = [] := by
    rw [List.filter_eq_nil_iff]
    intro c hc hh
    obtain ⟨hm, p, hp⟩ := sensorHit_iff.1 hh
    rw [h c hc hm] at hp; cases hp
  rw [bindSensor_eq, this]; rfl

theorem bindSensor_err_of_no_match {m : String → String → Bool} {sel : SensorSel} {chips : List Chip}
    (h : ∀ c ∈ chips, m sel.platform c.platform = false) :
    bindSensor m chips sel = .err "no-hwmon-device" :=
  bindSensor_err_of_no_hit (fun c hc hm => by rw [h c hc] at hm; cases hm)

/-- whatever is bound is the input of a matching controller that has the key -/
theorem bindSensor_sound {m : String → String → Bool} {sel : SensorSel} {chips : List Chip} {p : String}
    (h : bindSensor m chips sel = .ok p) :
    ∃ c ∈ chips, m sel.platform c.platform = true ∧ lookupTemp c.temps sel.index = some p := by
  rw [bindSensor_eq] at h
  cases hl : (chips.filter (sensorHit m sel)).getLast? with
  | none => rw [hl] at h; cases h
  | some c =>
    rw [hl] at h
    obtain ⟨hc, hh⟩ := List.mem_filter.1 (List.mem_of_getLast? hl)
    obtain ⟨hm, q, hq⟩ := sensorHit_iff.1 hh
    refine ⟨c, hc, hm, ?_⟩
    simp only [hq, Option.getD_some] at h
    cases h
    exact hq

/-- some matching controller has the key: `.ok`, with the input of such a controller (the last
    one in enumeration order) -/
theorem bindSensor_ok_of_some_present {m : String → String → Bool} {chips : List Chip} {sel : SensorSel}
    (hex : ∃ c ∈ chips, m sel.platform c.platform = true ∧ (lookupTemp c.temps sel.index).isSome = true) :
    ∃ c ∈ chips, m sel.platform c.platform = true ∧ ∃ p, lookupTemp c.temps sel.index = some p ∧
      bindSensor m chips sel = .ok p := by
  rw [bindSensor_eq]
  cases hl : (chips.filter (sensorHit m sel)).getLast? with
  | none =>
    rw [List.getLast?_eq_none_iff] at hl
    obtain ⟨c, hc, hm, hs⟩ := hex
    have : c ∈ chips.filter (sensorHit m sel) :=
      List.mem_filter.2 ⟨hc, by simp [sensorHit, hm, hs]⟩
    rw [hl] at this; cases this
  | some c =>
    obtain ⟨hc, hh⟩ := List.mem_filter.1 (List.mem_of_getLast? hl)
    obtain ⟨hm, q, hq⟩ := sensorHit_iff.1 hh
    exact ⟨c, hc, hm, q, hq, by simp [hq]⟩

/-- exactly one matching controller HAS the key (other matching controllers, e.g. fan-only
    ones, are skipped): the sensor reads that controller's input -/
theorem bindSensor_of_unique_hit {m : String → String → Bool} {chips : List Chip} {sel : SensorSel}
    {c : Chip} {p : String}
    (hc : c ∈ chips) (hm : m sel.platform c.platform = true)
    (hp : lookupTemp c.temps sel.index = some p)
    (huniq : ∀ c' ∈ chips, m sel.platform c'.platform = true →
      (lookupTemp c'.temps sel.index).isSome = true → c' = c) :
    bindSensor m chips sel = .ok p := by
  obtain ⟨c', hc', hm', q, hq, hb⟩ :=
    bindSensor_ok_of_some_present (m := m) (chips := chips) (sel := sel) ⟨c, hc, hm, by simp [hp]⟩
  have : c' = c := huniq c' hc' hm' (by simp [hq])
  subst this
  rw [hb]
  have : some q = some p := by rw [← hq, hp]
  cases this
  rfl

/-- exactly one controller matches and it has the key -/
theorem bindSensor_of_unique_chip {m : String → String → Bool} {chips : List Chip} {sel : SensorSel}
    {c : Chip} {p : String}
    (hc : c ∈ chips) (hm : m sel.platform c.platform = true)
    (huniq : ∀ c' ∈ chips, m sel.platform c'.platform = true → c' = c)
    (hp : lookupTemp c.temps sel.index = some p) :
    bindSensor m chips sel = .ok p :=
  bindSensor_of_unique_hit hc hm hp (fun c' hc' hm' _ => huniq c' hc' hm')

/-- at most one matching controller has the key: enumeration order is irrelevant -/
theorem bindSensor_perm_hit {m : String → String → Bool} {chips chips' : List Chip} {sel : SensorSel}
    (hp : chips.Perm chips') (h1 : (chips.filter (sensorHit m sel)).length ≤ 1) :
    bindSensor m chips sel = bindSensor m chips' sel := by
  rw [bindSensor_eq, bindSensor_eq]
  have hpf := hp.filter (sensorHit m sel)
  generalize chips.filter (sensorHit m sel) = l at hpf h1
  generalize chips'.filter (sensorHit m sel) = l' at hpf
  match l, h1 with
  | [], _ => rw [List.nil_perm.1 hpf]
  | [c], _ => rw [List.singleton_perm.1 hpf]
  | _ :: _ :: _, h => simp at h

/-- at most one controller matches: enumeration order is irrelevant -/
theorem bindSensor_perm {m : String → String → Bool} {chips chips' : List Chip} {sel : SensorSel}
    (hp : chips.Perm chips')
    (h1 : (chips.filter fun c => m sel.platform c.platform).length ≤ 1) :
    bindSensor m chips sel = bindSensor m chips' sel := by
  apply bindSensor_perm_hit hp
  have : chips.filter (sensorHit m sel) =
      (chips.filter fun c => m sel.platform c.platform).filter
        (fun c => (lookupTemp c.temps sel.index).isSome) := by
    rw [List.filter_filter]
    congr 1
    funext c
    simp [sensorHit, Bool.and_comm]
  rw [this]
  exact Nat.le_trans (List.length_filter_le _ _) h1

/-! ## several entries in one call (`bindEntriesLoop`, `bindSensors`, `bindFans`) -/

/-- the text of the error for position `i` -/
def errAt (tag : String) (i : Nat) : String := s!"{tag}@{i}"

theorem errAt_sensor (n : Nat) : errAt "no-hwmon-device" n = s!"no-hwmon-device@{n}" := by
  have : "no-hwmon-device" ++ "@" = "no-hwmon-device@" := by decide
  show ("no-hwmon-device" ++ "@") ++ toString n = "no-hwmon-device@" ++ toString n
  rw [this]

theorem errAt_fan (n : Nat) : errAt "no-hwmon-fan-matched" n = s!"no-hwmon-fan-matched@{n}" := by
  have : "no-hwmon-fan-matched" ++ "@" = "no-hwmon-fan-matched@" := by decide
  show ("no-hwmon-fan-matched" ++ "@") ++ toString n = "no-hwmon-fan-matched@" ++ toString n
  rw [this]

/-- success: the loop appends to `acc`, in order, the result of every entry bound ON ITS OWN -/
theorem bindEntriesLoop_ok_iff {σ β : Type} (f : σ → Res β) (tag : String) (i : Nat) (sels : List σ)
    (acc out : List β) :
    bindEntriesLoop f tag i sels acc = .ok out ↔ ∃ bs, out = acc ++ bs ∧ sels.map f = bs.map Res.ok := by
  induction sels generalizing i acc with
  | nil =>
    simp only [bindEntriesLoop, Res.ok.injEq, List.map_nil]
    constructor
    · intro h; exact ⟨[], by simp [h], rfl⟩
    · rintro ⟨bs, rfl, h⟩
      cases bs with
      | nil => simp
      | cons b bs => simp at h
  | cons sel rest ih =>
    unfold bindEntriesLoop
    cases hf : f sel with
    | ok b =>
      simp only [ih, List.map_cons, hf]
      constructor
      · rintro ⟨bs, rfl, h⟩
        exact ⟨b :: bs, by simp, by simp [h]⟩
      · rintro ⟨bs, rfl, h⟩
        cases bs with
        | nil => simp at h
        | cons b' bs =>
          simp only [List.map_cons, List.cons.injEq, Res.ok.injEq] at h
          obtain ⟨rfl, h⟩ := h
          exact ⟨bs, by simp, h⟩
    | err e =>
      simp only [List.map_cons, hf]
      constructor
      · intro h; cases h
      · rintro ⟨bs, _, h⟩
        cases bs with
        | nil => simp at h
        | cons b' bs => simp at h
    | panic s =>
      simp only [List.map_cons, hf]
      constructor
      · intro h; cases h
      · rintro ⟨bs, _, h⟩
        cases bs with
        | nil => simp at h
        | cons b' bs => simp at h

/-- a panic of the loop is a panic of the binding of one entry -/
theorem bindEntriesLoop_panic {σ β : Type} {f : σ → Res β} {tag : String} {i : Nat} {sels : List σ}
    {acc : List β} {s : String} (h : bindEntriesLoop f tag i sels acc = .panic s) :
    ∃ sel ∈ sels, f sel = .panic s := by
  induction sels generalizing i acc with
  | nil => simp [bindEntriesLoop] at h
  | cons sel rest ih =>
    unfold bindEntriesLoop at h
    cases hf : f sel with
    | ok b =>
      rw [hf] at h
      obtain ⟨sel', hm, hp⟩ := ih h
      exact ⟨sel', List.mem_cons_of_mem _ hm, hp⟩
    | err e => rw [hf] at h; cases h
    | panic s' =>
      rw [hf] at h
      cases h
      exact ⟨sel, List.mem_cons_self, hf⟩

/-- failure: the error names the FIRST entry that cannot be bound; all entries before it can -/
theorem bindEntriesLoop_err_iff {σ β : Type} (f : σ → Res β) (tag : String) (i : Nat) (sels : List σ)
    (acc : List β) (e : String) :
    bindEntriesLoop f tag i sels acc = .err e ↔
      ∃ pre sel post, sels = pre ++ sel :: post ∧ (∀ s ∈ pre, ∃ b, f s = .ok b) ∧
        (∃ e', f sel = .err e') ∧ e = errAt tag (i + pre.length) := by
  induction sels generalizing i acc with
  | nil => simp [bindEntriesLoop]
  | cons sel rest ih =>
    unfold bindEntriesLoop
    cases hf : f sel with
    | ok b =>
      simp only [ih]
      constructor
      · rintro ⟨pre, s, post, rfl, hpre, hs, rfl⟩
        refine ⟨sel :: pre, s, post, rfl, ?_, hs, ?_⟩
        · intro x hx
          rcases List.mem_cons.1 hx with rfl | hx
          · exact ⟨b, hf⟩
          · exact hpre x hx
        · simp only [List.length_cons]
          congr 1; omega
      · rintro ⟨pre, s, post, heq, hpre, hs, rfl⟩
        cases pre with
        | nil =>
          simp only [List.nil_append, List.cons.injEq] at heq
          obtain ⟨rfl, _⟩ := heq
          obtain ⟨e', he'⟩ := hs
          rw [hf] at he'; cases he'
        | cons x pre =>
          simp only [List.cons_append, List.cons.injEq] at heq
          obtain ⟨rfl, rfl⟩ := heq
          refine ⟨pre, s, post, rfl, fun y hy => hpre y (List.mem_cons_of_mem _ hy), hs, ?_⟩
          simp only [List.length_cons]
          congr 1; omega
    | err e' =>
      simp only [Res.err.injEq]
      constructor
      · rintro rfl
        exact ⟨[], sel, rest, rfl, by simp, ⟨e', hf⟩, rfl⟩
      · rintro ⟨pre, s, post, heq, hpre, hs, rfl⟩
        cases pre with
        | nil => rfl
        | cons x pre =>
          simp only [List.cons_append, List.cons.injEq] at heq
          obtain ⟨rfl, _⟩ := heq
          obtain ⟨b, hb⟩ := hpre _ List.mem_cons_self
          rw [hf] at hb; cases hb
    | panic s' =>
      constructor
      · intro h; cases h
      · rintro ⟨pre, s, post, heq, hpre, hs, _⟩
        cases pre with
        | nil =>
          simp only [List.nil_append, List.cons.injEq] at heq
          obtain ⟨rfl, _⟩ := heq
          obtain ⟨e', he'⟩ := hs
          rw [hf] at he'; cases he'
        | cons x pre =>
          simp only [List.cons_append, List.cons.injEq] at heq
          obtain ⟨rfl, _⟩ := heq
          obtain ⟨b, hb⟩ := hpre _ List.mem_cons_self
          rw [hf] at hb; cases hb

/-- when the binding of one entry cannot panic, the call fails iff some entry fails -/
theorem bindEntriesLoop_fails_iff {σ β : Type} (f : σ → Res β) (tag : String) (i : Nat) (sels : List σ)
    (acc : List β) (hnp : ∀ sel s, f sel ≠ .panic s) :
    (∃ e, bindEntriesLoop f tag i sels acc = .err e) ↔ ∃ sel ∈ sels, ∃ e, f sel = .err e := by
  constructor
  · rintro ⟨e, h⟩
    obtain ⟨pre, sel, post, rfl, _, hs, _⟩ := (bindEntriesLoop_err_iff f tag i sels acc e).1 h
    exact ⟨sel, by simp, hs⟩
  · rintro ⟨sel, hmem, e', he'⟩
    cases h : bindEntriesLoop f tag i sels acc with
    | err e => exact ⟨e, rfl⟩
    | panic s =>
      obtain ⟨sel', _, hp⟩ := bindEntriesLoop_panic h
      exact absurd hp (hnp sel' s)
    | ok out =>
      obtain ⟨bs, _, hmap⟩ := (bindEntriesLoop_ok_iff f tag i sels acc out).1 h
      have : f sel ∈ sels.map f := List.mem_map_of_mem hmem
      rw [hmap, he'] at this
      obtain ⟨b, _, hb⟩ := List.mem_map.1 this
      cases hb

/-- `l.map f = r.map ok`, index by index -/
theorem map_eq_map_ok_iff {σ β : Type} (f : σ → Res β) (sels : List σ) (bs : List β) :
    sels.map f = bs.map Res.ok ↔
      bs.length = sels.length ∧ ∀ i (h₁ : i < sels.length) (h₂ : i < bs.length), f sels[i] = .ok bs[i] := by
  constructor
  · intro h
    have hl : bs.length = sels.length := by simpa using (congrArg List.length h).symm
    refine ⟨hl, fun i h₁ h₂ => ?_⟩
    have := List.getElem_of_eq h (i := i) (by simpa using h₁)
    simpa using this
  · rintro ⟨hl, h⟩
    apply List.ext_getElem
    · simp [hl]
    · intro i h₁ h₂
      simp only [List.length_map] at h₁ h₂
      simpa using h i h₁ h₂

/-- entry `i` of a successful call and entry `j` of another successful call that are the same
    configuration entry are bound to the same device: the other entries do not matter -/
theorem map_eq_map_ok_no_leak {σ β : Type} {f : σ → Res β} {sels sels' : List σ} {bs bs' : List β}
    (h : sels.map f = bs.map Res.ok) (h' : sels'.map f = bs'.map Res.ok) {i j : Nat} {sel : σ}
    (hi : sels[i]? = some sel) (hj : sels'[j]? = some sel) :
    ∃ b, bs[i]? = some b ∧ bs'[j]? = some b ∧ f sel = .ok b := by
  have e1 : (sels.map f)[i]? = some (f sel) := by simp [hi]
  have e2 : (sels'.map f)[j]? = some (f sel) := by simp [hj]
  rw [h, List.getElem?_map] at e1
  rw [h', List.getElem?_map] at e2
  cases hb : bs[i]? with
  | none => simp [hb] at e1
  | some b =>
    cases hb' : bs'[j]? with
    | none => simp [hb'] at e2
    | some b' =>
      simp only [hb, Option.map_some, Option.some.injEq] at e1
      simp only [hb', Option.map_some, Option.some.injEq] at e2
      rw [← e1] at e2
      cases e2
      exact ⟨b, rfl, rfl, e1.symm⟩

/-- a call whose entries all occur in a successful call succeeds (removing, permuting or
    repeating entries never turns success into failure) -/
theorem map_eq_map_ok_of_subset {σ β : Type} {f : σ → Res β} {sels sels' : List σ} {bs : List β}
    (h : sels.map f = bs.map Res.ok) (hsub : ∀ sel ∈ sels', sel ∈ sels) :
    ∃ bs' : List β, sels'.map f = bs'.map Res.ok := by
  induction sels' with
  | nil => exact ⟨[], rfl⟩
  | cons s rest ih =>
    obtain ⟨bs', hbs'⟩ := ih (fun x hx => hsub x (List.mem_cons_of_mem _ hx))
    have : f s ∈ sels.map f := List.mem_map_of_mem (hsub s List.mem_cons_self)
    rw [h] at this
    obtain ⟨b, _, hb⟩ := List.mem_map.1 this
    exact ⟨b :: bs', by simp [hbs', ← hb]⟩

theorem bindSensors_ok_iff (m : String → String → Bool) (chips : List Chip) (sels : List SensorSel)
    (ps : List String) :
    bindSensors m chips sels = .ok ps ↔ sels.map (bindSensor m chips) = ps.map Res.ok := by
  unfold bindSensors
  rw [bindEntriesLoop_ok_iff]
  simp

theorem bindFans_ok_iff (m : String → String → Bool) (chips : List Chip) (sels : List FanSel)
    (bs : List FanBinding) :
    bindFans m chips sels = .ok bs ↔ sels.map (bindFan m chips) = bs.map Res.ok := by
  unfold bindFans
  rw [bindEntriesLoop_ok_iff]
  simp

/-- one sensor entry fails iff no matching controller has the index -/
theorem bindSensor_err_iff (m : String → String → Bool) (chips : List Chip) (sel : SensorSel) :
    (∃ e, bindSensor m chips sel = .err e) ↔
      ∀ c ∈ chips, m sel.platform c.platform = true → lookupTemp c.temps sel.index = none := by
  constructor
  · rintro ⟨e, he⟩ c hc hm
    cases hl : lookupTemp c.temps sel.index with
    | none => rfl
    | some p =>
      obtain ⟨_, _, _, _, _, hok⟩ := bindSensor_ok_of_some_present (m := m) (sel := sel)
        ⟨c, hc, hm, by simp [hl]⟩
      rw [he] at hok; cases hok
  · intro h
    exact ⟨_, bindSensor_err_of_no_hit h⟩

/-- one fan entry fails iff no fan of a matching controller passes the selector -/
theorem bindFan_err_iff (m : String → String → Bool) (chips : List Chip) (sel : FanSel) :
    (∃ e, bindFan m chips sel = .err e) ↔
      ∀ c ∈ chips, m sel.platform c.platform = true → ∀ f ∈ c.fans, fanOk sel f = false := by
  constructor
  · rintro ⟨e, he⟩
    induction chips with
    | nil => simp
    | cons c cs ih =>
      unfold bindFan at he
      by_cases hm : m sel.platform c.platform = true
      · simp only [hm, if_true] at he
        cases hb : bindFanDevs sel c.fans with
        | some b => simp [hb] at he
        | none =>
          simp only [hb] at he
          intro c' hc' hm'
          rcases List.mem_cons.1 hc' with rfl | hc'
          · exact (bindFanDevs_none_iff sel _).1 hb
          · exact ih he c' hc' hm'
      · simp only [hm] at he
        intro c' hc' hm'
        rcases List.mem_cons.1 hc' with rfl | hc'
        · exact absurd hm' hm
        · exact ih he c' hc' hm'
  · intro h
    exact ⟨_, bindFan_err_of_no_device h⟩

end Hwmon
end Fan2go
