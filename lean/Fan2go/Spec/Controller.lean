/-
  Specification vocabulary for the controller properties (C01 C02 C03 C05 C10):
  events, the step function over the model of `controller.go`, runs, and the predicates the
  theorems are stated with. Core Lean only. No theorems here.
-/
import Fan2go.Model.Controller
namespace Fan2go
open F64

/-- What can happen to a regulated fan between process start-up and stop. -/
inductive Ev where
  /-- one `UpdateFanSpeed()`; `curve` is what `curve.Evaluate()` returns in this cycle, `now` the clock -/
  | cycle (curve : Res Int) (now : Int)
  /-- one `measureRpm` of the RPM monitor -/
  | poll
  /-- the environment replaces the device state (third parties, the fan's physics, fault switches) -/
  | env (d : Dev)
  deriving Repr, Inhabited

/-- Outcome of one event. `stopped` = `UpdateFanSpeed` returned an error or panicked: regulation of
    this fan ends (the controller restores the fan, see C03). -/
structure StepOut where
  w : World
  obs : List Obs
  result : Res Unit
  deriving Inhabited

def stepEv (indef : Int) (w : World) : Ev → StepOut
  | .cycle curve now =>
    let (w', r, o) := updateFanSpeed indef w curve now
    { w := w', obs := o, result := r }
  | .poll => { w := measureRpm indef w, obs := [], result := .ok () }
  | .env d => { w := { w with dev := d }, obs := [], result := .ok () }

/-- run a list of events; regulation stops at the first cycle that does not return `ok`.
    Returns the trace of (pre-state, event, outcome). -/
def runEvs (indef : Int) : World → List Ev → List (World × Ev × StepOut)
  | _, [] => []
  | w, e :: es =>
    let out := stepEv indef w e
    match out.result with
    | .ok _ => (w, e, out) :: runEvs indef out.w es
    | _ => [(w, e, out)]

/-- final world of a run (the state in which regulation continues or stopped) -/
def runFinal (indef : Int) : World → List Ev → World
  | w, [] => w
  | w, e :: es =>
    let out := stepEv indef w e
    match out.result with
    | .ok _ => runFinal indef out.w es
    | _ => out.w

/-- the effective minimum: the fan's minimum PWM plus the raises made so far -/
def World.floor (w : World) : Int := w.fan.getMin + w.ctl.offset

/-- PWM-map well-formedness named in the quantifier of C01/C12: non-empty, keys strictly increasing,
    outputs in 0..255. -/
def MapOk (m : List (Int × Int)) : Prop :=
  m ≠ [] ∧ m.Pairwise (fun a b => a.1 < b.1) ∧ ∀ p ∈ m, 0 ≤ p.2 ∧ p.2 ≤ 255

/-- The controller invariant: limits ordered inside 0..255, and the PWM map installed with its
    distinct targets derived from it (as `Run` does before the first cycle). -/
structure Inv (w : World) : Prop where
  min_nonneg : 0 ≤ w.fan.getMin
  offset_nonneg : 0 ≤ w.ctl.offset
  floor_le_max : w.fan.getMin + w.ctl.offset ≤ w.fan.getMax
  max_le : w.fan.getMax ≤ 255
  map_some : ∃ m, w.ctl.pwmMap = some m ∧ MapOk m ∧ w.ctl.distinct = (extractKeys m).toArray

/-- device contract of C05: reads and writes succeed and the fan reads back what was written for
    every output of the PWM map ("identity, sparse user map, idempotent quantiser"). -/
structure ReadsBack (w : World) : Prop where
  pwmRead : w.dev.pwmRead = .ok
  pwmWrite : w.dev.pwmWrite = .applied
  modeRead : w.dev.modeRead = .ok
  modeWrite : w.dev.modeWrite = .applied
  idem : ∀ m, w.ctl.pwmMap = some m → ∀ p ∈ m, w.dev.resp.apply p.2 = p.2

/-- the PWM register shows what fan2go's last request dictates -/
def Synced (w : World) : Prop :=
  ∀ l, w.ctl.lastSet = some l → ∃ k, closestDistinct w.ctl l = .ok k ∧ w.dev.pwm = applyPwmMapping w.ctl k

/-- C03: the fan has been handed back, or runs at full speed -/
def Restored (w : World) : Prop :=
  (supports w.fan w.dev .controlMode = true ∧ w.ctl.origMode ≠ 1 ∧ w.dev.mode = w.ctl.origMode)
  ∨ w.dev.pwm = 255

end Fan2go
