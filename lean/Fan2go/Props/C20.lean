/-
  C20 – "Concurrent activities are free of data races".

  Tie to the code: `Generated/Access.lean` (`Generated.accesses`) is re-extracted from /repo's CURRENT
  sources on every check run by go/accessgen (SSA + call graph + lockset dataflow; reflection readers
  `reprint` / `encoding/json` / echo's `JSONPretty` are expanded to reads of the fields they visit).
  Everything below is evaluated by the Lean kernel on that table.

  * `C20_lockset_sound` – the lockset discipline is sound on the abstract machine of `Model/Lockset.lean`
    (any number of activity instances; a mutex has at most one holder; an access in progress holds its lockset).
  * `C20_statement`      – the full-strength property on the table: no lockset conflict at all.
  * `C20_refuted`        – it is FALSE on the current tree.
  * `knownConflicts`     – the explicit known-findings list, one line per (obj.field, kindA, kindB).
  * `C20_partial`        – every conflict of the regenerated table is in that list: a NEW unguarded shared
                           field, a new reader/writer pairing or a dropped `Lock()` produces a triple outside the
                           list and breaks this theorem at `lake build`.
  * `C20_known_all_real` – every listed finding still is a conflict of the table (a fixed race must be removed
                           from the list, so the list cannot rot into a blanket excuse).
  * `C20_partial_sound`  – consequently every race the abstract machine can reach on the regenerated table
                           is on a known triple; outside the list the machine is race free.

  What the abstraction cannot see is listed in the C20 notes (happens-before through channels, atomics,
  aliasing between objects, objects behind untracked interfaces): the race-detector stream
  (vlib/streams_race.py) is used to validate the table, never as part of the proof.
-/
import Fan2go.Proofs.Lockset
import Fan2go.Generated.Access
namespace Fan2go
open Lockset Generated

/-- lockset soundness, any table: if all pairs of race shape share a mutex, no reachable state of the
    abstract machine has two conflicting accesses simultaneously in progress -/
theorem C20_lockset_sound (tbl : List Access)
    (h : ∀ a ∈ tbl, ∀ b ∈ tbl, conflictShape a b = true → ∃ l, l ∈ a.locks ∧ l ∈ b.locks) :
    ∀ s, Reachable tbl s → ¬ Race s :=
  lockset_sound fun a ha b hb hs => commonLock_iff.mpr (h a ha b hb hs)

/-- the full-strength property on the regenerated table -/
def C20_statement : Prop := conflicts accesses = []

/-- if the statement held, the machine running the regenerated table would be race free -/
theorem C20_statement_sound : C20_statement → ∀ s, Reachable accesses s → ¬ Race s :=
  sound_of_no_conflicts

/-- KNOWN FINDINGS on the current tree (hand-maintained; (obj.field, kindA, kindB), kinds ordered
    api < collector < control < init < rpmmon < sensor). Positions of example pairs: build/access.json. -/
def knownConflicts : List (String × String × String) := [
  -- CmdFan.Pwm  (written at internal/fans/cmd.go:95)
  ("CmdFan.Pwm", "api", "collector"),
  ("CmdFan.Pwm", "api", "control"),
  ("CmdFan.Pwm", "api", "init"),
  ("CmdFan.Pwm", "api", "rpmmon"),
  ("CmdFan.Pwm", "collector", "collector"),
  ("CmdFan.Pwm", "collector", "control"),
  ("CmdFan.Pwm", "collector", "init"),
  ("CmdFan.Pwm", "collector", "rpmmon"),
  ("CmdFan.Pwm", "control", "rpmmon"),
  -- CmdFan.Rpm  (written at internal/fans/cmd.go:67; internal/fans/cmd.go:77)
  ("CmdFan.Rpm", "api", "collector"),
  ("CmdFan.Rpm", "api", "control"),
  ("CmdFan.Rpm", "api", "rpmmon"),
  ("CmdFan.Rpm", "collector", "collector"),
  ("CmdFan.Rpm", "collector", "control"),
  ("CmdFan.Rpm", "collector", "rpmmon"),
  ("CmdFan.Rpm", "control", "rpmmon"),
  -- CmdSensor.MovingAvg  (written at internal/sensors/cmd.go:60)
  ("CmdSensor.MovingAvg", "api", "sensor"),
  -- DefaultFanController.lastSetPwm  (written at internal/controller/controller.go:527)
  ("DefaultFanController.lastSetPwm", "control", "rpmmon"),
  -- DefaultFanController.stats  (written at internal/controller/controller.go:518)
  ("DefaultFanController.stats", "collector", "control"),
  -- FanControllerStatistics.IncreasedMinPwmCount  (written at internal/controller/controller.go:674)
  ("FanControllerStatistics.IncreasedMinPwmCount", "collector", "control"),
  -- FanControllerStatistics.MinPwmOffset  (written at internal/controller/controller.go:673)
  ("FanControllerStatistics.MinPwmOffset", "collector", "control"),
  -- FanControllerStatistics.UnexpectedPwmValueCount  (written at internal/controller/controller.go:518)
  ("FanControllerStatistics.UnexpectedPwmValueCount", "collector", "control"),
  -- FileFan.Pwm  (written at internal/fans/file.go:93)
  ("FileFan.Pwm", "api", "collector"),
  ("FileFan.Pwm", "api", "control"),
  ("FileFan.Pwm", "api", "init"),
  ("FileFan.Pwm", "api", "rpmmon"),
  ("FileFan.Pwm", "collector", "collector"),
  ("FileFan.Pwm", "collector", "control"),
  ("FileFan.Pwm", "collector", "init"),
  ("FileFan.Pwm", "collector", "rpmmon"),
  ("FileFan.Pwm", "control", "rpmmon"),
  -- FileFan.Rpm  (written at internal/fans/file.go:64; internal/fans/file.go:73)
  ("FileFan.Rpm", "api", "collector"),
  ("FileFan.Rpm", "api", "control"),
  ("FileFan.Rpm", "api", "rpmmon"),
  ("FileFan.Rpm", "collector", "collector"),
  ("FileFan.Rpm", "collector", "control"),
  ("FileFan.Rpm", "collector", "rpmmon"),
  ("FileFan.Rpm", "control", "rpmmon"),
  -- FileSensor.MovingAvg  (written at internal/sensors/file.go:59)
  ("FileSensor.MovingAvg", "api", "sensor"),
  -- FunctionSpeedCurve.Value  (written at internal/curves/functional.go:97)
  ("FunctionSpeedCurve.Value", "api", "control"),
  -- HwMonFan.FanCurveData  (written at internal/controller/controller.go:146; internal/fans/hwmon.go:136)
  ("HwMonFan.FanCurveData", "api", "init"),
  ("HwMonFan.FanCurveData", "api", "rpmmon"),
  -- HwMonFan.MaxPwm  (written at internal/fans/hwmon.go:70)
  ("HwMonFan.MaxPwm", "api", "init"),
  -- HwMonFan.MinPwm  (written at internal/fans/hwmon.go:42)
  ("HwMonFan.MinPwm", "api", "init"),
  -- HwMonFan.Pwm  (written at internal/fans/hwmon.go:98)
  ("HwMonFan.Pwm", "api", "collector"),
  ("HwMonFan.Pwm", "api", "control"),
  ("HwMonFan.Pwm", "api", "init"),
  ("HwMonFan.Pwm", "api", "rpmmon"),
  ("HwMonFan.Pwm", "collector", "collector"),
  ("HwMonFan.Pwm", "collector", "control"),
  ("HwMonFan.Pwm", "collector", "init"),
  ("HwMonFan.Pwm", "collector", "rpmmon"),
  ("HwMonFan.Pwm", "control", "rpmmon"),
  -- HwMonFan.Rpm  (written at internal/fans/hwmon.go:80)
  ("HwMonFan.Rpm", "api", "collector"),
  ("HwMonFan.Rpm", "api", "init"),
  ("HwMonFan.Rpm", "api", "rpmmon"),
  ("HwMonFan.Rpm", "collector", "collector"),
  ("HwMonFan.Rpm", "collector", "init"),
  ("HwMonFan.Rpm", "collector", "rpmmon"),
  -- HwMonFan.RpmMovingAvg  (written at internal/fans/hwmon.go:90)
  ("HwMonFan.RpmMovingAvg", "api", "control"),
  ("HwMonFan.RpmMovingAvg", "api", "init"),
  ("HwMonFan.RpmMovingAvg", "api", "rpmmon"),
  ("HwMonFan.RpmMovingAvg", "control", "rpmmon"),
  -- HwMonFan.StartPwm  (written at internal/fans/hwmon.go:56)
  ("HwMonFan.StartPwm", "api", "init"),
  -- HwmonSensor.MovingAvg  (written at internal/sensors/hwmon.go:47)
  ("HwmonSensor.MovingAvg", "api", "sensor"),
  -- LinearSpeedCurve.Value  (written at internal/curves/linear.go:57)
  ("LinearSpeedCurve.Value", "api", "control"),
  -- PidLoop.error  (written at internal/util/pid.go:48)
  ("PidLoop.error", "control", "control"),
  -- PidLoop.integral  (written at internal/util/pid.go:43)
  ("PidLoop.integral", "control", "control"),
  -- PidLoop.lastTime  (written at internal/util/pid.go:38)
  ("PidLoop.lastTime", "control", "control"),
  -- PidSpeedCurve.Value  (written at internal/curves/pid.go:47)
  ("PidSpeedCurve.Value", "api", "control"),
  ("PidSpeedCurve.Value", "control", "control")
]

def sameSet (xs ys : List (String × String × String)) : Bool :=
  xs.all (fun c => ys.contains c) && ys.all (fun c => xs.contains c)

/-- ONE kernel evaluation of the conflict computation on the regenerated table -/
theorem C20_table_eval : sameSet (conflicts accesses) knownConflicts = true := by decide +kernel

/-- THE REGENERATED TIE: every lockset conflict of the current tree is a known finding -/
theorem C20_partial : ∀ c ∈ conflicts accesses, c ∈ knownConflicts := by
  intro c hc
  have h := C20_table_eval
  simp only [sameSet, Bool.and_eq_true, List.all_eq_true] at h
  exact List.contains_iff_mem.mp (h.1 c hc)

/-- every known finding still is a conflict of the current tree -/
theorem C20_known_all_real : ∀ c ∈ knownConflicts, c ∈ conflicts accesses := by
  intro c hc
  have h := C20_table_eval
  simp only [sameSet, Bool.and_eq_true, List.all_eq_true] at h
  exact List.contains_iff_mem.mp (h.2 c hc)

/-- the full-strength statement is false on the current tree -/
theorem C20_refuted : ¬ C20_statement := by
  intro h
  have hm : ("HwMonFan.FanCurveData", "api", "rpmmon") ∈ conflicts accesses :=
    C20_known_all_real _ (by decide)
  rw [h] at hm
  cases hm

/-- PARTIAL THEOREM: whenever the abstract machine, running the regenerated table, has two different
    activity instances inside accesses of race shape, the pair is one of the known findings. -/
theorem C20_partial_sound (s : St) (hs : Reachable accesses s) (i j : Nat) (a b : Access)
    (hij : i ≠ j) (ha : s.cur i = some a) (hb : s.cur j = some b) (hc : conflictShape a b = true) :
    triple a b ∈ knownConflicts :=
  C20_partial _ (race_listed hs hij ha hb hc)

/-- ... equivalently: outside the known-findings list no race is reachable -/
theorem C20_race_free_outside_known (s : St) (hs : Reachable accesses s) (i j : Nat) (a b : Access)
    (hij : i ≠ j) (ha : s.cur i = some a) (hb : s.cur j = some b) (hk : triple a b ∉ knownConflicts) :
    conflictShape a b = false := by
  cases hc : conflictShape a b with
  | false => rfl
  | true => exact absurd (C20_partial_sound s hs i j a b hij ha hb hc) hk

/-! ### non-vacuity -/

/-- a known finding is a real race of the machine: a REST request marshals `HwMonFan.FanCurveData` while the
    RPM monitor inserts into the same map (the Go runtime aborts on this one) -/
example : ∃ s, Reachable accesses s ∧ Race s :=
  conflict_reachable
    (a := ⟨"api.getFan", "api", "HwMonFan", "FanCurveData", false, []⟩)
    (b := ⟨"controller.DefaultFanController.measureRpm", "rpmmon", "HwMonFan", "FanCurveData", true, []⟩)
    (by decide +kernel) (by decide +kernel) rfl rfl (by decide)

/-- the per-sensor mutex does its job: monitor write vs. control-loop read of `MovingAvg` is no conflict ... -/
example : conflict ⟨"internal.sensorMonitor.Run", "sensor", "HwmonSensor", "MovingAvg", true, ["HwmonSensor.mu"]⟩
    ⟨"controller.DefaultFanController.UpdateFanSpeed", "control", "HwmonSensor", "MovingAvg", false, ["HwmonSensor.mu"]⟩ = false := by
  decide

/-- ... and dropping the `Lock()` on either side is reported under a triple that is NOT a known finding -/
example : conflicts [⟨"internal.sensorMonitor.Run", "sensor", "HwmonSensor", "MovingAvg", true, []⟩,
    ⟨"controller.DefaultFanController.UpdateFanSpeed", "control", "HwmonSensor", "MovingAvg", false, ["HwmonSensor.mu"]⟩]
      = [("HwmonSensor.MovingAvg", "control", "sensor")]
    ∧ ("HwmonSensor.MovingAvg", "control", "sensor") ∉ knownConflicts := by
  decide

/-- two fans' control loops: a shared curve object conflicts, the per-fan controller object does not -/
example : concurrentKinds ⟨"x", "control", "PidLoop", "integral", true, []⟩ ⟨"y", "control", "PidLoop", "integral", true, []⟩ = true
    ∧ concurrentKinds ⟨"x", "control", "DefaultFanController", "lastSetPwm", true, []⟩
        ⟨"y", "control", "DefaultFanController", "lastSetPwm", true, []⟩ = false := by
  decide

#print axioms C20_lockset_sound
#print axioms C20_statement_sound
#print axioms C20_table_eval
#print axioms C20_partial
#print axioms C20_known_all_real
#print axioms C20_refuted
#print axioms C20_partial_sound
#print axioms C20_race_free_outside_known

end Fan2go
