import Fan2go.Generated.Trans2
import Fan2go.Props.Trans
import Fan2go.Model.Curves
namespace Fan2go
open F64

/-- evaluate the members in order, stop at the first failure -/
def evalAll (ev : String → Res Int) : List String → Res (List Int)
  | [] => .ok []
  | id :: rest => match ev id with
    | .ok v => (match evalAll ev rest with | .ok vs => .ok (v :: vs) | .err e => .err e | .panic p => .panic p)
    | .err e => .err e
    | .panic p => .panic p

/-- (identity; kept from the time when the model's panic string of the `ui.Fatal` branch differed from `Go.fatal`'s) -/
def renameFatal (r : Res Int) : Res Int := r

namespace EvaluateProof

instance : LawfulMonad Res := LawfulMonad.mk'
  (id_map := by intro α x; cases x <;> rfl)
  (pure_bind := by intros; rfl)
  (bind_assoc := by intro α β γ x f g; cases x <;> rfl)

@[simp] theorem bind_ok {α β} (a : α) (f : α → Res β) : (Res.ok a >>= f) = f a := rfl
@[simp] theorem bind_err {α β} (e : String) (f : α → Res β) : (Res.err e >>= f) = .err e := rfl
@[simp] theorem bind_panic {α β} (e : String) (f : α → Res β) : (Res.panic e >>= f) = .panic e := rfl
@[simp] theorem pure_eq {α} (a : α) : (pure a : Res α) = .ok a := rfl

theorem wrap_eq : Go.wrap64 = wrap64 := by funext n; rfl

/-- a loop whose body only updates the state is a fold -/
theorem forIn_fold {α σ : Type} (g : σ → α → σ) (l : List α) (s : σ) :
    forIn (m := Res) l s (fun a s => pure (ForInStep.yield (g s a))) = .ok (l.foldl g s) := by
  induction l generalizing s with
  | nil => rfl
  | cons a l ih => simp only [List.forIn_cons, pure_eq, bind_ok, List.foldl_cons]; exact ih _

theorem foldl_push {α : Type} (l : List α) (acc : Array α) :
    l.foldl (fun s a => s.push a) acc = acc ++ l.toArray := by
  induction l generalizing acc with
  | nil => simp
  | cons a l ih => simp only [List.foldl_cons, ih]; simp

/-- second loop: evaluate the members, error / panic short-circuits -/
theorem loop2 (ev : String → Res Int) (l : List String) (acc : Array Int) :
    forIn (m := Res) l acc (fun curve s => do
        let v ← ev curve
        pure (ForInStep.yield (s.push v)))
      = (match evalAll ev l with
         | .ok vs => .ok (acc ++ vs.toArray)
         | .err e => .err e
         | .panic p => .panic p) := by
  induction l generalizing acc with
  | nil => simp [evalAll]
  | cons a l ih =>
    simp only [List.forIn_cons, evalAll]
    cases h : ev a with
    | ok v =>
      have ih' := ih (acc.push v)
      simp only [pure_eq] at ih'
      simp only [bind_ok, pure_eq]
      rw [ih']
      cases evalAll ev l <;> simp
    | err e => rfl
    | panic p => rfl

theorem evalAll_length (ev : String → Res Int) (l : List String) (vs : List Int)
    (h : evalAll ev l = .ok vs) : vs.length = l.length := by
  induction l generalizing vs with
  | nil => simp only [evalAll, Res.ok.injEq] at h; subst h; rfl
  | cons a l ih =>
    simp only [evalAll] at h
    cases h1 : ev a with
    | ok v =>
      rw [h1] at h
      cases h2 : evalAll ev l with
      | ok ws =>
        rw [h2] at h; simp only [Res.ok.injEq] at h; subst h
        simp [ih ws h2]
      | err e => rw [h2] at h; cases h
      | panic p => rw [h2] at h; cases h
    | err e => rw [h1] at h; cases h
    | panic p => rw [h1] at h; cases h

/-- "difference" loop from index k ≥ 1: plain fold -/
theorem diff_tail (vs : List Int) (k : Nat) (hk : 0 < k) (d : Int) :
    forIn (m := Res) (((List.range' k vs.length).zip vs).map (fun p => ((p.1 : Int), p.2))) d
      (fun x s => if x.fst = 0 then pure (ForInStep.yield x.snd)
                  else pure (ForInStep.yield (Go.wrap64 (s - x.snd))))
      = .ok (vs.foldl (fun a b => wrap64 (a - b)) d) := by
  induction vs generalizing k d with
  | nil => rfl
  | cons v vs ih =>
    have hk' : ¬ ((k : Int) = 0) := by omega
    simp only [List.length_cons, List.range'_succ, List.zip_cons_cons, List.map_cons, List.forIn_cons,
      hk', ↓reduceIte, pure_eq, bind_ok, List.foldl_cons, wrap_eq]
    rw [← wrap_eq]
    exact ih (k + 1) (by omega) _

theorem diff_loop (vs : List Int) :
    forIn (m := Res) (Go.enum vs.toArray) (0 : Int)
      (fun x s => if x.fst = 0 then pure (ForInStep.yield x.snd)
                  else pure (ForInStep.yield (Go.wrap64 (s - x.snd))))
      = .ok (match vs with
             | [] => 0
             | v :: rest => rest.foldl (fun a b => wrap64 (a - b)) v) := by
  unfold Go.enum
  cases vs with
  | nil => rfl
  | cons v rest =>
    simp only [List.size_toArray, List.length_cons, List.range_eq_range', List.range'_succ,
      List.zip_cons_cons, List.map_cons, List.forIn_cons, Int.natCast_zero, ↓reduceIte, pure_eq, bind_ok]
    exact diff_tail rest (0 + 1) (by omega) v

/-- "delta": the generated state is (dmax, dmin), the model's is (dmin, dmax) -/
theorem delta_fold (vs : List Int) (a b : F64) :
    vs.foldl (fun (s : F64 × F64) v => (s.fst.fmax (ofInt v), s.snd.fmin (ofInt v))) (a, b)
      = ((vs.foldl (fun (acc : F64 × F64) v => (fmin acc.1 (ofInt v), fmax acc.2 (ofInt v))) (b, a)).2,
         (vs.foldl (fun (acc : F64 × F64) v => (fmin acc.1 (ofInt v), fmax acc.2 (ofInt v))) (b, a)).1) := by
  induction vs generalizing a b with
  | nil => rfl
  | cons v vs ih => simp only [List.foldl_cons]; exact ih _ _

end EvaluateProof
open EvaluateProof

theorem evaluate_aux (indef : Int) (ty : String) (ids : List String) (ev : String → Res Int) :
    Generated2.FunctionSpeedCurve_Evaluate indef (fun id => id) ev ids.toArray ty
      = (match evalAll ev ids with
         | .ok vs => renameFatal (evalFn indef ty vs)
         | .err e => .err e
         | .panic p => .panic p) := by
  unfold Generated2.FunctionSpeedCurve_Evaluate
  simp only []
  rw [forIn_fold (fun (s : Array String) a => s.push a), foldl_push]
  have e1 : (#[] ++ ids.toArray).toList = ids := by simp
  have e2 : Go.len (#[] ++ ids.toArray) = (ids.length : Int) := by simp [Go.len]
  simp only [bind_ok, loop2, e1, e2]
  cases h : evalAll ev ids with
  | err e => rfl
  | panic p => rfl
  | ok vs =>
    have hl := evalAll_length ev ids vs h
    have e3 : (#[] ++ vs.toArray).toList = vs := by simp
    have e4 : (#[] ++ vs.toArray) = vs.toArray := by simp
    simp only [bind_ok, e3]
    unfold evalFn
    by_cases h1 : ty = "sum"
    · simp only [h1, ↓reduceIte, forIn_fold (fun (s : Int) v => Go.wrap64 (s + v)), bind_ok]
      simp only [pure_eq, wrap_eq, sumInts, renameFatal]
    simp only [h1, ↓reduceIte]
    by_cases h2 : ty = "difference"
    · simp only [h2, ↓reduceIte, e4, diff_loop, bind_ok]
      simp only [pure_eq, renameFatal]
      cases vs <;> rfl
    simp only [h2, ↓reduceIte]
    by_cases h3 : ty = "delta"
    · simp only [h3, ↓reduceIte, e4]
      cases vs with
      | nil => simp [Go.idx, renameFatal]
      | cons v0 tl =>
        have hi : Go.idx (v0 :: tl).toArray 0 = .ok v0 := by simp [Go.idx]
        simp only [hi, bind_ok,
          forIn_fold (fun (s : F64 × F64) v => (s.fst.fmax (ofInt v), s.snd.fmin (ofInt v))),
          delta_fold]
        simp only [pure_eq, renameFatal]
    simp only [h3, ↓reduceIte]
    by_cases h4 : ty = "minimum"
    · simp only [h4, ↓reduceIte, forIn_fold (fun (s : F64) v => s.fmin (ofInt v)), bind_ok]
      simp only [pure_eq, renameFatal]
    simp only [h4, ↓reduceIte]
    by_cases h5 : ty = "maximum"
    · simp only [h5, ↓reduceIte, forIn_fold (fun (s : F64) v => s.fmax (ofInt v)), bind_ok]
      simp only [pure_eq, renameFatal]
    simp only [h5, ↓reduceIte]
    by_cases h6 : ty = "average"
    · simp only [h6, ↓reduceIte, forIn_fold (fun (s : Int) v => Go.wrap64 (s + v)), bind_ok, Go.div, hl]
      by_cases hz : ids.length = 0
      · simp [hz, renameFatal]
      · have hz' : ¬ ((ids.length : Int) = 0) := by omega
        simp only [hz, hz', ↓reduceIte, bind_ok, pure_eq, sumInts, renameFatal, wrap_eq]
    simp only [h6, ↓reduceIte, Go.fatal, bind_panic, renameFatal]

/-- `(*FunctionSpeedCurve).Evaluate` (internal/curves/functional.go), translated from the current source, is: evaluate the
    members in configuration order (through the registry handle = id), stop at the first failure, then `evalFn` -/
theorem trans2_FunctionSpeedCurve_Evaluate (indef : Int) (ty : String) (ids : List String) (ev : String → Res Int) :
    Generated2.FunctionSpeedCurve_Evaluate indef (fun id => id) ev ids.toArray ty
      = (match evalAll ev ids with
         | .ok vs => evalFn indef ty vs
         | .err e => .err e
         | .panic p => .panic p) := by
  have h := evaluate_aux indef ty ids ev
  simpa only [renameFatal] using h

#print axioms trans2_FunctionSpeedCurve_Evaluate
end Fan2go
