/-
  Regenerated-fact theorems: `Fan2go/Generated/Facts.lean` is rewritten from /repo's CURRENT sources
  by go/factgen on every check run; the expectations below are what the models and proofs assume.
  A source change that alters one of these facts breaks the corresponding theorem at `lake build`.
  Core Lean only; everything is closed-term evaluation (`decide`/`rfl`).
-/
import Fan2go.Generated.Facts
namespace Fan2go
open Generated

def constOf (k : String) : Option String := (consts.find? (·.1 == k)).map (·.2)
def seqOf (k : String) : List String := ((sequences.find? (·.1 == k)).map (·.2)).getD []

/-- index of the first occurrence -/
def posOf (x : String) (l : List String) : Option Nat := l.findIdx? (· == x)

/-- `a` occurs and every occurrence of `b` comes after the first `a` -/
def precedesAll (a b : String) (l : List String) : Bool :=
  match posOf a l with
  | none => false
  | some i => (l.take i).all (· != b)

/-! ### constants the models hard-code -/

/-- the PWM scale (model: `clamp255`, `rescale … / 255`, restore to 255) -/
theorem fact_pwm_scale : constOf "MaxPwmValue" = some "255" ∧ constOf "MinPwmValue" = some "0" := by decide

/-- control modes (model: manual = 1, fallback = 0) -/
theorem fact_control_modes :
    constOf "ControlModeDisabled" = some "0" ∧ constOf "ControlModePWM" = some "1" ∧
    constOf "ControlModeAutomatic" = some "2" := by decide

/-- the six function-curve type strings (model: `evalFn`) -/
theorem fact_function_types :
    constOf "FunctionSum" = some "\"sum\"" ∧ constOf "FunctionDifference" = some "\"difference\"" ∧
    constOf "FunctionAverage" = some "\"average\"" ∧ constOf "FunctionDelta" = some "\"delta\"" ∧
    constOf "FunctionMinimum" = some "\"minimum\"" ∧ constOf "FunctionMaximum" = some "\"maximum\"" := by decide

/-- the two persistence buckets are different buckets (C14 isolation per kind) -/
theorem fact_buckets :
    constOf "BucketFans" = some "\"fans\"" ∧ constOf "BucketFanPwmMap" = some "\"fanPwmMap\"" := by decide

/-- default PID gains of the control loop (C04) -/
theorem fact_default_pid :
    constOf "DefaultPid.P" = some "0.3" ∧ constOf "DefaultPid.I" = some "0.02" ∧
    constOf "DefaultPid.D" = some "0.005" := by decide

/-- every external command of a cmd fan / cmd sensor runs under a 2 s deadline (C19) -/
theorem fact_exec_timeouts :
    constOf "timeout.fans/cmd.go.0" = some "2 * time.Second" ∧
    constOf "timeout.fans/cmd.go.1" = some "2 * time.Second" ∧
    constOf "timeout.fans/cmd.go.2" = some "2 * time.Second" ∧
    constOf "timeout.sensors/cmd.go.0" = some "2 * time.Second" := by decide

/-- default window sizes / option defaults the properties mention -/
theorem fact_defaults :
    constOf "viper.RpmRollingWindowSize" = some "10" ∧ constOf "viper.TempRollingWindowSize" = some "10" ∧
    constOf "viper.RunFanInitializationInParallel" = some "true" := by decide

/-! ### C16: the analysis steps lie inside the critical section -/

def seqInit := seqOf "internal/controller/controller.go:DefaultFanController.RunInitializationSequence"
def seqMap := seqOf "internal/controller/controller.go:DefaultFanController.computePwmMap"
def seqMapLocked := seqOf "internal/controller/controller.go:DefaultFanController.computePwmMapLocked"
def seqSweep := seqOf "internal/controller/controller.go:DefaultFanController.computePwmMapAutomatically"

/-- `RunInitializationSequence` takes the mutex (released by `defer`) before the sweep
    (`computePwmMapLocked`) and before every measurement step (`setPwm`, `settle`, `getRpm`); it never
    unlocks explicitly in between and does not call the self-locking `computePwmMap` (no deadlock). -/
theorem fact_init_locked :
    precedesAll "lock" "computePwmMapLocked" seqInit = true ∧
    precedesAll "lock" "setPwm" seqInit = true ∧ precedesAll "lock" "settle" seqInit = true ∧
    precedesAll "lock" "getRpm" seqInit = true ∧ precedesAll "lock" "manual" seqInit = true ∧
    seqInit.contains "defer:unlock" = true ∧ seqInit.contains "unlock" = false ∧
    seqInit.contains "computePwmMap" = false ∧
    seqInit.contains "setPwm" = true ∧ seqInit.contains "getRpm" = true := by decide

/-- `computePwmMap` (the other entry point, used by `Run`) wraps the same body in the mutex; the
    locked body itself neither locks nor unlocks and is where the sweep happens. -/
theorem fact_map_locked :
    seqMap = ["lock", "defer:unlock", "computePwmMapLocked"] ∧
    seqMapLocked.contains "lock" = false ∧ seqMapLocked.contains "unlock" = false ∧
    seqMapLocked.contains "sweep" = true ∧
    seqSweep.contains "fanSetPwm" = true ∧ seqSweep.contains "lock" = false := by decide

/-! ### C03: restore order and the shape of the daemon's actor group -/

def seqRestore := seqOf "internal/controller/controller.go:DefaultFanController.restorePwmEnabled"
def seqRun := seqOf "internal/controller/controller.go:DefaultFanController.Run"
def seqDaemon := seqOf "internal/backend.go:RunDaemon"
def seqUpdate := seqOf "internal/controller/controller.go:DefaultFanController.UpdateFanSpeed"

/-- `restorePwmEnabled`: original PWM, then the mode, then the full-speed fallback (model: `restorePwmEnabled`) -/
theorem fact_restore_order : seqRestore = ["fanSetPwm", "fanSetMode", "fanSetPwm"] := by decide

/-- `UpdateFanSpeed`: compute, re-assert manual mode, write (model: `updateFanSpeed`) -/
theorem fact_update_order : seqUpdate = ["calc", "manual", "setPwm"] := by decide

/-- `Run` restores on every exit path of the control-loop actor and on every start-up error path after
    the initialisation sequence may have run: one `restore` after `runInit`, one each for the failing
    second load / attach, and inside the loop one on `ctx.Done` and one after a failed `update` -/
theorem fact_run_restores :
    seqRun.filter (fun x => x != "func{" && x != "return") =
      ["runInit", "restore", "restore", "restore", "computePwmMap", "loop{", "loop{", "restore", "update", "restore"] := by decide

/-- split a call sequence into the bodies of its function literals -/
def splitFuncs : List String → List (List String)
  | [] => [[]]
  | x :: xs =>
    match splitFuncs xs with
    | [] => [[x]]
    | seg :: rest => if x == "func{" then [] :: seg :: rest else (x :: seg) :: rest

/-- every `return` in the segment is immediately preceded by `restore` -/
def returnsRestore : List String → Bool
  | [] => true
  | [_] => true
  | x :: y :: rest => (y != "return" || x == "restore") && returnsRestore (y :: rest)

/-- the control-loop actor of `Run` (the closure that calls `UpdateFanSpeed`): EVERY exit path of that
    closure calls `restorePwmEnabled` right before returning, and the closure does not start with a
    bare `return` -/
theorem fact_control_actor_exits_restore :
    ((splitFuncs seqRun).filter (·.contains "update")).length = 1 ∧
    ((splitFuncs seqRun).filter (·.contains "update")).all
      (fun seg => returnsRestore seg && seg.head? != some "return" && seg.contains "return") = true := by decide

/-- `RunDaemon`: the signal channel is registered and never closed nor unregistered, no actor panics,
    and the group is run exactly once -/
theorem fact_daemon_shape :
    seqDaemon.contains "signalNotify" = true ∧ seqDaemon.contains "close" = false ∧
    seqDaemon.contains "signalStop" = false ∧ seqDaemon.contains "panic" = false ∧
    (seqDaemon.filter (· == "groupRun")).length = 1 := by decide

/-! ### C08 / C19: the sensor start-up and the sensor monitor's loop -/

def seqInitSensors := seqOf "internal/backend.go:initializeSensors"
def seqMonitorRun := seqOf "internal/monitor.go:sensorMonitor.Run"

/-- `initializeSensors`: per configured sensor (inner loop: the hwmon controllers) the sensor is created, read ONCE, the
    moving average is seeded with that reading and only then is the sensor registered (so nothing polls it before the seed
    is in) - all in the start-up's own goroutine (no `go` statement) and with no timer (model: `sn.init`, the moving average
    starts at the first reading, or at 0 when that read fails) -/
theorem fact_init_sensors_seed_order :
    seqInitSensors = ["loop{", "loop{", "newSensor", "getValue", "setAvg", "register"] := by decide

/-- `sensorMonitor.Run`: ONE ticker at the configured rate, one `updateSensor` per tick inside the loop; the ticker is
    never re-armed (`tick.Reset`), no timers, no `go` statement, no `panic` (model: `sn.monitor`, a fold of `updateSensor`
    over the polls) -/
theorem fact_monitor_loop_shape :
    seqMonitorRun = ["newTicker", "loop{", "updateSensor"] := by decide


/-! ### C09: every syntactic crash site of the daemon-reachable packages is accounted for -/

/-- The complete list of `panic(` / `ui.Fatal` / `os.Exit` / `log.Fatal` / `MustCompile` / unchecked type
    assertion sites in the packages `RunDaemon` can reach. Disposition of each (why it cannot fire on a
    sensor / fan fault at a control cycle):
    * `RunDaemon` ui.Fatal ×2, FatalWithoutStacktrace, os.Exit ×2 — start-up failures and the final exit, before / after regulation;
    * `configuration.*` — configuration loading, before the daemon starts;
    * `DefaultFanController.Run` ui.Fatal — in the interrupt function, only for a non-nil actor error; the actor always returns nil;
    * `NewFanController` ui.Fatal — start-up (unknown curve id; excluded by validation);
    * `Snapshot*Map` type assertions — on the result of `reprint.This` of the same static type;
    * `FunctionSpeedCurve.Evaluate` ui.Fatal — unknown function type; excluded by validation (C11);
    * `findPlatform` MustCompile — constant pattern; `FatalWithoutStacktrace` os.Exit — its own definition;
    * `CheckFilePermissionsForExecution` `info.Sys().(*syscall.Stat_t)` — Linux always supplies that type
      (the nil `info` case after a non-not-exist stat error is the documented residual of C19);
    * `FindFilesMatching` — used by `fan2go detect` only.
    A change that adds a crash site on a daemon path (or removes one) changes the generated table and
    breaks this theorem. -/
theorem fact_crash_sites :
    crashSites = [
      ("internal/backend.go", "RunDaemon", "ui.Fatal", 0, ""),
      ("internal/backend.go", "RunDaemon", "ui.Fatal", 1, ""),
      ("internal/backend.go", "RunDaemon", "ui.FatalWithoutStacktrace", 2, ""),
      ("internal/backend.go", "RunDaemon", "os.Exit", 3, ""),
      ("internal/backend.go", "RunDaemon", "os.Exit", 4, ""),
      ("internal/configuration/config.go", "DetectAndReadConfigFile", "ui.FatalWithoutStacktrace", 0, ""),
      ("internal/configuration/config.go", "InitConfig", "os.Exit", 0, ""),
      ("internal/configuration/config.go", "LoadConfig", "ui.Fatal", 0, ""),
      ("internal/controller/controller.go", "DefaultFanController.Run", "ui.Fatal", 0, ""),
      ("internal/controller/controller.go", "NewFanController", "ui.Fatal", 0, ""),
      ("internal/curves/curve.go", "SnapshotSpeedCurveMap", "typeassert", 0, "map[string]SpeedCurve"),
      ("internal/curves/functional.go", "FunctionSpeedCurve.Evaluate", "ui.Fatal", 0, ""),
      ("internal/fans/common.go", "SnapshotFanMap", "typeassert", 0, "map[string]Fan"),
      ("internal/hwmon/hwmon.go", "findPlatform", "MustCompile", 0, ""),
      ("internal/sensors/common.go", "SnapshotSensorMap", "typeassert", 0, "map[string]Sensor"),
      ("internal/ui/logging.go", "FatalWithoutStacktrace", "os.Exit", 0, ""),
      ("internal/util/file.go", "CheckFilePermissionsForExecution", "typeassert", 0, "*syscall.Stat_t"),
      ("internal/util/file.go", "FindFilesMatching", "ui.Fatal", 0, ""),
      ("internal/util/file.go", "FindFilesMatching", "panic", 1, ""),
      ("internal/util/file.go", "FindFilesMatching", "panic", 2, "")] := by decide

/-! ### C18 / C19: exec sites -/

/-- the only uses of os/exec in daemon-reachable packages: `SafeCmdExecution` (program = its
    `executable` parameter) and the three literal programs of `ui.NotifySend`; sensors and fans reach
    os/exec only through `SafeCmdExecution` -/
theorem fact_exec_sites :
    execSites = [
      ("internal/fans/cmd.go", "CmdFan.GetPwm", "SafeCmdExecution", 0, ""),
      ("internal/fans/cmd.go", "CmdFan.GetRpm", "SafeCmdExecution", 0, ""),
      ("internal/fans/cmd.go", "CmdFan.SetPwm", "SafeCmdExecution", 0, ""),
      ("internal/sensors/cmd.go", "CmdSensor.GetValue", "SafeCmdExecution", 0, ""),
      ("internal/ui/notification.go", "NotifySend", "exec.Command", 0, "\"who\""),
      ("internal/ui/notification.go", "NotifySend", "exec.Command", 1, "\"id\""),
      ("internal/ui/notification.go", "NotifySend", "exec.Command", 2, "\"sudo\""),
      ("internal/util/exec.go", "SafeCmdExecution", "exec.CommandContext", 0, "executable")] := by decide

def seqSafeCmd := seqOf "internal/util/exec.go:SafeCmdExecution"
def seqValidate := seqOf "internal/configuration/validation.go:validateConfig"

/-- inside `SafeCmdExecution` the permission check precedes the only exec, which runs under a deadline -/
theorem fact_check_dominates_exec :
    precedesAll "checkPerm" "exec" seqSafeCmd = true ∧ precedesAll "withTimeout" "exec" seqSafeCmd = true ∧
    (seqSafeCmd.filter (· == "exec")).length = 1 := by decide

/-- `validateConfig` applies the permission test to the configuration file when cmd sensors / fans exist -/
theorem fact_config_perm_rule :
    seqValidate = ["validateSensors", "validateCurves", "validateFans", "containsCmdSensors", "containsCmdFan", "checkPerm"] := by decide


/-! ### C11: the validator's checks, as the sequence of its error messages in source order -/

/-- The model `Model/Config.lean` states the validator's checks in exactly this order (one `VErr` constructor per
    message). A removed, added or reordered check changes the regenerated sequence and breaks this theorem, also
    where the configuration generators never produce the distinguishing input. -/
theorem fact_validator_checks :
    seqOf "validation:validateSensors" = [
      "duplicate sensor id detected: %s",
      "sensor %s: only one sensor type can be used per sensor defin",
      "sensor %s: sub-configuration for sensor is missing, use one ",
      "sensor %s: invalid index, must be >= 1"] ∧
    seqOf "validation:validateCurves" = [
      "duplicate curve id detected: %s",
      "curve %s: only one curve type can be used per curve definiti",
      "curve %s: sub-configuration for curve is missing, use one of",
      "curve %s: unsupported function type '%s', use one of: %s",
      "curve %s: function curves must reference at least one curve",
      "curve %s: a curve cannot reference itself",
      "curve %s: no curve definition with id '%s' found",
      "curve %s: missing sensorId",
      "curve %s: no sensor definition with id '%s' found",
      "curve %s: steps must contain at least one entry",
      "curve %s: missing sensorId",
      "curve %s: no sensor definition with id '%s' found",
      "curve %s: all PID constants are zero"] ∧
    seqOf "validation:validateFans" = [
      "duplicate fan id detected: %s",
      "fan %s: only one fan type can be used per fan definition blo",
      "fan %s: sub-configuration for fan is missing, use one of: hw",
      "fan %s: missing curve definition in configuration entry",
      "fan %s: no curve definition with id '%s' found",
      "fan %s: controlAlgorithm must be one of: direct | pid",
      "fan %s: invalid maxPwmChangePerCycle, must be > 0",
      "fan %s: all PID constants are zero",
      "fan %s: must have one of index or rpmChannel, must be >= 1",
      "fan %s: invalid index, must be >= 1",
      "fan %s: invalid rpmChannel, must be >= 1",
      "fan %s: invalid pwmChannel, must be >= 1",
      "fan %s: no file path provided",
      "fan %s: missing setPwm configuration",
      "fan %s: setPwm executable is missing",
      "fan %s: missing getPwm configuration",
      "fan %s: getPwm executable is missing"] ∧
    seqOf "validation:validateNoLoops" = [
      "you have created a curve dependency cycle: %v"] ∧
    seqOf "validation:validateConfig" = [
      "config file '%s' has invalid permissions: %s"] := by
  refine ⟨?_, ?_, ?_, ?_, ?_⟩ <;> decide

/-! ### C15: CLI bodies re-stated in the harness -/

theorem fact_cli_bodies :
    seqOf "cmd/fan/reset.go" = ["p.DeleteFanPwmData", "p.DeleteFanPwmMap"] ∧
    seqOf "cmd/fan/init.go" = ["controller.NewFanController", "p.DeleteFanPwmData", "p.DeleteFanPwmMap",
                               "fanController.RunInitializationSequence"] := by decide

end Fan2go
