import Fan2go.Props.Trans3InitOps
import Fan2go.Props.Trans2Keys
import Fan2go.Props.Trans3FileFan
import Fan2go.Proofs.Analysis
namespace Fan2go
open F64 Fan2go.Startup Fan2go.Analysis
set_option linter.unusedSimpArgs false
set_option linter.unusedVariables false

/-! ### helpers: the fields of `initOps` (all by `rfl`), running `GoM` terms, the sweep loop -/
namespace T3I
open T3G
variable (indef : Int) (ph : Phys) (cfg : FanCfg) (fan : FanSt)

theorem i_getMap (s : InitSt) : (initOps indef ph cfg fan).get_pwmMap s = (.ok s.pwmMap, s) := rfl
theorem i_setMap (s : InitSt) (m) : (initOps indef ph cfg fan).set_pwmMap m s = (.ok (), { s with pwmMap := m }) := rfl
theorem i_sort (s : InitSt) (a : Array Int) : (initOps indef ph cfg fan).sortInts a s
    = (.ok (a.toList.mergeSort (fun x y => decide (x ≤ y))).toArray, s) := rfl
theorem i_setDistinct (s : InitSt) (a : Array Int) : (initOps indef ph cfg fan).set_pwmValuesWithDistinctTarget a s
    = (.ok (), { s with distinct := a.toList }) := rfl

theorem goMapGet_eq (m : List (Int × Int)) (k : Int) : Go.mapGet m k = Fan2go.mapGet m k := by
  unfold Go.mapGet Fan2go.mapGet
  cases m.find? (fun p => p.1 == k) <;> rfl

theorem run_liftRes {σ α : Type} (r : Res α) (s : σ) : (Go.liftRes r : GoM σ α) s = (r, s) := rfl
theorem i_tag (s : InitSt) : (initOps indef ph cfg fan).typeTag_fan s
    = (.ok (match cfg.kind with | .hwmon => 0 | .cmd => 1 | .file => 2), s) := rfl
theorem i_cfgMap (s : InitSt) : (initOps indef ph cfg fan).get_fan_Config_PwmMap s = (.ok cfg.cfgMap, s) := rfl
theorem i_id (s : InitSt) : (initOps indef ph cfg fan).fan_GetId s = (.ok "id", s) := rfl
theorem i_load (s : InitSt) (x : String) : (initOps indef ph cfg fan).persistence_LoadFanPwmMap x s
    = (.ok (match s.stored with | some m => (some m, none) | none => (none, some "not found")), s) := rfl
theorem i_save (s : InitSt) (x : String) (m) : (initOps indef ph cfg fan).persistence_SaveFanPwmMap x m s
    = (.ok none, { s with stored := m }) := rfl
theorem run_deref_none {σ α : Type} (s : σ) : (Go.deref (none : Option α) : GoM σ α) s = (.panic "nil", s) := rfl

theorem applyMapping_run (s : InitSt) (k : Int) :
    Generated3.init_applyPwmMapping indef (initOps indef ph cfg fan) k s = (.ok (Go.mapGetOpt s.pwmMap k), s) := rfl

theorem downFrom_zero : Go.downFrom ((0 : Nat) : Int) 0 = [0] := by
  simp [Go.downFrom]

theorem downFrom_succ (n : Nat) : Go.downFrom ((n + 1 : Nat) : Int) 0 = ((n + 1 : Nat) : Int) :: Go.downFrom (n : Int) 0 := by
  unfold Go.downFrom
  have h1 : (((n + 1 : Nat) : Int) - 0 + 1).toNat = (n + 1) + 1 := by omega
  have h2 : ((n : Int) - 0 + 1).toNat = n + 1 := by omega
  rw [h1, h2, List.range_succ_eq_map]
  simp only [List.map_cons, List.map_map]
  rw [List.cons.injEq]
  refine ⟨by omega, ?_⟩
  apply List.map_congr_left
  intro j _
  simp only [Function.comp]
  omega

theorem mapPut_lt (acc : List (Int × Int)) (k v : Int) (h : ∀ p ∈ acc.head?, k < p.1) :
    Go.mapPut acc k v = (k, v) :: acc := by
  cases acc with
  | nil => rfl
  | cons p rest =>
    obtain ⟨k', v'⟩ := p
    have : k < k' := h (k', v') (by simp)
    simp [Go.mapPut, this]

theorem i_setPwm (s : InitSt) (v : Int) : (initOps indef ph cfg fan).fan_SetPwm v s = (.ok none, { s with regs := ph.write s.regs v }) := rfl
theorem i_getPwm (s : InitSt) : (initOps indef ph cfg fan).fan_GetPwm s
    = (.ok (if cfg.pwmRead then (s.regs.pwm, none) else (0, some "read")), s) := rfl

theorem i_getPwm' (hp : cfg.pwmRead = true) (s : InitSt) : (initOps indef ph cfg fan).fan_GetPwm s
    = (.ok (s.regs.pwm, none), s) := by rw [i_getPwm, hp]; rfl
theorem run_deref_some {σ α : Type} (a : α) (s : σ) : (Go.deref (some a) : GoM σ α) s = (.ok a, s) := rfl

theorem sweep_loop (hp : cfg.pwmRead = true) : ∀ (n : Nat) (s : InitSt) (acc : List (Int × Int)),
    (∀ p ∈ acc.head?, (n : Int) < p.1) →
    forIn (m := GoM InitSt) (Go.downFrom (n : Int) 0) (some acc)
              (fun i __s => do
                let _ ← (initOps indef ph cfg fan).fan_SetPwm i
                let __r23 ← (initOps indef ph cfg fan).fan_GetPwm
                if __r23.2 ≠ none then do
                    let __do_lift ← Go.deref __s
                    pure (ForInStep.yield (some (Go.mapPut __do_lift i __r23.1)))
                  else do
                    let __do_lift ← Go.deref __s
                    pure (ForInStep.yield (some (Go.mapPut __do_lift i __r23.1))))
              s
      = (.ok (some (sweepFrom ph n s.regs acc).2), { s with regs := (sweepFrom ph n s.regs acc).1 }) := by
  intro n
  induction n with
  | zero =>
    intro s acc h
    rw [downFrom_zero, List.forIn_cons]
    simp only [run_bind, run_pure, run_ite, i_setPwm, i_getPwm' indef ph cfg fan hp, ne_eq, not_true_eq_false, if_false,
      run_deref_some, List.forIn_nil]
    have h' : ∀ p ∈ acc.head?, (0 : Int) < p.1 := h
    rw [mapPut_lt _ _ _ h']
    simp [sweepFrom]
  | succ n ih =>
    intro s acc h
    rw [downFrom_succ, List.forIn_cons]
    simp only [run_bind, run_pure, run_ite, i_setPwm, i_getPwm' indef ph cfg fan hp, ne_eq, not_true_eq_false, if_false,
      run_deref_some]
    rw [mapPut_lt _ _ _ h]
    rw [ih]
    · simp [sweepFrom]
    · intro p hp'
      simp at hp'
      subst hp'
      simp

theorem i_supports0 (s : InitSt) : (initOps indef ph cfg fan).fan_Supports 0 s = (.ok cfg.pwmRead, s) := rfl
theorem i_interp (s : InitSt) : (initOps indef ph cfg fan).interpolateLinearlyInt (some [(0, 0), (255, 255)]) 0 255 s
    = (.ok (some (defaultPwmMap indef)), s) := by
  show ((if _ then _ else _), s) = _
  simp
theorem i_manual (s : InitSt) : (initOps indef ph cfg fan).trySetManualPwm s
    = (.ok none, { s with regs := trySetManual ph cfg s.regs }) := rfl
theorem i_getStart (s : InitSt) : (initOps indef ph cfg fan).fan_GetStartPwm s = (.ok fan.getStart, s) := rfl

theorem sweep_loop255 (hp : cfg.pwmRead = true) (s : InitSt) :
    forIn (m := GoM InitSt) (Go.downFrom 255 0) (some [])
              (fun i __s => do
                let _ ← (initOps indef ph cfg fan).fan_SetPwm i
                let __r23 ← (initOps indef ph cfg fan).fan_GetPwm
                if __r23.2 ≠ none then do
                    let __do_lift ← Go.deref __s
                    pure (ForInStep.yield (some (Go.mapPut __do_lift i __r23.1)))
                  else do
                    let __do_lift ← Go.deref __s
                    pure (ForInStep.yield (some (Go.mapPut __do_lift i __r23.1))))
              s
      = (.ok (some (sweep ph s.regs).2), { s with regs := (sweep ph s.regs).1 }) :=
  sweep_loop indef ph cfg fan hp 255 s [] (by simp)

end T3I
open T3G T3I

variable (indef : Int) (ph : Phys) (cfg : FanCfg) (fan : FanSt) (c : CtlSt) (st : DStore) (r : Regs)

theorem trans3_init_applyPwmMapping (k : Int) :
    Generated3.init_applyPwmMapping indef (initOps indef ph cfg fan) k (eraseCtl c st r)
      = (.ok (c.mapping k), eraseCtl c st r) := by
  unfold Generated3.init_applyPwmMapping
  simp only [run_bind, run_pure, i_getMap]
  unfold CtlSt.mapping eraseCtl Go.mapGetOpt
  cases h : c.pwmMap <;> simp [goMapGet_eq]

/-- `computePwmMapAutomatically`: the default map for a fan whose PWM cannot be read, else manual mode, the 255 → 0 sweep
    with read-back, and the start PWM written through the new map -/
theorem trans3_init_computePwmMapAutomatically :
    Generated3.init_computePwmMapAutomatically indef (initOps indef ph cfg fan) (eraseCtl c st r)
      = (.ok (), eraseCtl (computeAuto indef ph cfg fan c r).2.1 st (computeAuto indef ph cfg fan c r).2.2) := by
  unfold Generated3.init_computePwmMapAutomatically
  cases hp : cfg.pwmRead
  · simp only [run_bind, run_pure, run_ite, i_supports0, hp, i_interp, i_setMap]
    simp [computeAuto, hp, eraseCtl]
  · simp only [run_bind, run_pure, run_ite, i_supports0, hp, i_manual, sweep_loop255 indef ph cfg fan hp, i_setMap,
      i_getStart, i_setPwm, not_true_eq_false, if_false]
    rw [applyMapping_run]
    simp [computeAuto, hp, eraseCtl, Go.mapGetOpt, goMapGet_eq]

/-- `computePwmMapLocked`: configured map, else stored map, else (unless the controller already has one) the automatic
    detection, and the save -/
theorem trans3_init_computePwmMapLocked :
    Generated3.init_computePwmMapLocked indef (initOps indef ph cfg fan) (eraseCtl c st r)
      = (.ok none, eraseCtl (computePwmMapLockedD indef ph cfg fan c st r).2.1
                            (computePwmMapLockedD indef ph cfg fan c st r).2.2.1
                            (computePwmMapLockedD indef ph cfg fan c st r).2.2.2) := by
  unfold Generated3.init_computePwmMapLocked
  have hauto := trans3_init_computePwmMapAutomatically indef ph cfg fan c st r
  cases hk : cfg.kind <;> cases hm : cfg.cfgMap <;>
    simp only [run_bind, run_pure, run_ite, i_tag, hk, i_cfgMap, hm, i_id, i_load, i_save, i_getMap, i_setMap,
      run_deref_some, run_deref_none, ne_eq, not_true_eq_false, if_false, if_true, reduceCtorEq, not_false_eq_true, Int.reduceEq, hauto]
  all_goals
    unfold computePwmMapLockedD
    simp only [hm]
    cases hs : st.map <;> cases hc : c.pwmMap <;> simp [eraseCtl, hs, hc]

/-- `updateDistinctPwmValues`, for a key-sorted map (what every map of the model is: `sort.Ints` then changes nothing) -/
theorem trans3_init_updateDistinctPwmValues
    (hs : ∀ p, c.pwmMap = some p → SortedMap p.2) :
    Generated3.init_updateDistinctPwmValues indef (initOps indef ph cfg fan) (eraseCtl c st r)
      = (.ok (), eraseCtl (updateDistinct c) st r) := by
  unfold Generated3.init_updateDistinctPwmValues
  have hsm : SortedMap ((eraseCtl c st r).pwmMap.getD []) := by
    unfold eraseCtl
    cases h : c.pwmMap with
    | none => simp [SortedMap]
    | some p => simpa using hs p h
  simp only [run_bind, run_pure, i_getMap, run_liftRes, trans2_util_ExtractKeysWithDistinctValues indef _ hsm,
    i_sort, i_setDistinct]
  have hsorted := extractKeys_sorted _ hsm
  rw [List.mergeSort_of_pairwise (le := fun x y => decide (x ≤ y))]
  · unfold updateDistinct eraseCtl
    cases h : c.pwmMap <;> simp [extractKeys, extractKeysAux]
  · exact hsorted.imp (fun h => by simpa using Int.le_of_lt h)

end Fan2go

#print axioms Fan2go.trans3_init_applyPwmMapping
#print axioms Fan2go.trans3_init_computePwmMapAutomatically
#print axioms Fan2go.trans3_init_computePwmMapLocked
#print axioms Fan2go.trans3_init_updateDistinctPwmValues
