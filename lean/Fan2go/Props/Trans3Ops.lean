/-
  Translation tie, third generation: the record of operations `Generated3.CtlOps` instantiated with the primitives of
  the hand-written model (`Model/Fan.lean`, `Model/Controller.lean`) on the model's `World`.

  With this instantiation every translated method of `Generated/Trans3.lean` (regenerated from controller.go on every
  run) is a function `World → Res _ × World`; the theorems `trans3_*` (Props/Trans3*.lean) state that it computes the
  model's function of the same name.  Go returns a VALUE next to a non-nil error (`return -1, err`); the model's `Res`
  carries none, so results are compared by `Agrees` (same error / same value when there is no error).

  Core Lean only.
-/
import Fan2go.Generated.Trans3
import Fan2go.Model.Controller
namespace Fan2go
open F64

/-- `fans.FeatureFlag` (FeaturePwmSensor = 0, FeatureRpmSensor = 1, FeatureControlMode = 2; the numeric values are
    re-read from the source by the translator, which prints them next to each use) -/
def featureOf (k : Int) : Option Feature :=
  if k = 0 then some .pwmSensor else if k = 1 then some .rpmSensor else if k = 2 then some .controlMode else none

/-- a `(value, error)` pair of Go against a `Res` of the model -/
def Agrees {α : Type} (g : α × Option String) (r : Res α) : Prop :=
  match g.2, r with
  | none, .ok v => g.1 = v
  | some e, .err e' => e = e'
  | _, _ => False

def t3ErrOf {α : Type} : Res α → Option String
  | .ok _ => none
  | .err e => some e
  | .panic p => some p        -- not used: panics are propagated by the operations, never returned as errors

/-- lift a model read `Res Int` into a Go `(int, error)` result; `dflt` is the value Go returns next to the error -/
def goRead {σ : Type} (dflt : Int) (r : Res Int) : GoM σ (Int × Option String) := fun s =>
  match r with
  | .ok v => (.ok (v, none), s)
  | .err e => (.ok (dflt, some e), s)
  | .panic p => (.panic p, s)

/-- `fan.GetRpm()` of the model: the read, plus the `fan.Rpm` field a successful read of a file / cmd fan stores
    (that field IS their RPM average) -/
def modelGetRpm : GoM World (Int × Option String) := fun w =>
  let rpmR := fanGetRpm w.fan w.dev
  let fan := match rpmR, w.fan.kind with
    | .ok v, .file => { w.fan with rpmInt := v }
    | .ok v, .cmd => if w.dev.hasRpm then { w.fan with rpmInt := v } else w.fan
    | _, _ => w.fan
  goRead 0 rpmR { w with fan := fan }

/-- `fan.UpdateFanRpmCurveValue(pwm, rpm)` of the model (hwmon fans keep the measured curve) -/
def modelUpdateCurveValue (pwm : Int) (rpm : F64) : GoM World Unit := fun w =>
  let fan := match w.fan.kind with
    | .hwmon =>
      let cd := w.fan.curveData.getD []
      let cd' := if cd.any (·.1 == pwm) then cd.map (fun p => if p.1 == pwm then (pwm, rpm) else p)
                 else cd ++ [(pwm, rpm)]
      { w.fan with curveData := some cd' }
    | _ => w.fan
  (.ok (), { w with fan := fan })

/-- the record of operations over the model world; `curve` is the outcome of `f.curve.Evaluate()` in this cycle and
    `now` the clock reading of `f.controlLoop.Cycle` (both are inputs of the model's functions as well) -/
def modelOps (indef : Int) (curve : Res Int) (now : Int) : Generated3.CtlOps World where
  fan_Supports := fun k w => match featureOf k with
    | some ft => (.ok (supports w.fan w.dev ft), w)
    | none => (.ok false, w)
  fan_GetPwm := fun w => goRead 0 (fanGetPwm w.dev) w
  fan_SetPwm := fun v w => let (d', r) := fanSetPwm w.dev v; (.ok (t3ErrOf r), { w with dev := d' })
  fan_GetMinPwm := fun w => (.ok w.fan.getMin, w)
  fan_GetMaxPwm := fun w => (.ok w.fan.getMax, w)
  fan_GetRpm := modelGetRpm
  fan_GetRpmAvg := fun w => (.ok w.fan.getRpmAvg, w)
  fan_SetRpmAvg := fun x w => (.ok (), { w with fan := w.fan.setRpmAvg indef x })
  fan_ShouldNeverStop := fun w => (.ok w.fan.neverStop, w)
  fan_SetPwmEnabled := fun v w => match setPwmEnabled w.fan w.dev v with
    | (d', r, _) => (.ok (t3ErrOf r), { w with dev := d' })
  fan_UpdateFanRpmCurveValue := modelUpdateCurveValue
  curve_Evaluate := goRead 0 curve
  controlLoop_Cycle := fun t c w =>
    let (loop', r) := w.ctl.loop.cycle indef t c now
    (.ok r, { w with ctl := { w.ctl with loop := loop' } })
  get_lastSetPwm := fun w => (.ok w.ctl.lastSet, w)
  set_lastSetPwm := fun v w => (.ok (), { w with ctl := { w.ctl with lastSet := v } })
  get_pwmMap := fun w => (.ok w.ctl.pwmMap, w)
  get_pwmValuesWithDistinctTarget := fun w => (.ok w.ctl.distinct, w)
  get_minPwmOffset := fun w => (.ok w.ctl.offset, w)
  set_minPwmOffset := fun v w => (.ok (), { w with ctl := { w.ctl with offset := v } })
  get_stats_UnexpectedPwmValueCount := fun w => (.ok w.ctl.unexpectedCount, w)
  set_stats_UnexpectedPwmValueCount := fun v w => (.ok (), { w with ctl := { w.ctl with unexpectedCount := v } })
  -- `stats.MinPwmOffset` mirrors `minPwmOffset` (written right after it, read by the statistics collector only)
  get_stats_MinPwmOffset := fun w => (.ok w.ctl.offset, w)
  set_stats_MinPwmOffset := fun _ w => (.ok (), w)
  get_stats_IncreasedMinPwmCount := fun w => (.ok w.ctl.increasedCount, w)
  set_stats_IncreasedMinPwmCount := fun v w => (.ok (), { w with ctl := { w.ctl with increasedCount := v } })
  get_originalPwmValue := fun w => (.ok w.ctl.origPwm, w)
  get_originalPwmEnabled := fun w => (.ok w.ctl.origMode, w)
  get_cfg_RpmRollingWindowSize := fun w => (.ok w.rpmWindow, w)

end Fan2go
