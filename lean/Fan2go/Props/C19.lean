/-
  C19 "External commands cannot hang or crash fan2go".

  Model: `safeCmdExecution` (= util.SafeCmdExecution, internal/util/exec.go) over the abstract process
  behaviour `Beh`; callers `cmdUserValue` / `cmdUserSet` (sensors/cmd.go, fans/cmd.go).
  Tied to the real code by stream `ex` (`ex.run`, `ex.user`: real scripts, real processes, wall clock).

  Verdict of the proofs: the full-strength property is REFUTED for the code that exists
  (`C19_refuted`), with one theorem per concrete witness; each witness is replayed on the real code
  by an `ex.run` op named in its doc comment. What does hold is `C19_partial`.
-/
import Fan2go.Proofs.Exec
namespace Fan2go

/-- the "small margin" of the property statement, in ms -/
def c19MarginMs : Nat := 500

/-- The conclusion of C19 for one call: the result is an error or the command's trimmed output,
    it is not a panic, and the call is bounded by `timeout + margin`. -/
def C19_ok (beh : Beh) (timeout : Nat) (o : ExecOut) : Prop :=
  ((∃ e, o.res = .ok (.error e)) ∨ (∃ out, beh.stdout = some out ∧ o.res = .ok (.ok (trimNl out))))
  ∧ o.res.isPanic = false
  ∧ ∃ b, o.boundedBy = some b ∧ b ≤ timeout + c19MarginMs

/-- **C19 at full strength**: for every state of the executable file, every behaviour of the command
    and every timeout. -/
def C19_statement : Prop :=
  ∀ (ev : EvalRes) (st : StatRes) (beh : Beh) (timeout : Nat),
    C19_ok beh timeout (safeCmdExecution ev st beh timeout)

/-- a root-owned 0755 executable: passes the permission check -/
def c19GoodFile : StatRes := .ok ⟨0, 0, 0o755⟩

/-! ### witnesses against the full statement -/

/-- **Witness 1 – the command cannot be started** (no x bit / bad format / missing interpreter):
    `cmd.Output()` returns a `*fs.PathError`, the unchecked `err.(*exec.ExitError)` PANICS.
    Real code: `ex.run beh=notexec timeout_ms=2000`, `beh=badformat`, `beh=vanish` → `res=panic:typeassert`;
    `ex.perm owner=0 group=0 mode=644 link=0` → `check=ok run=panic:typeassert marker=0`. -/
theorem C19_witness_start_error :
    (safeCmdExecution .resolved c19GoodFile .startError 2000).res = .panic "type-assertion" := by decide

/-- **Witness 2 – a grandchild keeps stdout open** (`(sleep 30 &); echo hi`): no `cmd.WaitDelay`, so
    `Output()` waits for the pipe, not for the deadline – the call is not bounded at all.
    Real code: `ex.run beh=grandchild timeout_ms=300` → `res=blocked within=0`. -/
theorem C19_witness_grandchild :
    (safeCmdExecution .resolved c19GoodFile (.grandchildHoldsStdout "hi\n" .forever) 2000).boundedBy = none := by
  decide

/-- **Witness 3 – the ordinary hanging script** (`#!/bin/sh` + `sleep 30`): the shell is killed at the
    deadline, its child `sleep` inherited stdout and holds it for the full 30 s.
    Real code: `ex.run beh=sleep timeout_ms=200` → `res=blocked within=0`
    (whereas `beh=execsleep`, no orphan, → `res=err within=1`). -/
theorem C19_witness_shell_sleep :
    (safeCmdExecution .resolved c19GoodFile (.outlivesDeadline (some (.ms 30000))) 2000).boundedBy = some 30000 := by
  decide

/-- **Witness 4 – late AND wrong**: when the pipe is released after the deadline the call returns
    `("", nil)`: no error although the output "hi" was thrown away (`return "", err` with `err == nil`).
    Real code: `ex.run beh=grandchild timeout_ms=300 hold_ms=1300` → `res=ok:0: within=0`. -/
theorem C19_witness_late_empty :
    (safeCmdExecution .resolved c19GoodFile (.grandchildHoldsStdout "hi\n" (.ms 4000)) 2000)
      = { res := .ok (.ok ""), attempted := true, ran := true, boundedBy := some 4000 } := by decide

/-- **Witness 5 – `os.Stat` fails with something else than not-exist**: `info` is nil, `info.Sys()`
    panics. (Not reachable for root on a local file system; modelled branch only.) -/
theorem C19_witness_stat_error (beh : Beh) (t : Nat) :
    (safeCmdExecution .resolved .otherErr beh t).res = .panic "nil" := rfl

theorem C19_not_ok_start_error :
    ¬ C19_ok .startError 2000 (safeCmdExecution .resolved c19GoodFile .startError 2000) := by
  intro h
  have := h.2.1
  rw [C19_witness_start_error] at this
  exact absurd this (by decide)

theorem C19_not_ok_grandchild :
    ¬ C19_ok (.grandchildHoldsStdout "hi\n" .forever) 2000
        (safeCmdExecution .resolved c19GoodFile (.grandchildHoldsStdout "hi\n" .forever) 2000) := by
  intro h
  obtain ⟨b, hb, _⟩ := h.2.2
  rw [C19_witness_grandchild] at hb
  cases hb

theorem C19_not_ok_shell_sleep :
    ¬ C19_ok (.outlivesDeadline (some (.ms 30000))) 2000
        (safeCmdExecution .resolved c19GoodFile (.outlivesDeadline (some (.ms 30000))) 2000) := by
  intro h
  obtain ⟨b, hb, hle⟩ := h.2.2
  rw [C19_witness_shell_sleep] at hb
  cases hb
  exact absurd hle (by decide)

/-- **C19 is refuted** for the code that exists. -/
theorem C19_refuted : ¬ C19_statement :=
  fun h => C19_not_ok_start_error (h .resolved c19GoodFile .startError 2000)

/-- the second, independent refutation (hang instead of crash) -/
theorem C19_refuted_by_hang : ¬ C19_statement :=
  fun h => C19_not_ok_grandchild (h .resolved c19GoodFile (.grandchildHoldsStdout "hi\n" .forever) 2000)

/-! ### what does hold -/

/-- behaviours for which the code is fine: the command starts, and nobody but the command itself holds
    its stdout (it may exit with any code, be killed, print anything, or ignore the deadline) -/
def Beh.benign : Beh → Prop
  | .startError => False
  | .exits _ _ => True
  | .killedBySignal _ => True
  | .outlivesDeadline none => True
  | .outlivesDeadline (some _) => False
  | .grandchildHoldsStdout _ _ => False

/-- **C19, the part that holds.** For every file state except the unreachable stat-error branch, every
    benign behaviour and every timeout (0 included) the call returns an error or the trimmed output,
    does not panic, and is bounded by the timeout (margin 0 in model time). -/
theorem C19_partial (ev : EvalRes) (st : StatRes) (beh : Beh) (timeout : Nat)
    (hb : beh.benign) (hs : st ≠ .otherErr) :
    C19_ok beh timeout (safeCmdExecution ev st beh timeout) := by
  unfold safeCmdExecution
  -- the permission check: error value, or passed
  have hperm : (∃ e, checkPerm ev st = .ok (.error e)) ∨ checkPerm ev st = .ok (.ok ()) := by
    cases ev with
    | err => exact Or.inl ⟨_, rfl⟩
    | resolved =>
      cases st with
      | notExist => exact Or.inl ⟨_, rfl⟩
      | otherErr => exact absurd rfl hs
      | ok s =>
        rcases checkPerm_ok_cases s with h | h
        · exact Or.inr h
        · exact Or.inl h
  rcases hperm with ⟨e, he⟩ | hp
  · rw [he]
    exact ⟨Or.inl ⟨_, rfl⟩, rfl, 0, rfl, Nat.zero_le _⟩
  · rw [hp]
    simp only [safeCmd]
    unfold runCmd
    by_cases ht : timeout = 0
    · simp only [ht, if_true]
      exact ⟨Or.inl ⟨_, rfl⟩, rfl, 0, rfl, Nat.zero_le _⟩
    · simp only [ht, if_false]
      match beh, hb with
      | .exits code out, _ =>
        by_cases hc : code = 0
        · subst hc
          exact ⟨Or.inr ⟨out, rfl, rfl⟩, rfl, timeout, rfl, Nat.le_add_right _ _⟩
        · simp only [hc, if_false]
          exact ⟨Or.inl ⟨_, rfl⟩, rfl, timeout, rfl, Nat.le_add_right _ _⟩
      | .killedBySignal _, _ => exact ⟨Or.inl ⟨_, rfl⟩, rfl, timeout, rfl, Nat.le_add_right _ _⟩
      | .outlivesDeadline none, _ => exact ⟨Or.inl ⟨_, rfl⟩, rfl, timeout, rfl, Nat.le_add_right _ _⟩

/-- a holder that lets go before the deadline is harmless as well -/
theorem C19_partial_early_release (out : String) (h timeout : Nat) (hh : h < timeout) :
    C19_ok (.grandchildHoldsStdout out (.ms h)) timeout
      (safeCmdExecution .resolved c19GoodFile (.grandchildHoldsStdout out (.ms h)) timeout) := by
  have hp : checkPerm .resolved c19GoodFile = .ok (.ok ()) := by decide
  have ht : timeout ≠ 0 := by omega
  unfold safeCmdExecution
  rw [hp]
  simp only [safeCmd, runCmd, ht, if_false, hh, if_true]
  exact ⟨Or.inr ⟨out, rfl, rfl⟩, rfl, h, rfl, by omega⟩

/-- a panic inside `SafeCmdExecution` is not recovered by any caller: it reaches the sensor monitor /
    the fan controller goroutine. Real code: `ex.user kind=sensor beh=notexec` → `res=panic:typeassert`. -/
theorem C19_panic_reaches_callers {α : Type} (parse : String → Option α) (o : ExecOut) (site : String)
    (h : o.res = .panic site) :
    cmdUserValue parse o = .panic site ∧ cmdUserSet o = .panic site := by
  simp [cmdUserValue, cmdUserSet, h]

/-- callers turn every non-panicking outcome into a value or an error -/
theorem C19_callers_total {α : Type} (parse : String → Option α) (o : ExecOut)
    (h : o.res.isPanic = false) (h' : ∀ e, o.res ≠ .err e) :
    (∃ v, cmdUserValue parse o = .ok (.ok v)) ∨ (∃ e, cmdUserValue parse o = .ok (.error e)) := by
  unfold cmdUserValue
  match hr : o.res with
  | .ok (.ok s) =>
    cases hp : parse s with
    | some v => exact Or.inl ⟨v, by simp [hp]⟩
    | none => exact Or.inr ⟨"parse", by simp [hp]⟩
  | .ok (.error e) => exact Or.inr ⟨e, rfl⟩
  | .err e => exact absurd hr (h' e)
  | .panic s => rw [hr] at h; simp [Res.isPanic] at h

/-! ### the trimmed text -/

/-- **C19, trim.** A returned text is the command's stdout with leading/trailing `'\n'` removed – or,
    in the late-release case of witness 4, the empty string. -/
theorem C19_trim (ev : EvalRes) (st : StatRes) (beh : Beh) (timeout : Nat) (s : String)
    (h : (safeCmdExecution ev st beh timeout).res = .ok (.ok s)) :
    (∃ out, beh.stdout = some out ∧ s = trimNl out) ∨
    (s = "" ∧ ∃ out hold, beh = .grandchildHoldsStdout out hold) := by
  unfold safeCmdExecution at h
  match hp : checkPerm ev st with
  | .ok (.error e) => rw [hp] at h; simp [safeCmd] at h
  | .err e => rw [hp] at h; simp [safeCmd] at h
  | .panic e => rw [hp] at h; simp [safeCmd] at h
  | .ok (.ok ()) =>
    rw [hp] at h
    simp only [safeCmd] at h
    unfold runCmd at h
    by_cases ht : timeout = 0
    · simp [ht] at h
    · simp only [ht, if_false] at h
      match beh with
      | .startError => simp at h
      | .killedBySignal _ => simp at h
      | .outlivesDeadline _ => simp at h
      | .exits code out =>
        by_cases hc : code = 0
        · subst hc
          simp at h
          exact Or.inl ⟨out, rfl, h.symm⟩
        · simp [hc] at h
      | .grandchildHoldsStdout out (.ms hd) =>
        by_cases hh : hd < timeout
        · simp [hh] at h
          exact Or.inl ⟨out, rfl, h.symm⟩
        · simp [hh] at h
          exact Or.inr ⟨h, out, _, rfl⟩
      | .grandchildHoldsStdout out .forever =>
        simp at h
        exact Or.inr ⟨h, out, _, rfl⟩

/-- Trim is idempotent -/
theorem C19_trim_idem (s : String) : trimNl (trimNl s) = trimNl s := trimNl_idem s

/-- Trim removes newlines at the two ends only: the input is `newlines ++ Trim input ++ newlines`,
    and the result neither starts nor ends with a newline. -/
theorem C19_trim_spec (s : String) :
    (∃ pre post, (∀ c ∈ pre, c = '\n') ∧ (∀ c ∈ post, c = '\n') ∧
        s.toList = pre ++ (trimNl s).toList ++ post) ∧
    (trimNl s).toList.head? ≠ some '\n' ∧ (trimNl s).toList.getLast? ≠ some '\n' := by
  rw [trimNl_toList]
  exact ⟨trimNlChars_split _, trimNlChars_head _, trimNlChars_last _⟩

/-- inner newlines (and every other character, blanks and tabs included) survive: a text that neither
    starts nor ends with `'\n'` is returned as is, whatever is in between -/
theorem C19_trim_inner (a b : Char) (mid : List Char) (ha : a ≠ '\n') (hb : b ≠ '\n') :
    trimNlChars (a :: (mid ++ [b])) = a :: (mid ++ [b]) := by
  apply trimNlChars_fixed
  · simpa using ha
  · rw [← List.cons_append, List.getLast?_append]
    simpa using hb

/-- and Trim is the ONLY such decomposition -/
theorem C19_trim_unique {pre m post : List Char}
    (hpre : ∀ c ∈ pre, c = '\n') (hpost : ∀ c ∈ post, c = '\n')
    (hhead : m.head? ≠ some '\n') (hlast : m.getLast? ≠ some '\n') :
    trimNlChars (pre ++ m ++ post) = m := trimNlChars_unique hpre hpost hhead hlast

/-! ### non-vacuity -/

example : C19_ok (.exits 0 "42\n") 2000 (safeCmdExecution .resolved c19GoodFile (.exits 0 "42\n") 2000) :=
  C19_partial _ _ _ _ trivial (by decide)

example : (safeCmdExecution .resolved c19GoodFile (.exits 0 "\n\n abc\n\nx y\t\n\n") 2000).res
    = .ok (.ok " abc\n\nx y\t") := by decide

example : (safeCmdExecution .resolved c19GoodFile (.exits 3 "55\n") 2000).res = .ok (.error "exit status") := by
  decide

example : (safeCmdExecution .resolved c19GoodFile (.outlivesDeadline none) 200)
    = { res := .ok (.error "signal: killed"), attempted := true, ran := true, boundedBy := some 200 } := by
  decide

/-- an expired context starts nothing, not even a command that could not be started -/
example : (safeCmdExecution .resolved c19GoodFile .startError 0).res = .ok (.error "context deadline exceeded") := by
  decide

example : trimNl "\n\n" = "" ∧ trimNl "" = "" ∧ trimNl "7\n" = "7" ∧ trimNl "a\nb" = "a\nb" := by decide

#print axioms C19_refuted
#print axioms C19_refuted_by_hang
#print axioms C19_witness_start_error
#print axioms C19_witness_grandchild
#print axioms C19_witness_shell_sleep
#print axioms C19_witness_late_empty
#print axioms C19_witness_stat_error
#print axioms C19_partial
#print axioms C19_partial_early_release
#print axioms C19_panic_reaches_callers
#print axioms C19_callers_total
#print axioms C19_trim
#print axioms C19_trim_idem
#print axioms C19_trim_spec
#print axioms C19_trim_inner
#print axioms C19_trim_unique

end Fan2go
